(* C07 - property theorems only.  g is ANY oversampled grid (list of rationals), h ANY kernel
   vector, fts ANY list of frame times unless a statement says otherwise.  `leq` is pointwise
   == of rational vectors of equal length. *)
From Coq Require Import String Ascii.
From Coq Require Import List ZArith QArith Qabs Bool Lia Lqa.
From NV.Lib Require Import Harness.
From NV.C07 Require Import Model Proofs Proofs2 Proofs3.
Import ListNotations.
Open Scope Q_scope.

(* ---------------------------------------------------------------- (1) superposition *)
(* The high-resolution regressor of a union of event lists is the sum of the regressors -
   no side condition: events may share an oversampled bin (np.add.at accumulates). *)
Theorem hr_regressor_superposition : forall g e1 e2,
  leq (sample_condition g (e1 ++ e2)) (vadd (sample_condition g e1) (sample_condition g e2)).
Proof. exact sample_condition_app. Qed.
Print Assumptions hr_regressor_superposition.

Theorem hr_regressor_linear_in_amplitudes : forall g c evs,
  leq (sample_condition g (map (scale_ev c) evs)) (vscale c (sample_condition g evs)).
Proof. exact sample_condition_scale. Qed.
Print Assumptions hr_regressor_linear_in_amplitudes.

(* main regressor = interp1d(hr grid, convolve(hr regressor, h)[:N])(frame times) *)
Theorem main_regressor_superposition : forall g fts h e1 e2,
  leq (main_regressor g fts h (e1 ++ e2)) (vadd (main_regressor g fts h e1) (main_regressor g fts h e2)).
Proof. exact main_regressor_app. Qed.
Print Assumptions main_regressor_superposition.

Theorem main_regressor_linear_in_amplitudes : forall g fts h c evs,
  leq (main_regressor g fts h (map (scale_ev c) evs)) (vscale c (main_regressor g fts h evs)).
Proof. exact main_regressor_scale. Qed.
Print Assumptions main_regressor_linear_in_amplitudes.

(* the regressor of a set of events is the amplitude-weighted sum of the unit single-event regressors *)
Theorem main_regressor_is_weighted_sum_of_single_event_regressors : forall g fts h evs,
  leq (main_regressor g fts h evs) (sum_singles g fts h evs).
Proof. exact main_regressor_sum_singles. Qed.
Print Assumptions main_regressor_is_weighted_sum_of_single_event_regressors.

(* every column of a multi-kernel model BEFORE _orthogonalize is such a regressor; column 0 is never touched by it *)
Theorem orthogonalize_keeps_main_column : forall c cols, exists rest, orthogonalize (c :: cols) = c :: rest.
Proof.
  intros c cols. unfold orthogonalize. cbn [fold_left app orth_col].
  assert (G : forall l d r, exists rest, fold_left (fun done x => done ++ [orth_col done x]) l (d :: r) = d :: rest).
  { induction l as [|x l IH]; intros d r; cbn [fold_left]; [eexists; reflexivity|]. apply (IH d (r ++ [orth_col (d :: r) x])). }
  apply G.
Qed.
Print Assumptions orthogonalize_keeps_main_column.

(* ---------------------------------------------------------------- (2) causality *)
(* before the first onset bin both the high-resolution regressor and its convolution with any kernel vanish *)
Theorem regressor_zero_before_first_onset_bin : forall g h evs j, (j < length g)%nat ->
  (forall e, In e evs -> 0 <= ev_dur e /\ (j < t_onset g e)%nat) ->
  nth j (sample_condition g evs) 0 == 0 /\ nth j (convt (sample_condition g evs) h) 0 == 0.
Proof. exact conv_zero_before. Qed.
Print Assumptions regressor_zero_before_first_onset_bin.

(* resampled: zero at every time t that is not later than a grid point lying before all onset bins *)
Theorem main_regressor_causal : forall g h evs t p, (1 <= p)%nat -> (p < length g)%nat -> t <= nth p g 0 ->
  (forall e, In e evs -> 0 <= ev_dur e /\ (p < t_onset g e)%nat) ->
  interp1 g (convt (sample_condition g evs) h) t == 0.
Proof. exact Proofs.main_regressor_causal. Qed.
Print Assumptions main_regressor_causal.

(* on the uniform grid s + i*dt, at a scan time that is a grid point: zero whenever the scan is before all onsets *)
Theorem main_regressor_causal_at_grid_scan_times : forall s dt N h evs p, 0 < dt -> (1 <= p)%nat -> (p < N - 1)%nat ->
  (forall e, In e evs -> 0 <= ev_dur e /\ s + qnat p * dt < ev_onset e) ->
  interp1 (ugrid s dt N) (convt (sample_condition (ugrid s dt N) evs) h) (s + qnat p * dt) == 0.
Proof. exact main_regressor_causal_on_grid. Qed.
Print Assumptions main_regressor_causal_at_grid_scan_times.

(* ---------------------------------------------------------------- (3) shift-equivariance *)
Theorem searchsorted_uniform_shift : forall s dt N x m, 0 < dt -> s <= x ->
  (searchsorted (ugrid s dt N) x + m <= N)%nat ->
  searchsorted (ugrid s dt N) (x + qnat m * dt) = (searchsorted (ugrid s dt N) x + m)%nat.
Proof. exact ss_ugrid_shift. Qed.
Print Assumptions searchsorted_uniform_shift.

(* delaying all onsets by m bins delays the high-resolution and the convolved regressor by m bins
   (events inside the grid also after the delay, so that the tmax-1 clip is not involved) *)
Theorem regressor_shift_equivariant_bins : forall s dt N m h evs, 0 < dt ->
  (forall e, In e evs -> inside s dt N m e) ->
  forall j, (j + m < N)%nat ->
  nth (j + m) (sample_condition (ugrid s dt N) (map (shift_ev (qnat m * dt)) evs)) 0
    == nth j (sample_condition (ugrid s dt N) evs) 0 /\
  nth (j + m) (convt (sample_condition (ugrid s dt N) (map (shift_ev (qnat m * dt)) evs)) h) 0
    == nth j (convt (sample_condition (ugrid s dt N) evs) h) 0.
Proof. exact conv_shift. Qed.
Print Assumptions regressor_shift_equivariant_bins.

(* scans at grid points off + r*os (TR = os*dt): delaying all onsets by k TR moves the regressor by k rows *)
Theorem main_regressor_shift_equivariant : forall s dt N os off k r h evs, 0 < dt ->
  (forall e, In e evs -> inside s dt N (k * os) e) ->
  (1 <= off + r * os)%nat -> (off + (r + k) * os < N)%nat ->
  interp1 (ugrid s dt N) (convt (sample_condition (ugrid s dt N) (map (shift_ev (qnat k * (qnat os * dt))) evs)) h)
          (s + qnat (off + (r + k) * os) * dt)
  == interp1 (ugrid s dt N) (convt (sample_condition (ugrid s dt N) evs) h) (s + qnat (off + r * os) * dt).
Proof.
  intros s dt N os off k r h evs Hd H H1 H2.
  replace (off + (r + k) * os)%nat with ((off + r * os) + k * os)%nat by lia.
  rewrite <- (main_regressor_shift s dt N (k * os) h evs (off + r * os) Hd H H1) by lia.
  assert (E : forall e, shift_ev (qnat k * (qnat os * dt)) e = shift_ev (qnat k * (qnat os * dt)) e) by reflexivity.
  assert (Q : qnat (k * os) * dt == qnat k * (qnat os * dt)).
  { unfold qnat. rewrite Nat2Z.inj_mul, inject_Z_mult. ring. }
  apply interp1_m. apply convt_m; [|reflexivity]. unfold sample_condition. apply cumsum_from_m; [reflexivity|].
  apply nth_leq; [rewrite !impulses_length; reflexivity|]. intros j Hj. rewrite impulses_length in Hj.
  rewrite !nth_impulses by exact Hj.
  assert (B : forall evs0, ons (ugrid s dt N) (map (shift_ev (qnat k * (qnat os * dt))) evs0) = ons (ugrid s dt N) (map (shift_ev (qnat (k * os) * dt)) evs0) /\
                           offs (ugrid s dt N) (map (shift_ev (qnat k * (qnat os * dt))) evs0) = offs (ugrid s dt N) (map (shift_ev (qnat (k * os) * dt)) evs0)).
  { induction evs0 as [|e l IH]; [split; reflexivity|]. destruct IH as [I1 I2]. unfold ons, offs in *. cbn [map]. rewrite I1, I2.
    assert (T1 : t_onset (ugrid s dt N) (shift_ev (qnat k * (qnat os * dt)) e) = t_onset (ugrid s dt N) (shift_ev (qnat (k * os) * dt) e)).
    { unfold t_onset, shift_ev, ev_onset. cbn [fst snd]. rewrite (ss_m _ (fst (fst e) + qnat k * (qnat os * dt)) (fst (fst e) + qnat (k * os) * dt)) by (rewrite Q; reflexivity). reflexivity. }
    assert (T2 : t_offset (ugrid s dt N) (shift_ev (qnat k * (qnat os * dt)) e) = t_offset (ugrid s dt N) (shift_ev (qnat (k * os) * dt) e)).
    { unfold t_offset. rewrite T1. unfold shift_ev, ev_onset, ev_dur. cbn [fst snd].
      rewrite (ss_m _ (fst (fst e) + qnat k * (qnat os * dt) + snd (fst e)) (fst (fst e) + qnat (k * os) * dt + snd (fst e))) by (rewrite Q; reflexivity). reflexivity. }
    rewrite T1, T2. split; reflexivity. }
  destruct (B evs) as [B1 B2]. rewrite B1, B2. reflexivity.
Qed.
Print Assumptions main_regressor_shift_equivariant.

(* scipy interp1d at a grid point returns the sample: scans on the grid read the convolved regressor directly *)
Theorem resample_at_grid_point : forall s dt N ys t p, 0 < dt -> (1 <= p)%nat -> (p < N)%nat -> t == s + qnat p * dt ->
  interp1 (ugrid s dt N) ys t == nth p ys 0.
Proof. exact interp1_on_ugrid. Qed.
Print Assumptions resample_at_grid_point.

(* ---------------------------------------------------------------- (4) kernels *)
Theorem fir_kernel_shape : forall d os,
  length (fir_kernel d os) = (d * os + os)%nat /\ vsum (fir_kernel d os) == qnat os /\
  (forall j, (j < d * os)%nat -> nth j (fir_kernel d os) 0 = 0) /\
  (forall j, nth (j + d * os) (fir_kernel d os) 0 = nth j (fir_kernel 0 os) 0).
Proof.
  intros d os. split; [apply fir_kernel_length|]. split; [apply fir_kernel_sum|]. split; [apply nth_fir_kernel_low|apply nth_fir_kernel].
Qed.
Print Assumptions fir_kernel_shape.

Theorem kernel_normalised_sums_to_one : forall h, ~ vsum h == 0 -> vsum (normalise h) == 1.
Proof. exact normalise_sum. Qed.
Print Assumptions kernel_normalised_sums_to_one.

(* ---------------------------------------------------------------- (5) names *)
(* one uniquely named column per condition x basis function, for ids without '_' (see the refuted clause below);
   `show` is Python's "%d" (contract: injective) *)
Theorem condition_names_distinct : forall (show : nat -> string), (forall a b, show a = show b -> a = b) ->
  forall cons m delays, NoDup cons -> NoDup delays -> (forall c, In c cons -> has_underscore c = false) ->
  NoDup (flat_map (fun c => regressor_names show c m delays) cons) /\
  length (flat_map (fun c => regressor_names show c m delays) cons) = (length cons * length (model_suffixes show m delays))%nat.
Proof.
  intros show Hs cons m delays H1 H2 H3. split; [apply condition_names_nodup; assumption|apply condition_names_count].
Qed.
Print Assumptions condition_names_distinct.

Theorem drift_names_distinct : forall (show : nat -> string), (forall a b, show a = show b -> a = b) ->
  forall n, NoDup (drift_names show n) /\ length (drift_names show n) = S (n - 1) /\ last (drift_names show n) ""%string = "constant"%string.
Proof.
  intros show Hs n. split; [apply drift_names_nodup; exact Hs|]. split; [apply drift_names_length|].
  unfold drift_names. apply last_last.
Qed.
Print Assumptions drift_names_distinct.

(* "given distinct condition ids" alone is not enough: an id that is another id plus a basis suffix collides *)
Theorem names_distinct_for_any_ids_refuted :
  exists cons, NoDup cons /\ str_nodup (dmtx_names show_nat cons CanonicalDeriv [] [] 1) = false.
Proof.
  exists ["a"%string; "a_derivative"%string]. split; [|vm_compute; reflexivity].
  constructor; [simpl; intros [H|[]]; discriminate|constructor; [intros []|constructor]].
Qed.
Print Assumptions names_distinct_for_any_ids_refuted.

(* ---------------------------------------------------------------- (6) what the theorems exclude: witnesses *)
Definition ft5 : list Q := [0; 2; 4; 6; 8].
(* the code before 6264c0b (fancy-indexed +=): two unit events at t=4 give the regressor of ONE event *)
Theorem overwrite_update_loses_coincident_events_refuted :
  let g := hr_grid [0; 1; 2; 3; 4] 16 (-24 # 1) in
  let e := (4 # 1, 1 # 1, 1 # 1) in
  qlist_eqb (sample_condition_overwrite g [e; e]) (sample_condition_overwrite g [e]) = true /\
  qlist_eqb (sample_condition_overwrite g [e; e]) (vadd (sample_condition_overwrite g [e]) (sample_condition_overwrite g [e])) = false /\
  qlist_eqb (sample_condition g [e; e]) (vadd (sample_condition g [e]) (sample_condition g [e])) = true.
Proof. vm_compute. auto. Qed.
Print Assumptions overwrite_update_loses_coincident_events_refuted.

(* finding: the oversampled grid of the code is NOT the uniform grid TR/oversampling when
   (n*TR - min_onset)*oversampling/TR is not an integer: the grid step is 17/8 instead of 2 here, scans are off
   the grid and the FIR regressor of an event at t=4.5 is 3/17 at the scan t=4 BEFORE the onset *)
Theorem causality_incommensurate_grid_refuted :
  exists ft os mo h e r, nth r ft 0 < ev_onset e /\ 0 <= ev_dur e /\
    Qeq_bool (nth r (main_regressor (hr_grid ft os mo) ft h [e]) 0) 0 = false.
Proof.
  exists ft5, 1%nat, (-7 # 1), [1], (9 # 2, 0, 1), 2%nat. split; [reflexivity|]. split; [discriminate|]. vm_compute. reflexivity.
Qed.
Print Assumptions causality_incommensurate_grid_refuted.

(* ... and delaying the onset by one scan (TR = 2) does not delay the regressor by one row *)
Theorem shift_incommensurate_grid_refuted :
  exists ft os mo h e TR r, nth (S r) ft 0 == nth r ft 0 + TR /\
    Qeq_bool (nth (S r) (main_regressor (hr_grid ft os mo) ft h [shift_ev TR e]) 0)
             (nth r (main_regressor (hr_grid ft os mo) ft h [e]) 0) = false.
Proof.
  exists ft5, 1%nat, (-7 # 1), [1], (9 # 2, 0, 1), 2, 2%nat. split; [reflexivity|]. vm_compute. reflexivity.
Qed.
Print Assumptions shift_incommensurate_grid_refuted.

(* ---------------------------------------------------------------- non-vacuity *)
(* the grid of the code IS the uniform grid in the commensurate case (3 scans, TR=1, oversampling 16, min_onset -24) *)
Example hr_grid_is_uniform_example :
  qlist_eqb (hr_grid [0; 1; 2] 16 (-24 # 1)) (ugrid (-24 # 1) (1 # 16) ((3 + 24) * 16 + 1)) = true.
Proof. vm_compute. reflexivity. Qed.
(* `inside` is satisfiable: an event at t=1 lasting 1/2 s, delayed by one scan (16 bins) *)
Example inside_example : inside (-24 # 1) (1 # 16) 433 16 (1, 1 # 2, 3).
Proof. unfold inside, ev_onset, ev_dur. cbn [fst snd]. split; [discriminate|]. split; [discriminate|]. vm_compute. lia. Qed.
(* a concrete coincident pair through the whole pipeline, FIR kernel of delay 1 at oversampling 4 *)
Example superposition_example :
  let g := hr_grid ft5 4 (-8 # 1) in
  qlist_eqb (main_regressor g ft5 (fir_kernel 1 4) [(2, 1, 1); (2, 0, 3)])
            (vadd (main_regressor g ft5 (fir_kernel 1 4) [(2, 1, 1)]) (main_regressor g ft5 (fir_kernel 1 4) [(2, 0, 3)])) = true
  /\ Qeq_bool (nth 2 (main_regressor g ft5 (fir_kernel 1 4) [(2, 1, 1); (2, 0, 3)]) 0) 0 = false.
Proof. vm_compute. auto. Qed.

(* ---------------------------------------------------------------- (7) the code's own grid *)
(* For EVERY commensurate input - scans 0, TR, .., (n-1)TR (up to ==), n >= 2, oversampling os >= 1 and
   min_onset = -(q bins of TR/os) - the grid computed by the code (n_hr formula, int(), np.linspace) is the
   uniform grid min_onset + i*TR/os with n*os + q + 1 points: nothing is lost by the int() truncation.
   (The defaults min_onset=-24, os=16 are covered whenever 24*16/TR is an integer, e.g. TR = 1, 2, 0.5, 3.) *)
Theorem hr_grid_is_uniform_when_commensurate : forall ft TR n os q, 0 < TR -> (2 <= n)%nat -> (1 <= os)%nat ->
  leq ft (scans TR n) ->
  leq (hr_grid ft os (- (qnat q * (TR / qnat os))))
      (ugrid (- (qnat q * (TR / qnat os))) (TR / qnat os) (n * os + q + 1)).
Proof. exact hr_grid_commensurate. Qed.
Print Assumptions hr_grid_is_uniform_when_commensurate.

(* regressors depend on the grid only up to == of its entries *)
Theorem main_regressor_respects_grid_equality : forall g g' fts h evs, leq g g' ->
  leq (main_regressor g fts h evs) (main_regressor g' fts h evs).
Proof. exact main_regressor_grid_leq. Qed.
Print Assumptions main_regressor_respects_grid_equality.

(* compute_regressor's main column on the code's grid: delaying all onsets by k scans moves it by k rows ... *)
Theorem main_regressor_shift_equivariant_on_code_grid : forall ft TR n os q, 0 < TR -> (2 <= n)%nat -> (1 <= os)%nat ->
  leq ft (scans TR n) ->
  forall h evs k r,
  (forall e, In e evs -> inside (- (qnat q * (TR / qnat os))) (TR / qnat os) (n * os + q + 1) (k * os) e) ->
  (1 <= q + r * os)%nat -> (r + k < n)%nat ->
  nth (r + k) (main_regressor (hr_grid ft os (- (qnat q * (TR / qnat os)))) ft h (map (shift_ev (qnat k * TR)) evs)) 0
  == nth r (main_regressor (hr_grid ft os (- (qnat q * (TR / qnat os)))) ft h evs) 0.
Proof. intros ft TR n os q HT Hn Hos Hft h evs k r. apply code_grid_shift; assumption. Qed.
Print Assumptions main_regressor_shift_equivariant_on_code_grid.

(* ... and it is zero at every scan before the first onset *)
Theorem main_regressor_causal_on_code_grid : forall ft TR n os q, 0 < TR -> (2 <= n)%nat -> (1 <= os)%nat ->
  leq ft (scans TR n) ->
  forall h evs r, (r < n)%nat -> (1 <= q + r * os)%nat ->
  (forall e, In e evs -> 0 <= ev_dur e /\ qnat r * TR < ev_onset e) ->
  nth r (main_regressor (hr_grid ft os (- (qnat q * (TR / qnat os)))) ft h evs) 0 == 0.
Proof. intros ft TR n os q HT Hn Hos Hft h evs r. apply code_grid_causal; assumption. Qed.
Print Assumptions main_regressor_causal_on_code_grid.

(* ---------------------------------------------------------------- (8) cosine drift (over R) *)
(* _cosine_drift, design_matrix.py l.78-91: column k-1 is t |-> sqrt(2/n) cos((pi/n)(t+.5)k), k = 1..order-1,
   t = 0..n-1, last column the constant 1.  PARTIAL: exact real arithmetic (the code computes in floating point;
   the oracle drift/cosine-column-order ties the implementation to this closed form to 1e-12), and order <= n,
   i.e. period_cut >= 2 TR (beyond that the code's columns alias and are not orthogonal). *)
From Coq Require Import Reals.
From NV.C07 Require ProofsR.
Close Scope R_scope.
Theorem cosine_drift_orthonormal_partial : forall n k l, (1 <= k < n)%nat -> (1 <= l < n)%nat ->
  (ProofsR.rsum (fun t => ProofsR.dct_col n k t * 1) n = 0)%R /\
  (k <> l -> ProofsR.rsum (fun t => ProofsR.dct_col n k t * ProofsR.dct_col n l t) n = 0)%R /\
  (ProofsR.rsum (fun t => ProofsR.dct_col n k t * ProofsR.dct_col n k t) n = 1)%R.
Proof.
  intros n k l [Hk1 Hk2] [Hl1 Hl2]. split; [apply ProofsR.dct_orthogonal_to_constant; lia|].
  split; [intros Hne; apply ProofsR.dct_orthogonal; lia|apply ProofsR.dct_unit_norm; lia].
Qed.
Print Assumptions cosine_drift_orthonormal_partial.

(* the DCT-II columns depend on the scan INDEX only: computed from scan times s + t*dt they need the time
   relative to the first scan; with time/dt the phase gets the origin-dependent offset (pi/n)(s/dt)k *)
Theorem cosine_drift_independent_of_time_origin : forall n k t s dt, (dt <> 0)%R ->
  (PI / INR n * (((s + INR t * dt) - s) / dt + / 2) * INR k = ProofsR.phase n t k)%R /\
  (PI / INR n * ((s + INR t * dt) / dt + / 2) * INR k = ProofsR.phase n t k + PI / INR n * (s / dt) * INR k)%R.
Proof. exact ProofsR.phase_from_times. Qed.
Print Assumptions cosine_drift_independent_of_time_origin.

(* ---------------------------------------------------------------- (9) paradigms in arbitrary listing order *)
Close Scope R_scope.
Open Scope Q_scope.
(* the regressor does not depend on the order in which the events are listed (any grid, kernel, amplitudes):
   onset, duration and amplitude of an event travel together *)
Theorem main_regressor_independent_of_listing_order : forall g fts h evs evs',
  Permutation.Permutation evs evs' -> leq (main_regressor g fts h evs) (main_regressor g fts h evs').
Proof. exact main_regressor_perm. Qed.
Print Assumptions main_regressor_independent_of_listing_order.

(* _convolve_regressors: the events of a condition are selected as whole (onset, duration, amplitude) records;
   re-listing the paradigm permutes them, events of other conditions do not enter *)
Theorem condition_events_selected_as_records : forall c par par',
  Permutation.Permutation par par' -> Permutation.Permutation (cond_events c par) (cond_events c par').
Proof. exact cond_events_perm. Qed.
Print Assumptions condition_events_selected_as_records.

Theorem condition_regressor_independent_of_listing_order_and_other_conditions : forall g fts h c par par' other,
  Permutation.Permutation par par' -> (forall p, In p other -> String.eqb (fst p) c = false) ->
  leq (main_regressor g fts h (cond_events c (par ++ other))) (main_regressor g fts h (cond_events c par')).
Proof.
  intros g fts h c par par' other P H. rewrite (cond_events_other c par other H).
  apply main_regressor_perm. apply cond_events_perm. exact P.
Qed.
Print Assumptions condition_regressor_independent_of_listing_order_and_other_conditions.

(* what the theorem excludes: pairing the chronologically sorted onsets with the amplitudes in listing order *)
Example sorted_onsets_unsorted_amplitudes_differs :
  let g := hr_grid ft5 1 (-8 # 1) in
  qlist_eqb (main_regressor g ft5 [1] [(6, 0, 3); (2, 0, 1)]) (main_regressor g ft5 [1] [(2, 0, 3); (6, 0, 1)]) = false /\
  qlist_eqb (main_regressor g ft5 [1] [(6, 0, 3); (2, 0, 1)]) (main_regressor g ft5 [1] [(2, 0, 1); (6, 0, 3)]) = true.
Proof. vm_compute. auto. Qed.

(* exactly one column per (listed condition x basis function) whatever the events and their amplitudes are -
   also for a condition whose amplitudes are all 0 (its columns are then zero, not absent) *)
Theorem convolve_regressors_column_count : forall ft os mo hs fir cids par,
  length (convolve_regressors ft os mo hs fir cids par) = (length cids * length hs)%nat.
Proof. exact convolve_regressors_length. Qed.
Print Assumptions convolve_regressors_column_count.

(* FIR basis: the j-th kernel and the j-th name both belong to the delay LISTED j-th (any order, repeats allowed);
   no sorting or de-duplication of the caller's list *)
Theorem fir_columns_follow_listed_delays : forall (show : nat -> string) c delays os,
  length (fir_kernels delays os) = length delays /\
  length (regressor_names show c Fir delays) = length delays /\
  forall j, (j < length delays)%nat ->
    nth j (fir_kernels delays os) [] = fir_kernel (nth j delays O) os /\
    nth j (regressor_names show c Fir delays) EmptyString = (c ++ "_delay_" ++ show (nth j delays O))%string.
Proof.
  intros show c delays os. split; [apply map_length|]. split; [unfold regressor_names, model_suffixes; rewrite !map_length; reflexivity|].
  intros j H. split; [apply fir_kernels_nth; exact H|apply fir_names_nth; exact H].
Qed.
Print Assumptions fir_columns_follow_listed_delays.

(* ---------------------------------------------------------------- (9) polynomial drift: _poly_drift (design_matrix.py l.37-61) *)
From NV.C07 Require Import PolyModel Proofs4.
(* for EVERY order and every list of frame times: exactly order+1 columns, and the LAST one is the constant column of
   ones (column 0 of the powers, which _orthogonalize never touches, moved behind the drifts by the hstack) *)
Theorem poly_drift_shape_constant_last : forall order ft,
  length (poly_drift order ft) = S order /\ last (poly_drift order ft) [] = repeat 1%Q (length ft).
Proof. exact poly_drift_shape. Qed.
Print Assumptions poly_drift_shape_constant_last.

(* the polynomial drift basis depends on the scan times only through (t - tmin)/(tmax - tmin): moving the time origin
   by any s and changing the time unit / TR by any factor c > 0 leaves every column unchanged (Leibniz equality of the
   normalised rationals), for every order and every list of frame times (sorted or not, any length) *)
Theorem poly_drift_independent_of_time_origin_and_unit : forall order ft c s, (0 < c)%Q ->
  poly_drift order (map (fun t => c * t + s)%Q ft) = poly_drift order ft.
Proof. exact poly_drift_affine. Qed.
Print Assumptions poly_drift_independent_of_time_origin_and_unit.

(* non-vacuity: order 2 on five scans starting at t = 3 with TR = 2 - three columns: centred linear, orthogonalised quadratic
   (orthogonal to both others, not zero), constant; the shifted and rescaled grid gives literally the same columns *)
Example poly_drift_order2_five_scans :
  poly_drift 2 [3; 5; 7; 9; 11]%Q =
    [[-1 # 2; -1 # 4; 0; 1 # 4; 1 # 2]; [1 # 8; -1 # 16; -1 # 8; -1 # 16; 1 # 8]; [1; 1; 1; 1; 1]]%Q /\
  poly_drift 2 (map (fun t => (2 # 1) * t + 3)%Q [0; 1; 2; 3; 4]%Q) = poly_drift 2 [0; 1; 2; 3; 4]%Q.
Proof. vm_compute. auto. Qed.

(* ---------------------------------------------------------------- (10) the Gram-Schmidt step of _orthogonalize *)
From NV.C07 Require Import Proofs5.
(* `X[:, i] -= X[:, i] . P_i` as modelled by orth_col, for ANY preceding columns pre ++ c0 :: post of the length of x and
   any x: the new column is orthogonal to every preceding column c0 that pinv keeps (squared norm above rcond^2 times the
   largest one), provided the kept preceding columns are orthogonal to c0 - which is what the earlier steps establish.
   This is the inductive step of "polynomial-drift columns are mutually orthogonal" (_poly_drift = _orthogonalize of the
   powers); PARTIAL with respect to that clause: the induction over all columns with pinv's discard rule is not done. *)
Theorem orthogonalize_step_orthogonal_to_kept_columns_partial : forall pre c0 post x,
  Forall (fun c => length c = length x) (pre ++ c0 :: post) ->
  kept (orth_mx (pre ++ c0 :: post)) c0 ->
  (forall c, In c pre \/ In c post -> kept (orth_mx (pre ++ c0 :: post)) c -> dot c c0 == 0) ->
  dot (orth_col (pre ++ c0 :: post) x) c0 == 0.
Proof. exact orth_col_orthogonal_step. Qed.
Print Assumptions orthogonalize_step_orthogonal_to_kept_columns_partial.

(* non-vacuity: the hypotheses hold for the first two polynomial-drift columns of five scans (both kept, mutually
   orthogonal) and x = the squares; the three columns of the order-2 drift are pairwise orthogonal and non-zero *)
Example poly_drift_order2_columns_orthogonal :
  let d := poly_drift 2 [3; 5; 7; 9; 11]%Q in
  let c1 := nth 0 d [] in let c2 := nth 1 d [] in let k := nth 2 d [] in
  kept (orth_mx [k; c1]) k /\ kept (orth_mx [k; c1]) c1 /\ orth_col [k; c1] (map (fun u => u * u)%Q c1) <> repeat 0%Q 5 /\
  Qeq_bool (dot c1 c2) 0 = true /\ Qeq_bool (dot c1 k) 0 = true /\ Qeq_bool (dot c2 k) 0 = true /\
  Qeq_bool (dot c2 c2) 0 = false.
Proof. vm_compute. repeat split; try reflexivity. discriminate. Qed.
