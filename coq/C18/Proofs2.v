(* C18 - finite sums over Q, circular = linear convolution on the window,
   linearity, impulse response, constants and mass. *)
From Coq Require Import ZArith List Bool Lia ZifyBool QArith Qminmax Qabs Lqa Setoid.
From NV.C18 Require Import Model Proofs1.
Import ListNotations.
Close Scope Q_scope.
Open Scope Z_scope.

Ltac Zify.zify_post_hook ::= Z.to_euclidean_division_equations.

(* ---------------- zsum ---------------- *)
Lemma zsum_ext f g n :
  (forall i, 0 <= i < Z.of_nat n -> (f i == g i)%Q) -> (zsum f n == zsum g n)%Q.
Proof.
  induction n as [|n IH]; intros H; cbn [zsum]; [reflexivity|].
  rewrite IH by (intros i Hi; apply H; lia). rewrite (H (Z.of_nat n)) by lia. reflexivity.
Qed.

Lemma zsum_zero f n :
  (forall i, 0 <= i < Z.of_nat n -> (f i == 0)%Q) -> (zsum f n == 0)%Q.
Proof.
  induction n as [|n IH]; intros H; cbn [zsum]; [reflexivity|].
  rewrite IH by (intros i Hi; apply H; lia). rewrite (H (Z.of_nat n)) by lia. reflexivity.
Qed.

Lemma zsum_plus f g n : (zsum (fun i => f i + g i) n == zsum f n + zsum g n)%Q.
Proof. induction n as [|n IH]; cbn [zsum]; [reflexivity|]. rewrite IH. ring. Qed.

Lemma zsum_scale a f n : (zsum (fun i => a * f i) n == a * zsum f n)%Q.
Proof. induction n as [|n IH]; cbn [zsum]; [ring|]. rewrite IH. ring. Qed.

Lemma zsum_scale_r a f n : (zsum (fun i => f i * a) n == zsum f n * a)%Q.
Proof. induction n as [|n IH]; cbn [zsum]; [ring|]. rewrite IH. ring. Qed.

Lemma zsum_tail f (n L : nat) :
  (n <= L)%nat -> (forall i, Z.of_nat n <= i < Z.of_nat L -> (f i == 0)%Q) ->
  (zsum f L == zsum f n)%Q.
Proof.
  intros Hle. induction Hle as [|L Hle IH]; intros H; [reflexivity|].
  cbn [zsum]. rewrite IH by (intros i Hi; apply H; lia). rewrite (H (Z.of_nat L)) by lia. ring.
Qed.

Lemma zsum_swap (F : Z -> Z -> Q) n m :
  (zsum (fun p => zsum (fun s => F p s) m) n == zsum (fun s => zsum (fun p => F p s) n) m)%Q.
Proof.
  induction n as [|n IH]; cbn [zsum].
  - symmetry. apply zsum_zero. intros; reflexivity.
  - rewrite IH. rewrite <- zsum_plus. apply zsum_ext. intros i Hi. reflexivity.
Qed.

Lemma zsum_delta h p0 n :
  0 <= p0 < Z.of_nat n -> (zsum (fun s => delta p0 s * h s) n == h p0)%Q.
Proof.
  induction n as [|n IH]; intros Hp; [lia|]. cbn [zsum].
  destruct (Z.eq_dec p0 (Z.of_nat n)) as [E|NE].
  - rewrite zsum_zero.
    + unfold delta. subst p0. rewrite Z.eqb_refl. ring.
    + intros i Hi. unfold delta. destruct (i =? p0) eqn:A; [lia|ring].
  - rewrite IH by lia. unfold delta. destruct (Z.of_nat n =? p0) eqn:A; [lia|ring].
Qed.

Lemma zsum_nonneg f n :
  (forall i, 0 <= i < Z.of_nat n -> (0 <= f i)%Q) -> (0 <= zsum f n)%Q.
Proof.
  induction n as [|n IH]; intros H; cbn [zsum]; [lra|].
  assert (0 <= zsum f n)%Q by (apply IH; intros i Hi; apply H; lia).
  assert (0 <= f (Z.of_nat n))%Q by (apply H; lia). lra.
Qed.

Lemma zsum_pos f n j :
  (forall i, 0 <= i < Z.of_nat n -> (0 <= f i)%Q) -> 0 <= j < Z.of_nat n -> (0 < f j)%Q ->
  (0 < zsum f n)%Q.
Proof.
  induction n as [|n IH]; intros H Hj Pj; [lia|]. cbn [zsum].
  assert (0 <= zsum f n)%Q by (apply zsum_nonneg; intros i Hi; apply H; lia).
  assert (0 <= f (Z.of_nat n))%Q by (apply H; lia).
  destruct (Z.eq_dec j (Z.of_nat n)) as [->|NE]; [lra|].
  assert (0 < zsum f n)%Q by (apply IH; [intros i Hi; apply H; lia|lia|exact Pj]). lra.
Qed.

(* pad k kap summed over any index map that hits each j in [0,k) exactly once *)
Lemma pad_step (k : nat) kap i :
  (pad (Z.of_nat (S k)) kap i == pad (Z.of_nat k) kap i + delta (Z.of_nat k) i * kap (Z.of_nat k))%Q.
Proof.
  unfold pad, delta.
  destruct ((0 <=? i) && (i <? Z.of_nat (S k))) eqn:A;
    destruct ((0 <=? i) && (i <? Z.of_nat k)) eqn:B;
    destruct (i =? Z.of_nat k) eqn:C; try lia; try ring.
  assert (i = Z.of_nat k) by lia. subst i. ring.
Qed.

Lemma delta_sym a b : delta a b = delta b a.
Proof. unfold delta. rewrite Z.eqb_sym. reflexivity. Qed.

Lemma zsum_reindex kap (idx inv : Z -> Z) (n : nat) : forall k : nat,
  (forall j, 0 <= j < Z.of_nat k -> 0 <= inv j < Z.of_nat n) ->
  (forall j s, 0 <= j < Z.of_nat k -> 0 <= s < Z.of_nat n -> (idx s = j <-> s = inv j)) ->
  (zsum (fun s => pad (Z.of_nat k) kap (idx s)) n == zsum kap k)%Q.
Proof.
  induction k as [|k IH]; intros Hinv Hidx.
  - cbn [zsum]. apply zsum_zero. intros i Hi. unfold pad.
    destruct ((0 <=? idx i) && (idx i <? Z.of_nat 0)) eqn:A; [lia|reflexivity].
  - cbn [zsum]. rewrite <- IH.
    2:{ intros j Hj. apply Hinv. lia. }
    2:{ intros j s Hj Hs. apply Hidx; lia. }
    rewrite (zsum_ext _ (fun s => pad (Z.of_nat k) kap (idx s) + delta (inv (Z.of_nat k)) s * kap (Z.of_nat k))%Q).
    + rewrite zsum_plus. rewrite (zsum_delta (fun _ => kap (Z.of_nat k))) by (apply Hinv; lia). reflexivity.
    + intros s Hs. rewrite pad_step.
      assert (E : delta (Z.of_nat k) (idx s) = delta (inv (Z.of_nat k)) s).
      { unfold delta. pose proof (Hidx (Z.of_nat k) s ltac:(lia) Hs) as W.
        destruct (idx s =? Z.of_nat k) eqn:A; destruct (s =? inv (Z.of_nat k)) eqn:B; try reflexivity.
        - apply Z.eqb_eq in A. apply W in A. lia.
        - apply Z.eqb_eq in B. apply W in B. lia. }
      rewrite E. reflexivity.
Qed.

(* ---------------- circular = linear on the buffer ---------------- *)
Lemma circ_eq_lin n k L x kap t :
  1 <= n -> 1 <= k -> n + k - 1 <= L -> 0 <= t < L ->
  (circ L (pad n x) (pad k kap) t == lin n k x kap t)%Q.
Proof.
  intros Hn Hk HL Ht. unfold circ, lin.
  rewrite (zsum_tail _ (Z.to_nat n) (Z.to_nat L)).
  - apply zsum_ext. intros s Hs.
    rewrite (pad_mod_nowrap kap n k L s t) by lia.
    unfold pad at 1. destruct ((0 <=? s) && (s <? n)) eqn:A; [reflexivity|lia].
  - lia.
  - intros s Hs. unfold pad at 1. destruct ((0 <=? s) && (s <? n)) eqn:A; [lia|ring].
Qed.

(* ---------------- _kcenter = argmax of the cropped kernel ---------------- *)
Lemma argmax_upto_spec f : forall m,
  0 <= argmax_upto f m <= Z.of_nat m /\
  forall j, 0 <= j <= Z.of_nat m -> (f j <= f (argmax_upto f m))%Q.
Proof.
  induction m as [|m [IH1 IH2]].
  - cbn [argmax_upto]. split; [lia|]. intros j Hj. assert (j = 0) by lia. subst j. apply Qle_refl.
  - cbn [argmax_upto]. set (a := argmax_upto f m) in *.
    destruct (Qle_bool (f (Z.of_nat (S m))) (f a)) eqn:B.
    + apply Qle_bool_iff in B. split; [lia|]. intros j Hj.
      destruct (Z.eq_dec j (Z.of_nat (S m))) as [->|NE]; [exact B|apply IH2; lia].
    + assert (L : (f a < f (Z.of_nat (S m)))%Q).
      { apply Qnot_le_lt. intros C. apply Qle_bool_iff in C. congruence. }
      split; [lia|]. intros j Hj.
      destruct (Z.eq_dec j (Z.of_nat (S m))) as [->|NE]; [apply Qle_refl|].
      apply Qle_trans with (f a); [apply IH2; lia|apply Qlt_le_weak; exact L].
Qed.

Lemma kcenter_range k kap : 1 <= k -> 0 <= kcenter k kap < k.
Proof.
  intros Hk. unfold kcenter. pose proof (proj1 (argmax_upto_spec kap (Z.to_nat (k - 1)))). lia.
Qed.

Lemma kcenter_max k kap j : 1 <= k -> 0 <= j < k -> (kap j <= kap (kcenter k kap))%Q.
Proof.
  intros Hk Hj. unfold kcenter. apply (proj2 (argmax_upto_spec kap (Z.to_nat (k - 1)))). lia.
Qed.

(* a kernel with a strict maximum at index c has _kcenter = c *)
Lemma kcenter_unique k kap c :
  0 <= c < k -> (forall j, 0 <= j < k -> j <> c -> (kap j < kap c)%Q) -> kcenter k kap = c.
Proof.
  intros Hc Hmax. destruct (Z.eq_dec (kcenter k kap) c) as [E|NE]; [exact E|exfalso].
  pose proof (kcenter_range k kap ltac:(lia)) as R.
  pose proof (kcenter_max k kap c ltac:(lia) Hc) as M.
  pose proof (Hmax (kcenter k kap) R NE). lra.
Qed.

(* ---------------- smooth in terms of the direct convolution ---------------- *)
Lemma smooth1_w_direct n k w x kap scale loc p :
  1 <= n -> 0 <= w < k -> 0 <= p < n ->
  (smooth1_w n k w x kap scale loc p == scale * (lin n k x kap (p + w) / l1sum k kap) + loc)%Q.
Proof.
  intros Hn Hw Hp. unfold smooth1_w, win_start.
  rewrite (circ_eq_lin n k (buflen n k) x kap (p + w) Hn ltac:(lia) (buflen_nowrap n k)).
  - reflexivity.
  - pose proof (window_in_buffer n k w p Hn Hw Hp) as W. unfold win_start in W. lia.
Qed.

Lemma smooth1_direct n k x kap scale loc p :
  1 <= n -> 1 <= k -> 0 <= p < n ->
  (smooth1 n k x kap scale loc p == scale * (lin n k x kap (p + kcenter k kap) / l1sum k kap) + loc)%Q.
Proof. intros Hn Hk Hp. unfold smooth1. apply smooth1_w_direct; try assumption. apply kcenter_range; exact Hk. Qed.

(* ---------------- linearity, scale/location ---------------- *)
Lemma lin_linear n k x y kap a b t :
  (lin n k (fun s => a * x s + b * y s) kap t == a * lin n k x kap t + b * lin n k y kap t)%Q.
Proof.
  unfold lin. rewrite <- !zsum_scale, <- zsum_plus. apply zsum_ext. intros s Hs. ring.
Qed.

Lemma smooth1_linear n k x y kap a b p :
  1 <= n -> 1 <= k -> 0 <= p < n ->
  (smooth1 n k (fun s => a * x s + b * y s) kap 1 0 p ==
   a * smooth1 n k x kap 1 0 p + b * smooth1 n k y kap 1 0 p)%Q.
Proof.
  intros Hn Hk Hp. rewrite !smooth1_direct by assumption. rewrite lin_linear.
  unfold Qdiv. ring.
Qed.

Lemma smooth1_scale_loc n k x kap scale loc p :
  (smooth1 n k x kap scale loc p == scale * smooth1 n k x kap 1 0 p + loc)%Q.
Proof. unfold smooth1, smooth1_w. ring. Qed.

Lemma smooth1_zero_scale n k x kap loc p : (smooth1 n k x kap 0 loc p == loc)%Q.
Proof. unfold smooth1, smooth1_w. ring. Qed.

Lemma smooth1_defaults n k x kap p :
  (smooth1 n k x kap default_scale default_location p == smooth1 n k x kap 1 0 p)%Q.
Proof. reflexivity. Qed.

(* ---------------- impulse response ---------------- *)
Lemma lin_delta n k kap p0 t :
  0 <= p0 < n -> (lin n k (delta p0) kap t == pad k kap (t - p0))%Q.
Proof.
  intros Hp. unfold lin. rewrite (zsum_delta (fun s => pad k kap (t - s))) by lia. reflexivity.
Qed.

Lemma impulse_response_w n k w kap p0 p :
  1 <= n -> 0 <= w < k -> 0 <= p0 < n -> 0 <= p < n ->
  (smooth1_w n k w (delta p0) kap 1 0 p == pad k kap (p + w - p0) / l1sum k kap)%Q.
Proof.
  intros Hn Hw Hp0 Hp. rewrite smooth1_w_direct by assumption. rewrite lin_delta by assumption.
  unfold Qdiv. ring.
Qed.

Lemma div_lt_pos a b s : (0 < s)%Q -> (a < b)%Q -> (a / s < b / s)%Q.
Proof.
  intros Hs Hab. unfold Qdiv. apply Qmult_lt_compat_r; [|exact Hab]. apply Qinv_lt_0_compat. exact Hs.
Qed.

Section Profile.
  (* kernel[j] = g (j - c_k): g is the kernel as a function of the voxel
     offset from the centre voxel *)
  Variable g : Z -> Q.
  Hypothesis g_nonneg : forall d, (0 <= g d)%Q.
  Hypothesis g_peak : forall d, d <> 0 -> (g d < g 0%Z)%Q.

  Lemma l1sum_pos k ck : 0 <= ck < k -> (0 < l1sum k (kern_of g ck))%Q.
  Proof.
    intros Hck. unfold l1sum. apply (zsum_pos _ _ ck).
    - intros i Hi. apply g_nonneg.
    - lia.
    - unfold kern_of. rewrite Z.sub_diag. pose proof (g_peak 1 ltac:(lia)). pose proof (g_nonneg 1). lra.
  Qed.

  (* _kcenter of such a kernel is the centre index *)
  Lemma kcenter_kern_of k ck : 0 <= ck < k -> kcenter k (kern_of g ck) = ck.
  Proof.
    intros Hck. apply kcenter_unique; [exact Hck|]. intros j Hj Hne. unfold kern_of.
    rewrite Z.sub_diag. apply g_peak. lia.
  Qed.

  (* any window start w inside the kernel: the response to a unit impulse at p0 has its
     strict maximum at p0 + (c_k - w) *)
  Lemma impulse_peak_w n k w ck p0 p :
    1 <= n -> 0 <= w < k -> 0 <= ck < k -> 0 <= p0 < n -> 0 <= p < n ->
    0 <= p0 + (ck - w) < n -> p <> p0 + (ck - w) ->
    (smooth1_w n k w (delta p0) (kern_of g ck) 1 0 p < smooth1_w n k w (delta p0) (kern_of g ck) 1 0 (p0 + (ck - w)))%Q.
  Proof.
    intros Hn Hw Hck Hp0 Hp Hq Hne.
    rewrite !impulse_response_w by (try assumption; lia).
    apply div_lt_pos; [apply l1sum_pos; exact Hck|].
    replace (p0 + (ck - w) + w - p0) with ck by lia.
    unfold pad at 2. destruct ((0 <=? ck) && (ck <? k)) eqn:A; [|lia].
    unfold kern_of at 2. rewrite Z.sub_diag.
    unfold pad. destruct ((0 <=? p + w - p0) && (p + w - p0 <? k)) eqn:B.
    - unfold kern_of. apply g_peak. lia.
    - pose proof (g_peak 1 ltac:(lia)). pose proof (g_nonneg 1). lra.
  Qed.

  (* the code: w = _kcenter = c_k, the maximum is AT the impulse *)
  Lemma impulse_centred n k ck p0 p :
    1 <= n -> 0 <= ck < k -> 0 <= p0 < n -> 0 <= p < n -> p <> p0 ->
    (smooth1 n k (delta p0) (kern_of g ck) 1 0 p < smooth1 n k (delta p0) (kern_of g ck) 1 0 p0)%Q.
  Proof.
    intros Hn Hck Hp0 Hp Hne. unfold smooth1. rewrite (kcenter_kern_of k ck Hck).
    pose proof (impulse_peak_w n k ck ck p0 p Hn Hck Hck Hp0 Hp) as P.
    replace (p0 + (ck - ck)) with p0 in P by lia. apply P; [lia|exact Hne].
  Qed.

  (* ... and the response is the profile centred on the impulse, wherever the kernel reaches *)
  Lemma impulse_value n k ck p0 p :
    1 <= n -> 0 <= ck < k -> 0 <= p0 < n -> 0 <= p < n ->
    0 <= p + ck - p0 < k ->
    (smooth1 n k (delta p0) (kern_of g ck) 1 0 p == g (p - p0)%Z / l1sum k (kern_of g ck))%Q.
  Proof.
    intros Hn Hck Hp0 Hp Hin. unfold smooth1. rewrite (kcenter_kern_of k ck Hck).
    rewrite impulse_response_w by (try assumption; lia).
    unfold pad. destruct ((0 <=? p + ck - p0) && (p + ck - p0 <? k)) eqn:B; [|lia].
    unfold kern_of. replace (p + ck - p0 - ck) with (p - p0) by lia. reflexivity.
  Qed.

  (* outside the kernel's reach the response is zero *)
  Lemma impulse_zero n k ck p0 p :
    1 <= n -> 0 <= ck < k -> 0 <= p0 < n -> 0 <= p < n ->
    ~ (0 <= p + ck - p0 < k) ->
    (smooth1 n k (delta p0) (kern_of g ck) 1 0 p == 0)%Q.
  Proof.
    intros Hn Hck Hp0 Hp Hout. unfold smooth1. rewrite (kcenter_kern_of k ck Hck).
    rewrite impulse_response_w by (try assumption; lia).
    unfold pad. destruct ((0 <=? p + ck - p0) && (p + ck - p0 <? k)) eqn:B; [lia|].
    unfold Qdiv. ring.
  Qed.
End Profile.

(* ---------------- constants and mass ---------------- *)
Lemma window_sum_desc n k kap t :
  0 <= k -> k - 1 <= t < n ->
  (zsum (fun s => pad k kap (t - s)) (Z.to_nat n) == l1sum k kap)%Q.
Proof.
  intros Hk Ht. unfold l1sum.
  pose proof (zsum_reindex kap (fun s => t - s) (fun j => t - j) (Z.to_nat n) (Z.to_nat k)) as R.
  rewrite Z2Nat.id in R by lia. apply R.
  - intros j Hj. lia.
  - intros j s Hj Hs. lia.
Qed.

Lemma window_sum_asc n k kap q :
  0 <= k -> 0 <= q -> q + k <= n ->
  (zsum (fun p => pad k kap (p - q)) (Z.to_nat n) == l1sum k kap)%Q.
Proof.
  intros Hk Hq Hqn. unfold l1sum.
  pose proof (zsum_reindex kap (fun p => p - q) (fun j => j + q) (Z.to_nat n) (Z.to_nat k)) as R.
  rewrite Z2Nat.id in R by lia. apply R.
  - intros j Hj. lia.
  - intros j s Hj Hs. lia.
Qed.

(* a constant image stays constant wherever the whole kernel fits in the grid (w = _kcenter) *)
Lemma constant_preserved n k kap a p :
  1 <= n -> 1 <= k -> 0 <= p < n -> ~ (l1sum k kap == 0)%Q ->
  k - 1 - kcenter k kap <= p -> p + kcenter k kap <= n - 1 ->
  (smooth1 n k (fun _ => a) kap 1 0 p == a)%Q.
Proof.
  intros Hn Hk Hp HS Hlo Hhi. rewrite smooth1_direct by assumption. unfold lin.
  rewrite zsum_scale. rewrite (window_sum_desc n k kap (p + kcenter k kap)) by lia.
  field. exact HS.
Qed.

(* total intensity is preserved for data supported where the whole kernel fits *)
Lemma mass_preserved n k kap x :
  1 <= n -> 1 <= k -> ~ (l1sum k kap == 0)%Q ->
  (forall s, 0 <= s < n -> ~ (kcenter k kap <= s /\ s - kcenter k kap + k <= n) -> (x s == 0)%Q) ->
  (zsum (fun p => smooth1 n k x kap 1 0 p) (Z.to_nat n) == zsum x (Z.to_nat n))%Q.
Proof.
  intros Hn Hk HS Hx. set (w := kcenter k kap) in *.
  rewrite (zsum_ext _ (fun p => zsum (fun s => x s * pad k kap (p + w - s) * / l1sum k kap) (Z.to_nat n))%Q).
  2:{ intros p Hp. rewrite smooth1_direct by lia. fold w. unfold lin. rewrite zsum_scale_r. unfold Qdiv. ring. }
  rewrite zsum_swap. apply zsum_ext. intros s Hs.
  rewrite (zsum_ext _ (fun p => (x s * / l1sum k kap) * pad k kap (p - (s - w)))%Q).
  2:{ intros p Hp. replace (p + w - s) with (p - (s - w)) by lia. ring. }
  rewrite zsum_scale.
  destruct (Z_le_gt_dec w s) as [A|A]; [destruct (Z_le_gt_dec (s - w + k) n) as [B|B]|].
  - rewrite (window_sum_asc n k kap (s - w)) by lia. field. exact HS.
  - rewrite (Hx s) by lia. ring.
  - rewrite (Hx s) by lia. ring.
Qed.

(* ---------------- shift equivariance ---------------- *)
Lemma zsum_shift1 (h : Z -> Q) (n : nat) :
  (zsum (fun s => h (s - 1)%Z) n + h (Z.of_nat n - 1)%Z == h (-1)%Z + zsum h n)%Q.
Proof.
  induction n as [|n IH].
  - cbn [zsum]. replace (Z.of_nat 0 - 1) with (-1)%Z by lia. ring.
  - cbn [zsum].
    replace (Z.of_nat (S n) - 1) with (Z.of_nat n) by lia.
    assert (E : (zsum (fun s => h (s - 1)%Z) n == h (-1)%Z + zsum h n - h (Z.of_nat n - 1)%Z)%Q) by (rewrite <- IH; ring).
    rewrite E. ring.
Qed.

Lemma zsum_shift (h : Z -> Q) (n : nat) : forall d : nat,
  (forall u, - Z.of_nat d <= u < 0 -> (h u == 0)%Q) ->
  (forall u, Z.of_nat n - Z.of_nat d <= u < Z.of_nat n -> (h u == 0)%Q) ->
  (zsum (fun s => h (s - Z.of_nat d)%Z) n == zsum h n)%Q.
Proof.
  induction d as [|d IH]; intros Hlo Hhi.
  - apply zsum_ext. intros i Hi. replace (i - Z.of_nat 0) with i by lia. reflexivity.
  - set (h' := fun u : Z => h (u - Z.of_nat d)%Z).
    rewrite (zsum_ext _ (fun s => h' (s - 1)%Z)).
    2:{ intros i Hi. unfold h'. replace (i - 1 - Z.of_nat d) with (i - Z.of_nat (S d)) by lia. reflexivity. }
    assert (E : (zsum (fun s => h' (s - 1)%Z) n == h' (-1)%Z + zsum h' n - h' (Z.of_nat n - 1)%Z)%Q)
      by (rewrite <- (zsum_shift1 h' n); ring).
    rewrite E. unfold h' at 1 3.
    rewrite (Hlo (-1 - Z.of_nat d)) by lia. rewrite (Hhi (Z.of_nat n - 1 - Z.of_nat d)) by lia.
    unfold h'. rewrite IH.
    + ring.
    + intros u Hu. apply Hlo. lia.
    + intros u Hu. apply Hhi. lia.
Qed.

(* y is x moved by d >= 0 voxels and both lie inside the grid: the smoothed y is the
   smoothed x moved by d (read backwards: moved by -d) *)
Lemma lin_shift n k kap x y d t :
  0 <= d -> 0 <= n ->
  (forall s, ~ (0 <= s < n) -> (x s == 0)%Q) ->
  (forall s, ~ (0 <= s < n) -> (y s == 0)%Q) ->
  (forall s, (y s == x (s - d)%Z)%Q) ->
  (lin n k y kap (t + d) == lin n k x kap t)%Q.
Proof.
  intros Hd Hn Hx Hy Hxy. unfold lin.
  set (h := fun u : Z => (x u * pad k kap (t - u))%Q).
  rewrite (zsum_ext _ (fun s => h (s - Z.of_nat (Z.to_nat d))%Z)).
  2:{ intros s Hs. unfold h. rewrite Z2Nat.id by lia. rewrite Hxy.
      replace (t + d - s) with (t - (s - d)) by lia. reflexivity. }
  apply zsum_shift.
  - intros u Hu. unfold h. rewrite (Hx u) by lia. ring.
  - intros u Hu. unfold h. rewrite Z2Nat.id in Hu by lia.
    assert (E : (x u == y (u + d)%Z)%Q) by (rewrite Hxy; replace (u + d - d) with u by lia; reflexivity).
    rewrite E. rewrite (Hy (u + d)) by lia. ring.
Qed.

Lemma smooth1_shift n k kap x y d p scale loc :
  1 <= n -> 1 <= k -> 0 <= d -> 0 <= p -> p + d < n ->
  (forall s, ~ (0 <= s < n) -> (x s == 0)%Q) ->
  (forall s, ~ (0 <= s < n) -> (y s == 0)%Q) ->
  (forall s, (y s == x (s - d)%Z)%Q) ->
  (smooth1 n k y kap scale loc (p + d) == smooth1 n k x kap scale loc p)%Q.
Proof.
  intros Hn Hk Hd Hp Hpd Hx Hy Hxy. rewrite !smooth1_direct by lia.
  replace (p + d + kcenter k kap) with (p + kcenter k kap + d) by lia.
  rewrite (lin_shift n k kap x y d (p + kcenter k kap)) by (try assumption; lia). reflexivity.
Qed.
