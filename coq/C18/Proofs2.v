(* C18 - finite sums over Q, circular = linear convolution on the window,
   linearity, impulse response, constants and mass. *)
From Coq Require Import ZArith List Bool Lia ZifyBool QArith Qminmax Qabs Lqa Setoid.
From NV.C18 Require Import Model Proofs1.
Import ListNotations.
Close Scope Q_scope.
Open Scope Z_scope.

Ltac Zify.zify_post_hook ::= Z.to_euclidean_division_equations.

(* ---------------- zsum ---------------- *)
Lemma zsum_ext f g n :
  (forall i, 0 <= i < Z.of_nat n -> (f i == g i)%Q) -> (zsum f n == zsum g n)%Q.
Proof.
  induction n as [|n IH]; intros H; cbn [zsum]; [reflexivity|].
  rewrite IH by (intros i Hi; apply H; lia). rewrite (H (Z.of_nat n)) by lia. reflexivity.
Qed.

Lemma zsum_zero f n :
  (forall i, 0 <= i < Z.of_nat n -> (f i == 0)%Q) -> (zsum f n == 0)%Q.
Proof.
  induction n as [|n IH]; intros H; cbn [zsum]; [reflexivity|].
  rewrite IH by (intros i Hi; apply H; lia). rewrite (H (Z.of_nat n)) by lia. reflexivity.
Qed.

Lemma zsum_plus f g n : (zsum (fun i => f i + g i) n == zsum f n + zsum g n)%Q.
Proof. induction n as [|n IH]; cbn [zsum]; [reflexivity|]. rewrite IH. ring. Qed.

Lemma zsum_scale a f n : (zsum (fun i => a * f i) n == a * zsum f n)%Q.
Proof. induction n as [|n IH]; cbn [zsum]; [ring|]. rewrite IH. ring. Qed.

Lemma zsum_scale_r a f n : (zsum (fun i => f i * a) n == zsum f n * a)%Q.
Proof. induction n as [|n IH]; cbn [zsum]; [ring|]. rewrite IH. ring. Qed.

Lemma zsum_tail f (n L : nat) :
  (n <= L)%nat -> (forall i, Z.of_nat n <= i < Z.of_nat L -> (f i == 0)%Q) ->
  (zsum f L == zsum f n)%Q.
Proof.
  intros Hle. induction Hle as [|L Hle IH]; intros H; [reflexivity|].
  cbn [zsum]. rewrite IH by (intros i Hi; apply H; lia). rewrite (H (Z.of_nat L)) by lia. ring.
Qed.

Lemma zsum_swap (F : Z -> Z -> Q) n m :
  (zsum (fun p => zsum (fun s => F p s) m) n == zsum (fun s => zsum (fun p => F p s) n) m)%Q.
Proof.
  induction n as [|n IH]; cbn [zsum].
  - symmetry. apply zsum_zero. intros; reflexivity.
  - rewrite IH. rewrite <- zsum_plus. apply zsum_ext. intros i Hi. reflexivity.
Qed.

Lemma zsum_delta h p0 n :
  0 <= p0 < Z.of_nat n -> (zsum (fun s => delta p0 s * h s) n == h p0)%Q.
Proof.
  induction n as [|n IH]; intros Hp; [lia|]. cbn [zsum].
  destruct (Z.eq_dec p0 (Z.of_nat n)) as [E|NE].
  - rewrite zsum_zero.
    + unfold delta. subst p0. rewrite Z.eqb_refl. ring.
    + intros i Hi. unfold delta. destruct (i =? p0) eqn:A; [lia|ring].
  - rewrite IH by lia. unfold delta. destruct (Z.of_nat n =? p0) eqn:A; [lia|ring].
Qed.

Lemma zsum_nonneg f n :
  (forall i, 0 <= i < Z.of_nat n -> (0 <= f i)%Q) -> (0 <= zsum f n)%Q.
Proof.
  induction n as [|n IH]; intros H; cbn [zsum]; [lra|].
  assert (0 <= zsum f n)%Q by (apply IH; intros i Hi; apply H; lia).
  assert (0 <= f (Z.of_nat n))%Q by (apply H; lia). lra.
Qed.

Lemma zsum_pos f n j :
  (forall i, 0 <= i < Z.of_nat n -> (0 <= f i)%Q) -> 0 <= j < Z.of_nat n -> (0 < f j)%Q ->
  (0 < zsum f n)%Q.
Proof.
  induction n as [|n IH]; intros H Hj Pj; [lia|]. cbn [zsum].
  assert (0 <= zsum f n)%Q by (apply zsum_nonneg; intros i Hi; apply H; lia).
  assert (0 <= f (Z.of_nat n))%Q by (apply H; lia).
  destruct (Z.eq_dec j (Z.of_nat n)) as [->|NE]; [lra|].
  assert (0 < zsum f n)%Q by (apply IH; [intros i Hi; apply H; lia|lia|exact Pj]). lra.
Qed.

(* pad k kap summed over any index map that hits each j in [0,k) exactly once *)
Lemma pad_step (k : nat) kap i :
  (pad (Z.of_nat (S k)) kap i == pad (Z.of_nat k) kap i + delta (Z.of_nat k) i * kap (Z.of_nat k))%Q.
Proof.
  unfold pad, delta.
  destruct ((0 <=? i) && (i <? Z.of_nat (S k))) eqn:A;
    destruct ((0 <=? i) && (i <? Z.of_nat k)) eqn:B;
    destruct (i =? Z.of_nat k) eqn:C; try lia; try ring.
  assert (i = Z.of_nat k) by lia. subst i. ring.
Qed.

Lemma delta_sym a b : delta a b = delta b a.
Proof. unfold delta. rewrite Z.eqb_sym. reflexivity. Qed.

Lemma zsum_reindex kap (idx inv : Z -> Z) (n : nat) : forall k : nat,
  (forall j, 0 <= j < Z.of_nat k -> 0 <= inv j < Z.of_nat n) ->
  (forall j s, 0 <= j < Z.of_nat k -> 0 <= s < Z.of_nat n -> (idx s = j <-> s = inv j)) ->
  (zsum (fun s => pad (Z.of_nat k) kap (idx s)) n == zsum kap k)%Q.
Proof.
  induction k as [|k IH]; intros Hinv Hidx.
  - cbn [zsum]. apply zsum_zero. intros i Hi. unfold pad.
    destruct ((0 <=? idx i) && (idx i <? Z.of_nat 0)) eqn:A; [lia|reflexivity].
  - cbn [zsum]. rewrite <- IH.
    2:{ intros j Hj. apply Hinv. lia. }
    2:{ intros j s Hj Hs. apply Hidx; lia. }
    rewrite (zsum_ext _ (fun s => pad (Z.of_nat k) kap (idx s) + delta (inv (Z.of_nat k)) s * kap (Z.of_nat k))%Q).
    + rewrite zsum_plus. rewrite (zsum_delta (fun _ => kap (Z.of_nat k))) by (apply Hinv; lia). reflexivity.
    + intros s Hs. rewrite pad_step.
      assert (E : delta (Z.of_nat k) (idx s) = delta (inv (Z.of_nat k)) s).
      { unfold delta. pose proof (Hidx (Z.of_nat k) s ltac:(lia) Hs) as W.
        destruct (idx s =? Z.of_nat k) eqn:A; destruct (s =? inv (Z.of_nat k)) eqn:B; try reflexivity.
        - apply Z.eqb_eq in A. apply W in A. lia.
        - apply Z.eqb_eq in B. apply W in B. lia. }
      rewrite E. reflexivity.
Qed.

(* ---------------- circular = linear on the buffer ---------------- *)
Lemma circ_eq_lin n k L x kap t :
  1 <= n -> 1 <= k -> n + k - 1 <= L -> 0 <= t < L ->
  (circ L (pad n x) (pad k kap) t == lin n k x kap t)%Q.
Proof.
  intros Hn Hk HL Ht. unfold circ, lin.
  rewrite (zsum_tail _ (Z.to_nat n) (Z.to_nat L)).
  - apply zsum_ext. intros s Hs.
    rewrite (pad_mod_nowrap kap n k L s t) by lia.
    unfold pad at 1. destruct ((0 <=? s) && (s <? n)) eqn:A; [reflexivity|lia].
  - lia.
  - intros s Hs. unfold pad at 1. destruct ((0 <=? s) && (s <? n)) eqn:A; [lia|ring].
Qed.

(* smooth1 in terms of the direct convolution *)
Lemma smooth1_direct n k x kap scale loc p :
  1 <= n -> 1 <= k -> 0 <= p < n ->
  (smooth1 n k x kap scale loc p == scale * (lin n k x kap (p + k / 2) / l1sum k kap) + loc)%Q.
Proof.
  intros Hn Hk Hp. unfold smooth1, win_start.
  rewrite (circ_eq_lin n k (buflen n k) x kap (p + k / 2) Hn Hk (buflen_nowrap n k)).
  - reflexivity.
  - pose proof (window_in_buffer n k p Hn Hk Hp) as W. unfold win_start in W. lia.
Qed.

(* ---------------- linearity, scale/location ---------------- *)
Lemma lin_linear n k x y kap a b t :
  (lin n k (fun s => a * x s + b * y s) kap t == a * lin n k x kap t + b * lin n k y kap t)%Q.
Proof.
  unfold lin. rewrite <- !zsum_scale, <- zsum_plus. apply zsum_ext. intros s Hs. ring.
Qed.

Lemma smooth1_linear n k x y kap a b p :
  1 <= n -> 1 <= k -> 0 <= p < n ->
  (smooth1 n k (fun s => a * x s + b * y s) kap 1 0 p ==
   a * smooth1 n k x kap 1 0 p + b * smooth1 n k y kap 1 0 p)%Q.
Proof.
  intros Hn Hk Hp. rewrite !smooth1_direct by assumption. rewrite lin_linear.
  unfold Qdiv. ring.
Qed.

Lemma smooth1_scale_loc n k x kap scale loc p :
  (smooth1 n k x kap scale loc p == scale * smooth1 n k x kap 1 0 p + loc)%Q.
Proof. unfold smooth1. ring. Qed.

(* ---------------- impulse response ---------------- *)
Lemma lin_delta n k kap p0 t :
  0 <= p0 < n -> (lin n k (delta p0) kap t == pad k kap (t - p0))%Q.
Proof.
  intros Hp. unfold lin. rewrite (zsum_delta (fun s => pad k kap (t - s))) by lia. reflexivity.
Qed.

Lemma impulse_response n k kap p0 p :
  1 <= n -> 1 <= k -> 0 <= p0 < n -> 0 <= p < n ->
  (smooth1 n k (delta p0) kap 1 0 p == pad k kap (p + k / 2 - p0) / l1sum k kap)%Q.
Proof.
  intros Hn Hk Hp0 Hp. rewrite smooth1_direct by assumption. rewrite lin_delta by assumption.
  unfold Qdiv. ring.
Qed.

Section Profile.
  (* kernel[j] = g (j - c_k): g is the kernel as a function of the voxel
     offset from the centre voxel *)
  Variable g : Z -> Q.
  Hypothesis g_nonneg : forall d, (0 <= g d)%Q.
  Hypothesis g_peak : forall d, d <> 0 -> (g d < g 0)%Q.

  Lemma l1sum_pos k ck : 0 <= ck < k -> (0 < l1sum k (kern_of g ck))%Q.
  Proof.
    intros Hck. unfold l1sum. apply (zsum_pos _ _ ck).
    - intros i Hi. apply g_nonneg.
    - lia.
    - unfold kern_of. rewrite Z.sub_diag. pose proof (g_peak 1 ltac:(lia)). pose proof (g_nonneg 1). lra.
  Qed.

  Lemma div_lt_pos a b s : (0 < s)%Q -> (a < b)%Q -> (a / s < b / s)%Q.
  Proof.
    intros Hs Hab. unfold Qdiv. apply Qmult_lt_compat_r; [|exact Hab]. apply Qinv_lt_0_compat. exact Hs.
  Qed.

  (* the response to a unit impulse at p0 has its strict maximum at p0 + (c_k - k//2) *)
  Lemma impulse_peak n k ck p0 p :
    1 <= n -> 0 <= ck < k -> 0 <= p0 < n -> 0 <= p < n ->
    0 <= p0 + (ck - k / 2) < n -> p <> p0 + (ck - k / 2) ->
    (smooth1 n k (delta p0) (kern_of g ck) 1 0 p < smooth1 n k (delta p0) (kern_of g ck) 1 0 (p0 + (ck - k / 2)))%Q.
  Proof.
    intros Hn Hck Hp0 Hp Hq Hne.
    rewrite !impulse_response by (try assumption; lia).
    apply div_lt_pos; [apply l1sum_pos; exact Hck|].
    replace (p0 + (ck - k / 2) + k / 2 - p0) with ck by lia.
    unfold pad at 2. destruct ((0 <=? ck) && (ck <? k)) eqn:A; [|lia].
    unfold kern_of at 2. rewrite Z.sub_diag.
    unfold pad. destruct ((0 <=? p + k / 2 - p0) && (p + k / 2 - p0 <? k)) eqn:B.
    - unfold kern_of. apply g_peak. lia.
    - pose proof (g_peak 1 ltac:(lia)). pose proof (g_nonneg 1). lra.
  Qed.

End Profile.

  (* value of the response: the profile translated by p0 + offset *)
Lemma impulse_value (g : Z -> Q) n k ck p0 p :
    1 <= n -> 0 <= ck < k -> 0 <= p0 < n -> 0 <= p < n ->
    0 <= p + k / 2 - p0 < k ->
    (smooth1 n k (delta p0) (kern_of g ck) 1 0 p == g (p - (p0 + (ck - k / 2)))%Z / l1sum k (kern_of g ck))%Q.
  Proof.
    intros Hn Hck Hp0 Hp Hin. rewrite impulse_response by (try assumption; lia).
    unfold pad. destruct ((0 <=? p + k / 2 - p0) && (p + k / 2 - p0 <? k)) eqn:B; [|lia].
    unfold kern_of. replace (p + k / 2 - p0 - ck) with (p - (p0 + (ck - k / 2))) by lia. reflexivity.
  Qed.

(* ---------------- constants and mass ---------------- *)
Lemma window_sum_desc n k kap t :
  0 <= k -> k - 1 <= t < n ->
  (zsum (fun s => pad k kap (t - s)) (Z.to_nat n) == l1sum k kap)%Q.
Proof.
  intros Hk Ht. unfold l1sum.
  pose proof (zsum_reindex kap (fun s => t - s) (fun j => t - j) (Z.to_nat n) (Z.to_nat k)) as R.
  rewrite Z2Nat.id in R by lia. apply R.
  - intros j Hj. lia.
  - intros j s Hj Hs. lia.
Qed.

Lemma window_sum_asc n k kap q :
  0 <= k -> 0 <= q -> q + k <= n ->
  (zsum (fun p => pad k kap (p - q)) (Z.to_nat n) == l1sum k kap)%Q.
Proof.
  intros Hk Hq Hqn. unfold l1sum.
  pose proof (zsum_reindex kap (fun p => p - q) (fun j => j + q) (Z.to_nat n) (Z.to_nat k)) as R.
  rewrite Z2Nat.id in R by lia. apply R.
  - intros j Hj. lia.
  - intros j s Hj Hs. lia.
Qed.

(* a constant image stays constant wherever the whole kernel fits in the grid *)
Lemma constant_preserved n k kap a p :
  1 <= n -> 1 <= k -> 0 <= p < n -> ~ (l1sum k kap == 0)%Q ->
  k - 1 - k / 2 <= p -> p + k / 2 <= n - 1 ->
  (smooth1 n k (fun _ => a) kap 1 0 p == a)%Q.
Proof.
  intros Hn Hk Hp HS Hlo Hhi. rewrite smooth1_direct by assumption. unfold lin.
  rewrite zsum_scale. rewrite (window_sum_desc n k kap (p + k / 2)) by lia.
  field. exact HS.
Qed.

(* total intensity is preserved for data supported where the whole kernel fits *)
Lemma mass_preserved n k kap x :
  1 <= n -> 1 <= k -> ~ (l1sum k kap == 0)%Q ->
  (forall s, 0 <= s < n -> ~ (k / 2 <= s /\ s - k / 2 + k <= n) -> (x s == 0)%Q) ->
  (zsum (fun p => smooth1 n k x kap 1 0 p) (Z.to_nat n) == zsum x (Z.to_nat n))%Q.
Proof.
  intros Hn Hk HS Hx.
  rewrite (zsum_ext _ (fun p => zsum (fun s => x s * pad k kap (p + k / 2 - s) * / l1sum k kap) (Z.to_nat n))%Q).
  2:{ intros p Hp. rewrite smooth1_direct by lia. unfold lin. rewrite zsum_scale_r. unfold Qdiv. ring. }
  rewrite zsum_swap. apply zsum_ext. intros s Hs.
  rewrite (zsum_ext _ (fun p => (x s * / l1sum k kap) * pad k kap (p - (s - k / 2)))%Q).
  2:{ intros p Hp. replace (p + k / 2 - s) with (p - (s - k / 2)) by lia. ring. }
  rewrite zsum_scale.
  destruct (Z_le_gt_dec (k / 2) s) as [A|A]; [destruct (Z_le_gt_dec (s - k / 2 + k) n) as [B|B]|].
  - rewrite (window_sum_asc n k kap (s - k / 2)) by lia. field. exact HS.
  - rewrite (Hx s) by lia. ring.
  - rewrite (Hx s) by lia. ring.
Qed.
