(* C18 - width conversions over the reals (kernel_smooth.fwhm2sigma/sigma2fwhm,
   fwhm.Resels.resel2fwhm/fwhm2resel), as the code is. *)
From Coq Require Import Reals.
Open Scope R_scope.

(* fwhm / np.sqrt(8 * np.log(2)) *)
Definition fwhm2sigma (f : R) : R := f / sqrt (8 * ln 2).
(* sigma * np.sqrt(8 * np.log(2)) *)
Definition sigma2fwhm (s : R) : R := s * sqrt (8 * ln 2).

(* the Gaussian of _normsq/__call__ at world distance x: exp(-(x/sigma)^2/2) *)
Definition gauss (sigma x : R) : R := exp (- ((x / sigma) * (x / sigma) / 2)).

(* utils.matrices.pos_recipr *)
Definition pos_recipr (x : R) : R := if Rlt_dec 0 x then 1 / x else 0.

(* Resels: wedge = |det affine|^(1/D); root stands for np.power(., 1./D) *)
(* np.sqrt(4*np.log(2.)) * self.wedge * pos_recipr(np.power(resels, 1./self.D)) *)
Definition resel2fwhm (root : R -> R) (wedge r : R) : R :=
  sqrt (4 * ln 2) * wedge * pos_recipr (root r).
(* pos_recipr(np.power(fwhm / (np.sqrt(4*np.log(2)) * self.wedge), self.D)) *)
Definition fwhm2resel (D : nat) (wedge f : R) : R :=
  pos_recipr ((f / (sqrt (4 * ln 2) * wedge)) ^ D).
