(* C18 - width conversions over the reals (kernel_smooth.fwhm2sigma/sigma2fwhm,
   fwhm.Resels.resel2fwhm/fwhm2resel), as the code is. *)
From Coq Require Import Reals List.
Open Scope R_scope.

(* fwhm / np.sqrt(8 * np.log(2)) *)
Definition fwhm2sigma (f : R) : R := f / sqrt (8 * ln 2).
(* sigma * np.sqrt(8 * np.log(2)) *)
Definition sigma2fwhm (s : R) : R := s * sqrt (8 * ln 2).

(* the Gaussian of _normsq/__call__ at world distance x: exp(-(x/sigma)^2/2) *)
Definition gauss (sigma x : R) : R := exp (- ((x / sigma) * (x / sigma) / 2)).

(* utils.matrices.pos_recipr *)
Definition pos_recipr (x : R) : R := if Rlt_dec 0 x then 1 / x else 0.

(* Resels: wedge = |det affine|^(1/D); root stands for np.power(., 1./D) *)
(* np.sqrt(4*np.log(2.)) * self.wedge * pos_recipr(np.power(resels, 1./self.D)) *)
Definition resel2fwhm (root : R -> R) (wedge r : R) : R :=
  sqrt (4 * ln 2) * wedge * pos_recipr (root r).
(* pos_recipr(np.power(fwhm / (np.sqrt(4*np.log(2)) * self.wedge), self.D)) *)
Definition fwhm2resel (D : nat) (wedge f : R) : R :=
  pos_recipr ((f / (sqrt (4 * ln 2) * wedge)) ^ D).

(* ---------------- Resels.__init__: wedge ---------------- *)
(* numpy.linalg.det of the coordmap's homogeneous affine; for the checks the
   determinant itself is computed exactly by the model (cofactor expansion) *)
Definition det3 (a b c d e f g h i : R) : R :=
  a * (e * i - f * h) - b * (d * i - f * g) + c * (d * h - e * g).
(* 4x4, expansion along the first row *)
Definition det4 (a11 a12 a13 a14 a21 a22 a23 a24 a31 a32 a33 a34 a41 a42 a43 a44 : R) : R :=
  a11 * det3 a22 a23 a24 a32 a33 a34 a42 a43 a44
  - a12 * det3 a21 a23 a24 a31 a33 a34 a41 a43 a44
  + a13 * det3 a21 a22 a24 a31 a32 a34 a41 a42 a44
  - a14 * det3 a21 a22 a23 a31 a32 a33 a41 a42 a43.

(* self.wedge = np.power(np.fabs(det(_transform)), 1./self.D) *)
Definition wedge_of (root : R -> R) (detA : R) : R := root (Rabs detA).

(* Resels.integrate: _resels = (resels * mask).sum(); nvoxel = mask.sum();
   _fwhm = resel2fwhm(_resels / nvoxel); voxels as a list of (resel value, mask 0/1) *)
Definition rsum (l : list R) : R := List.fold_right Rplus 0 l.
Definition integrate (root : R -> R) (wedge : R) (vox : list (R * R)) : R * R * R :=
  let total := rsum (List.map (fun p => fst p * snd p) vox) in
  let n := rsum (List.map snd vox) in
  (total, resel2fwhm root wedge (total / n), n).
