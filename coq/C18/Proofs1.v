(* C18 - index lemmas (Z only): buffer shape, window, no wrap-around,
   _crop bounds and the centring characterisation. *)
From Coq Require Import ZArith List Bool Lia ZifyBool QArith.
From NV.C18 Require Import Model.
Import ListNotations.
Close Scope Q_scope.
Open Scope Z_scope.

Ltac Zify.zify_post_hook ::= Z.to_euclidean_division_equations.

(* ---------------- buffer shape ---------------- *)
Lemma buflen_even n k : (buflen n k) mod 2 = 0.
Proof. unfold buflen. lia. Qed.

Lemma buflen_ge n k : n + k + 2 <= buflen n k.
Proof. unfold buflen. lia. Qed.

Lemma buflen_le n k : buflen n k <= n + k + 3.
Proof. unfold buflen. lia. Qed.

(* irfftn without an explicit shape returns 2*(m-1) samples on the last axis,
   where m = L/2+1 is the rfftn length: equal to L because L is even *)
Lemma irfft_length_is_buflen n k : 2 * ((buflen n k / 2 + 1) - 1) = buflen n k.
Proof. unfold buflen. lia. Qed.

(* the window [w, n + w) for any start inside the kernel, 0 <= w < k (in particular w = c_k) *)
Lemma window_in_buffer n k w p :
  1 <= n -> 0 <= w < k -> 0 <= p < n ->
  0 <= p + win_start w < buflen n k /\ win_stop n w <= buflen n k /\ win_stop n w - win_start w = n.
Proof. intros Hn Hk Hp. unfold win_start, win_stop, buflen. lia. Qed.

(* ---------------- no wrap-around ---------------- *)
Lemma pad_mod_nowrap (kap : Z -> Q) n k L s t :
  1 <= k -> n + k - 1 <= L -> 0 <= s < n -> 0 <= t < L ->
  pad k kap ((t - s) mod L) = pad k kap (t - s).
Proof.
  intros Hk HL Hs Ht.
  destruct (Z_le_gt_dec 0 (t - s)) as [Hp|Hn].
  - rewrite Z.mod_small by lia. reflexivity.
  - assert (E : (t - s) mod L = t - s + L).
    { symmetry. apply Z.mod_unique with (q := -1); lia. }
    rewrite E. unfold pad.
    destruct ((0 <=? t - s + L) && (t - s + L <? k)) eqn:A;
      destruct ((0 <=? t - s) && (t - s <? k)) eqn:B; try reflexivity; lia.
Qed.

(* the premise of pad_mod_nowrap holds for the buffer of the code *)
Lemma buflen_nowrap n k : n + k - 1 <= buflen n k.
Proof. pose proof (buflen_ge n k). lia. Qed.

(* ---------------- _crop ---------------- *)
Lemma find_up_spec P : forall fuel i m,
  find_up P i fuel = Some m ->
  i <= m < i + Z.of_nat fuel /\ P m = true /\ forall j, i <= j < m -> P j = false.
Proof.
  induction fuel as [|f IH]; intros i m H; cbn [find_up] in H; [discriminate|].
  destruct (P i) eqn:Pi.
  - inversion H; subst m. repeat split; try lia. exact Pi.
  - destruct (IH _ _ H) as (A & B & C). repeat split; try lia. exact B.
    intros j Hj. destruct (Z.eq_dec j i) as [->|Hne]; [exact Pi|apply C; lia].
Qed.

Lemma find_up_some P : forall fuel i j,
  i <= j < i + Z.of_nat fuel -> P j = true -> exists m, find_up P i fuel = Some m.
Proof.
  induction fuel as [|f IH]; intros i j Hj Pj; [lia|]. cbn [find_up].
  destruct (P i) eqn:Pi; [eauto|].
  apply (IH (i + 1) j); [|exact Pj].
  assert (j <> i) by (intros ->; congruence). lia.
Qed.

Lemma find_down_spec P : forall fuel i M,
  find_down P i fuel = Some M ->
  i - Z.of_nat fuel < M <= i /\ P M = true /\ forall j, M < j <= i -> P j = false.
Proof.
  induction fuel as [|f IH]; intros i M H; cbn [find_down] in H; [discriminate|].
  destruct (P i) eqn:Pi.
  - inversion H; subst M. repeat split; try lia. exact Pi.
  - destruct (IH _ _ H) as (A & B & C). repeat split; try lia. exact B.
    intros j Hj. destruct (Z.eq_dec j i) as [->|Hne]; [exact Pi|apply C; lia].
Qed.

Lemma find_down_some P : forall fuel i j,
  i - Z.of_nat fuel < j <= i -> P j = true -> exists m, find_down P i fuel = Some m.
Proof.
  induction fuel as [|f IH]; intros i j Hj Pj; [lia|]. cbn [find_down].
  destruct (P i) eqn:Pi; [eauto|].
  apply (IH (i - 1) j); [|exact Pj].
  assert (j <> i) by (intros ->; congruence). lia.
Qed.

(* bounding-box specification of crop_bounds when the projection is non-empty *)
Definition is_bbox (n : Z) (P : Z -> bool) (m M : Z) : Prop :=
  0 <= m <= M /\ M < n /\ P m = true /\ P M = true /\
  (forall j, 0 <= j < m -> P j = false) /\ (forall j, M < j < n -> P j = false).

Lemma crop_bounds_bbox n P c :
  0 <= c < n -> P c = true ->
  is_bbox n P (fst (crop_bounds n P)) (snd (crop_bounds n P)) /\
  fst (crop_bounds n P) <= c <= snd (crop_bounds n P).
Proof.
  intros Hc Pc. unfold crop_bounds.
  destruct (find_up_some P (Z.to_nat n) 0 c ltac:(lia) Pc) as [m Em].
  destruct (find_down_some P (Z.to_nat n) (n - 1) c ltac:(lia) Pc) as [M EM].
  rewrite Em, EM. cbn [fst snd].
  destruct (find_up_spec _ _ _ _ Em) as (A1 & A2 & A3).
  destruct (find_down_spec _ _ _ _ EM) as (B1 & B2 & B3).
  assert (m <= c).
  { destruct (Z_le_gt_dec m c) as [?|G]; [assumption|]. rewrite (A3 c) in Pc by lia. discriminate. }
  assert (c <= M).
  { destruct (Z_le_gt_dec c M) as [?|G]; [assumption|]. rewrite (B3 c) in Pc by lia. discriminate. }
  unfold is_bbox.
  split; [|lia].
  split; [lia|]. split; [lia|]. split; [exact A2|]. split; [exact B2|].
  split; intros j Hj; [apply A3|apply B3]; lia.
Qed.

(* ---------------- centring ---------------- *)
Lemma half_gap_zero_iff n mM : half_gap n mM = 0 <-> kcentre n mM = klen mM / 2.
Proof. unfold half_gap. lia. Qed.

(* the support of a kernel that depends on |offset from the centre| only:
   symmetric, and downward closed in |d| *)
Definition sym_mono (S : Z -> bool) : Prop :=
  S 0 = true /\ forall d d', Z.abs d' <= Z.abs d -> S d = true -> S d' = true.

Lemma sym_bbox_half_gap n S m M :
  1 <= n -> sym_mono S ->
  is_bbox n (fun i => S (i - centre n)) m M -> m <= centre n <= M ->
  half_gap n (m, M) = if Z.even n && S (centre n + 1) then -1 else 0.
Proof.
  intros Hn [S0 Smono] (H1 & H2 & Pm & PM & Lo & Hi) Hc.
  unfold half_gap, kcentre, klen. cbn [fst snd].
  set (c := centre n) in *.
  assert (Hcn : (Z.even n = true /\ n = 2 * c + 2) \/ (Z.even n = false /\ n = 2 * c + 1)).
  { unfold c, centre. destruct (Z.even n) eqn:E; [left|right]; split; try reflexivity.
    - apply Z.even_spec in E. destruct E as [q ->]. lia.
    - assert (O : Z.odd n = true) by (rewrite <- Z.negb_even, E; reflexivity).
      apply Z.odd_spec in O. destruct O as [q ->]. lia. }
  (* facts about the two ends *)
  assert (Hc0 : 0 <= c) by lia.
  assert (Lo' : m = 0 \/ (0 < m /\ S (m - 1 - c) = false)).
  { destruct (Z.eq_dec m 0) as [?|Hne]; [left; assumption|right]. split; [lia|]. apply (Lo (m - 1)). lia. }
  assert (Hi' : M = n - 1 \/ (M < n - 1 /\ S (M + 1 - c) = false)).
  { destruct (Z.eq_dec M (n - 1)) as [?|Hne]; [left; assumption|right]. split; [lia|]. apply (Hi (M + 1)). lia. }
  destruct (S (c + 1)) eqn:Sc1.
  - (* support reaches c+1: everything within distance c+1 is in *)
    assert (m = 0).
    { destruct Lo' as [?|[Hm0 F]]; [assumption|]. rewrite (Smono (c + 1) (m - 1 - c)) in F by (try assumption; lia). discriminate. }
    destruct Hcn as [[E Hn2]|[E Hn2]]; rewrite E; cbn [andb].
    + assert (M = n - 1).
      { destruct Hi' as [?|[HM0 F]]; [assumption|]. rewrite (Smono (c + 1) (M + 1 - c)) in F by (try assumption; lia). discriminate. }
      lia.
    + assert (M = n - 1).
      { destruct Hi' as [?|[HM0 F]]; [assumption|]. rewrite (Smono (c + 1) (M + 1 - c)) in F by (try assumption; lia). discriminate. }
      lia.
  - rewrite andb_false_r.
    (* support inside [-c, c]: the crop is symmetric *)
    assert (HM : M - c <= c).
    { destruct (Z_le_gt_dec (M - c) c) as [?|G]; [assumption|].
      rewrite (Smono (M - c) (c + 1)) in Sc1 by (try assumption; lia). discriminate. }
    assert (Hab : c - m = M - c).
    { destruct (Z.compare_spec (c - m) (M - c)) as [?|Lt|Gt]; [assumption| |].
      - (* left shorter than right: S(m-1-c) must be true, so m = 0, so M - c > c *)
        destruct Lo' as [?|[Hm0 F]]; [lia|].
        rewrite (Smono (M - c) (m - 1 - c)) in F by (try assumption; lia). discriminate.
      - destruct Hi' as [?|[HM0 F]]; [lia|].
        rewrite (Smono (m - c) (M + 1 - c)) in F by (try assumption; lia). discriminate. }
    lia.
Qed.

Lemma sym_half_gap n S :
  1 <= n -> sym_mono S ->
  half_gap n (crop_bounds n (fun i => S (i - centre n))) = if Z.even n && S (centre n + 1) then -1 else 0.
Proof.
  intros Hn HS.
  assert (Hc : 0 <= centre n < n) by (unfold centre; lia).
  pose proof (crop_bounds_bbox n (fun i => S (i - centre n)) (centre n) Hc) as HB.
  cbn beta in HB. rewrite Z.sub_diag in HB. specialize (HB (proj1 HS)).
  destruct HB as [BB Hin].
  destruct (crop_bounds n (fun i => S (i - centre n))) as [m M] eqn:E. cbn [fst snd] in *.
  apply sym_bbox_half_gap; assumption.
Qed.

Lemma sym_centred_iff n S :
  1 <= n -> sym_mono S ->
  (half_gap n (crop_bounds n (fun i => S (i - centre n))) = 0 <-> (Z.odd n = true \/ S (centre n + 1) = false)).
Proof.
  intros Hn HS. rewrite (sym_half_gap n S Hn HS). rewrite <- Z.negb_even.
  destruct (Z.even n); destruct (S (centre n + 1)); cbn; intuition (try discriminate; try lia).
Qed.

(* kernel length and centre in the symmetric uncropped case: k = 2r+1, c_k = r *)
Lemma sym_uncropped_shape n S m M r :
  sym_mono S -> is_bbox n (fun i => S (i - centre n)) m M -> m <= centre n <= M ->
  0 <= r -> S r = true -> S (r + 1) = false -> r <= centre n -> centre n + r <= n - 1 ->
  m = centre n - r /\ M = centre n + r.
Proof.
  intros [S0 Smono] (H1 & H2 & Pm & PM & Lo & Hi) Hc Hr Sr Sr1 Hl Hrr.
  set (c := centre n) in *.
  assert (A : c - m <= r).
  { destruct (Z_le_gt_dec (c - m) r) as [?|G]; [assumption|].
    rewrite (Smono (m - c) (r + 1)) in Sr1 by (try assumption; lia). discriminate. }
  assert (B : M - c <= r).
  { destruct (Z_le_gt_dec (M - c) r) as [?|G]; [assumption|].
    rewrite (Smono (M - c) (r + 1)) in Sr1 by (try assumption; lia). discriminate. }
  assert (A' : r <= c - m).
  { destruct (Z_le_gt_dec r (c - m)) as [?|G]; [assumption|].
    pose proof (Lo (c - r) ltac:(lia)) as F. cbn beta in F.
    rewrite (Smono r (c - r - c)) in F by (try assumption; lia). discriminate. }
  assert (B' : r <= M - c).
  { destruct (Z_le_gt_dec r (M - c)) as [?|G]; [assumption|].
    pose proof (Hi (c + r) ltac:(lia)) as F. cbn beta in F.
    rewrite (Smono r (c + r - c)) in F by (try assumption; lia). discriminate. }
  lia.
Qed.
