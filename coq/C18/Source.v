(* C18 - the definitions translated from kernel_smooth.py on this run
   (NV.Generated.KernelSmooth) are the ones the model and the theorems use. *)
From Coq Require Import ZArith QArith Qround Lia Reals.
From NV.Generated Require Import KernelSmooth.
From NV.C18 Require Import Model ModelR.
Close Scope R_scope.
Close Scope Q_scope.
Open Scope Z_scope.

Ltac Zify.zify_post_hook ::= Z.to_euclidean_division_equations.

Lemma src_centre_ok n : src_centre n = centre n.
Proof.
  unfold src_centre, centre, Qdiv, Qmult, Qinv, inject_Z, Qfloor. cbn.
  f_equal. lia.
Qed.

Lemma src_buflen_ok n k : src_buflen n k = buflen n k.
Proof.
  unfold src_buflen, buflen, Qceiling, Qdiv, Qmult, Qinv, Qopp, inject_Z, Qfloor. cbn.
  lia.
Qed.

Lemma src_window_ok n k w : src_win_start n k w = win_start w /\ src_win_stop n k w = win_stop n w.
Proof. split; reflexivity. Qed.

Lemma src_constants_ok :
  src_cut = cut /\ src_tol = tol /\ src_half = 2%Q /\ src_sigma_always_applied = true /\
  src_kernel_origin = 0 /\ src_data_origin = 0.
Proof. repeat split; reflexivity. Qed.

Lemma src_scale_location_ok scale loc d : src_scale_then_location scale loc d = (scale * d + loc)%Q.
Proof. reflexivity. Qed.

Lemma src_conversions_ok f :
  fwhm2sigma f = (f / sqrt (IZR src_f2s_a * ln (IZR src_f2s_b)))%R /\
  sigma2fwhm f = (f * sqrt (IZR src_s2f_a * ln (IZR src_s2f_b)))%R.
Proof. split; reflexivity. Qed.

Lemma src_resel_ok D root wedge v :
  src_resel2fwhm pos_recipr root D wedge v = resel2fwhm root wedge v /\
  src_fwhm2resel pos_recipr root D wedge v = fwhm2resel D wedge v.
Proof. split; reflexivity. Qed.

Lemma src_wedge_ok D root wedge detA :
  src_wedge pos_recipr root D wedge detA = wedge_of root detA /\ src_integrate_is_masked_mean = true.
Proof. split; reflexivity. Qed.

Lemma src_ctor_ok :
  src_ctor_stores_arguments = true /\ src_default_fwhm = default_fwhm /\
  src_default_scale = default_scale /\ src_default_location = default_location.
Proof. repeat split; reflexivity. Qed.

Lemma src_purity_ok : src_window_not_cast = true /\ src_normsq_copies_points = true.
Proof. split; reflexivity. Qed.
