(* C18 - property theorems only (LinearFilter of nipy/algorithms/kernel_smooth.py,
   per axis and on the 3-D buffer; conversions of kernel_smooth.py / fwhm.py
   over the reals).  The code as it is after b27b842 / cb9e1b1 / 8cb3db7.
   n = grid size, k = cropped kernel size, L = buflen n k = FFT buffer size,
   w = _kcenter (window start), x = data, kap = cropped kernel; no bound on any of them. *)
From Coq Require Import ZArith List Bool Lia QArith Qminmax Qabs Reals.
From NV.Generated Require Import KernelSmooth.
From NV.C18 Require Import Model ModelR Proofs1 Proofs2 Proofs3 Proofs4 ProofsR Source ModelAxis ProofsAxis.
From Coq Require Import Permutation.
Import ListNotations.
Close Scope Q_scope.
Close Scope R_scope.
Open Scope Z_scope.

(* (0) Tie to the source: the index formulas and constants translated from
   kernel_smooth.py / fwhm.py on this run (NV.Generated.KernelSmooth:
   vox_center, self.shape, the output slicer over _kcenter, the cut, the crop
   tolerance, the unconditional division by fwhm2sigma(fwhm), the buffer
   origins, scale-then-location, the conversion constants, the two Resels
   conversions) are the ones of the model, for every n, k, w. *)
Theorem source_index_formulas_are_model :
  forall n k w, src_centre n = centre n /\ src_buflen n k = buflen n k /\
                src_win_start n k w = win_start w /\ src_win_stop n k w = win_stop n w.
Proof.
  intros n k w. split; [apply src_centre_ok|split; [apply src_buflen_ok|apply src_window_ok]].
Qed.
Print Assumptions source_index_formulas_are_model.

Theorem source_constants_are_model :
  src_cut = cut /\ src_tol = tol /\ src_half = 2%Q /\ src_sigma_always_applied = true /\
  src_kernel_origin = 0 /\ src_data_origin = 0.
Proof. exact src_constants_ok. Qed.
Print Assumptions source_constants_are_model.

Theorem source_conversions_are_model :
  forall f : R,
  fwhm2sigma f = (f / sqrt (IZR src_f2s_a * ln (IZR src_f2s_b)))%R /\
  sigma2fwhm f = (f * sqrt (IZR src_s2f_a * ln (IZR src_s2f_b)))%R.
Proof. exact src_conversions_ok. Qed.
Print Assumptions source_conversions_are_model.

Theorem source_resel_conversions_are_model :
  forall D root wedge v,
  src_resel2fwhm pos_recipr root D wedge v = resel2fwhm root wedge v /\
  src_fwhm2resel pos_recipr root D wedge v = fwhm2resel D wedge v.
Proof. exact src_resel_ok. Qed.
Print Assumptions source_resel_conversions_are_model.

(* (1) The FFT buffer: even (so irfftn returns L samples, not L-1), at least
   n + k + 2 long; the returned window [w, n + w), for ANY start inside the
   kernel (0 <= w < k, in particular w = _kcenter), lies inside it and has
   the input's length. *)
Theorem buffer_shape_even_and_large :
  forall n k, (buflen n k) mod 2 = 0 /\ n + k + 2 <= buflen n k /\
              2 * ((buflen n k / 2 + 1) - 1) = buflen n k.
Proof. intros n k. split; [apply buflen_even|split; [apply buflen_ge|apply irfft_length_is_buflen]]. Qed.
Print Assumptions buffer_shape_even_and_large.

Theorem output_window_has_input_shape :
  forall n k w p, 1 <= n -> 0 <= w < k -> 0 <= p < n ->
  0 <= p + win_start w < buflen n k /\ win_stop n w <= buflen n k /\ win_stop n w - win_start w = n.
Proof. exact window_in_buffer. Qed.
Print Assumptions output_window_has_input_shape.

(* _kcenter (first argmax of the cropped kernel) is such a start *)
Theorem kcenter_inside_kernel :
  forall k kap, 1 <= k -> 0 <= kcenter k kap < k /\ forall j, 0 <= j < k -> (kap j <= kap (kcenter k kap))%Q.
Proof. intros k kap Hk. split; [apply kcenter_range; exact Hk|intros j Hj; apply kcenter_max; assumption]. Qed.
Print Assumptions kcenter_inside_kernel.

(* (2) No wrap-around: on EVERY index of the buffer - hence on every index the
   NEW window reads: p + w < n + k - 1 < L - the circular convolution computed
   through the FFT equals the direct linear convolution of data and kernel. *)
Theorem circular_equals_linear_in_window :
  forall n k x kap t, 1 <= n -> 1 <= k -> 0 <= t < buflen n k ->
  (circ (buflen n k) (pad n x) (pad k kap) t == lin n k x kap t)%Q.
Proof. intros n k x kap t Hn Hk Ht. apply circ_eq_lin; try assumption. apply buflen_nowrap. Qed.
Print Assumptions circular_equals_linear_in_window.

Theorem circular_equals_linear_on_kcenter_window :
  forall n k x kap p, 1 <= n -> 1 <= k -> 0 <= p < n ->
  0 <= p + win_start (kcenter k kap) < buflen n k /\
  (circ (buflen n k) (pad n x) (pad k kap) (p + win_start (kcenter k kap)) ==
   lin n k x kap (p + kcenter k kap))%Q.
Proof.
  intros n k x kap p Hn Hk Hp.
  pose proof (kcenter_range k kap Hk) as R.
  pose proof (window_in_buffer n k (kcenter k kap) p Hn R Hp) as (W & _).
  split; [exact W|]. unfold win_start in *.
  apply circ_eq_lin; try assumption. apply buflen_nowrap.
Qed.
Print Assumptions circular_equals_linear_on_kcenter_window.

(* ... and it is the buffer-length formula that gives it: any L >= n + k - 1 does *)
Theorem circular_equals_linear_general :
  forall n k L x kap t, 1 <= n -> 1 <= k -> n + k - 1 <= L -> 0 <= t < L ->
  (circ L (pad n x) (pad k kap) t == lin n k x kap t)%Q.
Proof. exact circ_eq_lin. Qed.
Print Assumptions circular_equals_linear_general.

(* the same on the 3-D buffer the code really uses (per-axis lemma on each axis) *)
Theorem circular_equals_linear_3d :
  forall n1 n2 n3 k1 k2 k3 x kap t1 t2 t3,
  1 <= n1 -> 1 <= n2 -> 1 <= n3 -> 1 <= k1 -> 1 <= k2 -> 1 <= k3 ->
  0 <= t1 < buflen n1 k1 -> 0 <= t2 < buflen n2 k2 -> 0 <= t3 < buflen n3 k3 ->
  (circ3 (buflen n1 k1) (buflen n2 k2) (buflen n3 k3) (pad3 n1 n2 n3 x) (pad3 k1 k2 k3 kap) t1 t2 t3
   == lin3 n1 n2 n3 k1 k2 k3 x kap t1 t2 t3)%Q.
Proof.
  intros. apply circ3_eq_lin3; try assumption; apply buflen_nowrap.
Qed.
Print Assumptions circular_equals_linear_3d.

Theorem smooth3_is_direct_convolution :
  forall n1 n2 n3 k1 k2 k3 w1 w2 w3 x kap scale loc p1 p2 p3,
  1 <= n1 -> 1 <= n2 -> 1 <= n3 -> 0 <= w1 < k1 -> 0 <= w2 < k2 -> 0 <= w3 < k3 ->
  0 <= p1 < n1 -> 0 <= p2 < n2 -> 0 <= p3 < n3 ->
  (smooth3 n1 n2 n3 k1 k2 k3 w1 w2 w3 x kap scale loc p1 p2 p3 ==
   scale * (lin3 n1 n2 n3 k1 k2 k3 x kap (p1 + w1) (p2 + w2) (p3 + w3) / l1sum3 k1 k2 k3 kap) + loc)%Q.
Proof. exact smooth3_direct. Qed.
Print Assumptions smooth3_is_direct_convolution.

Theorem smooth_is_direct_convolution :
  forall n k x kap scale loc p, 1 <= n -> 1 <= k -> 0 <= p < n ->
  (smooth1 n k x kap scale loc p == scale * (lin n k x kap (p + kcenter k kap) / l1sum k kap) + loc)%Q.
Proof. exact smooth1_direct. Qed.
Print Assumptions smooth_is_direct_convolution.

(* (3) Linearity; scale and location act as an affine map on the output. *)
Theorem smooth_is_linear :
  forall n k x y kap a b p, 1 <= n -> 1 <= k -> 0 <= p < n ->
  (smooth1 n k (fun s => a * x s + b * y s) kap 1 0 p ==
   a * smooth1 n k x kap 1 0 p + b * smooth1 n k y kap 1 0 p)%Q.
Proof. exact smooth1_linear. Qed.
Print Assumptions smooth_is_linear.

Theorem scale_location_affine :
  forall n k x kap scale loc p,
  (smooth1 n k x kap scale loc p == scale * smooth1 n k x kap 1 0 p + loc)%Q.
Proof. exact smooth1_scale_loc. Qed.
Print Assumptions scale_location_affine.

(* the constructor stores scale and location as given (source tie) and 0 is a scale like any
   other: the output is the location everywhere; the defaults are scale 1, location 0 *)
Theorem source_constructor_is_model :
  src_ctor_stores_arguments = true /\ src_default_fwhm = default_fwhm /\
  src_default_scale = default_scale /\ src_default_location = default_location.
Proof. exact src_ctor_ok. Qed.
Print Assumptions source_constructor_is_model.

(* smooth returns the computed window without casting it to the input's storage type, and
   _normsq copies the points as float64 (`np.array(X, dtype=np.float64)`) before rescaling them
   in place (literal statements of the source) *)
Theorem source_keeps_float_output_and_copies_points :
  src_window_not_cast = true /\ src_normsq_copies_points = true.
Proof. exact src_purity_ok. Qed.
Print Assumptions source_keeps_float_output_and_copies_points.

Theorem zero_scale_gives_location :
  forall n k x kap loc p,
  (smooth1 n k x kap 0 loc p == loc)%Q /\
  (smooth1 n k x kap default_scale default_location p == smooth1 n k x kap 1 0 p)%Q.
Proof. intros. split; [apply smooth1_zero_scale|apply smooth1_defaults]. Qed.
Print Assumptions zero_scale_gives_location.

(* shift equivariance for ARBITRARY data: y is x moved by d >= 0 voxels (read
   backwards: by -d), both inside the grid: the smoothed y is the smoothed x
   moved by d, on every output voxel where both are defined. *)
Theorem smooth_shift_equivariant :
  forall n k kap x y d p scale loc,
  1 <= n -> 1 <= k -> 0 <= d -> 0 <= p -> p + d < n ->
  (forall s, ~ (0 <= s < n) -> (x s == 0)%Q) ->
  (forall s, ~ (0 <= s < n) -> (y s == 0)%Q) ->
  (forall s, (y s == x (s - d)%Z)%Q) ->
  (smooth1 n k y kap scale loc (p + d) == smooth1 n k x kap scale loc p)%Q.
Proof. exact smooth1_shift. Qed.
Print Assumptions smooth_shift_equivariant.

(* (4) CENTRING - the main theorem.  For ANY kernel profile g >= 0 with a strict
   maximum at offset 0, cropped in ANY way that keeps its centre (index c_k of
   k entries, 0 <= c_k < k): _kcenter = c_k, and the response to a unit
   impulse at p0 has its strict maximum AT p0 - every n, k, c_k, p0: odd and
   even grids, kernels cut by the border or not. *)
Theorem kcenter_is_centre_index :
  forall (g : Z -> Q), (forall d, (0 <= g d)%Q) -> (forall d, d <> 0 -> (g d < g 0%Z)%Q) ->
  forall k ck, 0 <= ck < k -> kcenter k (kern_of g ck) = ck.
Proof. exact kcenter_kern_of. Qed.
Print Assumptions kcenter_is_centre_index.

Theorem impulse_response_centred :
  forall (g : Z -> Q), (forall d, (0 <= g d)%Q) -> (forall d, d <> 0 -> (g d < g 0%Z)%Q) ->
  forall n k ck p0 p, 1 <= n -> 0 <= ck < k -> 0 <= p0 < n -> 0 <= p < n -> p <> p0 ->
  (smooth1 n k (delta p0) (kern_of g ck) 1 0 p < smooth1 n k (delta p0) (kern_of g ck) 1 0 p0)%Q.
Proof. exact impulse_centred. Qed.
Print Assumptions impulse_response_centred.

(* the response IS the profile centred on the impulse (no spatial offset), zero beyond the kernel *)
Theorem impulse_response_value :
  forall (g : Z -> Q), (forall d, (0 <= g d)%Q) -> (forall d, d <> 0 -> (g d < g 0%Z)%Q) ->
  forall n k ck p0 p, 1 <= n -> 0 <= ck < k -> 0 <= p0 < n -> 0 <= p < n ->
  (0 <= p + ck - p0 < k ->
   (smooth1 n k (delta p0) (kern_of g ck) 1 0 p == g (p - p0)%Z / l1sum k (kern_of g ck))%Q) /\
  (~ (0 <= p + ck - p0 < k) -> (smooth1 n k (delta p0) (kern_of g ck) 1 0 p == 0)%Q).
Proof.
  intros g H1 H2 n k ck p0 p Hn Hck Hp0 Hp. split; intros H.
  - apply impulse_value; assumption.
  - apply impulse_zero; assumption.
Qed.
Print Assumptions impulse_response_value.

(* what any other window start would do: the peak moves to p0 + (c_k - w)
   (w = k // 2 was the code before b27b842) *)
Theorem impulse_peak_for_any_window :
  forall (g : Z -> Q), (forall d, (0 <= g d)%Q) -> (forall d, d <> 0 -> (g d < g 0%Z)%Q) ->
  forall n k w ck p0 p, 1 <= n -> 0 <= w < k -> 0 <= ck < k -> 0 <= p0 < n -> 0 <= p < n ->
  0 <= p0 + (ck - w) < n -> p <> p0 + (ck - w) ->
  (smooth1_w n k w (delta p0) (kern_of g ck) 1 0 p < smooth1_w n k w (delta p0) (kern_of g ck) 1 0 (p0 + (ck - w)))%Q.
Proof. exact impulse_peak_w. Qed.
Print Assumptions impulse_peak_for_any_window.

(* 3-D, EVERY affine (diagonal, flipped, oblique): the kernel is any G >= 0 of
   the voxel offset VECTOR with a strict maximum at 0, cropped by any box that
   keeps the centre (c1,c2,c3); whatever maximal index np.argmax returns is
   the centre, and the smoothed unit impulse at q has its strict maximum AT q. *)
Theorem impulse_response_centred_3d :
  forall (G : Z -> Z -> Z -> Q),
  (forall d1 d2 d3, (0 <= G d1 d2 d3)%Q) ->
  (forall d1 d2 d3, ~ (d1 = 0 /\ d2 = 0 /\ d3 = 0) -> (G d1 d2 d3 < G 0%Z 0%Z 0%Z)%Q) ->
  forall n1 n2 n3 k1 k2 k3 c1 c2 c3 w1 w2 w3 q1 q2 q3 p1 p2 p3,
  1 <= n1 -> 1 <= n2 -> 1 <= n3 ->
  0 <= c1 < k1 -> 0 <= c2 < k2 -> 0 <= c3 < k3 ->
  is_argmax3 k1 k2 k3 (kern3_of G c1 c2 c3) w1 w2 w3 ->
  0 <= q1 < n1 -> 0 <= q2 < n2 -> 0 <= q3 < n3 ->
  0 <= p1 < n1 -> 0 <= p2 < n2 -> 0 <= p3 < n3 ->
  ~ (p1 = q1 /\ p2 = q2 /\ p3 = q3) ->
  (w1 = c1 /\ w2 = c2 /\ w3 = c3) /\
  (smooth3 n1 n2 n3 k1 k2 k3 w1 w2 w3 (delta3 q1 q2 q3) (kern3_of G c1 c2 c3) 1 0 p1 p2 p3 <
   smooth3 n1 n2 n3 k1 k2 k3 w1 w2 w3 (delta3 q1 q2 q3) (kern3_of G c1 c2 c3) 1 0 q1 q2 q3)%Q.
Proof.
  intros G H1 H2 n1 n2 n3 k1 k2 k3 c1 c2 c3 w1 w2 w3 q1 q2 q3 p1 p2 p3 N1 N2 N3 C1 C2 C3 AM Q1 Q2 Q3 P1 P2 P3 Hne.
  split.
  - eapply (argmax3_is_centre G); eassumption.
  - eapply (impulse3_centred G); eassumption.
Qed.
Print Assumptions impulse_response_centred_3d.

(* the code's kernel for an affine with linear part A (rows) injective on the
   lattice and per-coordinate sigmas, exp abstract: it IS such a G *)
Theorem gaussian_kernel_any_affine_is_peaked :
  forall (E : Q -> Q),
  (forall u v, (u == v)%Q -> (E u == E v)%Q) ->
  (forall u, (0 <= u <= cut)%Q -> (tol < E u)%Q) ->
  (forall u, (0 < u <= cut)%Q -> (E u < E 0)%Q) ->
  forall a11 a12 a13 a21 a22 a23 a31 a32 a33 s1 s2 s3 : Q,
  ~ (s1 == 0)%Q -> ~ (s2 == 0)%Q -> ~ (s3 == 0)%Q ->
  (forall d1 d2 d3, ~ (d1 = 0 /\ d2 = 0 /\ d3 = 0) ->
    ~ (wrow a11 a12 a13 d1 d2 d3 == 0 /\ wrow a21 a22 a23 d1 d2 d3 == 0 /\ wrow a31 a32 a33 d1 d2 d3 == 0)%Q) ->
  let G := gprofile3 E a11 a12 a13 a21 a22 a23 a31 a32 a33 s1 s2 s3 in
  (forall d1 d2 d3, (0 <= G d1 d2 d3)%Q) /\
  (forall d1 d2 d3, ~ (d1 = 0 /\ d2 = 0 /\ d3 = 0) -> (G d1 d2 d3 < G 0%Z 0%Z 0%Z)%Q).
Proof.
  intros E H1 H2 H3 a11 a12 a13 a21 a22 a23 a31 a32 a33 s1 s2 s3 S1 S2 S3 Inj G. split.
  - intros d1 d2 d3. apply gprofile3_nonneg; assumption.
  - intros d1 d2 d3 Hd. apply gprofile3_peak; assumption.
Qed.
Print Assumptions gaussian_kernel_any_affine_is_peaked.

(* (5) Geometry of the crop.  _crop returns the bounding box of the support (any
   non-empty projection P) ... *)
Theorem crop_is_bounding_box :
  forall n P c, 0 <= c < n -> P c = true ->
  is_bbox n P (fst (crop_bounds n P)) (snd (crop_bounds n P)) /\
  fst (crop_bounds n P) <= c <= snd (crop_bounds n P).
Proof. exact crop_bounds_bbox. Qed.
Print Assumptions crop_is_bounding_box.

(* ... and for every support that depends on |offset| only (diagonal and flipped
   affines, any fwhm) the centre sits at k//2 - 1 exactly when n is even and
   the support reaches centre+1 (is cut by the grid border), else at k//2 -
   which is why the window has to follow _kcenter and not k//2. *)
Theorem cropped_centre_position_symmetric_support :
  forall n S, 1 <= n -> sym_mono S ->
  half_gap n (crop_bounds n (fun i => S (i - centre n))) = (if Z.even n && S (centre n + 1) then -1 else 0) /\
  (half_gap n (crop_bounds n (fun i => S (i - centre n))) = 0 <-> (Z.odd n = true \/ S (centre n + 1) = false)).
Proof. intros n S Hn HS. split; [apply sym_half_gap|apply sym_centred_iff]; assumption. Qed.
Print Assumptions cropped_centre_position_symmetric_support.

(* the Gaussian cut of the code along a diagonal axis: kernel size and centre *)
Theorem diagonal_axis_kernel_geometry :
  forall n step sigma, 1 <= n -> ~ (sigma == 0)%Q ->
  let mM := bounds_diag n step sigma in
  0 <= kcentre n mM < klen mM /\ 1 <= klen mM <= n /\
  half_gap n mM = if Z.even n && in_cut (half_normsq step sigma (centre n + 1)) then -1 else 0.
Proof. exact diag_geom_ok. Qed.
Print Assumptions diagonal_axis_kernel_geometry.

(* (6) The whole chain along a diagonal axis with exp abstract (E u = exp(-u):
   positive above the crop tolerance on [0,15], below E 0 for u > 0): _kcenter
   is the centre voxel's index in the crop and the smoothed unit impulse at p0
   has its strict maximum at p0 - every n (the former counterexample n = 8,
   sigma 17/20 included), step, sigma. *)
Theorem gaussian_impulse_centred :
  forall (E : Q -> Q),
  (forall u v, (u == v)%Q -> (E u == E v)%Q) ->
  (forall u, (0 <= u <= cut)%Q -> (tol < E u)%Q) ->
  (forall u, (0 < u <= cut)%Q -> (E u < E 0)%Q) ->
  forall n step sigma p0 p, 1 <= n -> ~ (step == 0)%Q -> ~ (sigma == 0)%Q ->
  0 <= p0 < n -> 0 <= p < n -> p <> p0 ->
  (let mM := bounds_diag n step sigma in
   kcenter (klen mM) (kern_of (gprofile E step sigma) (kcentre n mM)) = kcentre n mM) /\
  (response E n step sigma p0 p < response E n step sigma p0 p0)%Q.
Proof.
  intros E H1 H2 H3 n step sigma p0 p Hn Hst Hs Hp0 Hp Hne. split.
  - apply (diag_kcenter E H1 H2 H3); assumption.
  - apply (diag_impulse_centred E H1 H2 H3); assumption.
Qed.
Print Assumptions gaussian_impulse_centred.

(* (7) _crop's tolerance test keeps exactly the entries inside the cut. *)
Theorem crop_keeps_cut_support :
  forall (E : Q -> Q),
  (forall u v, (u == v)%Q -> (E u == E v)%Q) ->
  (forall u, (0 <= u <= cut)%Q -> (tol < E u)%Q) ->
  forall u, (0 <= u)%Q -> above_tol (kval E u) = in_cut u.
Proof. exact crop_mask_is_cut. Qed.
Print Assumptions crop_keeps_cut_support.

(* (8) World units: a voxel of size |step| sees a kernel of sigma/|step| voxels;
   flipping an axis or the offset changes nothing. *)
Theorem kernel_in_world_units :
  forall step sigma d, ~ (sigma == 0)%Q -> ~ (step == 0)%Q ->
  (half_normsq step sigma d == half_normsq 1 (sigma / step) d)%Q /\
  (half_normsq (- step) sigma d == half_normsq step sigma d)%Q /\
  (half_normsq step sigma (- d) == half_normsq step sigma d)%Q.
Proof. exact half_normsq_world. Qed.
Print Assumptions kernel_in_world_units.

(* (9) Constants and total intensity away from the borders (w = _kcenter). *)
Theorem constant_preserved_interior :
  forall n k kap a p, 1 <= n -> 1 <= k -> 0 <= p < n -> ~ (l1sum k kap == 0)%Q ->
  k - 1 - kcenter k kap <= p -> p + kcenter k kap <= n - 1 ->
  (smooth1 n k (fun _ => a) kap 1 0 p == a)%Q.
Proof. exact constant_preserved. Qed.
Print Assumptions constant_preserved_interior.

Theorem mass_preserved_interior :
  forall n k kap x, 1 <= n -> 1 <= k -> ~ (l1sum k kap == 0)%Q ->
  (forall s, 0 <= s < n -> ~ (kcenter k kap <= s /\ s - kcenter k kap + k <= n) -> (x s == 0)%Q) ->
  (zsum (fun p => smooth1 n k x kap 1 0 p) (Z.to_nat n) == zsum x (Z.to_nat n))%Q.
Proof. exact mass_preserved. Qed.
Print Assumptions mass_preserved_interior.

(* (10) Conversions over the reals. *)
Theorem sigma_fwhm_inverse :
  forall x : R, sigma2fwhm (fwhm2sigma x) = x /\ fwhm2sigma (sigma2fwhm x) = x.
Proof. exact ProofsR.sigma_fwhm_inverse. Qed.
Print Assumptions sigma_fwhm_inverse.

(* the requested width is honoured for EVERY fwhm (1.0 included: the division by
   fwhm2sigma(fwhm) is unconditional, source_constants_are_model): the Gaussian of
   _normsq/__call__ is at half its maximum at world distance fwhm/2 *)
Theorem requested_width_honoured :
  forall f : R, f <> 0%R -> gauss (fwhm2sigma f) (f / 2) = (/ 2)%R /\ gauss (fwhm2sigma f) 0 = 1%R.
Proof. exact half_max. Qed.
Print Assumptions requested_width_honoured.

(* Resels.fwhm2resel and Resels.resel2fwhm are mutually inverse for EVERY wedge > 0
   (root = np.power(., 1/D) with its two defining properties) *)
Theorem resel_fwhm_mutually_inverse :
  forall (D : nat) (root : R -> R),
  (forall r, (0 < r)%R -> (0 < root r)%R /\ (root r ^ D)%R = r) ->
  (forall x, (0 < x)%R -> root (x ^ D)%R = x) ->
  forall wedge v, (0 < wedge)%R -> (0 < v)%R ->
  fwhm2resel D wedge (resel2fwhm root wedge v) = v /\
  resel2fwhm root wedge (fwhm2resel D wedge v) = v.
Proof.
  intros D root H1 H2 wedge v Hw Hv. split.
  - apply resel_roundtrip; assumption.
  - apply fwhm_roundtrip; assumption.
Qed.
Print Assumptions resel_fwhm_mutually_inverse.

(* Resels (fwhm.py) for EVERY affine coordinate map.  wedge = root |det(affine)|: positive and
   wedge^D = |det| for every invertible affine; flipping voxel axes multiplies the determinant
   by -1 per flip (det3_scale_columns with s = -1; the homogeneous 4x4 has the determinant of
   its 3x3 block) and leaves wedge - hence both conversions - unchanged. *)
Theorem source_wedge_is_model :
  forall D root wedge detA,
  src_wedge pos_recipr root D wedge detA = wedge_of root detA /\ src_integrate_is_masked_mean = true.
Proof. exact src_wedge_ok. Qed.
Print Assumptions source_wedge_is_model.

Theorem affine_determinant_under_axis_scaling :
  forall s1 s2 s3 a b c d e f g h i tx ty tz : R,
  det4 (s1 * a) (s2 * b) (s3 * c) tx (s1 * d) (s2 * e) (s3 * f) ty (s1 * g) (s2 * h) (s3 * i) tz 0 0 0 1
  = (s1 * s2 * s3 * det3 a b c d e f g h i)%R.
Proof. intros. rewrite det4_homogeneous. apply det3_scale_columns. Qed.
Print Assumptions affine_determinant_under_axis_scaling.

Theorem wedge_positive_and_orientation_free :
  forall (D : nat) (root : R -> R),
  (forall r, (0 < r)%R -> (0 < root r)%R /\ (root r ^ D)%R = r) ->
  forall d, d <> 0%R ->
  (0 < wedge_of root d)%R /\ (wedge_of root d ^ D)%R = Rabs d /\ wedge_of root (- d) = wedge_of root d.
Proof.
  intros D root H d Hd. split; [apply (wedge_pos D root H d Hd)|split; [apply (wedge_pow D root H d Hd)|apply wedge_flip]].
Qed.
Print Assumptions wedge_positive_and_orientation_free.

(* the conversions of a Resels object built on ANY invertible affine (determinant d of either
   sign) are mutually inverse, do not depend on the orientation, and mean
   resels per voxel = voxel volume * (sqrt(4 ln 2) / fwhm)^D *)
Theorem resel_fwhm_inverse_for_every_affine :
  forall (D : nat) (root : R -> R),
  (forall r, (0 < r)%R -> (0 < root r)%R /\ (root r ^ D)%R = r) ->
  (forall x, (0 < x)%R -> root (x ^ D)%R = x) ->
  forall d v, d <> 0%R -> (0 < v)%R ->
  (fwhm2resel D (wedge_of root d) (resel2fwhm root (wedge_of root d) v) = v /\
   resel2fwhm root (wedge_of root d) (fwhm2resel D (wedge_of root d) v) = v) /\
  (fwhm2resel D (wedge_of root (- d)) v = fwhm2resel D (wedge_of root d) v /\
   resel2fwhm root (wedge_of root (- d)) v = resel2fwhm root (wedge_of root d) v) /\
  fwhm2resel D (wedge_of root d) v = (Rabs d * (sqrt (4 * ln 2) / v) ^ D)%R.
Proof.
  intros D root H1 H2 d v Hd Hv. split; [|split].
  - apply (resel_inverse_any_affine D root H1 H2); assumption.
  - apply resel_orientation_independent.
  - apply (fwhm2resel_meaning D root H1); assumption.
Qed.
Print Assumptions resel_fwhm_inverse_for_every_affine.

(* Resels.integrate over a constant resel field (any mask with a non-zero count): total = r * n,
   the reported FWHM is resel2fwhm r *)
Theorem integrate_constant_field :
  forall (root : R -> R) wedge r vox,
  Forall (fun p => fst p = r) vox -> rsum (map snd vox) <> 0%R ->
  integrate root wedge vox = ((r * rsum (map snd vox))%R, resel2fwhm root wedge r, rsum (map snd vox)).
Proof. exact integrate_constant. Qed.
Print Assumptions integrate_constant_field.

Theorem resel_conversions_of_zero :
  forall (D : nat) (root : R -> R) w, (0 < D)%nat -> root 0%R = 0%R ->
  fwhm2resel D w 0 = 0%R /\ resel2fwhm root w 0 = 0%R.
Proof. intros D root w HD H0. split; [apply fwhm2resel_zero; exact HD|apply resel2fwhm_zero; exact H0]. Qed.
Print Assumptions resel_conversions_of_zero.

(* the executable determinant used by the correspondence, on the flipped 2 x 3 x 4 mm affine *)
Example qdet_flipped : qdet [[(-2)%Q; 0%Q; 0%Q; 5%Q]; [0%Q; 3%Q; 0%Q; 1%Q]; [0%Q; 0%Q; 4%Q; 0%Q]; [0%Q; 0%Q; 0%Q; 1%Q]] = (-24)%Q.
Proof. vm_compute. reflexivity. Qed.

(* non-vacuity: concrete geometries [k; c_k; L; window start; stop; peak offset] *)
Example geom_even_cropped : geom_diag 8 1 (17 # 20) = [8; 3; 18; 3; 11; 0].
Proof. vm_compute. reflexivity. Qed.
Example geom_odd_cropped : geom_diag 7 1 (17 # 20) = [7; 3; 16; 3; 10; 0].
Proof. vm_compute. reflexivity. Qed.
Example geom_even_uncropped : geom_diag 12 1 (17 # 20) = [9; 4; 24; 4; 16; 0].
Proof. vm_compute. reflexivity. Qed.
Example geom_anisotropic : geom_diag 9 (-3) (17 # 20) = [3; 1; 14; 1; 10; 0].
Proof. vm_compute. reflexivity. Qed.
(* the executable first-argmax on a concrete cropped kernel (centre at index 3 of 8) *)
Example kcenter_example :
  kcenter 8 (kern_of (fun d => (1 # Z.to_pos (1 + d * d))%Q) 3) = 3.
Proof. vm_compute. reflexivity. Qed.

(* ---- round 6: the points array of the kernel function filt(X, axis) (_normsq / __call__):
   `_X = np.rollaxis(np.array(X, dtype=float64), axis)` modelled on strided views
   (shape / strides / offset over a flat buffer), any number of point axes, any layout. *)

(* the squared distance computed through the rolled view for the output point idx is the
   one of the caller's entries X[idx with the coordinate number c inserted at `axis`],
   for every number of point axes, strides, offset, buffer and coordinate-axis position *)
Theorem kernel_call_reads_the_points_coordinates :
  forall (sig : list Q) (buf : Z -> Q) (strides : list Z) (off : Z) (a : nat) (idx : list Z),
  (a <= length idx)%nat -> length strides = S (length idx) ->
  (forall c, vget buf (roll_front a strides) off (c :: idx) = vget buf strides off (insert_at a c idx)) /\
  normsq_view sig buf strides off a idx = normsq_points sig buf strides off a idx.
Proof.
  intros sig buf strides off a idx Ha Hl. split.
  - intro c. apply rolled_view_reads_points; assumption.
  - apply normsq_view_is_points; assumption.
Qed.
Print Assumptions kernel_call_reads_the_points_coordinates.

(* the result has the shape of the points array without the coordinate axis, the remaining
   axes in their original order (removing the slot inserted at `axis` gives idx back), and
   rolling only permutes the axes *)
Theorem kernel_call_result_shape_and_order :
  forall (a : nat) (shape : list Z), (a < length shape)%nat ->
  out_shape shape a = remove_at a shape /\
  S (length (out_shape shape a)) = length shape /\
  Permutation (roll_front a shape) shape /\
  (forall idx c, (a <= length idx)%nat ->
     remove_at a (insert_at a c idx) = idx /\ roll_front a (insert_at a c idx) = c :: idx).
Proof.
  intros a shape Ha. split; [reflexivity|]. split; [rewrite out_shape_is_remove; apply remove_length; exact Ha|].
  split; [apply roll_perm; exact Ha|].
  intros idx c Hi. split; [apply remove_insert; exact Hi|apply roll_insert; exact Hi].
Qed.
Print Assumptions kernel_call_result_shape_and_order.

(* whatever the memory layout: two views of the same logical array give the same result *)
Theorem kernel_call_layout_independent :
  forall (sig : list Q) (b1 b2 : Z -> Q) (s1 s2 : list Z) (o1 o2 : Z) (a : nat) (idx : list Z),
  (a <= length idx)%nat -> length s1 = S (length idx) -> length s2 = S (length idx) ->
  (forall j, length j = S (length idx) -> vget b1 s1 o1 j = vget b2 s2 o2 j) ->
  normsq_view sig b1 s1 o1 a idx = normsq_view sig b2 s2 o2 a idx.
Proof. exact normsq_layout_independent. Qed.
Print Assumptions kernel_call_layout_independent.

(* on 2-D point lists exchanging axis 0 with the coordinate axis IS the roll (so such lists
   cannot tell the two apart); negative axis numbers address a valid axis, -1 the last *)
Theorem swap_is_roll_on_point_lists_only :
  forall (a : nat) (l : list Z), length l = 2%nat -> (a < 2)%nat -> swap_front a l = roll_front a l.
Proof. exact swap_is_roll_2d. Qed.
Print Assumptions swap_is_roll_on_point_lists_only.

Theorem negative_axis_numbers :
  forall nd axis, - nd <= axis < nd ->
  (norm_axis nd axis < Z.to_nat nd)%nat /\ (0 < nd -> norm_axis nd (-1) = Z.to_nat (nd - 1)).
Proof. intros nd axis H. split; [apply norm_axis_in_range; exact H|apply norm_axis_last]. Qed.
Print Assumptions negative_axis_numbers.

(* non-vacuity: a grid-shaped (4,5,6,3) block of points, coordinates last: rolled shape (3,4,5,6),
   result shape (4,5,6); exchanging the axes instead would give (3,5,6,4) *)
Example roll_grid_shaped_points :
  roll_front (norm_axis 4 (-1)) [4; 5; 6; 3] = [3; 4; 5; 6] /\ out_shape [4; 5; 6; 3] (norm_axis 4 (-1)) = [4; 5; 6] /\
  swap_front 3 [4; 5; 6; 3] = [3; 5; 6; 4].
Proof. vm_compute. repeat split. Qed.
(* C-contiguous (2,2,3) points, coordinates last: output point (i,j) reads buffer 6i+3j+c *)
Example gather_c_contiguous :
  gather [2; 2; 3] [6; 3; 1] 0 2 = [[0; 1; 2]; [3; 4; 5]; [6; 7; 8]; [9; 10; 11]].
Proof. vm_compute. reflexivity. Qed.
