(* C18 - property theorems only (LinearFilter of nipy/algorithms/kernel_smooth.py,
   per axis; conversions of kernel_smooth.py / fwhm.py over the reals).
   n = grid size, k = cropped kernel size, L = buflen n k = FFT buffer size,
   x = data, kap = cropped kernel, all for one axis; no bound on any of them. *)
From Coq Require Import ZArith List Bool Lia QArith Qminmax Qabs Reals.
From NV.Generated Require Import KernelSmooth.
From NV.C18 Require Import Model ModelR Proofs1 Proofs2 Proofs3 Proofs4 ProofsR Source Fix.
Import ListNotations.
Close Scope Q_scope.
Close Scope R_scope.
Open Scope Z_scope.

(* (0) Tie to the source: the index formulas and constants translated from
   kernel_smooth.py on this run (NV.Generated.KernelSmooth: vox_center,
   self.shape, the output slicer, the cut, the crop tolerance, the fwhm guard,
   the buffer origins, scale-then-location, the conversion constants) are the
   ones of the model, for every n and k. *)
Theorem source_index_formulas_are_model :
  forall n k, src_centre n = centre n /\ src_buflen n k = buflen n k /\
              src_win_start n k = win_start k /\ src_win_stop n k = win_stop n k.
Proof.
  intros n k. split; [apply src_centre_ok|split; [apply src_buflen_ok|apply src_window_ok]].
Qed.
Print Assumptions source_index_formulas_are_model.

Theorem source_constants_are_model :
  src_cut = cut /\ src_tol = tol /\ src_half = 2%Q /\ src_fwhm_guard = 1%Q /\
  src_kernel_origin = 0 /\ src_data_origin = 0.
Proof. exact src_constants_ok. Qed.
Print Assumptions source_constants_are_model.

Theorem source_conversions_are_model :
  forall f : R,
  fwhm2sigma f = (f / sqrt (IZR src_f2s_a * ln (IZR src_f2s_b)))%R /\
  sigma2fwhm f = (f * sqrt (IZR src_s2f_a * ln (IZR src_s2f_b)))%R.
Proof. exact src_conversions_ok. Qed.
Print Assumptions source_conversions_are_model.

(* (1) The FFT buffer: even (so irfftn returns L samples, not L-1), at least
   n + k + 2 long, and the returned window [k//2, n + k//2) lies inside it and
   has the input's length. *)
Theorem buffer_shape_even_and_large :
  forall n k, (buflen n k) mod 2 = 0 /\ n + k + 2 <= buflen n k /\
              2 * ((buflen n k / 2 + 1) - 1) = buflen n k.
Proof. intros n k. split; [apply buflen_even|split; [apply buflen_ge|apply irfft_length_is_buflen]]. Qed.
Print Assumptions buffer_shape_even_and_large.

Theorem output_window_has_input_shape :
  forall n k p, 1 <= n -> 1 <= k -> 0 <= p < n ->
  0 <= p + win_start k < buflen n k /\ win_stop n k <= buflen n k /\ win_stop n k - win_start k = n.
Proof. exact window_in_buffer. Qed.
Print Assumptions output_window_has_input_shape.

(* (2) No wrap-around: on EVERY index of the buffer (in particular on every
   index the output window reads) the circular convolution computed through
   the FFT equals the direct linear convolution of data and kernel. *)
Theorem circular_equals_linear_in_window :
  forall n k x kap t, 1 <= n -> 1 <= k -> 0 <= t < buflen n k ->
  (circ (buflen n k) (pad n x) (pad k kap) t == lin n k x kap t)%Q.
Proof. intros n k x kap t Hn Hk Ht. apply circ_eq_lin; try assumption. apply buflen_nowrap. Qed.
Print Assumptions circular_equals_linear_in_window.

(* ... and it is the buffer-length formula that gives it: any L >= n + k - 1 does *)
Theorem circular_equals_linear_general :
  forall n k L x kap t, 1 <= n -> 1 <= k -> n + k - 1 <= L -> 0 <= t < L ->
  (circ L (pad n x) (pad k kap) t == lin n k x kap t)%Q.
Proof. exact circ_eq_lin. Qed.
Print Assumptions circular_equals_linear_general.

(* the same on the 3-D buffer the code really uses (per-axis lemma on each axis) *)
Theorem circular_equals_linear_3d :
  forall n1 n2 n3 k1 k2 k3 x kap t1 t2 t3,
  1 <= n1 -> 1 <= n2 -> 1 <= n3 -> 1 <= k1 -> 1 <= k2 -> 1 <= k3 ->
  0 <= t1 < buflen n1 k1 -> 0 <= t2 < buflen n2 k2 -> 0 <= t3 < buflen n3 k3 ->
  (circ3 (buflen n1 k1) (buflen n2 k2) (buflen n3 k3) (pad3 n1 n2 n3 x) (pad3 k1 k2 k3 kap) t1 t2 t3
   == lin3 n1 n2 n3 k1 k2 k3 x kap t1 t2 t3)%Q.
Proof.
  intros. apply circ3_eq_lin3; try assumption; apply buflen_nowrap.
Qed.
Print Assumptions circular_equals_linear_3d.

Theorem smooth3_is_direct_convolution :
  forall n1 n2 n3 k1 k2 k3 x kap scale loc p1 p2 p3,
  1 <= n1 -> 1 <= n2 -> 1 <= n3 -> 1 <= k1 -> 1 <= k2 -> 1 <= k3 ->
  0 <= p1 < n1 -> 0 <= p2 < n2 -> 0 <= p3 < n3 ->
  (smooth3 n1 n2 n3 k1 k2 k3 x kap scale loc p1 p2 p3 ==
   scale * (lin3 n1 n2 n3 k1 k2 k3 x kap (p1 + k1 / 2) (p2 + k2 / 2) (p3 + k3 / 2) / l1sum3 k1 k2 k3 kap) + loc)%Q.
Proof. exact smooth3_direct. Qed.
Print Assumptions smooth3_is_direct_convolution.

Theorem smooth_is_direct_convolution :
  forall n k x kap scale loc p, 1 <= n -> 1 <= k -> 0 <= p < n ->
  (smooth1 n k x kap scale loc p == scale * (lin n k x kap (p + k / 2) / l1sum k kap) + loc)%Q.
Proof. exact smooth1_direct. Qed.
Print Assumptions smooth_is_direct_convolution.

(* (3) Linearity; scale and location act as an affine map on the output. *)
Theorem smooth_is_linear :
  forall n k x y kap a b p, 1 <= n -> 1 <= k -> 0 <= p < n ->
  (smooth1 n k (fun s => a * x s + b * y s) kap 1 0 p ==
   a * smooth1 n k x kap 1 0 p + b * smooth1 n k y kap 1 0 p)%Q.
Proof. exact smooth1_linear. Qed.
Print Assumptions smooth_is_linear.

Theorem scale_location_affine :
  forall n k x kap scale loc p,
  (smooth1 n k x kap scale loc p == scale * smooth1 n k x kap 1 0 p + loc)%Q.
Proof. exact smooth1_scale_loc. Qed.
Print Assumptions scale_location_affine.

(* (4) Impulse response.  For ANY kernel profile g >= 0 with a strict maximum
   at offset 0, cropped so that its centre sits at index c_k of k entries: the
   response to a unit impulse at p0 is the profile translated to
   p0 + (c_k - k//2), and that voxel is its strict maximum. *)
Theorem impulse_response_centre :
  forall (g : Z -> Q), (forall d, (0 <= g d)%Q) -> (forall d, d <> 0 -> (g d < g 0%Z)%Q) ->
  forall n k ck p0 p, 1 <= n -> 0 <= ck < k -> 0 <= p0 < n -> 0 <= p < n ->
  0 <= p0 + (ck - k / 2) < n -> p <> p0 + (ck - k / 2) ->
  (smooth1 n k (delta p0) (kern_of g ck) 1 0 p < smooth1 n k (delta p0) (kern_of g ck) 1 0 (p0 + (ck - k / 2)))%Q.
Proof. exact impulse_peak. Qed.
Print Assumptions impulse_response_centre.

Theorem impulse_response_value :
  forall (g : Z -> Q) n k ck p0 p, 1 <= n -> 0 <= ck < k -> 0 <= p0 < n -> 0 <= p < n ->
  0 <= p + k / 2 - p0 < k ->
  (smooth1 n k (delta p0) (kern_of g ck) 1 0 p == g (p - (p0 + (ck - k / 2)))%Z / l1sum k (kern_of g ck))%Q.
Proof. exact impulse_value. Qed.
Print Assumptions impulse_response_value.

(* (5) Centring.  The spatial offset is 0 iff the centre voxel sits at k//2 of
   the cropped kernel ... *)
Theorem centred_iff :
  forall n mM, offset n mM = 0 <-> kcentre n mM = klen mM / 2.
Proof. exact Proofs1.centred_iff. Qed.
Print Assumptions centred_iff.

(* ... _crop returns the bounding box of the support (any non-empty projection P) ... *)
Theorem crop_is_bounding_box :
  forall n P c, 0 <= c < n -> P c = true ->
  is_bbox n P (fst (crop_bounds n P)) (snd (crop_bounds n P)) /\
  fst (crop_bounds n P) <= c <= snd (crop_bounds n P).
Proof. exact crop_bounds_bbox. Qed.
Print Assumptions crop_is_bounding_box.

(* ... and for every support that depends on |offset| only (diagonal and
   flipped affines, any fwhm) the offset is exactly: -1 when n is even and the
   support reaches centre+1 (i.e. is cut by the grid border), else 0. *)
Theorem centred_iff_symmetric_support :
  forall n S, 1 <= n -> sym_mono S ->
  offset n (crop_bounds n (fun i => S (i - centre n))) = (if Z.even n && S (centre n + 1) then -1 else 0) /\
  (offset n (crop_bounds n (fun i => S (i - centre n))) = 0 <-> (Z.odd n = true \/ S (centre n + 1) = false)).
Proof. intros n S Hn HS. split; [apply sym_offset|apply sym_centred_iff]; assumption. Qed.
Print Assumptions centred_iff_symmetric_support.

(* the Gaussian cut of the code along a diagonal axis: kernel size, centre and offset *)
Theorem centred_odd_or_uncropped :
  forall n step sigma, 1 <= n -> ~ (sigma == 0)%Q ->
  let mM := bounds_diag n step sigma in
  0 <= kcentre n mM < klen mM /\ 1 <= klen mM <= n /\
  offset n mM = if Z.even n && in_cut (half_normsq step sigma (centre n + 1)) then -1 else 0.
Proof. exact diag_geom_ok. Qed.
Print Assumptions centred_odd_or_uncropped.

(* (6) The whole chain with exp abstract (E u = exp(-u): positive above the crop
   tolerance on [0,15], below E 0 for u > 0): the smoothed unit impulse at p0
   has its strict maximum at p0 + off, off as in (5). *)
Theorem gaussian_impulse_peak :
  forall (E : Q -> Q),
  (forall u v, (u == v)%Q -> (E u == E v)%Q) ->
  (forall u, (0 <= u <= cut)%Q -> (tol < E u)%Q) ->
  (forall u, (0 < u <= cut)%Q -> (E u < E 0)%Q) ->
  forall n step sigma p0 p, 1 <= n -> ~ (step == 0)%Q -> ~ (sigma == 0)%Q ->
  0 <= p0 < n -> 0 <= p < n ->
  let off := if Z.even n && in_cut (half_normsq step sigma (centre n + 1)) then -1 else 0 in
  0 <= p0 + off < n -> p <> p0 + off ->
  (response E n step sigma p0 p < response E n step sigma p0 (p0 + off))%Q.
Proof. exact diag_impulse_peak. Qed.
Print Assumptions gaussian_impulse_peak.

(* REFUTED clause "centred on the impulse with no spatial offset": 8 voxels of
   size 1, sigma = 17/20 (fwhm 2.0), impulse at voxel 4: the smoothed image is
   larger at voxel 3 than at voxel 4, for every admissible exp. *)
Theorem centred_even_cropped_refuted :
  exists n step sigma p0, 0 <= p0 < n /\
  forall (E : Q -> Q),
  (forall u v, (u == v)%Q -> (E u == E v)%Q) ->
  (forall u, (0 <= u <= cut)%Q -> (tol < E u)%Q) ->
  (forall u, (0 < u <= cut)%Q -> (E u < E 0)%Q) ->
  (response E n step sigma p0 p0 < response E n step sigma p0 (p0 - 1))%Q.
Proof.
  exists 8, 1%Q, (17 # 20)%Q, 4. split; [lia|]. intros E H1 H2 H3.
  pose proof (diag_impulse_peak E H1 H2 H3 8 1%Q (17 # 20)%Q 4 4) as P. cbv zeta in P.
  assert (OFF : (if Z.even 8 && in_cut (half_normsq 1 (17 # 20) (centre 8 + 1)) then -1 else 0) = -1)
    by (vm_compute; reflexivity).
  rewrite OFF in P. change (4 - 1) with (4 + -1).
  apply P; try lia; intros C; unfold Qeq in C; simpl in C; discriminate C.
Qed.
Print Assumptions centred_even_cropped_refuted.

(* the proposed repair (reports/C18-fix-1.diff): with the window started at c_k
   (smooth1_w n k c_k; smooth1_w n k (k//2) is the code) the response to an
   impulse at p0 has its strict maximum AT p0 - every n, k, c_k, profile. *)
Theorem proposed_fix_is_centred :
  forall (g : Z -> Q), (forall d, (0 <= g d)%Q) -> (forall d, d <> 0 -> (g d < g 0%Z)%Q) ->
  forall n k ck p0 p, 1 <= n -> 0 <= ck < k -> 0 <= p0 < n -> 0 <= p < n -> p <> p0 ->
  (smooth1_w n k ck (delta p0) (kern_of g ck) 1 0 p < smooth1_w n k ck (delta p0) (kern_of g ck) 1 0 p0)%Q /\
  (forall x kap scale loc q, smooth1_w n k (win_start k) x kap scale loc q = smooth1 n k x kap scale loc q).
Proof.
  intros g H1 H2 n k ck p0 p Hn Hck Hp0 Hp Hne. split.
  - apply fixed_window_centred; assumption.
  - intros. reflexivity.
Qed.
Print Assumptions proposed_fix_is_centred.

(* (7) _crop's tolerance test keeps exactly the entries inside the cut. *)
Theorem crop_keeps_cut_support :
  forall (E : Q -> Q),
  (forall u v, (u == v)%Q -> (E u == E v)%Q) ->
  (forall u, (0 <= u <= cut)%Q -> (tol < E u)%Q) ->
  forall u, (0 <= u)%Q -> above_tol (kval E u) = in_cut u.
Proof. exact crop_mask_is_cut. Qed.
Print Assumptions crop_keeps_cut_support.

(* (8) World units: a voxel of size |step| sees a kernel of sigma/|step| voxels;
   flipping an axis or the offset changes nothing. *)
Theorem kernel_in_world_units :
  forall step sigma d, ~ (sigma == 0)%Q -> ~ (step == 0)%Q ->
  (half_normsq step sigma d == half_normsq 1 (sigma / step) d)%Q /\
  (half_normsq (- step) sigma d == half_normsq step sigma d)%Q /\
  (half_normsq step sigma (- d) == half_normsq step sigma d)%Q.
Proof. exact half_normsq_world. Qed.
Print Assumptions kernel_in_world_units.

(* (9) Constants and total intensity away from the borders. *)
Theorem constant_preserved_interior :
  forall n k kap a p, 1 <= n -> 1 <= k -> 0 <= p < n -> ~ (l1sum k kap == 0)%Q ->
  k - 1 - k / 2 <= p -> p + k / 2 <= n - 1 ->
  (smooth1 n k (fun _ => a) kap 1 0 p == a)%Q.
Proof. exact constant_preserved. Qed.
Print Assumptions constant_preserved_interior.

Theorem mass_preserved_interior :
  forall n k kap x, 1 <= n -> 1 <= k -> ~ (l1sum k kap == 0)%Q ->
  (forall s, 0 <= s < n -> ~ (k / 2 <= s /\ s - k / 2 + k <= n) -> (x s == 0)%Q) ->
  (zsum (fun p => smooth1 n k x kap 1 0 p) (Z.to_nat n) == zsum x (Z.to_nat n))%Q.
Proof. exact mass_preserved. Qed.
Print Assumptions mass_preserved_interior.

(* (10) Conversions over the reals. *)
Theorem sigma_fwhm_inverse :
  forall x : R, sigma2fwhm (fwhm2sigma x) = x /\ fwhm2sigma (sigma2fwhm x) = x.
Proof. exact ProofsR.sigma_fwhm_inverse. Qed.
Print Assumptions sigma_fwhm_inverse.

Theorem fwhm_is_full_width_at_half_max :
  forall f : R, f <> 0%R -> gauss (fwhm2sigma f) (f / 2) = (/ 2)%R /\ gauss (fwhm2sigma f) 0 = 1%R.
Proof. exact half_max. Qed.
Print Assumptions fwhm_is_full_width_at_half_max.

(* the guard `if self.fwhm != 1.0` of _normsq: every width but 1.0 is honoured;
   REFUTED for fwhm = 1.0 exactly (kernel of sigma 1, i.e. FWHM 2.35) *)
Theorem requested_width_honoured_unless_one :
  forall f : R, f <> 0%R -> f <> 1%R -> gauss (eff_sigmaR f) (f / 2) = (/ 2)%R.
Proof. exact eff_sigma_half_max. Qed.
Print Assumptions requested_width_honoured_unless_one.

Theorem fwhm_exactly_one_refuted : gauss (eff_sigmaR 1) (1 / 2) <> (/ 2)%R.
Proof. exact eff_sigma_one_not_half_max. Qed.
Print Assumptions fwhm_exactly_one_refuted.

(* Resels.fwhm2resel o Resels.resel2fwhm, as written, is r / wedge^(2D) ... *)
Theorem resel_fwhm_roundtrip :
  forall (D : nat) (root : R -> R),
  (forall r, (0 < r)%R -> (0 < root r)%R /\ (root r ^ D)%R = r) ->
  forall wedge r, (0 < wedge)%R -> (0 < r)%R ->
  fwhm2resel D wedge (resel2fwhm root wedge r) = (r / (wedge ^ D * wedge ^ D))%R.
Proof. exact resel_roundtrip. Qed.
Print Assumptions resel_fwhm_roundtrip.

(* ... the identity for unit voxels, and REFUTED otherwise (wedge 2, r 1 gives 1/4 with D = 1) *)
Theorem resel_fwhm_inverse_unit_wedge :
  forall (D : nat) (root : R -> R),
  (forall r, (0 < r)%R -> (0 < root r)%R /\ (root r ^ D)%R = r) ->
  forall r, (0 < r)%R -> fwhm2resel D 1 (resel2fwhm root 1 r) = r.
Proof. exact resel_roundtrip_unit. Qed.
Print Assumptions resel_fwhm_inverse_unit_wedge.

Theorem resel_fwhm_inverse_refuted :
  exists (D : nat) (root : R -> R) (wedge r : R),
  (forall r, (0 < r)%R -> (0 < root r)%R /\ (root r ^ D)%R = r) /\ (0 < wedge)%R /\ (0 < r)%R /\
  fwhm2resel D wedge (resel2fwhm root wedge r) <> r.
Proof.
  exists 1%nat, (fun r => r), 2%R, 1%R. split; [|split; [|split]].
  - intros r Hr. split; [exact Hr|simpl; ring].
  - Lra.lra.
  - Lra.lra.
  - rewrite resel_roundtrip_witness. Lra.lra.
Qed.
Print Assumptions resel_fwhm_inverse_refuted.

(* non-vacuity: concrete geometries [k; c_k; L; window start; stop; offset] *)
Example geom_even_cropped : geom_diag 8 1 (17 # 20) = [8; 3; 18; 4; 12; -1].
Proof. vm_compute. reflexivity. Qed.
Example geom_odd_cropped : geom_diag 7 1 (17 # 20) = [7; 3; 16; 3; 10; 0].
Proof. vm_compute. reflexivity. Qed.
Example geom_even_uncropped : geom_diag 12 1 (17 # 20) = [9; 4; 24; 4; 16; 0].
Proof. vm_compute. reflexivity. Qed.
Example geom_anisotropic : geom_diag 9 (-3) (17 # 20) = [3; 1; 14; 1; 10; 0].
Proof. vm_compute. reflexivity. Qed.
