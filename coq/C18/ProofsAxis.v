(* C18 - proofs about the points-array handling (ModelAxis.v): rolling the
   coordinate axis to the front reads, for the output point idx, exactly the
   caller's entries X[idx with the coordinate number inserted at `axis`]. *)
From Coq Require Import ZArith List Bool Lia ZifyBool QArith Permutation.
From NV.C18 Require Import ModelAxis.
Import ListNotations.
Close Scope Q_scope.
Open Scope Z_scope.

Lemma dotz_roll :
  forall (a : nat) (s idx : list Z) (c : Z),
  (a <= length idx)%nat -> length s = S (length idx) ->
  dotz (roll_front a s) (c :: idx) = dotz s (insert_at a c idx).
Proof.
  induction a as [|a IH]; intros s idx c Ha Hl.
  - destruct s as [|h t]; [discriminate Hl|]. reflexivity.
  - destruct s as [|h t]; [discriminate Hl|].
    destruct idx as [|i idx']; [cbn in Ha; lia|].
    cbn [length] in Ha, Hl.
    assert (Ha' : (a <= length idx')%nat) by lia.
    assert (Hl' : length t = S (length idx')) by lia.
    specialize (IH t idx' c Ha' Hl').
    unfold roll_front, remove_at, insert_at in *.
    cbn [nth firstn skipn app dotz] in *. lia.
Qed.

Lemma remove_insert :
  forall (a : nat) (idx : list Z) (c : Z), (a <= length idx)%nat -> remove_at a (insert_at a c idx) = idx.
Proof.
  induction a as [|a IH]; intros idx c Ha.
  - reflexivity.
  - destruct idx as [|i idx']; [cbn in Ha; lia|]. cbn [length] in Ha.
    assert (Ha' : (a <= length idx')%nat) by lia. specialize (IH idx' c Ha').
    unfold remove_at, insert_at in *. cbn [firstn skipn app] in *. f_equal. exact IH.
Qed.

Lemma nth_insert :
  forall (a : nat) (idx : list Z) (c : Z), (a <= length idx)%nat -> nth a (insert_at a c idx) 0 = c.
Proof.
  induction a as [|a IH]; intros idx c Ha.
  - reflexivity.
  - destruct idx as [|i idx']; [cbn in Ha; lia|]. cbn [length] in Ha.
    assert (Ha' : (a <= length idx')%nat) by lia. specialize (IH idx' c Ha').
    unfold insert_at in *. cbn [firstn skipn app nth] in *. exact IH.
Qed.

Lemma roll_insert :
  forall (a : nat) (idx : list Z) (c : Z), (a <= length idx)%nat -> roll_front a (insert_at a c idx) = c :: idx.
Proof.
  intros a idx c Ha. unfold roll_front. rewrite nth_insert by exact Ha. rewrite remove_insert by exact Ha. reflexivity.
Qed.

Lemma remove_length :
  forall (a : nat) (l : list Z), (a < length l)%nat -> S (length (remove_at a l)) = length l.
Proof.
  intros a l Ha. unfold remove_at. rewrite app_length, firstn_length, skipn_length. lia.
Qed.

Lemma roll_perm :
  forall (a : nat) (l : list Z), (a < length l)%nat -> Permutation (roll_front a l) l.
Proof.
  intros a l Ha. unfold roll_front, remove_at.
  rewrite <- (firstn_skipn a l) at 4.
  assert (Hs : skipn a l = nth a l 0 :: skipn (S a) l).
  { revert l Ha. induction a as [|a IH]; intros l Ha.
    - destruct l as [|h t]; [cbn in Ha; lia|]. reflexivity.
    - destruct l as [|h t]; [cbn in Ha; lia|]. cbn [length] in Ha. cbn [skipn nth].
      apply IH. lia. }
  rewrite Hs. apply Permutation_middle.
Qed.

(* the remaining (point) axes keep their relative order: the rolled tuple without
   its head is the original tuple with entry a removed *)
Lemma out_shape_is_remove : forall a shape, out_shape shape a = remove_at a shape.
Proof. reflexivity. Qed.

Lemma coord_sum_ext :
  forall (sig : list Q) (c0 : Z) (r1 r2 : Z -> Q),
  (forall c, r1 c = r2 c) -> coord_sum sig c0 r1 = coord_sum sig c0 r2.
Proof.
  induction sig as [|s sig IH]; intros c0 r1 r2 H.
  - reflexivity.
  - cbn [coord_sum]. rewrite (H c0). rewrite (IH (c0 + 1) r1 r2 H). reflexivity.
Qed.

Lemma rolled_view_reads_points :
  forall (buf : Z -> Q) (strides : list Z) (off : Z) (a : nat) (idx : list Z) (c : Z),
  (a <= length idx)%nat -> length strides = S (length idx) ->
  vget buf (roll_front a strides) off (c :: idx) = vget buf strides off (insert_at a c idx).
Proof.
  intros buf strides off a idx c Ha Hl. unfold vget. rewrite dotz_roll by assumption. reflexivity.
Qed.

Lemma normsq_view_is_points :
  forall (sig : list Q) (buf : Z -> Q) (strides : list Z) (off : Z) (a : nat) (idx : list Z),
  (a <= length idx)%nat -> length strides = S (length idx) ->
  normsq_view sig buf strides off a idx = normsq_points sig buf strides off a idx.
Proof.
  intros sig buf strides off a idx Ha Hl. unfold normsq_view, normsq_points.
  apply coord_sum_ext. intro c. apply rolled_view_reads_points; assumption.
Qed.

(* two views (any strides, offsets, buffers: C order, Fortran order, slices, reversed
   axes, copies) that hold the same logical array give the same squared distance *)
Lemma normsq_layout_independent :
  forall (sig : list Q) (b1 b2 : Z -> Q) (s1 s2 : list Z) (o1 o2 : Z) (a : nat) (idx : list Z),
  (a <= length idx)%nat -> length s1 = S (length idx) -> length s2 = S (length idx) ->
  (forall j, length j = S (length idx) -> vget b1 s1 o1 j = vget b2 s2 o2 j) ->
  normsq_view sig b1 s1 o1 a idx = normsq_view sig b2 s2 o2 a idx.
Proof.
  intros sig b1 b2 s1 s2 o1 o2 a idx Ha H1 H2 Hsame.
  rewrite !normsq_view_is_points by assumption. unfold normsq_points.
  apply coord_sum_ext. intro c. apply Hsame.
  unfold insert_at. rewrite app_length. cbn [length]. rewrite firstn_length, skipn_length. lia.
Qed.

(* for 2-D point lists (N,3) / (3,N) swapping and rolling coincide - which is why a
   swapaxes in place of rollaxis is invisible on them *)
Lemma swap_is_roll_2d :
  forall (a : nat) (l : list Z), length l = 2%nat -> (a < 2)%nat -> swap_front a l = roll_front a l.
Proof.
  intros a l Hl Ha.
  destruct l as [|x [|y [|z t]]]; try discriminate Hl.
  destruct a as [|[|a]]; [reflexivity|reflexivity|lia].
Qed.

Lemma norm_axis_in_range :
  forall nd axis, - nd <= axis < nd -> (norm_axis nd axis < Z.to_nat nd)%nat.
Proof.
  intros nd axis H. unfold norm_axis. destruct (Z.ltb_spec axis 0) as [E|E]; apply Nat2Z.inj_lt; rewrite !Z2Nat.id; lia.
Qed.

Lemma norm_axis_last : forall nd, 0 < nd -> norm_axis nd (-1) = Z.to_nat (nd - 1).
Proof. intros nd H. unfold norm_axis. change (-1 <? 0) with true. cbv iota. f_equal. lia. Qed.
