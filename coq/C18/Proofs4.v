(* C18 - the same no-wrap-around argument on the 3-D buffer the code uses:
   the per-axis index lemma applied on each axis. *)
From Coq Require Import ZArith List Bool Lia ZifyBool QArith Lqa Setoid.
From NV.C18 Require Import Model Proofs1 Proofs2.
Import ListNotations.
Close Scope Q_scope.
Open Scope Z_scope.

Definition inb (len i : Z) : bool := (0 <=? i) && (i <? len).

Definition pad3 (n1 n2 n3 : Z) (f : Z -> Z -> Z -> Q) (i1 i2 i3 : Z) : Q :=
  if inb n1 i1 && inb n2 i2 && inb n3 i3 then f i1 i2 i3 else 0%Q.

Definition circ3 (L1 L2 L3 : Z) (a b : Z -> Z -> Z -> Q) (t1 t2 t3 : Z) : Q :=
  zsum (fun s1 => zsum (fun s2 => zsum (fun s3 =>
    (a s1 s2 s3 * b ((t1 - s1) mod L1) ((t2 - s2) mod L2) ((t3 - s3) mod L3))%Q)
    (Z.to_nat L3)) (Z.to_nat L2)) (Z.to_nat L1).

Definition lin3 (n1 n2 n3 k1 k2 k3 : Z) (x kap : Z -> Z -> Z -> Q) (t1 t2 t3 : Z) : Q :=
  zsum (fun s1 => zsum (fun s2 => zsum (fun s3 =>
    (x s1 s2 s3 * pad3 k1 k2 k3 kap (t1 - s1) (t2 - s2) (t3 - s3))%Q)
    (Z.to_nat n3)) (Z.to_nat n2)) (Z.to_nat n1).

Lemma mod_cases n k L s t :
  1 <= k -> n + k - 1 <= L -> 0 <= s < n -> 0 <= t < L ->
  (t - s) mod L = t - s \/ (inb k ((t - s) mod L) = false /\ inb k (t - s) = false).
Proof.
  intros Hk HL Hs Ht.
  destruct (Z_le_gt_dec 0 (t - s)) as [Hp|Hn].
  - left. apply Z.mod_small. lia.
  - right. assert (E : (t - s) mod L = t - s + L).
    { symmetry. apply Z.mod_unique with (q := -1); lia. }
    rewrite E. unfold inb. split; lia.
Qed.

Lemma pad3_nowrap kap n1 n2 n3 k1 k2 k3 L1 L2 L3 s1 s2 s3 t1 t2 t3 :
  1 <= k1 -> 1 <= k2 -> 1 <= k3 ->
  n1 + k1 - 1 <= L1 -> n2 + k2 - 1 <= L2 -> n3 + k3 - 1 <= L3 ->
  0 <= s1 < n1 -> 0 <= s2 < n2 -> 0 <= s3 < n3 ->
  0 <= t1 < L1 -> 0 <= t2 < L2 -> 0 <= t3 < L3 ->
  pad3 k1 k2 k3 kap ((t1 - s1) mod L1) ((t2 - s2) mod L2) ((t3 - s3) mod L3)
  = pad3 k1 k2 k3 kap (t1 - s1) (t2 - s2) (t3 - s3).
Proof.
  intros K1 K2 K3 H1 H2 H3 S1 S2 S3 T1 T2 T3.
  destruct (mod_cases n1 k1 L1 s1 t1 K1 H1 S1 T1) as [E1|[A1 B1]];
  destruct (mod_cases n2 k2 L2 s2 t2 K2 H2 S2 T2) as [E2|[A2 B2]];
  destruct (mod_cases n3 k3 L3 s3 t3 K3 H3 S3 T3) as [E3|[A3 B3]];
  unfold pad3;
  repeat match goal with
  | E : _ mod _ = _ |- _ => rewrite E; clear E
  | A : inb _ _ = false |- _ => rewrite A; clear A
  end; rewrite ?andb_false_r, ?andb_false_l; try reflexivity.
Qed.

Lemma pad3_out n1 n2 n3 f i1 i2 i3 :
  inb n1 i1 && inb n2 i2 && inb n3 i3 = false -> pad3 n1 n2 n3 f i1 i2 i3 = 0%Q.
Proof. intros H. unfold pad3. rewrite H. reflexivity. Qed.

Lemma pad3_in n1 n2 n3 f i1 i2 i3 :
  0 <= i1 < n1 -> 0 <= i2 < n2 -> 0 <= i3 < n3 -> pad3 n1 n2 n3 f i1 i2 i3 = f i1 i2 i3.
Proof.
  intros H1 H2 H3. unfold pad3, inb.
  destruct ((0 <=? i1) && (i1 <? n1) && ((0 <=? i2) && (i2 <? n2)) && ((0 <=? i3) && (i3 <? n3))) eqn:A; [reflexivity|lia].
Qed.

Lemma circ3_eq_lin3 n1 n2 n3 k1 k2 k3 L1 L2 L3 x kap t1 t2 t3 :
  1 <= n1 -> 1 <= n2 -> 1 <= n3 -> 1 <= k1 -> 1 <= k2 -> 1 <= k3 ->
  n1 + k1 - 1 <= L1 -> n2 + k2 - 1 <= L2 -> n3 + k3 - 1 <= L3 ->
  0 <= t1 < L1 -> 0 <= t2 < L2 -> 0 <= t3 < L3 ->
  (circ3 L1 L2 L3 (pad3 n1 n2 n3 x) (pad3 k1 k2 k3 kap) t1 t2 t3
   == lin3 n1 n2 n3 k1 k2 k3 x kap t1 t2 t3)%Q.
Proof.
  intros N1 N2 N3 K1 K2 K3 H1 H2 H3 T1 T2 T3. unfold circ3, lin3.
  rewrite (zsum_tail _ (Z.to_nat n1) (Z.to_nat L1)); [|lia|].
  2:{ intros s1 Hs1. apply zsum_zero. intros s2 Hs2. apply zsum_zero. intros s3 Hs3.
      rewrite pad3_out; [ring|]. unfold inb. lia. }
  apply zsum_ext. intros s1 Hs1.
  rewrite (zsum_tail _ (Z.to_nat n2) (Z.to_nat L2)); [|lia|].
  2:{ intros s2 Hs2. apply zsum_zero. intros s3 Hs3.
      rewrite pad3_out; [ring|]. unfold inb. lia. }
  apply zsum_ext. intros s2 Hs2.
  rewrite (zsum_tail _ (Z.to_nat n3) (Z.to_nat L3)); [|lia|].
  2:{ intros s3 Hs3. rewrite pad3_out; [ring|]. unfold inb. lia. }
  apply zsum_ext. intros s3 Hs3.
  rewrite (pad3_nowrap kap n1 n2 n3 k1 k2 k3 L1 L2 L3) by lia.
  rewrite pad3_in by lia. reflexivity.
Qed.

(* smooth() on the 3-D buffer *)
Definition l1sum3 (k1 k2 k3 : Z) (kap : Z -> Z -> Z -> Q) : Q :=
  zsum (fun j1 => zsum (fun j2 => zsum (fun j3 => kap j1 j2 j3) (Z.to_nat k3)) (Z.to_nat k2)) (Z.to_nat k1).

Definition smooth3 (n1 n2 n3 k1 k2 k3 : Z) (x kap : Z -> Z -> Z -> Q) (scale loc : Q) (p1 p2 p3 : Z) : Q :=
  (scale * (circ3 (buflen n1 k1) (buflen n2 k2) (buflen n3 k3) (pad3 n1 n2 n3 x) (pad3 k1 k2 k3 kap)
              (p1 + win_start k1) (p2 + win_start k2) (p3 + win_start k3) / l1sum3 k1 k2 k3 kap) + loc)%Q.

Lemma smooth3_direct n1 n2 n3 k1 k2 k3 x kap scale loc p1 p2 p3 :
  1 <= n1 -> 1 <= n2 -> 1 <= n3 -> 1 <= k1 -> 1 <= k2 -> 1 <= k3 ->
  0 <= p1 < n1 -> 0 <= p2 < n2 -> 0 <= p3 < n3 ->
  (smooth3 n1 n2 n3 k1 k2 k3 x kap scale loc p1 p2 p3 ==
   scale * (lin3 n1 n2 n3 k1 k2 k3 x kap (p1 + k1 / 2) (p2 + k2 / 2) (p3 + k3 / 2) / l1sum3 k1 k2 k3 kap) + loc)%Q.
Proof.
  intros N1 N2 N3 K1 K2 K3 P1 P2 P3. unfold smooth3, win_start.
  pose proof (window_in_buffer n1 k1 p1 N1 K1 P1) as W1.
  pose proof (window_in_buffer n2 k2 p2 N2 K2 P2) as W2.
  pose proof (window_in_buffer n3 k3 p3 N3 K3 P3) as W3.
  unfold win_start in W1, W2, W3.
  rewrite (circ3_eq_lin3 n1 n2 n3 k1 k2 k3) by (try assumption; try apply buflen_nowrap; lia).
  reflexivity.
Qed.
