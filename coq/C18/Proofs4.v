(* C18 - the same no-wrap-around argument on the 3-D buffer the code uses:
   the per-axis index lemma applied on each axis. *)
From Coq Require Import ZArith List Bool Lia ZifyBool QArith Lqa Setoid.
From NV.C18 Require Import Model Proofs1 Proofs2.
Import ListNotations.
Close Scope Q_scope.
Open Scope Z_scope.

Definition inb (len i : Z) : bool := (0 <=? i) && (i <? len).

Definition pad3 (n1 n2 n3 : Z) (f : Z -> Z -> Z -> Q) (i1 i2 i3 : Z) : Q :=
  if inb n1 i1 && inb n2 i2 && inb n3 i3 then f i1 i2 i3 else 0%Q.

Definition circ3 (L1 L2 L3 : Z) (a b : Z -> Z -> Z -> Q) (t1 t2 t3 : Z) : Q :=
  zsum (fun s1 => zsum (fun s2 => zsum (fun s3 =>
    (a s1 s2 s3 * b ((t1 - s1) mod L1) ((t2 - s2) mod L2) ((t3 - s3) mod L3))%Q)
    (Z.to_nat L3)) (Z.to_nat L2)) (Z.to_nat L1).

Definition lin3 (n1 n2 n3 k1 k2 k3 : Z) (x kap : Z -> Z -> Z -> Q) (t1 t2 t3 : Z) : Q :=
  zsum (fun s1 => zsum (fun s2 => zsum (fun s3 =>
    (x s1 s2 s3 * pad3 k1 k2 k3 kap (t1 - s1) (t2 - s2) (t3 - s3))%Q)
    (Z.to_nat n3)) (Z.to_nat n2)) (Z.to_nat n1).

Lemma mod_cases n k L s t :
  1 <= k -> n + k - 1 <= L -> 0 <= s < n -> 0 <= t < L ->
  (t - s) mod L = t - s \/ (inb k ((t - s) mod L) = false /\ inb k (t - s) = false).
Proof.
  intros Hk HL Hs Ht.
  destruct (Z_le_gt_dec 0 (t - s)) as [Hp|Hn].
  - left. apply Z.mod_small. lia.
  - right. assert (E : (t - s) mod L = t - s + L).
    { symmetry. apply Z.mod_unique with (q := -1); lia. }
    rewrite E. unfold inb. split; lia.
Qed.

Lemma pad3_nowrap kap n1 n2 n3 k1 k2 k3 L1 L2 L3 s1 s2 s3 t1 t2 t3 :
  1 <= k1 -> 1 <= k2 -> 1 <= k3 ->
  n1 + k1 - 1 <= L1 -> n2 + k2 - 1 <= L2 -> n3 + k3 - 1 <= L3 ->
  0 <= s1 < n1 -> 0 <= s2 < n2 -> 0 <= s3 < n3 ->
  0 <= t1 < L1 -> 0 <= t2 < L2 -> 0 <= t3 < L3 ->
  pad3 k1 k2 k3 kap ((t1 - s1) mod L1) ((t2 - s2) mod L2) ((t3 - s3) mod L3)
  = pad3 k1 k2 k3 kap (t1 - s1) (t2 - s2) (t3 - s3).
Proof.
  intros K1 K2 K3 H1 H2 H3 S1 S2 S3 T1 T2 T3.
  destruct (mod_cases n1 k1 L1 s1 t1 K1 H1 S1 T1) as [E1|[A1 B1]];
  destruct (mod_cases n2 k2 L2 s2 t2 K2 H2 S2 T2) as [E2|[A2 B2]];
  destruct (mod_cases n3 k3 L3 s3 t3 K3 H3 S3 T3) as [E3|[A3 B3]];
  unfold pad3;
  repeat match goal with
  | E : _ mod _ = _ |- _ => rewrite E; clear E
  | A : inb _ _ = false |- _ => rewrite A; clear A
  end; rewrite ?andb_false_r, ?andb_false_l; try reflexivity.
Qed.

Lemma pad3_out n1 n2 n3 f i1 i2 i3 :
  inb n1 i1 && inb n2 i2 && inb n3 i3 = false -> pad3 n1 n2 n3 f i1 i2 i3 = 0%Q.
Proof. intros H. unfold pad3. rewrite H. reflexivity. Qed.

Lemma pad3_in n1 n2 n3 f i1 i2 i3 :
  0 <= i1 < n1 -> 0 <= i2 < n2 -> 0 <= i3 < n3 -> pad3 n1 n2 n3 f i1 i2 i3 = f i1 i2 i3.
Proof.
  intros H1 H2 H3. unfold pad3, inb.
  destruct ((0 <=? i1) && (i1 <? n1) && ((0 <=? i2) && (i2 <? n2)) && ((0 <=? i3) && (i3 <? n3))) eqn:A; [reflexivity|lia].
Qed.

Lemma circ3_eq_lin3 n1 n2 n3 k1 k2 k3 L1 L2 L3 x kap t1 t2 t3 :
  1 <= n1 -> 1 <= n2 -> 1 <= n3 -> 1 <= k1 -> 1 <= k2 -> 1 <= k3 ->
  n1 + k1 - 1 <= L1 -> n2 + k2 - 1 <= L2 -> n3 + k3 - 1 <= L3 ->
  0 <= t1 < L1 -> 0 <= t2 < L2 -> 0 <= t3 < L3 ->
  (circ3 L1 L2 L3 (pad3 n1 n2 n3 x) (pad3 k1 k2 k3 kap) t1 t2 t3
   == lin3 n1 n2 n3 k1 k2 k3 x kap t1 t2 t3)%Q.
Proof.
  intros N1 N2 N3 K1 K2 K3 H1 H2 H3 T1 T2 T3. unfold circ3, lin3.
  rewrite (zsum_tail _ (Z.to_nat n1) (Z.to_nat L1)); [|lia|].
  2:{ intros s1 Hs1. apply zsum_zero. intros s2 Hs2. apply zsum_zero. intros s3 Hs3.
      rewrite pad3_out; [ring|]. unfold inb. lia. }
  apply zsum_ext. intros s1 Hs1.
  rewrite (zsum_tail _ (Z.to_nat n2) (Z.to_nat L2)); [|lia|].
  2:{ intros s2 Hs2. apply zsum_zero. intros s3 Hs3.
      rewrite pad3_out; [ring|]. unfold inb. lia. }
  apply zsum_ext. intros s2 Hs2.
  rewrite (zsum_tail _ (Z.to_nat n3) (Z.to_nat L3)); [|lia|].
  2:{ intros s3 Hs3. rewrite pad3_out; [ring|]. unfold inb. lia. }
  apply zsum_ext. intros s3 Hs3.
  rewrite (pad3_nowrap kap n1 n2 n3 k1 k2 k3 L1 L2 L3) by lia.
  rewrite pad3_in by lia. reflexivity.
Qed.

(* smooth() on the 3-D buffer; (w1, w2, w3) = self._kcenter *)
Definition l1sum3 (k1 k2 k3 : Z) (kap : Z -> Z -> Z -> Q) : Q :=
  zsum (fun j1 => zsum (fun j2 => zsum (fun j3 => kap j1 j2 j3) (Z.to_nat k3)) (Z.to_nat k2)) (Z.to_nat k1).

Definition smooth3 (n1 n2 n3 k1 k2 k3 w1 w2 w3 : Z) (x kap : Z -> Z -> Z -> Q) (scale loc : Q) (p1 p2 p3 : Z) : Q :=
  (scale * (circ3 (buflen n1 k1) (buflen n2 k2) (buflen n3 k3) (pad3 n1 n2 n3 x) (pad3 k1 k2 k3 kap)
              (p1 + win_start w1) (p2 + win_start w2) (p3 + win_start w3) / l1sum3 k1 k2 k3 kap) + loc)%Q.

(* np.unravel_index(np.argmax(kernel), kernel.shape) - NumPy oracle, by its contract:
   an index of the array at which the array is maximal *)
Definition is_argmax3 (k1 k2 k3 : Z) (kap : Z -> Z -> Z -> Q) (w1 w2 w3 : Z) : Prop :=
  0 <= w1 < k1 /\ 0 <= w2 < k2 /\ 0 <= w3 < k3 /\
  forall j1 j2 j3, 0 <= j1 < k1 -> 0 <= j2 < k2 -> 0 <= j3 < k3 -> (kap j1 j2 j3 <= kap w1 w2 w3)%Q.

Lemma smooth3_direct n1 n2 n3 k1 k2 k3 w1 w2 w3 x kap scale loc p1 p2 p3 :
  1 <= n1 -> 1 <= n2 -> 1 <= n3 -> 0 <= w1 < k1 -> 0 <= w2 < k2 -> 0 <= w3 < k3 ->
  0 <= p1 < n1 -> 0 <= p2 < n2 -> 0 <= p3 < n3 ->
  (smooth3 n1 n2 n3 k1 k2 k3 w1 w2 w3 x kap scale loc p1 p2 p3 ==
   scale * (lin3 n1 n2 n3 k1 k2 k3 x kap (p1 + w1) (p2 + w2) (p3 + w3) / l1sum3 k1 k2 k3 kap) + loc)%Q.
Proof.
  intros N1 N2 N3 K1 K2 K3 P1 P2 P3. unfold smooth3, win_start.
  pose proof (window_in_buffer n1 k1 w1 p1 N1 K1 P1) as W1.
  pose proof (window_in_buffer n2 k2 w2 p2 N2 K2 P2) as W2.
  pose proof (window_in_buffer n3 k3 w3 p3 N3 K3 P3) as W3.
  unfold win_start in W1, W2, W3.
  rewrite (circ3_eq_lin3 n1 n2 n3 k1 k2 k3) by (try assumption; try apply buflen_nowrap; lia).
  reflexivity.
Qed.

(* ---------------- 3-D impulse response: any affine ---------------- *)
Definition delta3 (q1 q2 q3 : Z) : Z -> Z -> Z -> Q :=
  fun s1 s2 s3 => (delta q1 s1 * (delta q2 s2 * delta q3 s3))%Q.

Lemma lin3_delta n1 n2 n3 k1 k2 k3 kap q1 q2 q3 t1 t2 t3 :
  0 <= q1 < n1 -> 0 <= q2 < n2 -> 0 <= q3 < n3 ->
  (lin3 n1 n2 n3 k1 k2 k3 (delta3 q1 q2 q3) kap t1 t2 t3 == pad3 k1 k2 k3 kap (t1 - q1) (t2 - q2) (t3 - q3))%Q.
Proof.
  intros Q1 Q2 Q3. unfold lin3, delta3.
  rewrite (zsum_ext _ (fun s1 => delta q1 s1 *
     zsum (fun s2 => delta q2 s2 * zsum (fun s3 => delta q3 s3 * pad3 k1 k2 k3 kap (t1 - s1) (t2 - s2) (t3 - s3)) (Z.to_nat n3)) (Z.to_nat n2))%Q).
  2:{ intros s1 H1. rewrite <- zsum_scale. apply zsum_ext. intros s2 H2.
      rewrite <- !zsum_scale. apply zsum_ext. intros s3 H3. ring. }
  rewrite (zsum_delta (fun s1 => zsum (fun s2 => delta q2 s2 * zsum (fun s3 => delta q3 s3 * pad3 k1 k2 k3 kap (t1 - s1) (t2 - s2) (t3 - s3)) (Z.to_nat n3)) (Z.to_nat n2))%Q) by lia.
  rewrite (zsum_delta (fun s2 => zsum (fun s3 => delta q3 s3 * pad3 k1 k2 k3 kap (t1 - q1) (t2 - s2) (t3 - s3)) (Z.to_nat n3))%Q) by lia.
  rewrite (zsum_delta (fun s3 => pad3 k1 k2 k3 kap (t1 - q1) (t2 - q2) (t3 - s3))) by lia.
  reflexivity.
Qed.

Section Profile3.
  (* kernel[j] = G (j - c): G = the kernel as a function of the voxel offset vector from the
     centre voxel - for ANY affine (diagonal, flipped, oblique) *)
  Variable G : Z -> Z -> Z -> Q.
  Hypothesis G_nonneg : forall d1 d2 d3, (0 <= G d1 d2 d3)%Q.
  Hypothesis G_peak : forall d1 d2 d3, ~ (d1 = 0 /\ d2 = 0 /\ d3 = 0) -> (G d1 d2 d3 < G 0 0 0)%Q.

  Definition kern3_of (c1 c2 c3 : Z) : Z -> Z -> Z -> Q := fun j1 j2 j3 => G (j1 - c1) (j2 - c2) (j3 - c3).

  Lemma G0_pos : (0 < G 0 0 0)%Q.
  Proof. pose proof (G_peak 1 0 0 ltac:(lia)). pose proof (G_nonneg 1 0 0). lra. Qed.

  Lemma l1sum3_pos k1 k2 k3 c1 c2 c3 :
    0 <= c1 < k1 -> 0 <= c2 < k2 -> 0 <= c3 < k3 -> (0 < l1sum3 k1 k2 k3 (kern3_of c1 c2 c3))%Q.
  Proof.
    intros C1 C2 C3. unfold l1sum3.
    apply (zsum_pos _ _ c1); [|lia|].
    - intros i1 H1. apply zsum_nonneg. intros i2 H2. apply zsum_nonneg. intros i3 H3. apply G_nonneg.
    - apply (zsum_pos _ _ c2); [|lia|].
      + intros i2 H2. apply zsum_nonneg. intros i3 H3. apply G_nonneg.
      + apply (zsum_pos _ _ c3); [|lia|].
        * intros i3 H3. apply G_nonneg.
        * unfold kern3_of. rewrite !Z.sub_diag. apply G0_pos.
  Qed.

  (* whatever maximal index np.argmax returns, it is the centre voxel *)
  Lemma argmax3_is_centre k1 k2 k3 c1 c2 c3 w1 w2 w3 :
    0 <= c1 < k1 -> 0 <= c2 < k2 -> 0 <= c3 < k3 ->
    is_argmax3 k1 k2 k3 (kern3_of c1 c2 c3) w1 w2 w3 -> w1 = c1 /\ w2 = c2 /\ w3 = c3.
  Proof.
    intros C1 C2 C3 (W1 & W2 & W3 & M).
    destruct (Z.eq_dec w1 c1) as [E1|N1]; [destruct (Z.eq_dec w2 c2) as [E2|N2]; [destruct (Z.eq_dec w3 c3) as [E3|N3]|]|];
      [auto| | |]; exfalso; pose proof (M c1 c2 c3 C1 C2 C3) as L; unfold kern3_of in L; rewrite !Z.sub_diag in L;
      pose proof (G_peak (w1 - c1) (w2 - c2) (w3 - c3) ltac:(lia)); lra.
  Qed.

  (* the smoothed unit impulse at q has its strict maximum AT q: every grid, every crop, every affine *)
  Lemma impulse3_centred n1 n2 n3 k1 k2 k3 c1 c2 c3 w1 w2 w3 q1 q2 q3 p1 p2 p3 :
    1 <= n1 -> 1 <= n2 -> 1 <= n3 ->
    0 <= c1 < k1 -> 0 <= c2 < k2 -> 0 <= c3 < k3 ->
    is_argmax3 k1 k2 k3 (kern3_of c1 c2 c3) w1 w2 w3 ->
    0 <= q1 < n1 -> 0 <= q2 < n2 -> 0 <= q3 < n3 ->
    0 <= p1 < n1 -> 0 <= p2 < n2 -> 0 <= p3 < n3 ->
    ~ (p1 = q1 /\ p2 = q2 /\ p3 = q3) ->
    (smooth3 n1 n2 n3 k1 k2 k3 w1 w2 w3 (delta3 q1 q2 q3) (kern3_of c1 c2 c3) 1 0 p1 p2 p3 <
     smooth3 n1 n2 n3 k1 k2 k3 w1 w2 w3 (delta3 q1 q2 q3) (kern3_of c1 c2 c3) 1 0 q1 q2 q3)%Q.
  Proof.
    intros N1 N2 N3 C1 C2 C3 AM Q1 Q2 Q3 P1 P2 P3 Hne.
    destruct (argmax3_is_centre _ _ _ _ _ _ _ _ _ C1 C2 C3 AM) as (-> & -> & ->).
    rewrite !smooth3_direct by assumption. rewrite !lin3_delta by assumption.
    assert (S : (0 < l1sum3 k1 k2 k3 (kern3_of c1 c2 c3))%Q) by (apply l1sum3_pos; assumption).
    assert (LT : (pad3 k1 k2 k3 (kern3_of c1 c2 c3) (p1 + c1 - q1) (p2 + c2 - q2) (p3 + c3 - q3) <
                  pad3 k1 k2 k3 (kern3_of c1 c2 c3) (q1 + c1 - q1) (q2 + c2 - q2) (q3 + c3 - q3))%Q).
    { rewrite (pad3_in k1 k2 k3 _ (q1 + c1 - q1) (q2 + c2 - q2) (q3 + c3 - q3)) by lia.
      unfold kern3_of at 2. replace (q1 + c1 - q1 - c1) with 0 by lia.
      replace (q2 + c2 - q2 - c2) with 0 by lia. replace (q3 + c3 - q3 - c3) with 0 by lia.
      unfold pad3. destruct (inb k1 (p1 + c1 - q1) && inb k2 (p2 + c2 - q2) && inb k3 (p3 + c3 - q3)).
      - unfold kern3_of. apply G_peak. lia.
      - apply G0_pos. }
    pose proof (div_lt_pos _ _ _ S LT) as D.
    unfold Qdiv in *. lra.
  Qed.
End Profile3.

(* ---------------- the code's kernel for a general affine ---------------- *)
From NV.C18 Require Import Proofs3.

Section Gauss3.
  Variable E : Q -> Q.
  Hypothesis E_compat : forall u v, (u == v)%Q -> (E u == E v)%Q.
  Hypothesis E_pos : forall u, (0 <= u <= cut)%Q -> (tol < E u)%Q.
  Hypothesis E_decr : forall u, (0 < u <= cut)%Q -> (E u < E 0)%Q.
  (* linear part of the affine (rows) and the per-coordinate sigma *)
  Variables a11 a12 a13 a21 a22 a23 a31 a32 a33 s1 s2 s3 : Q.
  Hypothesis s1_nz : ~ (s1 == 0)%Q.
  Hypothesis s2_nz : ~ (s2 == 0)%Q.
  Hypothesis s3_nz : ~ (s3 == 0)%Q.
  Let A := [[a11; a12; a13]; [a21; a22; a23]; [a31; a32; a33]].
  Let sig := [s1; s2; s3].
  Definition wrow (r1 r2 r3 : Q) (d1 d2 d3 : Z) : Q := (r1 * inject_Z d1 + r2 * inject_Z d2 + r3 * inject_Z d3)%Q.
  (* the affine is injective on the lattice (an invertible matrix is) *)
  Hypothesis A_inj : forall d1 d2 d3, ~ (d1 = 0 /\ d2 = 0 /\ d3 = 0) ->
    ~ (wrow a11 a12 a13 d1 d2 d3 == 0 /\ wrow a21 a22 a23 d1 d2 d3 == 0 /\ wrow a31 a32 a33 d1 d2 d3 == 0)%Q.

  Definition gprofile3 : Z -> Z -> Z -> Q := fun d1 d2 d3 => kval E (half_normsq3 A sig [d1; d2; d3]).

  Lemma hn3_form d1 d2 d3 :
    (half_normsq3 A sig [d1; d2; d3] ==
     ((wrow a11 a12 a13 d1 d2 d3 / s1) * (wrow a11 a12 a13 d1 d2 d3 / s1) +
      (wrow a21 a22 a23 d1 d2 d3 / s2) * (wrow a21 a22 a23 d1 d2 d3 / s2) +
      (wrow a31 a32 a33 d1 d2 d3 / s3) * (wrow a31 a32 a33 d1 d2 d3 / s3)) * (1 # 2))%Q.
  Proof.
    unfold half_normsq3, dotq, A, sig, wrow. cbn [combine map fold_right fst snd]. field. auto.
  Qed.

  Lemma hn3_nonneg d1 d2 d3 : (0 <= half_normsq3 A sig [d1; d2; d3])%Q.
  Proof.
    rewrite hn3_form.
    pose proof (sqr_nonneg (wrow a11 a12 a13 d1 d2 d3 / s1)).
    pose proof (sqr_nonneg (wrow a21 a22 a23 d1 d2 d3 / s2)).
    pose proof (sqr_nonneg (wrow a31 a32 a33 d1 d2 d3 / s3)). lra.
  Qed.

  Lemma hn3_zero : (half_normsq3 A sig [0%Z; 0%Z; 0%Z] == 0)%Q.
  Proof. rewrite hn3_form. unfold wrow. cbn [inject_Z]. field. auto. Qed.

  Lemma quot_nz w s : ~ (w == 0)%Q -> ~ (s == 0)%Q -> ~ (w / s == 0)%Q.
  Proof.
    intros Hw Hs C. apply Hw. assert (w == w / s * s)%Q as -> by (field; exact Hs). rewrite C. ring.
  Qed.

  Lemma hn3_pos d1 d2 d3 : ~ (d1 = 0 /\ d2 = 0 /\ d3 = 0) -> (0 < half_normsq3 A sig [d1; d2; d3])%Q.
  Proof.
    intros Hd. pose proof (A_inj d1 d2 d3 Hd) as I. rewrite hn3_form.
    pose proof (sqr_nonneg (wrow a11 a12 a13 d1 d2 d3 / s1)) as N1.
    pose proof (sqr_nonneg (wrow a21 a22 a23 d1 d2 d3 / s2)) as N2.
    pose proof (sqr_nonneg (wrow a31 a32 a33 d1 d2 d3 / s3)) as N3.
    destruct (Qeq_dec (wrow a11 a12 a13 d1 d2 d3) 0) as [Z1|P1].
    - destruct (Qeq_dec (wrow a21 a22 a23 d1 d2 d3) 0) as [Z2|P2].
      + destruct (Qeq_dec (wrow a31 a32 a33 d1 d2 d3) 0) as [Z3|P3]; [exfalso; apply I; auto|].
        pose proof (sqr_pos _ (quot_nz _ _ P3 s3_nz)). lra.
      + pose proof (sqr_pos _ (quot_nz _ _ P2 s2_nz)). lra.
    - pose proof (sqr_pos _ (quot_nz _ _ P1 s1_nz)). lra.
  Qed.

  Lemma gprofile3_nonneg d1 d2 d3 : (0 <= gprofile3 d1 d2 d3)%Q.
  Proof.
    unfold gprofile3. set (u := half_normsq3 A sig [d1; d2; d3]).
    assert (Hu : (0 <= u)%Q) by apply hn3_nonneg.
    destruct (Qlt_le_dec cut u) as [Gt|L].
    - rewrite (kval_out E) by lra. lra.
    - rewrite (kval_in E E_compat) by exact L. pose proof (E_pos u (conj Hu L)). pose proof tol_pos. lra.
  Qed.

  Lemma gprofile3_peak d1 d2 d3 : ~ (d1 = 0 /\ d2 = 0 /\ d3 = 0) -> (gprofile3 d1 d2 d3 < gprofile3 0 0 0)%Q.
  Proof.
    intros Hd. unfold gprofile3.
    pose proof (hn3_pos d1 d2 d3 Hd) as P. pose proof hn3_zero as Z0.
    assert (C0 : (half_normsq3 A sig [0%Z; 0%Z; 0%Z] <= cut)%Q) by (rewrite Z0; unfold cut; lra).
    rewrite (kval_in E E_compat _ C0). rewrite (E_compat _ 0 Z0).
    assert (E0 : (tol < E 0)%Q) by (apply E_pos; unfold cut; lra).
    pose proof tol_pos.
    destruct (Qlt_le_dec cut (half_normsq3 A sig [d1; d2; d3])) as [Gt|L].
    - rewrite (kval_out E) by lra. lra.
    - rewrite (kval_in E E_compat) by exact L. apply E_decr. split; assumption.
  Qed.
End Gauss3.
