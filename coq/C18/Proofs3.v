(* C18 - the Gaussian profile of the code (exp abstract), its support, the
   crop tolerance, world units, and the refuted centring clause. *)
From Coq Require Import ZArith List Bool Lia ZifyBool QArith Qminmax Qabs Lqa Setoid.
From NV.C18 Require Import Model Proofs1 Proofs2.
Import ListNotations.
Close Scope Q_scope.
Open Scope Z_scope.

(* ---------------- half_normsq ---------------- *)
Lemma half_normsq_form step sigma d :
  ~ (sigma == 0)%Q ->
  (half_normsq step sigma d == (step / sigma) * (step / sigma) * (1 # 2) * (inject_Z d * inject_Z d))%Q.
Proof. intros Hs. unfold half_normsq. field. exact Hs. Qed.

Lemma sq_le_abs d d' : Z.abs d' <= Z.abs d -> (inject_Z d' * inject_Z d' <= inject_Z d * inject_Z d)%Q.
Proof.
  intros H. rewrite <- !inject_Z_mult. rewrite <- Zle_Qle. nia.
Qed.

Lemma sq_pos d : d <> 0 -> (0 < inject_Z d * inject_Z d)%Q.
Proof.
  intros H. rewrite <- inject_Z_mult. replace 0%Q with (inject_Z 0) by reflexivity.
  rewrite <- Zlt_Qlt. nia.
Qed.

Lemma sqr_nonneg (t : Q) : (0 <= t * t)%Q.
Proof. nra. Qed.
Lemma sqr_pos (t : Q) : ~ (t == 0)%Q -> (0 < t * t)%Q.
Proof. intros H. destruct (Q_dec t 0) as [[A|A]|A]; [nra|nra|contradiction]. Qed.

Lemma coef_nonneg step sigma : (0 <= (step / sigma) * (step / sigma) * (1 # 2))%Q.
Proof.
  assert (0 <= (step / sigma) * (step / sigma))%Q by apply sqr_nonneg.
  set (X := (step / sigma * (step / sigma))%Q) in *. clearbody X. lra.
Qed.

Lemma coef_pos step sigma : ~ (step == 0)%Q -> ~ (sigma == 0)%Q -> (0 < (step / sigma) * (step / sigma) * (1 # 2))%Q.
Proof.
  intros H1 H2.
  assert (N : ~ (step / sigma == 0)%Q).
  { intros E. apply H1. assert (step == step / sigma * sigma)%Q as -> by (field; exact H2). rewrite E. ring. }
  assert (0 < (step / sigma) * (step / sigma))%Q by (apply sqr_pos; exact N).
  set (X := (step / sigma * (step / sigma))%Q) in *. clearbody X. lra.
Qed.

Lemma half_normsq_mono step sigma d d' :
  ~ (sigma == 0)%Q -> Z.abs d' <= Z.abs d -> (half_normsq step sigma d' <= half_normsq step sigma d)%Q.
Proof.
  intros Hs H. rewrite !half_normsq_form by exact Hs.
  pose proof (coef_nonneg step sigma). pose proof (sq_le_abs d d' H). nra.
Qed.

Lemma half_normsq_zero step sigma : ~ (sigma == 0)%Q -> (half_normsq step sigma 0 == 0)%Q.
Proof. intros Hs. rewrite half_normsq_form by exact Hs. cbn. ring. Qed.

Lemma half_normsq_pos step sigma d :
  ~ (step == 0)%Q -> ~ (sigma == 0)%Q -> d <> 0 -> (0 < half_normsq step sigma d)%Q.
Proof.
  intros H1 H2 Hd. rewrite half_normsq_form by exact H2.
  pose proof (coef_pos step sigma H1 H2). pose proof (sq_pos d Hd). nra.
Qed.

Lemma in_cut_true u : in_cut u = true <-> (u <= cut)%Q.
Proof. unfold in_cut. apply Qle_bool_iff. Qed.

(* the support of the kernel along a diagonal axis is symmetric and downward closed *)
Lemma cut_sym_mono step sigma :
  ~ (sigma == 0)%Q -> sym_mono (fun d => in_cut (half_normsq step sigma d)).
Proof.
  intros Hs. split.
  - apply in_cut_true. rewrite half_normsq_zero by exact Hs. unfold cut. lra.
  - intros d d' H A. apply in_cut_true in A. apply in_cut_true.
    pose proof (half_normsq_mono step sigma d d' Hs H). lra.
Qed.

(* world units: the kernel depends on the voxel offset only through the world
   distance |step| * |d| measured in units of sigma: flipping the axis changes
   nothing, and a voxel of size |step| sees sigma / |step| voxels *)
Lemma half_normsq_world step sigma d :
  ~ (sigma == 0)%Q -> ~ (step == 0)%Q ->
  (half_normsq step sigma d == half_normsq 1 (sigma / step) d)%Q /\
  (half_normsq (- step) sigma d == half_normsq step sigma d)%Q /\
  (half_normsq step sigma (- d) == half_normsq step sigma d)%Q.
Proof.
  intros Hs Ht. unfold half_normsq. rewrite inject_Z_opp. repeat split; field; auto.
Qed.

(* ---------------- the profile of the code ---------------- *)
Section Exp.
  Variable E : Q -> Q.                       (* E u = exp(-u) *)
  Hypothesis E_compat : forall u v, (u == v)%Q -> (E u == E v)%Q.
  Hypothesis E_pos : forall u, (0 <= u <= cut)%Q -> (tol < E u)%Q.       (* exp(-15) > 1e-10 *)
  Hypothesis E_decr : forall u, (0 < u <= cut)%Q -> (E u < E 0)%Q.

  Lemma kval_in u : (u <= cut)%Q -> (kval E u == E u)%Q.
  Proof.
    intros H. unfold kval. rewrite (proj2 (in_cut_true u) H).
    rewrite (E_compat (Qmin u cut) u) by (apply Q.min_l; exact H). ring.
  Qed.

  Lemma kval_out u : ~ (u <= cut)%Q -> (kval E u == 0)%Q.
  Proof.
    intros H. unfold kval. destruct (in_cut u) eqn:A; [apply in_cut_true in A; contradiction|ring].
  Qed.

  (* _crop keeps exactly the entries inside the cut: 0 <= u, every kept value exceeds tol *)
  Lemma crop_mask_is_cut u : (0 <= u)%Q -> above_tol (kval E u) = in_cut u.
  Proof.
    intros Hu. unfold above_tol. destruct (in_cut u) eqn:A.
    - apply in_cut_true in A. rewrite kval_in by exact A.
      assert (T : (tol < E u)%Q) by (apply E_pos; split; assumption).
      destruct (Qle_bool (Qabs (E u)) tol) eqn:B; [|reflexivity].
      apply Qle_bool_iff in B. pose proof (Qle_Qabs (E u)). lra.
    - assert (N : ~ (u <= cut)%Q) by (intros C; apply in_cut_true in C; congruence).
      assert (Z0 : (Qabs (kval E u) == 0)%Q) by (rewrite kval_out by exact N; reflexivity).
      destruct (Qle_bool (Qabs (kval E u)) tol) eqn:B; [reflexivity|].
      assert (C : (Qabs (kval E u) <= tol)%Q) by (rewrite Z0; unfold tol; lra).
      apply Qle_bool_iff in C. congruence.
  Qed.

  Variables step sigma : Q.
  Hypothesis step_nz : ~ (step == 0)%Q.
  Hypothesis sigma_nz : ~ (sigma == 0)%Q.

  Lemma tol_pos : (0 < tol)%Q. Proof. unfold tol. reflexivity. Qed.

  Lemma gprofile_nonneg d : (0 <= gprofile E step sigma d)%Q.
  Proof.
    unfold gprofile. set (u := half_normsq step sigma d).
    assert (Hu : (0 <= u)%Q).
    { unfold u. rewrite half_normsq_form by exact sigma_nz.
      pose proof (coef_nonneg step sigma). assert (0 <= inject_Z d * inject_Z d)%Q by nra. nra. }
    destruct (Qlt_le_dec cut u) as [G|L].
    - rewrite kval_out by lra. lra.
    - rewrite kval_in by exact L. pose proof (E_pos u (conj Hu L)). pose proof tol_pos. lra.
  Qed.

  Lemma gprofile_peak d : d <> 0 -> (gprofile E step sigma d < gprofile E step sigma 0)%Q.
  Proof.
    intros Hd. unfold gprofile.
    pose proof (half_normsq_pos step sigma d step_nz sigma_nz Hd) as P.
    pose proof (half_normsq_zero step sigma sigma_nz) as Z0.
    assert (C0 : (half_normsq step sigma 0 <= cut)%Q) by (rewrite Z0; unfold cut; lra).
    rewrite (kval_in _ C0). rewrite (E_compat _ 0 Z0).
    assert (E0 : (tol < E 0)%Q) by (apply E_pos; unfold cut; lra).
    pose proof tol_pos.
    destruct (Qlt_le_dec cut (half_normsq step sigma d)) as [G|L].
    - rewrite kval_out by lra. lra.
    - rewrite kval_in by exact L. apply E_decr. split; assumption.
  Qed.
End Exp.

(* ---------------- the whole chain along a diagonal axis ---------------- *)
Lemma diag_geom_ok n step sigma :
  1 <= n -> ~ (sigma == 0)%Q ->
  let mM := bounds_diag n step sigma in
  0 <= kcentre n mM < klen mM /\ 1 <= klen mM <= n /\
  half_gap n mM = if Z.even n && in_cut (half_normsq step sigma (centre n + 1)) then -1 else 0.
Proof.
  intros Hn Hs mM.
  pose proof (cut_sym_mono step sigma Hs) as SM.
  assert (Hc : 0 <= centre n < n) by (unfold centre; Zify.zify; lia).
  pose proof (crop_bounds_bbox n (proj_diag n step sigma) (centre n) Hc) as HB.
  unfold proj_diag in HB at 1. rewrite Z.sub_diag in HB. specialize (HB (proj1 SM)).
  destruct HB as [(H1 & H2 & _) Hin].
  split; [|split].
  - unfold kcentre, klen, mM, bounds_diag. lia.
  - unfold klen, mM, bounds_diag. lia.
  - unfold mM, bounds_diag, proj_diag.
    apply (sym_half_gap n (fun d => in_cut (half_normsq step sigma d)) Hn SM).
Qed.

Section Chain.
  Variable E : Q -> Q.
  Hypothesis E_compat : forall u v, (u == v)%Q -> (E u == E v)%Q.
  Hypothesis E_pos : forall u, (0 <= u <= cut)%Q -> (tol < E u)%Q.
  Hypothesis E_decr : forall u, (0 < u <= cut)%Q -> (E u < E 0)%Q.

  (* response of the modelled pipeline to a unit impulse, along a diagonal axis *)
  Definition response (n : Z) (step sigma : Q) (p0 p : Z) : Q :=
    let mM := bounds_diag n step sigma in
    smooth1 n (klen mM) (delta p0) (kern_of (gprofile E step sigma) (kcentre n mM)) 1 0 p.

  Lemma diag_impulse_centred n step sigma p0 p :
    1 <= n -> ~ (step == 0)%Q -> ~ (sigma == 0)%Q ->
    0 <= p0 < n -> 0 <= p < n -> p <> p0 ->
    (response n step sigma p0 p < response n step sigma p0 p0)%Q.
  Proof.
    intros Hn Hst Hs Hp0 Hp Hne.
    destruct (diag_geom_ok n step sigma Hn Hs) as (G1 & G2 & G3).
    unfold response.
    apply (impulse_centred (gprofile E step sigma)
             (gprofile_nonneg E E_compat E_pos step sigma Hs)
             (gprofile_peak E E_compat E_pos E_decr step sigma Hst Hs)); assumption.
  Qed.

  (* _kcenter of the code's kernel is the centre voxel's index in the crop *)
  Lemma diag_kcenter n step sigma :
    1 <= n -> ~ (step == 0)%Q -> ~ (sigma == 0)%Q ->
    let mM := bounds_diag n step sigma in
    kcenter (klen mM) (kern_of (gprofile E step sigma) (kcentre n mM)) = kcentre n mM.
  Proof.
    intros Hn Hst Hs mM.
    destruct (diag_geom_ok n step sigma Hn Hs) as (G1 & G2 & G3).
    apply (kcenter_kern_of (gprofile E step sigma)
             (gprofile_nonneg E E_compat E_pos step sigma Hs)
             (gprofile_peak E E_compat E_pos E_decr step sigma Hst Hs)). exact G1.
  Qed.
End Chain.

(* the former witness of the even-grid shift: n = 8, sigma 17/20: c_k = 3, k // 2 = 4;
   the window now starts at 3 *)
Lemma witness_geom : geom_diag 8 1 (17 # 20) = [8; 3; 18; 3; 11; 0].
Proof. vm_compute. reflexivity. Qed.
