(* C18 - the proposed repair (reports/C18-fix-1.diff): start the output window
   at the index c_k of the centre voxel inside the cropped kernel instead of
   k // 2.  Not the code as it is - kept apart from Model.v. *)
From Coq Require Import ZArith List Bool Lia ZifyBool QArith Lqa Setoid.
From NV.C18 Require Import Model Proofs1 Proofs2.
Close Scope Q_scope.
Open Scope Z_scope.

Ltac Zify.zify_post_hook ::= Z.to_euclidean_division_equations.

Definition smooth1_w (n k w : Z) (x kap : Z -> Q) (scale loc : Q) (p : Z) : Q :=
  (scale * (circ (buflen n k) (pad n x) (pad k kap) (p + w) / l1sum k kap) + loc)%Q.

Lemma smooth1_w_is_smooth1 n k x kap scale loc p :
  smooth1_w n k (win_start k) x kap scale loc p = smooth1 n k x kap scale loc p.
Proof. reflexivity. Qed.

Lemma smooth1_w_impulse n k w kap p0 p :
  1 <= n -> 1 <= k -> 0 <= w < k -> 0 <= p0 < n -> 0 <= p < n ->
  (smooth1_w n k w (delta p0) kap 1 0 p == pad k kap (p + w - p0) / l1sum k kap)%Q.
Proof.
  intros Hn Hk Hw Hp0 Hp. unfold smooth1_w.
  rewrite (circ_eq_lin n k (buflen n k) (delta p0) kap (p + w) Hn Hk (buflen_nowrap n k)).
  - rewrite lin_delta by assumption. unfold Qdiv. ring.
  - pose proof (buflen_ge n k). lia.
Qed.

Section FixProfile.
  Variable g : Z -> Q.
  Hypothesis g_nonneg : forall d, (0 <= g d)%Q.
  Hypothesis g_peak : forall d, d <> 0 -> (g d < g 0%Z)%Q.

  (* with the window at c_k the response to an impulse at p0 has its strict maximum AT p0,
     for every grid size, kernel size and position of the centre in the cropped kernel *)
  Lemma fixed_window_centred n k ck p0 p :
    1 <= n -> 0 <= ck < k -> 0 <= p0 < n -> 0 <= p < n -> p <> p0 ->
    (smooth1_w n k ck (delta p0) (kern_of g ck) 1 0 p < smooth1_w n k ck (delta p0) (kern_of g ck) 1 0 p0)%Q.
  Proof.
    intros Hn Hck Hp0 Hp Hne.
    rewrite !smooth1_w_impulse by (try assumption; lia).
    apply div_lt_pos; [apply (l1sum_pos g g_nonneg g_peak); exact Hck|].
    replace (p0 + ck - p0) with ck by lia.
    unfold pad at 2. destruct ((0 <=? ck) && (ck <? k)) eqn:A; [|lia].
    unfold kern_of at 2. rewrite Z.sub_diag.
    unfold pad. destruct ((0 <=? p + ck - p0) && (p + ck - p0 <? k)) eqn:B.
    - unfold kern_of. apply g_peak. lia.
    - pose proof (g_peak 1 ltac:(lia)). pose proof (g_nonneg 1). lra.
  Qed.
End FixProfile.
