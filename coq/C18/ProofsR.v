From Coq Require Import Reals Lra.
From NV.C18 Require Import ModelR.
Open Scope R_scope.

Lemma ln2_pos : 0 < ln 2.
Proof. rewrite <- ln_1. apply ln_increasing; lra. Qed.

Lemma w_pos : 0 < sqrt (8 * ln 2).
Proof. apply sqrt_lt_R0. pose proof ln2_pos. lra. Qed.

Lemma w4_pos : 0 < sqrt (4 * ln 2).
Proof. apply sqrt_lt_R0. pose proof ln2_pos. lra. Qed.

Lemma sigma_fwhm_inverse x : sigma2fwhm (fwhm2sigma x) = x /\ fwhm2sigma (sigma2fwhm x) = x.
Proof.
  pose proof w_pos. unfold sigma2fwhm, fwhm2sigma. split; field; lra.
Qed.

(* the Gaussian with sigma = fwhm2sigma f is at half its maximum at distance f/2:
   f really is the full width at half maximum *)
Lemma half_max f : f <> 0 -> gauss (fwhm2sigma f) (f / 2) = / 2 /\ gauss (fwhm2sigma f) 0 = 1.
Proof.
  intros Hf. pose proof w_pos as W. pose proof ln2_pos as L. unfold gauss, fwhm2sigma. split.
  - replace (f / 2 / (f / sqrt (8 * ln 2)) * (f / 2 / (f / sqrt (8 * ln 2))) / 2)
      with (sqrt (8 * ln 2) * sqrt (8 * ln 2) / 8) by (field; split; lra).
    rewrite sqrt_sqrt by lra.
    replace (8 * ln 2 / 8) with (ln 2) by field.
    rewrite exp_Ropp. rewrite exp_ln by lra. reflexivity.
  - replace (0 / (f / sqrt (8 * ln 2)) * (0 / (f / sqrt (8 * ln 2))) / 2) with 0 by (field; split; lra).
    rewrite Ropp_0. apply exp_0.
Qed.

Lemma pos_recipr_pos x : 0 < x -> pos_recipr x = / x.
Proof. intros H. unfold pos_recipr. destruct (Rlt_dec 0 x) as [_|N]; [field; lra|contradiction]. Qed.

Section Root.
  Variable D : nat.
  Variable root : R -> R.                  (* np.power(., 1./D) *)
  Hypothesis root_spec : forall r, 0 < r -> 0 < root r /\ (root r) ^ D = r.
  Hypothesis root_pow : forall x, 0 < x -> root (x ^ D) = x.

  Lemma resel_roundtrip wedge r :
    0 < wedge -> 0 < r -> fwhm2resel D wedge (resel2fwhm root wedge r) = r.
  Proof.
    intros Hw Hr. destruct (root_spec r Hr) as [Rp Re]. pose proof w4_pos as W.
    unfold fwhm2resel, resel2fwhm. rewrite (pos_recipr_pos (root r) Rp).
    replace (sqrt (4 * ln 2) * wedge * / root r / (sqrt (4 * ln 2) * wedge))
      with (/ root r) by (field; repeat split; lra).
    rewrite pow_inv. rewrite Re. rewrite pos_recipr_pos by (apply Rinv_0_lt_compat; exact Hr).
    field. lra.
  Qed.

  Lemma fwhm_roundtrip wedge f :
    0 < wedge -> 0 < f -> resel2fwhm root wedge (fwhm2resel D wedge f) = f.
  Proof.
    intros Hw Hf. pose proof w4_pos as W.
    unfold fwhm2resel, resel2fwhm.
    set (x := f / (sqrt (4 * ln 2) * wedge)).
    assert (Hx : 0 < x).
    { unfold x. apply Rdiv_lt_0_compat; [exact Hf|apply Rmult_lt_0_compat; assumption]. }
    assert (Hp : 0 < x ^ D) by (apply pow_lt; exact Hx).
    rewrite (pos_recipr_pos _ Hp). rewrite <- pow_inv.
    rewrite root_pow by (apply Rinv_0_lt_compat; exact Hx).
    rewrite pos_recipr_pos by (apply Rinv_0_lt_compat; exact Hx).
    rewrite Rinv_inv. unfold x. field. split; lra.
  Qed.
End Root.

(* ---------------- Resels: wedge, orientation, integrate ---------------- *)
From Coq Require Import List.

Lemma det4_homogeneous a b c tx d e f ty g h i tz :
  det4 a b c tx d e f ty g h i tz 0 0 0 1 = det3 a b c d e f g h i.
Proof. unfold det4, det3. ring. Qed.

(* scaling (in particular flipping, s = -1) voxel axes multiplies the determinant *)
Lemma det3_scale_columns s1 s2 s3 a b c d e f g h i :
  det3 (s1 * a) (s2 * b) (s3 * c) (s1 * d) (s2 * e) (s3 * f) (s1 * g) (s2 * h) (s3 * i)
  = s1 * s2 * s3 * det3 a b c d e f g h i.
Proof. unfold det3. ring. Qed.

Section Wedge.
  Variable D : nat.
  Variable root : R -> R.                  (* np.power(., 1./D) *)
  Hypothesis root_spec : forall r, 0 < r -> 0 < root r /\ (root r) ^ D = r.
  Hypothesis root_pow : forall x, 0 < x -> root (x ^ D) = x.

  Lemma wedge_pos d : d <> 0 -> 0 < wedge_of root d.
  Proof. intros Hd. unfold wedge_of. apply root_spec. apply Rabs_pos_lt. exact Hd. Qed.

  Lemma wedge_pow d : d <> 0 -> (wedge_of root d) ^ D = Rabs d.
  Proof. intros Hd. unfold wedge_of. apply root_spec. apply Rabs_pos_lt. exact Hd. Qed.

  Lemma wedge_flip d : wedge_of root (- d) = wedge_of root d.
  Proof. unfold wedge_of. rewrite Rabs_Ropp. reflexivity. Qed.

  Lemma resel_inverse_any_affine d v :
    d <> 0 -> 0 < v ->
    fwhm2resel D (wedge_of root d) (resel2fwhm root (wedge_of root d) v) = v /\
    resel2fwhm root (wedge_of root d) (fwhm2resel D (wedge_of root d) v) = v.
  Proof.
    intros Hd Hv. pose proof (wedge_pos d Hd) as W. split.
    - apply (resel_roundtrip D root root_spec); assumption.
    - apply (fwhm_roundtrip D root root_pow); assumption.
  Qed.

  (* resels per voxel = voxel volume * (sqrt(4 ln 2) / fwhm)^D, whatever the orientation *)
  Lemma fwhm2resel_meaning d f :
    d <> 0 -> 0 < f ->
    fwhm2resel D (wedge_of root d) f = Rabs d * (sqrt (4 * ln 2) / f) ^ D.
  Proof.
    intros Hd Hf. pose proof (wedge_pos d Hd) as W. pose proof w4_pos as C.
    unfold fwhm2resel.
    assert (P : 0 < f / (sqrt (4 * ln 2) * wedge_of root d)).
    { apply Rdiv_lt_0_compat; [exact Hf|apply Rmult_lt_0_compat; assumption]. }
    rewrite pos_recipr_pos by (apply pow_lt; exact P).
    rewrite <- pow_inv.
    replace (/ (f / (sqrt (4 * ln 2) * wedge_of root d))) with (wedge_of root d * (sqrt (4 * ln 2) / f))
      by (field; repeat split; lra).
    rewrite Rpow_mult_distr. rewrite (wedge_pow d Hd). reflexivity.
  Qed.

  Lemma resel_orientation_independent d f :
    fwhm2resel D (wedge_of root (- d)) f = fwhm2resel D (wedge_of root d) f /\
    resel2fwhm root (wedge_of root (- d)) f = resel2fwhm root (wedge_of root d) f.
  Proof. rewrite wedge_flip. split; reflexivity. Qed.

  (* integrate over a constant resel field: the average is the constant *)
  Lemma rsum_const r (vox : list (R * R)) :
    Forall (fun p => fst p = r) vox ->
    rsum (map (fun p => fst p * snd p) vox) = r * rsum (map snd vox).
  Proof.
    induction 1 as [|p l Hp Hl IH]; cbn [map rsum fold_right].
    - ring.
    - unfold rsum in IH. rewrite IH. rewrite Hp. ring.
  Qed.

  Lemma integrate_constant wedge r vox :
    Forall (fun p => fst p = r) vox -> rsum (map snd vox) <> 0 ->
    integrate root wedge vox = (r * rsum (map snd vox), resel2fwhm root wedge r, rsum (map snd vox)).
  Proof.
    intros Hc Hn. unfold integrate. rewrite (rsum_const r vox Hc).
    replace (r * rsum (map snd vox) / rsum (map snd vox)) with r by (field; exact Hn). reflexivity.
  Qed.
End Wedge.

(* zero widths / resels map to zero (pos_recipr) *)
Lemma pos_recipr_zero : pos_recipr 0 = 0.
Proof. unfold pos_recipr. destruct (Rlt_dec 0 0) as [H|_]; [lra|reflexivity]. Qed.

Lemma fwhm2resel_zero D w : (0 < D)%nat -> fwhm2resel D w 0 = 0.
Proof.
  intros HD. unfold fwhm2resel. unfold Rdiv. rewrite Rmult_0_l. rewrite pow_i by exact HD. apply pos_recipr_zero.
Qed.

Lemma resel2fwhm_zero root w : root 0 = 0 -> resel2fwhm root w 0 = 0.
Proof. intros H. unfold resel2fwhm. rewrite H, pos_recipr_zero. ring. Qed.
