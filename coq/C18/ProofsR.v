From Coq Require Import Reals Lra.
From NV.C18 Require Import ModelR.
Open Scope R_scope.

Lemma ln2_pos : 0 < ln 2.
Proof. rewrite <- ln_1. apply ln_increasing; lra. Qed.

Lemma w_pos : 0 < sqrt (8 * ln 2).
Proof. apply sqrt_lt_R0. pose proof ln2_pos. lra. Qed.

Lemma w4_pos : 0 < sqrt (4 * ln 2).
Proof. apply sqrt_lt_R0. pose proof ln2_pos. lra. Qed.

Lemma sigma_fwhm_inverse x : sigma2fwhm (fwhm2sigma x) = x /\ fwhm2sigma (sigma2fwhm x) = x.
Proof.
  pose proof w_pos. unfold sigma2fwhm, fwhm2sigma. split; field; lra.
Qed.

(* the Gaussian with sigma = fwhm2sigma f is at half its maximum at distance f/2:
   f really is the full width at half maximum *)
Lemma half_max f : f <> 0 -> gauss (fwhm2sigma f) (f / 2) = / 2 /\ gauss (fwhm2sigma f) 0 = 1.
Proof.
  intros Hf. pose proof w_pos as W. pose proof ln2_pos as L. unfold gauss, fwhm2sigma. split.
  - replace (f / 2 / (f / sqrt (8 * ln 2)) * (f / 2 / (f / sqrt (8 * ln 2))) / 2)
      with (sqrt (8 * ln 2) * sqrt (8 * ln 2) / 8) by (field; split; lra).
    rewrite sqrt_sqrt by lra.
    replace (8 * ln 2 / 8) with (ln 2) by field.
    rewrite exp_Ropp. rewrite exp_ln by lra. reflexivity.
  - replace (0 / (f / sqrt (8 * ln 2)) * (0 / (f / sqrt (8 * ln 2))) / 2) with 0 by (field; split; lra).
    rewrite Ropp_0. apply exp_0.
Qed.

(* for every fwhm but 1 the effective sigma is fwhm2sigma(fwhm) and the kernel has the requested width ... *)
Lemma eff_sigma_half_max f : f <> 0 -> f <> 1 -> gauss (eff_sigmaR f) (f / 2) = / 2.
Proof.
  intros H0 H1. unfold eff_sigmaR. destruct (Req_EM_T f 1) as [E|_]; [contradiction|].
  apply (half_max f H0).
Qed.

(* ... but for fwhm = 1.0 exactly it is 1: the value at distance 1/2 is exp(-1/8), not 1/2 *)
Lemma eff_sigma_one_not_half_max : gauss (eff_sigmaR 1) (1 / 2) <> / 2.
Proof.
  unfold eff_sigmaR. destruct (Req_EM_T 1 1) as [_|N]; [|contradiction N; reflexivity].
  unfold gauss. intros C.
  assert (E2 : / 2 = exp (- ln 2)) by (rewrite exp_Ropp, exp_ln by lra; reflexivity).
  rewrite E2 in C. apply exp_inv in C. pose proof ln_lt_2. lra.
Qed.

Lemma pos_recipr_pos x : 0 < x -> pos_recipr x = / x.
Proof. intros H. unfold pos_recipr. destruct (Rlt_dec 0 x) as [_|N]; [field; lra|contradiction]. Qed.

Section Root.
  Variable D : nat.
  Variable root : R -> R.                  (* np.power(., 1./D) *)
  Hypothesis root_spec : forall r, 0 < r -> 0 < root r /\ (root r) ^ D = r.

  (* as written, the round trip multiplies by wedge^(-2D) *)
  Lemma resel_roundtrip wedge r :
    0 < wedge -> 0 < r -> fwhm2resel D wedge (resel2fwhm root wedge r) = r / (wedge ^ D * wedge ^ D).
  Proof.
    intros Hw Hr. destruct (root_spec r Hr) as [Rp Re]. pose proof w4_pos as W.
    unfold fwhm2resel, resel2fwhm. rewrite (pos_recipr_pos (root r) Rp).
    replace (sqrt (4 * ln 2) * wedge * / root r / sqrt (4 * ln 2) * wedge)
      with (wedge * wedge * / root r) by (field; split; lra).
    rewrite !Rpow_mult_distr. rewrite pow_inv. rewrite Re.
    assert (P : 0 < wedge ^ D) by (apply pow_lt; exact Hw).
    rewrite pos_recipr_pos.
    - field. split; lra.
    - apply Rmult_lt_0_compat; [apply Rmult_lt_0_compat; exact P|apply Rinv_0_lt_compat; exact Hr].
  Qed.

  Lemma resel_roundtrip_unit r : 0 < r -> fwhm2resel D 1 (resel2fwhm root 1 r) = r.
  Proof.
    intros Hr. rewrite resel_roundtrip by lra. rewrite pow1. field.
  Qed.
End Root.

(* witness: D = 1 is enough to see it (root = identity), wedge = 2, r = 1 *)
Lemma resel_roundtrip_witness :
  fwhm2resel 1 2 (resel2fwhm (fun r => r) 2 1) = / 4.
Proof.
  assert (RS : forall r : R, 0 < r -> 0 < (fun r => r) r /\ ((fun r => r) r) ^ 1 = r).
  { intros r Hr. split; [exact Hr|simpl; ring]. }
  rewrite (resel_roundtrip 1 (fun r => r) RS) by lra.
  simpl. field.
Qed.
