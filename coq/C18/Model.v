(* C18 - model of nipy/algorithms/kernel_smooth.py (LinearFilter), as the code is.

   The kernel is evaluated on the voxel grid, cut at normsq/2 <= 15, cropped to
   the bounding box of its support (_crop), placed at the origin of a
   zero-padded buffer of shape ceil((n+k)/2)*2+2, multiplied in Fourier space
   with the zero-padded data (= circular convolution on the buffer), divided by
   the kernel sum, and the window [c_k, n + c_k) is returned, c_k = _kcenter the
   index of the kernel's maximum (its centre voxel) inside the cropped kernel.  All of that
   index logic acts axis by axis; the model is the per-axis logic plus the
   3-D support used by the correspondence for oblique affines.

   Numbers: indices in Z, values in Q.  exp is an abstract profile E (E u
   stands for exp(-u)); sigma = fwhm2sigma(fwhm) is threaded in as a rational. *)
From Coq Require Import ZArith List Bool Lia QArith Qminmax Qabs.
Import ListNotations.
Close Scope Q_scope.
Open Scope Z_scope.

(* ------------------------------------------------------------------ *)
(* _setup_kernel: centre voxel, physical offsets, cut                  *)

(* vox_center = np.floor((np.array(self.bshape) - 1) / 2.0) *)
Definition centre (n : Z) : Z := (n - 1) / 2.

(* _normsq(X)/2 along one axis of a diagonal affine:
   X = step * (i - centre);  _X /= sigma;  D2 = _X**2;  D2 / 2 *)
Definition half_normsq (step sigma : Q) (d : Z) : Q :=
  (((step * inject_Z d) / sigma) * ((step * inject_Z d) / sigma) / 2)%Q.

(* general affine: X = A d (A the 3x3 linear part, rows), per-axis sigma list *)
Definition dotq (r : list Q) (d : list Z) : Q :=
  fold_right Qplus 0%Q (map (fun p => (fst p * inject_Z (snd p))%Q) (combine r d)).
Definition half_normsq3 (A : list (list Q)) (sig : list Q) (d : list Z) : Q :=
  (fold_right Qplus 0%Q
     (map (fun p => ((dotq (fst p) d / snd p) * (dotq (fst p) d / snd p))%Q) (combine A sig)) / 2)%Q.

(* t = np.less_equal(_normsq, 15) *)
Definition cut : Q := 15%Q.
Definition in_cut (u : Q) : bool := Qle_bool u cut.

(* __call__: np.exp(-np.minimum(_normsq, 15)) * t,  E u standing for exp(-u) *)
Definition kval (E : Q -> Q) (u : Q) : Q :=
  (E (Qmin u cut) * (if in_cut u then 1 else 0))%Q.

(* ------------------------------------------------------------------ *)
(* _crop: bounding box of {|X| > tol} - along one axis the smallest and
   the largest index whose projection is non-empty                      *)

Definition tol : Q := (1 # 10000000000)%Q.
Definition above_tol (v : Q) : bool := negb (Qle_bool (Qabs v) tol).

Fixpoint find_up (P : Z -> bool) (i : Z) (fuel : nat) : option Z :=
  match fuel with
  | O => None
  | S f => if P i then Some i else find_up P (i + 1) f
  end.
Fixpoint find_down (P : Z -> bool) (i : Z) (fuel : nat) : option Z :=
  match fuel with
  | O => None
  | S f => if P i then Some i else find_down P (i - 1) f
  end.

(* (m, M); the `np.zeros((1,)*n)` fallback of _crop has shape 1: (0, 0) *)
Definition crop_bounds (n : Z) (P : Z -> bool) : Z * Z :=
  match find_up P 0 (Z.to_nat n), find_down P (n - 1) (Z.to_nat n) with
  | Some m, Some M => (m, M)
  | _, _ => (0, 0)
  end.

(* per-axis geometry derived from the crop *)
Definition klen (mM : Z * Z) : Z := snd mM - fst mM + 1.            (* kernel.shape[i] *)
Definition kcentre (n : Z) (mM : Z * Z) : Z := centre n - fst mM.  (* centre voxel inside the cropped kernel *)
(* self.shape = (np.ceil((bshape + kernel.shape) / 2) * 2 + 2) *)
Definition buflen (n k : Z) : Z := ((n + k + 1) / 2) * 2 + 2.
(* slicer: slice(self._kcenter[i], self.bshape[i] + self._kcenter[i]); w = _kcenter[i] *)
Definition win_start (w : Z) : Z := w.
Definition win_stop (n w : Z) : Z := n + w.
(* centre index minus half the kernel length: 0 for a symmetric crop (the window used to start
   at k // 2; kept to state where the centre of a cropped kernel sits) *)
Definition half_gap (n : Z) (mM : Z * Z) : Z := kcentre n mM - klen mM / 2.

(* support projection of a diagonal affine on one axis *)
Definition proj_diag (n : Z) (step sigma : Q) : Z -> bool :=
  fun i => in_cut (half_normsq step sigma (i - centre n)).

Definition bounds_diag (n : Z) (step sigma : Q) : Z * Z := crop_bounds n (proj_diag n step sigma).

(* ------------------------------------------------------------------ *)
(* 3-D support (oblique affines), used by the correspondence            *)

Definition zrange (n : Z) : list Z := map Z.of_nat (seq 0 (Z.to_nat n)).

Definition support3 (A : list (list Q)) (sig : list Q) (shape : list Z) : list (list Z) :=
  let c := map centre shape in
  let n0 := nth 0 shape 0 in let n1 := nth 1 shape 0 in let n2 := nth 2 shape 0 in
  let c0 := nth 0 c 0 in let c1 := nth 1 c 0 in let c2 := nth 2 c 0 in
  filter (fun v => in_cut (half_normsq3 A sig [nth 0 v 0 - c0; nth 1 v 0 - c1; nth 2 v 0 - c2]))
    (flat_map (fun i => flat_map (fun j => map (fun l => [i; j; l]) (zrange n2)) (zrange n1)) (zrange n0)).

Definition proj3 (supp : list (list Z)) (a : nat) : Z -> bool :=
  fun i => existsb (fun v => Z.eqb (nth a v 0) i) supp.

(* [k; c_k; L; window start; window stop; peak offset] for axis a; the window starts at the
   centre index c_k (Properties: _kcenter = c_k), the peak offset is c_k - window start *)
Definition geom_of (n : Z) (mM : Z * Z) : list Z :=
  let k := klen mM in let ck := kcentre n mM in
  [k; ck; buflen n k; win_start ck; win_stop n ck; ck - win_start ck].

Definition geom_diag (n : Z) (step sigma : Q) : list Z := geom_of n (bounds_diag n step sigma).

Definition geom3 (A : list (list Q)) (sig : list Q) (shape : list Z) : list (list Z) :=
  let supp := support3 A sig shape in
  map (fun a => let n := nth a shape 0 in geom_of n (crop_bounds n (proj3 supp a))) [0%nat; 1%nat; 2%nat].

(* ------------------------------------------------------------------ *)
(* smooth: one axis of the FFT pipeline                                  *)

Fixpoint zsum (f : Z -> Q) (n : nat) : Q :=
  match n with
  | O => 0%Q
  | S p => (zsum f p + f (Z.of_nat p))%Q
  end.

(* array of length len read as a function, zero elsewhere (zero padding) *)
Definition pad (len : Z) (f : Z -> Q) (i : Z) : Q :=
  if (0 <=? i) && (i <? len) then f i else 0%Q.

(* irfftn(rfftn(a) * rfftn(b)) on a buffer of even length L: circular convolution *)
Definition circ (L : Z) (a b : Z -> Q) (t : Z) : Q :=
  zsum (fun s => (a s * b ((t - s) mod L))%Q) (Z.to_nat L).

(* direct (linear) convolution of data x[0..n) with kernel kap[0..k) *)
Definition lin (n k : Z) (x kap : Z -> Q) (t : Z) : Q :=
  zsum (fun s => (x s * pad k kap (t - s))%Q) (Z.to_nat n).

(* norms['l1sum'] = kernel.sum() *)
Definition l1sum (k : Z) (kap : Z -> Q) : Q := zsum kap (Z.to_nat k).

(* self._kcenter = np.unravel_index(np.argmax(kernel), kernel.shape): along one axis the
   FIRST index at which the cropped kernel attains its maximum *)
Fixpoint argmax_upto (f : Z -> Q) (m : nat) : Z :=
  match m with
  | O => 0
  | S j => let a := argmax_upto f j in
           if Qle_bool (f (Z.of_nat (S j))) (f a) then a else Z.of_nat (S j)
  end.
Definition kcenter (k : Z) (kap : Z -> Q) : Z := argmax_upto kap (Z.to_nat (k - 1)).

(* __init__(coordmap, shape, fwhm=6.0, scale=1.0, location=0.0, cov=None): every argument is
   stored as given - 0 is a scale like any other *)
Definition default_fwhm : Q := 6%Q.
Definition default_scale : Q := 1%Q.
Definition default_location : Q := 0%Q.

(* smooth(): buffer <- data at origin; * fkernel; irfftn / l1sum; scale; location;
   window [w, n + w).  p is the output voxel, 0 <= p < n. *)
Definition smooth1_w (n k w : Z) (x kap : Z -> Q) (scale loc : Q) (p : Z) : Q :=
  (scale * (circ (buflen n k) (pad n x) (pad k kap) (p + win_start w) / l1sum k kap) + loc)%Q.
(* ... with w = _kcenter *)
Definition smooth1 (n k : Z) (x kap : Z -> Q) (scale loc : Q) (p : Z) : Q :=
  smooth1_w n k (kcenter k kap) x kap scale loc p.

(* the cropped kernel along one axis for a profile g of the voxel offset from the centre:
   kernel[j] = g (j + m - centre) = g (j - c_k) *)
Definition kern_of (g : Z -> Q) (ck : Z) : Z -> Q := fun j => g (j - ck).

Definition delta (p0 : Z) : Z -> Q := fun s => if s =? p0 then 1%Q else 0%Q.

(* the Gaussian profile of the code along a diagonal axis *)
Definition gprofile (E : Q -> Q) (step sigma : Q) : Z -> Q :=
  fun d => kval E (half_normsq step sigma d).

(* ------------------------------------------------------------------ *)
(* fwhm.Resels: exact determinant of the coordmap's affine (cofactor
   expansion along the first row), used to check self.wedge              *)
Definition drop_col (j : nat) (row : list Q) : list Q := firstn j row ++ skipn (S j) row.

Fixpoint qdet_fuel (fuel : nat) (M : list (list Q)) : Q :=
  match fuel with
  | O => 1%Q
  | S f =>
    match M with
    | [] => 1%Q
    | r :: rest =>
      fold_right Qplus 0%Q
        (map (fun j => ((if Nat.even j then 1 else -1) * nth j r 0 * qdet_fuel f (map (drop_col j) rest))%Q)
             (seq 0 (length r)))
    end
  end.
Definition qdet (M : list (list Q)) : Q := Qred (qdet_fuel (S (length M)) M).

(* wedge = |det|^(1/D) as returned by the implementation (a float, read as a rational):
   wedge > 0 and wedge^D = |det| up to the relative tolerance eps of the float power *)
Definition wedge_ok (M : list (list Q)) (D : positive) (w eps : Q) : bool :=
  let d := Qabs (qdet M) in
  Qle_bool (Qabs (Qpower w (Zpos D) - d)) (eps * d) && negb (Qle_bool w 0).
