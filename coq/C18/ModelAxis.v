(* C18 - the points-array handling of LinearFilter._normsq / __call__
   (kernel_smooth.py):

       _X = np.array(X, dtype=np.float64)
       _X = np.rollaxis(_X, axis)            # coordinate axis to the front
       for i in range(len(self.bshape)): _X[i] /= f[i]
       D2 = np.sum(_X**2, axis=0)

   An array of points is a strided view (NumPy's own representation): a shape,
   one stride per axis (in elements), an offset, over a flat buffer Z -> Q.
   np.rollaxis(_X, axis) (start = 0) is a view with the SAME buffer whose
   shape and strides are permuted: entry `axis` first, the others in their
   original order.  Executable definitions only. *)
From Coq Require Import ZArith List Bool QArith.
Import ListNotations.
Close Scope Q_scope.
Open Scope Z_scope.

Fixpoint dotz (s i : list Z) : Z :=
  match s, i with
  | a :: s', b :: i' => a * b + dotz s' i'
  | _, _ => 0
  end.

(* element of a view at a multi-index *)
Definition vget (buf : Z -> Q) (strides : list Z) (off : Z) (idx : list Z) : Q :=
  buf (off + dotz strides idx).

Definition remove_at (a : nat) (l : list Z) : list Z := firstn a l ++ skipn (S a) l.
Definition insert_at (a : nat) (c : Z) (l : list Z) : list Z := firstn a l ++ c :: skipn a l.

(* np.rollaxis(., axis) on a shape or stride tuple *)
Definition roll_front (a : nat) (l : list Z) : list Z := nth a l 0 :: remove_at a l.

(* np.swapaxes(., 0, axis) - NOT what the code does; used to show where the two part *)
Fixpoint set_nth (a : nat) (v : Z) (l : list Z) : list Z :=
  match a, l with
  | O, _ :: t => v :: t
  | S a', h :: t => h :: set_nth a' v t
  | _, [] => []
  end.
Definition swap_front (a : nat) (l : list Z) : list Z :=
  match l with
  | [] => []
  | h :: t => match a with O => l | S a' => nth a l 0 :: set_nth a' h t end
  end.

(* Python's negative axis numbers *)
Definition norm_axis (nd axis : Z) : nat := Z.to_nat (if axis <? 0 then axis + nd else axis).

(* the squared distance of the point at (output) index idx: coordinates c = 0..
   read from the rolled view, each divided by its sigma *)
Fixpoint coord_sum (sig : list Q) (c : Z) (rd : Z -> Q) : Q :=
  match sig with
  | [] => 0%Q
  | s :: sig' => (let v := (rd c / s)%Q in v * v + coord_sum sig' (c + 1) rd)%Q
  end.

Definition normsq_view (sig : list Q) (buf : Z -> Q) (strides : list Z) (off : Z) (a : nat) (idx : list Z) : Q :=
  coord_sum sig 0 (fun c => vget buf (roll_front a strides) off (c :: idx)).

(* the same, written on the caller's array: coordinate slot inserted at position a *)
Definition normsq_points (sig : list Q) (buf : Z -> Q) (strides : list Z) (off : Z) (a : nat) (idx : list Z) : Q :=
  coord_sum sig 0 (fun c => vget buf strides off (insert_at a c idx)).

(* ---- executable gather for the correspondence: all multi-indices of a shape in C order *)
Fixpoint all_idx (shape : list Z) : list (list Z) :=
  match shape with
  | [] => [[]]
  | n :: rest =>
      let tl := all_idx rest in
      flat_map (fun i => map (fun t => Z.of_nat i :: t) tl) (seq 0 (Z.to_nat n))
  end.

(* for every output point (C order over the rolled shape without its first axis) the
   buffer positions of its coordinates 0 .. ncoord-1, through the rolled view *)
Definition gather (shape strides : list Z) (off : Z) (a : nat) : list (list Z) :=
  let rs := roll_front a shape in
  let rt := roll_front a strides in
  map (fun idx => map (fun c => off + dotz rt (Z.of_nat c :: idx)) (seq 0 (Z.to_nat (hd 0 rs))))
      (all_idx (tl rs)).

Definition out_shape (shape : list Z) (a : nat) : list Z := tl (roll_front a shape).
