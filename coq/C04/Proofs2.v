(* C04 - lemmas, part 2: the sampled point is the S-preimage of the mapped
   world point (all entry points), registration flags, interpolator pre-pad,
   VolumeImg.as_volume_img / xyz_ordered, and the consequences under the
   interpolation-oracle contract. *)
From Coq Require Import String.
From Coq Require Import List Arith Lia Bool ZArith Ring.
From NV.Lib Require Import RingMat.
From NV.C01 Require Import Model.
From NV.C04 Require Import Model Proofs1.
Import ListNotations.

Section P2.
  Variable R : Type.
  Variables (r0 r1 : R) (radd rmul rsub : R -> R -> R) (ropp : R -> R).
  Hypothesis Rth : ring_theory r0 r1 radd rmul rsub ropp (@eq R).
  Add Ring Rr2 : Rth.
  Variable reqb : R -> R -> bool.
  Hypothesis reqb_sound : forall x y, reqb x y = true -> x = y.

  Local Notation mat := (list (list R)).
  Local Notation vec := (list R).
  Local Notation Mid := (mid r0 r1).
  Local Notation Mm := (mm r0 radd rmul).
  Local Notation Mv := (mv r0 radd rmul).
  Local Notation Dot := (dot r0 radd rmul).
  Local Notation Happly := (happly r0 r1 radd rmul).
  Local Notation WfAff := (wf_aff r0 r1).
  Local Notation aff := (aff R).
  Local Notation LinPart := (lin_part R).
  Local Notation TransPart := (trans_part R r0).
  Local Notation SamplePoint := (sample_point R r0 radd rmul).
  Local Notation MappingMatrix := (mapping_matrix R r0 r1).
  Local Notation ResampleAffine := (resample_affine R r0 r1 radd rmul reqb).

  Let HMM := happly_mm R r0 r1 radd rmul rsub ropp Rth.
  Let MMWF := mm_wf_aff R r0 r1 radd rmul rsub ropp Rth.
  Let HMID := happly_mid R r0 r1 radd rmul rsub ropp Rth.
  Let HLEN := happly_length R r0 r1 radd rmul.

  (* two-sided inverse, as an action on points (oracle contract of numpy.linalg.inv) *)
  Definition inv_pair (n : nat) (S Sinv : mat) : Prop :=
    (forall y, length y = n -> Happly S (Happly Sinv y) = y) /\
    (forall x, length x = n -> Happly Sinv (Happly S x) = x).

  (* p is the source-voxel position of the world point w: S p = w, and it is the only one *)
  Definition preimage_of (n : nat) (S : mat) (w p : vec) : Prop :=
    length p = n /\ Happly S p = w /\ forall q, length q = n -> Happly S q = w -> q = p.

  Lemma preimage_by_inverse n S Sinv w :
    WfAff n n Sinv -> inv_pair n S Sinv -> length w = n ->
    preimage_of n S w (Happly Sinv w).
  Proof.
    intros Wi [H1 H2] Hw. split; [|split].
    - now apply (HLEN n n).
    - now apply H1.
    - intros q Hq E. rewrite <- E. now rewrite H2.
  Qed.

  (* ---------------------------------------------------------------- algorithms/resample.py *)
  Lemma resample_samples (icm target : aff) (m : mapping R) (Sinv : mat)
        (out : aff) (A : mat) (b : vec) nt nw ns (v : vec) :
    ResampleAffine icm target m Sinv = Ok (out, (A, b)) ->
    cs_ndim (adom target) = nt ->
    WfAff nw nt (amat target) ->
    WfAff ns nw (MappingMatrix m) ->
    WfAff ns ns Sinv ->
    inv_pair ns (amat icm) Sinv ->
    length v = nt ->
    out = target /\
    preimage_of ns (amat icm)
                (Happly (MappingMatrix m) (Happly (amat target) v))
                (SamplePoint A b v).
  Proof.
    intros E Hnt HG HT HSi Hinv Hv.
    destruct (resample_affine_point R r0 r1 radd rmul rsub ropp Rth reqb
                icm target m Sinv out A b nt nw ns v E Hnt HG HT HSi Hv) as [Eo Ep].
    split; [exact Eo|]. rewrite Ep.
    apply preimage_by_inverse; try assumption.
    now apply (HLEN ns nw).
  Qed.

  Lemma resample_img2img_samples (scm tcm : aff) (Sinv : mat)
        (out : aff) (A : mat) (b : vec) nt nw (v : vec) :
    resample_img2img R r0 r1 radd rmul reqb scm tcm Sinv = Ok (out, (A, b)) ->
    cs_ndim (adom tcm) = nt -> cs_ndim (arng scm) = nw ->
    WfAff nw nt (amat tcm) ->
    WfAff nw nw Sinv ->
    inv_pair nw (amat scm) Sinv ->
    length v = nt ->
    out = tcm /\ preimage_of nw (amat scm) (Happly (amat tcm) v) (SamplePoint A b v).
  Proof.
    intros E Hnt Hnw HG HSi Hinv Hv. unfold resample_img2img in E.
    destruct (negb _); [discriminate|]. rewrite Hnw in E.
    destruct (resample_samples scm tcm _ Sinv out A b nt nw nw v E Hnt HG) as [Eo P]; try assumption.
    { cbn. apply mid_wf_aff. }
    split; [exact Eo|]. cbn [mapping_matrix] in P.
    rewrite HMID in P by (now apply (HLEN nw nt)). exact P.
  Qed.

  (* ---------------------------------------------------------------- ImageInterpolator.evaluate *)
  Lemma interp_coords_unpad (Sinv : mat) (pad : R) (p : vec) :
    map (fun c => rsub c pad) (interp_coords R r0 r1 radd rmul Sinv pad p) = Happly Sinv p.
  Proof.
    unfold interp_coords. rewrite map_map. rewrite <- (map_id (Happly Sinv p)) at 2.
    apply map_ext. intros c. ring.
  Qed.

  Lemma interp_coords_samples n (S Sinv : mat) (pad : R) (p : vec) :
    WfAff n n Sinv -> inv_pair n S Sinv -> length p = n ->
    preimage_of n S p (map (fun c => rsub c pad) (interp_coords R r0 r1 radd rmul Sinv pad p)).
  Proof.
    intros Wi Hinv Hp. rewrite interp_coords_unpad. now apply preimage_by_inverse.
  Qed.

  (* ---------------------------------------------------------------- registration/resample.py *)
  Definition opt_apply (use : bool) (M : mat) (x : vec) : vec := if use then Happly M x else x.

  Lemma reg_tv_point (T Ra Mi : mat) (rv mv_ : bool) (v : vec) :
    WfAff 3 3 T -> WfAff 3 3 Ra -> WfAff 3 3 Mi -> length v = 3 ->
    WfAff 3 3 (reg_tv R r0 radd rmul T Ra Mi rv mv_) /\
    Happly (reg_tv R r0 radd rmul T Ra Mi rv mv_) v =
    opt_apply (negb mv_) Mi (Happly T (opt_apply (negb rv) Ra v)).
  Proof.
    intros WT WR WM Hv. unfold reg_tv, opt_apply.
    destruct rv, mv_; cbn [negb].
    - split; [exact WT|reflexivity].
    - split; [now apply (MMWF 3 3 3)|]. now rewrite (HMM 3 3 3).
    - split; [now apply (MMWF 3 3 3)|]. now rewrite (HMM 3 3 3).
    - assert (W1 : WfAff 3 3 (Mm 4 T Ra)) by now apply (MMWF 3 3 3).
      split; [now apply (MMWF 3 3 3)|].
      rewrite (HMM 3 3 3) by assumption. now rewrite (HMM 3 3 3).
  Qed.

  (* world map denoted by a transform given in voxel/world conventions *)
  Definition reg_world (T Ma Ri : mat) (rv mv_ : bool) (w : vec) : vec :=
    opt_apply mv_ Ma (Happly T (opt_apply rv Ri w)).

  Lemma reg_samples (T Ra Ri Ma Mi : mat) (rv mv_ : bool) (v : vec) :
    WfAff 3 3 T -> WfAff 3 3 Ra -> WfAff 3 3 Ri -> WfAff 3 3 Ma -> WfAff 3 3 Mi ->
    inv_pair 3 Ra Ri -> inv_pair 3 Ma Mi -> length v = 3 ->
    preimage_of 3 Ma (reg_world T Ma Ri rv mv_ (Happly Ra v))
                (Happly (reg_tv R r0 radd rmul T Ra Mi rv mv_) v).
  Proof.
    intros WT WR WRi WMa WMi [R1 R2] [M1 M2] Hv.
    destruct (reg_tv_point T Ra Mi rv mv_ v WT WR WMi Hv) as [W E].
    split; [now apply (HLEN 3 3)|]. rewrite E. unfold reg_world, opt_apply.
    assert (L1 : length (Happly Ra v) = 3) by now apply (HLEN 3 3).
    destruct rv, mv_; cbn [negb].
    - rewrite R2 by exact Hv. split; [reflexivity|].
      intros q Hq Eq. rewrite <- (M2 q Hq), Eq. apply M2. now apply (HLEN 3 3).
    - rewrite R2 by exact Hv. rewrite M1 by now apply (HLEN 3 3). split; [reflexivity|].
      intros q Hq Eq. rewrite <- (M2 q Hq), Eq. reflexivity.
    - split; [reflexivity|].
      intros q Hq Eq. rewrite <- (M2 q Hq), Eq. apply M2. now apply (HLEN 3 3).
    - rewrite M1 by now apply (HLEN 3 3). split; [reflexivity|].
      intros q Hq Eq. rewrite <- (M2 q Hq), Eq. reflexivity.
  Qed.

  (* the four flag combinations, for one world map W *)
  Lemma reg_flags_consistent (W Ra Mi : mat) (v : vec) :
    WfAff 3 3 W -> WfAff 3 3 Ra -> WfAff 3 3 Mi -> length v = 3 ->
    let p := Happly Mi (Happly W (Happly Ra v)) in
    Happly (reg_tv R r0 radd rmul W Ra Mi false false) v = p /\
    Happly (reg_tv R r0 radd rmul (Mm 4 W Ra) Ra Mi true false) v = p /\
    Happly (reg_tv R r0 radd rmul (Mm 4 Mi W) Ra Mi false true) v = p /\
    Happly (reg_tv R r0 radd rmul (Mm 4 Mi (Mm 4 W Ra)) Ra Mi true true) v = p.
  Proof.
    intros WW WR WM Hv p. subst p.
    assert (W1 : WfAff 3 3 (Mm 4 W Ra)) by now apply (MMWF 3 3 3).
    assert (W2 : WfAff 3 3 (Mm 4 Mi W)) by now apply (MMWF 3 3 3).
    assert (W3 : WfAff 3 3 (Mm 4 Mi (Mm 4 W Ra))) by now apply (MMWF 3 3 3).
    assert (L1 : length (Happly Ra v) = 3) by now apply (HLEN 3 3).
    repeat split.
    - now destruct (reg_tv_point W Ra Mi false false v WW WR WM Hv) as [_ ->].
    - destruct (reg_tv_point (Mm 4 W Ra) Ra Mi true false v W1 WR WM Hv) as [_ ->].
      cbn [negb opt_apply]. now rewrite (HMM 3 3 3).
    - destruct (reg_tv_point (Mm 4 Mi W) Ra Mi false true v W2 WR WM Hv) as [_ ->].
      cbn [negb opt_apply]. now rewrite (HMM 3 3 3).
    - destruct (reg_tv_point _ Ra Mi true true v W3 WR WM Hv) as [_ ->].
      cbn [negb opt_apply]. rewrite (HMM 3 3 3) by assumption. now rewrite (HMM 3 3 3).
  Qed.

  (* the generic path's (Tv[0:3,0:3], Tv[0:3,3]) is to_matvec(Tv) *)
  Lemma reg_generic_args_matvec (Tv : mat) :
    WfAff 3 3 Tv -> reg_generic_args R r0 Tv = (LinPart Tv, TransPart Tv).
  Proof.
    intros [top [-> [Ht Hr]]].
    destruct top as [|a [|b [|c [|d top]]]]; try discriminate.
    inversion Hr as [|? ? Ha Hr1]; subst. inversion Hr1 as [|? ? Hb Hr2]; subst.
    inversion Hr2 as [|? ? Hc Hr3]; subst.
    destruct a as [|a0 [|a1 [|a2 [|a3 [|? ?]]]]]; try discriminate.
    destruct b as [|b0 [|b1 [|b2 [|b3 [|? ?]]]]]; try discriminate.
    destruct c as [|c0 [|c1 [|c2 [|c3 [|? ?]]]]]; try discriminate.
    reflexivity.
  Qed.

  Lemma reg_generic_point (Tv : mat) (v : vec) :
    WfAff 3 3 Tv -> length v = 3 ->
    SamplePoint (fst (reg_generic_args R r0 Tv)) (snd (reg_generic_args R r0 Tv)) v = Happly Tv v.
  Proof.
    intros W Hv. rewrite reg_generic_args_matvec by exact W. cbn [fst snd].
    symmetry. now apply (happly_matvec R r0 r1 radd rmul rsub ropp Rth 3 3).
  Qed.

  (* scanner_coords with the identity transform and from_world = inv(to_world) is the identity *)
  Lemma scanner_identity (Fw Tw : mat) (v : vec) :
    WfAff 3 3 Fw -> WfAff 3 3 Tw -> inv_pair 3 Tw Fw -> length v = 3 ->
    Happly (scanner_tv R r0 radd rmul Fw (Mid 4) Tw) v = v.
  Proof.
    intros WF WT [_ H2] Hv. unfold scanner_tv.
    assert (W1 : WfAff 3 3 (Mm 4 (Mid 4) Tw)) by (apply (MMWF 3 3 3); [apply mid_wf_aff|exact WT]).
    rewrite (HMM 3 3 3) by assumption.
    rewrite (HMM 3 3 3) by (try assumption; apply mid_wf_aff).
    rewrite HMID by now apply (HLEN 3 3). now apply H2.
  Qed.

  (* ---------------------------------------------------------------- VolumeImg.as_volume_img *)
  Lemma vec_eqb_sound (a b : vec) : vec_eqb R reqb a b = true -> a = b.
  Proof.
    revert b; induction a as [|x a IH]; intros [|y b]; cbn; try discriminate; auto.
    intros H. apply andb_true_iff in H. destruct H as [H1 H2].
    f_equal; [now apply reqb_sound|now apply IH].
  Qed.

  Lemma mat_eqb_sound (A B : mat) : mat_eqb R reqb A B = true -> A = B.
  Proof.
    revert B; induction A as [|x A IH]; intros [|y B]; cbn; try discriminate; auto.
    intros H. apply andb_true_iff in H. destruct H as [H1 H2].
    f_equal; [now apply vec_eqb_sound|now apply IH].
  Qed.

  Lemma avi_transform_point (S G Sinv : mat) (v : vec) :
    WfAff 3 3 S -> WfAff 3 3 G -> WfAff 3 3 Sinv -> inv_pair 3 S Sinv -> length v = 3 ->
    WfAff 3 3 (avi_transform R r0 r1 radd rmul reqb S G Sinv) /\
    Happly (avi_transform R r0 r1 radd rmul reqb S G Sinv) v = Happly Sinv (Happly G v).
  Proof.
    intros WS WG WSi [_ H2] Hv. unfold avi_transform.
    destruct (mat_eqb R reqb G S) eqn:E.
    - apply mat_eqb_sound in E. subst G. split; [apply mid_wf_aff|].
      rewrite HMID by exact Hv. now rewrite H2.
    - split; [now apply (MMWF 3 3 3)|]. now rewrite (HMM 3 3 3).
  Qed.

  (* a diagonal 3x3 matrix given as its diagonal acts like the matrix *)
  Lemma diag3_action (A : mat) (v : vec) :
    length A = 3 -> rows_len 3 A -> length v = 3 ->
    is_diag R r0 reqb A = true ->
    vmul R rmul (diag_of R r0 A) v = Mv A v.
  Proof.
    intros HA Hr Hv Hd.
    destruct A as [|a [|b [|c [|d A]]]]; try discriminate.
    inversion Hr as [|? ? Ha Hr1]; subst. inversion Hr1 as [|? ? Hb Hr2]; subst.
    inversion Hr2 as [|? ? Hc Hr3]; subst.
    destruct a as [|a0 [|a1 [|a2 [|? ?]]]]; try discriminate.
    destruct b as [|b0 [|b1 [|b2 [|? ?]]]]; try discriminate.
    destruct c as [|c0 [|c1 [|c2 [|? ?]]]]; try discriminate.
    destruct v as [|x [|y [|z [|? ?]]]]; try discriminate.
    cbn in Hd.
    repeat match goal with
           | H : _ && _ = true |- _ => apply andb_true_iff in H; destruct H
           end.
    repeat match goal with H : reqb _ r0 = true |- _ => apply reqb_sound in H; subst end.
    cbn. f_equal; [ring|]. f_equal; [ring|]. f_equal; ring.
  Qed.

  Lemma lin_part_shape (Tm : mat) :
    WfAff 3 3 Tm -> length (LinPart Tm) = 3 /\ rows_len 3 (LinPart Tm).
  Proof.
    intros [top [-> [Ht Hr]]]. unfold lin_part, top_rows. rewrite removelast_last.
    split; [now rewrite map_length|].
    unfold rows_len in *. rewrite Forall_forall in *. intros r Hin.
    apply in_map_iff in Hin. destruct Hin as [row [<- Hrow]].
    specialize (Hr row Hrow). destruct row as [|x row]; [discriminate|].
    assert (E : x :: row <> []) by discriminate.
    pose proof (app_removelast_last r0 E) as EE.
    assert (L : length (x :: row) = length (removelast (x :: row)) + 1)
      by (rewrite EE at 1; rewrite app_length; reflexivity).
    lia.
  Qed.

  (* both branches (A diagonal handed over as a 1-D matrix, or full A): offset = b,
     so the sampled point is Sinv (G v) *)
  Lemma avi_samples (S G Sinv : mat) (v : vec) :
    WfAff 3 3 S -> WfAff 3 3 G -> WfAff 3 3 Sinv -> inv_pair 3 S Sinv -> length v = 3 ->
    preimage_of 3 S (Happly G v)
      (avi_sample_point R r0 radd rmul (avi_sampler_args R r0 r1 radd rmul reqb S G Sinv) v).
  Proof.
    intros WS WG WSi Hinv Hv.
    destruct (avi_transform_point S G Sinv v WS WG WSi Hinv Hv) as [WT ET].
    unfold avi_sampler_args.
    set (Tm := avi_transform R r0 r1 radd rmul reqb S G Sinv) in *.
    destruct (lin_part_shape Tm WT) as [LA RA].
    assert (P : preimage_of 3 S (Happly G v) (SamplePoint (LinPart Tm) (TransPart Tm) v)).
    { rewrite <- (happly_matvec R r0 r1 radd rmul rsub ropp Rth 3 3 Tm v WT Hv). rewrite ET.
      apply preimage_by_inverse; try assumption. now apply (HLEN 3 3). }
    destruct (is_diag R r0 reqb (LinPart Tm)) eqn:Hd; cbn [avi_sample_point fst snd].
    - unfold sample_point_diag. rewrite (diag3_action (LinPart Tm) v LA RA Hv Hd). exact P.
    - exact P.
  Qed.

  (* ---------------------------------------------------------------- VolumeImg.xyz_ordered (flip step) *)
  Variable rneg : R -> bool.

  (* every axis, flipped or not: the datum shown at new index i keeps its world coordinate *)
  Lemma xyz_flip_preserves (p b nm1 i : R) :
    let '(p', b', f) := xyz_flip_axis R radd rmul ropp rneg p b nm1 in
    axis_world R radd rmul p' b' i = axis_world R radd rmul p b (xyz_old_index R rsub f nm1 i).
  Proof.
    unfold xyz_flip_axis, xyz_old_index, axis_world. destruct (rneg p); cbn; ring.
  Qed.

  (* and the new pixdim is the negated one exactly when the axis was reversed *)
  Lemma xyz_flip_pixdim (p b nm1 : R) :
    let '(p', b', f) := xyz_flip_axis R radd rmul ropp rneg p b nm1 in
    f = rneg p /\ p' = (if f then ropp p else p).
  Proof. unfold xyz_flip_axis. destruct (rneg p); cbn; auto. Qed.

  (* ---------------------------------------------------------------- interpolation oracle contract *)
  Section Oracle.
    Variable inj : Z -> R.                       (* lattice index -> coordinate *)
    Variable ns : nat.                           (* source voxel dimensions *)
    Variable src : list Z -> R.                  (* source array *)
    Variable inb : list Z -> Prop.               (* index inside the array *)
    Variable outside : vec -> Prop.              (* position outside the field of view *)
    Variable inside : vec -> Prop.               (* position inside the convex hull of the lattice *)
    Variable interp : nat -> bmode -> R -> vec -> R.   (* order, mode, cval, position *)

    Hypothesis interp_lattice :
      forall o m c z, inb z -> interp o m c (map inj z) = src z.
    Hypothesis interp_cval :
      forall o c p, outside p -> interp o MConstant c p = c.
    Hypothesis interp_linear :
      forall m c (Gm : mat), WfAff 1 ns Gm ->
        (forall z, inb z -> length z = ns -> Happly Gm (map inj z) = [src z]) ->
        forall p, length p = ns -> inside p -> [interp 1 m c p] = Happly Gm p.

    Lemma sampled_grid_exact (S : mat) (w p : vec) o m c z :
      preimage_of ns S w p -> inb z -> length z = ns -> Happly S (map inj z) = w ->
      interp o m c p = src z.
    Proof.
      intros [_ [_ U]] Hz Lz E.
      rewrite <- (U (map inj z)); [now apply interp_lattice|now rewrite map_length|exact E].
    Qed.

    Lemma sampled_outside_cval (S : mat) (w p : vec) o c :
      preimage_of ns S w p -> (forall q, length q = ns -> Happly S q = w -> outside q) ->
      interp o MConstant c p = c.
    Proof.
      intros [L [E _]] Ho. apply interp_cval. now apply Ho.
    Qed.

    Lemma sampled_linear_field (S F : mat) (w p : vec) nw m c :
      WfAff nw ns S -> WfAff 1 nw F ->
      preimage_of ns S w p ->
      (forall z, inb z -> length z = ns -> [src z] = Happly F (Happly S (map inj z))) ->
      inside p ->
      [interp 1 m c p] = Happly F w.
    Proof.
      intros WS WF [L [E _]] Hsrc Hin.
      rewrite (interp_linear m c (Mm (Datatypes.S ns) F S)).
      - rewrite (HMM 1 nw ns) by assumption. now rewrite E.
      - now apply (MMWF 1 nw ns).
      - intros z Hz Lz. rewrite (HMM 1 nw ns) by (try assumption; now rewrite map_length).
        symmetry. now apply Hsrc.
      - exact L.
      - exact Hin.
    Qed.
  End Oracle.
End P2.
