(* C04 - resampling samples the source at the mapped world location.

   Model of the voxel-to-voxel map construction of every resampling entry
   point of nipy, over an arbitrary commutative ring (RingMat), i.e. of what is
   handed to the external sampler (scipy.ndimage.affine_transform /
   map_coordinates, the C cubic-spline resampler):

     nipy/algorithms/resample.py            resample, resample_img2img
     nipy/algorithms/interpolation.py       ImageInterpolator.evaluate, _buildknots (pre-pad)
     nipy/algorithms/registration/resample.py   resample (flags, short-cut predicate)
     nipy/algorithms/registration/groupwise_registration.py  scanner_coords
     nipy/labs/datasets/volumes/volume_img.py   as_volume_img, xyz_ordered, _swapaxes
     nipy/labs/datasets/volumes/volume_grid.py  values_in_world

   Coordinate maps are C01's `aff` (coordinate systems + homogeneous matrix)
   and composition is C01's `compose` (with its coordinate-system guard).
   Matrix inverses (numpy.linalg.inv) are oracles: a candidate inverse is an
   argument of the model.  Executable definitions only. *)
From Coq Require Import String.
From Coq Require Import List Arith Lia Bool ZArith.
From NV.Lib Require Import RingMat.
From NV.C01 Require Import Model.
Import ListNotations.

(* scipy.ndimage boundary modes *)
Inductive bmode := MConstant | MNearest | MReflect | MWrap | MMirror | MGridConstant | MGridWrap.

Definition bmode_eqb (a b : bmode) : bool :=
  match a, b with
  | MConstant, MConstant | MNearest, MNearest | MReflect, MReflect | MWrap, MWrap
  | MMirror, MMirror | MGridConstant, MGridConstant | MGridWrap, MGridWrap => true
  | _, _ => false
  end.

(* ImageInterpolator._buildknots: pad 12 voxels on every side before the
   spline prefilter iff order > 1 and mode in ('nearest', 'grid-constant') *)
Definition n_prepad_if_needed : nat := 12.
Definition n_prepad (order : nat) (m : bmode) : nat :=
  if Nat.ltb 1 order && (bmode_eqb m MNearest || bmode_eqb m MGridConstant)
  then n_prepad_if_needed else 0.

(* registration.resample: `(interp_order, mode, cval) == (3, 'constant', 0)` *)
Definition reg_shortcut (order : nat) (m : bmode) (cval_is_zero : bool) : bool :=
  Nat.eqb order 3 && bmode_eqb m MConstant && cval_is_zero.

Section C04.
  Variable R : Type.
  Variables (r0 r1 : R) (radd rmul rsub : R -> R -> R) (ropp : R -> R).
  Variable reqb : R -> R -> bool.

  Local Notation mat := (list (list R)).
  Local Notation vec := (list R).
  Local Notation Mid := (mid r0 r1).
  Local Notation Mm := (mm r0 radd rmul).
  Local Notation Mv := (mv r0 radd rmul).
  Local Notation Happly := (happly r0 r1 radd rmul).
  Local Notation aff := (aff R).
  Local Notation Compose := (compose R r0 r1 radd rmul reqb).
  Local Notation MkAff := (mk_aff R r0 r1 reqb).
  Local Notation LinPart := (lin_part R).
  Local Notation TransPart := (trans_part R r0).

  (* ---------------------------------------------------------------- sampler
     What scipy.ndimage.affine_transform(input, matrix, offset) documents:
     output[o] = input[matrix . o + offset]  (2-D matrix), and for a 1-D
     `matrix` (diagonal given as a vector)  input[matrix * o + offset]. *)
  Definition sample_point (A : mat) (b : vec) (v : vec) : vec := vadd radd (Mv A v) b.
  Fixpoint vmul (d v : vec) : vec :=
    match d, v with
    | a :: d', x :: v' => rmul a x :: vmul d' v'
    | _, _ => []
    end.
  Definition sample_point_diag (d : vec) (b : vec) (v : vec) : vec := vadd radd (vmul d v) b.

  (* ---------------------------------------------------------------- nibabel.affines.from_matvec *)
  Fixpoint from_matvec_rows (A : mat) (b : vec) : mat :=
    match A, b with
    | row :: A', bi :: b' => (row ++ [bi]) :: from_matvec_rows A' b'
    | _, _ => []
    end.
  Definition ncols (A : mat) : nat := match A with row :: _ => length row | [] => 0 end.
  Definition from_matvec (A : mat) (b : vec) : mat :=
    from_matvec_rows A b ++ [bottom_row r0 r1 (ncols A)].

  (* ---------------------------------------------------------------- algorithms/resample.py : resample
     `mapping` forms that stay affine: tuple (A, b), homogeneous array,
     AffineTransform object.  mdt = dtype tag of the array (0 int, 1 float). *)
  Inductive mapping :=
  | MapTuple (A : mat) (b : vec) (adt bdt : nat)     (* dtype tags of A and b *)
  | MapMatrix (M : mat) (mdt : nat)
  | MapAffine (a : aff).

  (* nibabel's from_matvec allocates the result with the dtype of the MATRIX;
     resample (lines 108-113) first casts an integer-typed A to result_type(A, b),
     so the vector is stored without loss; tuple_dt is the resulting dtype tag *)
  Definition tuple_dt (adt bdt : nat) : nat := if Nat.eqb adt 0 then Nat.max adt bdt else adt.

  (* lines 106-115: TW2IW *)
  Definition tw2iw (icm target : aff) (m : mapping) : res aff :=
    match m with
    | MapTuple A b adt bdt => MkAff (arng target) (arng icm) (tuple_dt adt bdt) (from_matvec A b)
    | MapMatrix M mdt => MkAff (arng target) (arng icm) mdt M
    | MapAffine a => Ok a
    end.

  (* lines 121, 132-140: the result's coordmap and the (matrix, offset) handed to
     scipy.ndimage.affine_transform.  Sinv = candidate for npl.inv(image.affine). *)
  Definition resample_affine (icm target : aff) (m : mapping) (Sinv : mat)
    : res (aff * (mat * vec)) :=
    bind (tw2iw icm target m) (fun TW2IW =>
    bind (Compose [TW2IW; target]) (fun TV2IW =>
    bind (inverse_with R r0 r1 reqb icm Sinv) (fun ICMI =>
    bind (Compose [ICMI; TV2IW]) (fun TV2IV =>
    Ok (target, (LinPart (amat TV2IV), TransPart (amat TV2IV))))))).

  (* resample_img2img: guard on world dimensions, identity world map *)
  Definition resample_img2img (scm tcm : aff) (Sinv : mat) : res (aff * (mat * vec)) :=
    if negb (Nat.eqb (cs_ndim (arng scm)) (cs_ndim (arng tcm))) then Err EValue
    else resample_affine scm tcm (MapMatrix (Mid (S (cs_ndim (arng scm)))) 1) Sinv.

  (* ---------------------------------------------------------------- interpolation.py : ImageInterpolator.evaluate
     voxels = cmapi(points) + n_prepad ; `pad` is n_prepad injected in R by the caller *)
  Definition interp_coords (Sinv : mat) (pad : R) (p : vec) : vec :=
    map (fun c => radd c pad) (Happly Sinv p).

  (* resample with a callable mapping f (lines 117-130): the interpolator is
     evaluated at f(target(v)); fw is the callable's value (oracle) at target(v) *)
  Definition resample_callable_world (target : aff) (v : vec) : vec := Happly (amat target) v.

  (* ---------------------------------------------------------------- registration/resample.py : resample, affine case
     lines 116-120 *)
  Definition reg_tv (T ref_aff mov_inv : mat) (ref_voxel_coords mov_voxel_coords : bool) : mat :=
    let Tv := if ref_voxel_coords then T else Mm 4 T ref_aff in
    if mov_voxel_coords then Tv else Mm 4 mov_inv Tv.

  (* what each path hands to its sampler: the short cut passes Tv whole to
     _cspline_resample3d, the generic path passes Tv[0:3,0:3], Tv[0:3,3] *)
  Definition top3 (M : mat) : mat := firstn 3 M.
  Definition reg_generic_args (Tv : mat) : mat * vec :=
    (map (firstn 3) (top3 Tv), map (fun row => nth 3 row r0) (top3 Tv)).

  (* groupwise_registration.scanner_coords: Tv = from_world . (affine . to_world) *)
  Definition scanner_tv (from_world affine to_world : mat) : mat :=
    Mm 4 from_world (Mm 4 affine to_world).

  (* ---------------------------------------------------------------- labs/datasets/volumes/volume_img.py : as_volume_img
     (4x4 affine given; lines 189-224) *)
  Fixpoint mat_eqb (A B : mat) : bool :=
    match A, B with
    | [], [] => true
    | x :: A', y :: B' => vec_eqb R reqb x y && mat_eqb A' B'
    | _, _ => false
    end.
  Definition diag_of (A : mat) : vec := map (fun ir => nth (fst ir) (snd ir) r0) (combine (seq 0 (length A)) A).
  (* np.all(np.diag(np.diag(A)) == A) *)
  Definition is_diag (A : mat) : bool :=
    forallb (fun ir => forallb (fun jx => Nat.eqb (fst jx) (fst ir) || reqb (snd jx) r0)
                               (combine (seq 0 (length (snd ir))) (snd ir)))
            (combine (seq 0 (length A)) A).

  Inductive sampler_matrix := SFull (A : mat) | SDiag (d : vec).

  Definition avi_transform (self_aff affine self_inv : mat) : mat :=
    if mat_eqb affine self_aff then Mid 4 else Mm 4 self_inv affine.

  Definition avi_sampler_args (self_aff affine self_inv : mat) : sampler_matrix * vec :=
    let Tm := avi_transform self_aff affine self_inv in
    let A := LinPart Tm in
    let b := TransPart Tm in
    if is_diag A then (SDiag (diag_of A), b)
    else (SFull A, b).

  Definition avi_sample_point (args : sampler_matrix * vec) (v : vec) : vec :=
    match fst args with
    | SFull A => sample_point A (snd args) v
    | SDiag d => sample_point_diag d (snd args) v
    end.

  (* ---------------------------------------------------------------- volume_img.py : xyz_ordered, flip step (lines 279-301)
     per axis (three identical blocks): pixdim p, offset b, nm1 = shape[k]-1 ;
     returns (new pixdim, new offset, reversed?) *)
  Variable rneg : R -> bool.       (* `pixdim[k] < 0` *)
  Definition xyz_flip_axis (p b nm1 : R) : R * R * bool :=
    if rneg p then (ropp p, radd b (rmul p nm1), true) else (p, b, false).
  (* voxel index (along the axis) of the old array that the new voxel i holds *)
  Definition xyz_old_index (flipped : bool) (nm1 i : R) : R := if flipped then rsub nm1 i else i.
  Definition axis_world (p b i : R) : R := radd (rmul p i) b.

  (* _swapaxes: new_affine = affine.T[order].T swaps two columns of the affine *)
  Definition swap_nth {A} (i j : nat) (l : list A) (d : A) : list A :=
    map (fun k => if Nat.eqb k i then nth j l d else if Nat.eqb k j then nth i l d else nth k l d)
        (seq 0 (length l)).
  Definition swap_cols (i j : nat) (M : mat) : mat := map (fun row => swap_nth i j row r0) M.

  (* volume_grid.values_in_world: coords = inverse_mapping(x, y, z) *)
  Definition values_in_world_coords (Sinv : mat) (p : vec) : vec := Happly Sinv p.
End C04.

Arguments MapTuple {R} A b adt bdt.
Arguments MapMatrix {R} M mdt.
Arguments MapAffine {R} a.
Arguments SFull {R} A.
Arguments SDiag {R} d.
