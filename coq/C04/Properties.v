(* C04 - property theorems only.  R ranges over every commutative ring
   (ring_theory with Leibniz equality: Z, Qc, ...); matrices are RingMat
   list-of-rows matrices; coordinate maps are C01's `aff`; `compose` is C01's
   model of nipy's compose.  `inv_pair n S Sinv` (S and Sinv are mutually
   inverse as actions on points) is the oracle contract of numpy.linalg.inv
   and is re-validated for every case by the correspondence (Exec.inv_check).

   preimage_of n S w p :=  length p = n /\ S p = w /\ forall q, length q = n -> S q = w -> q = p
   i.e. p is THE source-voxel position whose world position is w. *)
From Coq Require Import String.
From Coq Require Import List Arith Lia Bool ZArith Ring.
From NV.Lib Require Import RingMat.
From NV.C01 Require Import Model.
From Coq Require Import QArith Qcanon.
From NV.C04 Require Import Model Proofs1 Proofs2 Exec ModelSwap Proofs3.
From Coq Require Import Permutation.
Close Scope Q_scope.
Close Scope Qc_scope.
Import ListNotations.

(* ================================================================== (1) the sampled point, per entry point *)

(* algorithms/resample.py `resample`, mapping given as (A,b) tuple, homogeneous
   matrix or AffineTransform: whenever the construction succeeds, the result
   carries the target map and the (matrix, offset) handed to affine_transform
   sends every target voxel v to the unique source voxel position p with
   S p = T (G v)   (G target map, T world-to-world mapping, S source map). *)
Theorem resample_samples_mapped_point :
  forall (R : Type) (r0 r1 : R) (radd rmul rsub : R -> R -> R) (ropp : R -> R)
         (Rth : ring_theory r0 r1 radd rmul rsub ropp (@eq R)) (reqb : R -> R -> bool)
         (icm target : aff R) (m : mapping R) (Sinv : list (list R))
         (out : aff R) (A : list (list R)) (b : list R) (nt nw ns : nat) (v : list R),
    resample_affine R r0 r1 radd rmul reqb icm target m Sinv = Ok (out, (A, b)) ->
    cs_ndim (adom target) = nt ->
    wf_aff r0 r1 nw nt (amat target) ->
    wf_aff r0 r1 ns nw (mapping_matrix R r0 r1 m) ->
    wf_aff r0 r1 ns ns Sinv ->
    inv_pair R r0 r1 radd rmul ns (amat icm) Sinv ->
    length v = nt ->
    out = target /\
    preimage_of R r0 r1 radd rmul ns (amat icm)
      (happly r0 r1 radd rmul (mapping_matrix R r0 r1 m) (happly r0 r1 radd rmul (amat target) v))
      (sample_point R r0 radd rmul A b v).
Proof. exact resample_samples. Qed.
Print Assumptions resample_samples_mapped_point.

(* every (A, b) tuple form of `mapping`, whatever the dtypes of A and b, denotes
   x |-> A x + b  (since 11fc3b1 an integer-typed A is cast to result_type(A, b)
   before nibabel's from_matvec, so a fractional b is kept) *)
Theorem resample_tuple_mapping_is_Ax_plus_b :
  forall (R : Type) (r0 r1 : R) (radd rmul rsub : R -> R -> R) (ropp : R -> R)
         (Rth : ring_theory r0 r1 radd rmul rsub ropp (@eq R))
         (n : nat) (A : list (list R)) (b x : list R) (adt bdt : nat),
    length A = n -> length b = n -> rows_len n A -> 0 < n -> length x = n ->
    happly r0 r1 radd rmul (mapping_matrix R r0 r1 (MapTuple A b adt bdt)) x
    = vadd radd (mv r0 radd rmul A x) b.
Proof. exact tuple_mapping_action. Qed.
Print Assumptions resample_tuple_mapping_is_Ax_plus_b.

(* non-vacuity of the former failure case: integer-typed A = I, b = (1/2, 0) *)
Example resample_tuple_int_matrix_keeps_fraction :
  qv_eqb (happly q0 q1 Qcplus Qcmult (mapping_matrix Qc q0 q1 (MapTuple [[q1; q0]; [q0; q1]] [qc 1 2; q0] 0 1)) [q0; q0])
         [qc 1 2; q0] = true.
Proof. vm_compute. reflexivity. Qed.

(* resample_img2img: identity world map; the sampled point is S^-1 (G v) *)
Theorem resample_img2img_samples_mapped_point :
  forall (R : Type) (r0 r1 : R) (radd rmul rsub : R -> R -> R) (ropp : R -> R)
         (Rth : ring_theory r0 r1 radd rmul rsub ropp (@eq R)) (reqb : R -> R -> bool)
         (scm tcm : aff R) (Sinv : list (list R)) (out : aff R) (A : list (list R))
         (b : list R) (nt nw : nat) (v : list R),
    resample_img2img R r0 r1 radd rmul reqb scm tcm Sinv = Ok (out, (A, b)) ->
    cs_ndim (adom tcm) = nt -> cs_ndim (arng scm) = nw ->
    wf_aff r0 r1 nw nt (amat tcm) -> wf_aff r0 r1 nw nw Sinv ->
    inv_pair R r0 r1 radd rmul nw (amat scm) Sinv ->
    length v = nt ->
    out = tcm /\
    preimage_of R r0 r1 radd rmul nw (amat scm) (happly r0 r1 radd rmul (amat tcm) v)
                (sample_point R r0 radd rmul A b v).
Proof. exact resample_img2img_samples. Qed.
Print Assumptions resample_img2img_samples_mapped_point.

(* ImageInterpolator.evaluate: the coordinate handed to map_coordinates,
   minus the pre-pad, is the S-preimage of the world point p (the padded
   array holds source voxel z at index z + pad). *)
Theorem interpolator_samples_mapped_point :
  forall (R : Type) (r0 r1 : R) (radd rmul rsub : R -> R -> R) (ropp : R -> R)
         (Rth : ring_theory r0 r1 radd rmul rsub ropp (@eq R))
         (n : nat) (S Sinv : list (list R)) (pad : R) (p : list R),
    wf_aff r0 r1 n n Sinv -> inv_pair R r0 r1 radd rmul n S Sinv -> length p = n ->
    preimage_of R r0 r1 radd rmul n S p
      (map (fun c : R => rsub c pad) (interp_coords R r0 r1 radd rmul Sinv pad p)).
Proof. exact interp_coords_samples. Qed.
Print Assumptions interpolator_samples_mapped_point.

(* registration.resample (affine case): for every combination of the
   ref_voxel_coords / mov_voxel_coords flags, the Tv handed to the sampler
   sends reference voxel v to the unique moving-voxel position p with
   Ma p = W (Ra v), W the world map that the transform denotes under those flags. *)
Theorem registration_resample_samples_mapped_point :
  forall (R : Type) (r0 r1 : R) (radd rmul rsub : R -> R -> R) (ropp : R -> R)
         (Rth : ring_theory r0 r1 radd rmul rsub ropp (@eq R))
         (T Ra Ri Ma Mi : list (list R)) (rv mv_ : bool) (v : list R),
    wf_aff r0 r1 3 3 T -> wf_aff r0 r1 3 3 Ra -> wf_aff r0 r1 3 3 Ri ->
    wf_aff r0 r1 3 3 Ma -> wf_aff r0 r1 3 3 Mi ->
    inv_pair R r0 r1 radd rmul 3 Ra Ri -> inv_pair R r0 r1 radd rmul 3 Ma Mi ->
    length v = 3 ->
    preimage_of R r0 r1 radd rmul 3 Ma
      (reg_world R r0 r1 radd rmul T Ma Ri rv mv_ (happly r0 r1 radd rmul Ra v))
      (happly r0 r1 radd rmul (reg_tv R r0 radd rmul T Ra Mi rv mv_) v).
Proof. exact reg_samples. Qed.
Print Assumptions registration_resample_samples_mapped_point.

(* the four voxel/world flag combinations denote the same map *)
Theorem flags_consistent :
  forall (R : Type) (r0 r1 : R) (radd rmul rsub : R -> R -> R) (ropp : R -> R)
         (Rth : ring_theory r0 r1 radd rmul rsub ropp (@eq R))
         (W Ra Mi : list (list R)) (v : list R),
    wf_aff r0 r1 3 3 W -> wf_aff r0 r1 3 3 Ra -> wf_aff r0 r1 3 3 Mi -> length v = 3 ->
    let p := happly r0 r1 radd rmul Mi (happly r0 r1 radd rmul W (happly r0 r1 radd rmul Ra v)) in
    happly r0 r1 radd rmul (reg_tv R r0 radd rmul W Ra Mi false false) v = p /\
    happly r0 r1 radd rmul (reg_tv R r0 radd rmul (mm r0 radd rmul 4 W Ra) Ra Mi true false) v = p /\
    happly r0 r1 radd rmul (reg_tv R r0 radd rmul (mm r0 radd rmul 4 Mi W) Ra Mi false true) v = p /\
    happly r0 r1 radd rmul
      (reg_tv R r0 radd rmul (mm r0 radd rmul 4 Mi (mm r0 radd rmul 4 W Ra)) Ra Mi true true) v = p.
Proof. exact reg_flags_consistent. Qed.
Print Assumptions flags_consistent.

(* fast cubic-spline path and generic ndimage path are handed the same point:
   (Tv[0:3,0:3], Tv[0:3,3]) acts as Tv.  Partial: equality of the VALUES the two
   samplers return rests on the spline oracles (C16's subject). *)
Theorem cspline_shortcut_same_point_partial :
  forall (R : Type) (r0 r1 : R) (radd rmul rsub : R -> R -> R) (ropp : R -> R)
         (Rth : ring_theory r0 r1 radd rmul rsub ropp (@eq R))
         (Tv : list (list R)) (v : list R),
    wf_aff r0 r1 3 3 Tv -> length v = 3 ->
    sample_point R r0 radd rmul (fst (reg_generic_args R r0 Tv)) (snd (reg_generic_args R r0 Tv)) v
    = happly r0 r1 radd rmul Tv v.
Proof. exact reg_generic_point. Qed.
Print Assumptions cspline_shortcut_same_point_partial.

(* Realign4dAlgorithm.resample / scanner_coords with the identity transform
   samples every grid point at itself *)
Theorem realign4d_identity_samples_itself :
  forall (R : Type) (r0 r1 : R) (radd rmul rsub : R -> R -> R) (ropp : R -> R)
         (Rth : ring_theory r0 r1 radd rmul rsub ropp (@eq R))
         (Fw Tw : list (list R)) (v : list R),
    wf_aff r0 r1 3 3 Fw -> wf_aff r0 r1 3 3 Tw -> inv_pair R r0 r1 radd rmul 3 Tw Fw -> length v = 3 ->
    happly r0 r1 radd rmul (scanner_tv R r0 radd rmul Fw (mid r0 r1 4) Tw) v = v.
Proof. exact scanner_identity. Qed.
Print Assumptions realign4d_identity_samples_itself.

(* VolumeImg.as_volume_img (4x4 affine): in BOTH branches - A diagonal, handed
   to affine_transform as a 1-D matrix, or full A - the offset is b (af693d9) and
   the sampled point is the preimage of G v under the image's own affine. *)
Theorem as_volume_img_samples_mapped_point :
  forall (R : Type) (r0 r1 : R) (radd rmul rsub : R -> R -> R) (ropp : R -> R)
         (Rth : ring_theory r0 r1 radd rmul rsub ropp (@eq R)) (reqb : R -> R -> bool),
    (forall x y : R, reqb x y = true -> x = y) ->
    forall (S0 G Sinv : list (list R)) (v : list R),
    wf_aff r0 r1 3 3 S0 -> wf_aff r0 r1 3 3 G -> wf_aff r0 r1 3 3 Sinv ->
    inv_pair R r0 r1 radd rmul 3 S0 Sinv -> length v = 3 ->
    preimage_of R r0 r1 radd rmul 3 S0 (happly r0 r1 radd rmul G v)
      (avi_sample_point R r0 radd rmul (avi_sampler_args R r0 r1 radd rmul reqb S0 G Sinv) v).
Proof. exact avi_samples. Qed.
Print Assumptions as_volume_img_samples_mapped_point.

(* non-vacuity, the former failure case: self.affine = I, target = flip of x with
   offset 3 (diagonal branch): voxel (0,0,0) samples source voxel (3,0,0) *)
Example as_volume_img_diag_flip_example :
  avi_sampler_args Z 0%Z 1%Z Z.add Z.mul Z.eqb (mid 0%Z 1%Z 4)
                   [[-1;0;0;3];[0;1;0;0];[0;0;1;0];[0;0;0;1]]%Z (mid 0%Z 1%Z 4)
  = (SDiag [-1;1;1]%Z, [3;0;0]%Z)
  /\ avi_sample_point Z 0%Z Z.add Z.mul (SDiag [-1;1;1]%Z, [3;0;0]%Z) [0;0;0]%Z = [3;0;0]%Z.
Proof. vm_compute. split; reflexivity. Qed.

(* VolumeImg.xyz_ordered, flip step (1ef8ed7): for EVERY axis, flipped or not,
   the datum shown at new index i keeps its world coordinate; the new pixdim is
   -p exactly when the axis was reversed. *)
Theorem xyz_ordered_flip_preserves_world :
  forall (R : Type) (r0 r1 : R) (radd rmul rsub : R -> R -> R) (ropp : R -> R)
         (Rth : ring_theory r0 r1 radd rmul rsub ropp (@eq R)) (rneg : R -> bool) (p b nm1 i : R),
    let '(p', b', f) := xyz_flip_axis R radd rmul ropp rneg p b nm1 in
    axis_world R radd rmul p' b' i = axis_world R radd rmul p b (xyz_old_index R rsub f nm1 i).
Proof. exact xyz_flip_preserves. Qed.
Print Assumptions xyz_ordered_flip_preserves_world.

Theorem xyz_ordered_flip_pixdim :
  forall (R : Type) (radd rmul : R -> R -> R) (ropp : R -> R) (rneg : R -> bool) (p b nm1 : R),
    let '(p', b', f) := xyz_flip_axis R radd rmul ropp rneg p b nm1 in
    f = rneg p /\ p' = (if f then ropp p else p).
Proof. exact xyz_flip_pixdim. Qed.
Print Assumptions xyz_ordered_flip_pixdim.

(* non-vacuity, the former failure case: y axis, pixdim -1, offset 4, 5 voxels *)
Example xyz_ordered_flip_example :
  xyz_flip_axis Z Z.add Z.mul Z.opp (fun x => Z.ltb x 0) (-1)%Z 4%Z 4%Z = (1%Z, 0%Z, true).
Proof. vm_compute. reflexivity. Qed.

(* VolumeImg.xyz_ordered, axis-swap loop (volume_img.py:270-275, model ModelSwap.swap_loop):
   for a state list of ANY length with ARBITRARY keys (axis_numbers), the while loop
   terminates - every recursion bound >= the number of inversions gives a result -, the body
   (`_swapaxes(first_inversion+1, first_inversion)`) runs exactly inv_count times, the final
   axis_numbers are non-decreasing and the final state is a rearrangement of the initial
   (column, data axis) pairs. *)
Theorem xyz_swap_loop_terminates_sorted :
  forall (X : Type) (key : X -> nat) (fuel : nat) (l : list X),
    inv_count key l <= fuel ->
    exists r tr, swap_loop key fuel l = Some (r, tr) /\
                 sortedb (map key r) = true /\ Permutation l r /\ length tr = inv_count key l.
Proof. exact @swap_loop_terminates. Qed.
Print Assumptions xyz_swap_loop_terminates_sorted.

(* ... and length^2 is such a bound (the bound the correspondence uses) *)
Theorem xyz_swap_loop_terminates_within_square :
  forall (X : Type) (key : X -> nat) (l : list X),
    exists r tr, swap_loop key (length l * length l) l = Some (r, tr) /\
                 sortedb (map key r) = true /\ Permutation l r /\ length tr = inv_count key l.
Proof. exact @swap_loop_terminates_sq. Qed.
Print Assumptions xyz_swap_loop_terminates_within_square.

(* the whole loop (any number of swaps, any number of axes, any key function, any ring) keeps
   the world position of every datum: with j a = index of the datum along ORIGINAL data axis a,
   the new affine columns applied to the index under which the permuted array shows that datum
   (position k holds j(axis_k)) give, in every world row, what the original columns gave at j. *)
Theorem xyz_swap_loop_preserves_world :
  forall (R : Type) (r0 r1 : R) (radd rmul rsub : R -> R -> R) (ropp : R -> R)
         (Rth : ring_theory r0 r1 radd rmul rsub ropp (@eq R))
         (key : list R * nat -> nat) (fuel : nat) (cols : list (list R)) (r : state R) (tr : list nat),
    swap_loop key fuel (init_state R cols) = Some (r, tr) ->
    forall (row : nat) (brow : R) (j : nat -> R),
      (radd (lin_coord_new R r0 radd rmul row (map fst r) (new_index R r j)) brow)
      = (radd (lin_coord_new R r0 radd rmul row cols (map j (seq 0 (length cols)))) brow).
Proof. exact swap_loop_preserves_world. Qed.
Print Assumptions xyz_swap_loop_preserves_world.

(* non-vacuity: world axes (z, x, y) on data axes (0, 1, 2): axis_numbers [2;0;1], two swaps
   (first inversions 0 then 1), final columns in x, y, z order showing data axes 1, 2, 0;
   a loop that is given too little fuel does not return *)
Example xyz_swap_loop_example :
  swap_loop (fun ca : list Z * nat => match fst ca with [a;b;_] => if Z.eqb a 0 then (if Z.eqb b 0 then 2 else 1) else 0 | _ => 0 end) 9
            (init_state Z [[0;0;2];[-1;0;0];[0;3;0]]%Z)
  = Some ([([-1;0;0]%Z, 1); ([0;3;0]%Z, 2); ([0;0;2]%Z, 0)], [0; 1])
  /\ swap_loop (fun n : nat => n) 1 [2; 0; 1] = None
  /\ inv_count (fun n : nat => n) [2; 0; 1] = 2.
Proof. vm_compute. repeat split; reflexivity. Qed.

(* ================================================================== (2) consequences under the interpolation-oracle contract
   interp o m c p : value the external sampler returns at source-voxel
   position p (order o, boundary mode m, fill value c) for the source array
   `src`.  Contract (hypotheses; sampled by the harness, never proved):
     lattice   exact at in-bounds lattice points, every order;
     cval      'constant' mode returns c at positions outside the field of view;
     linear    order 1 reproduces data that is affine in voxel position,
               inside the hull of the lattice.
   The theorems are stated for any sampler call whose point is the preimage
   (so they apply to every entry point above) and, spelled out, for `resample`. *)

Theorem grid_to_grid_exact :
  forall (R : Type) (r0 r1 : R) (radd rmul rsub : R -> R -> R) (ropp : R -> R)
         (Rth : ring_theory r0 r1 radd rmul rsub ropp (@eq R)) (reqb : R -> R -> bool)
         (inj : Z -> R) (src : list Z -> R) (inb : list Z -> Prop)
         (interp : nat -> bmode -> R -> list R -> R),
    (forall o m c z, inb z -> interp o m c (map inj z) = src z) ->
    forall (icm target : aff R) (m : mapping R) (Sinv : list (list R))
           (out : aff R) (A : list (list R)) (b : list R) (nt nw ns : nat) (v : list R)
           (o : nat) (bm : bmode) (c : R) (z : list Z),
    resample_affine R r0 r1 radd rmul reqb icm target m Sinv = Ok (out, (A, b)) ->
    cs_ndim (adom target) = nt ->
    wf_aff r0 r1 nw nt (amat target) -> wf_aff r0 r1 ns nw (mapping_matrix R r0 r1 m) ->
    wf_aff r0 r1 ns ns Sinv -> inv_pair R r0 r1 radd rmul ns (amat icm) Sinv ->
    length v = nt ->
    (* the mapped world point of v is the world position of in-bounds source voxel z *)
    inb z -> length z = ns ->
    happly r0 r1 radd rmul (amat icm) (map inj z)
    = happly r0 r1 radd rmul (mapping_matrix R r0 r1 m) (happly r0 r1 radd rmul (amat target) v) ->
    interp o bm c (sample_point R r0 radd rmul A b v) = src z.
Proof.
  intros R r0 r1 radd rmul rsub ropp Rth reqb inj src inb interp HL icm target m Sinv out A b nt nw ns v
         o bm c z E Hnt HG HT HSi Hinv Hv Hz Lz Ew.
  destruct (resample_samples R r0 r1 radd rmul rsub ropp Rth reqb icm target m Sinv out A b nt nw ns v
              E Hnt HG HT HSi Hinv Hv) as [_ P].
  exact (sampled_grid_exact R r0 r1 radd rmul inj ns src inb interp HL _ _ _ o bm c z P Hz Lz Ew).
Qed.
Print Assumptions grid_to_grid_exact.

Theorem outside_gets_cval :
  forall (R : Type) (r0 r1 : R) (radd rmul rsub : R -> R -> R) (ropp : R -> R)
         (Rth : ring_theory r0 r1 radd rmul rsub ropp (@eq R)) (reqb : R -> R -> bool)
         (outside : list R -> Prop) (interp : nat -> bmode -> R -> list R -> R),
    (forall o c p, outside p -> interp o MConstant c p = c) ->
    forall (icm target : aff R) (m : mapping R) (Sinv : list (list R))
           (out : aff R) (A : list (list R)) (b : list R) (nt nw ns : nat) (v : list R)
           (o : nat) (c : R),
    resample_affine R r0 r1 radd rmul reqb icm target m Sinv = Ok (out, (A, b)) ->
    cs_ndim (adom target) = nt ->
    wf_aff r0 r1 nw nt (amat target) -> wf_aff r0 r1 ns nw (mapping_matrix R r0 r1 m) ->
    wf_aff r0 r1 ns ns Sinv -> inv_pair R r0 r1 radd rmul ns (amat icm) Sinv ->
    length v = nt ->
    (* every source position whose world position is the mapped point lies outside the field of view *)
    (forall q, length q = ns ->
       happly r0 r1 radd rmul (amat icm) q
       = happly r0 r1 radd rmul (mapping_matrix R r0 r1 m) (happly r0 r1 radd rmul (amat target) v) ->
       outside q) ->
    interp o MConstant c (sample_point R r0 radd rmul A b v) = c.
Proof.
  intros R r0 r1 radd rmul rsub ropp Rth reqb outside interp HC icm target m Sinv out A b nt nw ns v
         o c E Hnt HG HT HSi Hinv Hv Ho.
  destruct (resample_samples R r0 r1 radd rmul rsub ropp Rth reqb icm target m Sinv out A b nt nw ns v
              E Hnt HG HT HSi Hinv Hv) as [_ P].
  exact (sampled_outside_cval R r0 r1 radd rmul ns outside interp HC _ _ _ o c P Ho).
Qed.
Print Assumptions outside_gets_cval.

Theorem linear_reproduces_affine_field :
  forall (R : Type) (r0 r1 : R) (radd rmul rsub : R -> R -> R) (ropp : R -> R)
         (Rth : ring_theory r0 r1 radd rmul rsub ropp (@eq R)) (reqb : R -> R -> bool)
         (inj : Z -> R) (ns : nat) (src : list Z -> R) (inb : list Z -> Prop)
         (inside : list R -> Prop) (interp : nat -> bmode -> R -> list R -> R),
    (forall bm c (Gm : list (list R)), wf_aff r0 r1 1 ns Gm ->
       (forall z, inb z -> length z = ns -> happly r0 r1 radd rmul Gm (map inj z) = [src z]) ->
       forall p, length p = ns -> inside p -> [interp 1 bm c p] = happly r0 r1 radd rmul Gm p) ->
    forall (icm target : aff R) (m : mapping R) (Sinv F : list (list R))
           (out : aff R) (A : list (list R)) (b : list R) (nt nw : nat) (v : list R)
           (bm : bmode) (c : R),
    resample_affine R r0 r1 radd rmul reqb icm target m Sinv = Ok (out, (A, b)) ->
    cs_ndim (adom target) = nt ->
    wf_aff r0 r1 nw nt (amat target) -> wf_aff r0 r1 ns nw (mapping_matrix R r0 r1 m) ->
    wf_aff r0 r1 ns ns Sinv -> wf_aff r0 r1 ns ns (amat icm) ->
    inv_pair R r0 r1 radd rmul ns (amat icm) Sinv ->
    length v = nt ->
    (* the intensity is the affine function F of world position *)
    wf_aff r0 r1 1 ns F ->
    (forall z, inb z -> length z = ns ->
       [src z] = happly r0 r1 radd rmul F (happly r0 r1 radd rmul (amat icm) (map inj z))) ->
    inside (sample_point R r0 radd rmul A b v) ->
    [interp 1 bm c (sample_point R r0 radd rmul A b v)]
    = happly r0 r1 radd rmul F
        (happly r0 r1 radd rmul (mapping_matrix R r0 r1 m) (happly r0 r1 radd rmul (amat target) v)).
Proof.
  intros R r0 r1 radd rmul rsub ropp Rth reqb inj ns src inb inside interp HLin icm target m Sinv F out A b
         nt nw v bm c E Hnt HG HT HSi HS Hinv Hv HF Hsrc Hin.
  destruct (resample_samples R r0 r1 radd rmul rsub ropp Rth reqb icm target m Sinv out A b nt nw ns v
              E Hnt HG HT HSi Hinv Hv) as [_ P].
  exact (sampled_linear_field R r0 r1 radd rmul rsub ropp Rth inj ns src inb inside interp HLin
           (amat icm) F _ _ ns bm c HS HF P Hsrc Hin).
Qed.
Print Assumptions linear_reproduces_affine_field.

(* the same three consequences for ANY entry point: they only use that the
   sampled point is the preimage (conclusion of every theorem of part 1) *)
Theorem any_entry_point_grid_exact :
  forall (R : Type) (r0 r1 : R) (radd rmul : R -> R -> R) (inj : Z -> R) (ns : nat)
         (src : list Z -> R) (inb : list Z -> Prop) (interp : nat -> bmode -> R -> list R -> R),
    (forall o m c z, inb z -> interp o m c (map inj z) = src z) ->
    forall (S : list (list R)) (w p : list R) o m c z,
    preimage_of R r0 r1 radd rmul ns S w p -> inb z -> length z = ns ->
    happly r0 r1 radd rmul S (map inj z) = w ->
    interp o m c p = src z.
Proof. exact sampled_grid_exact. Qed.
Print Assumptions any_entry_point_grid_exact.

Theorem any_entry_point_linear_field :
  forall (R : Type) (r0 r1 : R) (radd rmul rsub : R -> R -> R) (ropp : R -> R)
         (Rth : ring_theory r0 r1 radd rmul rsub ropp (@eq R))
         (inj : Z -> R) (ns : nat) (src : list Z -> R) (inb : list Z -> Prop)
         (inside : list R -> Prop) (interp : nat -> bmode -> R -> list R -> R),
    (forall m c (Gm : list (list R)), wf_aff r0 r1 1 ns Gm ->
       (forall z, inb z -> length z = ns -> happly r0 r1 radd rmul Gm (map inj z) = [src z]) ->
       forall p, length p = ns -> inside p -> [interp 1 m c p] = happly r0 r1 radd rmul Gm p) ->
    forall (S0 F : list (list R)) (w p : list R) (nw : nat) m c,
    wf_aff r0 r1 nw ns S0 -> wf_aff r0 r1 1 nw F ->
    preimage_of R r0 r1 radd rmul ns S0 w p ->
    (forall z, inb z -> length z = ns ->
       [src z] = happly r0 r1 radd rmul F (happly r0 r1 radd rmul S0 (map inj z))) ->
    inside p ->
    [interp 1 m c p] = happly r0 r1 radd rmul F w.
Proof. exact sampled_linear_field. Qed.
Print Assumptions any_entry_point_linear_field.

(* ================================================================== non-vacuity *)
(* a 2-D image with source map S = [[2,0,1],[0,-1,3]] (names i,j -> x,y), target
   with permuted voxel axes, mapping = shift by (2,-1): the model succeeds and
   hands integer (matrix, offset) to the sampler *)
Local Open Scope string_scope.
Example resample_example :
  let cs := fun names nm => {| cnames := names; cname := nm; cdt := 1 |} in
  let icm := Build_aff (cs ["i";"j"] "vox") (cs ["x";"y"] "world") [[2;0;1];[0;-1;3];[0;0;1]]%Z in
  let tgt := Build_aff (cs ["j";"i"] "tvox") (cs ["x";"y"] "world") [[0;2;-1];[1;0;2];[0;0;1]]%Z in
  resample_affine Z 0%Z 1%Z Z.add Z.mul Z.eqb icm tgt (MapTuple [[1;0];[0;1]]%Z [2;-1]%Z 1 1)
                  [[1;0;-1];[0;-2;6];[0;0;2]]%Z
  = Err EValue
  /\
  let icm1 := Build_aff (cs ["i";"j"] "vox") (cs ["x";"y"] "world") [[1;0;1];[0;-1;3];[0;0;1]]%Z in
  resample_affine Z 0%Z 1%Z Z.add Z.mul Z.eqb icm1 tgt (MapTuple [[1;0];[0;1]]%Z [2;-1]%Z 1 1)
                  [[1;0;-1];[0;-1;3];[0;0;1]]%Z
  = Ok (tgt, ([[0;2];[-1;0]]%Z, [0;2]%Z)).
Proof. vm_compute. split; reflexivity. Qed.
