(* C04 - proofs about the axis-swap loop of VolumeImg.xyz_ordered (ModelSwap.v):
   termination after exactly inv_count swaps with a sorted result, and
   preservation of the world position of every datum.  All statements are for
   lists of any length and arbitrary keys (no bound, no enumeration). *)
From Coq Require Import List Arith Lia Bool Permutation Ring.
From NV.C04 Require Import ModelSwap.
Import ListNotations.

Section SwapLoopProofs.
  Context {X : Type}.
  Variable key : X -> nat.

  Lemma swap_adj_perm (k : nat) (l : list X) : Permutation l (swap_adj k l).
  Proof.
    revert l. induction k as [|k IH]; intros l.
    - destruct l as [|a [|b t]]; cbn; try apply Permutation_refl. apply perm_swap.
    - destruct l as [|a t]; cbn; [apply Permutation_refl|]. apply perm_skip, IH.
  Qed.

  Lemma swap_adj_length (k : nat) (l : list X) : length (swap_adj k l) = length l.
  Proof. symmetry. apply Permutation_length, swap_adj_perm. Qed.

  Lemma count_lt_swap_adj (a k : nat) (l : list X) : count_lt key a (swap_adj k l) = count_lt key a l.
  Proof.
    revert l. induction k as [|k IH]; intros l.
    - destruct l as [|x [|y t]]; cbn; lia.
    - destruct l as [|x t]; cbn; [reflexivity|]. rewrite IH. reflexivity.
  Qed.

  Lemma count_lt_mono (a b : nat) (l : list X) : a <= b -> count_lt key a l <= count_lt key b l.
  Proof.
    intros Hab. induction l as [|x t IH]; cbn [count_lt]; [lia|].
    destruct (Nat.ltb_spec (key x) a) as [E1|E1]; destruct (Nat.ltb_spec (key x) b) as [E2|E2]; lia.
  Qed.

  Lemma count_lt_le_length (a : nat) (l : list X) : count_lt key a l <= length l.
  Proof. induction l as [|x t IH]; cbn [count_lt length]; [lia|]. destruct (Nat.ltb (key x) a); lia. Qed.

  Lemma inv_count_bound (l : list X) : inv_count key l <= length l * length l.
  Proof.
    induction l as [|x t IH]; cbn [inv_count length]; [lia|].
    pose proof (count_lt_le_length (key x) t). nia.
  Qed.

  (* one step: swapping at the first inversion removes exactly one inversion *)
  Lemma step_decreases (l : list X) (k : nat) :
    find_true (diff_neg (map key l)) = Some k ->
    inv_count key (swap_adj k l) + 1 = inv_count key l.
  Proof.
    revert k. induction l as [|a l IH]; intros k Hk; [discriminate|].
    destruct l as [|b t]; [discriminate|].
    change (map key (a :: b :: t)) with (key a :: key b :: map key t) in Hk.
    change (diff_neg (key a :: key b :: map key t))
      with (Nat.ltb (key b) (key a) :: diff_neg (map key (b :: t))) in Hk.
    cbn [find_true] in Hk.
    destruct (Nat.ltb (key b) (key a)) eqn:E.
    - injection Hk as <-. cbn [swap_adj inv_count count_lt].
      rewrite E. apply Nat.ltb_lt in E.
      assert (E2 : Nat.ltb (key a) (key b) = false) by (apply Nat.ltb_ge; lia).
      rewrite E2. lia.
    - destruct (find_true (diff_neg (map key (b :: t)))) as [k'|] eqn:F; [|discriminate].
      cbn in Hk. injection Hk as <-.
      specialize (IH k' eq_refl).
      change (swap_adj (S k') (a :: b :: t)) with (a :: swap_adj k' (b :: t)).
      cbn [inv_count]. rewrite count_lt_swap_adj.
      cbn [inv_count] in IH. lia.
  Qed.

  Lemma unsorted_has_inversion (l : list X) :
    sortedb (map key l) = false -> exists k, find_true (diff_neg (map key l)) = Some k.
  Proof.
    induction l as [|a l IH]; intros H; [discriminate|].
    destruct l as [|b t]; [discriminate|].
    change (map key (a :: b :: t)) with (key a :: key b :: map key t) in *.
    change (sortedb (key a :: key b :: map key t))
      with (Nat.leb (key a) (key b) && sortedb (map key (b :: t))) in H.
    change (diff_neg (key a :: key b :: map key t))
      with (Nat.ltb (key b) (key a) :: diff_neg (map key (b :: t))).
    cbn [find_true].
    destruct (Nat.ltb (key b) (key a)) eqn:E; [exists 0; reflexivity|].
    apply Nat.ltb_ge in E. apply Nat.leb_le in E. rewrite E in H. cbn in H.
    destruct (IH H) as [k Hk]. rewrite Hk. exists (S k). reflexivity.
  Qed.

  Lemma first_inversion_spec (l : list X) :
    sortedb (map key l) = false ->
    find_true (diff_neg (map key l)) = Some (first_inversion (map key l)).
  Proof.
    intros H. destruct (unsorted_has_inversion l H) as [k Hk].
    unfold first_inversion, argmax_bool. rewrite Hk. reflexivity.
  Qed.

  Lemma sorted_head_count (a : X) (t : list X) :
    sortedb (map key (a :: t)) = true -> count_lt key (key a) t = 0.
  Proof.
    revert a. induction t as [|b t IH]; intros a H; [reflexivity|].
    change (map key (a :: b :: t)) with (key a :: key b :: map key t) in H.
    change (sortedb (key a :: key b :: map key t))
      with (Nat.leb (key a) (key b) && sortedb (map key (b :: t))) in H.
    apply andb_true_iff in H. destruct H as [H1 H2]. apply Nat.leb_le in H1.
    cbn [count_lt].
    assert (E : Nat.ltb (key b) (key a) = false) by (apply Nat.ltb_ge; lia).
    rewrite E. pose proof (count_lt_mono (key a) (key b) t H1). rewrite (IH b H2) in H. lia.
  Qed.

  Lemma sorted_tail (a : X) (t : list X) :
    sortedb (map key (a :: t)) = true -> sortedb (map key t) = true.
  Proof.
    destruct t as [|b t]; intros H; [reflexivity|].
    change (map key (a :: b :: t)) with (key a :: key b :: map key t) in H.
    change (sortedb (key a :: key b :: map key t))
      with (Nat.leb (key a) (key b) && sortedb (map key (b :: t))) in H.
    apply andb_true_iff in H. tauto.
  Qed.

  Lemma sorted_no_inversions (l : list X) : sortedb (map key l) = true -> inv_count key l = 0.
  Proof.
    induction l as [|a t IH]; intros H; [reflexivity|].
    cbn [inv_count]. rewrite (sorted_head_count a t H), (IH (sorted_tail a t H)). reflexivity.
  Qed.

  (* whatever the fuel: a returned state is sorted and a rearrangement of the input *)
  Lemma swap_loop_sound (fuel : nat) : forall (l r : list X) (tr : list nat),
    swap_loop key fuel l = Some (r, tr) ->
    sortedb (map key r) = true /\ Permutation l r.
  Proof.
    induction fuel as [|f IH]; intros l r tr H; cbn [swap_loop] in H.
    - destruct (sortedb (map key l)) eqn:S; [|discriminate].
      injection H as <- <-. split; [exact S|apply Permutation_refl].
    - destruct (sortedb (map key l)) eqn:S.
      + injection H as <- <-. split; [exact S|apply Permutation_refl].
      + destruct (swap_loop key f (swap_adj (first_inversion (map key l)) l)) as [[r' tr']|] eqn:L; [|discriminate].
        injection H as <- <-. destruct (IH _ _ _ L) as [A B]. split; [exact A|].
        eapply Permutation_trans; [apply swap_adj_perm|exact B].
  Qed.

  (* termination: any fuel >= inv_count suffices, and the loop body runs exactly inv_count times *)
  Lemma swap_loop_terminates (fuel : nat) : forall (l : list X),
    inv_count key l <= fuel ->
    exists r tr, swap_loop key fuel l = Some (r, tr) /\
                 sortedb (map key r) = true /\ Permutation l r /\ length tr = inv_count key l.
  Proof.
    induction fuel as [|f IH]; intros l Hf.
    - cbn [swap_loop]. destruct (sortedb (map key l)) eqn:S.
      + exists l, []. repeat split; [exact S|apply Permutation_refl|].
        rewrite (sorted_no_inversions l S). reflexivity.
      + pose proof (step_decreases l _ (first_inversion_spec l S)). lia.
    - cbn [swap_loop]. destruct (sortedb (map key l)) eqn:S.
      + exists l, []. repeat split; [exact S|apply Permutation_refl|].
        rewrite (sorted_no_inversions l S). reflexivity.
      + pose proof (step_decreases l _ (first_inversion_spec l S)) as D.
        destruct (IH (swap_adj (first_inversion (map key l)) l)) as (r & tr & L & A & B & C); [lia|].
        rewrite L. exists r, (first_inversion (map key l) :: tr).
        repeat split; [exact A| |cbn [length]; lia].
        eapply Permutation_trans; [apply swap_adj_perm|exact B].
  Qed.

  Lemma swap_loop_terminates_sq (l : list X) :
    exists r tr, swap_loop key (length l * length l) l = Some (r, tr) /\
                 sortedb (map key r) = true /\ Permutation l r /\ length tr = inv_count key l.
  Proof. apply swap_loop_terminates, inv_count_bound. Qed.
End SwapLoopProofs.

Section WorldProofs.
  Variable R : Type.
  Variables (r0 r1 : R) (radd rmul rsub : R -> R -> R) (ropp : R -> R).
  Variable Rth : ring_theory r0 r1 radd rmul rsub ropp (@eq R).
  Add Ring RthRing3 : Rth.

  Lemma lin_coord_perm (row : nat) (j : nat -> R) (s t : state R) :
    Permutation s t -> lin_coord R r0 radd rmul row s j = lin_coord R r0 radd rmul row t j.
  Proof.
    intros P. induction P as [|[c a] s t P IH|[c a] [c' a'] s|s t u P1 IH1 P2 IH2]; cbn [lin_coord].
    - reflexivity.
    - rewrite IH. reflexivity.
    - ring.
    - rewrite IH1. exact IH2.
  Qed.

  Lemma lin_coord_new_state (row : nat) (j : nat -> R) (st : state R) :
    lin_coord_new R r0 radd rmul row (map fst st) (new_index R st j) = lin_coord R r0 radd rmul row st j.
  Proof.
    induction st as [|[c a] t IH]; [reflexivity|].
    cbn [map fst snd new_index lin_coord_new lin_coord]. unfold new_index in IH. rewrite IH. reflexivity.
  Qed.

  Lemma lin_coord_init (row : nat) (j : nat -> R) (cols : list (list R)) (s : nat) :
    lin_coord R r0 radd rmul row (combine cols (seq s (length cols))) j
    = lin_coord_new R r0 radd rmul row cols (map j (seq s (length cols))).
  Proof.
    revert s. induction cols as [|c t IH]; intros s; [reflexivity|].
    cbn [length seq combine map lin_coord lin_coord_new]. rewrite IH. reflexivity.
  Qed.

  (* the whole loop keeps the world coordinate of every datum *)
  Lemma swap_loop_preserves_world (key : list R * nat -> nat) (fuel : nat) (cols : list (list R))
        (r : state R) (tr : list nat) :
    swap_loop key fuel (init_state R cols) = Some (r, tr) ->
    forall (row : nat) (brow : R) (j : nat -> R),
      radd (lin_coord_new R r0 radd rmul row (map fst r) (new_index R r j)) brow
      = radd (lin_coord_new R r0 radd rmul row cols (map j (seq 0 (length cols)))) brow.
  Proof.
    intros H row brow j. destruct (swap_loop_sound key fuel _ _ _ H) as [_ P].
    rewrite lin_coord_new_state, <- (lin_coord_perm row j _ _ P).
    unfold init_state. rewrite lin_coord_init. reflexivity.
  Qed.
End WorldProofs.
