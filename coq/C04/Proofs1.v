(* C04 - lemmas, part 1: homogeneous matrices vs (matrix, offset), C01's
   compose on two maps, and the voxel-to-voxel map of algorithms/resample.py. *)
From Coq Require Import String.
From Coq Require Import List Arith Lia Bool ZArith Ring.
From NV.Lib Require Import RingMat.
From NV.C01 Require Import Model.
From NV.C04 Require Import Model.
Import ListNotations.

Section P1.
  Variable R : Type.
  Variables (r0 r1 : R) (radd rmul rsub : R -> R -> R) (ropp : R -> R).
  Hypothesis Rth : ring_theory r0 r1 radd rmul rsub ropp (@eq R).
  Add Ring Rr1 : Rth.
  Variable reqb : R -> R -> bool.

  Local Notation mat := (list (list R)).
  Local Notation vec := (list R).
  Local Notation Mid := (mid r0 r1).
  Local Notation Mm := (mm r0 radd rmul).
  Local Notation Mv := (mv r0 radd rmul).
  Local Notation Dot := (dot r0 radd rmul).
  Local Notation Happly := (happly r0 r1 radd rmul).
  Local Notation WfAff := (wf_aff r0 r1).
  Local Notation aff := (aff R).
  Local Notation Compose := (compose R r0 r1 radd rmul reqb).
  Local Notation MkAff := (mk_aff R r0 r1 reqb).
  Local Notation LinPart := (lin_part R).
  Local Notation TransPart := (trans_part R r0).
  Local Notation SamplePoint := (sample_point R r0 radd rmul).

  Let HMM := happly_mm R r0 r1 radd rmul rsub ropp Rth.
  Let MMWF := mm_wf_aff R r0 r1 radd rmul rsub ropp Rth.
  Let HMID := happly_mid R r0 r1 radd rmul rsub ropp Rth.

  (* ------------------------------------------------------------ to_matvec *)
  Lemma dot_row_hom (row x : vec) :
    length row = S (length x) ->
    Dot row (hom r1 x) = radd (Dot (removelast row) x) (last row r0).
  Proof.
    intros Hl.
    assert (Hne : row <> []) by (intros ->; discriminate).
    rewrite (app_removelast_last r0 Hne) at 1.
    unfold hom.
    rewrite (dot_app R r0 r1 radd rmul rsub ropp Rth).
    - simpl. ring.
    - assert (H2 : length row = length (removelast row) + 1).
      { rewrite (app_removelast_last r0 Hne) at 1. rewrite app_length. reflexivity. }
      lia.
  Qed.

  Lemma mv_top_matvec (top : mat) (x : vec) :
    rows_len (S (length x)) top ->
    Mv top (hom r1 x) =
    vadd radd (Mv (map (fun row => removelast row) top) x) (map (fun row => last row r0) top).
  Proof.
    induction top as [|row top IH]; intros Hr; [reflexivity|].
    inversion Hr as [|? ? Hrow Htop]; subst.
    cbn [mv map vadd]. fold (Mv top (hom r1 x)). fold (Mv (map (fun row => removelast row) top) x).
    rewrite IH by exact Htop. now rewrite dot_row_hom.
  Qed.

  (* a homogeneous matrix acts as  x |-> A x + b  with (A, b) = to_matvec H *)
  Lemma happly_matvec nout nin (H : mat) (x : vec) :
    WfAff nout nin H -> length x = nin ->
    Happly H x = SamplePoint (LinPart H) (TransPart H) x.
  Proof.
    intros [top [-> [Ht Hr]]] Hx. subst nin.
    unfold happly, lin_part, trans_part, top_rows, sample_point.
    rewrite removelast_last.
    unfold mv at 1. rewrite map_app. cbn [map]. rewrite removelast_last.
    fold (Mv top (hom r1 x)). now apply mv_top_matvec.
  Qed.

  (* ------------------------------------------------------------ from_matvec *)
  Lemma from_matvec_rows_len n (A : mat) (b : vec) :
    rows_len n A -> rows_len (S n) (from_matvec_rows R A b).
  Proof.
    revert b; induction A as [|row A IH]; intros [|bi b] Hr; try constructor.
    - inversion Hr as [|? ? Hrow HA]; subst. rewrite app_length. simpl. lia.
    - inversion Hr as [|? ? Hrow HA]; subst. now apply IH.
  Qed.

  Lemma from_matvec_rows_length (A : mat) (b : vec) :
    length A = length b -> length (from_matvec_rows R A b) = length b.
  Proof.
    revert b; induction A as [|row A IH]; intros [|bi b] Hl; simpl in *; try discriminate; auto.
  Qed.

  Lemma from_matvec_wf nout nin (A : mat) (b : vec) :
    length A = nout -> length b = nout -> rows_len nin A -> 0 < nout ->
    WfAff nout nin (from_matvec R r0 r1 A b).
  Proof.
    intros HA Hb Hr Hpos. exists (from_matvec_rows R A b). split; [|split].
    - unfold from_matvec. f_equal. f_equal. f_equal.
      destruct A as [|row A]; [simpl in HA; lia|]. inversion Hr; subst. reflexivity.
    - rewrite from_matvec_rows_length; lia.
    - now apply from_matvec_rows_len.
  Qed.

  Lemma from_matvec_rows_lin (A : mat) (b : vec) :
    length A = length b -> map (fun row => removelast row) (from_matvec_rows R A b) = A.
  Proof.
    revert b; induction A as [|row A IH]; intros [|bi b] Hl; simpl in Hl; try discriminate; [reflexivity|].
    cbn [from_matvec_rows map]. rewrite removelast_last. f_equal. apply IH. lia.
  Qed.

  Lemma from_matvec_rows_trans (A : mat) (b : vec) :
    length A = length b -> map (fun row => last row r0) (from_matvec_rows R A b) = b.
  Proof.
    revert b; induction A as [|row A IH]; intros [|bi b] Hl; simpl in Hl; try discriminate; [reflexivity|].
    cbn [from_matvec_rows map]. rewrite last_last. f_equal. apply IH. lia.
  Qed.

  (* the (A, b) tuple denotes x |-> A x + b *)
  Lemma from_matvec_action n (A : mat) (b x : vec) :
    length A = n -> length b = n -> rows_len n A -> 0 < n -> length x = n ->
    Happly (from_matvec R r0 r1 A b) x = vadd radd (Mv A x) b.
  Proof.
    intros HA Hb Hr Hn Hx.
    rewrite (happly_matvec n n) by (try assumption; now apply from_matvec_wf).
    unfold sample_point, lin_part, trans_part, top_rows, from_matvec.
    rewrite removelast_last.
    rewrite from_matvec_rows_lin, from_matvec_rows_trans by lia. reflexivity.
  Qed.

  (* ------------------------------------------------------------ C01 compose on two maps *)
  Lemma mk_aff_ok d r dt M x :
    MkAff d r dt M = Ok x ->
    amat x = M /\ cnames (adom x) = cnames d /\ cnames (arng x) = cnames r.
  Proof.
    unfold mk_aff.
    destruct (negb _); [discriminate|].
    destruct (negb _); [discriminate|].
    intros E. inversion E; subst. cbn. auto.
  Qed.

  Lemma compose2_ok (a b c : aff) :
    Compose [a; b] = Ok c ->
    amat c = Mm (S (cs_ndim (adom b))) (amat a)
                (Mm (S (cs_ndim (adom b))) (amat b) (Mid (S (cs_ndim (adom b)))))
    /\ cnames (adom c) = cnames (adom b) /\ cnames (arng c) = cnames (arng a).
  Proof.
    unfold compose. cbn [rev app].
    destruct (MkAff (adom b) (adom b) (aff_dt R b) (Mid (S (cs_ndim (adom b))))) as [c0|e0] eqn:E0;
      cbn [bind]; [|discriminate].
    apply mk_aff_ok in E0. destruct E0 as [M0 [D0 R0]].
    cbn [compose_from].
    destruct (cs_eqb (adom b) (arng c0)); [|discriminate].
    destruct (MkAff (adom c0) (arng b) _ _) as [c1|e1] eqn:E1; cbn [bind]; [|discriminate].
    apply mk_aff_ok in E1. destruct E1 as [M1 [D1 R1]].
    destruct (cs_eqb (adom a) (arng c1)); [|discriminate].
    destruct (MkAff (adom c1) (arng a) _ _) as [c2|e2] eqn:E2; cbn [bind]; [|discriminate].
    apply mk_aff_ok in E2. destruct E2 as [M2 [D2 R2]].
    intros E. inversion E; subst c2.
    assert (N0 : cs_ndim (adom c0) = cs_ndim (adom b)) by (unfold cs_ndim; now rewrite D0).
    assert (N1 : cs_ndim (adom c1) = cs_ndim (adom b)) by (unfold cs_ndim; now rewrite D1, D0).
    split; [|split].
    - rewrite M2, M1, M0, N1, N0. reflexivity.
    - now rewrite D2, D1, D0.
    - exact R2.
  Qed.

  (* action of a two-map composition *)
  Lemma compose2_action (a b c : aff) nout nmid nin x :
    Compose [a; b] = Ok c ->
    cs_ndim (adom b) = nin ->
    WfAff nout nmid (amat a) -> WfAff nmid nin (amat b) -> length x = nin ->
    WfAff nout nin (amat c) /\ Happly (amat c) x = Happly (amat a) (Happly (amat b) x).
  Proof.
    intros E Hn Ha Hb Hx. apply compose2_ok in E. destruct E as [Mc _]. rewrite Hn in Mc.
    assert (Hbi : WfAff nmid nin (Mm (S nin) (amat b) (Mid (S nin)))).
    { apply (MMWF nmid nin nin); [exact Hb|apply mid_wf_aff]. }
    split.
    - rewrite Mc. now apply (MMWF nout nmid nin).
    - rewrite Mc. rewrite (HMM nout nmid nin) by assumption.
      rewrite (HMM nmid nin nin) by (try assumption; apply mid_wf_aff).
      now rewrite HMID.
  Qed.

  (* ------------------------------------------------------------ resample (affine path) *)
  Lemma bind_ok {A B} (r : res A) (f : A -> res B) y :
    bind r f = Ok y -> exists x, r = Ok x /\ f x = Ok y.
  Proof. destruct r as [x|e]; cbn; [eauto|discriminate]. Qed.

  Definition mapping_matrix (m : mapping R) : mat :=
    match m with
    | MapTuple A b _ _ => from_matvec R r0 r1 A b
    | MapMatrix M _ => M
    | MapAffine a => amat a
    end.

  Lemma tuple_mapping_action n (A : mat) (b x : vec) (adt bdt : nat) :
    length A = n -> length b = n -> rows_len n A -> 0 < n -> length x = n ->
    Happly (mapping_matrix (MapTuple A b adt bdt)) x = vadd radd (Mv A x) b.
  Proof. intros HA Hb Hr Hn Hx. cbn [mapping_matrix]. now apply (from_matvec_action n). Qed.

  Lemma tw2iw_matrix icm target m TW :
    tw2iw R r0 r1 reqb icm target m = Ok TW -> amat TW = mapping_matrix m.
  Proof.
    destruct m as [A b adt bdt|M mdt|a]; cbn [tw2iw mapping_matrix].
    - intros E. now apply mk_aff_ok in E.
    - intros E. now apply mk_aff_ok in E.
    - intros E. now inversion E.
  Qed.

  (* The matrix/offset handed to affine_transform sends target voxel v to the
     source voxel position Sinv (T (G v)); the result carries the target map. *)
  Lemma resample_affine_point (icm target : aff) (m : mapping R) (Sinv : mat)
        (out : aff) (A : mat) (b : vec) nt nw ns (v : vec) :
    resample_affine R r0 r1 radd rmul reqb icm target m Sinv = Ok (out, (A, b)) ->
    cs_ndim (adom target) = nt ->
    WfAff nw nt (amat target) ->
    WfAff ns nw (mapping_matrix m) ->
    WfAff ns ns Sinv ->
    length v = nt ->
    out = target /\
    SamplePoint A b v = Happly Sinv (Happly (mapping_matrix m) (Happly (amat target) v)).
  Proof.
    intros E Hnt HG HT HSi Hv. unfold resample_affine in E.
    apply bind_ok in E. destruct E as [TW [E1 E]].
    apply bind_ok in E. destruct E as [TV2IW [E2 E]].
    apply bind_ok in E. destruct E as [ICMI [E3 E]].
    apply bind_ok in E. destruct E as [TV2IV [E4 E]].
    inversion E; subst out A b. split; [reflexivity|].
    apply tw2iw_matrix in E1.
    unfold inverse_with in E3. apply mk_aff_ok in E3. destruct E3 as [Mi _].
    destruct (compose2_action TW target TV2IW ns nw nt v E2 Hnt) as [W2 A2]; try assumption.
    { now rewrite E1. }
    assert (Hn2 : cs_ndim (adom TV2IW) = nt).
    { apply compose2_ok in E2. destruct E2 as [_ [D _]]. unfold cs_ndim. rewrite D. exact Hnt. }
    destruct (compose2_action ICMI TV2IW TV2IV ns ns nt v E4 Hn2) as [W4 A4]; try assumption.
    { now rewrite Mi. }
    rewrite <- (happly_matvec ns nt (amat TV2IV) v W4 Hv).
    now rewrite A4, A2, Mi, E1.
  Qed.
End P1.
