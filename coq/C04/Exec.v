(* C04 - Qc instance of the model and the agreement predicates evaluated by
   vm_compute in the correspondence check (exact rationals). *)
From Coq Require Import String.
From Coq Require Import List Arith Bool ZArith QArith Qcanon.
From NV.Lib Require Import RingMat Harness.
From NV.C01 Require Import Model.
From NV.C04 Require Import Model ModelSwap.
Import ListNotations.
Close Scope Q_scope.
Close Scope Qc_scope.

Definition q0 : Qc := Q2Qc 0.
Definition q1 : Qc := Q2Qc 1.
Definition qc (n : Z) (d : positive) : Qc := Q2Qc (Qmake n d).
Definition qc_eqb (a b : Qc) : bool := Qeq_bool (this a) (this b).
Definition qc_neg (a : Qc) : bool := negb (Qle_bool 0 (this a)).

Definition qaff := aff Qc.
Definition qvec := list Qc.
Definition qmat := list (list Qc).
Definition qv_eqb := list_eqb qc_eqb.
Definition qm_eqb := list_eqb qv_eqb.
Definition qmm := mm q0 Qcplus Qcmult.
Definition qhapply := happly q0 q1 Qcplus Qcmult.

Definition qaff_eqb (a b : qaff) : bool :=
  cs_eqb (adom a) (adom b) && cs_eqb (arng a) (arng b) && qm_eqb (amat a) (amat b).

(* S . Sinv = I = Sinv . S  (validates the oracle hypothesis of the theorems per case) *)
Definition inv_check (n : nat) (S Sinv : qmat) : bool :=
  qm_eqb (qmm (Datatypes.S n) S Sinv) (mid q0 q1 (Datatypes.S n)) &&
  qm_eqb (qmm (Datatypes.S n) Sinv S) (mid q0 q1 (Datatypes.S n)).

Definition qresample_affine := resample_affine Qc q0 q1 Qcplus Qcmult qc_eqb.
Definition qresample_img2img := resample_img2img Qc q0 q1 Qcplus Qcmult qc_eqb.

Inductive observed :=
| ObsCall (A : qmat) (b : qvec)      (* matrix, offset handed to affine_transform *)
| ObsRaise.                          (* ValueError *)

Definition resample_obs_eqb (r : res (qaff * (qmat * qvec))) (target : qaff) (o : observed) : bool :=
  match r, o with
  | Ok (out, (A, b)), ObsCall A' b' => qaff_eqb out target && qm_eqb A A' && qv_eqb b b'
  | Err EValue, ObsRaise => true
  | _, _ => false
  end.

Definition resample_agrees (icm target : qaff) (m : mapping Qc) (Sinv : qmat) (o : observed) : bool :=
  resample_obs_eqb (qresample_affine icm target m Sinv) target o.
Definition img2img_agrees (scm tcm : qaff) (Sinv : qmat) (o : observed) : bool :=
  resample_obs_eqb (qresample_img2img scm tcm Sinv) tcm o.

(* ImageInterpolator *)
Definition prepad_agrees (order : nat) (m : bmode) (observed_pad : nat) : bool :=
  Nat.eqb (n_prepad order m) observed_pad.
Definition interp_agrees (Sinv : qmat) (pad : Z) (p coords : qvec) : bool :=
  qv_eqb (interp_coords Qc q0 q1 Qcplus Qcmult Sinv (qc pad 1) p) coords.
Definition callable_world_agrees (target : qaff) (v gv : qvec) : bool :=
  qv_eqb (resample_callable_world Qc q0 q1 Qcplus Qcmult target v) gv.

(* registration resample *)
Definition qreg_tv := reg_tv Qc q0 Qcplus Qcmult.
Definition reg_shortcut_agrees (Tm Ra Mi : qmat) (rv mvx : bool) (Tvox : qmat) : bool :=
  qm_eqb (qreg_tv Tm Ra Mi rv mvx) Tvox.
Definition reg_generic_agrees (Tm Ra Mi : qmat) (rv mvx : bool) (A : qmat) (b : qvec) : bool :=
  let ab := reg_generic_args Qc q0 (qreg_tv Tm Ra Mi rv mvx) in
  qm_eqb (fst ab) A && qv_eqb (snd ab) b.
Definition reg_path_agrees (order : nat) (m : bmode) (cval_is_zero : bool) (used_shortcut : bool) : bool :=
  Bool.eqb (reg_shortcut order m cval_is_zero) used_shortcut.
Definition scanner_agrees (Fw Am Tw Tv : qmat) : bool :=
  qm_eqb (scanner_tv Qc q0 Qcplus Qcmult Fw Am Tw) Tv.

(* VolumeImg *)
Definition avi_agrees (S G Sinv : qmat) (diag : bool) (A : qmat) (d b : qvec) : bool :=
  match avi_sampler_args Qc q0 q1 Qcplus Qcmult qc_eqb S G Sinv with
  | (SFull A', b') => negb diag && qm_eqb A' A && qv_eqb b' b
  | (SDiag d', b') => diag && qv_eqb d' d && qv_eqb b' b
  end.
Definition viw_agrees (Sinv : qmat) (p coords : qvec) : bool :=
  qv_eqb (values_in_world_coords Qc q0 q1 Qcplus Qcmult Sinv p) coords.
Definition xyz_agrees (p b nm1 p' b' : Qc) (flipped : bool) : bool :=
  match xyz_flip_axis Qc Qcplus Qcmult Qcopp qc_neg p b nm1 with
  | (p2, b2, f2) => qc_eqb p2 p' && qc_eqb b2 b' && Bool.eqb f2 flipped
  end.
Definition swap_cols_agrees (i j : nat) (M M' : qmat) : bool :=
  qm_eqb (swap_cols Qc q0 i j M) M'.
Definition scanner_pt_agrees (Fw Am Tw : qmat) (v out : qvec) : bool :=
  qv_eqb (qhapply (scanner_tv Qc q0 Qcplus Qcmult Fw Am Tw) v) out.

(* VolumeImg.xyz_ordered, axis-swap loop (ModelSwap.v) at Qc.
   key of a (column, original axis) pair = np.argmax(np.abs(column)): first index of the largest |entry| *)
Definition qabs (a : Qc) : Q := if Qle_bool 0 (this a) then this a else Qopp (this a).
Fixpoint argmax_abs_from (best : Q) (bi i : nat) (l : list Qc) : nat :=
  match l with
  | [] => bi
  | x :: t => if negb (Qle_bool (qabs x) best) then argmax_abs_from (qabs x) i (S i) t
              else argmax_abs_from best bi (S i) t
  end.
Definition argmax_abs (c : list Qc) : nat :=
  match c with [] => 0 | x :: t => argmax_abs_from (qabs x) 0 1 t end.
Definition qkey (ca : list Qc * nat) : nat := argmax_abs (fst ca).
(* cols: columns of A before the loop; trace: first_inversion of every observed _swapaxes(k+1,k) call;
   cols': columns of A after the loop; axes': original data axis shown at each axis of the array after the loop *)
Definition xyz_loop_agrees (cols : qmat) (trace : list nat) (cols' : qmat) (axes' : list nat) : bool :=
  match swap_loop qkey (length cols * length cols) (init_state Qc cols) with
  | Some (r, tr) => list_eqb Nat.eqb tr trace && qm_eqb (map fst r) cols' && list_eqb Nat.eqb (map snd r) axes'
  | None => false
  end.
