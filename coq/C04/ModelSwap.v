(* C04 - model of the axis-swap loop of VolumeImg.xyz_ordered
   (nipy/labs/datasets/volumes/volume_img.py, lines 270-275):

        axis_numbers = np.argmax(np.abs(A), axis=0)
        while not np.all(np.sort(axis_numbers) == axis_numbers):
            first_inversion = np.argmax(np.diff(axis_numbers)<0)
            img = img._swapaxes(first_inversion+1, first_inversion)
            A, b = to_matrix_vector(img.affine)
            axis_numbers = np.argmax(np.abs(A), axis=0)

   The state of the loop is the list of the COLUMNS of A, each paired with the
   number of the axis of the ORIGINAL data array that the current data axis at
   that position shows (`_swapaxes(k+1,k)` swaps columns k,k+1 of the affine
   and np.swapaxes the data axes k,k+1, so the pairs move together).  The model
   is polymorphic in the element type X and in `key : X -> nat`
   (key = argmax |column| in the instance, Exec.v); the translation column b
   is untouched by the loop (order[3] = 3).
   `np.all(np.sort(a) == a)` is modelled as "a is non-decreasing".
   The python loop has no bound: `fuel` is the model's recursion bound and
   Proofs3.swap_loop_terminates shows that any fuel >= inv_count suffices
   (the while loop stops after exactly inv_count swaps).
   Executable definitions only. *)
From Coq Require Import List Arith Bool.
Import ListNotations.

(* np.all(np.sort(a) == a) *)
Fixpoint sortedb (l : list nat) : bool :=
  match l with
  | a :: ((b :: _) as t) => Nat.leb a b && sortedb t
  | _ => true
  end.

(* np.diff(a) < 0 *)
Fixpoint diff_neg (l : list nat) : list bool :=
  match l with
  | a :: ((b :: _) as t) => Nat.ltb b a :: diff_neg t
  | _ => []
  end.

(* np.argmax of a boolean array: the first True, 0 when there is none *)
Fixpoint find_true (l : list bool) : option nat :=
  match l with
  | [] => None
  | true :: _ => Some 0
  | false :: t => option_map S (find_true t)
  end.
Definition argmax_bool (l : list bool) : nat :=
  match find_true l with Some k => k | None => 0 end.
Definition first_inversion (l : list nat) : nat := argmax_bool (diff_neg l).

Section SwapLoop.
  Context {X : Type}.
  Variable key : X -> nat.

  (* _swapaxes(k+1, k): exchange positions k and k+1 *)
  Fixpoint swap_adj (k : nat) (l : list X) : list X :=
    match k, l with
    | 0, a :: b :: t => b :: a :: t
    | S k', a :: t => a :: swap_adj k' t
    | _, _ => l
    end.

  (* the while loop; returns the final state and the list of first_inversion values (one per _swapaxes call) *)
  Fixpoint swap_loop (fuel : nat) (l : list X) : option (list X * list nat) :=
    let an := map key l in
    if sortedb an then Some (l, [])
    else match fuel with
         | 0 => None
         | S f =>
           let k := first_inversion an in
           match swap_loop f (swap_adj k l) with
           | Some (r, tr) => Some (r, k :: tr)
           | None => None
           end
         end.

  (* number of pairs i<j with key l_i > key l_j *)
  Fixpoint count_lt (a : nat) (l : list X) : nat :=
    match l with
    | [] => 0
    | x :: t => (if Nat.ltb (key x) a then 1 else 0) + count_lt a t
    end.
  Fixpoint inv_count (l : list X) : nat :=
    match l with
    | [] => 0
    | x :: t => count_lt (key x) t + inv_count t
    end.
End SwapLoop.

(* world coordinate `row` of the voxel whose index along ORIGINAL data axis a is j a,
   for a state of (column, original axis) pairs:  sum_k column_k[row] * j(axis_k)  +  b[row] *)
Section World.
  Variable R : Type.
  Variable r0 : R.
  Variables radd rmul : R -> R -> R.
  Definition state := list (list R * nat).
  Fixpoint lin_coord (row : nat) (st : state) (j : nat -> R) : R :=
    match st with
    | [] => r0
    | (c, a) :: t => radd (rmul (nth row c r0) (j a)) (lin_coord row t j)
    end.
  Definition world_coord (row : nat) (brow : R) (st : state) (j : nat -> R) : R :=
    radd (lin_coord row st j) brow.
  (* the index the NEW array is addressed with to show the datum j: position k holds j(axis_k) *)
  Definition new_index (st : state) (j : nat -> R) : list R := map (fun ca => j (snd ca)) st.
  (* world coordinate computed the way the new image does it: new affine columns times new index *)
  Fixpoint lin_coord_new (row : nat) (cols : list (list R)) (i : list R) : R :=
    match cols, i with
    | c :: ct, x :: it => radd (rmul (nth row c r0) x) (lin_coord_new row ct it)
    | _, _ => r0
    end.
  (* initial state: column k paired with axis k *)
  Definition init_state (cols : list (list R)) : state := combine cols (seq 0 (length cols)).
End World.
