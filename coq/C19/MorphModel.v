(* C19 (mask part): binary morphology used by compute_mask's post-processing
     mask = ndimage.binary_opening(mask.astype(np.int_), iterations=opening)
   with scipy's default structuring element (generate_binary_structure(ndim, 1): the voxel and
   its 2*ndim face neighbours), border_value 0: `iterations` erosions followed by `iterations`
   dilations.  Any number of dimensions; masks are index functions (false outside the array),
   tabulated row-major after every step for execution.  scipy.ndimage is an oracle: this model
   is compared with it by the correspondence. *)
From Coq Require Import List Arith Lia Bool PeanoNat.
From NV.Lib Require Import C19Index.
From NV.C19 Require Import MaskModel.
Import ListNotations.

Definition mfun := list nat -> bool.

(* face neighbours: +-1 along one axis; None = index -1 (outside) *)
Fixpoint nbrs (p : list nat) : list (option (list nat)) :=
  match p with
  | [] => []
  | x :: r => Some (S x :: r)
              :: (match x with 0 => None | S x' => Some (x' :: r) end)
              :: map (option_map (cons x)) (nbrs r)
  end.
Definition look (X : mfun) (o : option (list nat)) : bool :=
  match o with Some q => X q | None => false end.

Fixpoint inb (s p : list nat) : bool :=
  match s, p with
  | [], [] => true
  | n :: s', x :: p' => (x <? n) && inb s' p'
  | _, _ => false
  end.

(* binary_erosion, border_value=0: the voxel and all its face neighbours are set *)
Definition erode (X : mfun) : mfun := fun p => X p && forallb (look X) (nbrs p).
(* binary_dilation inside the array: the voxel or one of its face neighbours is set *)
Definition dilate (s : list nat) (X : mfun) : mfun := fun p => inb s p && (X p || existsb (look X) (nbrs p)).

Definition opening_fn (s : list nat) (k : nat) (X : mfun) : mfun :=
  Nat.iter k (dilate s) (Nat.iter k erode X).

(* ---- execution on row-major flat data *)
Definition mask_of_flat (s : list nat) (l : list bool) : mfun := fun p => inb s p && nth (ravel s p) l false.
Definition tabulate (s : list nat) (X : mfun) : list bool := map X (indices s).
Definition step_flat (s : list nat) (f : mfun -> mfun) (l : list bool) : list bool :=
  tabulate s (f (mask_of_flat s l)).
Definition opening_flat (s : list nat) (k : nat) (l : list bool) : list bool :=
  Nat.iter k (step_flat s (dilate s)) (Nat.iter k (step_flat s erode) l).

(* compute_mask after the threshold:  if cc: mask = largest_cc(mask);  if opening > 0: binary_opening(mask, opening)
   (labels, label_nb = scipy.ndimage.label(mask), threaded by the harness) *)
Definition postprocess (s : list nat) (mask : list bool) (cc : bool) (labels : list nat) (label_nb : nat) (k : nat)
  : option (list bool) :=
  let m1 := if cc then largest_cc_sel mask labels label_nb else Some mask in
  match m1 with
  | None => None
  | Some m => Some (if k =? 0 then m else opening_flat s k m)
  end.
