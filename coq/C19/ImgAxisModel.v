(* C19 - image-level axis resolution: nipy/core/reference/coordinate_map.py io_axis_indices (lines 2034-2102, with the
   two dictionaries built by axmap, lines 1954-1971) and the wrapper time_slice_diffs_image
   (nipy/algorithms/diagnostics/timediff.py lines 186-198).  Executable definitions only.

   A coordmap is (input names, output names, ornts) where ornts[i] is the output axis that io_orientation pairs with
   input axis i (None for nan): an ORACLE value (nibabel, SVD based) threaded by the harness; for a permuted-diagonal
   affine it is the row of the non-zero entry of column i. *)
From Coq Require Import String.
From Coq Require Import List ZArith Bool QArith.
From NV.Lib Require Import C19Index Harness.
From NV.C19 Require Import TsdModel.
Import ListNotations.
Close Scope Q_scope.

Inductive axis_id := AxInt (z : Z) | AxName (s : string).

Record cmap := mk_cmap {
  in_names : list string;
  out_names : list string;
  ornts : list (option nat)
}.

(* list.index(s) when `s in l`, else None *)
Fixpoint sindex (s : string) (l : list string) : option nat :=
  match l with
  | [] => None
  | x :: r => if String.eqb x s then Some 0
              else match sindex s r with Some k => Some (S k) | None => None end
  end.

Definition onat_eqb (a b : option nat) : bool :=
  match a, b with
  | Some x, Some y => Nat.eqb x y
  | None, None => true
  | _, _ => false
  end.

(* ornts.index(j) if j in ornts else None   (axmap, out2in dictionary) *)
Fixpoint oindex (j : nat) (l : list (option nat)) : option nat :=
  match l with
  | [] => None
  | x :: r => if onat_eqb x (Some j) then Some 0
              else match oindex j r with Some k => Some (S k) | None => None end
  end.

Inductive ax_res :=
| AxOk (in_dim out_dim : option nat)
| AxNoName          (* AxisError: no input or output dimension with that name *)
| AxMismatch        (* AxisError: input and output axes with the same name do not correspond *)
| AxKeyError.       (* integer outside range(ndim) after one wrap: in2out dictionary has no such key *)

Definition io_axis_indices (cm : cmap) (id : axis_id) : ax_res :=
  let n := Z.of_nat (length (in_names cm)) in
  match id with
  | AxInt z =>
      let in_dim := if (z >=? 0)%Z then z else (n + z)%Z in
      if ((0 <=? in_dim)%Z && (in_dim <? n)%Z)%bool
      then AxOk (Some (Z.to_nat in_dim)) (nth (Z.to_nat in_dim) (ornts cm) None)
      else AxKeyError
  | AxName s =>
      match sindex s (in_names cm) with
      | Some i =>
          let out := nth i (ornts cm) None in
          match sindex s (out_names cm) with
          | Some j => if onat_eqb out (Some j) then AxOk (Some i) out else AxMismatch
          | None => AxOk (Some i) out
          end
      | None =>
          match sindex s (out_names cm) with
          | Some j => AxOk (oindex j (ornts cm)) (Some j)
          | None => AxNoName
          end
      end
  end.

(* time_slice_diffs_image: the numbers come from time_slice_diffs on the array with the INPUT indices; the two volume
   outputs are wrapped with drop_io_dim(coordmap, time_axis): input axis and its output axis removed (contract). *)
Inductive img_res :=
| ImgRes (r : result) (vol_in vol_out : list string)
| ImgAxisError            (* AxisError / KeyError from the resolution, or an axis without partner *)
.

Definition tsd_image (cm : cmap) (a : nda Z) (tid sid : axis_id) : img_res :=
  match io_axis_indices cm tid with
  | AxOk (Some ti) (Some to) =>
      match io_axis_indices cm sid with
      | AxOk (Some si) (Some _) =>
          ImgRes (tsd a (Z.of_nat ti) (Some (Z.of_nat si))) (remove_at ti (in_names cm)) (remove_at to (out_names cm))
      | _ => ImgAxisError
      end
  | _ => ImgAxisError
  end.

(* what the seeded / tempting variant would compute: the OUTPUT indices addressed to the array *)
Definition tsd_image_out_idx (cm : cmap) (a : nda Z) (tid sid : axis_id) : img_res :=
  match io_axis_indices cm tid with
  | AxOk (Some ti) (Some to) =>
      match io_axis_indices cm sid with
      | AxOk (Some _) (Some so) =>
          ImgRes (tsd a (Z.of_nat to) (Some (Z.of_nat so))) (remove_at ti (in_names cm)) (remove_at to (out_names cm))
      | _ => ImgAxisError
      end
  | _ => ImgAxisError
  end.

(* ---- harness checkers *)
Definition ax_res_eqb (a b : ax_res) : bool :=
  match a, b with
  | AxOk i o, AxOk i' o' => onat_eqb i i' && onat_eqb o o'
  | AxNoName, AxNoName | AxMismatch, AxMismatch | AxKeyError, AxKeyError => true
  | _, _ => false
  end.

Definition slist_eqb (a b : list string) : bool := list_eqb String.eqb a b.

(* the wrapper resolved to array axes (ti, si) and produced volumes with these names; numbers checked by tsd_check *)
Definition tsd_image_check (cm : cmap) (s : list nat) (data : list Z) (tid sid : axis_id)
           (e_volds : list Q) (e_sliceds : list (list Q)) (e_means : list Q)
           (vshape : list nat) (e_dmv e_smv : list Q) (e_nan : bool) (e_vin e_vout : list string) : bool :=
  match io_axis_indices cm tid, io_axis_indices cm sid with
  | AxOk (Some ti) (Some to), AxOk (Some si) (Some _) =>
      tsd_check s data (Z.of_nat ti) (Some (Z.of_nat si)) e_volds e_sliceds e_means vshape e_dmv e_smv e_nan
      && slist_eqb (remove_at ti (in_names cm)) e_vin && slist_eqb (remove_at to (out_names cm)) e_vout
  | _, _ => false
  end.

Definition tsd_image_raises (cm : cmap) (tid sid : axis_id) : bool :=
  match tsd_image cm (of_flat 0%Z [] []) tid sid with ImgAxisError => true | _ => false end.
