(* C19 (time_slice_diffs part): proofs. *)
From Coq Require Import List Arith Lia Bool ZArith PeanoNat QArith Lqa.
From NV.Lib Require Import C19Index.
From NV.C19 Require Import TsdModel.
Import ListNotations.
Close Scope Q_scope.

(* ------------------------------------------------- axis normalisation *)
(* `if axis < 0: axis += ndim` *)
Definition norm_axis (n : nat) (x : Z) : Z := if (x <? 0)%Z then (x + Z.of_nat n)%Z else x.
(* `slice_axis = ndim-2 if time_axis == ndim-1 else ndim-1` / negative wrap *)
Definition norm_slice (n : nat) (ta : Z) (sv : option Z) : Z :=
  match sv with
  | None => if (ta =? Z.of_nat n - 1)%Z then (Z.of_nat n - 2)%Z else (Z.of_nat n - 1)%Z
  | Some s => norm_axis n s
  end.
(* position of the slice axis inside a volume (the array with the time axis removed) *)
Definition slice_in_vol (ta sa : nat) : nat := if sa <? ta then sa else sa - 1.

Lemma norm_axis_neg n k : k < n -> norm_axis n (Z.of_nat k - Z.of_nat n) = Z.of_nat k.
Proof. intros H. unfold norm_axis. destruct (Z.ltb_spec (Z.of_nat k - Z.of_nat n) 0); lia. Qed.

Lemma norm_axis_pos n k : norm_axis n (Z.of_nat k) = Z.of_nat k.
Proof. unfold norm_axis. destruct (Z.ltb_spec (Z.of_nat k) 0); lia. Qed.

Lemma norm_slice_default n ta : 2 <= n -> ta < n ->
  norm_slice n (Z.of_nat ta) None = Z.of_nat (if ta =? n - 1 then n - 2 else n - 1).
Proof.
  intros Hn Ht. unfold norm_slice.
  destruct (Z.eqb_spec (Z.of_nat ta) (Z.of_nat n - 1)); destruct (Nat.eqb_spec ta (n - 1)); lia.
Qed.

(* every axis specification that normalises to (ta, sa) runs the same two rolls *)
Lemma tsd_unfold (a : nda Z) (ta sa : nat) (tv : Z) (sv : option Z) :
  let n := length (shp a) in
  ta < n -> sa < n -> ta <> sa ->
  norm_axis n tv = Z.of_nat ta -> norm_slice n (Z.of_nat ta) sv = Z.of_nat sa ->
  tsd a tv sv = Ok (rollback (S (slice_in_vol ta sa))
                     (tsd_core (rollaxis (rollaxis a ta 0) (S (slice_in_vol ta sa)) 1))).
Proof.
  intros n Ht Hs Hne Htv Hsv. unfold tsd.
  fold n. change (if (tv <? 0)%Z then (tv + Z.of_nat n)%Z else tv) with (norm_axis n tv).
  rewrite Htv.
  replace (match sv with
           | Some s => if (s <? 0)%Z then (s + Z.of_nat n)%Z else s
           | None => if (Z.of_nat ta =? Z.of_nat n - 1)%Z then (Z.of_nat n - 2)%Z else (Z.of_nat n - 1)%Z
           end) with (Z.of_nat sa) by (rewrite <- Hsv; destruct sv; reflexivity).
  destruct (Z.eqb_spec (Z.of_nat ta) (Z.of_nat sa)) as [E|_]; [lia|].
  replace ((0 <=? Z.of_nat ta)%Z && (Z.of_nat ta <? Z.of_nat n)%Z && (0 <=? Z.of_nat sa)%Z
           && (Z.of_nat sa <? Z.of_nat n)%Z) with true
    by (symmetry; repeat (apply andb_true_intro; split); try apply Z.leb_le; try apply Z.ltb_lt; lia).
  cbn [negb]. rewrite Nat2Z.id.
  replace (Z.to_nat (if (Z.of_nat ta >? Z.of_nat sa)%Z then (Z.of_nat sa + 1)%Z else Z.of_nat sa))
    with (S (slice_in_vol ta sa)); [reflexivity|].
  unfold slice_in_vol.
  destruct (Z.gtb_spec (Z.of_nat ta) (Z.of_nat sa)); destruct (Nat.ltb_spec sa ta); lia.
Qed.

(* ------------------------------------------------- the two rolls *)
Lemma rolled_at {A} (a : nda A) ta sav t s r :
  at_ (rollaxis (rollaxis a ta 0) (S sav) 1) (t :: s :: r) = at_ a (insert_at ta t (insert_at sav s r)).
Proof.
  unfold rollaxis.
  change (S sav <? 1) with false. cbn match.
  change (ta <? 0) with false. cbn match.
  destruct sav as [|sav].
  - change (1 =? 1) with true. cbn match.
    destruct ta as [|ta]; [reflexivity|].
    change (S ta =? 0) with false. cbn match. reflexivity.
  - change (S (S sav) =? 1) with false. cbn match. cbn [at_].
    destruct ta as [|ta]; [reflexivity|].
    change (S ta =? 0) with false. cbn match. reflexivity.
Qed.

Lemma rolled_shape {A} (a : nda A) ta sa :
  ta < length (shp a) -> sa < length (shp a) -> ta <> sa ->
  shp (rollaxis (rollaxis a ta 0) (S (slice_in_vol ta sa)) 1)
  = nth ta (shp a) 0 :: nth sa (shp a) 0
    :: remove_at (slice_in_vol ta sa) (remove_at ta (shp a)).
Proof.
  intros Ht Hs Hne.
  assert (Hn : nth (slice_in_vol ta sa) (remove_at ta (shp a)) 0 = nth sa (shp a) 0).
  { rewrite nth_remove_at. unfold slice_in_vol.
    destruct (Nat.ltb_spec sa ta) as [H1|H1].
    - destruct (Nat.ltb_spec sa ta); [reflexivity|lia].
    - destruct (Nat.ltb_spec (sa - 1) ta); [lia|]. f_equal. lia. }
  set (sav := slice_in_vol ta sa) in *.
  assert (Hshape1 : shp (rollaxis a ta 0) = nth ta (shp a) 0 :: remove_at ta (shp a)).
  { unfold rollaxis. change (ta <? 0) with false. cbn match.
    destruct ta as [|ta].
    - change (0 =? 0) with true. cbn match. destruct (shp a) as [|x l]; [simpl in Ht; lia|reflexivity].
    - change (S ta =? 0) with false. cbn match. reflexivity. }
  unfold rollaxis at 1. change (S sav <? 1) with false. cbn match.
  destruct sav as [|sav'] eqn:Esav.
  - change (1 =? 1) with true. cbn match. rewrite Hshape1. f_equal.
    destruct (remove_at ta (shp a)) as [|x l] eqn:E.
    + assert (Hl := remove_at_length ta (shp a) Ht). rewrite E in Hl. simpl in Hl.
      exfalso. lia.
    + simpl in Hn. subst x. reflexivity.
  - change (S (S sav') =? 1) with false. cbn match. cbn [shp].
    rewrite Hshape1. unfold move_elem. cbn [nth remove_at insert_at].
    rewrite Hn. reflexivity.
Qed.

(* the default-position call does no moving at all *)
Lemma tsd_default_position (a : nda Z) :
  2 <= length (shp a) -> tsd a 0 (Some 1%Z) = Ok (tsd_core a).
Proof.
  intros Hn. unfold tsd.
  change (0 <? 0)%Z with false. change (1 <? 0)%Z with false. cbn match.
  change (0 =? 1)%Z with false. cbn match.
  replace ((0 <=? 0)%Z && (0 <? Z.of_nat (length (shp a)))%Z && (0 <=? 1)%Z
           && (1 <? Z.of_nat (length (shp a)))%Z) with true
    by (symmetry; repeat (apply andb_true_intro; split); try apply Z.leb_le; try apply Z.ltb_lt; lia).
  cbn [negb]. change (0 >? 1)%Z with false. cbn match.
  change (Z.to_nat 0) with 0. change (Z.to_nat 1) with 1.
  unfold rollback, rollaxis. cbn.
  destruct (tsd_core a); reflexivity.
Qed.

(* roll-back of a volume output: entry v of the result is entry
   (v[sav] :: v without position sav) of the (S, ...) volume *)
Lemma rollback_at {A} (vol : nda A) sav v :
  sav < length v ->
  at_ (rollaxis vol 0 (S sav)) v = at_ vol (nth sav v 0 :: remove_at sav v).
Proof.
  intros Hv. unfold rollaxis. change (0 <? S sav) with true. cbn match.
  replace (S sav - 1) with sav by lia.
  destruct sav as [|sav].
  - change (0 =? 0) with true. cbn match. destruct v as [|x v]; [simpl in Hv; lia|reflexivity].
  - change (0 =? S sav) with false. cbn match. reflexivity.
Qed.

Lemma rollback_shape {A} (vol : nda A) sav x l :
  shp vol = x :: l -> shp (rollaxis vol 0 (S sav)) = insert_at sav x l.
Proof.
  intros E. unfold rollaxis. change (0 <? S sav) with true. cbn match.
  replace (S sav - 1) with sav by lia.
  destruct sav as [|sav].
  - change (0 =? 0) with true. cbn match. exact E.
  - change (0 =? S sav) with false. cbn match. cbn [shp]. rewrite E. reflexivity.
Qed.

(* ------------------------------------------------- definition on the original axes *)
(* squared difference of successive volumes, indexed on the ORIGINAL axis order:
   v is an index into a volume (the array without its time axis) *)
Definition d2o (a : nda Z) (ta t : nat) (v : list nat) : Z :=
  let x := (at_ a (insert_at ta (S t) v) - at_ a (insert_at ta t v))%Z in (x * x)%Z.

Definition slice_means_spec (a : nda Z) (ta sav nS : nat) (R : list nat) (t : nat) : list Q :=
  map (fun s => zmean (map (fun r => d2o a ta t (insert_at sav s r)) (indices R))) (seq 0 nS).

Lemma d2_rolled a ta sav t s r :
  d2 (rollaxis (rollaxis a ta 0) (S sav) 1) t (s :: r) = d2o a ta t (insert_at sav s r).
Proof. unfold d2, d2o. now rewrite !rolled_at. Qed.

Lemma slice_means_rolled a ta sav nS R t :
  slice_means (rollaxis (rollaxis a ta 0) (S sav) 1) nS R t = slice_means_spec a ta sav nS R t.
Proof.
  unfold slice_means, slice_means_spec. apply map_ext. intros s. f_equal.
  apply map_ext. intros r. apply d2_rolled.
Qed.

Lemma indices_cons_form n R v : In v (indices (n :: R)) -> exists s r, v = s :: r.
Proof.
  intros H. apply In_indices in H. inversion H; subst. eauto.
Qed.

Section Definition_.
Variable a : nda Z.
Variables ta sa : nat.
Let n := length (shp a).
Hypothesis Hta : ta < n.
Hypothesis Hsa : sa < n.
Hypothesis Hne : ta <> sa.
Let sav := slice_in_vol ta sa.
Let nT := nth ta (shp a) 0.
Let nS := nth sa (shp a) 0.
Let R := remove_at sav (remove_at ta (shp a)).

Lemma sav_lt : sav < n - 1.
Proof. unfold sav, slice_in_vol. destruct (Nat.ltb_spec sa ta); lia. Qed.

Lemma tsd_definition_lemma tv sv o :
  norm_axis n tv = Z.of_nat ta -> norm_slice n (Z.of_nat ta) sv = Z.of_nat sa ->
  tsd a tv sv = Ok o ->
  (* volume_means[t] = mean over the volume at time t *)
  volume_means o
    = map (fun t => zmean (map (fun v => at_ a (insert_at ta t (move_elem 0 0 sav v))) (indices (nS :: R)))) (seq 0 nT)
  (* slice_mean_diff2[t][s] = mean over slice s of the squared difference between volumes t and t+1 *)
  /\ slice_mean_diff2 o = map (slice_means_spec a ta sav nS R) (seq 0 (nT - 1))
  /\ volume_mean_diff2 o = map qmean (slice_mean_diff2 o)
  (* the volume outputs have the shape of a volume in the ORIGINAL axis order *)
  /\ shp (diff2_mean_vol o) = remove_at ta (shp a)
  /\ shp (slice_diff2_max_vol o) = remove_at ta (shp a)
  (* diff2_mean_vol[v] = mean over t of the squared differences at voxel v *)
  /\ (forall v, length v = n - 1 ->
        at_ (diff2_mean_vol o) v
        = (inject_Z (zsum (map (fun t => d2o a ta t v) (seq 0 (nT - 1)))) / inject_Z (Z.of_nat (nT - 1)))%Q)
  (* slice_diff2_max_vol[v] = squared difference at the time selected by the running maximum
     for the slice v belongs to (zero while no slice mean has exceeded 0) *)
  /\ (forall v, length v = n - 1 ->
        at_ (slice_diff2_max_vol o) v
        = match snd (nth (nth sav v 0) (run_max nS (slice_mean_diff2 o)) (0%Q, None)) with
          | None => 0%Q
          | Some t => inject_Z (d2o a ta t v)
          end)
  /\ dmv_nan o = (nT - 1 =? 0).
Proof.
  intros Htv Hsv Ho.
  rewrite (tsd_unfold a ta sa tv sv Hta Hsa Hne Htv Hsv) in Ho.
  fold sav in Ho. injection Ho as <-.
  assert (Hshape := rolled_shape a ta sa Hta Hsa Hne). fold sav nT nS R in Hshape.
  set (a2 := rollaxis (rollaxis a ta 0) (S sav) 1) in *.
  assert (Hsav := sav_lt).
  assert (Hlen : length (remove_at ta (shp a)) = n - 1) by (apply remove_at_length; exact Hta).
  assert (HnS : nth sav (remove_at ta (shp a)) 0 = nS).
  { unfold nS, sav, slice_in_vol. rewrite nth_remove_at.
    destruct (Nat.ltb_spec sa ta) as [H1|H1].
    - destruct (Nat.ltb_spec sa ta); [reflexivity|lia].
    - destruct (Nat.ltb_spec (sa - 1) ta); [lia|]. f_equal. lia. }
  assert (Hvs : insert_at sav nS R = remove_at ta (shp a)).
  { unfold R. rewrite <- HnS. apply insert_remove_nth. lia. }
  unfold tsd_core. rewrite Hshape. cbn [rollback volume_means slice_mean_diff2 volume_mean_diff2
    diff2_mean_vol slice_diff2_max_vol dmv_nan].
  repeat split.
  - apply map_ext. intros t. f_equal. apply map_ext_in. intros v Hv.
    destruct (indices_cons_form _ _ _ Hv) as [s [r ->]]. unfold a2. rewrite rolled_at. reflexivity.
  - apply map_ext. intros t. apply slice_means_rolled.
  - rewrite (rollback_shape _ sav nS R) by reflexivity. exact Hvs.
  - rewrite (rollback_shape _ sav nS R) by reflexivity. exact Hvs.
  - intros v Hv. rewrite rollback_at by lia. cbn [at_].
    f_equal. f_equal. f_equal. apply map_ext. intros t. unfold a2. rewrite d2_rolled.
    rewrite insert_remove_nth by lia. reflexivity.
  - intros v Hv. rewrite rollback_at by lia. cbn [at_ hd].
    replace (map (slice_means a2 nS R) (seq 0 (nT - 1)))
      with (map (slice_means_spec a ta sav nS R) (seq 0 (nT - 1)))
      by (apply map_ext; intros t; symmetry; apply slice_means_rolled).
    destruct (snd (nth (nth sav v 0) (run_max nS (map (slice_means_spec a ta sav nS R) (seq 0 (nT - 1)))) (0%Q, None)))
      as [t|]; [|reflexivity].
    unfold a2. rewrite d2_rolled. rewrite insert_remove_nth by lia. reflexivity.
Qed.
End Definition_.

(* ------------------------------------------------- axis equivariance *)
(* `moved` is "the axis-moved array": shape (T, S, rest in original order), entry (t, s, r) =
   the entry of `a` with t at the time axis, s at the slice axis and r on the other axes. *)
Lemma tsd_axis_equivariant_lemma (a : nda Z) (ta sa : nat) (tv : Z) (sv : option Z) :
  let n := length (shp a) in
  let sav := slice_in_vol ta sa in
  ta < n -> sa < n -> ta <> sa ->
  norm_axis n tv = Z.of_nat ta -> norm_slice n (Z.of_nat ta) sv = Z.of_nat sa ->
  exists moved o0,
    shp moved = nth ta (shp a) 0 :: nth sa (shp a) 0 :: remove_at sav (remove_at ta (shp a))
    /\ (forall t s r, at_ moved (t :: s :: r) = at_ a (insert_at ta t (insert_at sav s r)))
    /\ tsd moved 0 (Some 1%Z) = Ok o0
    /\ tsd a tv sv = Ok (rollback (S sav) o0)
    /\ (forall v, sav < length v ->
          at_ (diff2_mean_vol (rollback (S sav) o0)) v = at_ (diff2_mean_vol o0) (nth sav v 0 :: remove_at sav v)
          /\ at_ (slice_diff2_max_vol (rollback (S sav) o0)) v
             = at_ (slice_diff2_max_vol o0) (nth sav v 0 :: remove_at sav v)).
Proof.
  intros n sav Ht Hs Hne Htv Hsv.
  exists (rollaxis (rollaxis a ta 0) (S sav) 1).
  exists (tsd_core (rollaxis (rollaxis a ta 0) (S sav) 1)).
  assert (Hshape := rolled_shape a ta sa Ht Hs Hne). fold sav in Hshape.
  split; [exact Hshape|].
  split; [intros t s r; apply rolled_at|].
  split; [apply tsd_default_position; rewrite Hshape; simpl; lia|].
  split; [apply (tsd_unfold a ta sa tv sv Ht Hs Hne Htv Hsv)|].
  intros v Hv. cbn [rollback diff2_mean_vol slice_diff2_max_vol].
  split; apply rollback_at; exact Hv.
Qed.

(* ------------------------------------------------- running maximum *)
Definition scan_step (st : Q * option nat) (tx : nat * Q) : Q * option nat := upd (fst tx) st (snd tx).
Definition scan_max (k : nat) (xs : list Q) (st : Q * option nat) : Q * option nat :=
  fold_left scan_step (combine (seq k (length xs)) xs) st.

Lemma upd_cases t st x :
  ((fst st < x)%Q /\ upd t st x = (x, Some t)) \/ ((x <= fst st)%Q /\ upd t st x = st).
Proof.
  unfold upd. destruct (Qle_bool x (fst st)) eqn:E.
  - right. split; [now apply Qle_bool_iff|reflexivity].
  - left. split; [|reflexivity].
    apply Qnot_le_lt. intro H. apply Qle_bool_iff in H. congruence.
Qed.

(* Either nothing exceeded the incoming maximum (state unchanged), or the state is
   (xs[i], k+i) for the FIRST index i at which the overall maximum is attained. *)
Lemma scan_max_spec xs : forall k st,
  let st' := scan_max k xs st in
  (forall x, In x xs -> (x <= fst st')%Q) /\
  ((st' = st /\ forall x, In x xs -> (x <= fst st)%Q) \/
   (exists i, i < length xs /\ st' = (nth i xs 0%Q, Some (k + i)) /\ (fst st < nth i xs 0%Q)%Q
              /\ forall j, j < i -> (nth j xs 0%Q < nth i xs 0%Q)%Q)).
Proof.
  induction xs as [|x xs IH]; intros k st; cbn zeta.
  - split; [intros x []|]. left. split; [reflexivity|intros x []].
  - unfold scan_max. cbn [length seq combine fold_left].
    change (scan_step st (k, x)) with (upd k st x).
    specialize (IH (S k) (upd k st x)). cbn zeta in IH. unfold scan_max in IH.
    destruct (upd_cases k st x) as [[Hlt E]|[Hle E]]; rewrite E in *; clear E.
    + remember (fold_left scan_step (combine (seq (S k) (length xs)) xs) (x, Some k)) as st' eqn:Est'.
      clear Est'. destruct IH as [IHA IHB].
      destruct IHB as [[E' Hall]|[i [Hi [E' [Hgt Hfirst]]]]]; subst st'.
      * cbn [fst] in Hall. split.
        -- intros y [<-|Hy]; cbn [fst]; [apply Qle_refl|now apply Hall].
        -- right. exists 0. split; [simpl; lia|]. split; [cbn [nth]; f_equal; f_equal; lia|].
           split; [exact Hlt|intros j Hj; lia].
      * cbn [fst] in Hgt. cbn [fst] in IHA. split.
        -- intros y [<-|Hy]; [|now apply IHA]. cbn [fst]. now apply Qlt_le_weak.
        -- right. exists (S i). split; [simpl; lia|]. cbn [nth].
           split; [f_equal; f_equal; lia|].
           split; [eapply Qlt_trans; eassumption|].
           intros [|j] Hj; [exact Hgt|apply Hfirst; lia].
    + remember (fold_left scan_step (combine (seq (S k) (length xs)) xs) st) as st' eqn:Est'.
      clear Est'. destruct IH as [IHA IHB].
      destruct IHB as [[E' Hall]|[i [Hi [E' [Hgt Hfirst]]]]]; subst st'.
      * split.
        -- intros y [<-|Hy]; [exact Hle|now apply Hall].
        -- left. split; [reflexivity|]. intros y [<-|Hy]; [exact Hle|now apply Hall].
      * cbn [fst] in IHA. split.
        -- intros y [<-|Hy]; [|now apply IHA]. cbn [fst].
           apply Qlt_le_weak. eapply Qle_lt_trans; eassumption.
        -- right. exists (S i). split; [simpl; lia|]. cbn [nth].
           split; [f_equal; f_equal; lia|].
           split; [exact Hgt|].
           intros [|j] Hj; [eapply Qle_lt_trans; eassumption|apply Hfirst; lia].
Qed.

Lemma nth_map2 {A B C} (f : A -> B -> C) la lb s da db d :
  s < length la -> s < length lb -> nth s (map2 f la lb) d = f (nth s la da) (nth s lb db).
Proof.
  revert lb s; induction la as [|x la IH]; intros [|y lb] [|s] Ha Hb; simpl in *; try lia; try reflexivity.
  apply IH; lia.
Qed.

Lemma map2_length {A B C} (f : A -> B -> C) la lb :
  length la = length lb -> length (map2 f la lb) = length la.
Proof.
  revert lb; induction la as [|x la IH]; intros [|y lb] H; simpl in *; try lia.
  rewrite IH by lia. reflexivity.
Qed.

(* the array-wide loop, looked at for one slice s, is the scalar scan over column s *)
Lemma run_max_column nS s (rows : list (list Q)) : s < nS ->
  (forall row, In row rows -> length row = nS) ->
  forall k st, length st = nS ->
  nth s (fold_left (fun st tr => map2 (upd (fst tr)) st (snd tr)) (combine (seq k (length rows)) rows) st) (0%Q, None)
  = scan_max k (map (fun row => nth s row 0%Q) rows) (nth s st (0%Q, None)).
Proof.
  intros Hs. induction rows as [|row rows IH]; intros Hrows k st Hst.
  - reflexivity.
  - unfold scan_max. cbn [length seq combine fold_left map]. cbn [fst snd].
    assert (Hrow : length row = nS) by (apply Hrows; now left).
    rewrite IH.
    + unfold scan_max. rewrite map_length. f_equal. unfold scan_step. cbn [fst snd].
      apply nth_map2; lia.
    + intros r Hr. apply Hrows. now right.
    + rewrite map2_length; lia.
Qed.

Lemma run_max_nth nS s rows : s < nS ->
  (forall row, In row rows -> length row = nS) ->
  nth s (run_max nS rows) (0%Q, None) = scan_max 0 (map (fun row => nth s row 0%Q) rows) (0%Q, None).
Proof.
  intros Hs Hrows. unfold run_max. rewrite (run_max_column nS s rows Hs Hrows).
  - f_equal. clear Hrows. revert s Hs. induction nS as [|m IH]; intros s Hs; [lia|].
    destruct s as [|s]; [reflexivity|]. simpl. apply IH. lia.
  - apply repeat_length.
Qed.

Lemma slice_means_length a nS R t : length (slice_means a nS R t) = nS.
Proof. unfold slice_means. now rewrite map_length, seq_length. Qed.

(* The running maximum of time_slice_diffs (core position): for slice s the stored
   maximum dominates every slice mean and 0; the stored volume slice is the squared
   difference at the FIRST time attaining the maximum, provided some slice mean is > 0;
   otherwise the slice stays at its initial zeros. *)
Lemma tsd_running_max_lemma (a : nda Z) nT nS R s :
  shp a = nT :: nS :: R -> s < nS ->
  let col := map (fun t => nth s (slice_means a nS R t) 0%Q) (seq 0 (nT - 1)) in
  let o := tsd_core a in
  (forall r, (forall x, In x col -> (x <= 0)%Q) -> at_ (slice_diff2_max_vol o) (s :: r) = 0%Q) /\
  (forall x, In x col -> (0 < x)%Q ->
     exists t, t < nT - 1
       /\ (forall r, at_ (slice_diff2_max_vol o) (s :: r) = inject_Z (d2 a t (s :: r)))
       /\ (forall x', In x' col -> (x' <= nth t col 0%Q)%Q)
       /\ (forall t', t' < t -> (nth t' col 0%Q < nth t col 0%Q)%Q)).
Proof.
  intros Hshape Hs col o.
  assert (Hst : nth s (run_max nS (map (slice_means a nS R) (seq 0 (nT - 1)))) (0%Q, None)
                = scan_max 0 col (0%Q, None)).
  { rewrite run_max_nth; [|exact Hs|].
    - unfold col. now rewrite map_map.
    - intros row Hrow. apply in_map_iff in Hrow. destruct Hrow as [t [<- _]]. apply slice_means_length. }
  assert (Hlen : length col = nT - 1) by (unfold col; now rewrite map_length, seq_length).
  destruct (scan_max_spec col 0 (0%Q, None)) as [HA HB]. cbn zeta in HA, HB.
  unfold o, tsd_core. rewrite Hshape. cbn [slice_diff2_max_vol at_ hd].
  split.
  - intros r Hall. rewrite Hst.
    destruct HB as [[E _]|[i [Hi [E [Hgt _]]]]].
    + rewrite E. reflexivity.
    + cbn [fst] in Hgt. exfalso. specialize (Hall (nth i col 0%Q) (nth_In _ _ Hi)).
      apply (Qlt_irrefl 0%Q). eapply Qlt_le_trans; eassumption.
  - intros x Hx Hpos.
    destruct HB as [[E Hall]|[i [Hi [E [Hgt Hfirst]]]]].
    + cbn [fst] in Hall. exfalso. specialize (Hall x Hx).
      apply (Qlt_irrefl 0%Q). eapply Qlt_le_trans; eassumption.
    + exists i. split; [lia|]. split; [|split].
      * intros r. rewrite Hst, E. cbn [snd]. reflexivity.
      * intros x' Hx'. specialize (HA x' Hx'). rewrite E in HA. exact HA.
      * exact Hfirst.
Qed.

(* ------------------------------------------------- mean of slice means = volume mean *)
Lemma zsum_app l1 l2 : zsum (l1 ++ l2) = (zsum l1 + zsum l2)%Z.
Proof. induction l1 as [|x l IH]; simpl; [reflexivity|]. rewrite IH. lia. Qed.

Lemma qsum_scaled (c : Q) (zs : list Z) :
  (qsum (map (fun z => inject_Z z * c) zs) == inject_Z (zsum zs) * c)%Q.
Proof.
  induction zs as [|z zs IH]; simpl.
  - ring.
  - rewrite IH, inject_Z_plus. ring.
Qed.

Lemma zsum_flat_map {A} (f : nat -> list A) (g : A -> Z) ks :
  zsum (map g (flat_map f ks)) = zsum (map (fun k => zsum (map g (f k))) ks).
Proof.
  induction ks as [|k ks IH]; simpl; [reflexivity|].
  rewrite map_app, zsum_app, IH. reflexivity.
Qed.

(* documented: volume_mean_diff2[t] is the mean over the voxels of the volume; the code
   takes the mean over slices of the slice means - the same number *)
Lemma volds_is_volume_mean (a : nda Z) nS R t :
  (qmean (slice_means a nS R t) == zmean (map (fun v => d2 a t v) (indices (nS :: R))))%Q.
Proof.
  unfold qmean, zmean. rewrite slice_means_length, map_length, indices_length.
  cbn [indices prod]. rewrite zsum_flat_map.
  unfold slice_means, zmean.
  rewrite Nat2Z.inj_mul, inject_Z_mult.
  set (c := inject_Z (Z.of_nat (prod R))). set (cs := inject_Z (Z.of_nat nS)).
  assert (E : forall ks, (qsum (map (fun s => (inject_Z (zsum (map (fun r => d2 a t (s :: r)) (indices R)))
                 / inject_Z (Z.of_nat (length (map (fun r => d2 a t (s :: r)) (indices R)))))%Q) ks)
              == inject_Z (zsum (map (fun k => zsum (map (fun v => d2 a t v) (map (cons k) (indices R)))) ks)) * / c)%Q).
  { intros ks. induction ks as [|k ks IH]; simpl.
    - ring.
    - rewrite IH, inject_Z_plus, map_length, indices_length, map_map. fold c. unfold Qdiv. ring. }
  rewrite E. unfold Qdiv. rewrite Qinv_mult_distr. ring.
Qed.
