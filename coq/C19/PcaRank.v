(* C19 (pca part): the effective-rank rule of pca.py
     rank = (SX / SX.max() > tol_ratio).sum()
   (SX = singular values in descending order, so SX.max() = SX[0]) is RELATIVE: it is unchanged
   when all singular values are multiplied by a positive factor - the component count does not
   depend on how close the kept design is to the removed one, only on the ratios. *)
From Coq Require Import List Bool QArith Lqa.
Import ListNotations.

Definition qlt_bool (a b : Q) : bool := negb (Qle_bool b a).
Definition rank_rel (tol : Q) (S : list Q) : nat :=
  match S with
  | [] => 0%nat
  | h :: _ => length (filter (fun s => qlt_bool tol (s / h)) S)
  end.
(* the absolute rule of the seeded change C19-r4-1, for contrast *)
Definition rank_abs (tol : Q) (S : list Q) : nat := length (filter (fun s => qlt_bool tol s) S).

Lemma qlt_bool_compat a b b' : b == b' -> qlt_bool a b = qlt_bool a b'.
Proof.
  intros E. unfold qlt_bool. f_equal. apply eq_true_iff_eq. rewrite !Qle_bool_iff, E. reflexivity.
Qed.

Lemma filter_map_length (c : Q) (f g : Q -> bool) l :
  (forall s, f (c * s) = g s) -> length (filter f (map (Qmult c) l)) = length (filter g l).
Proof.
  intros H. induction l as [|x l IH]; simpl; [reflexivity|].
  rewrite H. destruct (g x); simpl; now rewrite IH.
Qed.

Lemma rank_rel_scale_invariant_proof (tol c : Q) (S : list Q) :
  0 < c -> (match S with [] => True | h :: _ => 0 < h end) ->
  rank_rel tol (map (Qmult c) S) = rank_rel tol S.
Proof.
  intros Hc Hh. destruct S as [|h S]; [reflexivity|].
  unfold rank_rel. cbn [map]. change (c * h :: map (Qmult c) S) with (map (Qmult c) (h :: S)).
  apply filter_map_length. intros s. apply qlt_bool_compat. field. split; lra.
Qed.

(* the absolute rule is not: singular values (3/1000) with tolerance 1/100 *)
Lemma rank_abs_not_scale_invariant_proof :
  rank_rel (1 # 100) [3 # 1000] = 1%nat /\ rank_abs (1 # 100) [3 # 1000] = 0%nat /\ rank_abs (1 # 100) [3 # 10] = 1%nat.
Proof. vm_compute. repeat split; reflexivity. Qed.
