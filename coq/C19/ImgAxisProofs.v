(* C19 - proofs about the image-level axis resolution (ImgAxisModel.v). *)
From Coq Require Import String.
From Coq Require Import List ZArith Bool Lia QArith.
From NV.Lib Require Import C19Index Harness.
From NV.C19 Require Import TsdModel ImgAxisModel.
Import ListNotations.
Close Scope Q_scope.

(* coordmap of a permuted-diagonal affine: distinct names, as many outputs as inputs, input axis k drives output p[k],
   p a permutation of range(n) *)
Definition wf_cmap (cm : cmap) (p : list nat) : Prop :=
  NoDup (in_names cm) /\ NoDup (out_names cm) /\
  length (out_names cm) = length (in_names cm) /\ length p = length (in_names cm) /\
  NoDup p /\ (forall x, In x p -> x < length p) /\ ornts cm = map Some p.

(* the ways the documentation allows to name array axis k *)
Inductive names_axis (cm : cmap) (p : list nat) (k : nat) : axis_id -> Prop :=
| na_idx : names_axis cm p k (AxInt (Z.of_nat k))
| na_neg : names_axis cm p k (AxInt (Z.of_nat k - Z.of_nat (length (in_names cm))))
| na_in : forall s, nth k (in_names cm) EmptyString = s ->
    (~ In s (out_names cm) \/ nth (nth k p 0) (out_names cm) EmptyString = s) ->
    names_axis cm p k (AxName s)
| na_out : forall s, ~ In s (in_names cm) -> nth (nth k p 0) (out_names cm) EmptyString = s ->
    names_axis cm p k (AxName s).

Lemma sindex_None s l : ~ In s l -> sindex s l = None.
Proof.
  induction l as [|x r IH]; intros H; cbn [sindex]; [reflexivity|].
  destruct (String.eqb x s) eqn:E.
  - apply String.eqb_eq in E. exfalso. apply H. left. exact E.
  - rewrite IH; [reflexivity|]. intros Hin. apply H. right. exact Hin.
Qed.

Lemma sindex_Some s l k : sindex s l = Some k -> k < length l /\ nth k l EmptyString = s.
Proof.
  revert k; induction l as [|x r IH]; intros k H; cbn [sindex] in H; [discriminate|].
  destruct (String.eqb x s) eqn:E.
  - injection H as <-. apply String.eqb_eq in E. cbn. split; [lia|exact E].
  - destruct (sindex s r) as [k'|] eqn:E2; [|discriminate]. injection H as <-.
    destruct (IH k' eq_refl) as [H1 H2]. cbn [length nth]. split; [lia|exact H2].
Qed.

Lemma sindex_nth l : NoDup l -> forall k, k < length l -> sindex (nth k l EmptyString) l = Some k.
Proof.
  induction 1 as [|x r Hx ND IH]; intros k Hk; cbn [length] in Hk; [lia|].
  destruct k as [|k]; cbn [nth sindex].
  - rewrite String.eqb_refl. reflexivity.
  - destruct (String.eqb x (nth k r EmptyString)) eqn:E.
    + apply String.eqb_eq in E. exfalso. apply Hx. rewrite E. apply nth_In. lia.
    + rewrite IH by lia. reflexivity.
Qed.

Lemma nth_map_Some (p : list nat) k : k < length p -> nth k (map Some p) None = Some (nth k p 0).
Proof.
  revert k; induction p as [|x r IH]; intros k Hk; cbn [length] in Hk; [lia|].
  destruct k as [|k]; cbn [map nth]; [reflexivity|]. apply IH. lia.
Qed.

Lemma oindex_nth (p : list nat) : NoDup p -> forall k, k < length p -> oindex (nth k p 0) (map Some p) = Some k.
Proof.
  induction 1 as [|x r Hx ND IH]; intros k Hk; cbn [length] in Hk; [lia|].
  destruct k as [|k]; cbn [nth map oindex onat_eqb].
  - rewrite Nat.eqb_refl. reflexivity.
  - destruct (Nat.eqb x (nth k r 0)) eqn:E.
    + apply Nat.eqb_eq in E. exfalso. apply Hx. rewrite E. apply nth_In. lia.
    + rewrite IH by lia. reflexivity.
Qed.

Lemma oindex_Some j l k : oindex j l = Some k -> k < length l /\ nth k l None = Some j.
Proof.
  revert k; induction l as [|x r IH]; intros k H; cbn [oindex] in H; [discriminate|].
  destruct (onat_eqb x (Some j)) eqn:E.
  - injection H as <-. cbn. split; [lia|]. destruct x as [x|]; cbn in E; [|discriminate].
    apply Nat.eqb_eq in E. now subst.
  - destruct (oindex j r) as [k'|] eqn:E2; [|discriminate]. injection H as <-.
    destruct (IH k' eq_refl) as [H1 H2]. cbn [length nth]. split; [lia|exact H2].
Qed.

(* every documented spelling of array axis k resolves to (k, p[k]) *)
Lemma io_axis_indices_resolves cm p k id :
  wf_cmap cm p -> k < length (in_names cm) -> names_axis cm p k id ->
  io_axis_indices cm id = AxOk (Some k) (Some (nth k p 0)).
Proof.
  intros (NDi & NDo & Lo & Lp & NDp & Rp & Ho) Hk Hn.
  assert (Hpk : nth k p 0 < length (out_names cm)).
  { rewrite Lo, <- Lp. apply Rp. apply nth_In. lia. }
  destruct Hn as [| |s Hs Hout|s Hnin Hs]; unfold io_axis_indices.
  - replace (Z.of_nat k >=? 0)%Z with true by lia.
    replace ((0 <=? Z.of_nat k)%Z && (Z.of_nat k <? Z.of_nat (length (in_names cm)))%Z) with true by lia.
    rewrite Nat2Z.id, Ho, nth_map_Some by lia. reflexivity.
  - replace (Z.of_nat k - Z.of_nat (length (in_names cm)) >=? 0)%Z with false by lia.
    replace (Z.of_nat (length (in_names cm)) + (Z.of_nat k - Z.of_nat (length (in_names cm))))%Z with (Z.of_nat k) by lia.
    replace ((0 <=? Z.of_nat k)%Z && (Z.of_nat k <? Z.of_nat (length (in_names cm)))%Z) with true by lia.
    rewrite Nat2Z.id, Ho, nth_map_Some by lia. reflexivity.
  - subst s. rewrite (sindex_nth _ NDi k Hk), Ho, nth_map_Some by lia.
    destruct Hout as [Hout|Hout].
    + rewrite (sindex_None _ _ Hout). reflexivity.
    + rewrite <- Hout at 1. rewrite (sindex_nth _ NDo _ Hpk). cbn [onat_eqb]. rewrite Nat.eqb_refl. reflexivity.
  - rewrite (sindex_None _ _ Hnin). subst s. rewrite (sindex_nth _ NDo _ Hpk), Ho.
    rewrite (oindex_nth p NDp k) by lia. reflexivity.
Qed.

(* conversely: whatever is returned with both indices present is an array axis that the id names, with its partner *)
Lemma io_axis_indices_sound cm p id i o :
  wf_cmap cm p -> io_axis_indices cm id = AxOk (Some i) (Some o) ->
  i < length (in_names cm) /\ o = nth i p 0 /\ names_axis cm p i id.
Proof.
  intros (NDi & NDo & Lo & Lp & NDp & Rp & Ho) H.
  unfold io_axis_indices in H. destruct id as [z|s].
  - set (n := Z.of_nat (length (in_names cm))) in *.
    destruct ((0 <=? (if (z >=? 0)%Z then z else (n + z)%Z))%Z && ((if (z >=? 0)%Z then z else (n + z)%Z) <? n)%Z) eqn:E;
      [|discriminate].
    injection H as Hi Hnth. subst i.
    set (d := if (z >=? 0)%Z then z else (n + z)%Z) in *.
    assert (Hd : Z.to_nat d < length (in_names cm)) by (unfold n in E; lia).
    rewrite Ho, nth_map_Some in Hnth by lia. injection Hnth as <-.
    split; [exact Hd|]. split; [reflexivity|].
    destruct (z >=? 0)%Z eqn:Ez; unfold d.
    + replace z with (Z.of_nat (Z.to_nat z)) at 2 by lia. apply na_idx.
    + replace z with (Z.of_nat (Z.to_nat (n + z)) - Z.of_nat (length (in_names cm)))%Z at 2 by (unfold n in *; lia).
      apply na_neg.
  - destruct (sindex s (in_names cm)) as [i'|] eqn:Ei.
    + destruct (sindex_Some _ _ _ Ei) as [Hi Hs].
      rewrite Ho, nth_map_Some in H by lia.
      destruct (sindex s (out_names cm)) as [j|] eqn:Ej.
      * cbn [onat_eqb] in H. destruct (Nat.eqb (nth i' p 0) j) eqn:Eq; [|discriminate].
        injection H as <- <-. apply Nat.eqb_eq in Eq.
        split; [exact Hi|]. split; [reflexivity|]. apply na_in; [exact Hs|]. right.
        rewrite Eq. apply (sindex_Some _ _ _ Ej).
      * injection H as <- <-. split; [exact Hi|]. split; [reflexivity|]. apply na_in; [exact Hs|]. left.
        intros Hin. destruct (In_nth _ _ EmptyString Hin) as (q & Hq & Hqs).
        rewrite <- Hqs, (sindex_nth _ NDo q Hq) in Ej. discriminate.
    + destruct (sindex s (out_names cm)) as [j|] eqn:Ej; [|discriminate].
      injection H as Hoi <-. rewrite Ho in Hoi. destruct (oindex_Some _ _ _ Hoi) as [Hi Hn].
      rewrite map_length in Hi. rewrite nth_map_Some in Hn by exact Hi. injection Hn as Hn.
      split; [lia|]. split; [now rewrite Hn|]. apply na_out.
      * intros Hin. destruct (In_nth _ _ EmptyString Hin) as (q & Hq & Hqs).
        rewrite <- Hqs, (sindex_nth _ NDi q Hq) in Ei. discriminate.
      * rewrite Hn. apply (sindex_Some _ _ _ Ej).
Qed.

(* a name carried by an input axis AND by an output axis that is not its partner is rejected *)
Lemma io_axis_indices_ambiguous cm p s i j :
  wf_cmap cm p -> sindex s (in_names cm) = Some i -> sindex s (out_names cm) = Some j -> j <> nth i p 0 ->
  io_axis_indices cm (AxName s) = AxMismatch.
Proof.
  intros (NDi & NDo & Lo & Lp & NDp & Rp & Ho) Hi Hj Hne.
  unfold io_axis_indices. rewrite Hi, Hj, Ho.
  destruct (sindex_Some _ _ _ Hi) as [Hlt _]. rewrite nth_map_Some by lia.
  cbn [onat_eqb]. destruct (Nat.eqb (nth i p 0) j) eqn:E; [|reflexivity].
  apply Nat.eqb_eq in E. congruence.
Qed.

(* the wrapper = the array routine on the ARRAY positions of the named axes, volumes without the time axis / its partner *)
Lemma tsd_image_is_array_call cm p a kt ks tid sid :
  wf_cmap cm p -> kt < length (in_names cm) -> ks < length (in_names cm) ->
  names_axis cm p kt tid -> names_axis cm p ks sid ->
  tsd_image cm a tid sid
  = ImgRes (tsd a (Z.of_nat kt) (Some (Z.of_nat ks))) (remove_at kt (in_names cm)) (remove_at (nth kt p 0) (out_names cm)).
Proof.
  intros W Ht Hs Nt Ns. unfold tsd_image.
  rewrite (io_axis_indices_resolves cm p kt tid W Ht Nt), (io_axis_indices_resolves cm p ks sid W Hs Ns). reflexivity.
Qed.

(* hence the result does not depend on HOW the two axes are named *)
Lemma tsd_image_spelling_independent cm p a kt ks tid sid tid' sid' :
  wf_cmap cm p -> kt < length (in_names cm) -> ks < length (in_names cm) ->
  names_axis cm p kt tid -> names_axis cm p ks sid -> names_axis cm p kt tid' -> names_axis cm p ks sid' ->
  tsd_image cm a tid sid = tsd_image cm a tid' sid'.
Proof.
  intros W Ht Hs Nt Ns Nt' Ns'.
  rewrite (tsd_image_is_array_call cm p a kt ks tid sid W Ht Hs Nt Ns).
  rewrite (tsd_image_is_array_call cm p a kt ks tid' sid' W Ht Hs Nt' Ns'). reflexivity.
Qed.
