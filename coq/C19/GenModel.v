(* C19 / clause 3 - faithful executable model of nipy/core/utils/generators.py
   (definitions only; proofs are in GenProofs.v).  Follows /repo after commits
   5c1bfaa (per-axis modulus) and 8bf3127 (negative int axis).

   slice_generator (generators.py:141-192), list/tuple `axis` branch:
       axis_lens = [data.shape[a] for a in axis]                     -> lens
       nmax = seq_prod(axis_lens)                                     -> seq_prod lens
       divs = [1] + [int(m) for m in np.cumprod(axis_lens)[:-1]]      -> sg_divs lens
       slice_template = [slice(0, s) for s in data.shape]             -> repeat (-1) ndim   (-1 = "whole axis")
       for n in range(nmax):
           for (a, div, alen) in zip(axis, divs, axis_lens):
               x = (n // div) % alen                                  -> sg_x n div alen   (integer arithmetic)
               slices[a] = x                                          -> set_nth a x
           yield slices, data[slices]                                 -> (tuple, nd_block ...)  / IndexError

   `type(axis) is int` branch (generators.py:165-171):
       if axis < 0: axis += data.ndim
       for j in range(data.shape[axis]): ij = (slice(None),)*axis + (j,)
*)
From Coq Require Import ZArith List Bool Arith Lia.
Import ListNotations.

(* ---------------------------------------------------------------- slice_generator *)
Fixpoint cumprod_from (acc : nat) (l : list nat) : list nat :=
  match l with
  | [] => []
  | x :: r => (acc * x) :: cumprod_from (acc * x) r
  end.
Definition cumprod (l : list nat) : list nat := cumprod_from 1 l.       (* np.cumprod *)
Definition seq_prod (l : list nat) : nat := fold_left Nat.mul l 1.       (* nipy.utils.seq_prod = reduce(mul, seq, 1) *)

Definition sg_divs (lens : list nat) : list nat := 1 :: removelast (cumprod lens).   (* [1] + cumprod[:-1] *)
Definition sg_x (n d alen : nat) : nat := (n / d) mod alen.              (* (n // div) % alen *)
(* the x computed for each entry of `axis` at step n (zip stops at the shorter list) *)
Definition sg_xs (lens : list nat) (n : nat) : list nat :=
  map (fun da => sg_x n (fst da) (snd da)) (combine (sg_divs lens) lens).

Fixpoint set_nth {A} (k : nat) (v : A) (l : list A) : list A :=
  match l, k with
  | [], _ => []
  | _ :: r, 0 => v :: r
  | h :: r, S k' => h :: set_nth k' v r
  end.

Definition whole : Z := (-1)%Z.     (* marker for slice(0, s) / slice(None) *)

(* the index tuple: template with slices[a] = x applied left to right *)
Definition sg_slices (ndim : nat) (axes xs : list nat) : list Z :=
  fold_left (fun t ax => set_nth (fst ax) (Z.of_nat (snd ax)) t) (combine axes xs) (repeat whole ndim).

(* numpy accepts the tuple iff every integer entry is below the extent *)
Fixpoint idx_ok (shape : list nat) (t : list Z) : bool :=
  match shape, t with
  | s :: sr, v :: tr => (v <? Z.of_nat s)%Z && idx_ok sr tr
  | _, [] => true
  | [], _ :: _ => false
  end.

(* row-major enumeration of all multi-indices of an array of this shape *)
Fixpoint all_indices (shape : list nat) : list (list Z) :=
  match shape with
  | [] => [[]]
  | s :: r => flat_map (fun i => map (cons (Z.of_nat i)) (all_indices r)) (seq 0 s)
  end.
Fixpoint idx_matches (t mi : list Z) : bool :=
  match t, mi with
  | [], _ => true
  | v :: tr, m :: mr => ((v =? whole)%Z || (v =? m)%Z) && idx_matches tr mr
  | _ :: _, [] => false
  end.
(* data[t] flattened (row-major), for a tuple of integers / whole-axis slices *)
Definition nd_block {A} (shape : list nat) (flat : list A) (t : list Z) : list A :=
  map snd (filter (fun p => idx_matches t (fst p)) (combine (all_indices shape) flat)).

(* a generator run: the items yielded before the first IndexError, and whether one was raised *)
Fixpoint take_ok {A} (shape : list nat) (flat : list A) (l : list (list Z)) : list (list Z * list A) * bool :=
  match l with
  | [] => ([], false)
  | t :: r => if idx_ok shape t
              then let ab := take_ok shape flat r in ((t, nd_block shape flat t) :: fst ab, snd ab)
              else ([], true)
  end.

(* Python sequence indexing `seq[a]` for an int a: -len <= a < len, negative counted from the end; else IndexError *)
Definition norm_axis (ndim : nat) (a : Z) : option nat :=
  if ((0 <=? a) && (a <? Z.of_nat ndim))%Z then Some (Z.to_nat a)
  else if ((a <? 0) && (- Z.of_nat ndim <=? a))%Z then Some (Z.to_nat (Z.of_nat ndim + a))
  else None.
Fixpoint norm_axes (ndim : nat) (axes : list Z) : option (list nat) :=
  match axes with
  | [] => Some []
  | a :: r => match norm_axis ndim a, norm_axes ndim r with
              | Some k, Some ks => Some (k :: ks)
              | _, _ => None
              end
  end.

Definition sg_tuples (shape axes : list nat) : list (list Z) :=
  let lens := map (fun a => nth a shape 0) axes in
  map (fun n => sg_slices (length shape) axes (sg_xs lens n)) (seq 0 (seq_prod lens)).

(* slice_generator(data, axis=list/tuple).  `data.shape[a]` and `slices[a] = x` both use Python
   sequence indexing, so a negative entry addresses the same position in both; an entry outside
   [-ndim, ndim) raises IndexError before anything is yielded *)
Definition sg_list {A} (shape : list nat) (flat : list A) (axes : list Z) : list (list Z * list A) * bool :=
  match norm_axes (length shape) axes with
  | Some ks => take_ok shape flat (sg_tuples shape ks)
  | None => ([], true)
  end.

(* slice_generator(data, axis=int):
       if axis < 0: axis += data.ndim
       for j in range(data.shape[axis]): (slice(None),)*axis + (j,)
   `data.shape[axis]` is Python sequence indexing (norm_axis); `(slice(None),)*axis` repeats
   max(axis, 0) times (Z.to_nat) - so an axis below -ndim, still negative after the single wrap,
   would index from the end with an empty prefix (outside the documented domain; modelled as is) *)
Definition sg_int_tuples (shape : list nat) (axis : Z) (k : nat) : list (list Z) :=
  map (fun j => repeat whole (Z.to_nat axis) ++ [Z.of_nat j]) (seq 0 (nth k shape 0)).
Definition sg_int {A} (shape : list nat) (flat : list A) (axis : Z) : list (list Z * list A) * bool :=
  let axis := if (axis <? 0)%Z then (axis + Z.of_nat (length shape))%Z else axis in
  match norm_axis (length shape) axis with
  | Some k => take_ok shape flat (sg_int_tuples shape axis k)
  | None => ([], true)
  end.

(* the documented enumeration: "first axis is fastest changing" *)
Definition doc_digit (lens : list nat) (j n : nat) : nat :=
  (n / seq_prod (firstn j lens)) mod (nth j lens 0).
Definition doc_index (lens : list nat) (n : nat) : list nat :=
  map (fun j => doc_digit lens j n) (seq 0 (length lens)).

(* ---------------------------------------------------------------- parcels (generators.py:26-93) *)
(* np.unique on integers: sorted distinct values *)
Fixpoint insert_u (x : Z) (l : list Z) : list Z :=
  match l with
  | [] => [x]
  | h :: r => if (x <? h)%Z then x :: l else if (x =? h)%Z then l else h :: insert_u x r
  end.
Definition unique (l : list Z) : list Z := fold_right insert_u [] l.

Inductive label := One (v : Z) | Many (vs : list Z).     (* scalar label | tuple/list label *)

Definition mask_eq (data : list Z) (l : Z) : list bool := map (fun d => (d =? l)%Z) data.        (* np.equal(data, l) *)
(* v = 0; for l in label: v += np.equal(data, l); v.astype(bool) *)
Definition mask_many (data : list Z) (ls : list Z) : list bool :=
  map (fun c => negb (c =? 0)) (fold_left (fun (v : list nat) (l : Z) => map (fun p : nat * bool => fst p + (if snd p then 1 else 0)) (combine v (mask_eq data l)))
                                          ls (map (fun _ => 0) data)).
Definition label_in (lab : label) (exclude : list Z) : bool :=
  match lab with One v => existsb (Z.eqb v) exclude | Many _ => false end.   (* `label in exclude`, exclude holding scalars *)
Definition parcels (data : list Z) (labels : option (list label)) (exclude : list Z) : list (list bool) :=
  let labs := match labels with None => map One (unique data) | Some l => l end in
  flat_map (fun lab => if label_in lab exclude then []
                       else [match lab with One v => mask_eq data v | Many vs => mask_many data vs end]) labs.
Definition parcels_default (data : list Z) : list (list bool) := parcels data None [].

(* ---------------------------------------------------------------- data_generator (generators.py:96-116) *)
(* iterable=None: range(data.shape[0]) paired with the rows *)
Definition dg_default {A} (rows : list A) : list (nat * A) := combine (seq 0 (length rows)) rows.
(* a boolean-mask item: data[mask], row-major *)
Definition bool_select {A} (flat : list A) (mask : list bool) : list A :=
  map snd (filter fst (combine mask flat)).
Definition dg_masks {A} (flat : list A) (masks : list (list bool)) : list (list bool * list A) :=
  map (fun m => (m, bool_select flat m)) masks.

(* ---------------------------------------------------------------- slice_parcels (generators.py:208-239) *)
(* for i, d in slice_generator(data, axis): for p in parcels(d, labels): yield (i, p) *)
Definition slice_parcels (items : list (list Z * list Z)) (labels : option (list label)) : list (list Z * list bool) :=
  flat_map (fun it => map (fun p => (fst it, p)) (parcels (snd it) labels [])) items.

(* ---------------------------------------------------------------- comparison helpers for the harness *)
Fixpoint leqb {A} (eqb : A -> A -> bool) (a b : list A) : bool :=
  match a, b with
  | [], [] => true
  | x :: a', y :: b' => eqb x y && leqb eqb a' b'
  | _, _ => false
  end.
Definition item_eqb (a b : list Z * list Z) : bool := leqb Z.eqb (fst a) (fst b) && leqb Z.eqb (snd a) (snd b).
Definition run_eqb (a b : list (list Z * list Z) * bool) : bool :=
  leqb item_eqb (fst a) (fst b) && Bool.eqb (snd a) (snd b).
Definition masks_eqb (a b : list (list bool)) : bool := leqb (leqb Bool.eqb) a b.
Definition sp_eqb (a b : list (list Z * list bool)) : bool :=
  leqb (fun x y => leqb Z.eqb (fst x) (fst y) && leqb Bool.eqb (snd x) (snd y)) a b.
