(* C19 / clause 4 - the exact bookkeeping of nipy/algorithms/utils/pca.py (definitions + proofs).

   pca.py:184   pcntvar = D * 100 / D.sum()                         -> pcntvar
   pca.py:181-183 order = argsort(-D); D = D[order]                 -> hypothesis `noninc D`
   pca.py:219-231 (_get_covariance)
        for s_slice in slices:                                      -> list of slabs
            YX = dot(UX, Y) [* rmse scales]                         -> the column y of a voxel (projected, scaled)
            YX = YX * msk_slice                                     -> y_i * w(bit)
            C += dot(YX, YX.T)                                      -> C[i][j] += sum_v (y_i v * w v) * (y_j v * w v)
   The eigen-decomposition itself (npl.eigh / npl.svd) is an oracle; its contract is checked
   numerically on the implementation by harness/props/c19.py `pca_oracles`. *)
From Coq Require Import List QArith Lqa Ring.
Import ListNotations.

(* ------------------------------------------------------------------ percent variance *)
Definition qsum (l : list Q) : Q := fold_right Qplus 0 l.
Definition pcntvar (D : list Q) : list Q := map (fun d => d * 100 / qsum D) D.

Lemma qsum_scaled (s : Q) (l : list Q) : ~ s == 0 ->
  qsum (map (fun d => d * 100 / s) l) == qsum l * 100 / s.
Proof.
  intros Hs. induction l as [|a l IH]; simpl.
  - field. assumption.
  - rewrite IH. field. assumption.
Qed.

Lemma pca_percent_sums_100_proof : forall D : list Q, ~ qsum D == 0 -> qsum (pcntvar D) == 100.
Proof.
  intros D H. unfold pcntvar. rewrite qsum_scaled by assumption. field. assumption.
Qed.

Fixpoint noninc (l : list Q) : Prop :=
  match l with
  | a :: r => match r with b :: _ => b <= a | [] => True end /\ noninc r
  | [] => True
  end.

Lemma scaled_noninc (s : Q) (l : list Q) : 0 < s -> noninc l -> noninc (map (fun d => d * 100 / s) l).
Proof.
  intros Hs. induction l as [|a r IH]; simpl; [auto|].
  intros [H1 H2]. split; [|apply IH; assumption].
  destruct r as [|b r']; simpl; [exact I|].
  unfold Qdiv. apply Qmult_le_compat_r.
  - apply Qmult_le_compat_r; [assumption|lra].
  - apply Qlt_le_weak, Qinv_lt_0_compat. assumption.
Qed.

Lemma pca_percent_order_proof : forall D : list Q, noninc D -> 0 < qsum D -> noninc (pcntvar D).
Proof. intros D H Hs. apply scaled_noninc; assumption. Qed.

Lemma pca_percent_nonneg_proof : forall D : list Q, Forall (fun d => 0 <= d) D -> 0 < qsum D ->
  Forall (fun p => 0 <= p) (pcntvar D).
Proof.
  intros D H Hs. unfold pcntvar. apply Forall_forall. intros p Hp.
  apply in_map_iff in Hp. destruct Hp as [d [E Hd]]. subst p.
  rewrite Forall_forall in H. specialize (H d Hd).
  unfold Qdiv. apply Qmult_le_0_compat; [apply Qmult_le_0_compat; [assumption|lra]|].
  apply Qlt_le_weak, Qinv_lt_0_compat. assumption.
Qed.

(* ------------------------------------------------------------------ mask-weighted covariance *)
Section MaskCov.
  Variables (R : Type) (r0 r1 : R) (radd rmul rsub : R -> R -> R) (ropp : R -> R).
  Hypothesis Rth : ring_theory r0 r1 radd rmul rsub ropp (@eq R).
  Add Ring Rr : Rth.

  (* a voxel: its mask bit and its column (component index -> projected, scaled value) *)
  Definition voxel : Type := (bool * (nat -> R))%type.
  Definition weight (b : bool) : R := if b then r1 else r0.
  Definition rsum (l : list R) : R := fold_right radd r0 l.

  (* entry (i,j) of dot(YX, YX.T) for one slab, YX already multiplied by the mask *)
  Definition slab_cov (i j : nat) (slab : list voxel) : R :=
    rsum (map (fun v => rmul (rmul (snd v i) (weight (fst v))) (rmul (snd v j) (weight (fst v)))) slab).
  (* C = 0; for slab in slabs: C += dot(YX, YX.T) *)
  Definition cov_masked (slabs : list (list voxel)) (i j : nat) : R :=
    fold_left (fun C slab => radd C (slab_cov i j slab)) slabs r0.

  (* the masked-in voxels, in array order, and the plain covariance sum over them *)
  Definition extracted (slabs : list (list voxel)) : list (nat -> R) :=
    map snd (filter fst (concat slabs)).
  Definition cov_plain (cols : list (nat -> R)) (i j : nat) : R :=
    rsum (map (fun y => rmul (y i) (y j)) cols).

  Lemma rsum_app a b : rsum (a ++ b) = radd (rsum a) (rsum b).
  Proof. induction a as [|x a IH]; simpl; [ring|rewrite IH; ring]. Qed.

  Lemma slab_cov_extracted i j slab :
    slab_cov i j slab = cov_plain (map snd (filter fst slab)) i j.
  Proof.
    unfold slab_cov, cov_plain. induction slab as [|[b y] slab IH]; simpl; [reflexivity|].
    rewrite IH. destruct b; simpl; ring.
  Qed.

  Lemma cov_masked_acc slabs i j : forall C,
    fold_left (fun C slab => radd C (slab_cov i j slab)) slabs C
    = radd C (cov_plain (extracted slabs) i j).
  Proof.
    induction slabs as [|slab slabs IH]; intros C; simpl.
    - unfold extracted, cov_plain. simpl. ring.
    - rewrite IH.
      assert (E : cov_plain (extracted (slab :: slabs)) i j
                  = radd (slab_cov i j slab) (cov_plain (extracted slabs) i j)).
      { rewrite slab_cov_extracted. unfold extracted, cov_plain. simpl concat.
        rewrite filter_app, !map_app, rsum_app. reflexivity. }
      rewrite E. ring.
  Qed.

  Lemma pca_mask_equals_extracted_proof : forall slabs i j,
    cov_masked slabs i j = cov_plain (extracted slabs) i j.
  Proof. intros slabs i j. unfold cov_masked. rewrite cov_masked_acc. ring. Qed.
End MaskCov.

