(* C19 (mask part): machine-integer arithmetic in nipy/labs/mask.py.
   Two defects found by the input-class oracles were repaired in /repo (6617727: the session
   votes of compute_mask_sessions are summed in the platform integer instead of int8; 4d1b43b:
   compute_mask converts integer-typed sorted values to float64 before taking gaps and the
   mid-point).  Positive statements for the current code, and the wrap-around behaviour of the
   old code for the record (`..._before_fix`). *)
From Coq Require Import List ZArith Bool QArith Lia Lqa.
From NV.C19 Require Import MaskModel.
Import ListNotations.
Close Scope Q_scope.
Local Open Scope Z_scope.

(* two's-complement / modular wrap of a `bits`-wide integer *)
Definition wrap_signed (bits : Z) (z : Z) : Z := (z + 2 ^ (bits - 1)) mod 2 ^ bits - 2 ^ (bits - 1).
Definition wrap_unsigned (bits : Z) (z : Z) : Z := z mod 2 ^ bits.

(* `this_mask = this_mask.astype(<int of width bits>)`; `mask += this_mask` *)
Definition votes_wrapped (bits : Z) (votes : list Z) : Z := fold_left (fun acc v => wrap_signed bits (acc + v)) votes 0.
Definition votes_exact (votes : list Z) : Z := fold_left Z.add votes 0.

Lemma wrap_signed_small bits z : 0 < bits -> - 2 ^ (bits - 1) <= z < 2 ^ (bits - 1) -> wrap_signed bits z = z.
Proof.
  intros Hb Hz. unfold wrap_signed.
  assert (E : 2 ^ bits = 2 * 2 ^ (bits - 1)).
  { replace bits with (Z.succ (bits - 1)) at 1 by lia. apply Z.pow_succ_r. lia. }
  rewrite Z.mod_small by lia. lia.
Qed.

(* current code (np.int_, 64 bits): the vote count is exact for any realistic number of sessions *)
Lemma votes_platform_int_exact_proof (votes : list Z) :
  Forall (fun v => 0 <= v <= 1) votes -> Z.of_nat (length votes) < 2 ^ 62 ->
  votes_wrapped 64 votes = votes_exact votes.
Proof.
  unfold votes_wrapped, votes_exact.
  assert (G : forall acc, 0 <= acc -> acc + Z.of_nat (length votes) < 2 ^ 62 ->
              Forall (fun v => 0 <= v <= 1) votes ->
              fold_left (fun a v => wrap_signed 64 (a + v)) votes acc = fold_left Z.add votes acc).
  { induction votes as [|v votes IH]; intros acc Ha Hl Hf; [reflexivity|].
    inversion Hf as [|v' l' Hv Hr]; subst. cbn [fold_left length] in *.
    assert (P62 : 2 ^ 62 < 2 ^ (64 - 1)) by (vm_compute; reflexivity).
    rewrite wrap_signed_small by lia. apply IH; [lia| |exact Hr]. lia. }
  intros Hf Hl. apply G; [lia|lia|exact Hf].
Qed.

(* old code (int8): 128 votes wrap to -128 and the voxel is dropped *)
Lemma sessions_votes_before_fix_proof :
  exists votes : list Z,
    Forall (fun v => v = 1) votes /\ length votes = 128%nat /\
    votes_exact votes = 128 /\ votes_wrapped 8 votes = -128 /\
    intersect_sel (inject_Z 64) [votes_exact votes] = [true] /\
    intersect_sel (inject_Z 64) [votes_wrapped 8 votes] = [false].
Proof.
  exists (repeat 1 128). split; [apply Forall_forall; intros x H; now apply repeat_spec in H|].
  vm_compute. repeat split; reflexivity.
Qed.

(* mid-point 0.5 * (sorted[ia] + sorted[ia+1]) *)
Definition midpoint_exact (u v : Z) : Q := ((1 # 2) * inject_Z (u + v))%Q.
Definition midpoint_uint8 (u v : Z) : Q := ((1 # 2) * inject_Z (wrap_unsigned 8 (u + v)))%Q.

(* current code (values converted to float64; exact for |values| < 2^52): the threshold taken at
   a gap u < v separates the two values - u is excluded, v is included by `>=` *)
Lemma midpoint_separates_proof (u v : Z) : u < v ->
  Qle_bool (midpoint_exact u v) (inject_Z u) = false /\ Qle_bool (midpoint_exact u v) (inject_Z v) = true.
Proof.
  intros H. unfold midpoint_exact. rewrite inject_Z_plus.
  assert (Hq : (inject_Z u < inject_Z v)%Q) by (now rewrite <- Zlt_Qlt).
  split.
  - destruct (Qle_bool ((1 # 2) * (inject_Z u + inject_Z v)) (inject_Z u)) eqn:E; [|reflexivity].
    apply Qle_bool_iff in E. exfalso. lra.
  - apply Qle_bool_iff. lra.
Qed.

(* old code on a uint8 volume: 190 + 199 wraps to 133, the threshold falls below both values *)
Lemma midpoint_uint8_before_fix_proof :
  exists u v : Z, 0 <= u <= 255 /\ 0 <= v <= 255 /\ u < v /\
    Qle_bool (midpoint_uint8 u v) (inject_Z u) = true /\
    mask_threshold [inject_Z 190; inject_Z 199; inject_Z 190; inject_Z 199] (1 # 4) (3 # 4) false = Some (midpoint_exact u v).
Proof.
  exists 190, 199. vm_compute. repeat split; try reflexivity; discriminate.
Qed.
