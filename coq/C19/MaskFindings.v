(* C19 (mask part): the two machine-integer defects of nipy/labs/mask.py found by the
   input-class oracles, modelled as the code is (fixed-width wrap-around) and refuted against
   the exact rule of MaskModel.v. *)
From Coq Require Import List ZArith Bool QArith.
From NV.C19 Require Import MaskModel.
Import ListNotations.
Close Scope Q_scope.
Local Open Scope Z_scope.

(* two's-complement / modular wrap of a `bits`-wide integer *)
Definition wrap_signed (bits : Z) (z : Z) : Z := (z + 2 ^ (bits - 1)) mod 2 ^ bits - 2 ^ (bits - 1).
Definition wrap_unsigned (bits : Z) (z : Z) : Z := z mod 2 ^ bits.

(* compute_mask_sessions: `this_mask = this_mask.astype(np.int8)`; `mask += this_mask` *)
Definition votes_int8 (votes : list Z) : Z := fold_left (fun acc v => wrap_signed 8 (acc + v)) votes 0.
Definition votes_exact (votes : list Z) : Z := fold_left Z.add votes 0.

Lemma sessions_votes_refuted_proof :
  exists votes : list Z,
    Forall (fun v => v = 1) votes /\ length votes = 128%nat /\
    votes_exact votes = 128 /\ votes_int8 votes = -128 /\
    (* rule `mask > threshold * n` with threshold 1/2: kept with exact votes, dropped with the int8 sum *)
    intersect_sel (inject_Z 64) [votes_exact votes] = [true] /\
    intersect_sel (inject_Z 64) [votes_int8 votes] = [false].
Proof.
  exists (repeat 1 128). split; [apply Forall_forall; intros x H; now apply repeat_spec in H|].
  vm_compute. repeat split; reflexivity.
Qed.

(* compute_mask on a uint8 volume: the mid-point 0.5 * (sorted[ia] + sorted[ia+1]) with the sum taken in uint8 *)
Definition midpoint_exact (u v : Z) : Q := ((1 # 2) * inject_Z (u + v))%Q.
Definition midpoint_uint8 (u v : Z) : Q := ((1 # 2) * inject_Z (wrap_unsigned 8 (u + v)))%Q.

Lemma midpoint_uint8_refuted_proof :
  exists u v : Z, 0 <= u <= 255 /\ 0 <= v <= 255 /\ u < v /\
    (* the exact mid-point separates u from v, the wrapped one lies below both *)
    Qle_bool (midpoint_exact u v) (inject_Z u) = false /\ Qle_bool (midpoint_exact u v) (inject_Z v) = true /\
    Qle_bool (midpoint_uint8 u v) (inject_Z u) = true /\
    (* and it agrees with the model's threshold on the volume {190, 190, 199, 199}, window [1, 3) *)
    mask_threshold [inject_Z 190; inject_Z 199; inject_Z 190; inject_Z 199] (1 # 4) (3 # 4) false = Some (midpoint_exact u v).
Proof.
  exists 190, 199. vm_compute. repeat split; try reflexivity; discriminate.
Qed.
