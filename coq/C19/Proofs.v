From Coq Require Import String.
From Coq Require Import List Arith Lia Bool Permutation PeanoNat QArith.
From NV.Lib Require Import SlotAlg.
From NV.C19 Require Import Model.
Import ListNotations.
Close Scope Q_scope.

Lemma perm_length_n l n : Permutation l (seq 0 n) -> length l = n.
Proof. intros P. rewrite (Permutation_length P). apply seq_length. Qed.

Lemma perm_nth_lt l n k : Permutation l (seq 0 n) -> k < n -> nth k l 0 < n.
Proof.
  intros P Hk. assert (In (nth k l 0) (seq 0 n)).
  { eapply Permutation_in; [exact P|]. apply nth_In. rewrite (perm_length_n _ _ P). exact Hk. }
  apply in_seq in H. lia.
Qed.

Lemma eo_perm n : Permutation (range_step 0 2 n ++ range_step 1 2 n) (seq 0 n).
Proof. apply evens_odds_perm. reflexivity. Qed.
Lemma oe_perm n : Permutation (range_step 1 2 n ++ range_step 0 2 n) (seq 0 n).
Proof. apply evens_odds_perm. reflexivity. Qed.

(* --- reference expressions follow the documented order, for every n --- *)
Lemma ok_arange n : slots_ok n (eval n SArange) (fun k => k).
Proof. intros k Hk. simpl. now rewrite seq_nth. Qed.

Lemma ok_rev n e acq :
  length (eval n e) = n -> (forall k, k < n -> acq k < n) ->
  slots_ok n (eval n e) acq -> slots_ok n (eval n (SRev e)) (fun k => n - 1 - acq k).
Proof.
  intros Hl Hb H k Hk. simpl. specialize (Hb k Hk).
  rewrite rev_nth by lia. rewrite Hl.
  replace (n - S (n - 1 - acq k)) with (acq k) by lia. now apply H.
Qed.

Lemma ok_argsort_eo n : slots_ok n (eval n (SArgsort evens_odds)) (eo n).
Proof. intros k Hk. simpl. unfold eo. apply argsort_inverse with (n := n); [apply eo_perm|exact Hk]. Qed.
Lemma ok_argsort_oe n : slots_ok n (eval n (SArgsort odds_evens)) (oe n).
Proof. intros k Hk. simpl. unfold oe. apply argsort_inverse with (n := n); [apply oe_perm|exact Hk]. Qed.

Lemma half_lt n k : k < n -> half n k < n.
Proof.
  intros Hk. unfold half.
  assert (Hd := Nat.div_mod k 2 ltac:(lia)).
  assert (Hm := Nat.mod_upper_bound k 2 ltac:(lia)).
  assert (Hd' := Nat.div_mod (n + 1) 2 ltac:(lia)).
  assert (Hm' := Nat.mod_upper_bound (n + 1) 2 ltac:(lia)).
  destruct (Nat.even k) eqn:E.
  - lia.
  - assert (O : Nat.odd k = true) by (unfold Nat.odd; now rewrite E).
    apply Nat.odd_spec in O. destruct O as [j Hj]. lia.
Qed.

Lemma div2_double j : 2 * j / 2 = j.
Proof. symmetry. apply (Nat.div_unique (2 * j) 2 j 0); lia. Qed.
Lemma div2_double1 j : (2 * j + 1) / 2 = j.
Proof. symmetry. apply (Nat.div_unique (2 * j + 1) 2 j 1); lia. Qed.

Lemma ok_half n : slots_ok n (eval n evens_odds) (half n).
Proof.
  intros k Hk. simpl. unfold half.
  assert (L0 : length (range_step 0 2 n) = (n + 1) / 2).
  { rewrite range_step_length. unfold range_count. f_equal. lia. }
  destruct (Nat.even k) eqn:E.
  - apply Nat.even_spec in E. destruct E as [j ->].
    rewrite div2_double.
    assert (Hj : j < range_count 0 2 n) by (apply range_count_complete; lia).
    rewrite app_nth1 by (rewrite range_step_length; exact Hj).
    rewrite range_step_nth by exact Hj. lia.
  - assert (O : Nat.odd k = true) by (unfold Nat.odd; now rewrite E).
    apply Nat.odd_spec in O. destruct O as [j ->].
    rewrite div2_double1.
    rewrite app_nth2 by (rewrite L0; lia). rewrite L0.
    replace ((n + 1) / 2 + j - (n + 1) / 2) with j by lia.
    assert (Hj : j < range_count 1 2 n) by (apply range_count_complete; lia).
    rewrite range_step_nth by exact Hj. lia.
Qed.

Lemma eval_perm_len n e : perm_shape e = true -> length (eval n e) = n.
Proof. intros H. apply perm_length_n. now apply perm_shape_sound. Qed.

Lemma eo_lt n k : k < n -> eo n k < n.
Proof. intros. unfold eo. apply perm_nth_lt; [apply eo_perm|assumption]. Qed.
Lemma oe_lt n k : k < n -> oe n k < n.
Proof. intros. unfold oe. apply perm_nth_lt; [apply oe_perm|assumption]. Qed.

Definition follows_doc (re : string * sexpr) (de : string * (nat -> nat -> nat)) : Prop :=
  fst re = fst de /\ forall n, slots_ok n (eval n (snd re)) (snd de n).

Lemma ref_follows_doc : Forall2 follows_doc ref_table doc_table.
Proof.
  unfold ref_table, doc_table.
  repeat (apply Forall2_cons; [split; [reflexivity|intro n; cbn [fst snd]]|]); try apply Forall2_nil.
  - apply ok_arange.
  - apply (ok_rev n SArange (fun k => k)); [simpl; apply seq_length|auto|apply ok_arange].
  - apply ok_argsort_eo.
  - apply ok_argsort_oe.
  - apply (ok_rev n (SArgsort evens_odds) (eo n));
      [apply eval_perm_len; reflexivity|apply eo_lt|apply ok_argsort_eo].
  - cbn [eval]. destruct (Nat.even n); [apply ok_argsort_oe|apply ok_argsort_eo].
  - apply ok_half.
  - apply (ok_rev n evens_odds (half n));
      [apply eval_perm_len; reflexivity|apply half_lt|apply ok_half].
Qed.

(* closed forms of the documented orders *)
Lemma eo_is_closed n k : k < n -> eo n k = eo_closed n k.
Proof.
  intros Hk. unfold eo, eo_closed.
  assert (L0 : length (range_step 0 2 n) = (n + 1) / 2).
  { rewrite range_step_length. unfold range_count. f_equal. lia. }
  assert (Hd := Nat.div_mod (n + 1) 2 ltac:(lia)).
  assert (Hm := Nat.mod_upper_bound (n + 1) 2 ltac:(lia)).
  destruct (Nat.ltb_spec k ((n + 1) / 2)) as [H|H].
  - rewrite app_nth1 by (rewrite L0; exact H).
    rewrite range_step_nth by (rewrite <- range_step_length, L0; exact H). lia.
  - rewrite app_nth2 by (rewrite L0; lia). rewrite L0.
    rewrite range_step_nth; [lia|]. apply range_count_complete; lia.
Qed.

Lemma oe_is_closed n k : k < n -> oe n k = oe_closed n k.
Proof.
  intros Hk. unfold oe, oe_closed.
  assert (L1 : length (range_step 1 2 n) = n / 2).
  { rewrite range_step_length. unfold range_count. f_equal. lia. }
  assert (Hd := Nat.div_mod n 2 ltac:(lia)).
  assert (Hm := Nat.mod_upper_bound n 2 ltac:(lia)).
  destruct (Nat.ltb_spec k (n / 2)) as [H|H].
  - rewrite app_nth1 by (rewrite L1; exact H).
    rewrite range_step_nth by (rewrite <- range_step_length, L1; exact H). lia.
  - rewrite app_nth2 by (rewrite L1; lia). rewrite L1.
    rewrite range_step_nth; [lia|]. apply range_count_complete; lia.
Qed.

(* every schedule whose inlined expression passes the shape checker is a
   permutation of the slots for every n *)
Definition table_perm_ok (tbl : list (string * sexpr)) : bool :=
  forallb (fun p => match inline tbl 20 (snd p) with Some e' => perm_shape e' | None => false end) tbl.

Lemma table_perm_sound tbl :
  table_perm_ok tbl = true ->
  forall name e, In (name, e) tbl ->
  forall n, exists l, eval_in tbl 20 n e = Some l /\ Permutation l (seq 0 n).
Proof.
  intros H name e Hin n. unfold table_perm_ok in H. rewrite forallb_forall in H.
  specialize (H _ Hin). cbn [snd] in H. unfold eval_in.
  destruct (inline tbl 20 e) as [e'|]; [|discriminate].
  exists (eval n e'). split; [reflexivity|]. now apply perm_shape_sound.
Qed.

(* times lie in [0, TR) and are pairwise distinct *)
Lemma time_in_TR (TR : Q) n s : (0 < TR)%Q -> s < n ->
  (0 <= inject_Z (Z.of_nat s) * TR / inject_Z (Z.of_nat n) /\
   inject_Z (Z.of_nat s) * TR / inject_Z (Z.of_nat n) < TR)%Q.
Proof.
  intros HTR Hs.
  assert (Hn : (0 < inject_Z (Z.of_nat n))%Q).
  { unfold Qlt, inject_Z. simpl. lia. }
  assert (Hs0 : (0 <= inject_Z (Z.of_nat s))%Q).
  { unfold Qle, inject_Z. simpl. lia. }
  assert (Hsn : (inject_Z (Z.of_nat s) < inject_Z (Z.of_nat n))%Q).
  { unfold Qlt, inject_Z. simpl. lia. }
  split.
  - apply Qle_shift_div_l; [exact Hn|]. rewrite Qmult_0_l.
    apply Qmult_le_0_compat; [exact Hs0|apply Qlt_le_weak; exact HTR].
  - apply Qlt_shift_div_r; [exact Hn|]. rewrite (Qmult_comm TR).
    apply Qmult_lt_compat_r; assumption.
Qed.

Lemma time_injective (TR : Q) n s t : (0 < TR)%Q -> 0 < n ->
  (inject_Z (Z.of_nat s) * TR / inject_Z (Z.of_nat n) ==
   inject_Z (Z.of_nat t) * TR / inject_Z (Z.of_nat n))%Q -> s = t.
Proof.
  intros HTR Hn H.
  assert (Hn' : ~ (inject_Z (Z.of_nat n) == 0)%Q).
  { unfold Qeq, inject_Z. simpl. lia. }
  assert (HTR' : ~ (TR == 0)%Q) by (intro E; rewrite E in HTR; discriminate).
  assert (Hinv : ~ (/ inject_Z (Z.of_nat n) == 0)%Q).
  { intro E. assert (X := Qmult_inv_r _ Hn'). rewrite E, Qmult_0_r in X. discriminate. }
  unfold Qdiv in H. apply Qmult_inj_r in H; [|exact Hinv].
  apply Qmult_inj_r in H; [|exact HTR'].
  unfold Qeq, inject_Z in H. simpl in H. lia.
Qed.
