(* C19 (slice-timing part): reference schedule expressions, the documented
   acquisition orders, times over Q and the registry naming rule.
   The expressions actually in /repo are in NV.Generated.SliceTiming
   (regenerated on every run); Properties.v ties the two together. *)
From Coq Require Import String.
From Coq Require Import List Arith Lia Bool Permutation PeanoNat QArith.
From NV.Lib Require Import SlotAlg.
Import ListNotations.
Close Scope Q_scope.
Open Scope string_scope.

Definition evens_odds := SApp (SRange 0 2) (SRange 1 2).
Definition odds_evens := SApp (SRange 1 2) (SRange 0 2).

Definition ref_table : list (string * sexpr) := [
  ("st_01234", SArange);
  ("st_43210", SRev SArange);
  ("st_02413", SArgsort evens_odds);
  ("st_13024", SArgsort odds_evens);
  ("st_42031", SRev (SArgsort evens_odds));
  ("st_odd0_even1", SIfEven (SArgsort odds_evens) (SArgsort evens_odds));
  ("st_03142", evens_odds);
  ("st_41302", SRev evens_odds)
].

(* documented acquisition order: acq name n k = the slice collected k-th
   (docstrings of timefuncs.py) *)
Definition eo (n k : nat) : nat := nth k (range_step 0 2 n ++ range_step 1 2 n) 0.
Definition oe (n k : nat) : nat := nth k (range_step 1 2 n ++ range_step 0 2 n) 0.
Definition half (n k : nat) : nat := if Nat.even k then k / 2 else (n + 1) / 2 + k / 2.

Definition doc_table : list (string * (nat -> nat -> nat)) := [
  ("st_01234", fun n k => k);
  ("st_43210", fun n k => n - 1 - k);
  ("st_02413", eo);
  ("st_13024", oe);
  ("st_42031", fun n k => n - 1 - eo n k);
  ("st_odd0_even1", fun n k => if Nat.even n then oe n k else eo n k);
  ("st_03142", half);
  ("st_41302", fun n k => n - 1 - half n k)
].

(* closed forms of eo / oe, to make the documentation readable:
   eo n k = 2k for k < ceil(n/2), else 2(k - ceil(n/2)) + 1 *)
Definition eo_closed (n k : nat) : nat := if Nat.ltb k ((n + 1) / 2) then 2 * k else 2 * (k - (n + 1) / 2) + 1.
Definition oe_closed (n k : nat) : nat := if Nat.ltb k (n / 2) then 2 * k + 1 else 2 * (k - n / 2).

Definition slots_ok (n : nat) (slots : list nat) (acq : nat -> nat) : Prop :=
  forall k, k < n -> nth (acq k) slots 0 = k.

(* times: slot * TR / n over Q *)
Definition times (TR : Q) (n : nat) (slots : list nat) : list Q :=
  map (fun s => (inject_Z (Z.of_nat s) * TR / inject_Z (Z.of_nat n))%Q) slots.

(* registry rule of _dec_register_stf / _derived_func *)
Definition short_name (s : string) : option string :=
  if String.prefix "st_" s then Some (String.substring 3 (String.length s - 3) s) else None.

Definition registry_keys (funcs : list string) (aliases : list (string * string)) : list (string * string) :=
  flat_map (fun f => (f, f) :: match short_name f with Some sn => [(sn, f)] | None => [] end) funcs
  ++ map (fun p => (fst p, snd p)) aliases.

Fixpoint str_mem (s : string) (l : list string) : bool :=
  match l with [] => false | x :: r => String.eqb x s || str_mem s r end.
Fixpoint str_nodup (l : list string) : bool :=
  match l with [] => true | x :: r => negb (str_mem x r) && str_nodup r end.

(* used by the correspondence *)
Definition model_slots (tbl : list (string * sexpr)) (name : string) (n : nat) : option (list nat) :=
  match lookup tbl name with
  | Some e => eval_in tbl 20 n e
  | None => None
  end.
Definition olist_eqb (a : option (list nat)) (b : list nat) : bool :=
  match a with Some l => (fix eqb (x y : list nat) := match x, y with
     | [], [] => true | p :: x', q :: y' => Nat.eqb p q && eqb x' y' | _, _ => false end) l b
  | None => false end.
