(* C19 (mask part): model of nipy/labs/mask.py
     compute_mask (threshold search, lines 236-252), intersect_masks rule
     (lines 365-384), largest_cc (lines 37-47) and
     threshold_connect_components (lines 69-78) given the labelling oracle.
   Intensities are exact rationals (Q). *)
From Coq Require Import List Arith Lia Bool ZArith PeanoNat QArith Qround.
From NV.Lib Require Import Harness.
Import ListNotations.
Close Scope Q_scope.

(* np.sort: insertion sort (np.sort is an oracle; the correspondence compares
   the threshold computed from this sort with the implementation's) *)
Fixpoint insert_sorted (x : Q) (l : list Q) : list Q :=
  match l with
  | [] => [x]
  | y :: r => if Qle_bool x y then x :: l else y :: insert_sorted x r
  end.
Definition sortq (l : list Q) : list Q := fold_right insert_sorted [] l.

(* ndarray.argmax(): index of the FIRST maximum *)
Fixpoint argmax_from (best : Q) (bi i : nat) (l : list Q) : nat :=
  match l with
  | [] => bi
  | x :: r => if negb (Qle_bool x best) then argmax_from x i (S i) r else argmax_from best bi (S i) r
  end.
Definition argmax (l : list Q) : option nat :=
  match l with [] => None | x :: r => Some (argmax_from x 0 1 r) end.

(* l[lo:hi] for 0 <= lo, hi (clipped like Python) *)
Definition pyslice (lo hi : nat) (l : list Q) : list Q := firstn (hi - lo) (skipn lo l).

Fixpoint zipminus (la lb : list Q) : list Q :=
  match la, lb with
  | x :: la', y :: lb' => (x - y)%Q :: zipminus la' lb'
  | _, _ => []
  end.

(* sorted_input .. threshold of compute_mask.  None = the implementation raises
   (empty window: argmax of an empty array) or the call is outside the
   modelled domain 0 <= floor(m n) and floor(M n) < n (i.e. 0 <= m, M < 1). *)
Definition mask_threshold (xs : list Q) (m M : Q) (exclude_zeros : bool) : option Q :=
  let s0 := sortq xs in
  let s := if exclude_zeros then filter (fun x => negb (Qeq_bool x 0)) s0 else s0 in
  let n := Z.of_nat (length s) in
  let li := Qfloor (m * inject_Z n) in
  let ls := Qfloor (M * inject_Z n) in
  if (li <? 0)%Z || (n <=? ls)%Z then None
  else
    let li := Z.to_nat li in let ls := Z.to_nat ls in
    let delta := zipminus (pyslice (li + 1) (ls + 1) s) (pyslice li ls s) in
    match argmax delta with
    | None => None
    | Some ia =>
        match nth_error s (ia + li), nth_error s (ia + li + 1) with
        | Some u, Some v => Some ((1 # 2) * (u + v))%Q
        | _, _ => None
        end
    end.

(* mask = (reference_volume >= threshold)   (cc=False, opening=0) *)
Definition compute_mask_raw (xs ref : list Q) (m M : Q) (exclude_zeros : bool) : option (list bool) :=
  match mask_threshold xs m M exclude_zeros with
  | None => None
  | Some t => Some (map (fun x => Qle_bool t x) ref)
  end.

(* intersect_masks: grp_mask = sum of the masks; grp_mask > threshold * n with
   threshold = min(threshold, 1 - 1e-7).  `tn` is the product threshold*n (the
   harness threads the implementation's floating-point product; the theorem
   `intersect_threshold_spec` is about the exact product). *)
Definition clip_threshold (thr : Q) : Q :=
  if Qle_bool thr (1 - (1 # 10000000))%Q then thr else (1 - (1 # 10000000))%Q.   (* min(threshold, 1 - 1e-7) *)
Definition intersect_counts (masks : list (list Z)) : list Z :=
  match masks with
  | [] => []
  | m0 :: rest => fold_left (fun acc m => map (fun p => (fst p + snd p)%Z) (combine acc m)) rest m0
  end.
Definition intersect_sel (tn : Q) (counts : list Z) : list bool :=
  map (fun c => negb (Qle_bool (inject_Z c) tn)) counts.

(* ---- components, given the labelling (scipy.ndimage.label) as an oracle *)
Definition count_label (labels : list nat) (k : nat) : nat := count_occ Nat.eq_dec labels k.
Definition bincount (labels : list nat) : list nat :=
  map (count_label labels) (seq 0 (S (fold_right Nat.max 0 labels))).
Definition natq (c : nat) : Q := inject_Z (Z.of_nat c).

(* largest_cc: None = ValueError (no component) *)
Definition largest_cc_sel (mask : list bool) (labels : list nat) (label_nb : nat) : option (list bool) :=
  if label_nb =? 0 then None
  else if label_nb =? 1 then Some mask
  else
    let counts := match bincount labels with [] => [] | _ :: r => 0 :: r end in   (* label_count[0] = 0 *)
    match argmax (map natq counts) with
    | None => None
    | Some L => Some (map (fun l => l =? L) labels)
    end.

(* threshold_connect_components: components with weight < threshold are zeroed *)
Definition threshold_cc (vals : list Q) (labels : list nat) (threshold : Q) : list Q :=
  map (fun p => let '(v, l) := p in
         if (negb (l =? 0)) && negb (Qle_bool threshold (natq (count_label labels l))) then 0%Q else v)
      (combine vals labels).

(* ---- harness glue *)
Definition oq_eqb (a : option Q) (b : option Q) : bool := option_eqb Qeq_bool a b.
Definition bools_eqb (a b : list bool) : bool := list_eqb Bool.eqb a b.
Definition obools_eqb (a : option (list bool)) (b : option (list bool)) : bool := option_eqb bools_eqb a b.
