(* C19 (time_slice_diffs part): model of
   nipy/algorithms/diagnostics/timediff.py `time_slice_diffs` (lines 76-123).
   Arrays are (shape, index function) - NumPy view semantics; `np.rollaxis` is
   modelled by its documented contract (remove the axis, re-insert it at
   `start`, with NumPy's `start -= 1` adjustment and identity shortcut).
   Data are integers (Z); means are exact rationals (Q). *)
From Coq Require Import List Arith Lia Bool ZArith PeanoNat QArith.
From NV.Lib Require Import C19Index Harness.
Import ListNotations.
Close Scope Q_scope.

Record nda (A : Type) := mk_nda { shp : list nat; at_ : list nat -> A }.
Arguments mk_nda {A}. Arguments shp {A}. Arguments at_ {A}.

(* boundary with the harness: row-major flat data *)
Definition of_flat {A} (d : A) (s : list nat) (data : list A) : nda A :=
  mk_nda s (fun i => nth (ravel s i) data d).
Definition to_flat {A} (a : nda A) : list A := map (at_ a) (indices (shp a)).

(* np.rollaxis(a, axis, start), 0 <= axis < ndim, 0 <= start <= ndim:
     if axis < start: start -= 1
     if axis == start: return a[...]
     axes = list(range(n)); axes.remove(axis); axes.insert(start, axis); return a.transpose(axes)
   new index j corresponds to old index i with i = (j with its entry at `start` moved to `axis`) *)
Definition rollaxis {A} (a : nda A) (axis start : nat) : nda A :=
  let start' := if axis <? start then start - 1 else start in
  if axis =? start' then a
  else mk_nda (move_elem 0 axis start' (shp a)) (fun j => at_ a (move_elem 0 start' axis j)).

Definition zsum (l : list Z) : Z := fold_right Z.add 0%Z l.
Definition qsum (l : list Q) : Q := fold_right Qplus 0%Q l.
(* ndarray.mean(): sum / count *)
Definition zmean (l : list Z) : Q := (inject_Z (zsum l) / inject_Z (Z.of_nat (length l)))%Q.
Definition qmean (l : list Q) : Q := (qsum l / inject_Z (Z.of_nat (length l)))%Q.

Fixpoint map2 {A B C} (f : A -> B -> C) (la : list A) (lb : list B) : list C :=
  match la, lb with
  | x :: la', y :: lb' => f x y :: map2 f la' lb'
  | _, _ => []
  end.

Record tsd_out := mk_out {
  volume_mean_diff2 : list Q;          (* (T-1,) *)
  slice_mean_diff2 : list (list Q);    (* (T-1, S) *)
  volume_means : list Q;               (* (T,) *)
  diff2_mean_vol : nda Q;
  slice_diff2_max_vol : nda Q;
  dmv_nan : bool                       (* T = 1: `diff_mean_vol /= (T-1)` is 0/0 = NaN everywhere *)
}.

(* dtp_diff2 = (tp - last_tp)**2 at volume index v, for dtpi = t *)
Definition d2 (a : nda Z) (t : nat) (v : list nat) : Z :=
  let x := (at_ a (S t :: v) - at_ a (t :: v))%Z in (x * x)%Z.

(* sliceds[dtpi] = dtp_diff2.reshape(S, -1).mean(-1) *)
Definition slice_means (a : nda Z) (nS : nat) (R : list nat) (t : nat) : list Q :=
  map (fun s => zmean (map (fun r => d2 a t (s :: r)) (indices R))) (seq 0 nS).

(* one loop iteration of the running maximum for one slice:
     sdmx_higher = sliceds[dtpi] > slice_diff_maxes   (strict)
   state = (slice_diff_maxes[s], which dtpi's slice is stored in slice_diff_max_vol[s]; None = still zeros) *)
Definition upd (t : nat) (st : Q * option nat) (x : Q) : Q * option nat :=
  if negb (Qle_bool x (fst st)) then (x, Some t) else st.

Definition run_max (nS : nat) (rows : list (list Q)) : list (Q * option nat) :=
  fold_left (fun st tr => map2 (upd (fst tr)) st (snd tr))
            (combine (seq 0 (length rows)) rows) (repeat (0%Q, None) nS).

(* body of time_slice_diffs after the two rolls: arr has shape (T, S, ...) *)
Definition tsd_core (a : nda Z) : tsd_out :=
  match shp a with
  | nT :: nS :: R =>
    let vshape := nS :: R in
    let means := map (fun t => zmean (map (fun v => at_ a (t :: v)) (indices vshape))) (seq 0 nT) in
    let sliceds := map (slice_means a nS R) (seq 0 (nT - 1)) in
    let st := run_max nS sliceds in
    let volds := map qmean sliceds in
    let dmv := mk_nda vshape (fun v =>
         (inject_Z (zsum (map (fun t => d2 a t v) (seq 0 (nT - 1)))) / inject_Z (Z.of_nat (nT - 1)))%Q) in
    let smv := mk_nda vshape (fun v =>
         match snd (nth (hd 0 v) st (0%Q, None)) with
         | None => 0%Q
         | Some t => inject_Z (d2 a t v)
         end) in
    mk_out volds sliceds means dmv smv (nT - 1 =? 0)
  | _ => mk_out [] [] [] (mk_nda [] (fun _ => 0%Q)) (mk_nda [] (fun _ => 0%Q)) false
  end.

(* roll vol shapes back to match input:
     diff_mean_vol = np.rollaxis(diff_mean_vol, 0, slice_axis)  (slice_axis already adjusted) *)
Definition rollback (sa1 : nat) (o : tsd_out) : tsd_out :=
  mk_out (volume_mean_diff2 o) (slice_mean_diff2 o) (volume_means o)
         (rollaxis (diff2_mean_vol o) 0 sa1) (rollaxis (slice_diff2_max_vol o) 0 sa1) (dmv_nan o).

Inductive result := Ok (o : tsd_out) | SameAxis | BadAxis.

(* time_slice_diffs(arr, time_axis=-1, slice_axis=None).
   BadAxis = outside the documented domain (an axis that is still outside
   [0, ndim) after the single `+= ndim`; NumPy would raise AxisError or wrap
   a second time - not modelled). *)
Definition tsd (a : nda Z) (time_axis : Z) (slice_axis : option Z) : result :=
  let ndim := Z.of_nat (length (shp a)) in
  let ta := if (time_axis <? 0)%Z then (time_axis + ndim)%Z else time_axis in
  let sa := match slice_axis with
            | None => if (ta =? ndim - 1)%Z then (ndim - 2)%Z else (ndim - 1)%Z
            | Some s => if (s <? 0)%Z then (s + ndim)%Z else s
            end in
  if (ta =? sa)%Z then SameAxis
  else if negb ((0 <=? ta)%Z && (ta <? ndim)%Z && (0 <=? sa)%Z && (sa <? ndim)%Z) then BadAxis
  else
    let a1 := rollaxis a (Z.to_nat ta) 0 in
    let sa1 := if (ta >? sa)%Z then (sa + 1)%Z else sa in
    let a2 := rollaxis a1 (Z.to_nat sa1) 1 in
    Ok (rollback (Z.to_nat sa1) (tsd_core a2)).

(* ------------------------------------------------------------ harness glue *)
Definition qq_eqb (a b : list (list Q)) : bool := list_eqb qlist_eqb a b.

(* expected values are the implementation's outputs; e_dmv is ignored when the
   model says it is NaN (the harness checks the NaN-ness against `e_nan`) *)
Definition tsd_check (s : list nat) (data : list Z) (time_axis : Z) (slice_axis : option Z)
           (e_volds : list Q) (e_sliceds : list (list Q)) (e_means : list Q)
           (vshape : list nat) (e_dmv e_smv : list Q) (e_nan : bool) : bool :=
  match tsd (of_flat 0%Z s data) time_axis slice_axis with
  | Ok o =>
      qlist_eqb (volume_mean_diff2 o) e_volds && qq_eqb (slice_mean_diff2 o) e_sliceds
      && qlist_eqb (volume_means o) e_means
      && natlist_eqb (shp (diff2_mean_vol o)) vshape && natlist_eqb (shp (slice_diff2_max_vol o)) vshape
      && Bool.eqb (dmv_nan o) e_nan
      && (if dmv_nan o then true else qlist_eqb (to_flat (diff2_mean_vol o)) e_dmv)
      && qlist_eqb (to_flat (slice_diff2_max_vol o)) e_smv
  | _ => false
  end.

Definition tsd_raises (s : list nat) (time_axis : Z) (slice_axis : option Z) : bool :=
  match tsd (of_flat 0%Z s []) time_axis slice_axis with SameAxis => true | _ => false end.
