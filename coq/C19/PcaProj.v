(* C19 (pca part): the orthogonal projector onto a column space is unique.
   pca.py builds `X pinv(X)` for design_keep / design_resid; any matrix P that is symmetric
   and acts as the identity on the same column space (P' P = P and P P' = P') is the same
   matrix, whatever parametrisation (pinv, SVD, QR with the correct rank, another basis of the
   span) produced it - so the PCA result depends on the design only through its column span.
   Matrices over any commutative ring, as index functions on 0..n-1. *)
From Coq Require Import Arith Lia Ring.

Section Proj.
Variables (R : Type) (r0 r1 : R) (radd rmul rsub : R -> R -> R) (ropp : R -> R).
Hypothesis Rth : ring_theory r0 r1 radd rmul rsub ropp (@eq R).
Add Ring Rr : Rth.

Fixpoint sumn (n : nat) (f : nat -> R) : R :=
  match n with 0 => r0 | S k => radd (sumn k f) (f k) end.
Definition mat := nat -> nat -> R.
Definition mmul (n : nat) (A B : mat) : mat := fun i j => sumn n (fun k => rmul (A i k) (B k j)).
Definition tr (A : mat) : mat := fun i j => A j i.
Definition meq (n : nat) (A B : mat) : Prop := forall i j, i < n -> j < n -> A i j = B i j.

Lemma sumn_ext n f g : (forall k, k < n -> f k = g k) -> sumn n f = sumn n g.
Proof.
  induction n as [|n IH]; intros H; simpl; [reflexivity|].
  rewrite IH by (intros k Hk; apply H; lia). rewrite (H n) by lia. reflexivity.
Qed.

(* (A B)^T = B^T A^T *)
Lemma tr_mmul n A B i j : tr (mmul n A B) i j = mmul n (tr B) (tr A) i j.
Proof. unfold tr, mmul. apply sumn_ext. intros k _. ring. Qed.

Lemma projector_unique_proof n (P P' : mat) :
  meq n (tr P) P -> meq n (tr P') P' ->          (* both symmetric *)
  meq n (mmul n P' P) P ->                       (* P' fixes the range of P *)
  meq n (mmul n P P') P' ->                      (* P fixes the range of P' *)
  meq n P P'.
Proof.
  intros HsP HsP' H1 H2 i j Hi Hj.
  assert (E1 : P i j = P j i) by (symmetry; apply (HsP i j Hi Hj)).
  rewrite E1, <- (H1 j i Hj Hi), <- (H2 i j Hi Hj).
  unfold mmul. apply sumn_ext. intros k Hk.
  assert (Ea : P i k = P k i) by (symmetry; apply (HsP i k Hi Hk)).
  assert (Eb : P' k j = P' j k) by (symmetry; apply (HsP' k j Hk Hj)).
  rewrite Ea, Eb. ring.
Qed.
End Proj.
