(* C19 (mask part): specifications of largest_cc's label selection (given the
   labelling oracle) and of the series_from_mask extraction order. *)
From Coq Require Import List Arith Lia Bool ZArith PeanoNat QArith.
From NV.C19 Require Import MaskModel.
Import ListNotations.
Close Scope Q_scope.

(* ------------------------------------------------- first arg-max *)
Lemma qle_cases x best :
  (negb (Qle_bool x best) = true /\ (best < x)%Q) \/ (negb (Qle_bool x best) = false /\ (x <= best)%Q).
Proof.
  destruct (Qle_bool x best) eqn:E.
  - right. split; [reflexivity|now apply Qle_bool_iff].
  - left. split; [reflexivity|]. apply Qnot_le_lt. intro H. apply Qle_bool_iff in H. congruence.
Qed.

Lemma argmax_from_spec l : forall best bi i,
  let r := argmax_from best bi i l in
  (r = bi /\ forall x, In x l -> (x <= best)%Q) \/
  (exists j, j < length l /\ r = i + j /\ (best < nth j l 0%Q)%Q
             /\ (forall x, In x l -> (x <= nth j l 0%Q)%Q)
             /\ forall j', j' < j -> (nth j' l 0%Q < nth j l 0%Q)%Q).
Proof.
  induction l as [|x l IH]; intros best bi i; cbn zeta.
  - left. split; [reflexivity|intros x []].
  - cbn [argmax_from]. destruct (qle_cases x best) as [[E Hlt]|[E Hle]]; rewrite E.
    + specialize (IH x i (S i)). cbn zeta in IH.
      destruct IH as [[Er Hall]|[j [Hj [Er [Hb [Hall Hfirst]]]]]].
      * right. exists 0. split; [simpl; lia|]. split; [rewrite Er; lia|]. cbn [nth].
        split; [exact Hlt|]. split; [|intros j' Hj'; lia].
        intros y [<-|Hy]; [apply Qle_refl|now apply Hall].
      * right. exists (S j). split; [simpl; lia|]. split; [rewrite Er; lia|]. cbn [nth].
        split; [eapply Qlt_trans; eassumption|]. split.
        -- intros y [<-|Hy]; [now apply Qlt_le_weak|now apply Hall].
        -- intros [|j'] Hj'; [exact Hb|apply Hfirst; lia].
    + specialize (IH best bi (S i)). cbn zeta in IH.
      destruct IH as [[Er Hall]|[j [Hj [Er [Hb [Hall Hfirst]]]]]].
      * left. split; [exact Er|]. intros y [<-|Hy]; [exact Hle|now apply Hall].
      * right. exists (S j). split; [simpl; lia|]. split; [rewrite Er; lia|]. cbn [nth].
        split; [exact Hb|]. split.
        -- intros y [<-|Hy]; [|now apply Hall]. apply Qlt_le_weak. eapply Qle_lt_trans; eassumption.
        -- intros [|j'] Hj'; [eapply Qle_lt_trans; eassumption|apply Hfirst; lia].
Qed.

(* ndarray.argmax(): the FIRST index of the maximum *)
Lemma argmax_spec l : l <> [] ->
  exists R, argmax l = Some R /\ R < length l
    /\ (forall x, In x l -> (x <= nth R l 0%Q)%Q)
    /\ (forall j, j < R -> (nth j l 0%Q < nth R l 0%Q)%Q).
Proof.
  destruct l as [|x l]; [congruence|]. intros _. cbn [argmax].
  destruct (argmax_from_spec l x 0 1) as [[Er Hall]|[j [Hj [Er [Hb [Hall Hfirst]]]]]]; cbn zeta in *.
  - exists 0. rewrite Er. split; [reflexivity|]. split; [simpl; lia|]. cbn [nth]. split; [|intros j Hj; lia].
    intros y [<-|Hy]; [apply Qle_refl|now apply Hall].
  - exists (S j). rewrite Er. split; [reflexivity|]. split; [simpl; lia|]. cbn [nth]. split.
    + intros y [<-|Hy]; [now apply Qlt_le_weak|now apply Hall].
    + intros [|j'] Hj'; [exact Hb|apply Hfirst; lia].
Qed.

(* ------------------------------------------------- largest_cc *)
Lemma natq_le a b : (natq a <= natq b)%Q <-> a <= b.
Proof. unfold natq. rewrite <- Zle_Qle. lia. Qed.
Lemma natq_lt a b : (natq a < natq b)%Q <-> a < b.
Proof. unfold natq. rewrite <- Zlt_Qlt. lia. Qed.

Lemma le_max_of l k : In k l -> k <= fold_right Nat.max 0 l.
Proof. induction l as [|x l IH]; simpl; [intros []|]. intros [->|H]; [lia|]. specialize (IH H). lia. Qed.

Lemma count_above_max l k : fold_right Nat.max 0 l < k -> count_label l k = 0.
Proof.
  intros H. unfold count_label. apply count_occ_not_In. intro Hin. apply le_max_of in Hin. lia.
Qed.

(* counts used by largest_cc: label_count with label_count[0] = 0 *)
Definition cc_counts (labels : list nat) : list nat :=
  match bincount labels with [] => [] | _ :: r => 0 :: r end.

Lemma cc_counts_nth labels k : 1 <= k -> k <= fold_right Nat.max 0 labels ->
  nth k (cc_counts labels) 0 = count_label labels k.
Proof.
  intros H1 H2. unfold cc_counts, bincount. cbn [seq map].
  destruct k as [|k]; [lia|]. cbn [nth].
  rewrite (nth_indep _ 0 (count_label labels 0)) by (rewrite map_length, seq_length; lia).
  rewrite map_nth, seq_nth by lia. reflexivity.
Qed.

Lemma cc_counts_length labels : length (cc_counts labels) = S (fold_right Nat.max 0 labels).
Proof. unfold cc_counts, bincount. cbn [seq map length]. now rewrite map_length, seq_length. Qed.

Lemma largest_cc_spec_proof (mask : list bool) (labels : list nat) (nb : nat) :
  (nb = 0 -> largest_cc_sel mask labels nb = None) /\
  (nb = 1 -> largest_cc_sel mask labels nb = Some mask) /\
  (2 <= nb -> (exists l, In l labels /\ 1 <= l) ->
     exists L, largest_cc_sel mask labels nb = Some (map (fun l => l =? L) labels)
       /\ 1 <= L /\ In L labels
       /\ (forall k, 1 <= k -> count_label labels k <= count_label labels L)
       /\ (forall k, 1 <= k -> k < L -> count_label labels k < count_label labels L)).
Proof.
  split; [intros ->; reflexivity|]. split; [intros ->; reflexivity|].
  intros Hnb [l0 [Hl0 Hl0pos]].
  unfold largest_cc_sel.
  destruct nb as [|[|nb]]; try lia. cbn [Nat.eqb].
  fold (cc_counts labels).
  set (M := fold_right Nat.max 0 labels).
  assert (HlM : l0 <= M) by (now apply le_max_of).
  assert (Hne : map natq (cc_counts labels) <> []).
  { intro E. apply (f_equal (@length Q)) in E. rewrite map_length, cc_counts_length in E. simpl in E. lia. }
  destruct (argmax_spec _ Hne) as [R [ER [HR [Hall Hfirst]]]].
  rewrite ER. rewrite map_length, cc_counts_length in HR. fold M in HR.
  assert (Hnth : forall k, k <= M -> nth k (map natq (cc_counts labels)) 0%Q = natq (nth k (cc_counts labels) 0)).
  { intros k Hk. change 0%Q with (natq 0). apply map_nth. }
  assert (Hc0 : nth 0 (cc_counts labels) 0 = 0) by reflexivity.
  assert (Hcount0 : 1 <= count_label labels l0).
  { unfold count_label. apply count_occ_In. exact Hl0. }
  assert (HRpos : 1 <= R).
  { destruct R as [|R]; [|lia]. exfalso.
    assert (Hin : In (natq (count_label labels l0)) (map natq (cc_counts labels))).
    { apply in_map. rewrite <- (cc_counts_nth labels l0 Hl0pos HlM). apply nth_In. rewrite cc_counts_length. fold M. lia. }
    specialize (Hall _ Hin). rewrite (Hnth 0) in Hall by lia. rewrite Hc0 in Hall. apply natq_le in Hall. lia. }
  exists R. split; [reflexivity|]. split; [exact HRpos|].
  assert (HRc : nth R (map natq (cc_counts labels)) 0%Q = natq (count_label labels R)).
  { rewrite Hnth by lia. now rewrite cc_counts_nth by lia. }
  assert (Hle : forall k, 1 <= k -> count_label labels k <= count_label labels R).
  { intros k Hk. destruct (le_lt_dec k M) as [HkM|HkM].
    - assert (Hin : In (natq (count_label labels k)) (map natq (cc_counts labels))).
      { apply in_map. rewrite <- (cc_counts_nth labels k Hk HkM). apply nth_In. rewrite cc_counts_length. fold M. lia. }
      specialize (Hall _ Hin). rewrite HRc in Hall. now apply natq_le in Hall.
    - rewrite count_above_max by exact HkM. lia. }
  split; [|split; [exact Hle|]].
  - specialize (Hle l0 Hl0pos). unfold count_label in *.
    apply (count_occ_In Nat.eq_dec). lia.
  - intros k Hk HkR. specialize (Hfirst k HkR). rewrite HRc, Hnth in Hfirst by lia.
    rewrite cc_counts_nth in Hfirst by lia. now apply natq_lt in Hfirst.
Qed.

(* ------------------------------------------------- series_from_mask order *)
(* `series[mask]` / `data[mask]`: NumPy boolean indexing keeps the masked-in voxels in
   row-major order; rows = the per-voxel time courses of the flattened volume *)
Definition series_sel {A} (mask : list bool) (rows : list A) : list A :=
  map snd (filter fst (combine mask rows)).

Lemma filter_map_S (f : nat -> bool) l : filter f (map S l) = map S (filter (fun p => f (S p)) l).
Proof.
  induction l as [|x l IH]; simpl; [reflexivity|]. rewrite IH. destruct (f (S x)); reflexivity.
Qed.

Lemma series_order_spec_proof {A} (d : A) (mask : list bool) : forall rows : list A,
  length mask = length rows ->
  series_sel mask rows
  = map (fun p => nth p rows d) (filter (fun p => nth p mask false) (seq 0 (length rows))).
Proof.
  induction mask as [|b mask IH]; intros [|r rows] H; simpl in H; try lia; [reflexivity|].
  unfold series_sel in *. cbn [combine length seq].
  rewrite <- seq_shift. cbn [filter nth fst].
  rewrite filter_map_S. cbn [nth].
  destruct b; cbn [map snd nth]; rewrite map_map; cbn [nth]; [f_equal|]; apply IH; lia.
Qed.
