(* C19 / clause 3 - proofs about the model of nipy/core/utils/generators.py (GenModel.v). *)
From Coq Require Import ZArith List Bool Arith Lia Sorted.
From NV.C19 Require Import GenModel.
Import ListNotations.

(* ------------------------------------------------------------------ generic helpers *)
Lemma NoDup_map_inj_on {A B} (f : A -> B) (l : list A) :
  NoDup l -> (forall i j, In i l -> In j l -> f i = f j -> i = j) -> NoDup (map f l).
Proof.
  induction l as [|x l IH]; intros Hnd Hinj; simpl; [constructor|].
  inversion Hnd as [|x' l' Hx Hl]; subst.
  constructor.
  - intros Hin. apply in_map_iff in Hin. destruct Hin as [y [Hy Hyl]].
    assert (y = x) by (apply Hinj; simpl; auto). subst. contradiction.
  - apply IH; [assumption|]. intros i j Hi Hj. apply Hinj; simpl; auto.
Qed.

Lemma NoDup_map_seq {B} (f : nat -> B) N :
  (forall i j, i < N -> j < N -> f i = f j -> i = j) -> NoDup (map f (seq 0 N)).
Proof.
  intros H. apply NoDup_map_inj_on; [apply seq_NoDup|].
  intros i j Hi Hj. apply in_seq in Hi. apply in_seq in Hj. apply H; lia.
Qed.

(* ------------------------------------------------------------------ slice_generator, one or two axes *)
Lemma sg_xs_1 a n : sg_xs [a] n = [(n / 1) mod (1 * a)].
Proof. reflexivity. Qed.
Lemma sg_xs_2 a b n : sg_xs [a; b] n = [(n / 1) mod (1 * a); (n / (1 * a)) mod (1 * a * b)].
Proof. reflexivity. Qed.
Lemma doc_index_1 a n : doc_index [a] n = [(n / 1) mod a].
Proof. reflexivity. Qed.
Lemma doc_index_2 a b n : doc_index [a; b] n = [(n / 1) mod a; (n / (1 * a)) mod b].
Proof. reflexivity. Qed.
Lemma seq_prod_1 a : seq_prod [a] = 1 * a.
Proof. reflexivity. Qed.
Lemma seq_prod_2 a b : seq_prod [a; b] = 1 * a * b.
Proof. reflexivity. Qed.

Lemma Forall2_lt_1 t a : Forall2 lt t [a] -> exists i, t = [i] /\ i < a.
Proof.
  intros H. inversion H as [|x y l l' Hxy Hll]; subst. inversion Hll; subst. exists x. auto.
Qed.
Lemma Forall2_lt_2 t a b : Forall2 lt t [a; b] -> exists i j, t = [i; j] /\ i < a /\ j < b.
Proof.
  intros H. inversion H as [|x y l l' Hxy Hll]; subst.
  apply Forall2_lt_1 in Hll. destruct Hll as [j [-> Hj]]. exists x, j. auto.
Qed.

(* below nmax the code's index equals the documented mixed-radix digit (1 axis) *)
Lemma sg_small_1 a n : n < a -> sg_xs [a] n = [n] /\ doc_index [a] n = [n].
Proof.
  intros H. rewrite sg_xs_1, doc_index_1, Nat.mul_1_l, Nat.div_1_r, Nat.mod_small by lia. auto.
Qed.

(* ... and for 2 axes: x0 = n mod a, x1 = n / a *)
Lemma sg_small_2 a b n : n < a * b ->
  sg_xs [a; b] n = [n mod a; n / a] /\ doc_index [a; b] n = [n mod a; n / a].
Proof.
  intros H. rewrite sg_xs_2, doc_index_2, !Nat.mul_1_l, Nat.div_1_r.
  assert (Ha : a <> 0) by (intros ->; lia).
  assert (Hq : n / a < b) by (apply Nat.div_lt_upper_bound; lia).
  rewrite (Nat.mod_small (n / a) (a * b)) by nia.
  rewrite (Nat.mod_small (n / a) b) by lia. auto.
Qed.

Lemma slice_generator_bijective_proof : forall lens,
  length lens = 1 \/ length lens = 2 ->
  let idxs := map (sg_xs lens) (seq 0 (seq_prod lens)) in
  (forall n, n < seq_prod lens -> sg_xs lens n = doc_index lens n) /\
  NoDup idxs /\
  (forall t, In t idxs <-> Forall2 lt t lens).
Proof.
  intros lens Hlen.
  destruct lens as [|a [|b [|c r]]]; simpl in Hlen; try lia.
  - (* one axis *)
    cbv zeta. rewrite seq_prod_1, Nat.mul_1_l.
    split; [|split].
    + intros n Hn. destruct (sg_small_1 a n Hn) as [E1 E2]. congruence.
    + apply NoDup_map_seq. intros i j Hi Hj E.
      destruct (sg_small_1 a i Hi) as [Ei _]. destruct (sg_small_1 a j Hj) as [Ej _]. congruence.
    + intros t. rewrite in_map_iff. split.
      * intros [n [E Hn]]. apply in_seq in Hn. destruct (sg_small_1 a n) as [En _]; [lia|].
        rewrite En in E. subst t. repeat constructor. lia.
      * intros HF. apply Forall2_lt_1 in HF. destruct HF as [i [-> Hi]].
        exists i. split; [destruct (sg_small_1 a i Hi) as [E _]; exact E|apply in_seq; lia].
  - (* two axes *)
    cbv zeta. rewrite seq_prod_2, Nat.mul_1_l.
    split; [|split].
    + intros n Hn. destruct (sg_small_2 a b n Hn) as [E1 E2]. congruence.
    + apply NoDup_map_seq. intros i j Hi Hj E.
      destruct (sg_small_2 a b i Hi) as [Ei _]. destruct (sg_small_2 a b j Hj) as [Ej _].
      rewrite Ei, Ej in E. inversion E as [[E0 E1]].
      assert (Ha : a <> 0) by (intros ->; lia).
      rewrite (Nat.div_mod i a Ha), (Nat.div_mod j a Ha). congruence.
    + intros t. rewrite in_map_iff. split.
      * intros [n [E Hn]]. apply in_seq in Hn. destruct (sg_small_2 a b n) as [En _]; [lia|].
        rewrite En in E. subst t.
        assert (Ha : a <> 0) by (intros ->; lia).
        repeat constructor.
        -- apply Nat.mod_upper_bound; assumption.
        -- apply Nat.div_lt_upper_bound; lia.
      * intros HF. apply Forall2_lt_2 in HF. destruct HF as [i [j [-> [Hi Hj]]]].
        exists (i + j * a). split.
        -- destruct (sg_small_2 a b (i + j * a)) as [En _]; [nia|]. rewrite En.
           rewrite Nat.mod_add, Nat.div_add, Nat.mod_small, Nat.div_small by lia.
           reflexivity.
        -- apply in_seq. nia.
Qed.

(* the assembled index tuples are accepted by numpy: no IndexError for one or two axes *)
Lemma idx_ok_set_nth shape t k v :
  idx_ok shape t = true -> v < nth k shape 0 -> idx_ok shape (set_nth k (Z.of_nat v) t) = true.
Proof.
  revert t k. induction shape as [|s sr IH]; intros t k H Hv.
  - destruct t as [|w tr]; [destruct k; reflexivity|simpl in H; discriminate].
  - destruct t as [|w tr]; [destruct k; reflexivity|].
    simpl in H. apply andb_true_iff in H. destruct H as [H1 H2].
    destruct k as [|k]; simpl in *; apply andb_true_iff; split; auto.
    apply Z.ltb_lt. lia.
Qed.
Lemma idx_ok_whole shape : idx_ok shape (repeat whole (length shape)) = true.
Proof.
  induction shape as [|s sr IH]; [reflexivity|].
  cbn [length repeat idx_ok]. rewrite IH, andb_true_r. apply Z.ltb_lt. unfold whole. lia.
Qed.

Lemma take_ok_all {A} shape (flat : list A) l :
  Forall (fun t => idx_ok shape t = true) l ->
  snd (take_ok shape flat l) = false /\ map fst (fst (take_ok shape flat l)) = l.
Proof.
  induction 1 as [|t l Ht _ IH]; simpl; [auto|]. rewrite Ht. simpl. destruct IH as [-> ->]. auto.
Qed.

Lemma slice_generator_no_error_proof : forall (shape : list nat) (flat : list Z) (axes : list nat),
  length axes = 1 \/ length axes = 2 ->
  Forall (fun a => a < length shape) axes ->
  snd (take_ok shape flat (sg_tuples shape axes)) = false /\
  map fst (fst (take_ok shape flat (sg_tuples shape axes))) = sg_tuples shape axes.
Proof.
  intros shape flat axes Hlen Hax. apply take_ok_all.
  unfold sg_tuples. apply Forall_forall. intros t Ht. apply in_map_iff in Ht.
  destruct Ht as [n [E Hn]]. apply in_seq in Hn. subst t.
  destruct axes as [|a [|b [|c r]]]; simpl in Hlen; try lia.
  - cbn [map] in *. rewrite seq_prod_1, Nat.mul_1_l in Hn.
    destruct (sg_small_1 (nth a shape 0) n) as [E _]; [lia|]. rewrite E.
    cbn. apply idx_ok_set_nth; [apply idx_ok_whole|lia].
  - cbn [map] in *. rewrite seq_prod_2, Nat.mul_1_l in Hn.
    destruct (sg_small_2 (nth a shape 0) (nth b shape 0) n) as [E _]; [lia|]. rewrite E.
    assert (Ha : nth a shape 0 <> 0) by (intros E0; rewrite E0 in Hn; lia).
    cbn. apply idx_ok_set_nth; [apply idx_ok_set_nth; [apply idx_ok_whole|]|].
    + apply Nat.mod_upper_bound; assumption.
    + apply Nat.div_lt_upper_bound; lia.
Qed.

(* ------------------------------------------------------------------ three or more axes: refuted *)
Lemma slice_generator_three_axes_refuted_proof :
  exists (lens : list nat) (n j : nat),
    length lens = 3 /\ n < seq_prod lens /\ j < 3 /\
    nth j lens 0 <= nth j (sg_xs lens n) 0 /\          (* index out of range for its axis ... *)
    nth j (sg_xs lens n) 0 <> doc_digit lens j n /\     (* ... and not the documented digit *)
    (* the whole run on np.arange(12).reshape(2,2,3), axis=[0,1,2]: four items, then IndexError *)
    sg_list [2; 2; 3] (map Z.of_nat (seq 0 12)) [0; 1; 2]%Z
    = ([([0; 0; 0], [0]); ([1; 0; 0], [6]); ([0; 1; 0], [3]); ([1; 1; 0], [9])]%Z, true).
Proof.
  exists [2; 2; 3], 4, 1. repeat split; vm_compute; try lia; try reflexivity.
Qed.

(* smallest failing array: arange(4).reshape(1,2,2), axis=[1,0,2] - a middle axis of length 1 *)
Lemma slice_generator_three_axes_smallest :
  sg_list [1; 2; 2] (map Z.of_nat (seq 0 4)) [1; 0; 2]%Z = ([([0; 0; 0], [0]); ([0; 1; 0], [2])]%Z, true).
Proof. vm_compute. reflexivity. Qed.

(* int branch with a negative axis slices axis 0 instead, and runs out of range *)
Lemma slice_generator_negative_int_axis_refuted_proof :
  exists (shape : list nat) (axis : Z), (axis < 0)%Z /\ norm_axis (length shape) axis = Some 1 /\
    sg_int shape (map Z.of_nat (seq 0 2)) axis = ([([0], [0; 1])]%Z, true) /\
    sg_int shape (map Z.of_nat (seq 0 2)) 1%Z = ([([whole; 0], [0]); ([whole; 1], [1])]%Z, false).
Proof. exists [1; 2], (-1)%Z. vm_compute. repeat split; reflexivity. Qed.

(* ------------------------------------------------------------------ parcels *)
Lemma insert_u_In x y l : In y (insert_u x l) <-> y = x \/ In y l.
Proof.
  induction l as [|h r IH]; simpl.
  - intuition.
  - destruct (x <? h)%Z eqn:E1; [simpl; intuition|].
    destruct (x =? h)%Z eqn:E2.
    + apply Z.eqb_eq in E2. subst. simpl. intuition.
    + simpl. rewrite IH. intuition.
Qed.

Lemma unique_In y l : In y (unique l) <-> In y l.
Proof.
  induction l as [|h r IH]; simpl; [reflexivity|].
  rewrite insert_u_In, IH. intuition.
Qed.

Lemma insert_u_sorted x l : StronglySorted Z.lt l -> StronglySorted Z.lt (insert_u x l).
Proof.
  induction 1 as [|h r Hs IH Hf]; simpl.
  - repeat constructor.
  - destruct (x <? h)%Z eqn:E1.
    + apply Z.ltb_lt in E1. constructor; [constructor; assumption|].
      constructor; [assumption|]. rewrite Forall_forall in *. intros y Hy. specialize (Hf y Hy). lia.
    + destruct (x =? h)%Z eqn:E2; [constructor; assumption|].
      apply Z.ltb_ge in E1. apply Z.eqb_neq in E2.
      constructor; [assumption|]. rewrite Forall_forall in *. intros y Hy.
      apply insert_u_In in Hy. destruct Hy as [->|Hy]; [lia|auto].
Qed.

Lemma unique_sorted l : StronglySorted Z.lt (unique l).
Proof. induction l as [|h r IH]; simpl; [constructor|apply insert_u_sorted; assumption]. Qed.

Lemma sorted_NoDup l : StronglySorted Z.lt l -> NoDup l.
Proof.
  induction 1 as [|h r Hs IH Hf]; constructor; [|assumption].
  intros Hin. rewrite Forall_forall in Hf. specialize (Hf h Hin). lia.
Qed.

Lemma parcels_default_eq data : parcels_default data = map (mask_eq data) (unique data).
Proof.
  unfold parcels_default, parcels. induction (unique data) as [|u us IH]; simpl; [reflexivity|].
  f_equal. exact IH.
Qed.

Lemma nth_mask_eq data l p : p < length data -> nth p (mask_eq data l) false = (nth p data 0 =? l)%Z.
Proof.
  intros H. unfold mask_eq.
  rewrite (nth_indep _ false ((fun d => (d =? l)%Z) 0%Z)) by (rewrite map_length; assumption).
  exact (map_nth (fun d => (d =? l)%Z) data 0%Z p).
Qed.

Lemma nth_masks data k : k < length (unique data) ->
  nth k (map (mask_eq data) (unique data)) [] = mask_eq data (nth k (unique data) 0%Z).
Proof.
  intros H. rewrite (nth_indep _ [] (mask_eq data 0%Z)) by (rewrite map_length; assumption).
  exact (map_nth (mask_eq data) (unique data) 0%Z k).
Qed.

Lemma parcels_partition_proof : forall data : list Z,
  let masks := parcels_default data in
  (* one mask per distinct value, each of the array's size and non-empty *)
  length masks = length (unique data) /\
  (forall m, In m masks -> length m = length data /\ existsb (fun b => b) m = true) /\
  (* every position is True in exactly one mask *)
  (forall p, p < length data ->
     exists k, k < length masks /\ nth p (nth k masks []) false = true /\
       forall k', k' < length masks -> nth p (nth k' masks []) false = true -> k' = k).
Proof.
  intros data. cbv zeta. rewrite parcels_default_eq, map_length.
  split; [reflexivity|split].
  - intros m Hm. apply in_map_iff in Hm. destruct Hm as [l [E Hl]]. subst m.
    split; [apply map_length|].
    apply existsb_exists. exists true. split; [|reflexivity].
    apply (proj1 (unique_In _ _)) in Hl. unfold mask_eq. apply in_map_iff. exists l. split; [apply Z.eqb_refl|assumption].
  - intros p Hp.
    assert (Hin : In (nth p data 0%Z) (unique data)) by (apply (proj2 (unique_In _ _)), nth_In; assumption).
    destruct (In_nth _ _ 0%Z Hin) as [k [Hk Ek]].
    exists k. split; [assumption|split].
    + rewrite nth_masks, nth_mask_eq, Ek by assumption. apply Z.eqb_refl.
    + intros k' Hk' E. rewrite nth_masks, nth_mask_eq in E by assumption.
      apply Z.eqb_eq in E.
      apply (proj1 (NoDup_nth (unique data) 0%Z) (sorted_NoDup _ (unique_sorted data))); try assumption.
      congruence.
Qed.

(* labels are visited in increasing order (np.unique) *)
Lemma parcels_label_order : forall data, StronglySorted Z.lt (unique data).
Proof. exact unique_sorted. Qed.

(* a tuple/list label gives the union of its values' masks *)
Lemma nth_map_lt {A B} (f : A -> B) l p dA dB : p < length l -> nth p (map f l) dB = f (nth p l dA).
Proof.
  intros H. rewrite (nth_indep _ dB (f dA)) by (rewrite map_length; assumption). apply map_nth.
Qed.

Definition acc_step (data : list Z) (v : list nat) (l : Z) : list nat :=
  map (fun q : nat * bool => fst q + (if snd q then 1 else 0)) (combine v (mask_eq data l)).

Lemma acc_step_length data v l : length v = length data -> length (acc_step data v l) = length data.
Proof.
  intros H. unfold acc_step, mask_eq. rewrite map_length, combine_length, map_length. lia.
Qed.

Lemma acc_step_nth data v l p : length v = length data -> p < length data ->
  nth p (acc_step data v l) 0 = nth p v 0 + (if (nth p data 0 =? l)%Z then 1 else 0).
Proof.
  intros Hv Hp. unfold acc_step.
  rewrite (nth_map_lt _ _ p (0, false) 0).
  - rewrite combine_nth by (unfold mask_eq; rewrite map_length; assumption).
    cbn [fst snd]. rewrite nth_mask_eq by assumption. reflexivity.
  - unfold mask_eq. rewrite combine_length, map_length. lia.
Qed.

Lemma fold_acc data ls : forall v, length v = length data ->
  (length (fold_left (acc_step data) ls v) = length data) /\
  (forall p, p < length data ->
    nth p (fold_left (acc_step data) ls v) 0
    = nth p v 0 + length (filter (fun l => (nth p data 0 =? l)%Z) ls)).
Proof.
  induction ls as [|l ls IH]; intros v Hv; simpl.
  - split; [assumption|intros; lia].
  - destruct (IH (acc_step data v l) (acc_step_length data v l Hv)) as [HL HN].
    split; [assumption|]. intros p Hp. rewrite HN, acc_step_nth by assumption.
    destruct (nth p data 0 =? l)%Z; simpl; lia.
Qed.

Lemma mask_many_union : forall data ls p, p < length data ->
  nth p (mask_many data ls) false = existsb (fun l => (nth p data 0 =? l)%Z) ls.
Proof.
  intros data ls p Hp. unfold mask_many. fold (acc_step data).
  destruct (fold_acc data ls (map (fun _ => 0) data) (map_length _ _)) as [HL HN].
  rewrite (nth_map_lt _ _ p 0 false) by lia.
  rewrite HN by assumption.
  rewrite (nth_map_lt _ _ p 0%Z 0) by assumption. simpl. clear HL HN.
  induction ls as [|l ls IH]; simpl; [reflexivity|].
  destruct (nth p data 0 =? l)%Z; simpl; [reflexivity|exact IH].
Qed.
