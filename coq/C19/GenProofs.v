(* C19 / clause 3 - proofs about the model of nipy/core/utils/generators.py (GenModel.v). *)
From Coq Require Import ZArith List Bool Arith Lia Sorted.
From NV.C19 Require Import GenModel.
Import ListNotations.

(* ------------------------------------------------------------------ generic helpers *)
Lemma NoDup_map_inj_on {A B} (f : A -> B) (l : list A) :
  NoDup l -> (forall i j, In i l -> In j l -> f i = f j -> i = j) -> NoDup (map f l).
Proof.
  induction l as [|x l IH]; intros Hnd Hinj; simpl; [constructor|].
  inversion Hnd as [|x' l' Hx Hl]; subst.
  constructor.
  - intros Hin. apply in_map_iff in Hin. destruct Hin as [y [Hy Hyl]].
    assert (y = x) by (apply Hinj; simpl; auto). subst. contradiction.
  - apply IH; [assumption|]. intros i j Hi Hj. apply Hinj; simpl; auto.
Qed.

Lemma NoDup_map_seq {B} (f : nat -> B) N :
  (forall i j, i < N -> j < N -> f i = f j -> i = j) -> NoDup (map f (seq 0 N)).
Proof.
  intros H. apply NoDup_map_inj_on; [apply seq_NoDup|].
  intros i j Hi Hj. apply in_seq in Hi. apply in_seq in Hj. apply H; lia.
Qed.

(* ------------------------------------------------------------------ slice_generator, ANY number of axes *)
(* mixed-radix digits, least significant first ("first axis is fastest changing") *)
Fixpoint mr (lens : list nat) (n : nat) : list nat :=
  match lens with
  | [] => []
  | a :: r => n mod a :: mr r (n / a)
  end.
Fixpoint unmr (lens t : list nat) : nat :=
  match lens, t with
  | a :: r, i :: t' => i + a * unmr r t'
  | _, _ => 0
  end.
Fixpoint digits (acc : nat) (lens : list nat) (n : nat) : list nat :=
  match lens with
  | [] => []
  | a :: r => (n / acc) mod a :: digits (acc * a) r n
  end.
Fixpoint pairs (acc : nat) (lens : list nat) : list (nat * nat) :=
  match lens with
  | [] => []
  | a :: r => (acc, a) :: pairs (acc * a) r
  end.

(* zip(divs, axis_lens) with divs = [1] + cumprod[:-1]: the divisor of axis j is the product of the earlier lengths *)
Lemma divs_combine acc lens :
  combine (acc :: removelast (cumprod_from acc lens)) lens = pairs acc lens.
Proof.
  revert acc; induction lens as [|a r IH]; intros acc; [reflexivity|].
  cbn [cumprod_from pairs]. destruct r as [|b r'].
  - reflexivity.
  - change (removelast (acc * a :: cumprod_from (acc * a) (b :: r')))
      with (acc * a :: removelast (cumprod_from (acc * a) (b :: r'))).
    cbn [combine]. f_equal. apply IH.
Qed.

Lemma sg_xs_digits lens n : sg_xs lens n = digits 1 lens n.
Proof.
  unfold sg_xs, sg_divs, cumprod. rewrite divs_combine.
  generalize 1 as acc. induction lens as [|a r IH]; intros acc; [reflexivity|].
  cbn [pairs map digits fst snd]. unfold sg_x at 1. f_equal. apply IH.
Qed.

Lemma fold_mul_acc l acc : fold_left Nat.mul l acc = acc * fold_left Nat.mul l 1.
Proof.
  revert acc; induction l as [|x l IH]; intros acc; cbn [fold_left]; [lia|].
  rewrite IH, (IH (1 * x)). lia.
Qed.
Lemma seq_prod_cons a r : seq_prod (a :: r) = a * seq_prod r.
Proof. unfold seq_prod. simpl. rewrite fold_mul_acc. lia. Qed.

(* the code's indices are the documented digits, for EVERY step n *)
Lemma digits_doc lens n : forall acc,
  digits acc lens n
  = map (fun j => (n / (acc * seq_prod (firstn j lens))) mod nth j lens 0) (seq 0 (length lens)).
Proof.
  induction lens as [|a r IH]; intros acc; [reflexivity|].
  cbn [digits length seq map firstn nth]. f_equal.
  - change (seq_prod []) with 1. now rewrite Nat.mul_1_r.
  - rewrite IH, <- seq_shift, map_map. apply map_ext. intros j.
    cbn [firstn nth]. rewrite seq_prod_cons. f_equal. f_equal. lia.
Qed.

Lemma sg_xs_doc lens n : sg_xs lens n = doc_index lens n.
Proof.
  rewrite sg_xs_digits, digits_doc. unfold doc_index, doc_digit. apply map_ext. intros j.
  now rewrite Nat.mul_1_l.
Qed.

Lemma digits_mr lens : forall acc n, acc <> 0 -> digits acc lens n = mr lens (n / acc).
Proof.
  induction lens as [|a r IH]; intros acc n Hacc; [reflexivity|].
  cbn [digits mr]. f_equal.
  destruct (Nat.eq_dec a 0) as [->|Ha].
  - rewrite Nat.mul_0_r. clear IH.
    (* with a zero extent both sides only see quotients by 0 (= 0 in Coq; the loop is empty in Python) *)
    assert (E : forall l m, digits 0 l m = mr l 0).
    { induction l as [|x l IHl]; intros m; [reflexivity|]. cbn [digits mr]. simpl (0 * x).
      rewrite IHl. destruct x; reflexivity. }
    rewrite E. simpl. reflexivity.
  - rewrite IH by lia. now rewrite Nat.div_div by assumption.
Qed.

Lemma sg_xs_mr lens n : sg_xs lens n = mr lens n.
Proof. rewrite sg_xs_digits, digits_mr by lia. now rewrite Nat.div_1_r. Qed.

Lemma mr_in_range lens : forall n, n < seq_prod lens -> Forall2 lt (mr lens n) lens.
Proof.
  induction lens as [|a r IH]; intros n Hn; [constructor|].
  rewrite seq_prod_cons in Hn. assert (Ha : a <> 0) by (intros ->; lia).
  cbn [mr]. constructor.
  - now apply Nat.mod_upper_bound.
  - apply IH. apply Nat.div_lt_upper_bound; [assumption|lia].
Qed.

Lemma unmr_mr lens : forall n, n < seq_prod lens -> unmr lens (mr lens n) = n.
Proof.
  induction lens as [|a r IH]; intros n Hn.
  - unfold seq_prod in Hn. simpl in *. lia.
  - rewrite seq_prod_cons in Hn. assert (Ha : a <> 0) by (intros ->; lia).
    cbn [mr unmr]. rewrite IH by (apply Nat.div_lt_upper_bound; [assumption|lia]).
    rewrite (Nat.div_mod n a Ha) at 3. lia.
Qed.

Lemma mr_unmr lens : forall t, Forall2 lt t lens ->
  unmr lens t < seq_prod lens /\ mr lens (unmr lens t) = t.
Proof.
  induction lens as [|a r IH]; intros t H; inversion H as [|i a' t' r' Hi Ht]; subst.
  - split; [unfold seq_prod; simpl; lia|reflexivity].
  - destruct (IH t' Ht) as [Hlt E]. rewrite seq_prod_cons. cbn [unmr mr]. split; [nia|].
    f_equal.
    + rewrite Nat.mul_comm, Nat.mod_add by lia. now apply Nat.mod_small.
    + rewrite Nat.mul_comm, Nat.div_add by lia. rewrite Nat.div_small by assumption. exact E.
Qed.

Lemma slice_generator_bijective_proof : forall lens : list nat,
  let idxs := map (sg_xs lens) (seq 0 (seq_prod lens)) in
  (forall n, sg_xs lens n = doc_index lens n) /\
  NoDup idxs /\
  (forall t, In t idxs <-> Forall2 lt t lens).
Proof.
  intros lens. cbv zeta. split; [apply sg_xs_doc|split].
  - apply NoDup_map_seq. intros i j Hi Hj E. rewrite !sg_xs_mr in E.
    rewrite <- (unmr_mr lens i Hi), <- (unmr_mr lens j Hj). now rewrite E.
  - intros t. rewrite in_map_iff. split.
    + intros [n [E Hn]]. apply in_seq in Hn. subst t. rewrite sg_xs_mr. apply mr_in_range. lia.
    + intros H. destruct (mr_unmr lens t H) as [Hlt E]. exists (unmr lens t).
      split; [now rewrite sg_xs_mr|apply in_seq; lia].
Qed.

(* the assembled index tuples are accepted by numpy: no IndexError, any number of axes *)
Lemma idx_ok_set_nth shape t k v :
  idx_ok shape t = true -> v < nth k shape 0 -> idx_ok shape (set_nth k (Z.of_nat v) t) = true.
Proof.
  revert t k. induction shape as [|s sr IH]; intros t k H Hv.
  - destruct t as [|w tr]; [destruct k; reflexivity|simpl in H; discriminate].
  - destruct t as [|w tr]; [destruct k; reflexivity|].
    simpl in H. apply andb_true_iff in H. destruct H as [H1 H2].
    destruct k as [|k]; simpl in *; apply andb_true_iff; split; auto.
    apply Z.ltb_lt. lia.
Qed.
Lemma idx_ok_whole shape : idx_ok shape (repeat whole (length shape)) = true.
Proof.
  induction shape as [|s sr IH]; [reflexivity|].
  cbn [length repeat idx_ok]. rewrite IH, andb_true_r. apply Z.ltb_lt. unfold whole. lia.
Qed.

Lemma take_ok_all {A} shape (flat : list A) l :
  Forall (fun t => idx_ok shape t = true) l ->
  snd (take_ok shape flat l) = false /\ map fst (fst (take_ok shape flat l)) = l.
Proof.
  induction 1 as [|t l Ht _ IH]; simpl; [auto|]. rewrite Ht. simpl. destruct IH as [-> ->]. auto.
Qed.

Lemma idx_ok_fold shape axes : forall xs t,
  Forall2 (fun x a => x < nth a shape 0) xs axes -> idx_ok shape t = true ->
  idx_ok shape (fold_left (fun t ax => set_nth (fst ax) (Z.of_nat (snd ax)) t) (combine axes xs) t) = true.
Proof.
  induction axes as [|a axes IH]; intros xs t H Ht; [exact Ht|].
  inversion H as [|x a' xs' axes' Hx Hr]; subst. cbn [combine fold_left fst snd].
  apply IH; [assumption|]. now apply idx_ok_set_nth.
Qed.

Lemma slice_generator_no_error_proof : forall (shape : list nat) (flat : list Z) (axes : list nat),
  snd (take_ok shape flat (sg_tuples shape axes)) = false /\
  map fst (fst (take_ok shape flat (sg_tuples shape axes))) = sg_tuples shape axes.
Proof.
  intros shape flat axes. apply take_ok_all.
  unfold sg_tuples. apply Forall_forall. intros t Ht. apply in_map_iff in Ht.
  destruct Ht as [n [E Hn]]. apply in_seq in Hn. subst t.
  unfold sg_slices. apply idx_ok_fold; [|apply idx_ok_whole].
  rewrite sg_xs_mr.
  assert (H := mr_in_range (map (fun a => nth a shape 0) axes) n ltac:(lia)).
  clear Hn. revert H. generalize (mr (map (fun a => nth a shape 0) axes) n) as xs.
  induction axes as [|a axes IH]; intros xs H; inversion H; subst; constructor; auto.
Qed.

(* ------------------------------------------------------------------ int axis, negative included *)
Lemma idx_ok_prefix shape : forall k j, j < nth k shape 0 ->
  idx_ok shape (repeat whole k ++ [Z.of_nat j]) = true.
Proof.
  induction shape as [|s sr IH]; intros k j Hj.
  - destruct k; simpl in Hj; lia.
  - destruct k as [|k]; cbn [repeat app idx_ok nth] in *.
    + apply andb_true_iff. split; [apply Z.ltb_lt; lia|destruct sr; reflexivity].
    + apply andb_true_iff. split; [apply Z.ltb_lt; unfold whole; lia|now apply IH].
Qed.

Lemma norm_axis_nonneg ndim k : k < ndim -> norm_axis ndim (Z.of_nat k) = Some k.
Proof.
  intros H. unfold norm_axis.
  replace ((0 <=? Z.of_nat k) && (Z.of_nat k <? Z.of_nat ndim))%Z with true
    by (symmetry; apply andb_true_iff; split; [apply Z.leb_le|apply Z.ltb_lt]; lia).
  now rewrite Nat2Z.id.
Qed.

Lemma slice_generator_int_axis_proof : forall (shape : list nat) (flat : list Z) (k : nat),
  k < length shape ->
  let r := sg_int shape flat (Z.of_nat k) in
  sg_int shape flat (Z.of_nat k - Z.of_nat (length shape)) = r /\
  snd r = false /\
  map fst (fst r) = map (fun j => repeat whole k ++ [Z.of_nat j]) (seq 0 (nth k shape 0)).
Proof.
  intros shape flat k Hk. cbv zeta. unfold sg_int.
  destruct (Z.ltb_spec (Z.of_nat k - Z.of_nat (length shape)) 0) as [_|H]; [|lia].
  replace (Z.of_nat k - Z.of_nat (length shape) + Z.of_nat (length shape))%Z with (Z.of_nat k) by lia.
  destruct (Z.ltb_spec (Z.of_nat k) 0) as [H|_]; [lia|].
  split; [reflexivity|].
  rewrite norm_axis_nonneg by assumption. unfold sg_int_tuples. rewrite Nat2Z.id.
  apply take_ok_all. apply Forall_forall. intros t Ht. apply in_map_iff in Ht.
  destruct Ht as [j [<- Hj]]. apply in_seq in Hj. apply idx_ok_prefix. lia.
Qed.

(* ------------------------------------------------------------------ parcels *)
Lemma insert_u_In x y l : In y (insert_u x l) <-> y = x \/ In y l.
Proof.
  induction l as [|h r IH]; simpl.
  - intuition.
  - destruct (x <? h)%Z eqn:E1; [simpl; intuition|].
    destruct (x =? h)%Z eqn:E2.
    + apply Z.eqb_eq in E2. subst. simpl. intuition.
    + simpl. rewrite IH. intuition.
Qed.

Lemma unique_In y l : In y (unique l) <-> In y l.
Proof.
  induction l as [|h r IH]; simpl; [reflexivity|].
  rewrite insert_u_In, IH. intuition.
Qed.

Lemma insert_u_sorted x l : StronglySorted Z.lt l -> StronglySorted Z.lt (insert_u x l).
Proof.
  induction 1 as [|h r Hs IH Hf]; simpl.
  - repeat constructor.
  - destruct (x <? h)%Z eqn:E1.
    + apply Z.ltb_lt in E1. constructor; [constructor; assumption|].
      constructor; [assumption|]. rewrite Forall_forall in *. intros y Hy. specialize (Hf y Hy). lia.
    + destruct (x =? h)%Z eqn:E2; [constructor; assumption|].
      apply Z.ltb_ge in E1. apply Z.eqb_neq in E2.
      constructor; [assumption|]. rewrite Forall_forall in *. intros y Hy.
      apply insert_u_In in Hy. destruct Hy as [->|Hy]; [lia|auto].
Qed.

Lemma unique_sorted l : StronglySorted Z.lt (unique l).
Proof. induction l as [|h r IH]; simpl; [constructor|apply insert_u_sorted; assumption]. Qed.

Lemma sorted_NoDup l : StronglySorted Z.lt l -> NoDup l.
Proof.
  induction 1 as [|h r Hs IH Hf]; constructor; [|assumption].
  intros Hin. rewrite Forall_forall in Hf. specialize (Hf h Hin). lia.
Qed.

Lemma parcels_default_eq data : parcels_default data = map (mask_eq data) (unique data).
Proof.
  unfold parcels_default, parcels. induction (unique data) as [|u us IH]; simpl; [reflexivity|].
  f_equal. exact IH.
Qed.

Lemma nth_mask_eq data l p : p < length data -> nth p (mask_eq data l) false = (nth p data 0 =? l)%Z.
Proof.
  intros H. unfold mask_eq.
  rewrite (nth_indep _ false ((fun d => (d =? l)%Z) 0%Z)) by (rewrite map_length; assumption).
  exact (map_nth (fun d => (d =? l)%Z) data 0%Z p).
Qed.

Lemma nth_masks data k : k < length (unique data) ->
  nth k (map (mask_eq data) (unique data)) [] = mask_eq data (nth k (unique data) 0%Z).
Proof.
  intros H. rewrite (nth_indep _ [] (mask_eq data 0%Z)) by (rewrite map_length; assumption).
  exact (map_nth (mask_eq data) (unique data) 0%Z k).
Qed.

Lemma parcels_partition_proof : forall data : list Z,
  let masks := parcels_default data in
  (* one mask per distinct value, each of the array's size and non-empty *)
  length masks = length (unique data) /\
  (forall m, In m masks -> length m = length data /\ existsb (fun b => b) m = true) /\
  (* every position is True in exactly one mask *)
  (forall p, p < length data ->
     exists k, k < length masks /\ nth p (nth k masks []) false = true /\
       forall k', k' < length masks -> nth p (nth k' masks []) false = true -> k' = k).
Proof.
  intros data. cbv zeta. rewrite parcels_default_eq, map_length.
  split; [reflexivity|split].
  - intros m Hm. apply in_map_iff in Hm. destruct Hm as [l [E Hl]]. subst m.
    split; [apply map_length|].
    apply existsb_exists. exists true. split; [|reflexivity].
    apply (proj1 (unique_In _ _)) in Hl. unfold mask_eq. apply in_map_iff. exists l. split; [apply Z.eqb_refl|assumption].
  - intros p Hp.
    assert (Hin : In (nth p data 0%Z) (unique data)) by (apply (proj2 (unique_In _ _)), nth_In; assumption).
    destruct (In_nth _ _ 0%Z Hin) as [k [Hk Ek]].
    exists k. split; [assumption|split].
    + rewrite nth_masks, nth_mask_eq, Ek by assumption. apply Z.eqb_refl.
    + intros k' Hk' E. rewrite nth_masks, nth_mask_eq in E by assumption.
      apply Z.eqb_eq in E.
      apply (proj1 (NoDup_nth (unique data) 0%Z) (sorted_NoDup _ (unique_sorted data))); try assumption.
      congruence.
Qed.

(* labels are visited in increasing order (np.unique) *)
Lemma parcels_label_order : forall data, StronglySorted Z.lt (unique data).
Proof. exact unique_sorted. Qed.

(* a tuple/list label gives the union of its values' masks *)
Lemma nth_map_lt {A B} (f : A -> B) l p dA dB : p < length l -> nth p (map f l) dB = f (nth p l dA).
Proof.
  intros H. rewrite (nth_indep _ dB (f dA)) by (rewrite map_length; assumption). apply map_nth.
Qed.

Definition acc_step (data : list Z) (v : list nat) (l : Z) : list nat :=
  map (fun q : nat * bool => fst q + (if snd q then 1 else 0)) (combine v (mask_eq data l)).

Lemma acc_step_length data v l : length v = length data -> length (acc_step data v l) = length data.
Proof.
  intros H. unfold acc_step, mask_eq. rewrite map_length, combine_length, map_length. lia.
Qed.

Lemma acc_step_nth data v l p : length v = length data -> p < length data ->
  nth p (acc_step data v l) 0 = nth p v 0 + (if (nth p data 0 =? l)%Z then 1 else 0).
Proof.
  intros Hv Hp. unfold acc_step.
  rewrite (nth_map_lt _ _ p (0, false) 0).
  - rewrite combine_nth by (unfold mask_eq; rewrite map_length; assumption).
    cbn [fst snd]. rewrite nth_mask_eq by assumption. reflexivity.
  - unfold mask_eq. rewrite combine_length, map_length. lia.
Qed.

Lemma fold_acc data ls : forall v, length v = length data ->
  (length (fold_left (acc_step data) ls v) = length data) /\
  (forall p, p < length data ->
    nth p (fold_left (acc_step data) ls v) 0
    = nth p v 0 + length (filter (fun l => (nth p data 0 =? l)%Z) ls)).
Proof.
  induction ls as [|l ls IH]; intros v Hv; simpl.
  - split; [assumption|intros; lia].
  - destruct (IH (acc_step data v l) (acc_step_length data v l Hv)) as [HL HN].
    split; [assumption|]. intros p Hp. rewrite HN, acc_step_nth by assumption.
    destruct (nth p data 0 =? l)%Z; simpl; lia.
Qed.

Lemma mask_many_union : forall data ls p, p < length data ->
  nth p (mask_many data ls) false = existsb (fun l => (nth p data 0 =? l)%Z) ls.
Proof.
  intros data ls p Hp. unfold mask_many. fold (acc_step data).
  destruct (fold_acc data ls (map (fun _ => 0) data) (map_length _ _)) as [HL HN].
  rewrite (nth_map_lt _ _ p 0 false) by lia.
  rewrite HN by assumption.
  rewrite (nth_map_lt _ _ p 0%Z 0) by assumption. simpl. clear HL HN.
  induction ls as [|l ls IH]; simpl; [reflexivity|].
  destruct (nth p data 0 =? l)%Z; simpl; [reflexivity|exact IH].
Qed.
