(* C19 (mask part): proofs about the morphology model. *)
From Coq Require Import List Arith Lia Bool PeanoNat.
From NV.Lib Require Import C19Index.
From NV.C19 Require Import MaskModel MorphModel.
Import ListNotations.

(* the structuring element is symmetric: q is a face neighbour of p iff p is one of q *)
Lemma nbrs_sym p : forall q, In (Some q) (nbrs p) -> In (Some p) (nbrs q).
Proof.
  induction p as [|x r IH]; intros q H; [destruct H|].
  cbn [nbrs] in H. destruct H as [H|[H|H]].
  - inversion H; subst. cbn [nbrs]. right. left. reflexivity.
  - destruct x as [|x']; [discriminate|]. inversion H; subst. cbn [nbrs]. left. reflexivity.
  - apply in_map_iff in H. destruct H as [o [Ho Hin]].
    destruct o as [q'|]; [|discriminate]. cbn in Ho. inversion Ho; subst.
    cbn [nbrs]. right. right. apply in_map_iff. exists (Some r). split; [reflexivity|]. now apply IH.
Qed.

Definition sub (X Y : mfun) : Prop := forall p, X p = true -> Y p = true.

Lemma look_sub X Y o : sub X Y -> look X o = true -> look Y o = true.
Proof. intros H. destruct o as [q|]; simpl; [apply H|auto]. Qed.

Lemma erode_mono X Y : sub X Y -> sub (erode X) (erode Y).
Proof.
  intros H p. unfold erode. rewrite !andb_true_iff, !forallb_forall.
  intros [H1 H2]. split; [now apply H|]. intros o Ho. eapply look_sub; [exact H|now apply H2].
Qed.

Lemma dilate_mono s X Y : sub X Y -> sub (dilate s X) (dilate s Y).
Proof.
  intros H p. unfold dilate. rewrite !andb_true_iff, !orb_true_iff, !existsb_exists.
  intros [Hb [H1|[o [Ho H2]]]]; (split; [exact Hb|]).
  - left. now apply H.
  - right. exists o. split; [exact Ho|]. eapply look_sub; eassumption.
Qed.

(* one erosion followed by one dilation never adds a voxel *)
Lemma dilate_erode_sub s X : sub (dilate s (erode X)) X.
Proof.
  intros p. unfold dilate. rewrite andb_true_iff, orb_true_iff, existsb_exists.
  intros [_ [H|[o [Ho H]]]].
  - unfold erode in H. apply andb_true_iff in H. tauto.
  - destruct o as [q|]; [|discriminate]. cbn [look] in H. unfold erode in H.
    apply andb_true_iff in H. destruct H as [_ H]. rewrite forallb_forall in H.
    apply (H (Some p)). now apply nbrs_sym.
Qed.

Lemma iter_mono (f : mfun -> mfun) k :
  (forall X Y, sub X Y -> sub (f X) (f Y)) -> forall X Y, sub X Y -> sub (Nat.iter k f X) (Nat.iter k f Y).
Proof. intros Hf. induction k as [|k IH]; intros X Y H; simpl; [exact H|]. apply Hf. now apply IH. Qed.

Lemma iter_shift {A} (f : A -> A) k x : Nat.iter (S k) f x = Nat.iter k f (f x).
Proof. induction k as [|k IH]; [reflexivity|]. simpl in *. f_equal. exact IH. Qed.

(* binary_opening(iterations=k) is anti-extensive, for every k, every shape, every dimension *)
Lemma opening_sub s k : forall X, sub (opening_fn s k X) X.
Proof.
  induction k as [|k IH]; intros X; [intros p H; exact H|].
  unfold opening_fn. rewrite (iter_shift erode k X). cbn [Nat.iter].
  intros p H.
  apply (dilate_erode_sub s X).
  revert p H. apply dilate_mono. apply (IH (erode X)).
Qed.

(* ---- tabulation bridge: reading back a tabulated mask gives the mask restricted to the array *)
Lemma inb_Forall2 s : forall p, inb s p = true <-> Forall2 lt p s.
Proof.
  induction s as [|n s IH]; intros [|x p]; cbn [inb].
  - split; [constructor|reflexivity].
  - split; [discriminate|intros H; inversion H].
  - split; [discriminate|intros H; inversion H].
  - rewrite andb_true_iff, Nat.ltb_lt, IH. split.
    + intros [H1 H2]. now constructor.
    + intros H. inversion H; subst. auto.
Qed.

Lemma nth_ravel_indices s p : Forall2 lt p s -> nth (ravel s p) (indices s) [] = p /\ ravel s p < prod s.
Proof.
  intros H. apply In_indices in H. destruct (In_nth _ _ [] H) as [k [Hk Ek]].
  rewrite indices_length in Hk.
  assert (E : nth k (map (ravel s) (indices s)) 0 = ravel s p).
  { rewrite (nth_indep _ 0 (ravel s [])) by (rewrite map_length, indices_length; exact Hk).
    rewrite map_nth, Ek. reflexivity. }
  rewrite map_ravel_indices, seq_nth in E by exact Hk. simpl in E. subst k. split; [exact Ek|exact Hk].
Qed.

Lemma of_flat_tabulate s (X : mfun) p : mask_of_flat s (tabulate s X) p = inb s p && X p.
Proof.
  unfold mask_of_flat, tabulate. destruct (inb s p) eqn:E; [|reflexivity]. cbn [andb].
  apply inb_Forall2 in E. destruct (nth_ravel_indices s p E) as [E1 E2].
  rewrite (nth_indep _ false (X [])) by (rewrite map_length, indices_length; exact E2).
  rewrite map_nth, E1. reflexivity.
Qed.

Lemma step_erode_sub s l : sub (mask_of_flat s (step_flat s erode l)) (erode (mask_of_flat s l)).
Proof.
  intros p. unfold step_flat. rewrite of_flat_tabulate, andb_true_iff. tauto.
Qed.

Lemma step_dilate_sub s l : sub (mask_of_flat s (step_flat s (dilate s) l)) (dilate s (mask_of_flat s l)).
Proof.
  intros p. unfold step_flat. rewrite of_flat_tabulate, andb_true_iff. tauto.
Qed.

Lemma iter_step_sub s (f : mfun -> mfun) k :
  (forall X Y, sub X Y -> sub (f X) (f Y)) ->
  (forall l, sub (mask_of_flat s (step_flat s f l)) (f (mask_of_flat s l))) ->
  forall l, sub (mask_of_flat s (Nat.iter k (step_flat s f) l)) (Nat.iter k f (mask_of_flat s l)).
Proof.
  intros Hm Hs. induction k as [|k IH]; intros l; [intros p H; exact H|].
  cbn [Nat.iter]. intros p H. apply Hs in H. revert p H. apply Hm. apply IH.
Qed.

(* the executable (tabulated) opening never adds a voxel either *)
Lemma opening_flat_sub s k l : sub (mask_of_flat s (opening_flat s k l)) (mask_of_flat s l).
Proof.
  unfold opening_flat. intros p H.
  apply (opening_sub s k (mask_of_flat s l)). unfold opening_fn.
  apply (iter_step_sub s (dilate s) k (dilate_mono s) (step_dilate_sub s)) in H.
  revert p H. apply iter_mono; [apply dilate_mono|].
  apply (iter_step_sub s erode k erode_mono (step_erode_sub s)).
Qed.

(* compute_mask(cc=True, opening=k): every selected voxel lies in the largest connected component
   of the thresholded volume (the component selected by largest_cc, see largest_cc_spec) *)
Lemma postprocess_within_component s mask labels nb k r c :
  postprocess s mask true labels nb k = Some r ->
  largest_cc_sel mask labels nb = Some c ->
  sub (mask_of_flat s r) (mask_of_flat s c).
Proof.
  unfold postprocess. intros H Hc. rewrite Hc in H. injection H as <-.
  destruct (k =? 0); [intros p Hp; exact Hp|apply opening_flat_sub].
Qed.

Lemma postprocess_opening_zero s mask cc labels nb :
  postprocess s mask cc labels nb 0 = (if cc then largest_cc_sel mask labels nb else Some mask).
Proof. unfold postprocess. destruct cc; [destruct (largest_cc_sel mask labels nb)|]; reflexivity. Qed.
