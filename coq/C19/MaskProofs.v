(* C19 (mask part): proofs. *)
From Coq Require Import List Arith Lia Bool ZArith PeanoNat QArith Qround Lqa.
From NV.C19 Require Import MaskModel.
Import ListNotations.
Close Scope Q_scope.

Section Affine.
Variables a b : Q.
Hypothesis Ha : (0 < a)%Q.
(* the intensity change x -> a x + b *)
Definition aff (x : Q) : Q := (a * x + b)%Q.

Lemma scale_le x y : Qle_bool (a * x) (a * y) = Qle_bool x y.
Proof.
  apply eq_true_iff_eq. rewrite !Qle_bool_iff. apply Qmult_le_l. exact Ha.
Qed.

Lemma aff_le x y : Qle_bool (aff x) (aff y) = Qle_bool x y.
Proof.
  rewrite <- (scale_le x y). apply eq_true_iff_eq. rewrite !Qle_bool_iff. unfold aff.
  split; intros H; lra.
Qed.

Lemma insert_map x l : insert_sorted (aff x) (map aff l) = map aff (insert_sorted x l).
Proof.
  induction l as [|y l IH]; simpl; [reflexivity|].
  rewrite aff_le. destruct (Qle_bool x y); simpl; [reflexivity|now rewrite IH].
Qed.

(* an order isomorphism commutes with sorting *)
Lemma sort_map l : sortq (map aff l) = map aff (sortq l).
Proof.
  induction l as [|x l IH]; simpl; [reflexivity|]. rewrite IH. apply insert_map.
Qed.

Lemma pyslice_map lo hi l : pyslice lo hi (map aff l) = map aff (pyslice lo hi l).
Proof. unfold pyslice. now rewrite skipn_map, firstn_map. Qed.

(* gaps scale by a *)
Lemma zipminus_scaled u : forall v,
  Forall2 (fun d' d => (d' == a * d)%Q) (zipminus (map aff u) (map aff v)) (zipminus u v).
Proof.
  induction u as [|x u IH]; intros [|y v]; simpl; try constructor.
  - unfold aff. ring.
  - apply IH.
Qed.

(* ... so the first arg-max is unchanged *)
Lemma argmax_from_scaled l' l : Forall2 (fun d' d => (d' == a * d)%Q) l' l ->
  forall best' best bi i, (best' == a * best)%Q -> argmax_from best' bi i l' = argmax_from best bi i l.
Proof.
  intros H. induction H as [|x' x l' l Hx H IH]; intros best' best bi i Hb; simpl; [reflexivity|].
  assert (E : Qle_bool x' best' = Qle_bool x best).
  { rewrite <- (scale_le x best). apply eq_true_iff_eq. rewrite !Qle_bool_iff. rewrite Hx, Hb. reflexivity. }
  rewrite E. destruct (Qle_bool x best); simpl; apply IH; assumption.
Qed.

Lemma argmax_scaled l' l : Forall2 (fun d' d => (d' == a * d)%Q) l' l -> argmax l' = argmax l.
Proof.
  intros H. destruct H as [|x' x l' l Hx H]; simpl; [reflexivity|].
  f_equal. now apply argmax_from_scaled.
Qed.

Definition opt_affine (o' o : option Q) : Prop :=
  match o', o with
  | Some t', Some t => (t' == aff t)%Q
  | None, None => True
  | _, _ => False
  end.

(* the threshold maps affinely (and the search fails on the same inputs) *)
Lemma threshold_affine xs m M :
  opt_affine (mask_threshold (map aff xs) m M false) (mask_threshold xs m M false).
Proof.
  unfold mask_threshold. cbv zeta. rewrite sort_map, map_length.
  set (s := sortq xs).
  set (n := Z.of_nat (length s)).
  destruct ((Qfloor (m * inject_Z n) <? 0)%Z || (n <=? Qfloor (M * inject_Z n))%Z); [exact I|].
  set (li := Z.to_nat (Qfloor (m * inject_Z n))). set (ls := Z.to_nat (Qfloor (M * inject_Z n))).
  rewrite !pyslice_map.
  rewrite (argmax_scaled _ _ (zipminus_scaled (pyslice (li + 1) (ls + 1) s) (pyslice li ls s))).
  destruct (argmax (zipminus (pyslice (li + 1) (ls + 1) s) (pyslice li ls s))) as [ia|]; [|exact I].
  rewrite !nth_error_map.
  destruct (nth_error s (ia + li)) as [u|]; [|exact I].
  destruct (nth_error s (ia + li + 1)) as [v|]; [|exact I].
  simpl. unfold aff. ring.
Qed.

(* compute_mask(a x + b) selects exactly the voxels of compute_mask(x) *)
Lemma mask_affine xs ref m M :
  compute_mask_raw (map aff xs) (map aff ref) m M false = compute_mask_raw xs ref m M false.
Proof.
  unfold compute_mask_raw. assert (H := threshold_affine xs m M).
  destruct (mask_threshold (map aff xs) m M false) as [t'|];
    destruct (mask_threshold xs m M false) as [t|]; simpl in H; try contradiction; [|reflexivity].
  f_equal. rewrite map_map. apply map_ext. intros x.
  rewrite <- (aff_le t x). apply eq_true_iff_eq. rewrite !Qle_bool_iff. rewrite H. reflexivity.
Qed.
End Affine.

(* ------------------------------------------------- intersect_masks rule *)
Lemma sel_iff (c : Z) (tn : Q) : negb (Qle_bool (inject_Z c) tn) = true <-> (tn < inject_Z c)%Q.
Proof.
  rewrite negb_true_iff. split.
  - intros H. apply Qnot_le_lt. intro L. apply Qle_bool_iff in L. congruence.
  - intros H. destruct (Qle_bool (inject_Z c) tn) eqn:E; [|reflexivity].
    apply Qle_bool_iff in E. exfalso. apply (Qlt_irrefl tn). eapply Qlt_le_trans; eassumption.
Qed.

Lemma intersect_rule (n : nat) (thr : Q) (c : Z) :
  let N := inject_Z (Z.of_nat n) in
  let sel := negb (Qle_bool (inject_Z c) (clip_threshold thr * N)) in
  (0 <= thr)%Q -> (thr <= 1)%Q -> 1 <= n -> (Z.of_nat n < 10000000)%Z -> (0 <= c <= Z.of_nat n)%Z ->
  ((thr == 0)%Q -> (sel = true <-> (0 < c)%Z)) /\
  ((thr == 1)%Q -> (sel = true <-> c = Z.of_nat n)) /\
  ((thr <= 1 - (1 # 10000000))%Q -> (sel = true <-> (thr * N < inject_Z c)%Q)).
Proof.
  intros N sel H0 H1 Hn1 Hn2 Hc. unfold sel. rewrite sel_iff.
  assert (HN1 : (1 <= N)%Q) by (unfold N; change 1%Q with (inject_Z 1); rewrite <- Zle_Qle; lia).
  assert (HN2 : (N < 10000000)%Q) by (unfold N; change 10000000%Q with (inject_Z 10000000); rewrite <- Zlt_Qlt; lia).
  unfold clip_threshold.
  destruct (Qle_bool thr (1 - (1 # 10000000))) eqn:E.
  - apply Qle_bool_iff in E. split; [|split].
    + intros Hz. rewrite Hz. rewrite Qmult_0_l. change 0%Q with (inject_Z 0). rewrite <- Zlt_Qlt. reflexivity.
    + intros Hz. exfalso. rewrite Hz in E. revert E. apply Qlt_not_le. reflexivity.
    + intros _. reflexivity.
  - assert (E' : ~ (thr <= 1 - (1 # 10000000))%Q) by (intro L; apply Qle_bool_iff in L; congruence).
    split; [|split].
    + intros Hz. exfalso. apply E'. rewrite Hz. discriminate.
    + intros _. split.
      * intros H. destruct (Z.eq_dec c (Z.of_nat n)) as [Heq|Hneq]; [exact Heq|exfalso].
        assert (Hc' : (inject_Z c <= N - 1)%Q).
        { unfold N. change 1%Q with (inject_Z 1). unfold Qminus. rewrite <- inject_Z_opp, <- inject_Z_plus, <- Zle_Qle. lia. }
        lra.
      * intros ->. fold N. lra.
    + intros L. contradiction.
Qed.
