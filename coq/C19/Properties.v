(* C19 - property theorems only.  Each is closed by an `exact`/short script
   over lemmas of Proofs.v; `Print Assumptions` follows each. *)
From Coq Require Import String.
From Coq Require Import List Arith Lia Bool Permutation PeanoNat QArith.
From NV.Lib Require Import SlotAlg.
From NV.Generated Require Import SliceTiming.
From NV.C19 Require Import Model Proofs.
Import ListNotations.
Close Scope Q_scope.

(* (1) Tie to the source: after inlining calls, every schedule expression
   translated from timefuncs.py is the reference expression of Model.v. *)
Theorem st_source_is_reference :
  map (fun p => (fst p, inline src_table 20 (snd p))) src_table
  = map (fun p => (fst p, Some (snd p))) ref_table.
Proof. vm_compute. reflexivity. Qed.
Print Assumptions st_source_is_reference.

(* (2) For EVERY n, every schedule in the source assigns the slices a
   permutation of the slots 0..n-1: each slice exactly one distinct slot. *)
Theorem st_is_schedule :
  forall name e, In (name, e) src_table ->
  forall n, exists slots, eval_in src_table 20 n e = Some slots /\ Permutation slots (seq 0 n).
Proof. apply table_perm_sound. vm_compute. reflexivity. Qed.
Print Assumptions st_is_schedule.

(* (3) For EVERY n the reference expressions follow the documented
   acquisition order: the slice documented as collected k-th has slot k. *)
Theorem st_documented_order : Forall2 follows_doc ref_table doc_table.
Proof. exact ref_follows_doc. Qed.
Print Assumptions st_documented_order.

Theorem st_doc_closed_forms :
  forall n k, k < n -> eo n k = eo_closed n k /\ oe n k = oe_closed n k.
Proof. intros n k H. split; [now apply eo_is_closed|now apply oe_is_closed]. Qed.
Print Assumptions st_doc_closed_forms.

(* (4) Times are slot * TR / n: inside [0, TR) and distinct for distinct slots. *)
Theorem st_times_within_TR :
  forall (TR : Q) n s, (0 < TR)%Q -> s < n ->
  (0 <= inject_Z (Z.of_nat s) * TR / inject_Z (Z.of_nat n) /\
   inject_Z (Z.of_nat s) * TR / inject_Z (Z.of_nat n) < TR)%Q.
Proof. exact time_in_TR. Qed.
Print Assumptions st_times_within_TR.

Theorem st_times_distinct :
  forall (TR : Q) n s t, (0 < TR)%Q -> 0 < n ->
  (inject_Z (Z.of_nat s) * TR / inject_Z (Z.of_nat n) ==
   inject_Z (Z.of_nat t) * TR / inject_Z (Z.of_nat n))%Q -> s = t.
Proof. exact time_injective. Qed.
Print Assumptions st_times_distinct.

(* (5) Registry: long name, short name (without "st_") and alias are all
   registered and pairwise distinct (so no registration raises). *)
Theorem st_registry_names_distinct :
  str_nodup (map fst (registry_keys (map fst src_table) src_aliases)) = true.
Proof. vm_compute. reflexivity. Qed.
Print Assumptions st_registry_names_distinct.

(* non-vacuity: a concrete schedule *)
Example st_02413_five :
  eval_in src_table 20 5 src_st_02413 = Some [0; 3; 1; 4; 2].
Proof. vm_compute. reflexivity. Qed.
