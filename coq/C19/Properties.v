(* C19 - property theorems only.  Each is closed by an `exact`/short script
   over lemmas of Proofs.v; `Print Assumptions` follows each. *)
From Coq Require Import String.
From Coq Require Import List Arith Lia Bool Permutation PeanoNat QArith.
From NV.Lib Require Import SlotAlg.
From NV.Generated Require Import SliceTiming.
From NV.C19 Require Import Model Proofs.
Import ListNotations.
Close Scope Q_scope.

(* (1) Tie to the source: after inlining calls, every schedule expression
   translated from timefuncs.py is the reference expression of Model.v. *)
Theorem st_source_is_reference :
  map (fun p => (fst p, inline src_table 20 (snd p))) src_table
  = map (fun p => (fst p, Some (snd p))) ref_table.
Proof. vm_compute. reflexivity. Qed.
Print Assumptions st_source_is_reference.

(* (2) For EVERY n, every schedule in the source assigns the slices a
   permutation of the slots 0..n-1: each slice exactly one distinct slot. *)
Theorem st_is_schedule :
  forall name e, In (name, e) src_table ->
  forall n, exists slots, eval_in src_table 20 n e = Some slots /\ Permutation slots (seq 0 n).
Proof. apply table_perm_sound. vm_compute. reflexivity. Qed.
Print Assumptions st_is_schedule.

(* (3) For EVERY n the reference expressions follow the documented
   acquisition order: the slice documented as collected k-th has slot k. *)
Theorem st_documented_order : Forall2 follows_doc ref_table doc_table.
Proof. exact ref_follows_doc. Qed.
Print Assumptions st_documented_order.

Theorem st_doc_closed_forms :
  forall n k, k < n -> eo n k = eo_closed n k /\ oe n k = oe_closed n k.
Proof. intros n k H. split; [now apply eo_is_closed|now apply oe_is_closed]. Qed.
Print Assumptions st_doc_closed_forms.

(* (4) Times are slot * TR / n: inside [0, TR) and distinct for distinct slots. *)
Theorem st_times_within_TR :
  forall (TR : Q) n s, (0 < TR)%Q -> s < n ->
  (0 <= inject_Z (Z.of_nat s) * TR / inject_Z (Z.of_nat n) /\
   inject_Z (Z.of_nat s) * TR / inject_Z (Z.of_nat n) < TR)%Q.
Proof. exact time_in_TR. Qed.
Print Assumptions st_times_within_TR.

Theorem st_times_distinct :
  forall (TR : Q) n s t, (0 < TR)%Q -> 0 < n ->
  (inject_Z (Z.of_nat s) * TR / inject_Z (Z.of_nat n) ==
   inject_Z (Z.of_nat t) * TR / inject_Z (Z.of_nat n))%Q -> s = t.
Proof. exact time_injective. Qed.
Print Assumptions st_times_distinct.

(* (5) Registry: long name, short name (without "st_") and alias are all
   registered and pairwise distinct (so no registration raises). *)
Theorem st_registry_names_distinct :
  str_nodup (map fst (registry_keys (map fst src_table) src_aliases)) = true.
Proof. vm_compute. reflexivity. Qed.
Print Assumptions st_registry_names_distinct.

(* non-vacuity: a concrete schedule *)
Example st_02413_five :
  eval_in src_table 20 5 src_st_02413 = Some [0; 3; 1; 4; 2].
Proof. vm_compute. reflexivity. Qed.

(* ====================================================================== *)
(* time_slice_diffs (nipy/algorithms/diagnostics/timediff.py)              *)
(* ====================================================================== *)
From Coq Require Import ZArith.
From NV.Lib Require Import C19Index.
From NV.C19 Require Import TsdModel TsdProofs.

(* (6) Axis-normalisation arithmetic, for EVERY ndim >= 2: negative axes and the
   default slice axis run exactly the computation of their non-negative
   counterparts (`slice_axis=None` = last axis that is not the time axis). *)
Theorem tsd_axis_normalisation :
  forall (a : nda Z) (ta sa : nat),
  let n := length (shp a) in
  ta < n -> sa < n -> ta <> sa ->
  let tpos := Z.of_nat ta in let tneg := (Z.of_nat ta - Z.of_nat n)%Z in
  let spos := Some (Z.of_nat sa) in let sneg := Some (Z.of_nat sa - Z.of_nat n)%Z in
  tsd a tneg spos = tsd a tpos spos /\ tsd a tpos sneg = tsd a tpos spos /\
  tsd a tneg sneg = tsd a tpos spos /\
  (sa = (if Nat.eqb ta (n - 1) then n - 2 else n - 1) ->
     tsd a tpos None = tsd a tpos spos /\ tsd a tneg None = tsd a tpos spos) /\
  tsd a tpos (Some tpos) = SameAxis /\ tsd a tneg (Some tpos) = SameAxis.
Proof.
  intros a ta sa n Ht Hs Hne tpos tneg spos sneg.
  assert (Hn : 2 <= n) by lia.
  assert (P := fun tv sv H1 H2 => tsd_unfold a ta sa tv sv Ht Hs Hne H1 H2). fold n in P.
  assert (E0 := P tpos spos (norm_axis_pos n ta) (norm_axis_pos n sa)).
  repeat split.
  - rewrite E0. apply P; [now apply norm_axis_neg|apply norm_axis_pos].
  - rewrite E0. apply P; [apply norm_axis_pos|now apply (norm_axis_neg n sa)].
  - rewrite E0. apply P; [now apply norm_axis_neg|now apply (norm_axis_neg n sa)].
  - rewrite E0. apply P; [apply norm_axis_pos|]. rewrite norm_slice_default by assumption. now f_equal.
  - rewrite E0. apply P; [now apply norm_axis_neg|]. rewrite norm_slice_default by assumption. now f_equal.
  - unfold tsd. fold n. unfold tpos. destruct (Z.ltb_spec (Z.of_nat ta) 0); [lia|].
    now rewrite Z.eqb_refl.
  - unfold tsd. fold n. unfold tneg, tpos. destruct (Z.ltb_spec (Z.of_nat ta - Z.of_nat n) 0); [|lia].
    destruct (Z.ltb_spec (Z.of_nat ta) 0); [lia|].
    replace (Z.of_nat ta - Z.of_nat n + Z.of_nat n)%Z with (Z.of_nat ta) by lia. now rewrite Z.eqb_refl.
Qed.
Print Assumptions tsd_axis_normalisation.

(* (7) Axis equivariance, for EVERY shape, every ndim >= 2 and every valid
   (time, slice) axis specification incl. negatives / None: the result is the
   default-position result `tsd moved 0 1` on the axis-moved array `moved`
   (shape (T, S, other extents in order); entry (t,s,r) = entry of `a` with t on
   the time axis, s on the slice axis, r on the others), with the two volume
   outputs transposed back (entry v of the output = entry (v[slice], v without
   slice) of the default-position volume); the 1-d/2-d outputs are unchanged. *)
Theorem tsd_axis_equivariant :
  forall (a : nda Z) (ta sa : nat) (tv : Z) (sv : option Z),
  let n := length (shp a) in
  let sav := slice_in_vol ta sa in
  ta < n -> sa < n -> ta <> sa ->
  norm_axis n tv = Z.of_nat ta -> norm_slice n (Z.of_nat ta) sv = Z.of_nat sa ->
  exists moved o0,
    shp moved = nth ta (shp a) 0 :: nth sa (shp a) 0 :: remove_at sav (remove_at ta (shp a))
    /\ (forall t s r, at_ moved (t :: s :: r) = at_ a (insert_at ta t (insert_at sav s r)))
    /\ tsd moved 0 (Some 1%Z) = Ok o0
    /\ tsd a tv sv = Ok (rollback (S sav) o0)
    /\ (forall v, sav < length v ->
          at_ (diff2_mean_vol (rollback (S sav) o0)) v = at_ (diff2_mean_vol o0) (nth sav v 0 :: remove_at sav v)
          /\ at_ (slice_diff2_max_vol (rollback (S sav) o0)) v
             = at_ (slice_diff2_max_vol o0) (nth sav v 0 :: remove_at sav v)).
Proof. exact tsd_axis_equivariant_lemma. Qed.
Print Assumptions tsd_axis_equivariant.

(* (8) Definition, on the ORIGINAL axis order, for every shape and axis pair:
   each output equals the stated mean / selection of successive-volume squared
   differences d2o a ta t v = (a[v with t+1 on the time axis] - a[v with t on the time axis])^2. *)
Theorem tsd_definition :
  forall (a : nda Z) (ta sa : nat) (tv : Z) (sv : option Z) (o : tsd_out),
  let n := length (shp a) in
  let sav := slice_in_vol ta sa in
  let nT := nth ta (shp a) 0 in let nS := nth sa (shp a) 0 in
  let R := remove_at sav (remove_at ta (shp a)) in
  ta < n -> sa < n -> ta <> sa ->
  norm_axis n tv = Z.of_nat ta -> norm_slice n (Z.of_nat ta) sv = Z.of_nat sa ->
  tsd a tv sv = Ok o ->
  volume_means o
    = map (fun t => zmean (map (fun v => at_ a (insert_at ta t (move_elem 0 0 sav v))) (indices (nS :: R)))) (seq 0 nT)
  /\ slice_mean_diff2 o = map (slice_means_spec a ta sav nS R) (seq 0 (nT - 1))
  /\ volume_mean_diff2 o = map qmean (slice_mean_diff2 o)
  /\ shp (diff2_mean_vol o) = remove_at ta (shp a)
  /\ shp (slice_diff2_max_vol o) = remove_at ta (shp a)
  /\ (forall v, length v = n - 1 ->
        at_ (diff2_mean_vol o) v
        = (inject_Z (zsum (map (fun t => d2o a ta t v) (seq 0 (nT - 1)))) / inject_Z (Z.of_nat (nT - 1)))%Q)
  /\ (forall v, length v = n - 1 ->
        at_ (slice_diff2_max_vol o) v
        = match snd (nth (nth sav v 0) (run_max nS (slice_mean_diff2 o)) (0%Q, None)) with
          | None => 0%Q
          | Some t => inject_Z (d2o a ta t v)
          end)
  /\ dmv_nan o = Nat.eqb (nT - 1) 0.
Proof.
  intros a ta sa tv sv o n sav nT nS R Ht Hs Hne H1 H2 H3.
  exact (tsd_definition_lemma a ta sa Ht Hs Hne tv sv o H1 H2 H3).
Qed.
Print Assumptions tsd_definition.

(* (9) Running maxima (strict `>` update from an initial 0): per slice s the
   stored slice is the squared difference at the FIRST time whose slice mean
   attains the maximum over time, if some slice mean is positive; otherwise the
   slice keeps its initial zeros. *)
Theorem tsd_running_max :
  forall (a : nda Z) nT nS R s,
  shp a = nT :: nS :: R -> s < nS ->
  let col := map (fun t => nth s (slice_means a nS R t) 0%Q) (seq 0 (nT - 1)) in
  let o := tsd_core a in
  (forall r, (forall x, In x col -> (x <= 0)%Q) -> at_ (slice_diff2_max_vol o) (s :: r) = 0%Q) /\
  (forall x, In x col -> (0 < x)%Q ->
     exists t, t < nT - 1
       /\ (forall r, at_ (slice_diff2_max_vol o) (s :: r) = inject_Z (d2 a t (s :: r)))
       /\ (forall x', In x' col -> (x' <= nth t col 0%Q)%Q)
       /\ (forall t', t' < t -> (nth t' col 0%Q < nth t col 0%Q)%Q)).
Proof. exact tsd_running_max_lemma. Qed.
Print Assumptions tsd_running_max.

(* (10) The documented 'mean over voxels in the volume' equals the computed
   mean over slices of the slice means. *)
Theorem tsd_volume_mean_is_mean_of_slice_means :
  forall (a : nda Z) nS R t,
  (qmean (slice_means a nS R t) == zmean (map (fun v => d2 a t v) (indices (nS :: R))))%Q.
Proof. exact volds_is_volume_mean. Qed.
Print Assumptions tsd_volume_mean_is_mean_of_slice_means.

(* (11) The harness boundary is lossless: flattening the index-function view of
   row-major data gives the data back. *)
Theorem tsd_flat_roundtrip :
  forall (s : list nat) (data : list Z), length data = prod s -> to_flat (of_flat 0%Z s data) = data.
Proof.
  intros s data H. unfold to_flat, of_flat. cbn [shp at_].
  rewrite <- (map_map (ravel s) (fun m => nth m data 0%Z)), map_ravel_indices, <- H.
  clear H. induction data as [|x l IH] using rev_ind; [reflexivity|].
  rewrite app_length. cbn [length]. rewrite Nat.add_1_r, seq_S, map_app. cbn [map Nat.add].
  rewrite app_nth2 by lia. rewrite Nat.sub_diag. cbn [nth]. f_equal.
  rewrite <- IH at 2. apply map_ext_in. intros m Hm. apply in_seq in Hm. apply app_nth1. lia.
Qed.
Print Assumptions tsd_flat_roundtrip.

(* non-vacuity: a (2,2,2) array, time axis -3 (= 0), default slice axis (= 2) *)
Example tsd_example :
  match tsd (of_flat 0%Z [2;2;2] [1;2;3;4;5;9;3;0]%Z) (-3)%Z None with
  | Ok o => (slice_mean_diff2 o, to_flat (slice_diff2_max_vol o), shp (diff2_mean_vol o))
  | _ => ([], [], [])
  end = ([[ (16#2)%Q; (65#2)%Q ]], [16#1; 49#1; 0#1; 16#1]%Q, [2; 2]).
Proof. vm_compute. reflexivity. Qed.

(* ====================================================================== *)
(* labs/mask.py                                                            *)
(* ====================================================================== *)
From NV.C19 Require Import MaskModel MaskProofs.

(* (12) compute_mask is invariant under positive affine intensity changes
   x -> a x + b (a > 0), for ALL volumes, reference volumes and window fractions:
   sorting commutes with the order isomorphism, the gaps scale by a, the first
   arg-max is unchanged, the threshold maps to a t + b and `>=` is preserved -
   the selected voxels are identical (and the call fails on the same inputs). *)
Theorem mask_threshold_affine_invariant :
  forall (a b : Q), (0 < a)%Q ->
  forall (xs ref : list Q) (m M : Q),
    opt_affine a b (mask_threshold (map (aff a b) xs) m M false) (mask_threshold xs m M false)
    /\ compute_mask_raw (map (aff a b) xs) (map (aff a b) ref) m M false = compute_mask_raw xs ref m M false.
Proof.
  intros a b Ha xs ref m M. split; [now apply threshold_affine|now apply mask_affine].
Qed.
Print Assumptions mask_threshold_affine_invariant.

(* (13) intersect_masks rule `count > min(threshold, 1 - 1e-7) * n` (exact product)
   for 1 <= n < 10^7 masks and a voxel contained in c of them:
   threshold 0 = union, threshold 1 = intersection of all masks, and below the
   clip the voxel is kept iff c > threshold * n. *)
Theorem intersect_threshold_spec :
  forall (n : nat) (thr : Q) (c : Z),
  let N := inject_Z (Z.of_nat n) in
  let sel := negb (Qle_bool (inject_Z c) (clip_threshold thr * N)) in
  (0 <= thr)%Q -> (thr <= 1)%Q -> 1 <= n -> (Z.of_nat n < 10000000)%Z -> (0 <= c <= Z.of_nat n)%Z ->
  ((thr == 0)%Q -> (sel = true <-> (0 < c)%Z)) /\
  ((thr == 1)%Q -> (sel = true <-> c = Z.of_nat n)) /\
  ((thr <= 1 - (1 # 10000000))%Q -> (sel = true <-> (thr * N < inject_Z c)%Q)).
Proof. exact intersect_rule. Qed.
Print Assumptions intersect_threshold_spec.

(* non-vacuity: sorted values 0 0 1 1 2 9 10 10, window [2, 7): first largest gap 2 -> 9, threshold 11/2 *)
Example mask_threshold_example :
  mask_threshold [10; 0; 1; 9; 2; 0; 10; 1]%Q (1 # 4) (7 # 8) false = Some ((1 # 2) * (2 + 9))%Q
  /\ compute_mask_raw [10; 0; 1; 9; 2; 0; 10; 1]%Q [10; 0; 1; 9; 2; 0; 10; 1]%Q (1 # 4) (7 # 8) false
     = Some [true; false; false; true; false; false; true; false].
Proof. vm_compute. split; reflexivity. Qed.

(* ====================================================================== *)
(* core/utils/generators.py and algorithms/utils/pca.py                    *)
(* ====================================================================== *)
From Coq Require Import Sorted.
From NV.C19 Require Import GenModel GenProofs PcaModel.
(* ---- paste into coq/C19/Properties.v.  Needs:
     From Coq Require Import ZArith List Bool Arith Lia Sorted QArith.   (QArith already imported there)
     From NV.C19 Require Import GenModel GenProofs PcaModel.
   (Properties.v does `Close Scope Q_scope`; Q statements below carry explicit %Q.) *)

(* (G1) slice_generator over ANY number of axes and any axis lengths (code after 5c1bfaa):
   at EVERY step n the indices `(n // div) % alen` are the documented mixed-radix digits
   (n / prod(lens[:j])) mod lens[j] - first axis fastest; over n < nmax the index
   combinations are pairwise distinct and are exactly the in-range combinations. *)
Theorem slice_generator_bijective : forall lens : list nat,
  let idxs := map (sg_xs lens) (seq 0 (seq_prod lens)) in
  (forall n, sg_xs lens n = doc_index lens n) /\
  NoDup idxs /\
  (forall t, In t idxs <-> Forall2 lt t lens).
Proof. exact slice_generator_bijective_proof. Qed.
Print Assumptions slice_generator_bijective.

(* (G2) ... and, for any list of axes, every assembled index tuple is accepted (no IndexError)
   and all nmax items are yielded *)
Theorem slice_generator_no_error : forall (shape : list nat) (flat : list Z) (axes : list nat),
  snd (take_ok shape flat (sg_tuples shape axes)) = false /\
  map fst (fst (take_ok shape flat (sg_tuples shape axes))) = sg_tuples shape axes.
Proof. exact slice_generator_no_error_proof. Qed.
Print Assumptions slice_generator_no_error.

(* (G3) int axis (code after 8bf3127): for every valid axis k the negative spelling k - ndim
   runs exactly the computation of k; no IndexError; the yielded index tuples are
   (slice(None),)*k + (j,) for j in range(shape[k]), in order. *)
Theorem slice_generator_int_axis : forall (shape : list nat) (flat : list Z) (k : nat),
  k < length shape ->
  let r := sg_int shape flat (Z.of_nat k) in
  sg_int shape flat (Z.of_nat k - Z.of_nat (length shape)) = r /\
  snd r = false /\
  map fst (fst r) = map (fun j => (repeat whole k ++ [Z.of_nat j])%list) (seq 0 (nth k shape 0)).
Proof. exact slice_generator_int_axis_proof. Qed.
Print Assumptions slice_generator_int_axis.

(* the two inputs of the repaired defects (known_findings: fixed) now run to completion *)
Example slice_generator_three_axes_fixed :
  sg_list [2; 2; 3] (map Z.of_nat (seq 0 12)) [0; 1; 2]%Z
  = ([([0; 0; 0], [0]); ([1; 0; 0], [6]); ([0; 1; 0], [3]); ([1; 1; 0], [9]);
      ([0; 0; 1], [1]); ([1; 0; 1], [7]); ([0; 1; 1], [4]); ([1; 1; 1], [10]);
      ([0; 0; 2], [2]); ([1; 0; 2], [8]); ([0; 1; 2], [5]); ([1; 1; 2], [11])]%Z, false).
Proof. vm_compute. reflexivity. Qed.
Example slice_generator_negative_int_axis_fixed :
  sg_int [1; 2] (map Z.of_nat (seq 0 2)) (-1)%Z = ([([whole; 0], [0]); ([whole; 1], [1])]%Z, false).
Proof. vm_compute. reflexivity. Qed.

(* (G5) parcels(data): one mask per distinct value, none empty, every position in exactly one mask *)
Theorem parcels_partition : forall data : list Z,
  let masks := parcels_default data in
  length masks = length (unique data) /\
  (forall m, In m masks -> length m = length data /\ existsb (fun b => b) m = true) /\
  (forall p, p < length data ->
     exists k, k < length masks /\ nth p (nth k masks []) false = true /\
       forall k', k' < length masks -> nth p (nth k' masks []) false = true -> k' = k).
Proof. exact parcels_partition_proof. Qed.
Print Assumptions parcels_partition.

(* (G6) a tuple/list label yields the union of its values' masks (v += equal(data, l); astype(bool)) *)
Theorem parcels_union_label : forall (data ls : list Z) (p : nat), p < length data ->
  nth p (mask_many data ls) false = existsb (fun l => (nth p data 0 =? l)%Z) ls.
Proof. exact mask_many_union. Qed.
Print Assumptions parcels_union_label.

Example slice_generator_pair_nonvacuous :
  map (sg_xs [2; 3]) (seq 0 (seq_prod [2; 3])) = [[0; 0]; [1; 0]; [0; 1]; [1; 1]; [0; 2]; [1; 2]].
Proof. vm_compute. reflexivity. Qed.
Example parcels_nonvacuous :
  parcels_default [3; 1; 2; 1]%Z = [[false; true; false; true]; [false; false; true; false]; [true; false; false; false]].
Proof. vm_compute. reflexivity. Qed.

(* (P1) pcntvar = D * 100 / D.sum() sums to 100 *)
Theorem pca_percent_sums_100 : forall D : list Q, ~ (qsum D == 0)%Q -> (qsum (pcntvar D) == 100)%Q.
Proof. exact pca_percent_sums_100_proof. Qed.
Print Assumptions pca_percent_sums_100.

(* (P2) eigenvalues sorted non-increasing with positive sum give non-increasing percentages *)
Theorem pca_percent_order : forall D : list Q, noninc D -> (0 < qsum D)%Q -> noninc (pcntvar D).
Proof. exact pca_percent_order_proof. Qed.
Print Assumptions pca_percent_order.

(* (P3) mask-weighted covariance accumulated slab by slab = plain covariance sum over the
   extracted (masked-in) voxels; any commutative ring, 0/1 weights *)
Theorem pca_mask_equals_extracted :
  forall (R : Type) (r0 r1 : R) (radd rmul rsub : R -> R -> R) (ropp : R -> R),
  ring_theory r0 r1 radd rmul rsub ropp (@eq R) ->
  forall (slabs : list (list (voxel R))) (i j : nat),
  cov_masked R r0 r1 radd rmul slabs i j = cov_plain R r0 radd rmul (extracted R slabs) i j.
Proof. exact pca_mask_equals_extracted_proof. Qed.
Print Assumptions pca_mask_equals_extracted.

Example pca_percent_nonvacuous : pcntvar [6; 3; 1]%Q = [6 * 100 / (6 + (3 + (1 + 0))); 3 * 100 / (6 + (3 + (1 + 0))); 1 * 100 / (6 + (3 + (1 + 0)))]%Q
  /\ (qsum (pcntvar [6; 3; 1]) == 100)%Q.
Proof. split; [reflexivity|vm_compute; reflexivity]. Qed.
Example pca_mask_nonvacuous :
  cov_masked Z 0%Z 1%Z Z.add Z.mul
    [[(true, fun i => Z.of_nat (i + 1)); (false, fun i => 7%Z)]; [(true, fun i => Z.of_nat (2 * i + 1))]] 0 1 = 5%Z
  /\ length (extracted Z [[(true, fun i => Z.of_nat (i + 1)); (false, fun i => 7%Z)]; [(true, fun i => Z.of_nat (2 * i + 1))]]) = 2.
Proof. vm_compute. split; reflexivity. Qed.

(* ====================================================================== *)
(* additions: largest_cc selection, series_from_mask order, PCA axis rolls *)
(* ====================================================================== *)
From NV.C19 Require Import MaskSpec.

(* (14) largest_cc, given the labelling (scipy.ndimage.label is an oracle): no label ->
   ValueError; one label -> the mask itself; otherwise the voxels of ONE label L >= 1 that
   occurs, whose component is at least as large as every other and strictly larger than
   every component with a smaller label (first maximum; the background count is zeroed). *)
Theorem largest_cc_spec :
  forall (mask : list bool) (labels : list nat) (nb : nat),
  (nb = 0 -> largest_cc_sel mask labels nb = None) /\
  (nb = 1 -> largest_cc_sel mask labels nb = Some mask) /\
  (2 <= nb -> (exists l, In l labels /\ 1 <= l) ->
     exists L, largest_cc_sel mask labels nb = Some (map (fun l => Nat.eqb l L) labels)
       /\ 1 <= L /\ In L labels
       /\ (forall k, 1 <= k -> count_label labels k <= count_label labels L)
       /\ (forall k, 1 <= k -> k < L -> count_label labels k < count_label labels L)).
Proof. exact largest_cc_spec_proof. Qed.
Print Assumptions largest_cc_spec.

(* (15) series_from_mask order: `series[mask]` keeps the time courses of the masked-in
   voxels in row-major voxel order (k-th row = voxel with the k-th True of the flat mask). *)
Theorem series_order_spec :
  forall (A : Type) (d : A) (mask : list bool) (rows : list A),
  length mask = length rows ->
  series_sel mask rows
  = map (fun p => nth p rows d) (filter (fun p => nth p mask false) (seq 0 (length rows))).
Proof. intros A d mask rows H. now apply series_order_spec_proof. Qed.
Print Assumptions series_order_spec.

(* (16) PCA axis bookkeeping (pca.py: `data = np.rollaxis(data, axis)` ... `out =
   np.rollaxis(out, 0, axis+1)`), every ndim and every axis k: entry (t :: v) of the rolled
   data is the entry of `data` with t inserted at position k; the projections array of
   shape (ncomp :: remaining extents) is returned with shape `s[axis] = ncomp`, and its
   entry i is entry (i[k] :: i without position k) of the computed array - i.e. the roll
   back inverts the roll in.  (The numerical PCA axis equivariance is an oracle on the
   implementation.) *)
Theorem pca_axis_bookkeeping :
  forall (A B : Type) (data : nda A) (out : nda B) (k ncomp : nat),
  k < length (shp data) ->
  shp out = ncomp :: remove_at k (shp data) ->
  (forall t v, at_ (rollaxis data k 0) (t :: v) = at_ data (insert_at k t v)) /\
  shp (rollaxis data k 0) = nth k (shp data) 0 :: remove_at k (shp data) /\
  shp (rollaxis out 0 (S k)) = insert_at k ncomp (remove_at k (shp data)) /\
  (forall i, k < length i -> at_ (rollaxis out 0 (S k)) i = at_ out (nth k i 0 :: remove_at k i)) /\
  (forall i, k < length i ->
     insert_at k (nth k i 0) (remove_at k i) = i).
Proof.
  intros A B data out k ncomp Hk Hout. repeat split.
  - intros t v. unfold rollaxis. change (Nat.ltb k 0) with false. cbn match.
    destruct k as [|k]; [reflexivity|]. change (Nat.eqb (S k) 0) with false. cbn match. reflexivity.
  - unfold rollaxis. change (Nat.ltb k 0) with false. cbn match.
    destruct k as [|k].
    + change (Nat.eqb 0 0) with true. cbn match. destruct (shp data) as [|x l]; [simpl in Hk; lia|reflexivity].
    + change (Nat.eqb (S k) 0) with false. cbn match. reflexivity.
  - now apply rollback_shape.
  - intros i Hi. now apply rollback_at.
  - intros i Hi. now apply insert_remove_nth.
Qed.
Print Assumptions pca_axis_bookkeeping.

(* (17) The orthogonal projector onto a column space is unique (any commutative ring, so in
   particular Q): two symmetric matrices each acting as the identity on the other's range are
   equal.  pca.py's `X pinv(X)` therefore depends on design_keep / design_resid only through
   their column span - the fact used by the rank-deficient design oracles (expected projector
   from an SVD, re-parametrised designs). *)
From NV.C19 Require Import PcaProj.
Theorem pca_projector_unique :
  forall (R : Type) (r0 r1 : R) (radd rmul rsub : R -> R -> R) (ropp : R -> R),
  ring_theory r0 r1 radd rmul rsub ropp (@eq R) ->
  forall (n : nat) (P P' : mat R),
  meq R n (tr R P) P -> meq R n (tr R P') P' ->
  meq R n (mmul R r0 radd rmul n P' P) P ->
  meq R n (mmul R r0 radd rmul n P P') P' ->
  meq R n P P'.
Proof. exact projector_unique_proof. Qed.
Print Assumptions pca_projector_unique.

(* non-vacuity: the projector onto span{(1,1)} over Z scaled by 2, i.e. 2P = [[1,1],[1,1]]:
   symmetric and (2P)(2P) = 2 (2P) *)
Example pca_projector_example :
  let P2 := fun i j : nat => 1%Z in
  mmul Z 0%Z Z.add Z.mul 2 P2 P2 0 1 = 2%Z /\ tr Z P2 0 1 = P2 0 1.
Proof. vm_compute. split; reflexivity. Qed.

(* ====================================================================== *)
(* machine-integer arithmetic in labs/mask.py (two repaired defects)        *)
(* ====================================================================== *)
From NV.C19 Require Import MaskFindings.

(* (18) compute_mask_sessions (after 6617727: votes summed in the 64-bit platform integer): for
   0/1 session masks and fewer than 2^62 sessions the accumulated count is the exact count. *)
Theorem sessions_vote_count_exact :
  forall votes : list Z,
  Forall (fun v => (0 <= v <= 1)%Z) votes -> (Z.of_nat (length votes) < 2 ^ 62)%Z ->
  votes_wrapped 64 votes = votes_exact votes.
Proof. exact votes_platform_int_exact_proof. Qed.
Print Assumptions sessions_vote_count_exact.

(* the repaired defect, for the record: an int8 sum wraps at 128 votes and drops the voxel *)
Theorem sessions_vote_count_before_fix :
  exists votes : list Z,
    Forall (fun v => v = 1%Z) votes /\ length votes = 128%nat /\
    votes_exact votes = 128%Z /\ votes_wrapped 8 votes = (-128)%Z /\
    intersect_sel (inject_Z 64) [votes_exact votes] = [true] /\
    intersect_sel (inject_Z 64) [votes_wrapped 8 votes] = [false].
Proof. exact sessions_votes_before_fix_proof. Qed.
Print Assumptions sessions_vote_count_before_fix.

(* (19) compute_mask on integer data (after 4d1b43b: sorted values converted to float64, exact
   below 2^52): the mid-point threshold taken at a gap u < v excludes u and includes v. *)
Theorem compute_mask_midpoint_separates :
  forall u v : Z, (u < v)%Z ->
  Qle_bool (midpoint_exact u v) (inject_Z u) = false /\ Qle_bool (midpoint_exact u v) (inject_Z v) = true.
Proof. exact midpoint_separates_proof. Qed.
Print Assumptions compute_mask_midpoint_separates.

Theorem compute_mask_uint8_midpoint_before_fix :
  exists u v : Z, (0 <= u <= 255)%Z /\ (0 <= v <= 255)%Z /\ (u < v)%Z /\
    Qle_bool (midpoint_uint8 u v) (inject_Z u) = true /\
    mask_threshold [inject_Z 190; inject_Z 199; inject_Z 190; inject_Z 199] (1 # 4) (3 # 4) false = Some (midpoint_exact u v).
Proof. exact midpoint_uint8_before_fix_proof. Qed.
Print Assumptions compute_mask_uint8_midpoint_before_fix.

(* ====================================================================== *)
(* compute_mask post-processing: largest component, then opening            *)
(* ====================================================================== *)
From NV.C19 Require Import MorphModel MorphProofs.

(* (20) binary opening (k erosions then k dilations, face-neighbour structuring element, outside = 0)
   never adds a voxel: for every number of dimensions, shape, k and mask - on index functions and on
   the tabulated executable model. *)
Theorem opening_anti_extensive :
  forall (s : list nat) (k : nat),
  (forall X : mfun, sub (opening_fn s k X) X) /\
  (forall l : list bool, sub (mask_of_flat s (opening_flat s k l)) (mask_of_flat s l)).
Proof. intros s k. split; [apply opening_sub|apply opening_flat_sub]. Qed.
Print Assumptions opening_anti_extensive.

(* (21) compute_mask(cc=True, opening=k) = opening applied to the component selected by largest_cc
   from the THRESHOLDED volume; hence every voxel of the result lies in that largest component
   (which is characterised by largest_cc_spec); with opening=0 the post-processing is largest_cc alone. *)
Theorem compute_mask_within_largest_component :
  forall (s : list nat) (mask : list bool) (labels : list nat) (nb k : nat) (r c : list bool),
  postprocess s mask true labels nb k = Some r ->
  largest_cc_sel mask labels nb = Some c ->
  sub (mask_of_flat s r) (mask_of_flat s c)
  /\ postprocess s mask true labels nb 0 = Some c.
Proof.
  intros s mask labels nb k r c H Hc. split.
  - exact (postprocess_within_component s mask labels nb k r c H Hc).
  - rewrite postprocess_opening_zero. exact Hc.
Qed.
Print Assumptions compute_mask_within_largest_component.

(* non-vacuity (2-D for brevity): a 3x3 block in the array corner and a 1x3 rod; one opening removes the
   rod and - because outside the array counts as 0 - reduces the block to the cross around its centre *)
Example opening_example :
  opening_flat [4; 5] 1 [true; true; true; false; false;
                         true; true; true; false; true;
                         true; true; true; false; true;
                         false; false; false; false; true]
  = [false; true; false; false; false;
     true; true; true; false; false;
     false; true; false; false; false;
     false; false; false; false; false].
Proof. vm_compute. reflexivity. Qed.

(* ====================================================================== *)
(* pca: effective rank of the design projection                            *)
(* ====================================================================== *)
From NV.C19 Require Import PcaRank.

(* (22) `rank = (SX / SX.max() > tol_ratio).sum()` is a RELATIVE rule: multiplying all singular values
   by c > 0 (a kept design closer to / farther from the removed span) does not change the component
   count; an absolute comparison `SX > tol_ratio` does (second statement). *)
Theorem pca_rank_scale_invariant :
  forall (tol c : Q) (S : list Q),
  (0 < c)%Q -> (match S with [] => True | h :: _ => (0 < h)%Q end) ->
  rank_rel tol (map (Qmult c) S) = rank_rel tol S.
Proof. exact rank_rel_scale_invariant_proof. Qed.
Print Assumptions pca_rank_scale_invariant.

Example pca_rank_absolute_rule_differs :
  rank_rel (1 # 100) [3 # 1000]%Q = 1 /\ rank_abs (1 # 100) [3 # 1000]%Q = 0 /\ rank_abs (1 # 100) [3 # 10]%Q = 1.
Proof. exact rank_abs_not_scale_invariant_proof. Qed.

(* ------------------------------------------------------------------------------------------------
   Image-level axis names (io_axis_indices / time_slice_diffs_image; ImgAxisModel.v).
   For EVERY coordmap of a permuted-diagonal affine (any number of axes, any order of the array axes
   relative to the world axes, input axis k driving output axis p[k]): *)
From NV.C19 Require Import ImgAxisModel ImgAxisProofs.

(* every documented spelling of array axis k - its index, its negative index, its input name (when no output axis
   other than its partner has that name), its partner's output name (when no input axis has it) - resolves to
   (input index k, output index p[k]); and conversely whatever pair is returned is an array axis the id names,
   with its partner: the input index, never the output index, addresses the array. *)
Theorem io_axis_indices_names_array_axis :
  forall cm p, wf_cmap cm p ->
  (forall k id, k < length (in_names cm) -> names_axis cm p k id ->
     io_axis_indices cm id = AxOk (Some k) (Some (nth k p 0)))
  /\ (forall id i o, io_axis_indices cm id = AxOk (Some i) (Some o) ->
     i < length (in_names cm) /\ o = nth i p 0 /\ names_axis cm p i id).
Proof.
  intros cm p W. split.
  - intros k id Hk Hn. exact (io_axis_indices_resolves cm p k id W Hk Hn).
  - intros id i o H. exact (io_axis_indices_sound cm p id i o W H).
Qed.
Print Assumptions io_axis_indices_names_array_axis.

(* a name shared by an input axis and a NON-corresponding output axis is rejected (AxisError) *)
Theorem io_axis_indices_ambiguous_name_rejected :
  forall cm p s i j, wf_cmap cm p ->
  sindex s (in_names cm) = Some i -> sindex s (out_names cm) = Some j -> j <> nth i p 0 ->
  io_axis_indices cm (AxName s) = AxMismatch.
Proof. exact io_axis_indices_ambiguous. Qed.
Print Assumptions io_axis_indices_ambiguous_name_rejected.

(* time_slice_diffs_image = time_slice_diffs on the ARRAY positions (kt, ks) of the named axes, whatever the order of
   the world axes; volume outputs carry the input names without kt and the output names without p[kt].  Together
   with tsd_axis_equivariant / tsd_definition (which hold for every kt <> ks) this is the axis clause for images. *)
Theorem tsd_image_is_array_call_on_input_axes :
  forall cm p (a : nda Z) kt ks tid sid,
  wf_cmap cm p -> kt < length (in_names cm) -> ks < length (in_names cm) ->
  names_axis cm p kt tid -> names_axis cm p ks sid ->
  tsd_image cm a tid sid
  = ImgRes (tsd a (Z.of_nat kt) (Some (Z.of_nat ks))) (remove_at kt (in_names cm)) (remove_at (nth kt p 0) (out_names cm)).
Proof. exact tsd_image_is_array_call. Qed.
Print Assumptions tsd_image_is_array_call_on_input_axes.

Theorem tsd_image_spelling_independent :
  forall cm p (a : nda Z) kt ks tid sid tid' sid',
  wf_cmap cm p -> kt < length (in_names cm) -> ks < length (in_names cm) ->
  names_axis cm p kt tid -> names_axis cm p ks sid -> names_axis cm p kt tid' -> names_axis cm p ks sid' ->
  tsd_image cm a tid sid = tsd_image cm a tid' sid'.
Proof. exact ImgAxisProofs.tsd_image_spelling_independent. Qed.
Print Assumptions tsd_image_spelling_independent.

(* non-vacuity: time axis rolled to the front of the array ('t','i','j' -> 'x','y','t', p = [2;0;1]), shape (3,2,2):
   the names resolve to input indices (0, 2); addressing the array with the OUTPUT indices (2, 1) instead gives
   different numbers (2 volume means instead of 3). *)
Example tsd_image_rolled_time_axis :
  let cm := mk_cmap ["t"; "i"; "j"]%string ["x"; "y"; "t"]%string [Some 2; Some 0; Some 1] in
  let a := of_flat 0%Z [3; 2; 2] [1; 2; 3; 4; 5; 6; 7; 8; 9; 10; 11; 13]%Z in
  wf_cmap cm [2; 0; 1]
  /\ io_axis_indices cm (AxName "t") = AxOk (Some 0) (Some 2)
  /\ io_axis_indices cm (AxName "y") = AxOk (Some 2) (Some 1)
  /\ (match tsd_image cm a (AxName "t") (AxName "y") with
      | ImgRes (Ok o) vin vout => Nat.eqb (length (volume_means o)) 3 && slist_eqb vin ["i"; "j"]%string && slist_eqb vout ["x"; "y"]%string
      | _ => false end) = true
  /\ (match tsd_image_out_idx cm a (AxName "t") (AxName "y") with
      | ImgRes (Ok o) _ _ => Nat.eqb (length (volume_means o)) 2 | _ => false end) = true.
Proof.
  cbv zeta. split.
  - unfold wf_cmap. cbn [in_names out_names ornts length map].
    repeat split; try reflexivity.
    + repeat constructor; cbn; intuition discriminate.
    + repeat constructor; cbn; intuition discriminate.
    + repeat constructor; cbn; intuition discriminate.
    + intros x Hx. cbn in Hx. lia.
  - repeat split; vm_compute; reflexivity.
Qed.
