(* C13 - proofs, part 4: equivariance of the diag M-step (per component and
   axis) and of guess_regularizing under translation and per-axis scaling. *)
From Coq Require Import List Bool ZArith QArith Qabs Lia Lqa Setoid.
From NV.Generated Require Import MrfTables GmmFrags.
From NV.C13 Require Import Model Proofs1.
Import ListNotations.
Open Scope Q_scope.

Definition shift (t : Q) (xs : list Q) : list Q := map (fun x => x + t) xs.
Definition scale (c : Q) (xs : list Q) : list Q := map (fun x => c * x) xs.

Lemma qdot_shift r xs t : length r = length xs -> qdot r (shift t xs) == qdot r xs + t * qsum r.
Proof.
  unfold qdot, shift. revert xs; induction r as [|w r IH]; intros [|x xs] H; simpl in *; try discriminate.
  - ring.
  - rewrite IH by (injection H; auto). ring.
Qed.

Lemma qdot_scale r xs c : qdot r (scale c xs) == c * qdot r xs.
Proof.
  unfold qdot, scale. revert xs; induction r as [|w r IH]; intros [|x xs]; simpl; try ring.
  rewrite IH. ring.
Qed.

Lemma wss_proper em em' xs r : em == em' -> wss em xs r == wss em' xs r.
Proof.
  intros E. revert r; induction xs as [|x xs IH]; intros [|w r]; simpl; try reflexivity.
  rewrite IH, E. reflexivity.
Qed.

Lemma wss_shift em t xs r : wss (em + t) (shift t xs) r == wss em xs r.
Proof.
  unfold shift. revert r; induction xs as [|x xs IH]; intros [|w r]; simpl; try reflexivity.
  rewrite IH. ring.
Qed.

Lemma wss_scale em c xs r : wss (c * em) (scale c xs) r == c * c * wss em xs r.
Proof.
  unfold scale. revert r; induction xs as [|x xs IH]; intros [|w r]; simpl; try ring.
  rewrite IH. ring.
Qed.

Lemma qmaxb_ge a b : b <= a -> qmaxb a b == a.
Proof.
  intros H. destruct (qmaxb_spec a b) as [[Hle ->]|[_ ->]]; [lra|reflexivity].
Qed.

Section Equivariance.
  Variables (small tiny : Q).
  Hypothesis small_pos : 0 < small.
  Variables (r xs : list Q).
  Hypothesis r_nonneg : nonneg r.
  Hypothesis r_len : length r = length xs.

  Lemma pop_nonneg : 0 <= qsum r.
  Proof. apply qsum_nonneg. exact r_nonneg. Qed.

  (* means *)
  Lemma ms_mean_translate m0 t : ms_mean small (m0 + t) r (shift t xs) == ms_mean small m0 r xs + t.
  Proof.
    unfold ms_mean. rewrite qdot_shift by exact r_len. pose proof pop_nonneg. field. lra.
  Qed.

  Lemma ms_mean_scale m0 c : ms_mean small (c * m0) r (scale c xs) == c * ms_mean small m0 r xs.
  Proof.
    unfold ms_mean. rewrite qdot_scale. pose proof pop_nonneg. field. lra.
  Qed.

  (* the component is populated: pop >= tiny (otherwise empmeans = like.T x / tiny is not a mean) *)
  Hypothesis populated : tiny <= qsum r.
  Hypothesis tiny_pos : 0 < tiny.

  Lemma ms_empmean_translate t : ms_empmean tiny r (shift t xs) == ms_empmean tiny r xs + t.
  Proof.
    unfold ms_empmean. rewrite (qmaxb_ge _ _ populated). rewrite qdot_shift by exact r_len. field. lra.
  Qed.

  Lemma ms_empmean_scale c : ms_empmean tiny r (scale c xs) == c * ms_empmean tiny r xs.
  Proof.
    unfold ms_empmean. rewrite (qmaxb_ge _ _ populated). rewrite qdot_scale. field. lra.
  Qed.

  Lemma ms_cov_translate asq asq' s0 dof0 dim t : asq' == asq ->
    ms_cov small tiny asq' s0 dof0 dim r (shift t xs) == ms_cov small tiny asq s0 dof0 dim r xs.
  Proof.
    intros EA. unfold ms_cov.
    rewrite (wss_proper _ _ _ _ (ms_empmean_translate t)), wss_shift, EA. reflexivity.
  Qed.

  Lemma ms_cov_scale asq asq' s0 dof0 dim c : ~ c == 0 -> ~ s0 == 0 -> asq' == c * c * asq ->
    ms_cov small tiny asq' (s0 / (c * c)) dof0 dim r (scale c xs)
    == c * c * ms_cov small tiny asq s0 dof0 dim r xs.
  Proof.
    intros Hc Hs EA. unfold ms_cov.
    rewrite (wss_proper _ _ _ _ (ms_empmean_scale c)), wss_scale, EA.
    set (W := wss (ms_empmean tiny r xs) xs r).
    set (A := small * qsum r / (qsum r + small)). set (D := dof0 + qsum r + dim + 2).
    assert (I : 1 / (s0 / (c * c)) == c * c * (1 / s0)) by (field; split; assumption).
    rewrite I. unfold Qdiv. ring.
  Qed.

  Lemma ms_prec_translate asq asq' s0 dof0 dim t : asq' == asq ->
    ms_prec small tiny asq' s0 dof0 dim r (shift t xs) == ms_prec small tiny asq s0 dof0 dim r xs.
  Proof. intros EA. unfold ms_prec. rewrite (ms_cov_translate asq asq' s0 dof0 dim t EA). reflexivity. Qed.

  Lemma ms_prec_scale asq asq' s0 dof0 dim c : ~ c == 0 -> ~ s0 == 0 -> asq' == c * c * asq ->
    ms_prec small tiny asq' (s0 / (c * c)) dof0 dim r (scale c xs)
    == ms_prec small tiny asq s0 dof0 dim r xs / (c * c).
  Proof.
    intros Hc Hs EA. unfold ms_prec. rewrite (ms_cov_scale asq asq' s0 dof0 dim c Hc Hs EA).
    unfold Qdiv. rewrite !Qmult_1_l. rewrite Qinv_mult_distr. ring.
  Qed.

  (* the per-axis term of the current code *)
  Lemma asq_axis_translate m0 t : asq_axis tiny (m0 + t) r (shift t xs) == asq_axis tiny m0 r xs.
  Proof. unfold asq_axis. rewrite (ms_empmean_translate t). ring. Qed.

  Lemma asq_axis_scale m0 c : asq_axis tiny (c * m0) r (scale c xs) == c * c * asq_axis tiny m0 r xs.
  Proof. unfold asq_axis. rewrite (ms_empmean_scale c). ring. Qed.
End Equivariance.

(* ------------------------------------------------------------------ guess_regularizing *)
Lemma qsum_shift xs t : qsum (shift t xs) == qsum xs + inject_Z (Z.of_nat (length xs)) * t.
Proof.
  unfold shift. induction xs as [|x xs IH].
  - simpl. ring.
  - change (qsum (map (fun x => x + t) (x :: xs))) with ((x + t) + qsum (map (fun x => x + t) xs)).
    rewrite IH. change (length (x :: xs)) with (S (length xs)).
    rewrite Nat2Z.inj_succ. unfold Z.succ. rewrite inject_Z_plus. simpl qsum. ring.
Qed.

Lemma qsum_scale xs c : qsum (scale c xs) == c * qsum xs.
Proof.
  unfold scale. induction xs as [|x xs IH]; simpl; [ring|]. rewrite IH. ring.
Qed.

Lemma nz_len (xs : list Q) : xs <> [] -> ~ inject_Z (Z.of_nat (length xs)) == 0.
Proof.
  intros H E. destruct xs as [|x xs]; [congruence|].
  change (length (x :: xs)) with (S (length xs)) in E.
  unfold Qeq, inject_Z in E. cbn [Qnum Qden] in E. lia.
Qed.

Lemma gr_mean_translate xs t : xs <> [] -> gr_mean (shift t xs) == gr_mean xs + t.
Proof.
  intros H. unfold gr_mean. rewrite qsum_shift. unfold shift. rewrite map_length.
  field. apply nz_len. assumption.
Qed.

Lemma gr_mean_scale xs c : gr_mean (scale c xs) == c * gr_mean xs.
Proof.
  unfold gr_mean. rewrite qsum_scale. unfold scale. rewrite map_length. unfold Qdiv. ring.
Qed.

Lemma gr_var_translate xs t : xs <> [] -> gr_var (shift t xs) == gr_var xs.
Proof.
  intros H. unfold gr_var. rewrite (wss_proper _ _ _ _ (gr_mean_translate xs t H)).
  unfold shift at 2 3. rewrite map_length. fold (shift t xs). rewrite wss_shift. reflexivity.
Qed.

Lemma gr_var_scale xs c : gr_var (scale c xs) == c * c * gr_var xs.
Proof.
  unfold gr_var. rewrite (wss_proper _ _ _ _ (gr_mean_scale xs c)).
  unfold scale at 2 3. rewrite map_length. fold (scale c xs). rewrite wss_scale. unfold Qdiv. ring.
Qed.

Lemma gr_scale_translate KF xs t : xs <> [] -> gr_scale KF (shift t xs) == gr_scale KF xs.
Proof. intros H. unfold gr_scale. rewrite gr_var_translate by assumption. reflexivity. Qed.

Lemma gr_scale_scale KF xs c : gr_scale KF (scale c xs) == gr_scale KF xs / (c * c).
Proof.
  unfold gr_scale. rewrite gr_var_scale. unfold Qdiv. rewrite !Qmult_1_l, !Qinv_mult_distr. ring.
Qed.

(* ------------------------------------------------------------------ memberships unchanged *)
(* a common positive factor on a likelihood row (the change of the log-determinant
   term under rescaling is the same for every component) does not change the memberships *)
Lemma normalize_common_factor c l : ~ c == 0 ->
  Forall2 Qeq (normalize (scale c l)) (normalize l).
Proof.
  intros Hc. unfold normalize.
  assert (G : forall s s' (m : list Q), s' == c * s ->
              Forall2 Qeq (map (fun x => x / s') (scale c m)) (map (fun x => x / s) m)).
  { intros s s' m E. induction m as [|x m IH]; simpl; constructor; [|exact IH].
    rewrite E. unfold Qdiv. rewrite Qinv_mult_distr.
    setoid_replace (c * x * (/ c * / s)) with ((c * / c) * (x * / s)) by ring.
    rewrite Qmult_inv_r by assumption. ring. }
  apply G. apply qsum_scale.
Qed.

(* diag quadratic form, one axis: p (m - x)^2 is invariant *)
Lemma quad_axis_translate (p m x t : Q) : p * ((m + t) - (x + t)) * ((m + t) - (x + t)) == p * (m - x) * (m - x).
Proof. ring. Qed.
Lemma quad_axis_scale (p m x c : Q) : ~ c == 0 ->
  (p / (c * c)) * (c * m - c * x) * (c * m - c * x) == p * (m - x) * (m - x).
Proof. intros Hc. field. assumption. Qed.

(* ------------------------------------------------------------------ M-step with the prior from guess_regularizing *)
Lemma ms_mean_proper small m0 m0' r xs : m0 == m0' -> ms_mean small m0 r xs == ms_mean small m0' r xs.
Proof. intros E. unfold ms_mean. rewrite E. reflexivity. Qed.

Lemma asq_axis_proper tiny m0 m0' r xs : m0 == m0' -> asq_axis tiny m0 r xs == asq_axis tiny m0' r xs.
Proof. intros E. unfold asq_axis. rewrite E. reflexivity. Qed.

Lemma ms_prec_proper small tiny a a' s s' dof0 dim r xs : a == a' -> s == s' ->
  ms_prec small tiny a s dof0 dim r xs == ms_prec small tiny a' s' dof0 dim r xs.
Proof. intros Ea Es. unfold ms_prec, ms_cov. rewrite Ea, Es. reflexivity. Qed.

(* one component, one axis of the current diag M-step, prior taken from the same data column *)
Definition fit_mean (small : Q) (r xs : list Q) : Q := ms_mean small (gr_mean xs) r xs.
Definition fit_prec (small tiny KF dof0 dim : Q) (r xs : list Q) : Q :=
  ms_prec small tiny (asq_axis tiny (gr_mean xs) r xs) (gr_scale KF xs) dof0 dim r xs.

Section WithPrior.
  Variables (small tiny KF dof0 dim : Q) (r xs : list Q).
  Hypothesis small_pos : 0 < small.
  Hypothesis tiny_pos : 0 < tiny.
  Hypothesis r_nonneg : nonneg r.
  Hypothesis r_len : length r = length xs.
  Hypothesis populated : tiny <= qsum r.
  Hypothesis xs_ne : xs <> [].

  Lemma fit_mean_translate t : fit_mean small r (shift t xs) == fit_mean small r xs + t.
  Proof.
    unfold fit_mean. rewrite (ms_mean_proper _ _ _ _ _ (gr_mean_translate xs t xs_ne)).
    apply ms_mean_translate; assumption.
  Qed.

  Lemma fit_mean_scale c : fit_mean small r (scale c xs) == c * fit_mean small r xs.
  Proof.
    unfold fit_mean. rewrite (ms_mean_proper _ _ _ _ _ (gr_mean_scale xs c)).
    apply ms_mean_scale; assumption.
  Qed.

  Lemma fit_prec_translate t :
    fit_prec small tiny KF dof0 dim r (shift t xs) == fit_prec small tiny KF dof0 dim r xs.
  Proof.
    unfold fit_prec.
    rewrite (ms_prec_proper small tiny _ (asq_axis tiny (gr_mean xs + t) r (shift t xs))
               _ (gr_scale KF xs) dof0 dim r (shift t xs)).
    - apply ms_prec_translate; try assumption. apply asq_axis_translate; assumption.
    - apply asq_axis_proper. apply gr_mean_translate. assumption.
    - apply gr_scale_translate. assumption.
  Qed.

  Lemma fit_prec_scale c : ~ c == 0 -> ~ gr_scale KF xs == 0 ->
    fit_prec small tiny KF dof0 dim r (scale c xs) == fit_prec small tiny KF dof0 dim r xs / (c * c).
  Proof.
    intros Hc Hs. unfold fit_prec.
    rewrite (ms_prec_proper small tiny _ (asq_axis tiny (c * gr_mean xs) r (scale c xs))
               _ (gr_scale KF xs / (c * c)) dof0 dim r (scale c xs)).
    - apply ms_prec_scale; try assumption. apply asq_axis_scale; assumption.
    - apply asq_axis_proper. apply gr_mean_scale.
    - apply gr_scale_scale.
  Qed.
End WithPrior.
