(* C13 - property theorems only.  Every statement is for ALL inputs (no size
   bounds); `Print Assumptions` follows each.  Oracle contracts (exp) appear as
   explicit hypotheses of the theorem that needs them. *)
From Coq Require Import List Bool ZArith QArith Qabs Lia Lqa.
From NV.Generated Require Import MrfTables GmmFrags.
From NV.C13 Require Import Model Proofs1 Proofs2.
Import ListNotations.
Open Scope Q_scope.

(* ===================================================================== 1. posteriors *)

(* A non-negative likelihood row with positive sum normalises to a point of
   the simplex (non-negative entries summing to one). *)
Theorem posterior_simplex :
  forall l, nonneg l -> 0 < qsum l -> simplex (normalize l) /\ length (normalize l) = length l.
Proof. intros l H Hs. split; [apply normalize_simplex; assumption|apply normalize_length]. Qed.
Print Assumptions posterior_simplex.

(* GMM (pop / _Mstep): weights and component densities non-negative and the
   mixture likelihood at least `tiny` -> responsibilities on the simplex. *)
Theorem gmm_resp_simplex :
  forall tiny w u, 0 < tiny -> nonneg w -> nonneg u -> tiny <= gmm_mixture w u ->
  simplex (gmm_resp tiny (gmm_likelihood w u)).
Proof.
  intros tiny w u Ht Hw Hu Hm. apply norm_floor_simplex; try assumption.
  apply qmul2_nonneg; assumption.
Qed.
Print Assumptions gmm_resp_simplex.

(* ... but below the floor (far outlier: every component density underflows)
   the code divides by `tiny`: the row sums to sum/tiny < 1. *)
Theorem gmm_resp_below_floor :
  forall tiny like, 0 < tiny -> nonneg like -> qsum like < tiny ->
  qsum (gmm_resp tiny like) == qsum like / tiny /\ qsum (gmm_resp tiny like) < 1.
Proof.
  intros tiny like Ht Hn Hs. pose proof (norm_floor_below tiny like Ht Hs) as E.
  split; [exact E|]. unfold gmm_resp. rewrite E. apply Qlt_shift_div_r; lra.
Qed.
Print Assumptions gmm_resp_below_floor.

(* FINDING: memberships of a sample whose densities all underflow do not sum to one. *)
Theorem gmm_resp_underflow_refuted :
  exists tiny w u, 0 < tiny /\ simplex w /\ nonneg u /\
    ~ simplex (gmm_resp tiny (gmm_likelihood w u)).
Proof.
  exists (1 # 1000000000000000), [1 # 2; 1 # 2], [0; 0]. split; [reflexivity|]. split.
  - split; [repeat constructor; discriminate|reflexivity].
  - split; [repeat constructor; discriminate|]. intros [_ H]. vm_compute in H. discriminate.
Qed.
Print Assumptions gmm_resp_underflow_refuted.

(* Gamma-Gaussian mixtures *)
Theorem ggm_posterior_simplex :
  forall p gam gaus, 0 <= p -> p <= 1 -> 0 <= gam -> 0 <= gaus -> 0 < (1 - p) * gaus + p * gam ->
  simplex (ggm_posterior p gam gaus).
Proof. exact ggm_posterior_simplex. Qed.
Print Assumptions ggm_posterior_simplex.

Theorem gggm_posterior_simplex :
  forall p0 p1 p2 ng y pg, 0 <= p0 -> 0 <= p1 -> 0 <= p2 -> 0 <= ng -> 0 <= y -> 0 <= pg ->
  0 < ng * p0 + y * p1 + pg * p2 -> simplex (gggm_posterior p0 p1 p2 ng y pg).
Proof. exact gggm_posterior_simplex. Qed.
Print Assumptions gggm_posterior_simplex.

Theorem ggm_estep_simplex :
  forall eps p gam gaus, 0 < eps -> 0 <= p -> p <= 1 -> 0 <= gam -> 0 <= gaus ->
  eps <= qsum [gam * p; gaus * (1 - p)] -> simplex (ggm_estep eps p gam gaus).
Proof.
  intros eps p gam gaus He Hp0 Hp1 Hg Hy Hs. apply norm_floor_simplex; try assumption.
  repeat constructor; apply Qmult_le_0_compat; lra.
Qed.
Print Assumptions ggm_estep_simplex.

Theorem gggm_estep_simplex :
  forall tiny p0 p1 p2 ng y pg, 0 < tiny -> 0 <= p0 -> 0 <= p1 -> 0 <= p2 -> 0 <= ng -> 0 <= y -> 0 <= pg ->
  tiny <= qsum [ng * p0; y * p1; pg * p2] -> simplex (gggm_estep tiny p0 p1 p2 ng y pg).
Proof.
  intros tiny p0 p1 p2 ng y pg Ht H0 H1 H2 Hn Hy Hp Hs. apply norm_floor_simplex; try assumption.
  repeat constructor; apply Qmult_le_0_compat; lra.
Qed.
Print Assumptions gggm_estep_simplex.

(* FINDING: `posterior` has no floor: when both weighted densities are 0 (far
   outlier) it divides 0 by 0 (NaN in floating point; not a simplex point). *)
Theorem ggm_posterior_zero_total_refuted :
  exists p gam gaus, 0 <= p /\ p <= 1 /\ 0 <= gam /\ 0 <= gaus /\ ~ simplex (ggm_posterior p gam gaus).
Proof.
  exists (1 # 2), 0, 0. repeat (split; [discriminate|]). intros [_ H]. vm_compute in H. discriminate.
Qed.
Print Assumptions ggm_posterior_zero_total_refuted.

(* von Mises-Fisher responsibilities (shift by the row maximum, as read from the
   source): on the simplex for EVERY finite input row - the shifted exponent of a
   maximal component is exp 0 = 1, so the total is >= 1 even if every other
   exponential underflows to 0; nothing can overflow because all shifted
   exponents are <= 0. *)
Theorem vmf_resp_simplex :
  forall (EXP : Q -> Q) lwl, (forall x, 0 <= EXP x) -> (forall x, x == 0 -> EXP x == 1) -> lwl <> [] ->
  simplex (vmf_resp EXP lwl).
Proof. exact vmf_resp_simplex. Qed.
Print Assumptions vmf_resp_simplex.

Theorem vmf_shifted_exponents_nonpositive :
  src_vmf_shift = ShiftMax /\ forall lwl x, In x lwl -> x - vmf_shift lwl <= 0.
Proof.
  split; [reflexivity|]. intros lwl x Hin. unfold vmf_shift. change src_vmf_shift with ShiftMax. cbv iota.
  pose proof (lmax_ge lwl x Hin). lra.
Qed.
Print Assumptions vmf_shifted_exponents_nonpositive.

(* Segmentation.normalized_external_field: the max-shift guarantees a positive
   sum even when exp underflows to 0 elsewhere. *)
Theorem nef_simplex :
  forall (EXP : Q -> Q) lef, (forall x, 0 <= EXP x) -> (forall x, x == 0 -> EXP x == 1) -> lef <> [] ->
  simplex (nef_row EXP lef).
Proof. exact nef_row_simplex. Qed.
Print Assumptions nef_simplex.

(* ===================================================================== 2. MAP *)
(* np.argmax: the selected label has the largest value and every earlier label
   is strictly smaller (first-maximum rule). *)
Theorem map_is_argmax :
  forall l, l <> [] ->
  (map_label l < length l)%nat /\
  (forall j, (j < length l)%nat -> nth j l 0 <= nth (map_label l) l 0) /\
  (forall j, (j < map_label l)%nat -> nth j l 0 < nth (map_label l) l 0).
Proof.
  intros l H. split; [apply argmax_lt; assumption|]. apply argmax_spec; assumption.
Qed.
Print Assumptions map_is_argmax.

(* map_label takes the arg-max of the weighted likelihood; it is the arg-max of
   the posterior memberships (normalised or floored row) as well. *)
Theorem map_label_is_posterior_map :
  forall l, l <> [] -> 0 < qsum l -> map_label (normalize l) = map_label l.
Proof. intros l H Hs. apply argmax_scale; assumption. Qed.
Print Assumptions map_label_is_posterior_map.

Theorem map_label_is_floored_posterior_map :
  forall tiny l, l <> [] -> 0 < tiny -> map_label (gmm_resp tiny l) = map_label l.
Proof.
  intros tiny l H Ht. apply argmax_scale; [assumption|].
  destruct (qmaxb_spec tiny (qsum l)) as [[Hle ->]|[_ ->]]; lra.
Qed.
Print Assumptions map_label_is_floored_posterior_map.

(* ===================================================================== 3. mrf.c tables *)
Lemma vox_eqb_eq a b : vox_eqb a b = true <-> a = b.
Proof.
  destruct a as [[x y] z], b as [[p q] r]. unfold vox_eqb.
  rewrite !andb_true_iff, !Z.eqb_eq. split; [intros [[-> ->] ->]; reflexivity|intros E; inversion E; auto].
Qed.

Lemma vox_mem_in a l : vox_mem a l = true <-> In a l.
Proof.
  unfold vox_mem. rewrite existsb_exists. split.
  - intros [b [Hb E]]. apply vox_eqb_eq in E. subst. assumption.
  - intros H. exists a. split; [assumption|apply vox_eqb_eq; reflexivity].
Qed.

Theorem ngb_tables_cardinal :
  length src_ngb6 = 6%nat /\ length src_ngb26 = 26%nat /\
  src_select 6 = Some src_ngb6 /\ src_select 26 = Some src_ngb26 /\
  (forall n, n <> 6%Z -> n <> 26%Z -> src_select n = None).
Proof.
  repeat split; try reflexivity. intros n H6 H26. unfold src_select.
  destruct (Z.eqb_spec n 6); [contradiction|]. destruct (Z.eqb_spec n 26); [contradiction|]. reflexivity.
Qed.
Print Assumptions ngb_tables_cardinal.

Theorem ngb_tables_symmetric :
  forall o, (In o src_ngb6 -> In (vox_neg o) src_ngb6) /\ (In o src_ngb26 -> In (vox_neg o) src_ngb26).
Proof.
  assert (A : forallb (fun o => vox_mem (vox_neg o) src_ngb6) src_ngb6 = true) by (vm_compute; reflexivity).
  assert (B : forallb (fun o => vox_mem (vox_neg o) src_ngb26) src_ngb26 = true) by (vm_compute; reflexivity).
  rewrite forallb_forall in A, B. intros o. split; intros H; apply vox_mem_in; auto.
Qed.
Print Assumptions ngb_tables_symmetric.

Theorem ngb_tables_no_zero_no_dup :
  ~ In (0, 0, 0)%Z src_ngb6 /\ ~ In (0, 0, 0)%Z src_ngb26 /\
  vox_nodup src_ngb6 = true /\ vox_nodup src_ngb26 = true.
Proof.
  repeat split; try (vm_compute; reflexivity);
    intros H; apply vox_mem_in in H; vm_compute in H; discriminate.
Qed.
Print Assumptions ngb_tables_no_zero_no_dup.

(* the tables are exactly the face neighbours / all 26 non-zero offsets of {-1,0,1}^3 *)
Theorem ngb_tables_exact :
  forall o, (In o src_ngb6 <-> (In o cube3 /\ l1 o = 1%Z)) /\
            (In o src_ngb26 <-> (In o cube3 /\ o <> (0, 0, 0)%Z)).
Proof.
  assert (A1 : forallb (fun o => vox_mem o cube3 && Z.eqb (l1 o) 1) src_ngb6 = true) by (vm_compute; reflexivity).
  assert (A2 : forallb (fun o => implb (Z.eqb (l1 o) 1) (vox_mem o src_ngb6)) cube3 = true) by (vm_compute; reflexivity).
  assert (B1 : forallb (fun o => vox_mem o cube3 && negb (vox_eqb o (0, 0, 0)%Z)) src_ngb26 = true) by (vm_compute; reflexivity).
  assert (B2 : forallb (fun o => implb (negb (vox_eqb o (0, 0, 0)%Z)) (vox_mem o src_ngb26)) cube3 = true) by (vm_compute; reflexivity).
  rewrite forallb_forall in A1, A2, B1, B2. intros o. split; split.
  - intros H. specialize (A1 o H). apply andb_true_iff in A1. destruct A1 as [M E].
    split; [apply vox_mem_in; assumption|apply Z.eqb_eq; assumption].
  - intros [H E]. specialize (A2 o H). apply Z.eqb_eq in E. rewrite E in A2. apply vox_mem_in. exact A2.
  - intros H. specialize (B1 o H). apply andb_true_iff in B1. destruct B1 as [M E].
    split; [apply vox_mem_in; assumption|]. intros ->. vm_compute in E. discriminate.
  - intros [H E]. specialize (B2 o H). apply vox_mem_in.
    destruct (vox_eqb o (0, 0, 0)%Z) eqn:Z0; [apply vox_eqb_eq in Z0; contradiction|exact B2].
Qed.
Print Assumptions ngb_tables_exact.

(* ===================================================================== 4. mrf.c ve_step *)
(* Every element of ppm that _ngb_integrate dereferences lies inside the
   buffer - for any grid, neighbour table and centre voxel. *)
Theorem ve_reads_in_bounds :
  forall g ngb v i, In i (reads g ngb v) -> (0 <= i < g_total g)%Z.
Proof. exact reads_in_bounds. Qed.
Print Assumptions ve_reads_in_bounds.

Theorem ve_writes_in_bounds :
  forall g v k, grid_ok g -> in_grid g v -> (0 <= k < gk g)%Z -> (0 <= wpos g v + k < g_total g)%Z.
Proof. exact write_in_bounds. Qed.
Print Assumptions ve_writes_in_bounds.

(* both branches of the normalisation (psum > TINY and psum <= TINY) *)
Theorem ve_row_is_simplex :
  forall tiny K tmp, 0 < tiny -> (0 < K)%Z -> length tmp = Z.to_nat K -> nonneg tmp ->
  simplex (ve_row tiny K tmp).
Proof. exact ve_row_simplex. Qed.
Print Assumptions ve_row_is_simplex.

Lemma src_TINY_pos : 0 < src_TINY.
Proof. reflexivity. Qed.

(* The whole in-place sweep, with the neighbourhood selected as in the C code
   and TINY as #defined: the buffer keeps its size and every visited voxel
   (in-grid, any order, repetitions allowed) ends up holding a point of the
   simplex, whatever U, beta, the neighbour values, and the exp oracle
   (only exp >= 0 is used; exp may underflow to 0). *)
Theorem ve_step_simplex :
  forall (EXP : Q -> Q), (forall x, 0 <= EXP x) ->
  forall beta g U ngb_size ppm pts out,
  grid_ok g -> length ppm = Z.to_nat (g_total g) ->
  Forall (fun p => in_grid g (fst p) /\ nonneg (snd p) /\ length (snd p) = Z.to_nat (gk g)) pts ->
  ve_step EXP beta g U ngb_size ppm pts = Some out ->
  length out = length ppm /\
  forall p, In p pts -> simplex (read_row out (wpos g (fst p)) (gk g)).
Proof.
  intros EXP HE beta g U n ppm pts out Hg Hlen Hp Hrun. unfold ve_step in Hrun.
  destruct (src_select n) as [ngb|]; [|discriminate]. injection Hrun as <-. split.
  - rewrite Hlen. apply sweep_length; try assumption. exact src_TINY_pos.
  - intros p Hin. apply sweep_simplex; try assumption. exact src_TINY_pos.
Qed.
Print Assumptions ve_step_simplex.

(* non-vacuity and quirks *)
Example ve_row_main_branch : map Qred (ve_row src_TINY 2 [1; 3]) = [1 # 4; 3 # 4].
Proof. vm_compute. reflexivity. Qed.
Example ve_row_tiny_branch : map Qred (ve_row (1 # 2) 2 [1 # 4; 0]) = [2 # 3; 1 # 3].
Proof. vm_compute. reflexivity. Qed.
Example ve_row_all_zero : map Qred (ve_row src_TINY 2 [0; 0]) = [1 # 2; 1 # 2].
Proof. vm_compute. reflexivity. Qed.

(* OBSERVATION (quirk reproduced by the model, not part of the C13 statement):
   the bounds test is on the FLAT position, so a border voxel is coupled with
   voxels that are not geometric neighbours: on a 2x2x2 grid the "neighbour"
   (1,-1,0) of voxel (1,0,0) is accepted and is the row of voxel (0,1,0). *)
Example ngb_flat_test_wraps :
  let g := mkGrid 2 2 2 2 in
  ~ in_grid g (1, -1, 0)%Z /\
  ngb_pos g (1, 0, 0)%Z (0, -1, 0)%Z = wpos g (0, 1, 0)%Z /\
  In (wpos g (0, 1, 0)%Z) (valid_pos g src_ngb6 (1, 0, 0)%Z).
Proof.
  split; [unfold in_grid; simpl; lia|]. split; [reflexivity|]. vm_compute. tauto.
Qed.

(* ===================================================================== 5. Gaussian likelihood algebra *)
From Coq Require Import Ring Qcanon Reals.
From NV.Lib Require Import RingMat.
From Coq Require Import Permutation.
From NV.C13 Require Import Proofs3 Proofs4 Proofs5.
Close Scope Qc_scope.
Close Scope R_scope.
Open Scope Q_scope.

(* GMM.unweighted_likelihood_ (row-wise: np.sum(np.dot(dx, b) * dx, 1), dx = m - x) and
   GMM.unweighted_likelihood (column-wise: sum_d (dx * np.dot(b, dx))[d], dx = x - m)
   compute the same quadratic form - in every commutative ring, for every
   matrix b with rows of length dim (no symmetry needed). *)
Theorem likelihood_two_impls_equal :
  forall (R : Type) (r0 r1 : R) (radd rmul rsub : R -> R -> R) (ropp : R -> R),
  ring_theory r0 r1 radd rmul rsub ropp (@eq R) ->
  forall dim m x B, rows_len dim B ->
  quad_rowwise R r0 radd rmul rsub dim m x B = quad_colwise R r0 radd rmul rsub m x B.
Proof. exact quad_two_impls. Qed.
Print Assumptions likelihood_two_impls_equal.

Theorem likelihood_two_impls_equal_diag :
  forall (R : Type) (r0 r1 : R) (radd rmul rsub : R -> R -> R) (ropp : R -> R),
  ring_theory r0 r1 radd rmul rsub ropp (@eq R) ->
  forall m x b, quad_diag_rowwise R r0 radd rmul rsub m x b = quad_diag_colwise R r0 radd rmul rsub m x b.
Proof. exact quad_diag_two_impls. Qed.
Print Assumptions likelihood_two_impls_equal_diag.

(* the instance the harness executes *)
Theorem likelihood_two_impls_equal_Qc :
  forall dim m x B, rows_len dim B -> quad_rowwise_Qc dim m x B = quad_colwise_Qc m x B.
Proof. intros. apply (quad_two_impls Qc _ _ _ _ _ _ Qcring_th). assumption. Qed.
Print Assumptions likelihood_two_impls_equal_Qc.

(* Over the reals: the expression evaluated by the code,
   exp((-log(2 pi)*dim + LOGDET - q)/2), IS the Gaussian density
   sqrt(det P / (2 pi)^dim) * exp(-q/2) when LOGDET = ln det P (precision, not
   covariance; '+' log det; the dim factor; the /2 after subtracting q). *)
Theorem gauss_logdensity_identity :
  forall (d : nat) (detP q LOGDET L2PI : R), (0 < detP)%R -> LOGDET = ln detP -> L2PI = ln (2 * PI)%R ->
  (exp (((- L2PI * INR d + LOGDET) - q) / 2) = sqrt (detP / (2 * PI) ^ d) * exp (- q / 2))%R.
Proof. exact gauss_logdensity. Qed.
Print Assumptions gauss_logdensity_identity.

Theorem normal_eval_identity :
  forall (d : nat) (dP q : R), (0 < dP)%R ->
  (exp ((ln dP - INR d * ln (2 * PI)) / 2 - q / 2) = sqrt (dP / (2 * PI) ^ d) * exp (- q / 2))%R.
Proof. exact normal_eval_density. Qed.
Print Assumptions normal_eval_identity.

(* in one dimension this is the textbook N(m, S) density with S = 1/P *)
Theorem gauss_1d_is_textbook_density :
  forall P dx : R, (0 < P)%R ->
  (sqrt (P / (2 * PI) ^ 1) * exp (- (dx * P * dx) / 2) = / sqrt (2 * PI * / P) * exp (- (dx * dx) / (2 * / P)))%R.
Proof. exact gauss_1d_textbook. Qed.
Print Assumptions gauss_1d_is_textbook_density.

(* ===================================================================== 6. diag M-step equivariance *)
(* One component (r = its column of memberships, non-negative) and one axis (xs).
   `asq` is the addcov term; for the current code it is the per-axis term
   asq_axis (mstep_uses_per_axis_addcov).  The covariance clauses need the
   component to be populated (pop >= tiny): the code divides by max(pop, tiny). *)
Theorem mstep_uses_per_axis_addcov :
  forall tiny r pm cols j, ms_asq tiny r pm cols j = asq_axis tiny (nth j pm 0) r (nth j cols []).
Proof. reflexivity. Qed.
Print Assumptions mstep_uses_per_axis_addcov.

Theorem mstep_translation_equivariant :
  forall small tiny r xs m0 s0 dof0 dim t,
  0 < small -> 0 < tiny -> Proofs1.nonneg r -> length r = length xs -> tiny <= qsum r ->
  ms_mean small (m0 + t) r (shift t xs) == ms_mean small m0 r xs + t /\
  ms_cov small tiny (asq_axis tiny (m0 + t) r (shift t xs)) s0 dof0 dim r (shift t xs)
    == ms_cov small tiny (asq_axis tiny m0 r xs) s0 dof0 dim r xs /\
  ms_prec small tiny (asq_axis tiny (m0 + t) r (shift t xs)) s0 dof0 dim r (shift t xs)
    == ms_prec small tiny (asq_axis tiny m0 r xs) s0 dof0 dim r xs.
Proof.
  intros small tiny r xs m0 s0 dof0 dim t Hs Ht Hr Hl Hp.
  assert (EA : asq_axis tiny (m0 + t) r (shift t xs) == asq_axis tiny m0 r xs)
    by (apply asq_axis_translate; assumption).
  split; [|split].
  - apply ms_mean_translate; assumption.
  - apply ms_cov_translate; assumption.
  - apply ms_prec_translate; assumption.
Qed.
Print Assumptions mstep_translation_equivariant.

(* Per-axis scaling: rescaling THIS axis by c (prior mean * c, prior scale / c^2) gives
   mean * c, covariance * c^2, precision / c^2 - whatever happens to the other axes,
   because no term of the diag update mixes axes any more. *)
Theorem mstep_axis_scaling_equivariant :
  forall small tiny r xs m0 s0 dof0 dim c,
  0 < small -> 0 < tiny -> Proofs1.nonneg r -> length r = length xs -> tiny <= qsum r ->
  ~ c == 0 -> ~ s0 == 0 ->
  ms_mean small (c * m0) r (scale c xs) == c * ms_mean small m0 r xs /\
  ms_cov small tiny (asq_axis tiny (c * m0) r (scale c xs)) (s0 / (c * c)) dof0 dim r (scale c xs)
    == c * c * ms_cov small tiny (asq_axis tiny m0 r xs) s0 dof0 dim r xs /\
  ms_prec small tiny (asq_axis tiny (c * m0) r (scale c xs)) (s0 / (c * c)) dof0 dim r (scale c xs)
    == ms_prec small tiny (asq_axis tiny m0 r xs) s0 dof0 dim r xs / (c * c).
Proof.
  intros small tiny r xs m0 s0 dof0 dim c Hs Ht Hr Hl Hp Hc Hs0.
  assert (EA : asq_axis tiny (c * m0) r (scale c xs) == c * c * asq_axis tiny m0 r xs)
    by (apply asq_axis_scale; assumption).
  split; [|split].
  - apply ms_mean_scale; assumption.
  - apply ms_cov_scale; assumption.
  - apply ms_prec_scale; assumption.
Qed.
Print Assumptions mstep_axis_scaling_equivariant.

(* The same with the prior that guess_regularizing derives from the data column itself
   (prior mean = column mean, prior scale = KF / column variance): translating the
   column by t / rescaling it by c transforms the fitted mean and precision of this
   axis accordingly. *)
Theorem mstep_with_guess_regularizing_equivariant :
  forall small tiny KF dof0 dim r xs t c,
  0 < small -> 0 < tiny -> Proofs1.nonneg r -> length r = length xs -> tiny <= qsum r -> xs <> [] ->
  ~ c == 0 -> ~ gr_scale KF xs == 0 ->
  fit_mean small r (shift t xs) == fit_mean small r xs + t /\
  fit_prec small tiny KF dof0 dim r (shift t xs) == fit_prec small tiny KF dof0 dim r xs /\
  fit_mean small r (scale c xs) == c * fit_mean small r xs /\
  fit_prec small tiny KF dof0 dim r (scale c xs) == fit_prec small tiny KF dof0 dim r xs / (c * c).
Proof.
  intros small tiny KF dof0 dim r xs t c Hs Ht Hr Hl Hp Hx Hc Hg. repeat split.
  - apply fit_mean_translate; assumption.
  - apply fit_prec_translate; assumption.
  - apply fit_mean_scale; assumption.
  - apply fit_prec_scale; assumption.
Qed.
Print Assumptions mstep_with_guess_regularizing_equivariant.

(* Label-permutation equivariance.  (i) Row normalisation commutes with relabelling
   (entrywise ==): memberships of relabelled likelihoods are the relabelled memberships. *)
Theorem responsibilities_label_equivariant :
  forall tiny row sigma, Permutation sigma (seq 0 (length row)) ->
  Forall2 Qeq (gmm_resp tiny (sel 0 sigma row)) (sel 0 sigma (gmm_resp tiny row)).
Proof. intros tiny row sigma H. apply norm_floor_sel. exact H. Qed.
Print Assumptions responsibilities_label_equivariant.

(* (ii) The diag M-step from a membership matrix: relabelling the columns of resp and the
   rows / entries of the priors with a permutation sigma of the K labels relabels the fitted
   means and precisions (equal as lists) and the weights (entrywise ==). *)
Theorem mstep_label_equivariant :
  forall tiny small dof0 pw pm ps K dim resp x sigma,
  Permutation sigma (seq 0 K) -> length pw = K ->
  let out := mstep_from_resp tiny small dof0 pw pm ps K dim resp x in
  let out' := mstep_from_resp tiny small dof0 (sel 0 sigma pw) (sel [] sigma pm) (sel [] sigma ps)
                              (length sigma) dim (map (sel 0 sigma) resp) x in
  Forall2 Qeq (fst (fst out')) (sel 0 sigma (fst (fst out))) /\
  snd (fst out') = sel [] sigma (snd (fst out)) /\
  snd out' = sel [] sigma (snd out).
Proof.
  intros tiny small dof0 pw pm ps K dim resp x sigma HP HL. cbv zeta. split; [|split].
  - apply relabel_weights; assumption.
  - apply relabel_means; assumption.
  - apply relabel_precs; assumption.
Qed.
Print Assumptions mstep_label_equivariant.
(* not proved: that mstep_from_resp maps entrywise-== membership matrices to entrywise-==
   results, which is what composing (i) and (ii) into one statement about raw likelihoods needs;
   the end-to-end statement is checked on the implementation (oracle mstep/label-equivariance). *)

(* The reduced-fraction functions executed in the correspondence (mstep_diag_x) agree
   entry by entry with the functions the theorems above are about. *)
Theorem mstep_exec_entries_agree :
  forall small tiny m0 a a' s0 dof0 dim r xs pm cols j, a == a' ->
  ms_mean_x small m0 r xs == ms_mean small m0 r xs /\
  ms_asq_x tiny r pm cols j == ms_asq tiny r pm cols j /\
  ms_cov_x small tiny a s0 dof0 dim r xs == ms_cov small tiny a' s0 dof0 dim r xs /\
  ms_prec_x small tiny a s0 dof0 dim r xs == ms_prec small tiny a' s0 dof0 dim r xs /\
  qsumr r == qsum r.
Proof.
  intros small tiny m0 a a' s0 dof0 dim r xs pm cols j E. repeat split.
  - apply ms_mean_x_eq.
  - apply ms_asq_x_eq.
  - apply ms_cov_x_eq. exact E.
  - apply ms_prec_x_eq. exact E.
  - apply qsumr_eq.
Qed.
Print Assumptions mstep_exec_entries_agree.

(* guess_regularizing transforms the prior exactly as the two theorems above assume *)
Theorem guess_regularizing_equivariant :
  forall KF xs t c, xs <> [] ->
  gr_mean (shift t xs) == gr_mean xs + t /\ gr_scale KF (shift t xs) == gr_scale KF xs /\
  gr_mean (scale c xs) == c * gr_mean xs /\ gr_scale KF (scale c xs) == gr_scale KF xs / (c * c).
Proof.
  intros KF xs t c H. repeat split.
  - apply gr_mean_translate; assumption.
  - apply gr_scale_translate; assumption.
  - apply gr_mean_scale.
  - apply gr_scale_scale.
Qed.
Print Assumptions guess_regularizing_equivariant.

(* memberships are unchanged: the diag quadratic form is invariant axis by axis, and the
   change of the log-determinant term is a factor common to all components of a row *)
Theorem memberships_invariant_ingredients :
  (forall p m x t, p * ((m + t) - (x + t)) * ((m + t) - (x + t)) == p * (m - x) * (m - x)) /\
  (forall p m x c, ~ c == 0 -> (p / (c * c)) * (c * m - c * x) * (c * m - c * x) == p * (m - x) * (m - x)) /\
  (forall c l, ~ c == 0 -> Forall2 Qeq (normalize (scale c l)) (normalize l)).
Proof.
  split; [exact quad_axis_translate|]. split; [exact quad_axis_scale|exact normalize_common_factor].
Qed.
Print Assumptions memberships_invariant_ingredients.

Theorem guess_regularizing_exec_agrees :
  forall KF xs, gr_mean_x xs == gr_mean xs /\ gr_scale_x KF xs == gr_scale KF xs.
Proof. intros KF xs. split; [apply gr_mean_x_eq|apply gr_scale_x_eq]. Qed.
Print Assumptions guess_regularizing_exec_agrees.

(* An EMPTY component (population exactly 0): the fitted mean is the prior mean and the fitted
   covariance the prior term 1/prior_scale / (prior_dof + dim + 2), whatever the data - so it
   follows translations / rescalings of the data exactly as the prior does. *)
Theorem mstep_empty_component :
  forall small tiny asq m0 s0 dof0 dim n xs, ~ small == 0 ->
  ms_mean small m0 (repeat 0 n) xs == m0 /\
  ms_cov small tiny asq s0 dof0 dim (repeat 0 n) xs == (1 / s0) / (dof0 + dim + 2).
Proof. exact ms_empty_component. Qed.
Print Assumptions mstep_empty_component.

(* ===================================================================== 7. BIC parameter count *)
(* the expressions translated from GMM.bic count exactly the free parameters,
   for every k and every dimension, for both precision types *)
Theorem bic_param_count_diag :
  forall k dim, src_bic_eta_diag k dim == free_params_diag k dim.
Proof. exact bic_diag_count. Qed.
Print Assumptions bic_param_count_diag.

Theorem bic_param_count_full :
  forall k dim, src_bic_eta_full k dim == free_params_full k dim.
Proof. exact bic_full_count. Qed.
Print Assumptions bic_param_count_full.

Example bic_count_example : Qred (src_bic_eta_full 1 2) = 5 /\ Qred (src_bic_eta_full 3 4) = 44.
Proof. vm_compute. split; reflexivity. Qed.

(* non-vacuity of the M-step model *)
Example mstep_example :
  Qred (ms_mean 1 0 [1; 1; 1] [1; 2; 3]) = 3 # 2 /\
  Qred (ms_cov 1 (1 # 1000) (asq_axis (1 # 1000) 0 [1; 1; 1] [1; 2; 3]) 1 3 1 [1; 1; 1] [1; 2; 3]) = 2 # 3.
Proof. vm_compute. split; reflexivity. Qed.

(* ===================================================================== 8. BrainT1Segmentation.convert *)
From NV.C13 Require Import Proofs6.
Close Scope R_scope.
Open Scope Q_scope.
(* convert = mixing-matrix product followed by arg-max of the MIXED row.  For a K-class
   posterior on the simplex and a mixing matrix whose K rows are simplex points of length T
   (the '3k', '4k', '5k' matrices, partial-volume rows, ...) the reported tissue posterior is
   on the simplex, and the reported label is 1 + the first arg-max of the reported posterior -
   NOT, in general, the tissue of the most probable class (convert_not_class_lookup). *)
Theorem convert_is_simplex_and_argmax :
  forall T row M, (0 < T)%nat -> length row = length M -> simplex row ->
  Forall (fun m => length m = T /\ simplex m) M ->
  let ppm := fst (convert_voxel T row M) in
  let label := snd (convert_voxel T row M) in
  simplex ppm /\ length ppm = T /\
  (1 <= label <= T)%nat /\
  (forall j, (j < T)%nat -> nth j ppm 0 <= nth (label - 1) ppm 0) /\
  (forall j, (j < label - 1)%nat -> nth j ppm 0 < nth (label - 1) ppm 0).
Proof.
  intros T row M HT HL Hs HM ppm label. unfold ppm, label, convert_voxel. cbn [fst snd].
  assert (Hlen : length (mix_row T row M) = T).
  { apply mix_row_length. eapply Forall_impl; [|exact HM]. intros a [Ha _]. exact Ha. }
  assert (Hne : mix_row T row M <> []) by (intros E; rewrite E in Hlen; simpl in Hlen; lia).
  destruct (map_is_argmax _ Hne) as [A [B C]]. unfold map_from_ppm_row, map_label in *.
  rewrite Hlen in A, B. replace (S (argmax (mix_row T row M)) - 1)%nat with (argmax (mix_row T row M)) by lia.
  split; [apply mix_row_simplex; assumption|]. split; [exact Hlen|]. split; [lia|]. split; assumption.
Qed.
Print Assumptions convert_is_simplex_and_argmax.

(* two sub-classes of one tissue jointly beat the single most probable class *)
Example convert_not_class_lookup :
  let M := [[1; 0; 0]; [0; 1; 0]; [0; 1; 0]; [0; 0; 1]] in     (* the '4k' mixing matrix *)
  let row := [0; 3 # 10; 3 # 10; 4 # 10] in
  map_label row = 3%nat (* class 4 = WM is the most probable class *) /\
  snd (convert_voxel 3 row M) = 2%nat (* but the label is GM: 0.6 > 0.4 *) /\
  map Qred (fst (convert_voxel 3 row M)) = [0; 3 # 5; 2 # 5].
Proof. vm_compute. repeat split. Qed.

(* ===================================================================== 9. dkl_gaussian *)
(* bgmm.dkl_gaussian, with log(d1/d2) and inv(P1) as oracle values, is the textbook
   KL(N(m1, inv P1) || N(m2, inv P2)) expression: (trace(P2 S1) - dim + (m2-m1)' P2 (m2-m1)
   + log(det P1 / det P2)) / 2 - the Mahalanobis term weighted by the precision of the SECOND
   density - in every commutative ring. *)
Theorem dkl_gaussian_is_textbook :
  forall (R : Type) (r0 r1 : R) (radd rmul rsub : R -> R -> R) (ropp : R -> R),
  ring_theory r0 r1 radd rmul rsub ropp (@eq R) ->
  forall half LOGR dimR dim m1 S1 m2 P2, rows_len dim P2 ->
  dkl_gaussian_model R r0 radd rmul rsub half LOGR dimR dim m1 S1 m2 P2
  = dkl_gaussian_textbook R r0 radd rmul rsub half LOGR dimR m1 S1 m2 P2.
Proof. exact dkl_model_is_textbook. Qed.
Print Assumptions dkl_gaussian_is_textbook.

(* dimension one over the reals, covariance form *)
Theorem dkl_gaussian_1d_covariance_form :
  forall m1 m2 s1 s2 : R, (0 < s1)%R -> (0 < s2)%R ->
  ((ln (/ (s1 * s1) / / (s2 * s2)) + / (s2 * s2) * / / (s1 * s1) - 1 + (m1 - m2) * / (s2 * s2) * (m1 - m2)) / 2
   = ln (s2 / s1) + (s1 * s1 + (m1 - m2) * (m1 - m2)) / (2 * (s2 * s2)) - 1 / 2)%R.
Proof. exact dkl_gaussian_1d. Qed.
Print Assumptions dkl_gaussian_1d_covariance_form.

(* ===================================================================== 10. dkl_wishart *)
(* The arithmetic TRANSLATED from bgmm.dkl_wishart, with the log-determinants, log 2, the
   multivariate log-gamma and digamma sums and trace(B2 inv(B1)) threaded in as oracle values, is
   the textbook KL( W(a1, inv B1) || W(a2, inv B2) ): log-det term weighted by a2, trace term by
   a1, the digamma term psi_p(a1/2) of the FIRST density only (PS2, log 2 and lgc cancel). *)
Theorem dkl_wishart_is_textbook :
  forall a1 a2 dim LD1 LD2 L2 lgc G1 G2 PS1 PS2 TR,
  src_dkl_wishart a1 a2 dim LD1 LD2 L2 lgc G1 G2 PS1 PS2 TR
  == dkl_wishart_textbook a1 a2 dim LD1 LD2 lgc G1 G2 PS1 TR.
Proof. exact dkl_wishart_code_is_textbook. Qed.
Print Assumptions dkl_wishart_is_textbook.

(* the divergence of a distribution from itself is 0 (non-vacuity of the textbook form) *)
Example dkl_wishart_self_zero :
  forall a dim LD lgc G PS, dkl_wishart_textbook a a dim LD LD lgc G G PS dim == 0.
Proof. intros. unfold dkl_wishart_textbook. ring. Qed.

(* ===================================================================== 11. Segmentation.vm_step / normalized_external_field *)
From NV.Generated Require Import SegFrags.
From NV.C13 Require Import SegModel Proofs7.

(* Translating every channel by its own offset translates the fitted class mean by that offset
   and leaves every (co)variance entry unchanged - for any number of voxels, any weights whose
   total reaches the `nonzero` floor (a populated class).  Offsets of the two channels independent. *)
Theorem vm_step_translation_equivariant :
  forall P xa xb ca cb, length xa = length P -> length xb = length P -> seg_floor <= qsum P ->
  vm_mu P (shift ca xa) == vm_mu P xa + ca /\
  vm_cov P (shift ca xa) (shift cb xb) == vm_cov P xa xb.
Proof.
  intros P xa xb ca cb Ha Hb Hs. split;
  [apply vm_mu_translation; assumption|apply vm_cov_translation; assumption].
Qed.
Print Assumptions vm_step_translation_equivariant.

(* Rescaling each channel by its own factor rescales the mean by the factor and the covariance
   entry (a, b) by the product of the two factors - no hypothesis at all (any weights, also an
   empty class, any lengths, any factors incl. 0 and negative ones). *)
Theorem vm_step_axis_scaling_equivariant :
  forall P xa xb ca cb,
  vm_mu P (scale ca xa) == ca * vm_mu P xa /\
  vm_cov P (scale ca xa) (scale cb xb) == ca * cb * vm_cov P xa xb.
Proof. intros P xa xb ca cb. split; [apply vm_mu_scaling|apply vm_cov_scaling]. Qed.
Print Assumptions vm_step_axis_scaling_equivariant.

(* The fitted covariance matrix is symmetric and its diagonal (the class variances) non-negative
   for non-negative posterior weights; Z is never 0 (floor read from the source). *)
Theorem vm_step_covariance_symmetric_nonneg :
  forall P xa xb, vm_cov P xa xb == vm_cov P xb xa /\ (Proofs1.nonneg P -> 0 <= vm_cov P xa xa) /\ 0 < vm_Z P.
Proof. intros P xa xb. split; [apply vm_cov_sym|split; [apply vm_var_nonneg|apply vm_Z_pos]]. Qed.
Print Assumptions vm_step_covariance_symmetric_nonneg.

(* Relabelling the classes (selecting / permuting the weight columns by any index map) relabels the
   fitted (mean, covariance) pairs the same way: the classes are fitted independently. *)
Theorem vm_step_label_equivariant :
  forall (f : nat -> nat) cols chans idx,
  vm_step_model (map (fun j => nth (f j) cols []) idx) chans =
  map (fun j => nth (f j) (vm_step_model cols chans) (vm_class [] chans)) idx.
Proof. exact vm_step_relabel. Qed.
Print Assumptions vm_step_label_equivariant.

(* normalized_external_field on the whole voxels x classes matrix, with the shift READ FROM THE
   SOURCE (per-voxel maximum): every voxel's row is a point of the simplex whatever the other
   voxels are (far-away outliers included: only exp >= 0 and exp(0) = 1 are used), and the row of
   voxel i is a function of the log field of voxel i alone. *)
Theorem nef_matrix_simplex :
  forall (EXP : Q -> Q) lef, (forall x, 0 <= EXP x) -> (forall x, x == 0 -> EXP x == 1) ->
  Forall (fun row => row <> []) lef ->
  Forall simplex (nef_matrix EXP lef) /\
  (forall i, nth i (nef_matrix EXP lef) [] = nef_row EXP (nth i lef [])).
Proof.
  intros EXP lef HE H1 Hne. split; [apply nef_matrix_rows_simplex; assumption|].
  intros i. apply nef_matrix_row_local.
Qed.
Print Assumptions nef_matrix_simplex.

(* non-vacuity: two voxels, weights (3/4, 1/4): intensities 1, 5 -> mean 2, variance 3;
   shifted by 10 -> mean 12, variance 3; the outlier row of a 2-voxel field is (0, 1) when exp
   underflows to 0 at -1000 *)
Example vm_step_example :
  vm_mu [3#4; 1#4] [1; 5] == 2 /\ vm_cov [3#4; 1#4] [1; 5] [1; 5] == 3 /\
  vm_mu [3#4; 1#4] (shift 10 [1; 5]) == 12 /\ vm_cov [3#4; 1#4] (shift 10 [1; 5]) (shift 10 [1; 5]) == 3 /\
  seg_floor <= qsum [3#4; 1#4].
Proof. vm_compute. repeat split; discriminate. Qed.

Example nef_matrix_outlier_example :
  nef_matrix (fun x => if Qeq_bool x 0 then 1 else 0) [[0; 0]; [-2000; -1000]] = [[1 # 2; 1 # 2]; [0 / 1; 1 / 1]].
Proof. reflexivity. Qed.
