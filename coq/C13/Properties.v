(* C13 - property theorems only.  Every statement is for ALL inputs (no size
   bounds); `Print Assumptions` follows each.  Oracle contracts (exp) appear as
   explicit hypotheses of the theorem that needs them. *)
From Coq Require Import List Bool ZArith QArith Qabs Lia Lqa.
From NV.Generated Require Import MrfTables.
From NV.C13 Require Import Model Proofs1 Proofs2.
Import ListNotations.
Open Scope Q_scope.

(* ===================================================================== 1. posteriors *)

(* A non-negative likelihood row with positive sum normalises to a point of
   the simplex (non-negative entries summing to one). *)
Theorem posterior_simplex :
  forall l, nonneg l -> 0 < qsum l -> simplex (normalize l) /\ length (normalize l) = length l.
Proof. intros l H Hs. split; [apply normalize_simplex; assumption|apply normalize_length]. Qed.
Print Assumptions posterior_simplex.

(* GMM (pop / _Mstep): weights and component densities non-negative and the
   mixture likelihood at least `tiny` -> responsibilities on the simplex. *)
Theorem gmm_resp_simplex :
  forall tiny w u, 0 < tiny -> nonneg w -> nonneg u -> tiny <= gmm_mixture w u ->
  simplex (gmm_resp tiny (gmm_likelihood w u)).
Proof.
  intros tiny w u Ht Hw Hu Hm. apply norm_floor_simplex; try assumption.
  apply qmul2_nonneg; assumption.
Qed.
Print Assumptions gmm_resp_simplex.

(* ... but below the floor (far outlier: every component density underflows)
   the code divides by `tiny`: the row sums to sum/tiny < 1. *)
Theorem gmm_resp_below_floor :
  forall tiny like, 0 < tiny -> nonneg like -> qsum like < tiny ->
  qsum (gmm_resp tiny like) == qsum like / tiny /\ qsum (gmm_resp tiny like) < 1.
Proof.
  intros tiny like Ht Hn Hs. pose proof (norm_floor_below tiny like Ht Hs) as E.
  split; [exact E|]. unfold gmm_resp. rewrite E. apply Qlt_shift_div_r; lra.
Qed.
Print Assumptions gmm_resp_below_floor.

(* FINDING: memberships of a sample whose densities all underflow do not sum to one. *)
Theorem gmm_resp_underflow_refuted :
  exists tiny w u, 0 < tiny /\ simplex w /\ nonneg u /\
    ~ simplex (gmm_resp tiny (gmm_likelihood w u)).
Proof.
  exists (1 # 1000000000000000), [1 # 2; 1 # 2], [0; 0]. split; [reflexivity|]. split.
  - split; [repeat constructor; discriminate|reflexivity].
  - split; [repeat constructor; discriminate|]. intros [_ H]. vm_compute in H. discriminate.
Qed.
Print Assumptions gmm_resp_underflow_refuted.

(* Gamma-Gaussian mixtures *)
Theorem ggm_posterior_simplex :
  forall p gam gaus, 0 <= p -> p <= 1 -> 0 <= gam -> 0 <= gaus -> 0 < (1 - p) * gaus + p * gam ->
  simplex (ggm_posterior p gam gaus).
Proof. exact ggm_posterior_simplex. Qed.
Print Assumptions ggm_posterior_simplex.

Theorem gggm_posterior_simplex :
  forall p0 p1 p2 ng y pg, 0 <= p0 -> 0 <= p1 -> 0 <= p2 -> 0 <= ng -> 0 <= y -> 0 <= pg ->
  0 < ng * p0 + y * p1 + pg * p2 -> simplex (gggm_posterior p0 p1 p2 ng y pg).
Proof. exact gggm_posterior_simplex. Qed.
Print Assumptions gggm_posterior_simplex.

Theorem ggm_estep_simplex :
  forall eps p gam gaus, 0 < eps -> 0 <= p -> p <= 1 -> 0 <= gam -> 0 <= gaus ->
  eps <= qsum [gam * p; gaus * (1 - p)] -> simplex (ggm_estep eps p gam gaus).
Proof.
  intros eps p gam gaus He Hp0 Hp1 Hg Hy Hs. apply norm_floor_simplex; try assumption.
  repeat constructor; apply Qmult_le_0_compat; lra.
Qed.
Print Assumptions ggm_estep_simplex.

Theorem gggm_estep_simplex :
  forall tiny p0 p1 p2 ng y pg, 0 < tiny -> 0 <= p0 -> 0 <= p1 -> 0 <= p2 -> 0 <= ng -> 0 <= y -> 0 <= pg ->
  tiny <= qsum [ng * p0; y * p1; pg * p2] -> simplex (gggm_estep tiny p0 p1 p2 ng y pg).
Proof.
  intros tiny p0 p1 p2 ng y pg Ht H0 H1 H2 Hn Hy Hp Hs. apply norm_floor_simplex; try assumption.
  repeat constructor; apply Qmult_le_0_compat; lra.
Qed.
Print Assumptions gggm_estep_simplex.

(* FINDING: `posterior` has no floor: when both weighted densities are 0 (far
   outlier) it divides 0 by 0 (NaN in floating point; not a simplex point). *)
Theorem ggm_posterior_zero_total_refuted :
  exists p gam gaus, 0 <= p /\ p <= 1 /\ 0 <= gam /\ 0 <= gaus /\ ~ simplex (ggm_posterior p gam gaus).
Proof.
  exists (1 # 2), 0, 0. repeat (split; [discriminate|]). intros [_ H]. vm_compute in H. discriminate.
Qed.
Print Assumptions ggm_posterior_zero_total_refuted.

(* von Mises-Fisher responsibilities: for any (positive) exp oracle *)
Theorem vmf_resp_simplex :
  forall (EXP : Q -> Q) lwl, (forall x, 0 < EXP x) -> lwl <> [] -> simplex (vmf_resp EXP lwl).
Proof. exact vmf_resp_simplex. Qed.
Print Assumptions vmf_resp_simplex.

(* Segmentation.normalized_external_field: the max-shift guarantees a positive
   sum even when exp underflows to 0 elsewhere. *)
Theorem nef_simplex :
  forall (EXP : Q -> Q) lef, (forall x, 0 <= EXP x) -> (forall x, x == 0 -> EXP x == 1) -> lef <> [] ->
  simplex (nef_row EXP lef).
Proof. exact nef_row_simplex. Qed.
Print Assumptions nef_simplex.

(* ===================================================================== 2. MAP *)
(* np.argmax: the selected label has the largest value and every earlier label
   is strictly smaller (first-maximum rule). *)
Theorem map_is_argmax :
  forall l, l <> [] ->
  (map_label l < length l)%nat /\
  (forall j, (j < length l)%nat -> nth j l 0 <= nth (map_label l) l 0) /\
  (forall j, (j < map_label l)%nat -> nth j l 0 < nth (map_label l) l 0).
Proof.
  intros l H. split; [apply argmax_lt; assumption|]. apply argmax_spec; assumption.
Qed.
Print Assumptions map_is_argmax.

(* map_label takes the arg-max of the weighted likelihood; it is the arg-max of
   the posterior memberships (normalised or floored row) as well. *)
Theorem map_label_is_posterior_map :
  forall l, l <> [] -> 0 < qsum l -> map_label (normalize l) = map_label l.
Proof. intros l H Hs. apply argmax_scale; assumption. Qed.
Print Assumptions map_label_is_posterior_map.

Theorem map_label_is_floored_posterior_map :
  forall tiny l, l <> [] -> 0 < tiny -> map_label (gmm_resp tiny l) = map_label l.
Proof.
  intros tiny l H Ht. apply argmax_scale; [assumption|].
  destruct (qmaxb_spec tiny (qsum l)) as [[Hle ->]|[_ ->]]; lra.
Qed.
Print Assumptions map_label_is_floored_posterior_map.

(* ===================================================================== 3. mrf.c tables *)
Lemma vox_eqb_eq a b : vox_eqb a b = true <-> a = b.
Proof.
  destruct a as [[x y] z], b as [[p q] r]. unfold vox_eqb.
  rewrite !andb_true_iff, !Z.eqb_eq. split; [intros [[-> ->] ->]; reflexivity|intros E; inversion E; auto].
Qed.

Lemma vox_mem_in a l : vox_mem a l = true <-> In a l.
Proof.
  unfold vox_mem. rewrite existsb_exists. split.
  - intros [b [Hb E]]. apply vox_eqb_eq in E. subst. assumption.
  - intros H. exists a. split; [assumption|apply vox_eqb_eq; reflexivity].
Qed.

Theorem ngb_tables_cardinal :
  length src_ngb6 = 6%nat /\ length src_ngb26 = 26%nat /\
  src_select 6 = Some src_ngb6 /\ src_select 26 = Some src_ngb26 /\
  (forall n, n <> 6%Z -> n <> 26%Z -> src_select n = None).
Proof.
  repeat split; try reflexivity. intros n H6 H26. unfold src_select.
  destruct (Z.eqb_spec n 6); [contradiction|]. destruct (Z.eqb_spec n 26); [contradiction|]. reflexivity.
Qed.
Print Assumptions ngb_tables_cardinal.

Theorem ngb_tables_symmetric :
  forall o, (In o src_ngb6 -> In (vox_neg o) src_ngb6) /\ (In o src_ngb26 -> In (vox_neg o) src_ngb26).
Proof.
  assert (A : forallb (fun o => vox_mem (vox_neg o) src_ngb6) src_ngb6 = true) by (vm_compute; reflexivity).
  assert (B : forallb (fun o => vox_mem (vox_neg o) src_ngb26) src_ngb26 = true) by (vm_compute; reflexivity).
  rewrite forallb_forall in A, B. intros o. split; intros H; apply vox_mem_in; auto.
Qed.
Print Assumptions ngb_tables_symmetric.

Theorem ngb_tables_no_zero_no_dup :
  ~ In (0, 0, 0)%Z src_ngb6 /\ ~ In (0, 0, 0)%Z src_ngb26 /\
  vox_nodup src_ngb6 = true /\ vox_nodup src_ngb26 = true.
Proof.
  repeat split; try (vm_compute; reflexivity);
    intros H; apply vox_mem_in in H; vm_compute in H; discriminate.
Qed.
Print Assumptions ngb_tables_no_zero_no_dup.

(* the tables are exactly the face neighbours / all 26 non-zero offsets of {-1,0,1}^3 *)
Theorem ngb_tables_exact :
  forall o, (In o src_ngb6 <-> (In o cube3 /\ l1 o = 1%Z)) /\
            (In o src_ngb26 <-> (In o cube3 /\ o <> (0, 0, 0)%Z)).
Proof.
  assert (A1 : forallb (fun o => vox_mem o cube3 && Z.eqb (l1 o) 1) src_ngb6 = true) by (vm_compute; reflexivity).
  assert (A2 : forallb (fun o => implb (Z.eqb (l1 o) 1) (vox_mem o src_ngb6)) cube3 = true) by (vm_compute; reflexivity).
  assert (B1 : forallb (fun o => vox_mem o cube3 && negb (vox_eqb o (0, 0, 0)%Z)) src_ngb26 = true) by (vm_compute; reflexivity).
  assert (B2 : forallb (fun o => implb (negb (vox_eqb o (0, 0, 0)%Z)) (vox_mem o src_ngb26)) cube3 = true) by (vm_compute; reflexivity).
  rewrite forallb_forall in A1, A2, B1, B2. intros o. split; split.
  - intros H. specialize (A1 o H). apply andb_true_iff in A1. destruct A1 as [M E].
    split; [apply vox_mem_in; assumption|apply Z.eqb_eq; assumption].
  - intros [H E]. specialize (A2 o H). apply Z.eqb_eq in E. rewrite E in A2. apply vox_mem_in. exact A2.
  - intros H. specialize (B1 o H). apply andb_true_iff in B1. destruct B1 as [M E].
    split; [apply vox_mem_in; assumption|]. intros ->. vm_compute in E. discriminate.
  - intros [H E]. specialize (B2 o H). apply vox_mem_in.
    destruct (vox_eqb o (0, 0, 0)%Z) eqn:Z0; [apply vox_eqb_eq in Z0; contradiction|exact B2].
Qed.
Print Assumptions ngb_tables_exact.

(* ===================================================================== 4. mrf.c ve_step *)
(* Every element of ppm that _ngb_integrate dereferences lies inside the
   buffer - for any grid, neighbour table and centre voxel. *)
Theorem ve_reads_in_bounds :
  forall g ngb v i, In i (reads g ngb v) -> (0 <= i < g_total g)%Z.
Proof. exact reads_in_bounds. Qed.
Print Assumptions ve_reads_in_bounds.

Theorem ve_writes_in_bounds :
  forall g v k, grid_ok g -> in_grid g v -> (0 <= k < gk g)%Z -> (0 <= wpos g v + k < g_total g)%Z.
Proof. exact write_in_bounds. Qed.
Print Assumptions ve_writes_in_bounds.

(* both branches of the normalisation (psum > TINY and psum <= TINY) *)
Theorem ve_row_is_simplex :
  forall tiny K tmp, 0 < tiny -> (0 < K)%Z -> length tmp = Z.to_nat K -> nonneg tmp ->
  simplex (ve_row tiny K tmp).
Proof. exact ve_row_simplex. Qed.
Print Assumptions ve_row_is_simplex.

Lemma src_TINY_pos : 0 < src_TINY.
Proof. reflexivity. Qed.

(* The whole in-place sweep, with the neighbourhood selected as in the C code
   and TINY as #defined: the buffer keeps its size and every visited voxel
   (in-grid, any order, repetitions allowed) ends up holding a point of the
   simplex, whatever U, beta, the neighbour values, and the exp oracle
   (only exp >= 0 is used; exp may underflow to 0). *)
Theorem ve_step_simplex :
  forall (EXP : Q -> Q), (forall x, 0 <= EXP x) ->
  forall beta g U ngb_size ppm pts out,
  grid_ok g -> length ppm = Z.to_nat (g_total g) ->
  Forall (fun p => in_grid g (fst p) /\ nonneg (snd p) /\ length (snd p) = Z.to_nat (gk g)) pts ->
  ve_step EXP beta g U ngb_size ppm pts = Some out ->
  length out = length ppm /\
  forall p, In p pts -> simplex (read_row out (wpos g (fst p)) (gk g)).
Proof.
  intros EXP HE beta g U n ppm pts out Hg Hlen Hp Hrun. unfold ve_step in Hrun.
  destruct (src_select n) as [ngb|]; [|discriminate]. injection Hrun as <-. split.
  - rewrite Hlen. apply sweep_length; try assumption. exact src_TINY_pos.
  - intros p Hin. apply sweep_simplex; try assumption. exact src_TINY_pos.
Qed.
Print Assumptions ve_step_simplex.

(* non-vacuity and quirks *)
Example ve_row_main_branch : map Qred (ve_row src_TINY 2 [1; 3]) = [1 # 4; 3 # 4].
Proof. vm_compute. reflexivity. Qed.
Example ve_row_tiny_branch : map Qred (ve_row (1 # 2) 2 [1 # 4; 0]) = [2 # 3; 1 # 3].
Proof. vm_compute. reflexivity. Qed.
Example ve_row_all_zero : map Qred (ve_row src_TINY 2 [0; 0]) = [1 # 2; 1 # 2].
Proof. vm_compute. reflexivity. Qed.

(* OBSERVATION (quirk reproduced by the model, not part of the C13 statement):
   the bounds test is on the FLAT position, so a border voxel is coupled with
   voxels that are not geometric neighbours: on a 2x2x2 grid the "neighbour"
   (1,-1,0) of voxel (1,0,0) is accepted and is the row of voxel (0,1,0). *)
Example ngb_flat_test_wraps :
  let g := mkGrid 2 2 2 2 in
  ~ in_grid g (1, -1, 0)%Z /\
  ngb_pos g (1, 0, 0)%Z (0, -1, 0)%Z = wpos g (0, 1, 0)%Z /\
  In (wpos g (0, 1, 0)%Z) (valid_pos g src_ngb6 (1, 0, 0)%Z).
Proof.
  split; [unfold in_grid; simpl; lia|]. split; [reflexivity|]. vm_compute. tauto.
Qed.

(* ===================================================================== 5. Gaussian likelihood algebra *)
From Coq Require Import Ring Qcanon Reals.
From NV.Lib Require Import RingMat.
From NV.C13 Require Import Proofs3 Proofs4.
Close Scope Qc_scope.
Close Scope R_scope.
Open Scope Q_scope.

(* GMM.unweighted_likelihood_ (row-wise: np.sum(np.dot(dx, b) * dx, 1), dx = m - x) and
   GMM.unweighted_likelihood (column-wise: sum_d (dx * np.dot(b, dx))[d], dx = x - m)
   compute the same quadratic form - in every commutative ring, for every
   matrix b with rows of length dim (no symmetry needed). *)
Theorem likelihood_two_impls_equal :
  forall (R : Type) (r0 r1 : R) (radd rmul rsub : R -> R -> R) (ropp : R -> R),
  ring_theory r0 r1 radd rmul rsub ropp (@eq R) ->
  forall dim m x B, rows_len dim B ->
  quad_rowwise R r0 radd rmul rsub dim m x B = quad_colwise R r0 radd rmul rsub m x B.
Proof. exact quad_two_impls. Qed.
Print Assumptions likelihood_two_impls_equal.

Theorem likelihood_two_impls_equal_diag :
  forall (R : Type) (r0 r1 : R) (radd rmul rsub : R -> R -> R) (ropp : R -> R),
  ring_theory r0 r1 radd rmul rsub ropp (@eq R) ->
  forall m x b, quad_diag_rowwise R r0 radd rmul rsub m x b = quad_diag_colwise R r0 radd rmul rsub m x b.
Proof. exact quad_diag_two_impls. Qed.
Print Assumptions likelihood_two_impls_equal_diag.

(* the instance the harness executes *)
Theorem likelihood_two_impls_equal_Qc :
  forall dim m x B, rows_len dim B -> quad_rowwise_Qc dim m x B = quad_colwise_Qc m x B.
Proof. intros. apply (quad_two_impls Qc _ _ _ _ _ _ Qcring_th). assumption. Qed.
Print Assumptions likelihood_two_impls_equal_Qc.

(* Over the reals: the expression evaluated by the code,
   exp((-log(2 pi)*dim + LOGDET - q)/2), IS the Gaussian density
   sqrt(det P / (2 pi)^dim) * exp(-q/2) when LOGDET = ln det P (precision, not
   covariance; '+' log det; the dim factor; the /2 after subtracting q). *)
Theorem gauss_logdensity_identity :
  forall (d : nat) (detP q LOGDET L2PI : R), (0 < detP)%R -> LOGDET = ln detP -> L2PI = ln (2 * PI)%R ->
  (exp (((- L2PI * INR d + LOGDET) - q) / 2) = sqrt (detP / (2 * PI) ^ d) * exp (- q / 2))%R.
Proof. exact gauss_logdensity. Qed.
Print Assumptions gauss_logdensity_identity.

Theorem normal_eval_identity :
  forall (d : nat) (dP q : R), (0 < dP)%R ->
  (exp ((ln dP - INR d * ln (2 * PI)) / 2 - q / 2) = sqrt (dP / (2 * PI) ^ d) * exp (- q / 2))%R.
Proof. exact normal_eval_density. Qed.
Print Assumptions normal_eval_identity.

(* in one dimension this is the textbook N(m, S) density with S = 1/P *)
Theorem gauss_1d_is_textbook_density :
  forall P dx : R, (0 < P)%R ->
  (sqrt (P / (2 * PI) ^ 1) * exp (- (dx * P * dx) / 2) = / sqrt (2 * PI * / P) * exp (- (dx * dx) / (2 * / P)))%R.
Proof. exact gauss_1d_textbook. Qed.
Print Assumptions gauss_1d_is_textbook_density.

(* ===================================================================== 6. diag M-step equivariance *)
(* One component (r = its column of memberships, non-negative) and one axis (xs).
   `asq` is the code's addcov[k] = sum over ALL axes of (empmean_j - prior_mean_j)^2.
   Translation: data and the data-derived prior mean move by t (every axis by its own
   t_j: then asq is unchanged, ms_addsq_translation_invariant) -> fitted mean + t,
   covariance / precision unchanged.  The covariance clauses need the component to
   be populated (pop >= tiny): the code divides by max(pop, tiny). *)
Theorem mstep_translation_equivariant :
  forall small tiny r xs m0 asq asq' s0 dof0 dim t,
  0 < small -> 0 < tiny -> Proofs1.nonneg r -> length r = length xs -> tiny <= qsum r -> asq' == asq ->
  ms_mean small (m0 + t) r (shift t xs) == ms_mean small m0 r xs + t /\
  ms_cov small tiny asq' s0 dof0 dim r (shift t xs) == ms_cov small tiny asq s0 dof0 dim r xs /\
  ms_prec small tiny asq' s0 dof0 dim r (shift t xs) == ms_prec small tiny asq s0 dof0 dim r xs.
Proof.
  intros small tiny r xs m0 asq asq' s0 dof0 dim t Hs Ht Hr Hl Hp EA. split; [|split].
  - apply ms_mean_translate; assumption.
  - apply ms_cov_translate; assumption.
  - apply ms_prec_translate; assumption.
Qed.
Print Assumptions mstep_translation_equivariant.

Theorem ms_addsq_translation_invariant :
  forall tiny r ts pm cols, 0 < tiny -> tiny <= qsum r -> length pm = length ts ->
  Forall (fun c => length r = length c) cols ->
  ms_addsq tiny r (qadd2 pm ts) (shift_cols ts cols) == ms_addsq tiny r pm cols.
Proof. intros tiny r ts pm cols Ht Hp HL HF. apply ms_addsq_translate; assumption. Qed.
Print Assumptions ms_addsq_translation_invariant.

(* Scaling: if the all-axes term scales by c^2 - true when there is one axis or ALL axes are
   scaled by the same c (ms_addsq_uniform_scaling) - then mean * c, covariance * c^2,
   precision / c^2 (prior mean * c, prior scale / c^2, as guess_regularizing produces). *)
Theorem mstep_uniform_scaling_equivariant :
  forall small tiny r xs m0 asq asq' s0 dof0 dim c,
  0 < small -> 0 < tiny -> Proofs1.nonneg r -> length r = length xs -> tiny <= qsum r ->
  ~ c == 0 -> ~ s0 == 0 -> asq' == c * c * asq ->
  ms_mean small (c * m0) r (scale c xs) == c * ms_mean small m0 r xs /\
  ms_cov small tiny asq' (s0 / (c * c)) dof0 dim r (scale c xs) == c * c * ms_cov small tiny asq s0 dof0 dim r xs /\
  ms_prec small tiny asq' (s0 / (c * c)) dof0 dim r (scale c xs) == ms_prec small tiny asq s0 dof0 dim r xs / (c * c).
Proof.
  intros small tiny r xs m0 asq asq' s0 dof0 dim c Hs Ht Hr Hl Hp Hc Hs0 EA. split; [|split].
  - apply ms_mean_scale; assumption.
  - apply ms_cov_scale; assumption.
  - apply ms_prec_scale; assumption.
Qed.
Print Assumptions mstep_uniform_scaling_equivariant.

Theorem ms_addsq_uniform_scaling :
  forall tiny r c pm cols, 0 < tiny -> tiny <= qsum r ->
  ms_addsq tiny r (scale c pm) (map (scale c) cols) == c * c * ms_addsq tiny r pm cols.
Proof. intros tiny r c pm cols Ht Hp. apply ms_addsq_uniform_scale; assumption. Qed.
Print Assumptions ms_addsq_uniform_scaling.

(* FINDING: per-axis scaling equivariance fails for prec_type='diag' in dimension >= 2:
   addcov mixes the axes, so rescaling axis 0 by 2 changes the fitted variance of the
   untouched axis 1 (two samples (0,0), (2,2) in one component, prior mean (0,0)). *)
Theorem mstep_axis_scaling_refuted :
  exists small tiny r col0 col1 s0 dof0 dim,
    0 < small /\ 0 < tiny /\ Proofs1.nonneg r /\ tiny <= qsum r /\
    ~ ms_cov small tiny (ms_addsq tiny r [2 * 0; 0] [scale 2 col0; col1]) s0 dof0 dim r col1
      == ms_cov small tiny (ms_addsq tiny r [0; 0] [col0; col1]) s0 dof0 dim r col1.
Proof.
  exists 1, (1 # 1000), [1; 1], [0; 2], [0; 2], 1, 4, 2.
  split; [reflexivity|]. split; [reflexivity|]. split; [repeat constructor; discriminate|].
  split; [discriminate|]. vm_compute. discriminate.
Qed.
Print Assumptions mstep_axis_scaling_refuted.

(* guess_regularizing transforms the prior exactly as the two theorems above assume *)
Theorem guess_regularizing_equivariant :
  forall KF xs t c, xs <> [] ->
  gr_mean (shift t xs) == gr_mean xs + t /\ gr_scale KF (shift t xs) == gr_scale KF xs /\
  gr_mean (scale c xs) == c * gr_mean xs /\ gr_scale KF (scale c xs) == gr_scale KF xs / (c * c).
Proof.
  intros KF xs t c H. repeat split.
  - apply gr_mean_translate; assumption.
  - apply gr_scale_translate; assumption.
  - apply gr_mean_scale.
  - apply gr_scale_scale.
Qed.
Print Assumptions guess_regularizing_equivariant.

(* memberships are unchanged: the diag quadratic form is invariant axis by axis, and the
   change of the log-determinant term is a factor common to all components of a row *)
Theorem memberships_invariant_ingredients :
  (forall p m x t, p * ((m + t) - (x + t)) * ((m + t) - (x + t)) == p * (m - x) * (m - x)) /\
  (forall p m x c, ~ c == 0 -> (p / (c * c)) * (c * m - c * x) * (c * m - c * x) == p * (m - x) * (m - x)) /\
  (forall c l, ~ c == 0 -> Forall2 Qeq (normalize (scale c l)) (normalize l)).
Proof.
  split; [exact quad_axis_translate|]. split; [exact quad_axis_scale|exact normalize_common_factor].
Qed.
Print Assumptions memberships_invariant_ingredients.

(* ===================================================================== 7. BIC parameter count *)
Theorem bic_param_count_diag :
  forall k dim, bic_eta_diag_code k dim = free_params_diag k dim.
Proof. exact bic_diag_count. Qed.
Print Assumptions bic_param_count_diag.

(* FINDING: for prec_type == 'full' the code's count k*(1 + dim + (dim*dim+1)/2) - 1 equals the
   number of free parameters k*(1 + dim + dim*(dim+1)/2) - 1 only in dimension one. *)
Theorem bic_param_count_full_iff :
  forall k dim, (k <> 0)%Z -> (bic_eta2_full_code k dim = free_params2_full k dim <-> dim = 1%Z).
Proof. exact bic_full_count_iff. Qed.
Print Assumptions bic_param_count_full_iff.

Theorem bic_param_count_full_refuted :
  exists k dim, (0 < k)%Z /\ (0 < dim)%Z /\ bic_eta2_full_code k dim <> free_params2_full k dim.
Proof. exists 1%Z, 2%Z. repeat split; try reflexivity. vm_compute. discriminate. Qed.
Print Assumptions bic_param_count_full_refuted.

(* non-vacuity of the M-step model *)
Example mstep_example :
  Qred (ms_mean 1 0 [1; 1; 1] [1; 2; 3]) = 3 # 2 /\
  Qred (ms_cov 1 (1 # 1000) (ms_addsq (1 # 1000) [1; 1; 1] [0] [[1; 2; 3]]) 1 3 1 [1; 1; 1] [1; 2; 3]) = 2 # 3.
Proof. vm_compute. split; reflexivity. Qed.
