(* C13 - proofs, part 5: (a) the reduced-fraction functions the harness executes are ==
   the functions the theorems are about; (b) label-permutation equivariance. *)
From Coq Require Import List Bool ZArith QArith Qabs Lia Lqa Setoid Permutation.
From NV.Generated Require Import MrfTables GmmFrags.
From NV.C13 Require Import Model Proofs1 Proofs2 Proofs4.
Import ListNotations.
Open Scope Q_scope.

(* ------------------------------------------------------------------ (a) *)
Lemma qsumr_eq l : qsumr l == qsum l.
Proof.
  induction l as [|x l IH]; [reflexivity|].
  change (qsumr (x :: l)) with (Qred (x + qsumr l)). change (qsum (x :: l)) with (x + qsum l).
  rewrite Qred_correct, IH. reflexivity.
Qed.

Lemma qdotr_eq a b : qdotr a b == qdot a b.
Proof. apply qsumr_eq. Qed.

Lemma wssr_eq em xs r : wssr em xs r == wss em xs r.
Proof.
  revert r; induction xs as [|x xs IH]; intros [|w r]; try reflexivity.
  change (wssr em (x :: xs) (w :: r)) with (Qred ((x - em) * (x - em) * w + wssr em xs r)).
  change (wss em (x :: xs) (w :: r)) with ((x - em) * (x - em) * w + wss em xs r).
  rewrite Qred_correct, IH. reflexivity.
Qed.

Lemma qmaxb_proper_l a a' b : a == a' -> qmaxb a b == qmaxb a' b.
Proof.
  intros E. destruct (qmaxb_spec a b) as [[H ->]|[H ->]]; destruct (qmaxb_spec a' b) as [[H' ->]|[H' ->]];
    try reflexivity; lra.
Qed.

Lemma ms_mean_x_eq small m0 r xs : ms_mean_x small m0 r xs == ms_mean small m0 r xs.
Proof. unfold ms_mean_x, ms_mean. rewrite Qred_correct, qdotr_eq, qsumr_eq. reflexivity. Qed.

Lemma ms_empmean_x_eq tiny r xs : ms_empmean_x tiny r xs == ms_empmean tiny r xs.
Proof.
  unfold ms_empmean_x, ms_empmean. rewrite Qred_correct, qdotr_eq.
  rewrite (qmaxb_proper_l _ _ tiny (qsumr_eq r)). reflexivity.
Qed.

Lemma asq_axis_x_eq tiny m0 r xs : asq_axis_x tiny m0 r xs == asq_axis tiny m0 r xs.
Proof. unfold asq_axis_x, asq_axis. rewrite Qred_correct, ms_empmean_x_eq. reflexivity. Qed.

Lemma ms_addsq_x_eq tiny r pm cols : ms_addsq_x tiny r pm cols == ms_addsq tiny r pm cols.
Proof.
  revert cols; induction pm as [|m0 pm IH]; intros [|xs cols]; try reflexivity.
  change (ms_addsq_x tiny r (m0 :: pm) (xs :: cols)) with (Qred (asq_axis_x tiny m0 r xs + ms_addsq_x tiny r pm cols)).
  change (ms_addsq tiny r (m0 :: pm) (xs :: cols)) with (asq_axis tiny m0 r xs + ms_addsq tiny r pm cols).
  rewrite Qred_correct, asq_axis_x_eq, IH. reflexivity.
Qed.

Lemma ms_asq_x_eq tiny r pm cols j : ms_asq_x tiny r pm cols j == ms_asq tiny r pm cols j.
Proof.
  unfold ms_asq_x, ms_asq. destruct src_addcov_kind; [apply asq_axis_x_eq|apply ms_addsq_x_eq].
Qed.

Lemma ms_cov_x_eq small tiny a a' s0 dof0 dim r xs : a == a' ->
  ms_cov_x small tiny a s0 dof0 dim r xs == ms_cov small tiny a' s0 dof0 dim r xs.
Proof.
  intros E. unfold ms_cov_x, ms_cov. rewrite Qred_correct, wssr_eq.
  rewrite (wss_proper _ _ _ _ (ms_empmean_x_eq tiny r xs)), qsumr_eq, E. reflexivity.
Qed.

Lemma ms_prec_x_eq small tiny a a' s0 dof0 dim r xs : a == a' ->
  ms_prec_x small tiny a s0 dof0 dim r xs == ms_prec small tiny a' s0 dof0 dim r xs.
Proof.
  intros E. unfold ms_prec_x, ms_prec. rewrite Qred_correct, (ms_cov_x_eq _ _ _ _ _ _ _ _ _ E). reflexivity.
Qed.

(* ------------------------------------------------------------------ (b) list facts *)
Lemma map_nth_seq {A} (l : list A) d : map (fun i => nth i l d) (seq 0 (length l)) = l.
Proof.
  induction l as [|a l IH]; simpl; [reflexivity|]. f_equal.
  rewrite <- seq_shift, map_map. exact IH.
Qed.

Lemma nth_map_default {A B} (f : A -> B) l d0 d c : (c < length l)%nat -> nth c (map f l) d = f (nth c l d0).
Proof.
  intros H. rewrite nth_indep with (d' := f d0) by (rewrite map_length; exact H). apply map_nth.
Qed.

Lemma nth_sel {A} (d : A) sigma l c : (c < length sigma)%nat -> nth c (sel d sigma l) d = nth (nth c sigma 0%nat) l d.
Proof. intros H. unfold sel. apply (nth_map_default (fun i => nth i l d) sigma 0%nat d c H). Qed.

Lemma map_over_sigma {B} (G : nat -> B) sigma :
  map (fun c => G (nth c sigma 0%nat)) (seq 0 (length sigma)) = map G sigma.
Proof. rewrite <- (map_map (fun c => nth c sigma 0%nat) G). f_equal. apply map_nth_seq. Qed.

Lemma sel_map_seq {B} (G : nat -> B) d sigma K : Forall (fun i => (i < K)%nat) sigma ->
  sel d sigma (map G (seq 0 K)) = map G sigma.
Proof.
  intros H. unfold sel. apply map_ext_in. intros i Hi. rewrite Forall_forall in H. specialize (H i Hi).
  rewrite (nth_map_default G (seq 0 K) 0%nat d i) by (rewrite seq_length; exact H).
  rewrite seq_nth by exact H. reflexivity.
Qed.

Lemma colq_sel sigma resp c : (c < length sigma)%nat ->
  colq c (map (sel 0 sigma) resp) = colq (nth c sigma 0%nat) resp.
Proof.
  intros H. unfold colq. rewrite map_map. apply map_ext. intros row. apply nth_sel. exact H.
Qed.

(* ------------------------------------------------------------------ sums under permutation *)
Lemma qsum_perm l l' : Permutation l l' -> qsum l == qsum l'.
Proof.
  induction 1 as [|x l l' _ IH|x y l|l l' l'' _ IH1 _ IH2]; simpl.
  - reflexivity.
  - rewrite IH. reflexivity.
  - ring.
  - rewrite IH1. exact IH2.
Qed.

Lemma sel_perm (w : list Q) sigma : Permutation sigma (seq 0 (length w)) -> Permutation (sel 0 sigma w) w.
Proof.
  intros H. unfold sel. apply Permutation_trans with (map (fun i => nth i w 0) (seq 0 (length w))).
  - apply Permutation_map. exact H.
  - rewrite map_nth_seq. apply Permutation_refl.
Qed.

Lemma Forall2_map_Qeq {A} (f g : A -> Q) l : (forall i, In i l -> f i == g i) -> Forall2 Qeq (map f l) (map g l).
Proof.
  induction l as [|a l IH]; intros H; simpl; constructor.
  - apply H. left. reflexivity.
  - apply IH. intros i Hi. apply H. right. exact Hi.
Qed.

Lemma perm_bound sigma K : Permutation sigma (seq 0 K) -> Forall (fun i => (i < K)%nat) sigma.
Proof.
  intros H. rewrite Forall_forall. intros i Hi. apply (Permutation_in _ H) in Hi. apply in_seq in Hi. lia.
Qed.

(* normalising a relabelled row = relabelling the normalised row (entrywise ==) *)
Lemma normalize_sel w sigma : Permutation sigma (seq 0 (length w)) ->
  Forall2 Qeq (normalize (sel 0 sigma w)) (sel 0 sigma (normalize w)).
Proof.
  intros HP. pose proof (perm_bound _ _ HP) as HB. rewrite Forall_forall in HB.
  unfold normalize, sel. rewrite map_map.
  fold (sel 0 sigma w). apply Forall2_map_Qeq. intros i Hi.
  rewrite (nth_map_div w (qsum w) i (HB i Hi)).
  rewrite (qsum_perm _ _ (sel_perm w sigma HP)). reflexivity.
Qed.

Lemma norm_floor_sel tiny w sigma : Permutation sigma (seq 0 (length w)) ->
  Forall2 Qeq (norm_floor tiny (sel 0 sigma w)) (sel 0 sigma (norm_floor tiny w)).
Proof.
  intros HP. pose proof (perm_bound _ _ HP) as HB. rewrite Forall_forall in HB.
  unfold norm_floor, sel. rewrite map_map.
  fold (sel 0 sigma w). apply Forall2_map_Qeq. intros i Hi.
  rewrite (nth_map_div w (qmaxb tiny (qsum w)) i (HB i Hi)).
  assert (E : qmaxb tiny (qsum (sel 0 sigma w)) == qmaxb tiny (qsum w)).
  { pose proof (qsum_perm _ _ (sel_perm w sigma HP)) as Es.
    destruct (qmaxb_spec tiny (qsum (sel 0 sigma w))) as [[H ->]|[H ->]];
      destruct (qmaxb_spec tiny (qsum w)) as [[H' ->]|[H' ->]]; try reflexivity; lra. }
  rewrite E. reflexivity.
Qed.

(* ------------------------------------------------------------------ (b) the M-step *)
Lemma qadd2_map {A} (f g : A -> Q) l : qadd2 (map f l) (map g l) = map (fun i => f i + g i) l.
Proof. induction l as [|a l IH]; simpl; [reflexivity|]. rewrite IH. reflexivity. Qed.

Lemma nth_qadd2 a b i : (i < length a)%nat -> (i < length b)%nat -> nth i (qadd2 a b) 0 = nth i a 0 + nth i b 0.
Proof.
  revert b i; induction a as [|x a IH]; intros [|y b] [|i] Ha Hb; simpl in *; try lia; try reflexivity.
  apply IH; lia.
Qed.

Section Relabel.
  Variables (tiny small dof0 : Q) (pw : list Q) (pm ps : list (list Q)) (K dim : nat) (resp x : list (list Q)).
  Variable sigma : list nat.
  Hypothesis Hperm : Permutation sigma (seq 0 K).
  Hypothesis Hpw : length pw = K.

  Let out := mstep_from_resp tiny small dof0 pw pm ps K dim resp x.
  Let out' := mstep_from_resp tiny small dof0 (sel 0 sigma pw) (sel [] sigma pm) (sel [] sigma ps)
                              (length sigma) dim (map (sel 0 sigma) resp) x.

  Lemma relabel_means : snd (fst out') = sel [] sigma (snd (fst out)).
  Proof.
    unfold out, out', mstep_from_resp. cbn [fst snd]. unfold seqn.
    rewrite (sel_map_seq _ [] sigma K (perm_bound _ _ Hperm)).
    rewrite <- (map_over_sigma (fun i => comp_means small (nth i pm []) (colq i resp)
                                                    (map (fun a => colq a x) (seq 0 dim)) dim) sigma).
    apply map_ext_in. intros c Hc. apply in_seq in Hc.
    rewrite nth_sel by lia. rewrite colq_sel by lia. reflexivity.
  Qed.

  Lemma relabel_precs : snd out' = sel [] sigma (snd out).
  Proof.
    unfold out, out', mstep_from_resp. cbn [fst snd]. unfold seqn.
    rewrite (sel_map_seq _ [] sigma K (perm_bound _ _ Hperm)).
    rewrite <- (map_over_sigma (fun i => comp_precs small tiny dof0 (nth i pm []) (nth i ps []) (colq i resp)
                                                    (map (fun a => colq a x) (seq 0 dim)) dim) sigma).
    apply map_ext_in. intros c Hc. apply in_seq in Hc.
    rewrite !nth_sel by lia. rewrite colq_sel by lia. reflexivity.
  Qed.

  Lemma relabel_weights : Forall2 Qeq (fst (fst out')) (sel 0 sigma (fst (fst out))).
  Proof.
    unfold out, out', mstep_from_resp. cbn [fst snd]. unfold seqn, ms_weights.
    set (P := fun i => qsum (colq i resp)).
    assert (Epop : map (fun c => qsum (colq c (map (sel 0 sigma) resp))) (seq 0 (length sigma)) = map P sigma).
    { rewrite <- (map_over_sigma P sigma). apply map_ext_in. intros c Hc. apply in_seq in Hc.
      unfold P. rewrite colq_sel by lia. reflexivity. }
    rewrite Epop. fold P.
    set (w := qadd2 pw (map P (seq 0 K))).
    assert (Lw : length w = K).
    { unfold w. rewrite qadd2_length, map_length, seq_length, Hpw. apply Nat.min_id. }
    assert (Ew : qadd2 (sel 0 sigma pw) (map P sigma) = sel 0 sigma w).
    { unfold sel. rewrite qadd2_map. apply map_ext_in. intros i Hi.
      pose proof (perm_bound _ _ Hperm) as HB. rewrite Forall_forall in HB. specialize (HB i Hi).
      unfold w. rewrite nth_qadd2 by (rewrite ?map_length, ?seq_length; lia).
      rewrite (nth_map_default P (seq 0 K) 0%nat 0 i) by (rewrite seq_length; exact HB).
      rewrite seq_nth by exact HB. reflexivity. }
    rewrite Ew. apply normalize_sel. rewrite Lw. exact Hperm.
  Qed.
End Relabel.

(* ------------------------------------------------------------------ guess_regularizing, reduced versions *)
Lemma gr_mean_x_eq xs : gr_mean_x xs == gr_mean xs.
Proof. unfold gr_mean_x, gr_mean. rewrite Qred_correct, qsumr_eq. reflexivity. Qed.

Lemma gr_var_x_eq xs : gr_var_x xs == gr_var xs.
Proof.
  unfold gr_var_x, gr_var. rewrite Qred_correct, wssr_eq.
  rewrite (wss_proper _ _ _ _ (gr_mean_x_eq xs)). reflexivity.
Qed.

Lemma gr_scale_x_eq KF xs : gr_scale_x KF xs == gr_scale KF xs.
Proof. unfold gr_scale_x, gr_scale. rewrite gr_var_x_eq. reflexivity. Qed.

(* ------------------------------------------------------------------ an empty component (population exactly 0) *)
Lemma qsum_zeros n : qsum (repeat 0 n) == 0.
Proof.
  induction n as [|n IH]; [reflexivity|].
  change (qsum (repeat 0 (S n))) with (0 + qsum (repeat 0 n)). rewrite IH. ring.
Qed.

Lemma qdot_zeros n xs : qdot (repeat 0 n) xs == 0.
Proof.
  unfold qdot. revert xs; induction n as [|n IH]; intros [|x xs]; try reflexivity.
  change (qsum (qmul2 (repeat 0 (S n)) (x :: xs))) with (0 * x + qsum (qmul2 (repeat 0 n) xs)).
  rewrite IH. ring.
Qed.

Lemma wss_zeros em n xs : wss em xs (repeat 0 n) == 0.
Proof.
  revert n; induction xs as [|x xs IH]; intros [|n]; try reflexivity.
  change (wss em (x :: xs) (repeat 0 (S n))) with ((x - em) * (x - em) * 0 + wss em xs (repeat 0 n)).
  rewrite IH. ring.
Qed.

(* the fitted mean of an empty component is its prior mean, its covariance the prior term:
   neither depends on the data, so translation / scaling act on them through the prior only *)
Lemma ms_empty_component small tiny asq m0 s0 dof0 dim n xs : ~ small == 0 ->
  ms_mean small m0 (repeat 0 n) xs == m0 /\
  ms_cov small tiny asq s0 dof0 dim (repeat 0 n) xs == (1 / s0) / (dof0 + dim + 2).
Proof.
  intros Hs. split.
  - unfold ms_mean. rewrite qdot_zeros, qsum_zeros. field. exact Hs.
  - unfold ms_cov. rewrite wss_zeros, qsum_zeros.
    setoid_replace (small * 0 / (0 + small)) with 0 by (unfold Qdiv; ring).
    setoid_replace (dof0 + 0 + dim + 2) with (dof0 + dim + 2) by ring.
    setoid_replace (1 / s0 + 0 + asq * 0) with (1 / s0) by ring. reflexivity.
Qed.
