(* C13 - Segmentation.vm_step (segmentation.py l.113-130): the class means and
   (co)variances fitted from the posterior maps, one class at a time.

     P = self.ppm[..., i][self.mask].ravel()          weights of the class, one per in-mask voxel
     Z = nonzero(P.sum())                             nonzero = lambda x: np.maximum(x, 1e-50)
     tmp = self.data.T * P.T ;  mu = tmp.sum(1) / Z
     centred = self.data - mu
     sigma = np.dot(centred.T * P.T, centred) / Z     sigma[a, b] = sum_v centred[v, a] P[v] centred[v, b] / Z

   A channel is a list of intensities (one per in-mask voxel); executable over Q. *)
From Coq Require Import List Bool ZArith QArith.
From NV.Generated Require Import SegFrags.
From NV.C13 Require Import Model.
Import ListNotations.
Open Scope Q_scope.

(* the floor of `nonzero`: the double 1e-50, read from the source (SegFrags.src_seg_floor) *)
Definition seg_floor : Q := src_seg_floor.
(* Z = np.maximum(P.sum(), 1e-50) *)
Definition vm_Z (P : list Q) : Q := qmaxb seg_floor (qsum P).

(* sum_v x[v] * P[v] *)
Fixpoint dot2 (x p : list Q) : Q :=
  match x, p with
  | a :: x', w :: p' => a * w + dot2 x' p'
  | _, _ => 0
  end.
(* sum_v a[v] * P[v] * b[v] *)
Fixpoint dot3 (a p b : list Q) : Q :=
  match a, p, b with
  | x :: a', w :: p', y :: b' => x * w * y + dot3 a' p' b'
  | _, _, _ => 0
  end.

Definition centred (x : list Q) (m : Q) : list Q := map (fun v => v - m) x.
Definition vm_mu (P x : list Q) : Q := dot2 x P / vm_Z P.
Definition vm_cov (P xa xb : list Q) : Q :=
  dot3 (centred xa (vm_mu P xa)) P (centred xb (vm_mu P xb)) / vm_Z P.

(* all channels: mu vector and sigma matrix of one class *)
Definition vm_class (P : list Q) (chans : list (list Q)) : list Q * list (list Q) :=
  (map (vm_mu P) chans, map (fun xa => map (vm_cov P xa) chans) chans).
(* all classes: ppm given as one weight column per class *)
Definition vm_step_model (cols : list (list Q)) (chans : list (list Q)) : list (list Q * list (list Q)) :=
  map (fun P => vm_class P chans) cols.

Definition shift (c : Q) (x : list Q) : list Q := map (fun v => v + c) x.
Definition scale (c : Q) (x : list Q) : list Q := map (fun v => c * v) x.

(* Segmentation.normalized_external_field on the whole (voxels x classes) matrix:
     f = lef.T ; f -= np.max(f, 0) ; np.exp(f, f) ; f /= f.sum(0) ; return f.T
   which maximum is subtracted is read from the source (SegFrags.src_nef_shift): the maximum of
   the voxel's own row, or one global maximum of the matrix. *)
Definition nef_shift_of (lef : list (list Q)) (row : list Q) : Q :=
  match src_nef_shift with
  | NefShiftPerVoxel => lmax row
  | NefShiftGlobal => lmax (concat lef)
  end.
Definition nef_matrix (EXP : Q -> Q) (lef : list (list Q)) : list (list Q) :=
  map (fun row => normalize (map (fun v => EXP (v - nef_shift_of lef row)) row)) lef.

(* harness comparison: |a - b| <= tol * max(1, |a|) *)
Definition qnear (tol a b : Q) : bool := Qle_bool (Qabs.Qabs (a - b)) (tol * qmaxb 1 (Qabs.Qabs a)).
Fixpoint qlist_near (tol : Q) (a b : list Q) : bool :=
  match a, b with
  | [], [] => true
  | x :: a', y :: b' => qnear tol x y && qlist_near tol a' b'
  | _, _ => false
  end.
Fixpoint qmat_near (tol : Q) (a b : list (list Q)) : bool :=
  match a, b with
  | [], [] => true
  | x :: a', y :: b' => qlist_near tol x y && qmat_near tol a' b'
  | _, _ => false
  end.
Definition vm_class_near (tol : Q) (P : list Q) (chans : list (list Q)) (mu : list Q) (sigma : list (list Q)) : bool :=
  let '(m, s) := vm_class P chans in qlist_near tol m mu && qmat_near tol s sigma.
