(* C13 - mixture-model densities and posteriors: executable model over Q.

   Transcendental values (exp, log det, ...) never appear here: they are
   threaded in as oracle values / an oracle function EXP : Q -> Q.

   Part A  row normalisations (posteriors / responsibilities) and MAP
     gmm.py      GMM.likelihood (l.411-428), mixture_likelihood (l.500-512),
                 pop (l.395-405) and the first lines of _Mstep (l.620-624),
                 map_label (l.689-708)
     ggmixture.py GGM.Estep (l.213-235), GGM.posterior (l.311-328),
                 GGGM.Estep (l.517-540), GGGM.posterior (l.594-617)
     von_mises_fisher_mixture.py  responsibilities (l.137-152)
     segmentation.py  normalized_external_field (l.158-163), map_from_ppm (l.262-267)
   Part B  the C mean-field update ve_step / _ngb_integrate of mrf.c, written
           over the definitions GENERATED from mrf.c (NV.Generated.MrfTables)
   Part C  Gaussian quadratic forms (two loop orders), diag M-step, BIC count *)
From Coq Require Import List Bool ZArith QArith Qabs Lia.
From NV.Generated Require Import MrfTables GmmFrags.
Import ListNotations.
Open Scope Q_scope.

(* ------------------------------------------------------------------ Part A *)
Definition qsum (l : list Q) : Q := fold_right Qplus 0 l.

Fixpoint qmul2 (a b : list Q) : list Q :=
  match a, b with
  | x :: a', y :: b' => x * y :: qmul2 a' b'
  | _, _ => []
  end.

Fixpoint qadd2 (a b : list Q) : list Q :=
  match a, b with
  | x :: a', y :: b' => x + y :: qadd2 a' b'
  | _, _ => []
  end.

(* np.maximum(a, b) *)
Definition qmaxb (a b : Q) : Q := if Qle_bool a b then b else a.

(* row / row.sum() *)
Definition normalize (l : list Q) : list Q := map (fun x => x / qsum l) l.
(* row / np.maximum(tiny, row.sum()) *)
Definition norm_floor (tiny : Q) (l : list Q) : list Q := map (fun x => x / qmaxb tiny (qsum l)) l.

(* GMM.likelihood: like = unweighted_likelihood(x); like *= self.weights  (one row) *)
Definition gmm_likelihood (w u : list Q) : list Q := qmul2 u w.
(* GMM.mixture_likelihood: np.sum(like, 1) *)
Definition gmm_mixture (w u : list Q) : Q := qsum (gmm_likelihood w u).
(* GMM.pop / _Mstep: sl = np.maximum(tiny, np.sum(like, 1)); like = (like.T / sl).T  (one row) *)
Definition gmm_resp (tiny : Q) (like : list Q) : list Q := norm_floor tiny like.
Definition colsum (K : nat) (rows : list (list Q)) : list Q := fold_right qadd2 (repeat 0 K) rows.
(* GMM.pop: np.sum(nl, 0) *)
Definition gmm_pop (tiny : Q) (K : nat) (like : list (list Q)) : list Q :=
  colsum K (map (gmm_resp tiny) like).

(* np.argmax: index of the FIRST maximum *)
Fixpoint argmax (l : list Q) : nat :=
  match l with
  | [] => 0%nat
  | x :: r => match r with
              | [] => 0%nat
              | _ => let j := argmax r in if Qle_bool (nth j r 0) x then 0%nat else S j
              end
  end.
(* GMM.map_label: np.argmax(like, 1) ; segmentation.map_from_ppm: argmax(-1) + 1 *)
Definition map_label (like : list Q) : nat := argmax like.
Definition map_from_ppm_row (ppm_row : list Q) : nat := S (argmax ppm_row).

(* GGM.posterior(x): p = mixt; pg = p*gam; y = (1-p)*gaus; return y/(y+pg), pg/(y+pg) *)
Definition ggm_posterior (p gam gaus : Q) : list Q :=
  let pg := p * gam in let y := (1 - p) * gaus in [y / (y + pg); pg / (y + pg)].
(* GGM.Estep row: z = [gam, gaus] * [mixt, 1-mixt]; sz = maximum(sum, eps); z / sz *)
Definition ggm_estep (eps p gam gaus : Q) : list Q := norm_floor eps [gam * p; gaus * (1 - p)].
(* GGGM.posterior *)
Definition gggm_posterior (p0 p1 p2 ng y pg : Q) : list Q :=
  let total := ng * p0 + y * p1 + pg * p2 in [ng * p0 / total; y * p1 / total; pg * p2 / total].
(* GGGM.Estep row *)
Definition gggm_estep (tiny p0 p1 p2 ng y pg : Q) : list Q := norm_floor tiny [ng * p0; y * p1; pg * p2].

Definition qmean (l : list Q) : Q := qsum l / inject_Z (Z.of_nat (length l)).

(* Segmentation.normalized_external_field (one voxel):
   f -= max(f); exp(f); f /= f.sum() *)
Fixpoint lmax (l : list Q) : Q :=
  match l with
  | [] => 0
  | x :: r => match r with [] => x | _ => qmaxb x (lmax r) end
  end.
Definition nef_row (EXP : Q -> Q) (lef : list Q) : list Q :=
  normalize (map (fun v => EXP (v - lmax lef)) lef).

(* VonMisesMixture.responsibilities (one row):
   wl = exp(lwl - lwl.max()); resp = wl / wl.sum()
   (which shift the source uses is read from the source: GmmFrags.src_vmf_shift) *)
Definition vmf_shift (lwl : list Q) : Q :=
  match src_vmf_shift with ShiftMax => lmax lwl | ShiftMean => qmean lwl end.
Definition vmf_resp (EXP : Q -> Q) (lwl : list Q) : list Q :=
  normalize (map (fun x => EXP (x - vmf_shift lwl)) lwl).

(* ------------------------------------------------------------------ Part B *)
Record grid := mkGrid { gx : Z; gy : Z; gz : Z; gk : Z }.
Definition vox := (Z * Z * Z)%type.

Definition g_u2 (g : grid) : Z := src_u2 (gz g) (gk g).
Definition g_u1 (g : grid) : Z := src_u1 (gy g) (g_u2 g).
Definition g_posmax (g : grid) : Z := src_posmax (gx g) (g_u1 g) (gk g).
(* number of doubles in the ppm buffer (X, Y, Z, K) - deliberately NOT taken from mrf.c *)
Definition g_total (g : grid) : Z := (gx g * gy g * gz g * gk g)%Z.

(* xn = x + ngb[0]; ...; pos = xn*u1 + yn*u2 + zn*K *)
Definition ngb_pos (g : grid) (v o : vox) : Z :=
  let '(x, y, z) := v in let '(a, b, c) := o in
  src_pos (g_u1 g) (g_u2 g) (gk g) (x + a) (y + b) (z + c).

(* neighbours that survive `if ((pos < 0) || (pos > posmax)) continue;` *)
Definition valid_pos (g : grid) (ngb : list vox) (v : vox) : list Z :=
  filter (fun pos => negb (src_reject pos (g_posmax g))) (map (ngb_pos g v) ngb).

Definition getq (l : list Q) (i : Z) : Q := nth (Z.to_nat i) l 0.
Definition zrange (n : Z) : list Z := map Z.of_nat (seq 0 (Z.to_nat n)).

(* (U q)_k for the neighbour stored at pos: sum_kk U[k*K + kk] * ppm[pos + kk] *)
Definition uq (g : grid) (U ppm : list Q) (pos k : Z) : Q :=
  qsum (map (fun kk => getq U (k * gk g + kk) * getq ppm (pos + kk)) (zrange (gk g))).

(* _ngb_integrate *)
Definition integrate (g : grid) (U ppm : list Q) (ngb : list vox) (v : vox) : list Q :=
  fold_left (fun res pos => qadd2 res (map (uq g U ppm pos) (zrange (gk g))))
            (valid_pos g ngb v) (repeat 0 (Z.to_nat (gk g))).

(* every flat index of ppm that _ngb_integrate dereferences *)
Definition reads (g : grid) (ngb : list vox) (v : vox) : list Z :=
  flat_map (fun pos => map (fun kk => (pos + kk)%Z) (zrange (gk g))) (valid_pos g ngb v).

(* normalisation of the K values tmp_k = exp(..)*ref_k, both branches *)
Definition ve_row (tiny : Q) (K : Z) (tmp : list Q) : list Q :=
  let psum := qsum tmp in
  if src_norm_cond psum tiny
  then map (fun t => src_norm_main t psum) tmp
  else map (fun t => src_norm_tiny t psum tiny (inject_Z K)) tmp.

Definition write_row (l : list Q) (pos : Z) (row : list Q) : list Q :=
  firstn (Z.to_nat pos) l ++ row ++ skipn (Z.to_nat pos + length row) l.
Definition read_row (l : list Q) (pos K : Z) : list Q :=
  firstn (Z.to_nat K) (skipn (Z.to_nat pos) l).

Definition wpos (g : grid) (v : vox) : Z :=
  let '(x, y, z) := v in src_wpos (g_u1 g) (g_u2 g) (gk g) x y z.

(* one iteration of the `while(iter->index < iter->size)` loop of ve_step *)
Definition ve_tmp (EXP : Q -> Q) (beta : Q) (g : grid) (U : list Q) (ngb : list vox)
           (ppm : list Q) (v : vox) (refrow : list Q) : list Q :=
  qmul2 (map (fun b => EXP (src_exp_arg beta b)) (integrate g U ppm ngb v)) refrow.

Definition ve_voxel (EXP : Q -> Q) (beta tiny : Q) (g : grid) (U : list Q) (ngb : list vox)
           (ppm : list Q) (v : vox) (refrow : list Q) : list Q :=
  write_row ppm (wpos g v) (ve_row tiny (gk g) (ve_tmp EXP beta g U ngb ppm v refrow)).

(* the whole loop: points in XYZ order, each with its row of `ref`; ppm is updated in place *)
Definition ve_sweep (EXP : Q -> Q) (beta tiny : Q) (g : grid) (U : list Q) (ngb : list vox)
           (ppm : list Q) (pts : list (vox * list Q)) : list Q :=
  fold_left (fun st p => ve_voxel EXP beta tiny g U ngb st (fst p) (snd p)) pts ppm.

Definition ve_step (EXP : Q -> Q) (beta : Q) (g : grid) (U : list Q) (ngb_size : Z)
           (ppm : list Q) (pts : list (vox * list Q)) : option (list Q) :=
  match src_select ngb_size with
  | Some ngb => Some (ve_sweep EXP beta src_TINY g U ngb ppm pts)
  | None => None
  end.

(* interaction_energy: sum_i q_i . (sum_j U q_j) *)
Definition ie_voxel (g : grid) (U : list Q) (ngb : list vox) (ppm : list Q) (v : vox) : Q :=
  qsum (qmul2 (read_row ppm (wpos g v) (gk g)) (integrate g U ppm ngb v)).
Definition interaction_energy (g : grid) (U : list Q) (ngb : list vox) (ppm : list Q) (pts : list vox) : Q :=
  qsum (map (ie_voxel g U ngb ppm) pts).

(* oracle function given by a finite table (used only by the harness) *)
Fixpoint qlookup (tbl : list (Q * Q)) (x : Q) : Q :=
  match tbl with
  | [] => 0
  | (k, v) :: r => if Qeq_bool k x then v else qlookup r x
  end.

(* table predicates evaluated in Properties.v *)
Definition vox_eqb (a b : vox) : bool :=
  let '(x, y, z) := a in let '(p, q, r) := b in Z.eqb x p && Z.eqb y q && Z.eqb z r.
Definition vox_neg (a : vox) : vox := let '(x, y, z) := a in ((- x)%Z, (- y)%Z, (- z)%Z).
Definition vox_mem (a : vox) (l : list vox) : bool := existsb (vox_eqb a) l.
Fixpoint vox_nodup (l : list vox) : bool :=
  match l with [] => true | a :: r => negb (vox_mem a r) && vox_nodup r end.
Definition cube3 : list vox :=
  flat_map (fun x => flat_map (fun y => map (fun z => (x, y, z)) [(-1)%Z; 0%Z; 1%Z]) [(-1)%Z; 0%Z; 1%Z]) [(-1)%Z; 0%Z; 1%Z].
Definition l1 (a : vox) : Z := let '(x, y, z) := a in (Z.abs x + Z.abs y + Z.abs z)%Z.

(* comparison helpers for the harness *)
Definition qclose (tol a b : Q) : bool := Qle_bool (Qabs (a - b)) tol.
Fixpoint qlist_close (tol : Q) (a b : list Q) : bool :=
  match a, b with
  | [], [] => true
  | x :: a', y :: b' => qclose tol x y && qlist_close tol a' b'
  | _, _ => false
  end.
Definition qrel (tol a b : Q) : bool := Qle_bool (Qabs (a - b)) (tol * Qabs a).
Fixpoint qlist_rel (tol : Q) (a b : list Q) : bool :=
  match a, b with
  | [], [] => true
  | x :: a', y :: b' => qrel tol x y && qlist_rel tol a' b'
  | _, _ => false
  end.

(* ------------------------------------------------------------------ Part C *)
(* C.1 Gaussian quadratic forms of gmm.py, generic over a commutative ring
   (definitions of NV.Lib.RingMat), executable at Qc.
     unweighted_likelihood_ (l.430-462):  dx = m - x ;  q = np.sum(np.dot(dx, b) * dx, 1)
     unweighted_likelihood  (l.464-498):  dx = xt - m ; sqx = dx * np.dot(b, dx) ; q = sum_d sqx[d]
     diag:  q = np.dot((m - x) ** 2, b)   resp.   q = np.dot(b, (m - xt) ** 2)            *)
From NV.Lib Require Import RingMat Harness.
From Coq Require Import Qcanon.
Close Scope Qc_scope.
Open Scope Q_scope.
Section QuadForms.
  Variable R : Type.
  Variables (r0 : R) (radd rmul rsub : R -> R -> R).
  Fixpoint vsub (x y : list R) : list R :=
    match x, y with
    | a :: x', b :: y' => rsub a b :: vsub x' y'
    | _, _ => []
    end.
  Definition vsq (x : list R) : list R := map (fun a => rmul a a) x.
  Definition quad_rowwise (dim : nat) (m x : list R) (B : list (list R)) : R :=
    dot r0 radd rmul (vm r0 radd rmul dim (vsub m x) B) (vsub m x).
  Definition quad_colwise (m x : list R) (B : list (list R)) : R :=
    dot r0 radd rmul (vsub x m) (mv r0 radd rmul B (vsub x m)).
  Definition quad_diag_rowwise (m x b : list R) : R := dot r0 radd rmul (vsq (vsub m x)) b.
  Definition quad_diag_colwise (m x b : list R) : R := dot r0 radd rmul b (vsq (vsub m x)).
End QuadForms.

Definition qc0 : Qc := Q2Qc 0.
Definition quad_rowwise_Qc := quad_rowwise Qc qc0 Qcplus Qcmult Qcminus.
Definition quad_colwise_Qc := quad_colwise Qc qc0 Qcplus Qcmult Qcminus.
Definition quad_diag_rowwise_Qc := quad_diag_rowwise Qc qc0 Qcplus Qcmult Qcminus.
Definition quad_diag_colwise_Qc := quad_diag_colwise Qc qc0 Qcplus Qcmult Qcminus.
Definition qcl (l : list Q) : list Qc := map Q2Qc l.
Definition qcm (m : list (list Q)) : list (list Qc) := map qcl m.

(* w = -log(2 pi)*dim ; w += LOGDET ; w -= q ; w /= 2 ; like = exp(w)   (the argument of exp) *)
Definition gauss_exp_arg (L2PI LOGDET : Q) (dim : nat) (q : Q) : Q :=
  ((- L2PI * inject_Z (Z.of_nat dim) + LOGDET) - q) / 2.

(* C.2 GMM._Mstep for prec_type == 'diag' (gmm.py l.603-672), one component k
   (r = column k of the row-normalised responsibilities) and one axis j
   (xs = column j of the data). *)
Definition qdot (a b : list Q) : Q := qsum (qmul2 a b).
(* sum_i (x_i - em)^2 r_i *)
Fixpoint wss (em : Q) (xs r : list Q) : Q :=
  match xs, r with
  | x :: xs', w :: r' => (x - em) * (x - em) * w + wss em xs' r'
  | _, _ => 0
  end.
(* means = (like.T x + prior_means*prior_shrinkage) / (pop + prior_shrinkage) *)
Definition ms_mean (small m0 : Q) (r xs : list Q) : Q := (qdot r xs + m0 * small) / (qsum r + small).
(* empmeans = like.T x / np.maximum(pop, tiny) *)
Definition ms_empmean (tiny : Q) (r xs : list Q) : Q := qdot r xs / qmaxb (qsum r) tiny.
(* addcov: current code  addcov = (empmeans - self.prior_means) ** 2  (per axis);
   the earlier form summed the squares over ALL axes (ms_addsq).  Which one the
   source uses is read from the source: GmmFrags.src_addcov_kind. *)
Definition asq_axis (tiny m0 : Q) (r xs : list Q) : Q :=
  (ms_empmean tiny r xs - m0) * (ms_empmean tiny r xs - m0).
Fixpoint ms_addsq (tiny : Q) (r : list Q) (pm : list Q) (cols : list (list Q)) : Q :=
  match pm, cols with
  | m0 :: pm', xs :: cols' => asq_axis tiny m0 r xs + ms_addsq tiny r pm' cols'
  | _, _ => 0
  end.
Definition ms_asq (tiny : Q) (r : list Q) (pm : list Q) (cols : list (list Q)) (j : nat) : Q :=
  match src_addcov_kind with
  | PerAxis => asq_axis tiny (nth j pm 0) r (nth j cols [])
  | AllAxes => ms_addsq tiny r pm cols
  end.
(* covariance = (1/prior_scale + empcov + addcov * small*pop/(pop+small)) / (prior_dof + pop + dim + 2) *)
Definition ms_cov (small tiny asq s0 dof0 dim : Q) (r xs : list Q) : Q :=
  let pop := qsum r in
  let em := ms_empmean tiny r xs in
  (1 / s0 + wss em xs r + asq * (small * pop / (pop + small))) / (dof0 + pop + dim + 2).
Definition ms_prec (small tiny asq s0 dof0 dim : Q) (r xs : list Q) : Q :=
  1 / ms_cov small tiny asq s0 dof0 dim r xs.
(* weights = (prior_weights + pop) / sum(prior_weights + pop) *)
Definition ms_weights (pw pop : list Q) : list Q := normalize (qadd2 pw pop).

Definition colq (j : nat) (M : list (list Q)) : list Q := map (fun row => nth j row 0) M.
Definition seqn (n : nat) : list nat := seq 0 n.

(* relabelling: entry c of the result is entry sigma[c] of the argument *)
Definition sel {A : Type} (d : A) (sigma : list nat) (l : list A) : list A := map (fun i => nth i l d) sigma.

(* all axes of one component: r = its memberships, pmrow / psrow = its prior mean / scale rows *)
Definition comp_means (small : Q) (pmrow r : list Q) (cols : list (list Q)) (dim : nat) : list Q :=
  map (fun j => ms_mean small (nth j pmrow 0) r (nth j cols [])) (seqn dim).
Definition comp_precs (small tiny dof0 : Q) (pmrow psrow r : list Q) (cols : list (list Q)) (dim : nat) : list Q :=
  map (fun j => ms_prec small tiny (ms_asq tiny r pmrow cols j) (nth j psrow 0) dof0 (inject_Z (Z.of_nat dim))
                        r (nth j cols [])) (seqn dim).

(* the diag M-step from the row-normalised memberships resp (n x k) and the data x (n x dim);
   prior_means / prior_scale are k x dim *)
Definition mstep_from_resp (tiny small dof0 : Q) (pw : list Q) (pm ps : list (list Q)) (k dim : nat)
           (resp x : list (list Q)) : list Q * list (list Q) * list (list Q) :=
  let pop := map (fun c => qsum (colq c resp)) (seqn k) in
  let cols := map (fun a => colq a x) (seqn dim) in
  (ms_weights pw pop,
   map (fun c => comp_means small (nth c pm []) (colq c resp) cols dim) (seqn k),
   map (fun c => comp_precs small tiny dof0 (nth c pm []) (nth c ps []) (colq c resp) cols dim) (seqn k)).

(* the whole diag M-step: like (n x k, raw likelihoods) *)
Definition mstep_diag (tiny small dof0 : Q) (pw : list Q) (pm ps : list (list Q)) (k dim : nat)
           (like x : list (list Q)) : list Q * list (list Q) * list (list Q) :=
  mstep_from_resp tiny small dof0 pw pm ps k dim (map (gmm_resp tiny) like) x.

(* ---- the same computation with fractions reduced after every accumulation step: this is what
   the harness executes (unreduced sums of n fractions have denominators that are products of
   n denominators); Proofs5 shows every entry is == the corresponding entry above. *)
Definition qsumr (l : list Q) : Q := fold_right (fun x a => Qred (x + a)) 0 l.
Definition qdotr (a b : list Q) : Q := qsumr (qmul2 a b).
Fixpoint wssr (em : Q) (xs r : list Q) : Q :=
  match xs, r with
  | x :: xs', w :: r' => Qred ((x - em) * (x - em) * w + wssr em xs' r')
  | _, _ => 0
  end.
Definition ms_mean_x (small m0 : Q) (r xs : list Q) : Q := Qred ((qdotr r xs + m0 * small) / (qsumr r + small)).
Definition ms_empmean_x (tiny : Q) (r xs : list Q) : Q := Qred (qdotr r xs / qmaxb (qsumr r) tiny).
Definition asq_axis_x (tiny m0 : Q) (r xs : list Q) : Q :=
  Qred ((ms_empmean_x tiny r xs - m0) * (ms_empmean_x tiny r xs - m0)).
Fixpoint ms_addsq_x (tiny : Q) (r : list Q) (pm : list Q) (cols : list (list Q)) : Q :=
  match pm, cols with
  | m0 :: pm', xs :: cols' => Qred (asq_axis_x tiny m0 r xs + ms_addsq_x tiny r pm' cols')
  | _, _ => 0
  end.
Definition ms_asq_x (tiny : Q) (r : list Q) (pm : list Q) (cols : list (list Q)) (j : nat) : Q :=
  match src_addcov_kind with
  | PerAxis => asq_axis_x tiny (nth j pm 0) r (nth j cols [])
  | AllAxes => ms_addsq_x tiny r pm cols
  end.
Definition ms_cov_x (small tiny asq s0 dof0 dim : Q) (r xs : list Q) : Q :=
  let pop := qsumr r in
  let em := ms_empmean_x tiny r xs in
  Qred ((1 / s0 + wssr em xs r + asq * (small * pop / (pop + small))) / (dof0 + pop + dim + 2)).
Definition ms_prec_x (small tiny asq s0 dof0 dim : Q) (r xs : list Q) : Q :=
  Qred (1 / ms_cov_x small tiny asq s0 dof0 dim r xs).
Definition mstep_diag_x (tiny small dof0 : Q) (pw : list Q) (pm ps : list (list Q)) (k dim : nat)
           (like x : list (list Q)) : list Q * list (list Q) * list (list Q) :=
  let resp := map (fun row => map Qred (gmm_resp tiny row)) like in
  let cols := map (fun a => colq a x) (seqn dim) in
  let qd := inject_Z (Z.of_nat dim) in
  (normalize (qadd2 pw (map (fun c => qsumr (colq c resp)) (seqn k))),
   map (fun c => map (fun j => ms_mean_x small (nth j (nth c pm []) 0) (colq c resp) (nth j cols [])) (seqn dim)) (seqn k),
   map (fun c => map (fun j => ms_prec_x small tiny (ms_asq_x tiny (colq c resp) (nth c pm []) cols j)
                                         (nth j (nth c ps []) 0) dof0 qd (colq c resp) (nth j cols [])) (seqn dim)) (seqn k)).

(* guess_regularizing (l.567-601), one axis: prior mean, data variance, prior scale
   (KF = exp(2/dim * log k) is an oracle value) *)
Definition gr_mean (xs : list Q) : Q := qsum xs / inject_Z (Z.of_nat (length xs)).
Definition gr_var (xs : list Q) : Q :=
  wss (gr_mean xs) xs (repeat 1 (length xs)) / inject_Z (Z.of_nat (length xs)).
Definition gr_scale (KF : Q) (xs : list Q) : Q := 1 / gr_var xs * KF.

(* C.3 BIC parameter count: the code's expressions are GmmFrags.src_bic_eta_full / _diag
   (translated from GMM.bic).  Free parameters of a k-component mixture: k-1 weights,
   k*dim means, k*dim(dim+1)/2 (full, symmetric) resp. k*dim (diag) precision entries *)
Definition free_params_full (k dim : Q) : Q := (k - 1) + k * dim + k * (dim * (dim + 1) / 2).
Definition free_params_diag (k dim : Q) : Q := (k - 1) + k * dim + k * dim.

(* ------------------------------------------------------------------ Part D *)
(* D.1 BrainT1Segmentation.convert (brain_segmentation.py l.109-112), one voxel:
     self.ppm = np.dot(self.ppm, self.mixmat)          row (K classes) times mixmat (K x T)
     self.label = map_from_ppm(self.ppm, self.mask)    argmax of the MIXED row, + 1        *)
Fixpoint mix_row (T : nat) (row : list Q) (M : list (list Q)) : list Q :=
  match row, M with
  | r :: row', m :: M' => qadd2 (map (fun v => r * v) m) (mix_row T row' M')
  | _, _ => repeat 0 T
  end.
Definition convert_voxel (T : nat) (row : list Q) (M : list (list Q)) : list Q * nat :=
  (mix_row T row M, map_from_ppm_row (mix_row T row M)).

(* D.2 bgmm.dkl_gaussian (l.243-272) over a commutative ring with the transcendental / LAPACK
   values threaded in: LOGR = log(d1/d2) (d_i = det P_i), S1 = inv(P1), half = 1/2:
     dkl = log(d1/d2) + trace(P2 . inv(P1)) - dim ; dkl += (m1-m2)' P2 (m1-m2) ; dkl /= 2 *)
Section Dkl.
  Variable R : Type.
  Variables (r0 : R) (radd rmul rsub : R -> R -> R).
  (* trace(A . B) = sum_i (row i of A) . (column i of B) *)
  Fixpoint trace_prod_from (i : nat) (A B : list (list R)) : R :=
    match A with
    | [] => r0
    | a :: A' => radd (dot r0 radd rmul a (col r0 i B)) (trace_prod_from (S i) A' B)
    end.
  Definition dkl_gaussian_model (half LOGR dimR : R) (dim : nat) (m1 : list R) (S1 : list (list R))
             (m2 : list R) (P2 : list (list R)) : R :=
    rmul half (radd (rsub (radd LOGR (trace_prod_from 0 P2 S1)) dimR)
                    (quad_rowwise R r0 radd rmul rsub dim m1 m2 P2)).
  (* the textbook form: trace term, Mahalanobis term (m2-m1)' P2 (m2-m1) weighted by the
     precision of the SECOND density, log-determinant term *)
  Definition dkl_gaussian_textbook (half LOGR dimR : R) (m1 : list R) (S1 : list (list R))
             (m2 : list R) (P2 : list (list R)) : R :=
    rmul half (radd (radd (rsub (trace_prod_from 0 P2 S1) dimR)
                          (dot r0 radd rmul (vsub R rsub m2 m1) (mv r0 radd rmul P2 (vsub R rsub m2 m1))))
                    LOGR).
End Dkl.
Definition dkl_gaussian_Qc (LOGR : Qc) (dim : nat) m1 S1 m2 P2 : Qc :=
  dkl_gaussian_model Qc qc0 Qcplus Qcmult Qcminus (Q2Qc (1 # 2)) LOGR (Q2Qc (inject_Z (Z.of_nat dim))) dim m1 S1 m2 P2.
(* S1 is the inverse of P1: P1 . S1 = I, checked by the harness on the oracle value *)
Definition is_inverse_Qc (n : nat) (P S : list (list Qc)) : bool :=
  list_eqb (list_eqb Qc_eq_bool) (mm qc0 Qcplus Qcmult n P S) (mid qc0 (Q2Qc 1) n).

(* D.3 bgmm.dkl_wishart: the code's arithmetic is GmmFrags.src_dkl_wishart (translated from the
   source).  Textbook KL( W(a1, V1) || W(a2, V2) ) with V_i = inv(B_i), p = dim:
     -(a2/2) ln|inv(V2) V1| + (a1/2) (tr(inv(V2) V1) - p) + ln Gamma_p(a2/2) - ln Gamma_p(a1/2)
     + ((a1 - a2)/2) psi_p(a1/2)
   where ln|inv(V2) V1| = ln|B2| - ln|B1| = LD2 - LD1, tr(inv(V2) V1) = tr(B2 inv(B1)) = TR,
   ln Gamma_p(a_i/2) = lgc + G_i (lgc = p(p-1)/4 ln pi, G_i = sum_i gammaln((a_i - i)/2)),
   psi_p(a1/2) = PS1 = sum_i psi((a1 - i)/2). *)
Definition dkl_wishart_textbook (a1 a2 dim LD1 LD2 lgc G1 G2 PS1 TR : Q) : Q :=
  - ((1 # 2) * a2 * (LD2 - LD1)) + (1 # 2) * a1 * (TR - dim) + ((lgc + G2) - (lgc + G1))
  + (1 # 2) * (a1 - a2) * PS1.

(* reduced-fraction versions of guess_regularizing executed by the harness (== the ones above: Proofs5) *)
Definition gr_mean_x (xs : list Q) : Q := Qred (qsumr xs / inject_Z (Z.of_nat (length xs))).
Definition gr_var_x (xs : list Q) : Q :=
  Qred (wssr (gr_mean_x xs) xs (repeat 1 (length xs)) / inject_Z (Z.of_nat (length xs))).
Definition gr_scale_x (KF : Q) (xs : list Q) : Q := 1 / gr_var_x xs * KF.
