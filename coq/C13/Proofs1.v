(* C13 - proofs, part 1: normalisation gives a point of the simplex; argmax. *)
From Coq Require Import List Bool ZArith QArith Qabs Lia Lqa Setoid Morphisms.
From NV.Generated Require Import MrfTables GmmFrags.
From NV.C13 Require Import Model.
Import ListNotations.
Open Scope Q_scope.

Definition nonneg (l : list Q) : Prop := Forall (fun x => 0 <= x) l.
Definition simplex (l : list Q) : Prop := nonneg l /\ qsum l == 1.

Lemma qsum_nonneg l : nonneg l -> 0 <= qsum l.
Proof.
  induction l as [|x l IH]; simpl; intros H.
  - lra.
  - inversion H as [|? ? Hx Hl]; subst. specialize (IH Hl). lra.
Qed.

Lemma qsum_div l s : qsum (map (fun x => x / s) l) == qsum l / s.
Proof.
  induction l as [|x l IH]; simpl.
  - unfold Qdiv. ring.
  - rewrite IH. unfold Qdiv. ring.
Qed.

Lemma div_nonneg x s : 0 <= x -> 0 < s -> 0 <= x / s.
Proof.
  intros Hx Hs. unfold Qdiv. apply Qmult_le_0_compat; [assumption|].
  apply Qinv_le_0_compat. lra.
Qed.

Lemma map_div_nonneg l s : nonneg l -> 0 < s -> nonneg (map (fun x => x / s) l).
Proof.
  intros H Hs. unfold nonneg in *. rewrite Forall_forall in *. intros y Hy.
  apply in_map_iff in Hy. destruct Hy as [x [<- Hx]]. apply div_nonneg; auto.
Qed.

(* posterior_simplex *)
Lemma normalize_simplex l : nonneg l -> 0 < qsum l -> simplex (normalize l).
Proof.
  intros H Hs. split.
  - apply map_div_nonneg; assumption.
  - unfold normalize. rewrite qsum_div. field. lra.
Qed.

Lemma normalize_length l : length (normalize l) = length l.
Proof. apply map_length. Qed.

Lemma qmaxb_spec a b : (a <= b /\ qmaxb a b = b) \/ (b < a /\ qmaxb a b = a).
Proof.
  unfold qmaxb. destruct (Qle_bool a b) eqn:E.
  - left. split; [apply Qle_bool_iff; assumption|reflexivity].
  - right. split; [|reflexivity]. apply Qnot_le_lt. intros H. apply Qle_bool_iff in H. congruence.
Qed.

(* row / max(tiny, sum): a simplex point exactly when the sum reaches the floor *)
Lemma norm_floor_simplex tiny l : nonneg l -> 0 < tiny -> tiny <= qsum l -> simplex (norm_floor tiny l).
Proof.
  intros H Ht Hs. unfold norm_floor.
  destruct (qmaxb_spec tiny (qsum l)) as [[_ ->]|[Hlt _]]; [|lra].
  apply normalize_simplex; [assumption|lra].
Qed.

Lemma norm_floor_below tiny l : 0 < tiny -> qsum l < tiny ->
  qsum (norm_floor tiny l) == qsum l / tiny.
Proof.
  intros Ht Hs. unfold norm_floor.
  destruct (qmaxb_spec tiny (qsum l)) as [[Hle _]|[_ ->]]; [lra|].
  apply qsum_div.
Qed.

Lemma norm_floor_nonneg tiny l : nonneg l -> 0 < tiny -> nonneg (norm_floor tiny l).
Proof.
  intros H Ht. unfold norm_floor. apply map_div_nonneg; [assumption|].
  destruct (qmaxb_spec tiny (qsum l)) as [[Hle ->]|[_ ->]]; lra.
Qed.

Lemma qmul2_nonneg a b : nonneg a -> nonneg b -> nonneg (qmul2 a b).
Proof.
  revert b; induction a as [|x a IH]; intros [|y b] Ha Hb; simpl; try constructor.
  - inversion Ha; inversion Hb; subst. apply Qmult_le_0_compat; assumption.
  - inversion Ha; inversion Hb; subst. apply IH; assumption.
Qed.

(* ------------------------------------------------------------------ GGM / GGGM *)
Lemma ggm_posterior_simplex p gam gaus :
  0 <= p -> p <= 1 -> 0 <= gam -> 0 <= gaus -> 0 < (1 - p) * gaus + p * gam ->
  simplex (ggm_posterior p gam gaus).
Proof.
  intros Hp0 Hp1 Hg Hy Ht. unfold ggm_posterior.
  assert (A : 0 <= p * gam) by (apply Qmult_le_0_compat; lra).
  assert (B : 0 <= (1 - p) * gaus) by (apply Qmult_le_0_compat; lra).
  split.
  - repeat constructor; apply div_nonneg; lra.
  - simpl. field. lra.
Qed.

Lemma gggm_posterior_simplex p0 p1 p2 ng y pg :
  0 <= p0 -> 0 <= p1 -> 0 <= p2 -> 0 <= ng -> 0 <= y -> 0 <= pg ->
  0 < ng * p0 + y * p1 + pg * p2 ->
  simplex (gggm_posterior p0 p1 p2 ng y pg).
Proof.
  intros H0 H1 H2 Hn Hy Hp Ht. unfold gggm_posterior.
  assert (A : 0 <= ng * p0) by (apply Qmult_le_0_compat; lra).
  assert (B : 0 <= y * p1) by (apply Qmult_le_0_compat; lra).
  assert (C : 0 <= pg * p2) by (apply Qmult_le_0_compat; lra).
  split.
  - repeat constructor; apply div_nonneg; lra.
  - simpl. field. lra.
Qed.

(* ------------------------------------------------------------------ vMF *)
Lemma qsum_pos_of_all_pos l : l <> [] -> Forall (fun x => 0 < x) l -> 0 < qsum l.
Proof.
  intros Hne H. destruct l as [|x l]; [congruence|].
  inversion H as [|? ? Hx Hl]; subst. simpl.
  assert (0 <= qsum l).
  { apply qsum_nonneg. unfold nonneg. rewrite Forall_forall in *. intros z Hz. specialize (Hl z Hz). lra. }
  lra.
Qed.

(* ------------------------------------------------------------------ NEF (max shift) *)
Lemma lmax_in l : l <> [] -> In (lmax l) l.
Proof.
  induction l as [|x l IH]; [congruence|]. intros _.
  destruct l as [|y l]; [left; reflexivity|].
  change (lmax (x :: y :: l)) with (qmaxb x (lmax (y :: l))).
  destruct (qmaxb_spec x (lmax (y :: l))) as [[_ ->]|[_ ->]].
  - right. apply IH. discriminate.
  - left. reflexivity.
Qed.

Lemma lmax_ge l x : In x l -> x <= lmax l.
Proof.
  induction l as [|y l IH]; intros Hin; [destruct Hin|].
  destruct l as [|z l].
  - destruct Hin as [->|[]]. simpl. lra.
  - change (lmax (y :: z :: l)) with (qmaxb y (lmax (z :: l))).
    destruct (qmaxb_spec y (lmax (z :: l))) as [[Hle ->]|[Hlt ->]]; destruct Hin as [->|Hin].
    + exact Hle.
    + apply IH. exact Hin.
    + lra.
    + specialize (IH Hin). lra.
Qed.

Lemma qsum_ge_member l x : nonneg l -> In x l -> x <= qsum l.
Proof.
  induction l as [|y l IH]; intros H Hin; [destruct Hin|].
  inversion H as [|? ? Hy Hl]; subst. simpl. destruct Hin as [->|Hin].
  - pose proof (qsum_nonneg l Hl). lra.
  - specialize (IH Hl Hin). lra.
Qed.

Lemma nef_row_simplex (EXP : Q -> Q) lef :
  (forall x, 0 <= EXP x) -> (forall x, x == 0 -> EXP x == 1) -> lef <> [] ->
  simplex (nef_row EXP lef).
Proof.
  intros HE H1 Hne. unfold nef_row.
  assert (Hnn : nonneg (map (fun v => EXP (v - lmax lef)) lef)).
  { unfold nonneg. rewrite Forall_forall. intros y Hy. apply in_map_iff in Hy.
    destruct Hy as [x [<- _]]. apply HE. }
  apply normalize_simplex; [assumption|].
  pose proof (lmax_in lef Hne) as Hin.
  assert (Hm : In (EXP (lmax lef - lmax lef)) (map (fun v => EXP (v - lmax lef)) lef)).
  { apply in_map_iff. exists (lmax lef). split; [reflexivity|assumption]. }
  pose proof (qsum_ge_member _ _ Hnn Hm) as Hge.
  assert (E : EXP (lmax lef - lmax lef) == 1) by (apply H1; ring).
  lra.
Qed.

(* vMF responsibilities with the max shift (the shift is read from the source) *)
Lemma vmf_resp_simplex (EXP : Q -> Q) lwl :
  (forall x, 0 <= EXP x) -> (forall x, x == 0 -> EXP x == 1) -> lwl <> [] ->
  simplex (vmf_resp EXP lwl).
Proof.
  intros HE H1 Hne. unfold vmf_resp, vmf_shift.
  change src_vmf_shift with ShiftMax. cbv iota.
  exact (nef_row_simplex EXP lwl HE H1 Hne).
Qed.

(* ------------------------------------------------------------------ argmax *)
Lemma argmax_lt l : l <> [] -> (argmax l < length l)%nat.
Proof.
  induction l as [|x l IH]; [congruence|]. intros _.
  destruct l as [|y l]; [simpl; lia|].
  assert (IH' : (argmax (y :: l) < length (y :: l))%nat) by (apply IH; discriminate).
  change (argmax (x :: y :: l)) with
    (if Qle_bool (nth (argmax (y :: l)) (y :: l) 0) x then 0%nat else S (argmax (y :: l))).
  destruct (Qle_bool _ x); simpl in *; lia.
Qed.

(* the selected entry is >= every entry, and strictly > every earlier entry *)
Lemma argmax_spec l : l <> [] ->
  (forall j, (j < length l)%nat -> nth j l 0 <= nth (argmax l) l 0) /\
  (forall j, (j < argmax l)%nat -> nth j l 0 < nth (argmax l) l 0).
Proof.
  induction l as [|x l IH]; [congruence|]. intros _.
  destruct l as [|y l].
  - simpl. split; intros j Hj; [|lia]. destruct j; [lra|lia].
  - assert (Hne : y :: l <> []) by discriminate. destruct (IH Hne) as [IHa IHb].
    change (argmax (x :: y :: l)) with
      (if Qle_bool (nth (argmax (y :: l)) (y :: l) 0) x then 0%nat else S (argmax (y :: l))).
    set (m := argmax (y :: l)) in *.
    destruct (Qle_bool (nth m (y :: l) 0) x) eqn:E.
    + apply Qle_bool_iff in E. split; intros j Hj; [|lia].
      change (nth 0 (x :: y :: l) 0) with x.
      destruct j as [|j]; [change (nth 0 (x :: y :: l) 0) with x; lra|].
      change (nth (S j) (x :: y :: l) 0) with (nth j (y :: l) 0).
      assert (Hj' : (j < length (y :: l))%nat) by (simpl in *; lia).
      specialize (IHa j Hj'). lra.
    + assert (Hlt : x < nth m (y :: l) 0).
      { apply Qnot_le_lt. intros H. apply Qle_bool_iff in H. congruence. }
      change (nth (S m) (x :: y :: l) 0) with (nth m (y :: l) 0).
      split; intros j Hj.
      * destruct j as [|j]; [change (nth 0 (x :: y :: l) 0) with x; lra|].
        change (nth (S j) (x :: y :: l) 0) with (nth j (y :: l) 0).
        apply IHa. simpl in *; lia.
      * destruct j as [|j]; [change (nth 0 (x :: y :: l) 0) with x; lra|].
        change (nth (S j) (x :: y :: l) 0) with (nth j (y :: l) 0).
        apply IHb. lia.
Qed.

(* argmax is determined by these two facts *)
Lemma argmax_unique l i : l <> [] -> (i < length l)%nat ->
  (forall j, (j < length l)%nat -> nth j l 0 <= nth i l 0) ->
  (forall j, (j < i)%nat -> nth j l 0 < nth i l 0) -> argmax l = i.
Proof.
  intros Hne Hi Ha Hb. destruct (argmax_spec l Hne) as [Sa Sb].
  pose proof (argmax_lt l Hne) as Hlt.
  destruct (Nat.lt_trichotomy (argmax l) i) as [H|[H|H]]; [|assumption|].
  - specialize (Hb _ H). specialize (Sa i Hi). lra.
  - specialize (Sb _ H). specialize (Ha _ Hlt). lra.
Qed.

Lemma nth_map_div l s j : (j < length l)%nat -> nth j (map (fun x => x / s) l) 0 = nth j l 0 / s.
Proof.
  intros Hj. rewrite nth_indep with (d' := (fun x => x / s) 0) by (rewrite map_length; assumption).
  exact (map_nth (fun x => x / s) l 0 j).
Qed.

(* MAP of the likelihood row = MAP of the normalised posterior row *)
Lemma argmax_scale l s : l <> [] -> 0 < s -> argmax (map (fun x => x / s) l) = argmax l.
Proof.
  intros Hne Hs. destruct (argmax_spec l Hne) as [Sa Sb].
  pose proof (argmax_lt l Hne) as Hlt.
  assert (Hi : 0 < / s) by (apply Qinv_lt_0_compat; assumption).
  apply argmax_unique.
  - destruct l; [congruence|discriminate].
  - rewrite map_length. assumption.
  - intros j Hj. rewrite map_length in Hj. rewrite !nth_map_div by assumption.
    specialize (Sa j Hj). unfold Qdiv. apply Qmult_le_compat_r; lra.
  - intros j Hj. rewrite !nth_map_div by lia. specialize (Sb j Hj).
    unfold Qdiv. apply Qmult_lt_compat_r; lra.
Qed.
