(* C13 - proofs, part 6: BrainT1Segmentation.convert (mixing product then arg-max) and
   the algebra of dkl_gaussian. *)
From Coq Require Import List Bool ZArith QArith Qabs Lia Lqa Setoid Ring.
From NV.Lib Require Import RingMat.
From NV.Generated Require Import MrfTables GmmFrags.
From NV.C13 Require Import Model Proofs1 Proofs2 Proofs3 Proofs4.
Import ListNotations.
Open Scope Q_scope.

(* ------------------------------------------------------------------ mixing *)
Lemma qsum_qadd2 a b : length a = length b -> qsum (qadd2 a b) == qsum a + qsum b.
Proof.
  revert b; induction a as [|x a IH]; intros [|y b] H; try discriminate.
  - simpl. ring.
  - change (qsum (qadd2 (x :: a) (y :: b))) with ((x + y) + qsum (qadd2 a b)).
    change (qsum (x :: a)) with (x + qsum a). change (qsum (y :: b)) with (y + qsum b).
    rewrite IH by (simpl in H; lia). ring.
Qed.

Lemma qsum_repeat0 T : qsum (repeat 0 T) == 0.
Proof.
  induction T as [|T IH]; [reflexivity|].
  change (qsum (repeat 0 (S T))) with (0 + qsum (repeat 0 T)). rewrite IH. ring.
Qed.

Lemma qadd2_nonneg a b : nonneg a -> nonneg b -> nonneg (qadd2 a b).
Proof.
  revert b; induction a as [|x a IH]; intros [|y b] Ha Hb; simpl; try constructor.
  - inversion Ha; inversion Hb; subst. lra.
  - inversion Ha; inversion Hb; subst. apply IH; assumption.
Qed.

Lemma mix_row_length T row M : Forall (fun m => length m = T) M -> length (mix_row T row M) = T.
Proof.
  revert M; induction row as [|r row IH]; intros [|m M] H; simpl; try apply repeat_length.
  inversion H as [|? ? Hm HM]; subst.
  rewrite qadd2_length, map_length, (IH M HM). apply Nat.min_id.
Qed.

Lemma mix_row_sum T row M : length row = length M ->
  Forall (fun m => length m = T /\ qsum m == 1) M -> qsum (mix_row T row M) == qsum row.
Proof.
  revert M; induction row as [|r row IH]; intros [|m M] HL H; try discriminate.
  - simpl. apply qsum_repeat0.
  - inversion H as [|? ? [Hm Hs] HM]; subst.
    change (mix_row (length m) (r :: row) (m :: M)) with
      (qadd2 (map (fun v => r * v) m) (mix_row (length m) row M)).
    rewrite qsum_qadd2.
    + fold (scale r m). rewrite qsum_scale, Hs, (IH M) by (try assumption; simpl in HL; lia).
      change (qsum (r :: row)) with (r + qsum row). ring.
    + rewrite map_length, mix_row_length; [reflexivity|].
      eapply Forall_impl; [|exact HM]. intros a [Ha _]. exact Ha.
Qed.

Lemma mix_row_nonneg T row M : nonneg row -> Forall nonneg M -> nonneg (mix_row T row M).
Proof.
  revert M; induction row as [|r row IH]; intros [|m M] Hr HM; simpl.
  - unfold nonneg. apply Forall_forall. intros x Hx. apply repeat_spec in Hx. subst. lra.
  - unfold nonneg. apply Forall_forall. intros x Hx. apply repeat_spec in Hx. subst. lra.
  - unfold nonneg. apply Forall_forall. intros x Hx. apply repeat_spec in Hx. subst. lra.
  - inversion Hr as [|? ? Hr0 Hr']; inversion HM as [|? ? Hm HM']; subst.
    apply qadd2_nonneg; [|apply IH; assumption].
    unfold nonneg in *. rewrite Forall_forall in *. intros y Hy. apply in_map_iff in Hy.
    destruct Hy as [v [<- Hv]]. apply Qmult_le_0_compat; [assumption|apply Hm; assumption].
Qed.

Lemma mix_row_simplex T row M : length row = length M -> simplex row ->
  Forall (fun m => length m = T /\ simplex m) M -> simplex (mix_row T row M).
Proof.
  intros HL [Hn Hs] HM. split.
  - apply mix_row_nonneg; [assumption|]. eapply Forall_impl; [|exact HM]. intros a [_ [Ha _]]. exact Ha.
  - rewrite mix_row_sum; [exact Hs|exact HL|].
    eapply Forall_impl; [|exact HM]. intros a [Ha [_ Hb]]. split; assumption.
Qed.

(* ------------------------------------------------------------------ dkl_gaussian *)
Section DklRing.
  Variable R : Type.
  Variables (r0 r1 : R) (radd rmul rsub : R -> R -> R) (ropp : R -> R).
  Hypothesis Rth : ring_theory r0 r1 radd rmul rsub ropp (@eq R).
  Add Ring Rr2 : Rth.

  Lemma dkl_model_is_textbook half LOGR dimR dim m1 S1 m2 P2 : rows_len dim P2 ->
    dkl_gaussian_model R r0 radd rmul rsub half LOGR dimR dim m1 S1 m2 P2
    = dkl_gaussian_textbook R r0 radd rmul rsub half LOGR dimR m1 S1 m2 P2.
  Proof.
    intros HP. unfold dkl_gaussian_model, dkl_gaussian_textbook.
    rewrite (quad_two_impls R r0 r1 radd rmul rsub ropp Rth dim m1 m2 P2 HP).
    unfold quad_colwise. ring.
  Qed.
End DklRing.

(* ------------------------------------------------------------------ dkl_wishart *)
Lemma dkl_wishart_code_is_textbook a1 a2 dim LD1 LD2 L2 lgc G1 G2 PS1 PS2 TR :
  src_dkl_wishart a1 a2 dim LD1 LD2 L2 lgc G1 G2 PS1 PS2 TR
  == dkl_wishart_textbook a1 a2 dim LD1 LD2 lgc G1 G2 PS1 TR.
Proof. unfold src_dkl_wishart, dkl_wishart_textbook. field. Qed.

From Coq Require Import Reals Lra.
Open Scope R_scope.
(* dimension one, covariance form: with p_i = 1/s_i^2 the code's expression
   (ln(p1/p2) + p2/p1 - 1 + (m1-m2)^2 p2)/2 is the textbook
   ln(s2/s1) + (s1^2 + (m1-m2)^2)/(2 s2^2) - 1/2 *)
Lemma dkl_gaussian_1d (m1 m2 s1 s2 : R) : 0 < s1 -> 0 < s2 ->
  let p1 := / (s1 * s1) in let p2 := / (s2 * s2) in
  (ln (p1 / p2) + p2 * / p1 - 1 + (m1 - m2) * p2 * (m1 - m2)) / 2
  = ln (s2 / s1) + (s1 * s1 + (m1 - m2) * (m1 - m2)) / (2 * (s2 * s2)) - 1 / 2.
Proof.
  intros H1 H2 p1 p2. unfold p1, p2.
  assert (E : / (s1 * s1) / / (s2 * s2) = (s2 / s1) * (s2 / s1)) by (field; split; lra).
  assert (Hq : 0 < s2 / s1) by (apply Rdiv_lt_0_compat; assumption).
  rewrite E, ln_mult by assumption. field. split; lra.
Qed.
