(* C13 - proofs, part 3: the two loop orders of the Gaussian quadratic form
   agree (any commutative ring); the code's log-density expression is the
   Gaussian density (Coq reals); BIC parameter count. *)
From Coq Require Import List Arith Lia Ring ZArith.
From NV.Lib Require Import RingMat.
From NV.Generated Require Import GmmFrags.
From NV.C13 Require Import Model.
Import ListNotations.

Section QF.
  Variable R : Type.
  Variables (r0 r1 : R) (radd rmul rsub : R -> R -> R) (ropp : R -> R).
  Hypothesis Rth : ring_theory r0 r1 radd rmul rsub ropp (@eq R).
  Add Ring Rr : Rth.

  Lemma vsub_swap m x : vsub R rsub m x = map ropp (vsub R rsub x m).
  Proof.
    revert x; induction m as [|a m IH]; intros [|b x]; simpl; try reflexivity.
    f_equal; [ring|apply IH].
  Qed.

  Lemma dot_opp_l a b : dot r0 radd rmul (map ropp a) b = ropp (dot r0 radd rmul a b).
  Proof.
    revert b; induction a as [|x a IH]; intros [|y b]; simpl; try ring.
    rewrite IH. ring.
  Qed.

  Lemma dot_opp_r a b : dot r0 radd rmul a (map ropp b) = ropp (dot r0 radd rmul a b).
  Proof.
    revert b; induction a as [|x a IH]; intros [|y b]; simpl; try ring.
    rewrite IH. ring.
  Qed.

  Lemma mv_opp B d : mv r0 radd rmul B (map ropp d) = map ropp (mv r0 radd rmul B d).
  Proof.
    unfold mv. rewrite map_map. apply map_ext. intros r. apply dot_opp_r.
  Qed.

  Lemma quad_two_impls dim m x B :
    rows_len dim B -> quad_rowwise R r0 radd rmul rsub dim m x B = quad_colwise R r0 radd rmul rsub m x B.
  Proof.
    intros HB. unfold quad_rowwise, quad_colwise.
    rewrite (dot_vm R r0 r1 radd rmul rsub ropp Rth dim _ B _ HB).
    rewrite (vsub_swap m x), mv_opp, dot_opp_l, dot_opp_r. ring.
  Qed.

  Lemma quad_diag_two_impls m x b :
    quad_diag_rowwise R r0 radd rmul rsub m x b = quad_diag_colwise R r0 radd rmul rsub m x b.
  Proof. unfold quad_diag_rowwise, quad_diag_colwise. apply (dot_comm R r0 r1 radd rmul rsub ropp Rth). Qed.
End QF.

(* ------------------------------------------------------------------ BIC *)
From Coq Require Import QArith Lqa.
Lemma bic_diag_count (k dim : Q) : (src_bic_eta_diag k dim == free_params_diag k dim)%Q.
Proof. unfold src_bic_eta_diag, free_params_diag. ring. Qed.

Lemma bic_full_count (k dim : Q) : (src_bic_eta_full k dim == free_params_full k dim)%Q.
Proof. unfold src_bic_eta_full, free_params_full. field. Qed.

(* ------------------------------------------------------------------ reals *)
From Coq Require Import Reals Lra.
Open Scope R_scope.

Lemma sqrt_exp_half y : 0 < y -> sqrt y = exp (ln y / 2).
Proof.
  intros Hy. apply sqrt_lem_1; [lra|left; apply exp_pos|].
  rewrite <- exp_plus. replace (ln y / 2 + ln y / 2) with (ln y) by lra. apply exp_ln. assumption.
Qed.

Lemma ln_pow_nat x (n : nat) : 0 < x -> ln (x ^ n) = INR n * ln x.
Proof.
  intros Hx. induction n as [|n IH].
  - simpl. rewrite ln_1. ring.
  - change (x ^ S n) with (x * x ^ n). rewrite ln_mult; [|assumption|apply pow_lt; assumption].
    rewrite IH, S_INR. ring.
Qed.

(* gmm.py: w = -log(2 pi)*dim; w += LOGDET; w -= q; w /= 2; like = exp(w) *)
Lemma gauss_logdensity (d : nat) (detP q LOGDET L2PI : R) :
  0 < detP -> LOGDET = ln detP -> L2PI = ln (2 * PI) ->
  exp (((- L2PI * INR d + LOGDET) - q) / 2) = sqrt (detP / (2 * PI) ^ d) * exp (- q / 2).
Proof.
  intros Hd -> ->.
  assert (H2 : 0 < 2 * PI) by (pose proof PI_RGT_0; lra).
  assert (Hp : 0 < (2 * PI) ^ d) by (apply pow_lt; assumption).
  assert (Hy : 0 < detP / (2 * PI) ^ d) by (apply Rdiv_lt_0_compat; assumption).
  rewrite (sqrt_exp_half _ Hy). rewrite <- exp_plus. f_equal.
  assert (E : ln (detP / (2 * PI) ^ d) = ln detP - INR d * ln (2 * PI)).
  { unfold Rdiv. rewrite ln_mult; [|assumption|apply Rinv_0_lt_compat; assumption].
    rewrite ln_Rinv by assumption. rewrite ln_pow_nat by assumption. ring. }
  rewrite E. lra.
Qed.

(* bgmm.normal_eval: w0 = (log(dP) - dim*log(2 pi))/2; w = w0 - q/2; exp(w) *)
Lemma normal_eval_density (d : nat) (dP q : R) : 0 < dP ->
  exp ((ln dP - INR d * ln (2 * PI)) / 2 - q / 2) = sqrt (dP / (2 * PI) ^ d) * exp (- q / 2).
Proof.
  intros Hd. rewrite <- (gauss_logdensity d dP q (ln dP) (ln (2 * PI)) Hd eq_refl eq_refl).
  f_equal. lra.
Qed.

(* the density has the right total mass in dimension one is NOT proved (needs integration);
   what is proved: precision <-> covariance and the sign of the log-determinant matter:
   with covariance S = 1/P in dimension one the expression is the textbook N(m, S) density. *)
Lemma gauss_1d_textbook (P dx : R) : 0 < P ->
  sqrt (P / (2 * PI) ^ 1) * exp (- (dx * P * dx) / 2) = / sqrt (2 * PI * / P) * exp (- (dx * dx) / (2 * / P)).
Proof.
  intros HP. assert (H2 : 0 < 2 * PI) by (pose proof PI_RGT_0; lra).
  f_equal.
  - replace (P / (2 * PI) ^ 1) with (/ (2 * PI * / P)) by (field; lra).
    apply sqrt_inv.
  - f_equal. field. lra.
Qed.
