(* C13 - proofs, part 2: the mean-field update of mrf.c (ve_step / _ngb_integrate):
   every index dereferenced is inside the ppm buffer, both normalisation
   branches give a point of the simplex, and after the whole in-place sweep
   every visited voxel holds a point of the simplex. *)
From Coq Require Import List Bool ZArith QArith Qabs Lia ZifyBool Lqa.
From NV.Generated Require Import MrfTables.
From NV.C13 Require Import Model Proofs1.
Import ListNotations.
Open Scope Q_scope.

(* ------------------------------------------------------------------ ranges *)
Lemma zrange_in n k : In k (zrange n) <-> (0 <= k < n)%Z.
Proof.
  unfold zrange. rewrite in_map_iff. split.
  - intros [i [<- Hi]]. apply in_seq in Hi. lia.
  - intros H. exists (Z.to_nat k). split; [lia|]. apply in_seq. lia.
Qed.

Lemma zrange_length n : length (zrange n) = Z.to_nat n.
Proof. unfold zrange. rewrite map_length, seq_length. reflexivity. Qed.

(* ------------------------------------------------------------------ reads *)
Lemma valid_pos_bounds g ngb v pos :
  In pos (valid_pos g ngb v) -> (0 <= pos <= g_posmax g)%Z.
Proof.
  unfold valid_pos. rewrite filter_In. intros [_ H]. unfold src_reject in H. lia.
Qed.

Lemma posmax_total g : (g_posmax g + gk g = g_total g)%Z.
Proof. unfold g_posmax, g_total, g_u1, g_u2, src_posmax, src_u1, src_u2. ring. Qed.

(* for ANY grid, neighbourhood table and voxel (even outside the grid) *)
Lemma reads_in_bounds g ngb v i :
  In i (reads g ngb v) -> (0 <= i < g_total g)%Z.
Proof.
  unfold reads. rewrite in_flat_map. intros [pos [Hp Hi]].
  apply valid_pos_bounds in Hp. apply in_map_iff in Hi. destruct Hi as [kk [<- Hk]].
  apply zrange_in in Hk. pose proof (posmax_total g). lia.
Qed.

Definition grid_ok (g : grid) : Prop := (0 < gx g /\ 0 < gy g /\ 0 < gz g /\ 0 < gk g)%Z.
Definition in_grid (g : grid) (v : vox) : Prop :=
  let '(x, y, z) := v in (0 <= x < gx g /\ 0 <= y < gy g /\ 0 <= z < gz g)%Z.
Definition vidx (g : grid) (v : vox) : Z := let '(x, y, z) := v in ((x * gy g + y) * gz g + z)%Z.

Lemma wpos_idx g v : wpos g v = (gk g * vidx g v)%Z.
Proof.
  destruct v as [[x y] z]. unfold wpos, vidx, src_wpos, g_u1, g_u2, src_u1, src_u2. ring.
Qed.

Lemma vidx_bounds g v : grid_ok g -> in_grid g v -> (0 <= vidx g v < gx g * gy g * gz g)%Z.
Proof.
  destruct v as [[x y] z]. unfold grid_ok, in_grid, vidx. intros [Hx [Hy [Hz Hk]]] [Ix [Iy Iz]].
  assert (A : (0 <= x * gy g + y)%Z) by nia.
  assert (B : (x * gy g + y <= gx g * gy g - 1)%Z) by nia.
  split; [nia|].
  assert (C : ((x * gy g + y) * gz g <= (gx g * gy g - 1) * gz g)%Z) by nia.
  nia.
Qed.

Lemma wpos_bounds g v : grid_ok g -> in_grid g v ->
  (0 <= wpos g v /\ wpos g v + gk g <= g_total g)%Z.
Proof.
  intros Hg Hv. rewrite wpos_idx. pose proof (vidx_bounds g v Hg Hv) as [A B].
  destruct Hg as [Hx [Hy [Hz Hk]]]. unfold g_total. split; [nia|].
  assert (C : (vidx g v + 1 <= gx g * gy g * gz g)%Z) by lia.
  nia.
Qed.

(* the K positions written for an in-grid voxel are inside the buffer *)
Lemma write_in_bounds g v k : grid_ok g -> in_grid g v -> (0 <= k < gk g)%Z ->
  (0 <= wpos g v + k < g_total g)%Z.
Proof. intros Hg Hv Hk. pose proof (wpos_bounds g v Hg Hv). lia. Qed.

(* U is read at k*K + kk with 0 <= k, kk < K: inside the K x K matrix *)
Lemma U_in_bounds K k kk : (0 <= k < K)%Z -> (0 <= kk < K)%Z -> (0 <= k * K + kk < K * K)%Z.
Proof. intros. nia. Qed.

(* two in-grid voxels write the same row or disjoint rows *)
Lemma wpos_same_or_disjoint g v v' : grid_ok g ->
  wpos g v = wpos g v' \/ (wpos g v + gk g <= wpos g v')%Z \/ (wpos g v' + gk g <= wpos g v)%Z.
Proof.
  intros [_ [_ [_ Hk]]]. rewrite !wpos_idx.
  destruct (Z.lt_trichotomy (vidx g v) (vidx g v')) as [H|[H|H]].
  - right. left. nia.
  - left. rewrite H. reflexivity.
  - right. right. nia.
Qed.

(* ------------------------------------------------------------------ both branches *)
Lemma qsum_shift_div l c d :
  qsum (map (fun t => (t + c) / d) l) == (qsum l + inject_Z (Z.of_nat (length l)) * c) / d.
Proof.
  induction l as [|x l IH].
  - simpl. unfold Qdiv. ring.
  - change (qsum (map (fun t => (t + c) / d) (x :: l))) with ((x + c) / d + qsum (map (fun t => (t + c) / d) l)).
    rewrite IH. change (length (x :: l)) with (S (length l)).
    rewrite Nat2Z.inj_succ. unfold Z.succ. rewrite inject_Z_plus.
    change (qsum (x :: l)) with (x + qsum l). unfold Qdiv. ring.
Qed.

Lemma ve_row_simplex tiny K tmp :
  0 < tiny -> (0 < K)%Z -> length tmp = Z.to_nat K -> nonneg tmp -> simplex (ve_row tiny K tmp).
Proof.
  intros Ht HK Hlen Hnn. unfold ve_row.
  pose proof (qsum_nonneg tmp Hnn) as Hs.
  destruct (src_norm_cond (qsum tmp) tiny) eqn:E; unfold src_norm_cond in E.
  - (* psum > TINY *)
    assert (Hlt : tiny < qsum tmp).
    { apply Qnot_le_lt. intros H. apply Qle_bool_iff in H. rewrite H in E. discriminate. }
    unfold src_norm_main. apply normalize_simplex; [assumption|lra].
  - (* psum <= TINY *)
    assert (HKq : 0 < inject_Z K).
    { change 0 with (inject_Z 0). rewrite <- Zlt_Qlt. assumption. }
    unfold src_norm_tiny. split.
    + unfold nonneg in *. rewrite Forall_forall in *. intros y Hy.
      apply in_map_iff in Hy. destruct Hy as [t [<- Hin]]. specialize (Hnn t Hin).
      apply div_nonneg; [|lra].
      assert (0 <= tiny / inject_Z K) by (apply div_nonneg; lra). lra.
    + rewrite qsum_shift_div. rewrite Hlen. rewrite Z2Nat.id by lia. field. split; lra.
Qed.

Lemma ve_row_length tiny K tmp : length (ve_row tiny K tmp) = length tmp.
Proof. unfold ve_row. destruct (src_norm_cond _ _); apply map_length. Qed.

(* ------------------------------------------------------------------ splice *)
Section Splice.
  Variable A : Type.
  Definition wr (l : list A) (a : nat) (row : list A) : list A :=
    firstn a l ++ row ++ skipn (a + length row) l.
  Definition rd (l : list A) (a n : nat) : list A := firstn n (skipn a l).

  Lemma wr_length l a row : (a + length row <= length l)%nat -> length (wr l a row) = length l.
  Proof.
    intros H. unfold wr. rewrite !app_length, firstn_length_le, skipn_length by lia. lia.
  Qed.

  Lemma rd_wr_same l a row : (a <= length l)%nat -> rd (wr l a row) a (length row) = row.
  Proof.
    intros H. unfold rd, wr. rewrite skipn_app, firstn_length_le by lia.
    rewrite skipn_all2 by (rewrite firstn_length_le; lia).
    rewrite Nat.sub_diag. simpl. rewrite firstn_app, Nat.sub_diag, firstn_all. simpl.
    apply app_nil_r.
  Qed.

  Lemma rd_wr_before l a row b n : (a + length row <= length l)%nat -> (b + n <= a)%nat ->
    rd (wr l a row) b n = rd l b n.
  Proof.
    intros H Hb. unfold rd, wr. rewrite skipn_app, firstn_length_le by lia.
    replace (b - a)%nat with 0%nat by lia. simpl.
    rewrite firstn_app. rewrite skipn_length, firstn_length_le by lia.
    replace (n - (a - b))%nat with 0%nat by lia. simpl. rewrite app_nil_r.
    rewrite skipn_firstn_comm, firstn_firstn. f_equal. lia.
  Qed.

  Lemma skipn_skipn' (x y : nat) (l : list A) : skipn x (skipn y l) = skipn (y + x) l.
  Proof.
    revert l; induction y as [|y IH]; intros l; simpl; [reflexivity|].
    destruct l as [|h l]; [rewrite !skipn_nil; reflexivity|]. apply IH.
  Qed.

  Lemma rd_wr_after l a row b n : (a + length row <= length l)%nat -> (a + length row <= b)%nat ->
    rd (wr l a row) b n = rd l b n.
  Proof.
    intros H Hb. unfold rd, wr. rewrite skipn_app, firstn_length_le by lia.
    rewrite skipn_all2 by (rewrite firstn_length_le; lia). simpl.
    rewrite skipn_app. rewrite skipn_all2 by lia. simpl.
    rewrite skipn_skipn'. f_equal. f_equal. lia.
  Qed.
End Splice.

Lemma write_row_wr l pos row : write_row l pos row = wr Q l (Z.to_nat pos) row.
Proof. reflexivity. Qed.
Lemma read_row_rd l pos K : read_row l pos K = rd Q l (Z.to_nat pos) (Z.to_nat K).
Proof. reflexivity. Qed.

(* ------------------------------------------------------------------ one voxel *)
Lemma qadd2_length a b : length (qadd2 a b) = Nat.min (length a) (length b).
Proof. revert b; induction a as [|x a IH]; intros [|y b]; simpl; auto. Qed.
Lemma qmul2_length a b : length (qmul2 a b) = Nat.min (length a) (length b).
Proof. revert b; induction a as [|x a IH]; intros [|y b]; simpl; auto. Qed.

Lemma integrate_length g U ppm ngb v : length (integrate g U ppm ngb v) = Z.to_nat (gk g).
Proof.
  unfold integrate.
  assert (H : forall ps res, length res = Z.to_nat (gk g) ->
            length (fold_left (fun res pos => qadd2 res (map (uq g U ppm pos) (zrange (gk g)))) ps res)
            = Z.to_nat (gk g)).
  { induction ps as [|p ps IH]; intros res Hres; simpl; [assumption|].
    apply IH. rewrite qadd2_length, map_length, zrange_length, Hres. apply Nat.min_id. }
  apply H. apply repeat_length.
Qed.

Section Sweep.
  Variable EXP : Q -> Q.
  Hypothesis EXP_nonneg : forall x, 0 <= EXP x.   (* contract of libm exp (may underflow to 0) *)
  Variables (beta tiny : Q) (g : grid) (U : list Q) (ngb : list vox).
  Hypothesis tiny_pos : 0 < tiny.
  Hypothesis Hg : grid_ok g.

  Lemma gk_pos : (0 < gk g)%Z.
  Proof. destruct Hg as [_ [_ [_ Hk]]]. exact Hk. Qed.

  Definition good_pt (p : vox * list Q) : Prop :=
    in_grid g (fst p) /\ nonneg (snd p) /\ length (snd p) = Z.to_nat (gk g).

  Lemma ve_tmp_ok ppm v r : nonneg r -> length r = Z.to_nat (gk g) ->
    nonneg (ve_tmp EXP beta g U ngb ppm v r) /\ length (ve_tmp EXP beta g U ngb ppm v r) = Z.to_nat (gk g).
  Proof.
    intros Hr Hl. unfold ve_tmp. split.
    - apply qmul2_nonneg; [|assumption]. unfold nonneg. rewrite Forall_forall. intros y Hy.
      apply in_map_iff in Hy. destruct Hy as [b [<- _]]. apply EXP_nonneg.
    - rewrite qmul2_length, map_length, integrate_length, Hl. apply Nat.min_id.
  Qed.

  Lemma new_row_ok ppm v r : nonneg r -> length r = Z.to_nat (gk g) ->
    simplex (ve_row tiny (gk g) (ve_tmp EXP beta g U ngb ppm v r)) /\
    length (ve_row tiny (gk g) (ve_tmp EXP beta g U ngb ppm v r)) = Z.to_nat (gk g).
  Proof.
    intros Hr Hl. destruct (ve_tmp_ok ppm v r Hr Hl) as [Hn Hlen]. split.
    - apply ve_row_simplex; auto. destruct Hg as [_ [_ [_ Hk]]]. exact Hk.
    - rewrite ve_row_length. exact Hlen.
  Qed.

  Lemma step_length ppm p : good_pt p -> length ppm = Z.to_nat (g_total g) ->
    length (ve_voxel EXP beta tiny g U ngb ppm (fst p) (snd p)) = Z.to_nat (g_total g).
  Proof.
    intros [Hv [Hr Hl]] Hlen. unfold ve_voxel. rewrite write_row_wr.
    destruct (new_row_ok ppm (fst p) (snd p) Hr Hl) as [_ Hrl].
    pose proof (wpos_bounds g (fst p) Hg Hv) as [B0 B1]. pose proof gk_pos as Hkp.
    rewrite wr_length; [assumption|]. rewrite Hrl, Hlen. lia.
  Qed.

  Lemma step_row ppm p : good_pt p -> length ppm = Z.to_nat (g_total g) ->
    simplex (read_row (ve_voxel EXP beta tiny g U ngb ppm (fst p) (snd p)) (wpos g (fst p)) (gk g)).
  Proof.
    intros [Hv [Hr Hl]] Hlen. unfold ve_voxel. rewrite write_row_wr, read_row_rd.
    destruct (new_row_ok ppm (fst p) (snd p) Hr Hl) as [Hs Hrl].
    pose proof (wpos_bounds g (fst p) Hg Hv) as [B0 B1]. pose proof gk_pos as Hkp.
    rewrite <- Hrl. rewrite rd_wr_same; [assumption|]. rewrite Hlen. lia.
  Qed.

  Lemma step_other ppm p v' : good_pt p -> in_grid g v' -> length ppm = Z.to_nat (g_total g) ->
    simplex (read_row ppm (wpos g v') (gk g)) ->
    simplex (read_row (ve_voxel EXP beta tiny g U ngb ppm (fst p) (snd p)) (wpos g v') (gk g)).
  Proof.
    intros Hp Hv' Hlen Hs.
    destruct (wpos_same_or_disjoint g (fst p) v' Hg) as [E|[D|D]].
    - rewrite <- E. apply step_row; assumption.
    - destruct Hp as [Hv [Hr Hl]].
      destruct (new_row_ok ppm (fst p) (snd p) Hr Hl) as [_ Hrl].
      pose proof (wpos_bounds g (fst p) Hg Hv) as [B0 B1]. pose proof gk_pos as Hkp.
      pose proof (wpos_bounds g v' Hg Hv') as [C0 C1].
      unfold ve_voxel. rewrite write_row_wr, read_row_rd, rd_wr_after; try (rewrite Hrl; lia).
      rewrite <- read_row_rd. assumption.
    - destruct Hp as [Hv [Hr Hl]].
      destruct (new_row_ok ppm (fst p) (snd p) Hr Hl) as [_ Hrl].
      pose proof (wpos_bounds g (fst p) Hg Hv) as [B0 B1]. pose proof gk_pos as Hkp.
      pose proof (wpos_bounds g v' Hg Hv') as [C0 C1].
      unfold ve_voxel. rewrite write_row_wr, read_row_rd, rd_wr_before; try (rewrite ?Hrl; lia).
      rewrite <- read_row_rd. assumption.
  Qed.

  Lemma sweep_length pts : forall ppm, Forall good_pt pts -> length ppm = Z.to_nat (g_total g) ->
    length (ve_sweep EXP beta tiny g U ngb ppm pts) = Z.to_nat (g_total g).
  Proof.
    induction pts as [|p pts IH]; intros ppm Hp Hlen; simpl; [assumption|].
    inversion Hp as [|? ? Hp1 Hp2]; subst. apply IH; [assumption|]. apply step_length; assumption.
  Qed.

  Lemma sweep_preserves pts : forall ppm v', Forall good_pt pts -> in_grid g v' ->
    length ppm = Z.to_nat (g_total g) ->
    simplex (read_row ppm (wpos g v') (gk g)) ->
    simplex (read_row (ve_sweep EXP beta tiny g U ngb ppm pts) (wpos g v') (gk g)).
  Proof.
    induction pts as [|p pts IH]; intros ppm v' Hp Hv' Hlen Hs; simpl; [assumption|].
    inversion Hp as [|? ? Hp1 Hp2]; subst. apply IH; try assumption.
    - apply step_length; assumption.
    - apply step_other; assumption.
  Qed.

  Lemma sweep_simplex pts : forall ppm, Forall good_pt pts -> length ppm = Z.to_nat (g_total g) ->
    forall p, In p pts ->
    simplex (read_row (ve_sweep EXP beta tiny g U ngb ppm pts) (wpos g (fst p)) (gk g)).
  Proof.
    induction pts as [|q pts IH]; intros ppm Hp Hlen p Hin; [destruct Hin|].
    inversion Hp as [|? ? Hp1 Hp2]; subst. simpl. destruct Hin as [->|Hin].
    - apply sweep_preserves; try assumption.
      + destruct Hp1; assumption.
      + apply step_length; assumption.
      + apply step_row; assumption.
    - apply IH; try assumption. apply step_length; assumption.
  Qed.
End Sweep.
