(* C13 - proofs, part 7: Segmentation.vm_step is translation / per-channel scaling
   equivariant, its variances are non-negative and its covariance symmetric. *)
From Coq Require Import List Bool ZArith QArith Qabs Lia Lqa Setoid Morphisms.
From NV.Generated Require Import SegFrags.
From NV.C13 Require Import Model Proofs1 SegModel.
Import ListNotations.
Open Scope Q_scope.

Lemma seg_floor_pos : 0 < seg_floor.
Proof. reflexivity. Qed.

Lemma vm_Z_pos P : 0 < vm_Z P.
Proof.
  unfold vm_Z. pose proof seg_floor_pos as Hf.
  destruct (qmaxb_spec seg_floor (qsum P)) as [[Hle ->]|[_ ->]]; lra.
Qed.

Lemma vm_Z_is_sum P : seg_floor <= qsum P -> vm_Z P == qsum P.
Proof.
  intros H. unfold vm_Z.
  destruct (qmaxb_spec seg_floor (qsum P)) as [[_ ->]|[Hlt ->]]; lra.
Qed.

Lemma dot2_shift c x : forall P, length x = length P -> dot2 (shift c x) P == dot2 x P + c * qsum P.
Proof.
  induction x as [|a x IH]; intros [|w P] Hl; simpl in *; try discriminate; try ring.
  rewrite (IH P) by lia. ring.
Qed.

Lemma dot2_scale c x : forall P, dot2 (scale c x) P == c * dot2 x P.
Proof.
  induction x as [|a x IH]; intros [|w P]; simpl; try ring.
  rewrite (IH P). ring.
Qed.

Lemma dot3_centred_shift ca cb ma mb ma' mb' :
  ma' == ma + ca -> mb' == mb + cb ->
  forall xa P xb,
  dot3 (centred (shift ca xa) ma') P (centred (shift cb xb) mb') == dot3 (centred xa ma) P (centred xb mb).
Proof.
  intros Ha Hb. induction xa as [|a xa IH]; intros [|w P] [|b xb]; simpl; try reflexivity.
  rewrite (IH P xb), Ha, Hb. ring.
Qed.

Lemma dot3_centred_scale ca cb ma mb ma' mb' :
  ma' == ca * ma -> mb' == cb * mb ->
  forall xa P xb,
  dot3 (centred (scale ca xa) ma') P (centred (scale cb xb) mb') == ca * cb * dot3 (centred xa ma) P (centred xb mb).
Proof.
  intros Ha Hb. induction xa as [|a xa IH]; intros [|w P] [|b xb]; simpl; try ring.
  rewrite (IH P xb), Ha, Hb. ring.
Qed.

Lemma dot3_sym : forall a P b, dot3 a P b == dot3 b P a.
Proof.
  induction a as [|x a IH]; intros [|w P] [|y b]; simpl; try reflexivity.
  rewrite (IH P b). ring.
Qed.

Lemma dot3_nonneg : forall a P, nonneg P -> 0 <= dot3 a P a.
Proof.
  induction a as [|x a IH]; intros [|w P] H; simpl; try lra.
  inversion H as [|? ? Hw HP]; subst. specialize (IH P HP).
  assert (0 <= x * w * x) by nra. lra.
Qed.

(* ---- means *)
Lemma vm_mu_translation P x c :
  length x = length P -> seg_floor <= qsum P -> vm_mu P (shift c x) == vm_mu P x + c.
Proof.
  intros Hl Hs. unfold vm_mu. rewrite (dot2_shift c x P Hl).
  pose proof (vm_Z_is_sum P Hs) as HZ. pose proof (vm_Z_pos P) as Hp.
  rewrite <- HZ. field. lra.
Qed.

Lemma vm_mu_scaling P x c : vm_mu P (scale c x) == c * vm_mu P x.
Proof.
  unfold vm_mu. rewrite dot2_scale. pose proof (vm_Z_pos P) as Hp. field. lra.
Qed.

(* ---- covariances *)
Lemma vm_cov_translation P xa xb ca cb :
  length xa = length P -> length xb = length P -> seg_floor <= qsum P ->
  vm_cov P (shift ca xa) (shift cb xb) == vm_cov P xa xb.
Proof.
  intros Ha Hb Hs. unfold vm_cov.
  rewrite (dot3_centred_shift ca cb (vm_mu P xa) (vm_mu P xb) _ _
             (vm_mu_translation P xa ca Ha Hs) (vm_mu_translation P xb cb Hb Hs)).
  reflexivity.
Qed.

Lemma vm_cov_scaling P xa xb ca cb :
  vm_cov P (scale ca xa) (scale cb xb) == ca * cb * vm_cov P xa xb.
Proof.
  unfold vm_cov.
  rewrite (dot3_centred_scale ca cb (vm_mu P xa) (vm_mu P xb) _ _
             (vm_mu_scaling P xa ca) (vm_mu_scaling P xb cb)).
  pose proof (vm_Z_pos P) as Hp. field. lra.
Qed.

Lemma vm_cov_sym P xa xb : vm_cov P xa xb == vm_cov P xb xa.
Proof. unfold vm_cov. rewrite dot3_sym. reflexivity. Qed.

Lemma vm_var_nonneg P x : nonneg P -> 0 <= vm_cov P x x.
Proof.
  intros H. unfold vm_cov. apply div_nonneg; [apply dot3_nonneg; assumption|apply vm_Z_pos].
Qed.

(* relabelling the classes = permuting the weight columns: the fitted parameters are permuted *)
Lemma vm_step_relabel (f : nat -> nat) cols chans idx :
  vm_step_model (map (fun j => nth (f j) cols []) idx) chans =
  map (fun j => nth (f j) (vm_step_model cols chans) (vm_class [] chans)) idx.
Proof.
  unfold vm_step_model. rewrite map_map. apply map_ext. intros j.
  rewrite <- (map_nth (fun P => vm_class P chans)). reflexivity.
Qed.

(* ---- normalized_external_field, whole matrix, with the shift the source uses *)
Lemma nef_matrix_is_per_voxel EXP lef : nef_matrix EXP lef = map (nef_row EXP) lef.
Proof.
  unfold nef_matrix, nef_shift_of. change src_nef_shift with NefShiftPerVoxel. cbv iota. reflexivity.
Qed.

Lemma nef_matrix_rows_simplex (EXP : Q -> Q) lef :
  (forall x, 0 <= EXP x) -> (forall x, x == 0 -> EXP x == 1) -> Forall (fun row => row <> []) lef ->
  Forall simplex (nef_matrix EXP lef).
Proof.
  intros HE H1 Hne. rewrite nef_matrix_is_per_voxel. apply Forall_forall. intros r Hr.
  apply in_map_iff in Hr. destruct Hr as [row [<- Hin]].
  rewrite Forall_forall in Hne. apply nef_row_simplex; auto.
Qed.

(* a voxel's row does not depend on the other voxels of the image *)
Lemma nef_matrix_row_local EXP lef i :
  nth i (nef_matrix EXP lef) [] = nef_row EXP (nth i lef []).
Proof.
  rewrite nef_matrix_is_per_voxel.
  change (@nil Q) with (nef_row EXP []) at 1. apply map_nth.
Qed.
