(* C10 - lemmas about the term algebra (formulae.py) *)
From Coq Require Import List Bool ZArith Lia.
From NV.C10 Require Import Model.
Import ListNotations.
Open Scope Z_scope.

Lemma zpow_add : forall x a b, zpow x (a + b) = zpow x a * zpow x b.
Proof. intros x a b; induction a as [|a IH]; cbn [Nat.add zpow]; [ring|]. rewrite IH. ring. Qed.

Lemma meval_mmul : forall a b v, meval (mmul a b) v = meval a v * meval b v.
Proof.
  induction a as [|x a IH]; intros b v.
  - cbn [mmul]. destruct b, v; cbn [meval]; ring.
  - destruct b as [|y b]; cbn [mmul].
    + destruct v; cbn [meval]; ring.
    + destruct v as [|z v]; cbn [meval]; [ring|]. rewrite IH, zpow_add. ring.
Qed.

Lemma mmul_comm : forall a b, mmul a b = mmul b a.
Proof.
  induction a as [|x a IH]; intros [|y b]; cbn [mmul]; try reflexivity.
  now rewrite IH, Nat.add_comm.
Qed.

Lemma meval_mone : forall n v, meval (mone n) v = 1.
Proof.
  induction n as [|n IH]; intros v; cbn [mone repeat meval]; [reflexivity|].
  destruct v; [reflexivity|]. cbn [zpow]. fold (mone n). rewrite IH. ring.
Qed.

Lemma meval_unit_from : forall v s i, (s <= i < s + length v)%nat ->
  meval (map (fun j => if Nat.eqb j i then 1%nat else O) (seq s (length v))) v = nth (i - s) v 0.
Proof.
  induction v as [|x v IH]; intros s i H; cbn [length] in H; [lia|].
  cbn [length seq map meval]. destruct (Nat.eqb s i) eqn:E.
  - apply Nat.eqb_eq in E. subst i. rewrite Nat.sub_diag. cbn [nth zpow].
    assert (G : forall w t, (s < t)%nat ->
              meval (map (fun j => if Nat.eqb j s then 1%nat else O) (seq t (length w))) w = 1).
    { induction w as [|y w IHw]; intros t Ht; [reflexivity|]. cbn [length seq map meval].
      destruct (Nat.eqb t s) eqn:E2; [apply Nat.eqb_eq in E2; lia|]. cbn [zpow].
      rewrite IHw by lia. ring. }
    rewrite G by lia. ring.
  - apply Nat.eqb_neq in E. cbn [zpow]. rewrite IH by lia.
    replace (i - s)%nat with (S (i - S s)) by lia. cbn [nth]. ring.
Qed.

Lemma meval_munit : forall v i, (i < length v)%nat -> meval (munit (length v) i) v = nth i v 0.
Proof.
  intros v i H. unfold munit. rewrite meval_unit_from by lia. now rewrite Nat.sub_0_r.
Qed.

(* ---------------- design ---------------- *)
Lemma dcol_count : forall ts m vals,
  dcol ts m vals = Z.of_nat (count_occ mon_dec ts m) * meval m vals.
Proof.
  intros ts m vals; induction ts as [|t ts IH]; unfold dcol; cbn [map zsum fold_right count_occ].
  - ring.
  - fold (zsum (map (fun m' : mon => if mon_dec m' m then meval m' vals else 0) ts)).
    fold (dcol ts m vals). rewrite IH.
    destruct (mon_dec t m) as [->|N].
    + rewrite Nat2Z.inj_succ. ring.
    + ring.
Qed.

Lemma design_entry_denotes : forall atoms ts data k m col,
  In (k, m, col) (design_terms atoms ts data) ->
  In m ts /\ k = Z.of_nat (count_occ mon_dec ts m) /\ (1 <= k) /\
  col = map (fun row => k * meval m (map (atomval row) atoms)) data.
Proof.
  intros atoms ts data k m col H. unfold design_terms in H. apply in_map_iff in H.
  destruct H as [m' [E Hin]]. inversion E; subst. apply nodup_In in Hin.
  split; [exact Hin|]. split; [reflexivity|]. split.
  - apply (count_occ_In mon_dec) in Hin. lia.
  - apply map_ext. intros row. apply dcol_count.
Qed.

Lemma design_covers_terms : forall atoms ts data m, In m ts ->
  exists k col, In (k, m, col) (design_terms atoms ts data).
Proof.
  intros atoms ts data m H. unfold design_terms. do 2 eexists.
  apply in_map_iff. exists m. split; [reflexivity|]. now apply nodup_In.
Qed.

Lemma design_terms_nodup : forall atoms ts data, NoDup ts ->
  design_terms atoms ts data = map (fun m => (1, m, term_column atoms m data)) ts.
Proof.
  intros atoms ts data N. unfold design_terms. rewrite (nodup_fixed_point mon_dec N).
  apply map_ext_in. intros m Hm.
  assert (C : count_occ mon_dec ts m = 1%nat).
  { apply (proj1 (NoDup_count_occ' mon_dec ts) N). exact Hm. }
  rewrite C. f_equal. unfold term_column. apply map_ext. intros row.
  rewrite dcol_count, C. ring.
Qed.

Lemma NoDup_app_l : forall (A : Type) (a b : list A), NoDup (a ++ b) -> NoDup a.
Proof.
  intros A a b; induction a as [|x a IH]; intros N; [constructor|].
  cbn [app] in N. inversion N as [|x' l' Nx Nr]; subst. constructor.
  - intro H. apply Nx. apply in_or_app. now left.
  - now apply IH.
Qed.
Lemma NoDup_app_r : forall (A : Type) (a b : list A), NoDup (a ++ b) -> NoDup b.
Proof.
  intros A a b; induction a as [|x a IH]; intros N; [exact N|].
  cbn [app] in N. inversion N; subst. now apply IH.
Qed.

Lemma design_add_nodup : forall atoms a b data, NoDup (fadd a b) ->
  design_terms atoms (fadd a b) data = design_terms atoms a data ++ design_terms atoms b data.
Proof.
  intros atoms a b data N. unfold fadd in *.
  rewrite (design_terms_nodup _ _ _ N), map_app.
  rewrite (design_terms_nodup atoms a data (NoDup_app_l _ _ _ N)).
  rewrite (design_terms_nodup atoms b data (NoDup_app_r _ _ _ N)). reflexivity.
Qed.

(* ---------------- products ---------------- *)
Lemma fprod_nodup : forall a b, NoDup (fprod a b).
Proof. intros. apply NoDup_nodup. Qed.

Lemma fprod_in : forall a b m,
  In m (fprod a b) <-> exists s o, In s a /\ In o b /\ m = mmul s o.
Proof.
  intros a b m. unfold fprod. rewrite nodup_In, in_flat_map. split.
  - intros [s [Hs Hm]]. apply in_map_iff in Hm. destruct Hm as [o [<- Ho]]. now exists s, o.
  - intros [s [o [Hs [Ho ->]]]]. exists s. split; [exact Hs|]. apply in_map_iff. now exists o.
Qed.

Lemma term_column_mmul : forall atoms s o data,
  term_column atoms (mmul s o) data
  = map (fun row => meval s (map (atomval row) atoms) * meval o (map (atomval row) atoms)) data.
Proof. intros. unfold term_column. apply map_ext. intros row. apply meval_mmul. Qed.

(* ---------------- subtraction ---------------- *)
Lemma mon_in_iff : forall m l, mon_in m l = true <-> In m l.
Proof. intros m l. unfold mon_in. destruct (in_dec mon_dec m l); split; intros; congruence || assumption || reflexivity. Qed.

Lemma fsub_in : forall a b m, In m (fsub a b) <-> In m a /\ ~ In m b.
Proof.
  intros a b m. unfold fsub. rewrite filter_In. rewrite negb_true_iff.
  split; intros [H1 H2]; split; try exact H1.
  - intro H. apply mon_in_iff in H. congruence.
  - destruct (mon_in m b) eqn:E; [apply mon_in_iff in E; contradiction|reflexivity].
Qed.

Lemma fsub_nodup : forall a b, NoDup a -> NoDup (fsub a b).
Proof. intros. unfold fsub. now apply NoDup_filter. Qed.

(* filter keeps the relative order: fsub a b is a[i1], a[i2], ... with i1 < i2 < ... *)
Inductive subseq {A : Type} : list A -> list A -> Prop :=
| sub_nil : forall l, subseq [] l
| sub_take : forall x s l, subseq s l -> subseq (x :: s) (x :: l)
| sub_skip : forall x s l, subseq s l -> subseq s (x :: l).

Lemma fsub_subseq : forall a b, subseq (fsub a b) a.
Proof.
  intros a b; induction a as [|x a IH]; unfold fsub; cbn [filter]; [constructor|].
  destruct (negb (mon_in x b)); [apply sub_take|apply sub_skip]; exact IH.
Qed.

(* ---------------- Factor ---------------- *)
Lemma factor_row_atoms : forall c levels row,
  map (atomval row) (map (ALev c) levels) = factor_row levels (nth c row 0).
Proof. intros. unfold factor_row. rewrite map_map. reflexivity. Qed.

Lemma factor_row_01 : forall levels v, Forall (fun x => x = 0 \/ x = 1) (factor_row levels v).
Proof.
  intros levels v. unfold factor_row. apply Forall_forall. intros x H. apply in_map_iff in H.
  destruct H as [l [<- _]]. destruct (Z.eqb v l); auto.
Qed.

Lemma factor_row_zero : forall levels v, ~ In v levels -> zsum (factor_row levels v) = 0.
Proof.
  induction levels as [|l levels IH]; intros v H; [reflexivity|].
  unfold factor_row. cbn [map zsum fold_right]. fold (zsum (map (fun l0 => if Z.eqb v l0 then 1 else 0) levels)).
  fold (factor_row levels v). rewrite IH by (intro G; apply H; now right).
  destruct (Z.eqb v l) eqn:E; [apply Z.eqb_eq in E; subst; exfalso; apply H; now left|reflexivity].
Qed.

Lemma factor_row_sum : forall levels v, NoDup levels -> In v levels -> zsum (factor_row levels v) = 1.
Proof.
  induction levels as [|l levels IH]; intros v N H; [contradiction|].
  inversion N as [|l' ls Nl Nr]; subst.
  unfold factor_row. cbn [map zsum fold_right]. fold (zsum (map (fun l0 => if Z.eqb v l0 then 1 else 0) levels)).
  fold (factor_row levels v).
  destruct (Z.eqb v l) eqn:E.
  - apply Z.eqb_eq in E. subst l. rewrite factor_row_zero by exact Nl. reflexivity.
  - apply Z.eqb_neq in E. destruct H as [H|H]; [congruence|]. rewrite IH by assumption. reflexivity.
Qed.

(* the design of Factor(c, levels) over the universe of exactly its level atoms *)
Lemma factor_design : forall c levels data, NoDup (map (munit (length levels)) (seq 0 (length levels))) ->
  design (map (ALev c) levels) (EAtoms true (seq 0 (length levels))) data
  = match levels with
    | [] => None
    | _ => Some (map (fun i => (1, munit (length levels) i,
                                map (fun row => nth i (factor_row levels (nth c row 0)) 0) data))
                     (seq 0 (length levels)))
    end.
Proof.
  intros c levels data N. unfold design. cbn [feval terms]. rewrite map_length.
  destruct levels as [|l0 ls] eqn:EL; [reflexivity|]. rewrite <- EL in *.
  assert (NE : map (munit (length levels)) (seq 0 (length levels)) <> []).
  { rewrite EL. cbn [length seq map]. discriminate. }
  destruct (map (munit (length levels)) (seq 0 (length levels))) as [|t ts] eqn:ET; [congruence|].
  rewrite <- ET in *. rewrite (design_terms_nodup _ _ _ N). rewrite map_map. f_equal.
  apply map_ext_in. intros i Hi. apply in_seq in Hi. f_equal. unfold term_column.
  apply map_ext. intros row. rewrite factor_row_atoms.
  assert (L : length (factor_row levels (nth c row 0)) = length levels)
    by (unfold factor_row; now rewrite map_length).
  rewrite <- L. apply meval_munit. lia.
Qed.

Lemma nth_map_lt : forall (A B : Type) (h : A -> B) l k d d', (k < length l)%nat ->
  nth k (map h l) d = h (nth k l d').
Proof.
  intros A B h l; induction l as [|a l IH]; intros k d d' H; cbn [length] in H; [lia|].
  destruct k; cbn [map nth]; [reflexivity|]. apply IH. lia.
Qed.

Lemma munit_inj : forall n i j, (i < n)%nat -> munit n i = munit n j -> i = j.
Proof.
  intros n i j Hi E. unfold munit in E.
  assert (G : nth i (map (fun k => if Nat.eqb k i then 1%nat else 0%nat) (seq 0 n)) 0%nat = 1%nat).
  { rewrite (nth_map_lt _ _ _ _ _ _ 0%nat) by (now rewrite seq_length).
    rewrite seq_nth by assumption. cbn [Nat.add]. now rewrite Nat.eqb_refl. }
  rewrite E in G.
  rewrite (nth_map_lt _ _ _ _ _ _ 0%nat) in G by (now rewrite seq_length).
  rewrite seq_nth in G by assumption. cbn [Nat.add] in G.
  destruct (Nat.eqb i j) eqn:Eij; [now apply Nat.eqb_eq|discriminate].
Qed.

Lemma munit_nodup : forall n, NoDup (map (munit n) (seq 0 n)).
Proof.
  intros n.
  assert (G : forall l, NoDup l -> (forall i, In i l -> (i < n)%nat) -> NoDup (map (munit n) l)).
  { induction l as [|i l IH]; intros N B; cbn [map]; [constructor|].
    inversion N as [|i' l' Ni Nl]; subst. constructor.
    - intro H. apply in_map_iff in H. destruct H as [j [E Hj]].
      symmetry in E. apply munit_inj in E; [subst; contradiction|]. apply B. now left.
    - apply IH; [exact Nl|]. intros j Hj. apply B. now right. }
  apply G; [apply seq_NoDup|]. intros i Hi. apply in_seq in Hi. lia.
Qed.
