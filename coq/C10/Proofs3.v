(* C10 - contrast selection on an exact pseudo-inverse (any commutative ring),
   and the Factor self-product shortcut of Formula.__mul__ *)
From Coq Require Import List Bool ZArith Lia Ring_theory.
From NV.Lib Require Import RingMat.
From NV.C10 Require Import Model.
Import ListNotations.

Section Contrast.
  Variable R : Type.
  Variables (r0 r1 : R) (radd rmul rsub : R -> R -> R) (ropp : R -> R).
  Hypothesis Rth : ring_theory r0 r1 radd rmul rsub ropp (@eq R).

  Local Notation mvR := (mv r0 radd rmul).
  Local Notation mmR := (mm r0 radd rmul).
  Local Notation unitR := (unit_vec r0 r1).

  (* D e_s is column s of the design D *)
  Lemma mv_unit_is_column : forall (D : mat R) p s, (s < p)%nat ->
    mvR D (unitR p s) = map (fun row => nth s row r0) D.
  Proof.
    intros D p s H. unfold mv. apply map_ext. intros row.
    rewrite (dot_comm R r0 r1 radd rmul rsub ropp Rth).
    now apply (dot_unit R r0 r1 radd rmul rsub ropp Rth).
  Qed.

  Lemma unit_length : forall p s, length (unitR p s) = p.
  Proof. intros. unfold unit_vec. now rewrite map_length, seq_length. Qed.

  (* contrast_from_cols_or_rows, branch L.shape[0] == n:  C = (pinv(D) L)^T.
     For a contrast that is a sub-formula, L's columns are columns of D
     (L[:, j] = D e_{s_j}); if P = pinv(D) is a left inverse of D (the contract
     of the pseudo-inverse on a full-column-rank design) then row j of C is the
     unit vector e_{s_j}: the contrast picks exactly the named column. *)
  Lemma contrast_row : forall (P D : mat R) p s,
    rows_len p D -> mmR p P D = mid r0 r1 p -> (s < p)%nat ->
    mvR P (map (fun row => nth s row r0) D) = unitR p s.
  Proof.
    intros P D p s HD HP Hs. rewrite <- (mv_unit_is_column D p s Hs).
    rewrite <- (mv_mm R r0 r1 radd rmul rsub ropp Rth p P D _ HD). rewrite HP.
    apply (mv_mid R r0 r1 radd rmul rsub ropp Rth). apply unit_length.
  Qed.

  Lemma contrast_rows : forall (P D : mat R) p (sel : list nat),
    rows_len p D -> mmR p P D = mid r0 r1 p -> Forall (fun s => (s < p)%nat) sel ->
    map (fun s => mvR P (map (fun row => nth s row r0) D)) sel = sel_mat r0 r1 p sel.
  Proof.
    intros P D p sel HD HP Hs. unfold sel_mat. apply map_ext_in. intros s Hin.
    rewrite Forall_forall in Hs. now apply contrast_row; [| |apply Hs].
  Qed.
End Contrast.

(* ---------------- Factor self product ---------------- *)
Lemma monlist_eqb_iff : forall a b, monlist_eqb a b = true <-> a = b.
Proof. intros a b. unfold monlist_eqb. destruct (list_eq_dec mon_dec a b); split; congruence. Qed.

Lemma fmul_shortcut : forall a b, isfac a = true -> terms a = terms b -> fmul a b = a.
Proof.
  intros a b H E. unfold fmul. rewrite H. cbn [andb].
  now rewrite (proj2 (monlist_eqb_iff _ _) E).
Qed.

Lemma fmul_general : forall a b, (isfac a = false \/ terms a <> terms b) ->
  fmul a b = mkF false (fprod (terms a) (terms b)).
Proof.
  intros a b [H|H]; unfold fmul.
  - now rewrite H.
  - destruct (monlist_eqb (terms a) (terms b)) eqn:E.
    + apply monlist_eqb_iff in E. contradiction.
    + now rewrite andb_false_r.
Qed.

Lemma factor_self : forall n idx,
  feval n (EMul (EAtoms true idx) (EAtoms true idx)) = feval n (EAtoms true idx).
Proof. intros. cbn [feval]. now apply fmul_shortcut. Qed.
