(* C10 - executable model of nipy's own logic in
     nipy/modalities/fmri/utils.py   (step_function, blocks [as of 4e8ac11: sorted by interval], events, interp fill
                                      rule, _eval_for, _conv_fx_gx, convolve_functions,
                                      TimeConvolver)
     nipy/algorithms/statistics/formula/formulae.py
                                     (Formula + - *, Factor, Formula.design)
   Definitions only; proofs are in Proofs1.v / Proofs2.v.
   Times and amplitudes are exact rationals (Q); record-array data are integers (Z).
   sympy / scipy.interp1d / np.convolve are not modelled as programs: what the
   model states about them is their defining formula (sum of shifted kernels,
   piecewise-linear interpolant, full discrete convolution), and the
   correspondence samples that on exact inputs. *)
From Coq Require Import List Bool ZArith QArith Qround Lia.
Import ListNotations.
Open Scope Q_scope.

(* ------------------------------------------------------------------ *)
(* Part 1a: step_function / blocks                                      *)
(* ------------------------------------------------------------------ *)

(* `blocks` puts -inf and +inf into the time list: extended times *)
Inductive xt := NegInf | Fin (q : Q) | PosInf.

(* numpy `x >= time` *)
Definition xle (t : xt) (x : Q) : bool :=
  match t with NegInf => true | Fin q => Qle_bool q x | PosInf => false end.

(* one iteration of   for time, val in zip(times, values): f[x >= time] = val  *)
Definition step1 (x : Q) (acc : Q) (p : xt * Q) : Q :=
  if xle (fst p) x then snd p else acc.

(* utils.step_function._imp at one sample x; tv = zip(times, values) in the GIVEN order *)
Definition step_eval (fill : Q) (tv : list (xt * Q)) (x : Q) : Q :=
  fold_left (step1 x) tv fill.

Definition fin_pairs (l : list (Q * Q)) : list (xt * Q) :=
  map (fun p => (Fin (fst p), snd p)) l.

(* a block = ((on, off), amplitude);   t += list(_t); v += [a, 0] *)
Definition block := ((Q * Q) * Q)%type.
Fixpoint blocks_tv (l : list block) : list (xt * Q) :=
  match l with
  | [] => []
  | ((a, b), amp) :: r => (Fin a, amp) :: (Fin b, 0) :: blocks_tv r
  end.

(* amplitudes=None -> itertools.cycle([1]) *)
Definition amps_or_ones (n : nat) (a : option (list Q)) : list Q :=
  match a with Some l => l | None => repeat 1 n end.

(* the time/value lists handed to step_function for blocks visited in the order of l *)
Definition blocks_pairs (l : list block) (x : Q) : Q :=
  step_eval 0 ((NegInf, 0) :: blocks_tv l ++ [(PosInf, 0)]) x.

Definition Qlt_b (x y : Q) : bool := negb (Qle_bool y x).

(* sorted(zip(intervals, amplitudes), key=lambda ta: tuple(ta[0])) (since 4e8ac11):
   key = (on, off) compared lexicographically; Python's sort is stable, so
   pairs with equal keys keep their listed order.  Stable insertion sort. *)
Definition key_le (p q : block) : bool :=
  Qlt_b (fst (fst p)) (fst (fst q))
  || (Qeq_bool (fst (fst p)) (fst (fst q)) && Qle_bool (snd (fst p)) (snd (fst q))).
Fixpoint insert_block (p : block) (l : list block) : list block :=
  match l with
  | [] => [p]
  | q :: r => if key_le p q then p :: q :: r else q :: insert_block p r
  end.
Definition sort_blocks (l : list block) : list block := fold_right insert_block [] l.

(* utils.blocks on the zipped (interval, amplitude) pairs, listed in any order *)
Definition blocks_sorted_pairs (l : list block) (x : Q) : Q := blocks_pairs (sort_blocks l) x.

(* utils.blocks(intervals, amplitudes): zip truncates to the shorter, then the sort *)
Definition blocks_eval (ivs : list (Q * Q)) (amps : option (list Q)) (x : Q) : Q :=
  blocks_sorted_pairs (combine ivs (amps_or_ones (length ivs) amps)) x.

(* what the property says blocks should be: the amplitude of the block
   [on, off) containing x (first such block), else 0 *)
Definition in_block (x : Q) (b : block) : bool :=
  Qle_bool (fst (fst b)) x && negb (Qle_bool (snd (fst b)) x).
Definition block_lookup (l : list block) (x : Q) : Q :=
  match find (in_block x) l with Some b => snd b | None => 0 end.

(* blocks given in time order, pairwise disjoint:  lo <= on1 <= off1 <= on2 <= ... *)
Fixpoint sorted_blocks (lo : Q) (l : list block) : Prop :=
  match l with
  | [] => True
  | ((a, b), _) :: r => lo <= a /\ a <= b /\ sorted_blocks b r
  end.

(* sorted, stated pairwise: every later block starts at or after the end of every earlier one *)
Fixpoint sorted_strong (l : list block) : Prop :=
  match l with
  | [] => True
  | p :: r => fst (fst p) <= snd (fst p) /\ Forall (fun q => snd (fst p) <= fst (fst q)) r /\ sorted_strong r
  end.

(* pairwise disjoint half-open intervals, in ANY order *)
Definition disjoint2 (p q : block) : Prop :=
  snd (fst p) <= fst (fst q) \/ snd (fst q) <= fst (fst p).
Fixpoint pairwise_disjoint (l : list block) : Prop :=
  match l with
  | [] => True
  | p :: r => (fst (fst p) <= snd (fst p)) /\ Forall (disjoint2 p) r /\ pairwise_disjoint r
  end.

(* ------------------------------------------------------------------ *)
(* Part 1b: events                                                      *)
(* ------------------------------------------------------------------ *)

(* for time, a in zip(times, amplitudes): e = e + g.subs(asymb, a) * f(T - time)
   evaluated at t = x; f the kernel, g the amplitude function (default identity) *)
Definition events_pairs (f g : Q -> Q) (ev : list (Q * Q)) (x : Q) : Q :=
  fold_left (fun e p => e + g (snd p) * f (x - fst p)) ev 0.

Definition events_eval (f g : Q -> Q) (times : list Q) (amps : option (list Q)) (x : Q) : Q :=
  events_pairs f g (combine times (amps_or_ones (length times) amps)) x.

Definition qsum (l : list Q) : Q := fold_right Qplus 0 l.

(* a small kernel language for the correspondence (theorems are for arbitrary f) *)
Inductive kern :=
| KPoly (c : list Q)            (* c0 + c1 s + c2 s^2 ... (Horner) *)
| KBox (lo hi h : Q)            (* h on [lo, hi), 0 elsewhere *)
| KRamp (lo hi : Q).            (* s - lo on [lo, hi), 0 elsewhere *)

Fixpoint horner (c : list Q) (s : Q) : Q :=
  match c with [] => 0 | a :: r => a + s * horner r s end.

Definition keval (k : kern) (s : Q) : Q :=
  match k with
  | KPoly c => horner c s
  | KBox lo hi h => if Qle_bool lo s && negb (Qle_bool hi s) then h else 0
  | KRamp lo hi => if Qle_bool lo s && negb (Qle_bool hi s) then s - lo else 0
  end.

(* ------------------------------------------------------------------ *)
(* Part 1c: interp / linear_interp (fill rule + linear interpolant)     *)
(* ------------------------------------------------------------------ *)

(* value on the segment structure t0 < t1 < ...; first segment with x <= t_{i+1}
   (scipy: searchsorted(x, x_new) clipped to [1, n-1]) *)
Fixpoint interp_seg (t0 v0 : Q) (rest : list (Q * Q)) (x : Q) : Q :=
  match rest with
  | [] => v0
  | (t1, v1) :: r =>
      if Qle_bool x t1 then v0 + (v1 - v0) / (t1 - t0) * (x - t0)
      else interp_seg t1 v1 r x
  end.

Definition last_time (t0 : Q) (rest : list (Q * Q)) : Q := last (map fst rest) t0.

(* interp(times, values, fill): fill if x < times[0] or x > times[-1] *)
Definition interp_eval (fill : Q) (pts : list (Q * Q)) (x : Q) : option Q :=
  match pts with
  | [] => None
  | (t0, v0) :: r =>
      Some (if Qlt_b x t0 || Qlt_b (last_time t0 r) x then fill else interp_seg t0 v0 r x)
  end.

Fixpoint increasing_from (lo : Q) (l : list (Q * Q)) : Prop :=
  match l with [] => True | (t, _) :: r => lo < t /\ increasing_from t r end.
Definition increasing (l : list (Q * Q)) : Prop :=
  match l with [] => True | (t, _) :: r => increasing_from t r end.

(* ------------------------------------------------------------------ *)
(* Part 1d: _eval_for / _conv_fx_gx / convolve_functions / TimeConvolver *)
(* ------------------------------------------------------------------ *)

(* len(np.arange(mn, mx, dt)) = ceil((mx - mn)/dt), 0 if negative *)
Definition arange_len (mn mx dt : Q) : nat := Z.to_nat (Qceiling ((mx - mn) / dt)).

(* np.arange(mn, mx, dt)[k] = mn + k*dt *)
Definition grid (mn dt : Q) (n : nat) : list Q :=
  map (fun k => mn + inject_Z (Z.of_nat k) * dt) (seq 0 n).

Definition qmin2 (a b : Q) : Q := if Qle_bool a b then a else b.
Definition qmax2 (a b : Q) : Q := if Qle_bool a b then b else a.

(* _eval_for(f, interval, dt): f_mn, f_mx = sorted(interval) *)
Definition eval_for (F : Q -> Q) (iv : Q * Q) (dt : Q) : list Q :=
  map F (grid (qmin2 (fst iv) (snd iv)) dt
           (arange_len (qmin2 (fst iv) (snd iv)) (qmax2 (fst iv) (snd iv)) dt)).

(* np.convolve(f, g) (mode 'full') as polynomial multiplication, row-wise *)
Fixpoint vadd (a b : list Q) : list Q :=
  match a, b with
  | [], _ => b
  | _, [] => a
  | x :: a', y :: b' => (x + y) :: vadd a' b'
  end.
Fixpoint conv (f g : list Q) : list Q :=
  match f with
  | [] => []
  | a :: f' => vadd (map (Qmult a) g) (match f' with [] => [] | _ => 0 :: conv f' g end)
  end.

(* the defining direct sum:  (f*g)[k] = sum_{i=0..k} f[i] g[k-i]  (out of range = 0) *)
Definition conv_at (f g : list Q) (k : nat) : Q :=
  qsum (map (fun i => nth i f 0 * nth (k - i) g 0) (seq 0 (S k))).

(* _conv_fx_gx: vals = convolve(f_vals, g_vals) * dt;
                time = arange(len(vals)) * dt + min_f + min_g *)
Definition conv_fx_gx (fv gv : list Q) (dt mnf mng : Q) : list (Q * Q) :=
  let vals := map (fun v => v * dt) (conv fv gv) in
  combine (map (fun k => inject_Z (Z.of_nat k) * dt + mnf + mng) (seq 0 (length vals))) vals.

(* convolve_functions(f, g, f_interval, g_interval, dt, fill) sampled at x;
   TimeConvolver(f, f_interval, dt, fill).convolve(g, g_interval) is the same computation *)
Definition convolve_eval (F G : Q -> Q) (fiv giv : Q * Q) (dt fill x : Q) : option Q :=
  interp_eval fill
    (conv_fx_gx (eval_for F fiv dt) (eval_for G giv dt) dt
       (qmin2 (fst fiv) (snd fiv)) (qmin2 (fst giv) (snd giv))) x.

(* ------------------------------------------------------------------ *)
(* Part 2: term algebra of formulae.py                                  *)
(* ------------------------------------------------------------------ *)
Close Scope Q_scope.
Open Scope Z_scope.

(* atoms of the universe: a numeric Term reads one field of the record; a
   FactorTerm `name_level` is the indicator  record[name] == level *)
Inductive atom := ANum (col : nat) | ALev (col : nat) (lev : Z).

Definition atomval (row : list Z) (a : atom) : Z :=
  match a with
  | ANum c => nth c row 0
  | ALev c l => if Z.eqb (nth c row 0) l then 1 else 0
  end.

(* a term of a formula = monomial = exponent of every atom of the universe
   (sympy's canonical form of a product of symbols); intercept = all zeros *)
Definition mon := list nat.

Definition mon_dec : forall a b : mon, {a = b} + {a <> b} := list_eq_dec Nat.eq_dec.

Fixpoint mmul (a b : mon) : mon :=
  match a, b with
  | [], _ => b
  | _, [] => a
  | x :: a', y :: b' => (x + y)%nat :: mmul a' b'
  end.

Fixpoint zpow (x : Z) (n : nat) : Z := match n with O => 1 | S k => x * zpow x k end.

Fixpoint meval (m : mon) (v : list Z) : Z :=
  match m, v with
  | e :: m', x :: v' => zpow x e * meval m' v'
  | _, _ => 1
  end.

Definition mone (n : nat) : mon := repeat O n.
Definition munit (n i : nat) : mon := map (fun j => if Nat.eqb j i then 1%nat else O) (seq 0 n).

(* value of a Formula object: its term list (order as built, before sympy
   sorting) and whether the object is a Factor instance *)
Record fval := mkF { isfac : bool; terms : list mon }.

Inductive fexpr :=
| EOne                                   (* formulae.I *)
| EAtoms (fac : bool) (idx : list nat)   (* Formula([atoms]) / Factor(name, levels) (fac = true) *)
| EAdd (a b : fexpr)
| ESub (a b : fexpr)
| EMul (a b : fexpr).

Definition mon_in (m : mon) (l : list mon) : bool := if in_dec mon_dec m l then true else false.
Definition monlist_eqb (a b : list mon) : bool := if list_eq_dec mon_dec a b then true else false.

(* Formula.__add__: np.hstack of the two term arrays *)
Definition fadd (a b : list mon) : list mon := a ++ b.
(* Formula.__sub__: [term for term in self.terms if term not in set(other.terms)] *)
Definition fsub (a b : list mon) : list mon := filter (fun m => negb (mon_in m b)) a.
(* Formula.__mul__: pairwise products, set() de-duplication (then sympy sorting, not modelled) *)
Definition fprod (a b : list mon) : list mon :=
  nodup mon_dec (flat_map (fun s => map (mmul s) b) a).
(* `if is_factor(self): if self == other: return self` comes first *)
Definition fmul (a b : fval) : fval :=
  if isfac a && monlist_eqb (terms a) (terms b) then a
  else mkF false (fprod (terms a) (terms b)).

Fixpoint feval (n : nat) (e : fexpr) : fval :=
  match e with
  | EOne => mkF false [mone n]
  | EAtoms fac idx => mkF fac (map (munit n) idx)
  | EAdd a b => mkF false (fadd (terms (feval n a)) (terms (feval n b)))
  | ESub a b => mkF false (fsub (terms (feval n a)) (terms (feval n b)))
  | EMul a b => fmul (feval n a) (feval n b)
  end.

Definition zsum (l : list Z) : Z := fold_right Z.add 0 l.

(* Formula.design.  coefs: `self._coefs.setdefault(term, Beta(...))` gives equal
   terms ONE shared coefficient; mean = sum coef(term)*term over ALL terms;
   design_expr = d mean / d coef for each distinct coefficient.  So the column
   attached to the (distinct) term m is the sum of all terms equal to m. *)
Definition dcol (ts : list mon) (m : mon) (vals : list Z) : Z :=
  zsum (map (fun m' => if mon_dec m' m then meval m' vals else 0) ts).

(* one design column: (integer coefficient k, monomial m, values) - the
   design_expr entry is k*m *)
Definition dentry := (Z * mon * list Z)%type.

Definition design_terms (atoms : list atom) (ts : list mon) (data : list (list Z)) : list dentry :=
  map (fun m => (Z.of_nat (count_occ mon_dec ts m), m,
                 map (fun row => dcol ts m (map (atomval row) atoms)) data))
      (nodup mon_dec ts).

(* an empty Formula has no design (the implementation raises) *)
Definition design (atoms : list atom) (e : fexpr) (data : list (list Z)) : option (list dentry) :=
  match terms (feval (length atoms) e) with
  | [] => None
  | ts => Some (design_terms atoms ts data)
  end.

(* the denotation of a term on the data: evaluate the monomial row-wise *)
Definition term_column (atoms : list atom) (m : mon) (data : list (list Z)) : list Z :=
  map (fun row => meval m (map (atomval row) atoms)) data.

(* Factor(name, levels).design: one indicator per level *)
Definition factor_row (levels : list Z) (v : Z) : list Z :=
  map (fun l => if Z.eqb v l then 1 else 0) levels.

(* ---- comparison helpers for the correspondence (sets of columns) ---- *)
Definition natlist_eqb' (a b : list nat) : bool := if mon_dec a b then true else false.
Fixpoint zl_eqb (a b : list Z) : bool :=
  match a, b with
  | [], [] => true
  | x :: a', y :: b' => Z.eqb x y && zl_eqb a' b'
  | _, _ => false
  end.
Definition dentry_eqb (a b : dentry) : bool :=
  Z.eqb (fst (fst a)) (fst (fst b)) && natlist_eqb' (snd (fst a)) (snd (fst b)) && zl_eqb (snd a) (snd b).
Definition dset_eqb (a b : list dentry) : bool :=
  Nat.eqb (length a) (length b)
  && forallb (fun x => existsb (dentry_eqb x) b) a
  && forallb (fun y => existsb (dentry_eqb y) a) b.
Definition design_agrees (atoms : list atom) (e : fexpr) (data : list (list Z))
           (impl : option (list dentry)) : bool :=
  match design atoms e data, impl with
  | Some d, Some d' => dset_eqb d d'
  | None, None => true
  | _, _ => false
  end.
Definition monset_eqb (a b : list mon) : bool :=
  Nat.eqb (length a) (length b)
  && forallb (fun x => mon_in x b) a && forallb (fun y => mon_in y a) b.

Open Scope Q_scope.
Definition oq_eqb (a : option Q) (b : option Q) : bool :=
  match a, b with Some x, Some y => Qeq_bool x y | None, None => true | _, _ => false end.
Fixpoint ql_eqb (a b : list Q) : bool :=
  match a, b with
  | [], [] => true
  | x :: a', y :: b' => Qeq_bool x y && ql_eqb a' b'
  | _, _ => false
  end.
Definition opts (l : list (option Q)) : option (list Q) :=
  fold_right (fun o acc => match o, acc with Some x, Some r => Some (x :: r) | _, _ => None end) (Some []) l.
