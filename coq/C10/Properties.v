(* C10 - property theorems only (for ALL inputs; no size bounds).
   Part 1: symbolic time courses of nipy/modalities/fmri/utils.py.
   Part 2: term algebra and design of nipy/algorithms/statistics/formula/formulae.py. *)
From Coq Require Import List Bool ZArith QArith Qround Lia Lqa Permutation.
From NV.Lib Require RingMat.
From NV.C10 Require Import Model Proofs1 Proofs2 Proofs3 SplineModel Proofs4.
Import ListNotations.
Open Scope Q_scope.

(* ================= Part 1: time courses ================= *)

(* step_function: the value at x is the value paired with the LAST listed time
   that is <= x (sequential overwrite), whatever the order of the list *)
Theorem step_function_last_wins : forall fill l1 t v l2 x,
  xle t x = true ->
  (forall p, In p l2 -> xle (fst p) x = false) ->
  step_eval fill (l1 ++ (t, v) :: l2) x = v.
Proof. exact step_last_wins. Qed.
Print Assumptions step_function_last_wins.

Theorem step_function_fill_before : forall fill l x,
  (forall p, In p l -> xle (fst p) x = false) -> step_eval fill l x = fill.
Proof. exact step_none_fill. Qed.
Print Assumptions step_function_fill_before.

(* docstring: for increasing times f(times[i]) = values[i], and f = fill before times[0] *)
Theorem step_function_hits_samples : forall l fill t v,
  increasing l -> In (t, v) l -> step_eval fill (fin_pairs l) t = v.
Proof. exact step_hits_samples. Qed.
Print Assumptions step_function_hits_samples.

Theorem step_function_fill_left : forall l fill t0 v0 x,
  increasing ((t0, v0) :: l) -> x < t0 -> step_eval fill (fin_pairs ((t0, v0) :: l)) x = fill.
Proof. exact step_before_first. Qed.
Print Assumptions step_function_fill_left.

(* blocks: for intervals listed in time order and pairwise disjoint
   (lo <= on1 <= off1 <= on2 <= ...) the value at ANY x is the amplitude of the
   block [on, off) containing x, else 0 *)
Theorem blocks_value : forall l lo x,
  sorted_blocks lo l -> blocks_pairs l x = block_lookup l x.
Proof. exact blocks_value_sorted. Qed.
Print Assumptions blocks_value.

(* blocks (since 4e8ac11 sorts the (interval, amplitude) pairs by interval, stably):
   for pairwise disjoint intervals listed in ANY order - touching intervals
   (off_i = on_j) and empty ones (on = off) included - the value at ANY x is the
   amplitude of the block [on, off) containing x, else 0 ... *)
Theorem blocks_value_any_order : forall l x,
  pairwise_disjoint l -> blocks_sorted_pairs l x = block_lookup l x.
Proof. exact blocks_any_order. Qed.
Print Assumptions blocks_value_any_order.

(* ... and that block is unique: whichever listed block contains x gives the value *)
Theorem blocks_containing_block_unique : forall l x b,
  pairwise_disjoint l -> In b l -> in_block x b = true ->
  blocks_sorted_pairs l x = snd b.
Proof. intros l x b P Hin Hb. rewrite (blocks_any_order l x P). now apply disjoint_unique. Qed.
Print Assumptions blocks_containing_block_unique.

(* Overlapping intervals (model as is): the +-inf sentinels are neutral, so the
   value is the sequential overwrite over  on1, off1, on2, off2, ...  of the
   blocks sorted by (on, off): by step_function_last_wins the LAST knot <= x in
   that sequence decides (an `on` knot carries the amplitude, an `off` knot 0).
   It is neither the sum nor "some containing block": a block nested in a longer
   one switches the longer one off when it ends (example below). *)
Theorem blocks_sentinels_neutral : forall l x,
  blocks_sorted_pairs l x = step_eval 0 (blocks_tv (sort_blocks l)) x.
Proof. intros. unfold blocks_sorted_pairs. apply blocks_sentinels. Qed.
Print Assumptions blocks_sentinels_neutral.

(* events: the value at x is the sum over ALL listed (onset, amplitude) pairs of
   g(amplitude) * f(x - onset), for any kernel f and amplitude function g *)
Theorem events_superposition : forall f g ev x,
  events_pairs f g ev x == qsum (map (fun p => g (snd p) * f (x - fst p)) ev).
Proof. exact events_sum. Qed.
Print Assumptions events_superposition.

Theorem events_additive : forall f g e1 e2 x,
  events_pairs f g (e1 ++ e2) x == events_pairs f g e1 x + events_pairs f g e2 x.
Proof. exact events_app. Qed.
Print Assumptions events_additive.

Theorem events_order_irrelevant : forall f g e1 e2 x,
  Permutation e1 e2 -> events_pairs f g e1 x == events_pairs f g e2 x.
Proof. exact events_perm. Qed.
Print Assumptions events_order_irrelevant.

(* coincident onsets add up (they are not merged or dropped) *)
Theorem events_coincident_onsets : forall f g t a b x,
  events_pairs f g [(t, a); (t, b)] x == (g a + g b) * f (x - t).
Proof. exact events_coincident. Qed.
Print Assumptions events_coincident_onsets.

(* interp / linear_interp: hits its samples, fill outside [times[0], times[-1]] *)
Theorem interp_hits_samples : forall fill pts t v,
  increasing pts -> In (t, v) pts ->
  exists y, interp_eval fill pts t = Some y /\ y == v.
Proof. exact interp_hits. Qed.
Print Assumptions interp_hits_samples.

Theorem interp_fill_outside : forall fill t0 v0 r x,
  x < t0 \/ last_time t0 r < x -> interp_eval fill ((t0, v0) :: r) x = Some fill.
Proof. intros fill t0 v0 r x [H|H]; [now apply interp_fill_below|now apply interp_fill_above]. Qed.
Print Assumptions interp_fill_outside.

(* np.arange(mn, mx, dt) as used by _eval_for: exactly the grid points mn + k dt < mx *)
Theorem eval_for_grid_spec : forall mn mx dt k, 0 < dt ->
  ((k < arange_len mn mx dt)%nat <-> mn + inject_Z (Z.of_nat k) * dt < mx).
Proof. exact arange_len_spec. Qed.
Print Assumptions eval_for_grid_spec.

(* the row-wise `conv` (np.convolve 'full') is the defining direct sum *)
Theorem conv_matches_direct_sum : forall f g,
  (forall k, nth k (conv f g) 0 == conv_at f g k) /\
  (f <> [] -> g <> [] -> length (conv f g) = (length f + length g - 1)%nat).
Proof. intros f g. split; [apply conv_nth|apply conv_length]. Qed.
Print Assumptions conv_matches_direct_sum.

(* _conv_fx_gx on the sampled functions: nf+ng-1 output samples; sample k sits
   at time k dt + min_f + min_g and its value is dt * sum_i F(s_i) G(u_{k-i})
   with s_i = min_f + i dt, u_j = min_g + j dt (zero outside the two grids);
   and u_{k-i} = time_k - s_i, i.e. the sum is the Riemann sum of (F*G)(time_k):
   both the `* dt` factor and the time origin are pinned. *)
Theorem conv_grid_spec : forall F G mnf mng dt nf ng k,
  (0 < nf)%nat -> (0 < ng)%nat -> (k < nf + ng - 1)%nat ->
  let out := conv_fx_gx (map F (grid mnf dt nf)) (map G (grid mng dt ng)) dt mnf mng in
  length out = (nf + ng - 1)%nat /\
  exists v, nth k out (0, 0) = (inject_Z (Z.of_nat k) * dt + mnf + mng, v)
            /\ v == dt * riemann F G mnf mng dt nf ng k.
Proof.
  intros F G mnf mng dt nf ng k Hf Hg Hk out.
  assert (Nf : map F (grid mnf dt nf) <> []) by (destruct nf; [lia|discriminate]).
  assert (Ng : map G (grid mng dt ng) <> []) by (destruct ng; [lia|discriminate]).
  assert (L : length (conv (map F (grid mnf dt nf)) (map G (grid mng dt ng))) = (nf + ng - 1)%nat).
  { rewrite conv_length by assumption. now rewrite !map_length, !grid_length. }
  split.
  - unfold out. rewrite conv_fx_gx_length by assumption. now rewrite !map_length, !grid_length.
  - destruct (conv_fx_gx_nth (map F (grid mnf dt nf)) (map G (grid mng dt ng)) dt mnf mng k) as [v [E V]].
    + rewrite L. exact Hk.
    + exists v. split; [exact E|]. rewrite V, conv_at_samples. reflexivity.
Qed.
Print Assumptions conv_grid_spec.

Theorem conv_time_origin : forall mnf mng dt (k i : nat), (i <= k)%nat ->
  (inject_Z (Z.of_nat k) * dt + mnf + mng) - (mnf + inject_Z (Z.of_nat i) * dt)
  == mng + inject_Z (Z.of_nat (k - i)) * dt.
Proof. exact time_origin. Qed.
Print Assumptions conv_time_origin.

(* ================= Part 2: formulae ================= *)
Close Scope Q_scope.
Open Scope Z_scope.

(* Every design column belongs to a term m of the formula and equals
   k * (m evaluated on each record), k = number of times m is listed;
   every term has a column; and when no term is listed twice the design is
   exactly one column per term, each equal to the term evaluated row-wise. *)
Theorem design_columns_denote : forall atoms ts data,
  (forall k m col, In (k, m, col) (design_terms atoms ts data) ->
     In m ts /\ k = Z.of_nat (count_occ mon_dec ts m) /\ 1 <= k /\
     col = map (fun row => k * meval m (map (atomval row) atoms)) data) /\
  (forall m, In m ts -> exists k col, In (k, m, col) (design_terms atoms ts data)) /\
  (NoDup ts -> design_terms atoms ts data = map (fun m => (1, m, term_column atoms m data)) ts).
Proof.
  intros atoms ts data. split; [|split].
  - intros k m col H. now apply design_entry_denotes.
  - intros m H. now apply design_covers_terms.
  - apply design_terms_nodup.
Qed.
Print Assumptions design_columns_denote.

(* ... but a term listed twice (f1 + f2 sharing a term) gets the column 2*term (finding) *)
Theorem design_duplicate_term_refuted :
  exists atoms e data d k m col,
    design atoms e data = Some d /\ In (k, m, col) d /\
    In m (terms (feval (length atoms) e)) /\ col <> term_column atoms m data.
Proof.
  exists [ANum 0; ANum 1], (EAdd (EAtoms false [0%nat; 1%nat]) (EAtoms false [1%nat])), [[1; 2]].
  exists [(1, [1%nat; 0%nat], [1]); (2, [0%nat; 1%nat], [4])], 2, [0%nat; 1%nat], [4].
  split; [vm_compute; reflexivity|]. split; [right; left; reflexivity|].
  split; [vm_compute; auto|]. vm_compute. discriminate.
Qed.
Print Assumptions design_duplicate_term_refuted.

(* sum of formulae: terms are concatenated; without a shared term the design
   is the two designs side by side *)
Theorem formula_add_columns : forall atoms a b data,
  NoDup (fadd a b) ->
  design_terms atoms (fadd a b) data = design_terms atoms a data ++ design_terms atoms b data.
Proof. exact design_add_nodup. Qed.
Print Assumptions formula_add_columns.

(* product of formulae: exactly the distinct pairwise products, each listed
   once, and the column of a product is the product of the columns *)
Theorem formula_mul_columns : forall a b,
  NoDup (fprod a b) /\
  (forall m, In m (fprod a b) <-> exists s o, In s a /\ In o b /\ m = mmul s o) /\
  (forall s o v, meval (mmul s o) v = meval s v * meval o v).
Proof.
  intros a b. split; [apply fprod_nodup|]. split; [apply fprod_in|]. intros. apply meval_mmul.
Qed.
Print Assumptions formula_mul_columns.

(* subtraction: the terms of a not listed in b, in their original order *)
Theorem formula_sub_terms : forall a b,
  (forall m, In m (fsub a b) <-> In m a /\ ~ In m b) /\ subseq (fsub a b) a /\
  (NoDup a -> NoDup (fsub a b)).
Proof. intros a b. split; [apply fsub_in|]. split; [apply fsub_subseq|apply fsub_nodup]. Qed.
Print Assumptions formula_sub_terms.

(* a Factor yields one indicator column per level; for distinct levels and a
   record whose value is one of them the indicators are 0/1 and sum to 1 *)
Theorem factor_indicators_partition : forall c levels data,
  design (map (ALev c) levels) (EAtoms true (seq 0 (length levels))) data
  = match levels with
    | [] => None
    | _ => Some (map (fun i => (1, munit (length levels) i,
                                map (fun row => nth i (factor_row levels (nth c row 0)) 0) data))
                     (seq 0 (length levels)))
    end
  /\ (forall v, Forall (fun x => x = 0 \/ x = 1) (factor_row levels v))
  /\ (forall v, NoDup levels -> In v levels -> zsum (factor_row levels v) = 1)
  /\ (forall v, ~ In v levels -> zsum (factor_row levels v) = 0).
Proof.
  intros c levels data. split; [apply factor_design, munit_nodup|].
  split; [apply factor_row_01|]. split; [intros v; apply factor_row_sum|intros v; apply factor_row_zero].
Qed.
Print Assumptions factor_indicators_partition.

(* Formula.__mul__ shortcut: a Factor times a formula with the same terms is the
   Factor itself (NOT the squares f_l**2 and cross products f_l*f_k that the
   general rule gives); in every other case the distinct pairwise products *)
Theorem factor_self_product : forall a b,
  (isfac a = true -> terms a = terms b -> fmul a b = a) /\
  (isfac a = false \/ terms a <> terms b -> fmul a b = mkF false (fprod (terms a) (terms b))).
Proof. intros a b. split; [apply fmul_shortcut|apply fmul_general]. Qed.
Print Assumptions factor_self_product.

Theorem factor_times_itself : forall n idx,
  feval n (EMul (EAtoms true idx) (EAtoms true idx)) = feval n (EAtoms true idx).
Proof. exact factor_self. Qed.
Print Assumptions factor_times_itself.

(* Contrast matrices on an EXACT pseudo-inverse, over any commutative ring:
   if P is a left inverse of the design D (what pinv(D) is for a
   full-column-rank D - oracle contract, a hypothesis here) and the contrast is
   a sub-formula, i.e. its design consists of the columns sel of D, then
   C = (P L)^T is the selector matrix: row j is the unit vector of column sel[j]. *)
Theorem contrast_selects_columns :
  forall (R : Type) (r0 r1 : R) (radd rmul rsub : R -> R -> R) (ropp : R -> R),
  Ring_theory.ring_theory r0 r1 radd rmul rsub ropp (@eq R) ->
  forall (P D : list (list R)) (p : nat) (sel : list nat),
  RingMat.rows_len p D ->
  RingMat.mm r0 radd rmul p P D = RingMat.mid r0 r1 p ->
  Forall (fun s => (s < p)%nat) sel ->
  map (fun s => RingMat.mv r0 radd rmul P (map (fun row => nth s row r0) D)) sel
  = RingMat.sel_mat r0 r1 p sel.
Proof. exact contrast_rows. Qed.
Print Assumptions contrast_selects_columns.

(* ================= non-vacuity ================= *)
Open Scope Q_scope.
(* docstring example of blocks: on_off = [[1,2],[3,4]], amplitudes [3,5] at 0.4,1.4,2.4,3.4 *)
Example blocks_docstring_example :
  map (blocks_eval [(1, 2); (3, 4)] (Some [3; 5])) [2 # 5; 7 # 5; 12 # 5; 17 # 5] = [0; 3; 0; 5].
Proof. vm_compute. reflexivity. Qed.

(* unsorted docstring-style call, the former counterexample: now 3 at 5.5 and 4 at 1.5 *)
Example blocks_unsorted_example :
  map (blocks_eval [(5, 6); (1, 2)] (Some [3; 4])) [11 # 2; 3 # 2; 3; 6] = [3; 4; 0; 0].
Proof. vm_compute. reflexivity. Qed.

(* overlapping (nested) blocks: (1,10) amp 2 and (2,3) amp 5 -> 2 on [1,2), 5 on [2,3), 0 from 3 on *)
Example blocks_overlapping_example :
  map (blocks_eval [(2, 3); (1, 10)] (Some [5; 2])) [3 # 2; 5 # 2; 5; 11] = [2; 5; 0; 0].
Proof. vm_compute. reflexivity. Qed.

Example conv_example :
  conv [1; 2; 3] [1; 1] = [1 + 0; 1 + (2 + 0); 2 + (3 + 0); 3] /\ conv_at [1; 2; 3] [1; 1] 2 == 5.
Proof. split; vm_compute; reflexivity. Qed.

Close Scope Q_scope.
Example design_example :
  design [ANum 0; ALev 1 7; ALev 1 8]
         (EMul (EAdd EOne (EAtoms false [0%nat])) (EAtoms true [1%nat; 2%nat]))
         [[2; 7]; [3; 8]]
  = Some [(1, [0; 1; 0]%nat, [1; 0]); (1, [0; 0; 1]%nat, [0; 1]);
          (1, [1; 1; 0]%nat, [2; 0]); (1, [1; 0; 1]%nat, [0; 3])].
Proof. vm_compute. reflexivity. Qed.

(* ================= Part 3: formulae.natural_spline (SplineModel.v) ================= *)
Open Scope Q_scope.

(* docstring: "A Formula with (len(knots) + order) Terms (if intercept=False, otherwise includes one more Term)";
   the terms are named ns_s, ns_(s+1), ... consecutively (s = 0 with intercept, 1 without): all distinct,
   so Formula.design merges none of them - one column per spline function *)
Theorem natural_spline_term_count : forall order knots (intercept : bool),
  length (natural_spline order knots intercept)
  = (length knots + order + (if intercept then 1 else 0))%nat.
Proof. exact ns_term_count. Qed.
Print Assumptions natural_spline_term_count.

Theorem natural_spline_names_consecutive_distinct : forall order knots (intercept : bool),
  ns_names (natural_spline order knots intercept)
  = seq (if intercept then 0 else 1)%nat (length knots + order + (if intercept then 1 else 0))%nat
  /\ NoDup (ns_names (natural_spline order knots intercept)).
Proof. intros. split; [apply ns_names_spec | apply ns_names_nodup]. Qed.
Print Assumptions natural_spline_names_consecutive_distinct.

(* the design row at datum x: the column of term ns_i (i <= order) is x**i ... *)
Theorem natural_spline_poly_column : forall order knots (intercept : bool) x (i : nat),
  ((if intercept then 0 else 1) <= i <= order)%nat ->
  nth (i - (if intercept then 0 else 1))%nat (ns_row (natural_spline order knots intercept) x) 0
  = qpow x i.
Proof. exact ns_poly_column. Qed.
Print Assumptions natural_spline_poly_column.

(* ... and the column of the j-th listed knot k (any knot order, repeated knots allowed) is 0 up to and
   INCLUDING the knot and (x-k)**order to the right of it *)
Theorem natural_spline_knot_column : forall order knots (intercept : bool) x (j : nat),
  (j < length knots)%nat ->
  let k := nth j knots 0 in
  let v := nth (order + 1 + j - (if intercept then 0 else 1))%nat
               (ns_row (natural_spline order knots intercept) x) 0 in
  (x <= k -> v == 0) /\ (k < x -> v == qpow (x - k) order).
Proof. exact ns_knot_column. Qed.
Print Assumptions natural_spline_knot_column.

(* order 0 (piecewise-constant basis): a knot function is the step [x > k] *)
Theorem natural_spline_order0_knot_is_step : forall k x,
  (x <= k -> ns_knot 0 k x == 0) /\ (k < x -> ns_knot 0 k x == 1).
Proof. exact ns_knot_order0. Qed.
Print Assumptions natural_spline_order0_knot_is_step.

(* for order >= 1 the code's (x-k)**order * (x > k) IS the truncated power max(x-k, 0)**order;
   for order 0 it is not (0**0 = 1): the two forms may be exchanged only for order >= 1 *)
Theorem natural_spline_knot_truncated_power : forall order k x, (1 <= order)%nat ->
  ns_knot order k x == trunc_power order k x.
Proof. exact ns_knot_trunc_power. Qed.
Print Assumptions natural_spline_knot_truncated_power.

Theorem natural_spline_truncated_power_order0_refuted :
  exists k x, ~ ns_knot 0 k x == trunc_power 0 k x.
Proof. exact ns_knot_trunc_power_order0_differs. Qed.
Print Assumptions natural_spline_truncated_power_order0_refuted.

(* at or left of every knot all knot functions vanish: the row is the polynomial part followed by zeros *)
Theorem natural_spline_knot_columns_zero_left_of_knots : forall order knots j0 x,
  (forall k, In k knots -> x <= k) ->
  Forall (fun v => v == 0) (ns_row (ns_knot_terms order j0 knots) x).
Proof. exact ns_knot_terms_row_zero. Qed.
Print Assumptions natural_spline_knot_columns_zero_left_of_knots.

(* non-vacuity: docstring example natural_spline(x, knots=[1,3,4], order=3) at 3, 5, 7; and an order-0 spline *)
Example natural_spline_docstring_example :
  ns_design 3 [1; 3; 4] false [3; 5; 7]
  = [[3; 9; 27; 8; 0; 0]; [5; 25; 125; 64; 8; 1]; [7; 49; 343; 216; 64; 27]]
  /\ ns_names (natural_spline 3 [1; 3; 4] false) = [1; 2; 3; 4; 5; 6]%nat.
Proof. split; vm_compute; reflexivity. Qed.

Example natural_spline_order0_example :
  ns_design 0 [1; 3] true [0; 1; 2; 3; 7 # 2] = [[1; 0; 0]; [1; 0; 0]; [1; 1; 0]; [1; 1; 0]; [1; 1; 1]].
Proof. vm_compute. reflexivity. Qed.
Close Scope Q_scope.
