(* C10 - proofs about formulae.natural_spline (SplineModel.v): number and names of the terms,
   what every column evaluates to, order 0 = step functions, truncated-power form for order >= 1 *)
From Coq Require Import List Bool ZArith QArith Lia Lqa.
From NV.C10 Require Import SplineModel.
Import ListNotations.
Open Scope Q_scope.

Definition ns_d0 : ns_term := (0%nat, fun _ : Q => 0).

(* ---------- names / count ---------- *)
Lemma ns_knot_terms_names : forall order knots j0,
  map fst (ns_knot_terms order j0 knots) = seq (j0 + order + 1) (length knots).
Proof.
  intros order knots. induction knots as [|k ks IH]; intros j0; cbn [ns_knot_terms map length seq].
  - reflexivity.
  - cbn [fst]. f_equal. rewrite IH. f_equal.
Qed.

Lemma ns_poly_terms_names : forall order, map fst (ns_poly_terms order) = seq 0 (S order).
Proof.
  intros order. unfold ns_poly_terms. rewrite map_map. cbn [fst]. apply map_id.
Qed.

Lemma ns_all_terms_names : forall order knots,
  ns_names (ns_all_terms order knots) = seq 0 (S order + length knots).
Proof.
  intros order knots. unfold ns_names, ns_all_terms.
  rewrite map_app, ns_poly_terms_names, ns_knot_terms_names, seq_app.
  f_equal. f_equal. lia.
Qed.

Lemma map_tl : forall (A B : Type) (f : A -> B) l, map f (tl l) = tl (map f l).
Proof. intros A B f l. destruct l as [|a l]; reflexivity. Qed.

Lemma ns_names_spec : forall order knots intercept,
  ns_names (natural_spline order knots intercept)
  = seq (if intercept then 0 else 1)%nat (length knots + order + (if intercept then 1 else 0))%nat.
Proof.
  intros order knots intercept. unfold natural_spline. destruct intercept.
  - rewrite ns_all_terms_names. f_equal. lia.
  - unfold ns_names. rewrite map_tl. fold (ns_names (ns_all_terms order knots)).
    rewrite ns_all_terms_names. cbn [plus seq tl]. f_equal. lia.
Qed.

Lemma ns_term_count : forall order knots intercept,
  length (natural_spline order knots intercept)
  = (length knots + order + (if intercept then 1 else 0))%nat.
Proof.
  intros order knots intercept.
  transitivity (length (ns_names (natural_spline order knots intercept))).
  - unfold ns_names. symmetry. apply map_length.
  - rewrite ns_names_spec. apply seq_length.
Qed.

Lemma ns_names_nodup : forall order knots intercept,
  NoDup (ns_names (natural_spline order knots intercept)).
Proof. intros. rewrite ns_names_spec. apply seq_NoDup. Qed.

(* ---------- columns ---------- *)
Lemma ns_row_nth : forall ts x n, nth n (ns_row ts x) 0 = snd (nth n ts ns_d0) x.
Proof.
  intros ts x n. unfold ns_row.
  change 0 with ((fun t : ns_term => snd t x) ns_d0) at 1.
  apply map_nth.
Qed.

Lemma nth_tl : forall (A : Type) (l : list A) n d, nth n (tl l) d = nth (S n) l d.
Proof. intros A l n d. destruct l as [|a l]; [destruct n|]; reflexivity. Qed.

Lemma natural_spline_nth : forall order knots (intercept : bool) (i : nat),
  ((if intercept then 0 else 1) <= i)%nat ->
  nth (i - (if intercept then 0 else 1))%nat (natural_spline order knots intercept) ns_d0
  = nth i (ns_all_terms order knots) ns_d0.
Proof.
  intros order knots intercept i Hi. unfold natural_spline. destruct intercept.
  - now rewrite Nat.sub_0_r.
  - rewrite nth_tl. f_equal. lia.
Qed.

Lemma ns_poly_terms_length : forall order, length (ns_poly_terms order) = S order.
Proof. intros. unfold ns_poly_terms. now rewrite map_length, seq_length. Qed.

Lemma nth_map_seq0 : forall (B : Type) (f : nat -> B) n j d, (j < n)%nat ->
  nth j (map f (seq 0 n)) d = f j.
Proof.
  intros B f n j d H. rewrite nth_indep with (d' := f 0%nat) by (now rewrite map_length, seq_length).
  rewrite map_nth, seq_nth by exact H. reflexivity.
Qed.

Lemma ns_all_nth_poly : forall order knots i, (i <= order)%nat ->
  nth i (ns_all_terms order knots) ns_d0 = (i, ns_poly i).
Proof.
  intros order knots i Hi. unfold ns_all_terms.
  rewrite app_nth1 by (rewrite ns_poly_terms_length; lia).
  unfold ns_poly_terms. now rewrite nth_map_seq0 by lia.
Qed.

Lemma ns_knot_terms_nth : forall order knots j0 j, (j < length knots)%nat ->
  nth j (ns_knot_terms order j0 knots) ns_d0
  = ((j0 + j + order + 1)%nat, ns_knot order (nth j knots 0)).
Proof.
  intros order knots. induction knots as [|k ks IH]; intros j0 j Hj; cbn [length] in Hj.
  - lia.
  - destruct j as [|j]; cbn [ns_knot_terms nth].
    + now rewrite Nat.add_0_r.
    + rewrite IH by lia. f_equal. lia.
Qed.

Lemma ns_all_nth_knot : forall order knots j, (j < length knots)%nat ->
  nth (order + 1 + j) (ns_all_terms order knots) ns_d0
  = ((j + order + 1)%nat, ns_knot order (nth j knots 0)).
Proof.
  intros order knots j Hj. unfold ns_all_terms.
  rewrite app_nth2 by (rewrite ns_poly_terms_length; lia).
  rewrite ns_poly_terms_length.
  replace (order + 1 + j - S order)%nat with j by lia.
  now rewrite ns_knot_terms_nth by exact Hj.
Qed.

(* the polynomial columns: entry of term ns_i is x**i *)
Lemma ns_poly_column : forall order knots (intercept : bool) x (i : nat),
  ((if intercept then 0 else 1) <= i <= order)%nat ->
  nth (i - (if intercept then 0 else 1))%nat (ns_row (natural_spline order knots intercept) x) 0
  = qpow x i.
Proof.
  intros order knots intercept x i [H1 H2].
  rewrite ns_row_nth, natural_spline_nth by exact H1.
  now rewrite ns_all_nth_poly by exact H2.
Qed.

Lemma ns_knot_spec : forall order k x,
  (x <= k -> ns_knot order k x == 0) /\ (k < x -> ns_knot order k x == qpow (x - k) order).
Proof.
  intros order k x. unfold ns_knot, qgreater.
  destruct (Qle_bool x k) eqn:E.
  - apply Qle_bool_iff in E. split; intros H; [ring | lra].
  - assert (~ x <= k) as N by (intros H; apply Qle_bool_iff in H; congruence).
    split; intros H; [contradiction | ring].
Qed.

(* the knot columns: entry of the j-th knot's term is 0 up to and INCLUDING the knot, (x-k)**order after it *)
Lemma ns_knot_column : forall order knots (intercept : bool) x (j : nat),
  (j < length knots)%nat ->
  let k := nth j knots 0 in
  let v := nth (order + 1 + j - (if intercept then 0 else 1))%nat
               (ns_row (natural_spline order knots intercept) x) 0 in
  (x <= k -> v == 0) /\ (k < x -> v == qpow (x - k) order).
Proof.
  intros order knots intercept x j Hj k v. subst v.
  rewrite ns_row_nth, natural_spline_nth by (destruct intercept; lia).
  rewrite ns_all_nth_knot by exact Hj. cbn [snd]. apply ns_knot_spec.
Qed.

(* order 0: a knot's column is the step function [x > k] (piecewise-constant basis) *)
Lemma ns_knot_order0 : forall k x,
  (x <= k -> ns_knot 0 k x == 0) /\ (k < x -> ns_knot 0 k x == 1).
Proof.
  intros k x. destruct (ns_knot_spec 0 k x) as [A B]. split; intros H.
  - now apply A.
  - rewrite (B H). reflexivity.
Qed.

(* order >= 1: the code's expression is the truncated power max(x-k,0)**order *)
Lemma ns_knot_trunc_power : forall order k x, (1 <= order)%nat ->
  ns_knot order k x == trunc_power order k x.
Proof.
  intros order k x Ho. destruct order as [|m]; [lia|].
  unfold ns_knot, trunc_power, qgreater, qmax0.
  destruct (Qle_bool x k) eqn:E; destruct (Qle_bool (x - k) 0) eqn:F.
  - cbn [qpow]. ring.
  - apply Qle_bool_iff in E.
    assert (x - k <= 0) as H by lra. apply Qle_bool_iff in H. congruence.
  - apply Qle_bool_iff in F.
    assert (x <= k) as H by lra. apply Qle_bool_iff in H. congruence.
  - ring.
Qed.

(* ... and NOT for order 0: max(x-k,0)**0 is 1 everywhere, the code's column is 0 up to the knot *)
Lemma ns_knot_trunc_power_order0_differs : exists k x, ~ ns_knot 0 k x == trunc_power 0 k x.
Proof. exists 1, 0. vm_compute. discriminate. Qed.

(* left of (or at) every knot the row is the pure polynomial row 1, x, ..., x**order followed by zeros *)
Lemma ns_knot_terms_row_zero : forall order knots j0 x,
  (forall k, In k knots -> x <= k) ->
  Forall (fun v => v == 0) (ns_row (ns_knot_terms order j0 knots) x).
Proof.
  intros order knots. induction knots as [|k ks IH]; intros j0 x H; cbn [ns_knot_terms ns_row map].
  - constructor.
  - constructor.
    + cbn [snd]. apply ns_knot_spec. apply H. now left.
    + apply IH. intros k' Hk'. apply H. now right.
Qed.
