(* C10 - executable model of formulae.natural_spline
   (nipy/algorithms/statistics/formula/formulae.py l.950-1007) and of the columns its
   Formula.design produces (also reached through fmri.design.natural_spline).

     fns = []
     for i in range(order+1):           f(x) = x**i                          name 'ns_%d' % i
         fns.append(...)
     for j, k in enumerate(knots):      f(x) = (x-k)**order * np.greater(x, k)   name 'ns_%d' % (j+i+1)   [i = order here]
         fns.append(...)
     if not intercept: fns.pop(0)
     Formula(fns)

   Definitions only; proofs are in Proofs4.v.  Data, knots are exact rationals (Q); `order` is a nat.
   numpy's power: x**0 = 1 for every x (also 0**0 = 1) = qpow below.
   np.greater(x, k) is the STRICT comparison k < x, multiplied in as 1 / 0. *)
From Coq Require Import List Bool ZArith QArith Lia.
Import ListNotations.
Open Scope Q_scope.

Fixpoint qpow (x : Q) (n : nat) : Q :=
  match n with O => 1 | S m => x * qpow x m end.

(* np.greater(x, k) as a number *)
Definition qgreater (x k : Q) : Q := if Qle_bool x k then 0 else 1.

(* first loop: x**i *)
Definition ns_poly (i : nat) (x : Q) : Q := qpow x i.

(* second loop: (x-k)**order * np.greater(x, k) *)
Definition ns_knot (order : nat) (k x : Q) : Q := qpow (x - k) order * qgreater x k.

(* a spline term = (index in its name 'ns_<index>', function) *)
Definition ns_term := (nat * (Q -> Q))%type.

Definition ns_poly_terms (order : nat) : list ns_term :=
  map (fun i => (i, ns_poly i)) (seq 0 (S order)).

(* enumerate(knots): j from `j0`;   name index j + order + 1 *)
Fixpoint ns_knot_terms (order : nat) (j0 : nat) (knots : list Q) : list ns_term :=
  match knots with
  | [] => []
  | k :: ks => ((j0 + order + 1)%nat, ns_knot order k) :: ns_knot_terms order (S j0) ks
  end.

Definition ns_all_terms (order : nat) (knots : list Q) : list ns_term :=
  ns_poly_terms order ++ ns_knot_terms order 0 knots.

(* `if not intercept: fns.pop(0)` *)
Definition natural_spline (order : nat) (knots : list Q) (intercept : bool) : list ns_term :=
  if intercept then ns_all_terms order knots else tl (ns_all_terms order knots).

Definition ns_names (ts : list ns_term) : list nat := map fst ts.

(* Formula.design of that formula on the data xs: one row per datum, one entry per term (term order) *)
Definition ns_row (ts : list ns_term) (x : Q) : list Q := map (fun t => snd t x) ts.
Definition ns_design (order : nat) (knots : list Q) (intercept : bool) (xs : list Q) : list (list Q) :=
  map (ns_row (natural_spline order knots intercept)) xs.

(* the truncated-power form  max(x - k, 0)**order  (what a spline text book writes) *)
Definition qmax0 (x : Q) : Q := if Qle_bool x 0 then 0 else x.
Definition trunc_power (order : nat) (k x : Q) : Q := qpow (qmax0 (x - k)) order.

(* harness comparison *)
Fixpoint qrow_eqb (a b : list Q) : bool :=
  match a, b with
  | [], [] => true
  | x :: a', y :: b' => Qeq_bool x y && qrow_eqb a' b'
  | _, _ => false
  end.
Fixpoint qrows_eqb (a b : list (list Q)) : bool :=
  match a, b with
  | [], [] => true
  | x :: a', y :: b' => qrow_eqb x y && qrows_eqb a' b'
  | _, _ => false
  end.
Fixpoint natl_eqb (a b : list nat) : bool :=
  match a, b with
  | [], [] => true
  | x :: a', y :: b' => Nat.eqb x y && natl_eqb a' b'
  | _, _ => false
  end.
(* names and design together *)
Definition ns_agrees (order : nat) (knots : list Q) (intercept : bool) (xs : list Q)
           (names : list nat) (rows : list (list Q)) : bool :=
  natl_eqb (ns_names (natural_spline order knots intercept)) names &&
  qrows_eqb (ns_design order knots intercept xs) rows.
