(* C10 - lemmas about the time-course side (utils.py) *)
From Coq Require Import List Bool ZArith QArith Qround Lia Lqa Permutation Setoid Morphisms.
From NV.C10 Require Import Model.
Import ListNotations.
Open Scope Q_scope.

(* ---------------- comparisons ---------------- *)
Lemma Qle_bool_false : forall a x, Qle_bool a x = false -> x < a.
Proof.
  intros a x H. apply Qnot_le_lt. intro L. apply Qle_bool_iff in L. congruence.
Qed.

Lemma Qle_bool_false_intro : forall a x, x < a -> Qle_bool a x = false.
Proof.
  intros a x H. destruct (Qle_bool a x) eqn:E; [|reflexivity].
  apply Qle_bool_iff in E. lra.
Qed.

Lemma Qle_bool_true_intro : forall a x, a <= x -> Qle_bool a x = true.
Proof. intros a x H. now apply Qle_bool_iff. Qed.

(* ---------------- step_function ---------------- *)
Lemma fold_none : forall x l acc,
  (forall p, In p l -> xle (fst p) x = false) -> fold_left (step1 x) l acc = acc.
Proof.
  intros x l; induction l as [|p l IH]; intros acc H; cbn [fold_left]; [reflexivity|].
  unfold step1 at 2. rewrite (H p (or_introl eq_refl)). apply IH.
  intros q Hq. apply H. now right.
Qed.

Lemma step_last_wins : forall fill l1 t v l2 x,
  xle t x = true ->
  (forall p, In p l2 -> xle (fst p) x = false) ->
  step_eval fill (l1 ++ (t, v) :: l2) x = v.
Proof.
  intros fill l1 t v l2 x Ht H2. unfold step_eval.
  rewrite fold_left_app. cbn [fold_left]. unfold step1 at 2. cbn [fst snd].
  rewrite Ht. now apply fold_none.
Qed.

Lemma step_none_fill : forall fill l x,
  (forall p, In p l -> xle (fst p) x = false) -> step_eval fill l x = fill.
Proof. intros. now apply fold_none. Qed.

Lemma increasing_from_gt : forall l lo p, increasing_from lo l -> In p l -> lo < fst p.
Proof.
  induction l as [|[t v] l IH]; intros lo p H Hin; [contradiction|].
  cbn [increasing_from] in H. destruct H as [H1 H2]. destruct Hin as [<-|Hin]; [exact H1|].
  specialize (IH t p H2 Hin). lra.
Qed.

Lemma step_hits_from : forall l lo fill t v,
  increasing_from lo l -> In (t, v) l ->
  fold_left (step1 t) (fin_pairs l) fill = v.
Proof.
  induction l as [|[t0 v0] l IH]; intros lo fill t v H Hin; [contradiction|].
  cbn [increasing_from] in H. destruct H as [H1 H2].
  cbn [fin_pairs map fold_left fst snd]. destruct Hin as [E|Hin].
  - inversion E; subst t0 v0. unfold step1 at 2. cbn [fst snd xle].
    rewrite (Qle_bool_true_intro t t) by lra.
    apply fold_none. intros p Hp. unfold fin_pairs in Hp. apply in_map_iff in Hp.
    destruct Hp as [q [<- Hq]]. cbn [fst xle]. apply Qle_bool_false_intro.
    now apply (increasing_from_gt l t q).
  - now apply (IH t0).
Qed.

Lemma step_hits_samples : forall l fill t v,
  increasing l -> In (t, v) l -> step_eval fill (fin_pairs l) t = v.
Proof.
  intros [|[t0 v0] l] fill t v H Hin; [contradiction|].
  unfold step_eval. cbn [increasing] in H. destruct Hin as [E|Hin].
  - inversion E; subst t0 v0. cbn [fin_pairs map fold_left fst snd].
    unfold step1 at 2. cbn [fst snd xle]. rewrite (Qle_bool_true_intro t t) by lra.
    apply fold_none. intros p Hp. unfold fin_pairs in Hp. apply in_map_iff in Hp.
    destruct Hp as [q [<- Hq]]. cbn [fst xle]. apply Qle_bool_false_intro.
    now apply (increasing_from_gt l t q).
  - cbn [fin_pairs map fold_left]. now apply (step_hits_from l t0).
Qed.

Lemma step_before_first : forall l fill t0 v0 x,
  increasing ((t0, v0) :: l) -> x < t0 -> step_eval fill (fin_pairs ((t0, v0) :: l)) x = fill.
Proof.
  intros l fill t0 v0 x H Hx. apply step_none_fill. intros p Hp.
  unfold fin_pairs in Hp. apply in_map_iff in Hp. destruct Hp as [q [<- Hq]].
  cbn [fst xle]. apply Qle_bool_false_intro. destruct Hq as [<-|Hq]; [exact Hx|].
  cbn [increasing] in H. pose proof (increasing_from_gt l t0 q H Hq). cbn [fst]. lra.
Qed.

(* ---------------- blocks ---------------- *)
Lemma blocks_fold_gt : forall x l lo acc,
  sorted_blocks lo l -> x < lo -> fold_left (step1 x) (blocks_tv l) acc = acc.
Proof.
  intros x l; induction l as [|[[a b] amp] l IH]; intros lo acc H Hx; [reflexivity|].
  cbn [sorted_blocks] in H. destruct H as [H1 [H2 H3]].
  cbn [blocks_tv fold_left]. unfold step1 at 2 3. cbn [fst snd xle].
  rewrite (Qle_bool_false_intro a x) by lra. rewrite (Qle_bool_false_intro b x) by lra.
  apply (IH b); [exact H3|lra].
Qed.

Lemma lookup_gt : forall x l lo, sorted_blocks lo l -> x < lo -> find (in_block x) l = None.
Proof.
  intros x l; induction l as [|[[a b] amp] l IH]; intros lo H Hx; [reflexivity|].
  cbn [sorted_blocks] in H. destruct H as [H1 [H2 H3]].
  cbn [find]. unfold in_block at 1. cbn [fst snd].
  rewrite (Qle_bool_false_intro a x) by lra. cbn [andb].
  apply (IH b); [exact H3|lra].
Qed.

Lemma blocks_fold_value : forall x l lo,
  sorted_blocks lo l -> fold_left (step1 x) (blocks_tv l) 0 = block_lookup l x.
Proof.
  intros x l; induction l as [|[[a b] amp] l IH]; intros lo H; [reflexivity|].
  cbn [sorted_blocks] in H. destruct H as [H1 [H2 H3]].
  cbn [blocks_tv fold_left]. unfold block_lookup. cbn [find].
  unfold step1 at 2 3. unfold in_block at 1. cbn [fst snd xle].
  destruct (Qle_bool a x) eqn:Ea.
  - destruct (Qle_bool b x) eqn:Eb; cbn [andb negb snd].
    + apply (IH b H3).
    + apply Qle_bool_false in Eb. now apply (blocks_fold_gt x l b).
  - apply Qle_bool_false in Ea. rewrite (Qle_bool_false_intro b x) by lra. cbn [andb].
    rewrite (lookup_gt x l b) by (try exact H3; lra).
    apply (blocks_fold_gt x l b); [exact H3|lra].
Qed.

Lemma blocks_value_sorted : forall l lo x, sorted_blocks lo l -> blocks_pairs l x = block_lookup l x.
Proof.
  intros l lo x H. unfold blocks_pairs, step_eval. cbn [fold_left].
  rewrite fold_left_app. cbn [fold_left]. unfold step1 at 1 3. cbn [fst snd xle].
  now apply (blocks_fold_value x l lo).
Qed.

(* ---------------- events ---------------- *)
Lemma qsum_nil : qsum [] = 0. Proof. reflexivity. Qed.
Lemma qsum_cons : forall x l, qsum (x :: l) = x + qsum l. Proof. reflexivity. Qed.
Lemma fold_plus_acc : forall (A : Type) (h : A -> Q) l acc,
  fold_left (fun e p => e + h p) l acc == acc + qsum (map h l).
Proof.
  intros A h l; induction l as [|p l IH]; intros acc; cbn [fold_left map].
  - rewrite qsum_nil. ring.
  - rewrite IH, qsum_cons. ring.
Qed.

Lemma events_sum : forall f g ev x,
  events_pairs f g ev x == qsum (map (fun p => g (snd p) * f (x - fst p)) ev).
Proof.
  intros. unfold events_pairs.
  rewrite (fold_plus_acc _ (fun p => g (snd p) * f (x - fst p))). ring.
Qed.

Lemma qsum_app : forall a b, qsum (a ++ b) == qsum a + qsum b.
Proof.
  induction a as [|x a IH]; intros b; cbn [app].
  - rewrite qsum_nil. ring.
  - rewrite !qsum_cons, IH. ring.
Qed.

Lemma events_app : forall f g e1 e2 x,
  events_pairs f g (e1 ++ e2) x == events_pairs f g e1 x + events_pairs f g e2 x.
Proof.
  intros. rewrite !events_sum, map_app. apply qsum_app.
Qed.

Lemma qsum_perm : forall a b, Permutation a b -> qsum a == qsum b.
Proof.
  intros a b P; induction P as [|x a b P IH|x y a|a b c P1 IH1 P2 IH2].
  - reflexivity.
  - rewrite !qsum_cons, IH. reflexivity.
  - rewrite !qsum_cons. ring.
  - now rewrite IH1.
Qed.

Lemma events_perm : forall f g e1 e2 x,
  Permutation e1 e2 -> events_pairs f g e1 x == events_pairs f g e2 x.
Proof.
  intros. rewrite !events_sum. apply qsum_perm. now apply Permutation_map.
Qed.

Lemma events_coincident : forall f g t a b x,
  events_pairs f g [(t, a); (t, b)] x == (g a + g b) * f (x - t).
Proof. intros. unfold events_pairs. cbn [fold_left fst snd]. ring. Qed.

(* ---------------- interp ---------------- *)
Lemma interp_seg_hit : forall r t0 v0 t v,
  increasing_from t0 r -> In (t, v) ((t0, v0) :: r) -> interp_seg t0 v0 r t == v.
Proof.
  induction r as [|[t1 v1] r IH]; intros t0 v0 t v H Hin.
  - destruct Hin as [E|[]]. inversion E. reflexivity.
  - cbn [increasing_from] in H. destruct H as [H1 H2]. cbn [interp_seg].
    destruct Hin as [E|[E|Hin]].
    + inversion E; subst t0 v0. rewrite (Qle_bool_true_intro t t1) by lra.
      field. lra.
    + inversion E; subst t1 v1. rewrite (Qle_bool_true_intro t t) by lra.
      field. lra.
    + pose proof (increasing_from_gt r t1 (t, v) H2 Hin) as G. cbn [fst] in G.
      rewrite (Qle_bool_false_intro t t1) by exact G.
      apply IH; [exact H2|now right].
Qed.

Lemma last_cons : forall (l : list Q) a d, last (a :: l) d = last l a.
Proof.
  induction l as [|b l IH]; intros a d; [reflexivity|].
  change (last (a :: b :: l) d) with (last (b :: l) d). now rewrite !IH.
Qed.

Lemma last_time_ge : forall r t0, increasing_from t0 r ->
  t0 <= last_time t0 r /\ forall p, In p r -> fst p <= last_time t0 r.
Proof.
  induction r as [|[t1 v1] r IH]; intros t0 H.
  - unfold last_time; cbn. split; [lra|intros p []].
  - cbn [increasing_from] in H. destruct H as [H1 H2].
    assert (L : last_time t0 ((t1, v1) :: r) = last_time t1 r).
    { unfold last_time. cbn [map fst]. apply last_cons. }
    rewrite L. destruct (IH t1 H2) as [B1 B2]. split; [lra|].
    intros p [E|Hp]; [rewrite <- E; exact B1|now apply B2].
Qed.

Lemma interp_hits : forall fill pts t v,
  increasing pts -> In (t, v) pts ->
  exists y, interp_eval fill pts t = Some y /\ y == v.
Proof.
  intros fill [|[t0 v0] r] t v H Hin; [contradiction|].
  cbn [increasing] in H. cbn [interp_eval]. eexists. split; [reflexivity|].
  assert (G1 : Qlt_b t t0 = false).
  { unfold Qlt_b. destruct Hin as [E|Hin].
    - inversion E. rewrite (Qle_bool_true_intro t t) by lra. reflexivity.
    - pose proof (increasing_from_gt r t0 (t, v) H Hin) as G. cbn [fst] in G.
      rewrite (Qle_bool_true_intro t0 t) by lra. reflexivity. }
  assert (G2 : Qlt_b (last_time t0 r) t = false).
  { unfold Qlt_b. assert (B : t <= last_time t0 r).
    { destruct (last_time_ge r t0 H) as [B1 B2]. destruct Hin as [E|Hin].
      - inversion E; subst t0 v0. exact B1.
      - apply (B2 (t, v) Hin). }
    rewrite (Qle_bool_true_intro _ _ B). reflexivity. }
  rewrite G1, G2. cbn [orb]. now apply interp_seg_hit.
Qed.

Lemma interp_fill_below : forall fill t0 v0 r x,
  x < t0 -> interp_eval fill ((t0, v0) :: r) x = Some fill.
Proof.
  intros. cbn [interp_eval]. unfold Qlt_b at 1. rewrite (Qle_bool_false_intro t0 x) by assumption.
  reflexivity.
Qed.

Lemma interp_fill_above : forall fill t0 v0 r x,
  last_time t0 r < x -> interp_eval fill ((t0, v0) :: r) x = Some fill.
Proof.
  intros. cbn [interp_eval]. unfold Qlt_b at 2. rewrite (Qle_bool_false_intro x (last_time t0 r)) by assumption.
  cbn [negb]. now rewrite orb_true_r.
Qed.

(* ---------------- convolution ---------------- *)
Lemma nth_vadd : forall a b k, nth k (vadd a b) 0 == nth k a 0 + nth k b 0.
Proof.
  induction a as [|x a IH]; intros b k.
  - cbn [vadd]. destruct k; cbn [nth]; ring.
  - destruct b as [|y b]; cbn [vadd].
    + destruct k; cbn [nth]; ring.
    + destruct k; cbn [nth]; [ring|apply IH].
Qed.

Lemma nth_map_mult : forall a g k, nth k (map (Qmult a) g) 0 == a * nth k g 0.
Proof.
  intros a g; induction g as [|y g IH]; intros k; destruct k; cbn [map nth]; try ring. apply IH.
Qed.

Lemma qsum_map_ext : forall (A : Type) (h1 h2 : A -> Q) l,
  (forall i, In i l -> h1 i == h2 i) -> qsum (map h1 l) == qsum (map h2 l).
Proof.
  intros A h1 h2 l; induction l as [|i l IH]; intros H; cbn [map]; [reflexivity|].
  rewrite !qsum_cons.
  rewrite (H i (or_introl eq_refl)). rewrite IH; [reflexivity|]. intros j Hj. apply H. now right.
Qed.

Lemma conv_at_cons : forall a f g k,
  conv_at (a :: f) g k == a * nth k g 0 + match k with O => 0 | S k' => conv_at f g k' end.
Proof.
  intros a f g k. unfold conv_at.
  change (seq 0 (S k)) with (0%nat :: seq 1 k). cbn [map]. rewrite qsum_cons. cbn [nth].
  rewrite Nat.sub_0_r. apply Qplus_comp; [reflexivity|].
  destruct k as [|k'].
  - reflexivity.
  - rewrite <- seq_shift, map_map.
    apply qsum_map_ext. intros i _. cbn [nth Nat.sub]. reflexivity.
Qed.

Lemma conv_at_nil : forall g k, conv_at [] g k == 0.
Proof.
  intros g k. unfold conv_at.
  assert (H : forall l, qsum (map (fun i => nth i (@nil Q) 0 * nth (k - i) g 0) l) == 0).
  { induction l as [|i l IH]; cbn [map]; [reflexivity|].
    rewrite qsum_cons, IH.
    destruct i; cbn [nth]; ring. }
  apply H.
Qed.

Lemma conv_nth : forall f g k, nth k (conv f g) 0 == conv_at f g k.
Proof.
  induction f as [|a f IH]; intros g k.
  - cbn [conv]. rewrite conv_at_nil. destruct k; reflexivity.
  - cbn [conv]. rewrite nth_vadd, nth_map_mult, conv_at_cons.
    apply Qplus_comp; [reflexivity|].
    destruct f as [|b f'].
    + destruct k as [|k']; cbn [nth]; [reflexivity|]. rewrite conv_at_nil. destruct k'; reflexivity.
    + destruct k as [|k']; cbn [nth]; [reflexivity|]. apply IH.
Qed.

Lemma vadd_length : forall a b, length (vadd a b) = Nat.max (length a) (length b).
Proof.
  induction a as [|x a IH]; intros [|y b]; cbn [vadd length]; try reflexivity.
  rewrite IH. reflexivity.
Qed.

Lemma conv_length : forall f g, f <> [] -> g <> [] ->
  length (conv f g) = (length f + length g - 1)%nat.
Proof.
  induction f as [|a f IH]; intros g Hf Hg; [congruence|].
  cbn [conv]. rewrite vadd_length, map_length.
  destruct f as [|b f'].
  - cbn [length]. destruct g; [congruence|]. cbn [length]. lia.
  - cbn [length]. rewrite IH by (try exact Hg; discriminate). cbn [length].
    destruct g; [congruence|]. cbn [length]. lia.
Qed.

Lemma nth_map_lt : forall (A B : Type) (h : A -> B) l k d d', (k < length l)%nat ->
  nth k (map h l) d = h (nth k l d').
Proof.
  intros A B h l; induction l as [|a l IH]; intros k d d' H; cbn [length] in H; [lia|].
  destruct k; cbn [map nth]; [reflexivity|]. apply IH. lia.
Qed.

Lemma grid_length : forall mn dt n, length (grid mn dt n) = n.
Proof. intros. unfold grid. now rewrite map_length, seq_length. Qed.

Lemma grid_nth : forall mn dt n k, (k < n)%nat ->
  nth k (grid mn dt n) 0 = mn + inject_Z (Z.of_nat k) * dt.
Proof.
  intros mn dt n k H. unfold grid.
  rewrite (nth_map_lt _ _ _ _ _ _ 0%nat) by (now rewrite seq_length).
  rewrite seq_nth by assumption. reflexivity.
Qed.

Lemma nth_map_in : forall (F : Q -> Q) l k, (k < length l)%nat -> nth k (map F l) 0 = F (nth k l 0).
Proof.
  intros F l k H. now apply nth_map_lt.
Qed.

Lemma nth_map_out : forall (F : Q -> Q) l k, (length l <= k)%nat -> nth k (map F l) 0 = 0.
Proof. intros. apply nth_overflow. now rewrite map_length. Qed.

(* sample i of the discretised function, 0 outside the grid *)
Definition sample (F : Q -> Q) (mn dt : Q) (n i : nat) : Q :=
  if Nat.ltb i n then F (mn + inject_Z (Z.of_nat i) * dt) else 0.

Lemma nth_samples : forall F mn dt n i, nth i (map F (grid mn dt n)) 0 = sample F mn dt n i.
Proof.
  intros. unfold sample. destruct (Nat.ltb i n) eqn:E.
  - apply Nat.ltb_lt in E. rewrite nth_map_in by (now rewrite grid_length).
    now rewrite grid_nth.
  - apply Nat.ltb_ge in E. apply nth_map_out. now rewrite grid_length.
Qed.

Lemma conv_fx_gx_length : forall fv gv dt mnf mng, fv <> [] -> gv <> [] ->
  length (conv_fx_gx fv gv dt mnf mng) = (length fv + length gv - 1)%nat.
Proof.
  intros. unfold conv_fx_gx. cbv zeta. rewrite combine_length. repeat rewrite ?map_length, ?seq_length.
  rewrite Nat.min_id. now apply conv_length.
Qed.

Lemma conv_fx_gx_nth : forall fv gv dt mnf mng k, (k < length (conv fv gv))%nat ->
  exists v, nth k (conv_fx_gx fv gv dt mnf mng) (0, 0)
            = (inject_Z (Z.of_nat k) * dt + mnf + mng, v)
            /\ v == dt * conv_at fv gv k.
Proof.
  intros fv gv dt mnf mng k H. unfold conv_fx_gx. cbv zeta.
  rewrite combine_nth by (repeat rewrite ?map_length, ?seq_length; reflexivity).
  eexists. split.
  - f_equal.
    rewrite (nth_map_lt _ _ _ _ _ _ 0%nat) by (repeat rewrite ?map_length, ?seq_length; assumption).
    rewrite map_length, seq_nth by assumption. reflexivity.
  - rewrite (nth_map_lt _ _ _ _ _ _ 0) by assumption.
    rewrite conv_nth. ring.
Qed.

(* the Riemann sum that "direct numerical convolution" means, written on the
   functions: sum over grid points s_i = mnf + i dt of F(s_i) G(mng + (k-i) dt) *)
Definition riemann (F G : Q -> Q) (mnf mng dt : Q) (nf ng k : nat) : Q :=
  qsum (map (fun i => sample F mnf dt nf i * sample G mng dt ng (k - i)) (seq 0 (S k))).

Lemma conv_at_samples : forall F G mnf mng dt nf ng k,
  conv_at (map F (grid mnf dt nf)) (map G (grid mng dt ng)) k = riemann F G mnf mng dt nf ng k.
Proof.
  intros. unfold conv_at, riemann. f_equal. apply map_ext. intros i.
  now rewrite !nth_samples.
Qed.

Lemma time_origin : forall mnf mng dt (k i : nat), (i <= k)%nat ->
  (inject_Z (Z.of_nat k) * dt + mnf + mng) - (mnf + inject_Z (Z.of_nat i) * dt)
  == mng + inject_Z (Z.of_nat (k - i)) * dt.
Proof.
  intros. rewrite Nat2Z.inj_sub by assumption. rewrite inject_Z_plus || idtac.
  unfold Zminus. rewrite inject_Z_plus, inject_Z_opp. ring.
Qed.

(* ---------------- arange ---------------- *)
Lemma lt_ceiling_iff : forall (z : Z) (x : Q), inject_Z z < x <-> (z < Qceiling x)%Z.
Proof.
  intros z x. split; intros H.
  - rewrite Zlt_Qlt. pose proof (Qle_ceiling x). lra.
  - pose proof (Qceiling_lt x) as C.
    assert (L : (z <= Qceiling x - 1)%Z) by lia. rewrite Zle_Qle in L. lra.
Qed.

Lemma lt_div_iff : forall a b c, 0 < c -> (a < b / c <-> a * c < b).
Proof.
  intros a b c Hc. split; intros H.
  - assert (E : b / c * c == b) by (field; lra).
    rewrite <- E. apply Qmult_lt_compat_r; assumption.
  - now apply Qlt_shift_div_l.
Qed.

Lemma arange_len_spec : forall mn mx dt k, 0 < dt ->
  ((k < arange_len mn mx dt)%nat <-> mn + inject_Z (Z.of_nat k) * dt < mx).
Proof.
  intros mn mx dt k Hdt. unfold arange_len.
  assert (A : (k < Z.to_nat (Qceiling ((mx - mn) / dt)))%nat <-> (Z.of_nat k < Qceiling ((mx - mn) / dt))%Z) by lia.
  rewrite A, <- lt_ceiling_iff, lt_div_iff by assumption. split; intros; lra.
Qed.

(* ---------------- blocks in any order (sorted by interval first, 4e8ac11) ---------------- *)
Lemma blocks_sentinels : forall l x, blocks_pairs l x = step_eval 0 (blocks_tv l) x.
Proof.
  intros l x. unfold blocks_pairs, step_eval. cbn [fold_left].
  rewrite fold_left_app. cbn [fold_left]. unfold step1 at 1 3. cbn [fst snd xle]. reflexivity.
Qed.

Lemma key_le_true : forall p q, key_le p q = true ->
  fst (fst p) < fst (fst q) \/ (fst (fst p) == fst (fst q) /\ snd (fst p) <= snd (fst q)).
Proof.
  intros p q H. unfold key_le in H. apply orb_true_iff in H. destruct H as [H|H].
  - left. unfold Qlt_b in H. apply negb_true_iff in H. now apply Qle_bool_false.
  - right. apply andb_true_iff in H. destruct H as [H1 H2]. split.
    + now apply Qeq_bool_iff. + now apply Qle_bool_iff.
Qed.

Lemma key_le_false : forall p q, key_le p q = false ->
  fst (fst q) <= fst (fst p) /\ ~ (fst (fst p) == fst (fst q) /\ snd (fst p) <= snd (fst q)).
Proof.
  intros p q H. unfold key_le in H. apply orb_false_iff in H. destruct H as [H1 H2]. split.
  - unfold Qlt_b in H1. apply negb_false_iff in H1. now apply Qle_bool_iff.
  - intros [E L]. apply andb_false_iff in H2. destruct H2 as [H2|H2].
    + apply Qeq_bool_iff in E. congruence.
    + apply Qle_bool_iff in L. congruence.
Qed.

Lemma insert_in : forall p l b, In b (insert_block p l) <-> b = p \/ In b l.
Proof.
  intros p l b; induction l as [|q r IH]; cbn [insert_block].
  - cbn. intuition.
  - destruct (key_le p q); cbn [In]; [intuition|]. rewrite IH. cbn [In]. intuition.
Qed.

Lemma sort_in : forall l b, In b (sort_blocks l) <-> In b l.
Proof.
  induction l as [|p l IH]; intros b; [reflexivity|].
  change (sort_blocks (p :: l)) with (insert_block p (sort_blocks l)). rewrite insert_in, IH. cbn [In]. intuition.
Qed.

Lemma insert_sorted : forall p l,
  fst (fst p) <= snd (fst p) -> Forall (disjoint2 p) l -> sorted_strong l ->
  sorted_strong (insert_block p l).
Proof.
  intros p l Hp; induction l as [|q r IH]; intros D S.
  - cbn. repeat split; [exact Hp|constructor].
  - cbn [sorted_strong] in S. destruct S as [Hq [Fq Sr]].
    inversion D as [|q' r' Dq Dr]; subst. cbn [insert_block].
    destruct (key_le p q) eqn:K.
    + apply key_le_true in K. cbn [sorted_strong].
      assert (A : snd (fst p) <= fst (fst q)).
      { unfold disjoint2 in Dq. destruct Dq as [Dq|Dq]; [exact Dq|]. destruct K as [K|[K1 K2]]; lra. }
      split; [exact Hp|]. split; [|split; [exact Hq|split; [exact Fq|exact Sr]]].
      constructor; [exact A|]. apply Forall_forall. intros s Hs.
      rewrite Forall_forall in Fq. specialize (Fq s Hs). lra.
    + apply key_le_false in K. destruct K as [K1 K2]. cbn [sorted_strong].
      split; [exact Hq|]. split; [|now apply IH].
      apply Forall_forall. intros s Hs. apply (proj1 (insert_in p r s)) in Hs. destruct Hs as [->|Hs].
      * unfold disjoint2 in Dq. destruct Dq as [Dq|Dq]; [|exact Dq].
        destruct (Qlt_le_dec (snd (fst q)) (snd (fst p))) as [L|L]; [lra|].
        exfalso. apply K2. split; lra.
      * rewrite Forall_forall in Fq. now apply Fq.
Qed.

Lemma disjoint2_sym : forall p q, disjoint2 p q -> disjoint2 q p.
Proof. intros p q [H|H]; [right|left]; exact H. Qed.

Lemma sort_sorted : forall l, pairwise_disjoint l -> sorted_strong (sort_blocks l).
Proof.
  induction l as [|p l IH]; intros H; [exact I|].
  cbn [pairwise_disjoint] in H. destruct H as [Hp [D P]].
  change (sort_blocks (p :: l)) with (insert_block p (sort_blocks l)). apply insert_sorted; [exact Hp| |now apply IH].
  apply Forall_forall. intros b Hb. apply (proj1 (sort_in l b)) in Hb. rewrite Forall_forall in D. now apply D.
Qed.

Lemma strong_sorted_blocks : forall l lo, sorted_strong l ->
  (forall b, In b l -> lo <= fst (fst b)) -> sorted_blocks lo l.
Proof.
  induction l as [|[[a b] amp] l IH]; intros lo S B; [exact I|].
  cbn [sorted_strong fst snd] in S. destruct S as [H1 [F S]]. cbn [sorted_blocks].
  split; [apply (B (a, b, amp)); now left|]. split; [exact H1|].
  apply IH; [exact S|]. intros q Hq. rewrite Forall_forall in F. now apply F.
Qed.

Lemma strong_sorted_blocks_ex : forall l, sorted_strong l -> exists lo, sorted_blocks lo l.
Proof.
  intros [|p l] S; [exists 0; exact I|]. exists (fst (fst p)).
  apply strong_sorted_blocks; [exact S|]. intros b [<-|Hb]; [lra|].
  cbn [sorted_strong] in S. destruct S as [H1 [F _]]. rewrite Forall_forall in F. specialize (F b Hb). lra.
Qed.

Lemma in_block_iff : forall x b, in_block x b = true <-> fst (fst b) <= x /\ x < snd (fst b).
Proof.
  intros x b. unfold in_block. rewrite andb_true_iff, negb_true_iff. split; intros [H1 H2]; split.
  - now apply Qle_bool_iff. - now apply Qle_bool_false.
  - now apply Qle_bool_iff. - now apply Qle_bool_false_intro.
Qed.

Lemma lookup_sorted_unique : forall x l b, sorted_strong l -> In b l -> in_block x b = true ->
  block_lookup l x = snd b.
Proof.
  intros x l b; induction l as [|q r IH]; intros S Hin Hb; [contradiction|].
  cbn [sorted_strong] in S. destruct S as [Hq [F S]]. unfold block_lookup. cbn [find].
  destruct (in_block x q) eqn:Eq.
  - destruct Hin as [->|Hin]; [reflexivity|]. exfalso.
    rewrite Forall_forall in F. specialize (F b Hin).
    apply in_block_iff in Eq. apply in_block_iff in Hb. lra.
  - destruct Hin as [->|Hin]; [congruence|]. now apply IH.
Qed.

Lemma lookup_all_false : forall x l, (forall b, In b l -> in_block x b = false) -> block_lookup l x = 0.
Proof.
  intros x l H. unfold block_lookup. destruct (find (in_block x) l) eqn:E; [|reflexivity].
  apply find_some in E. destruct E as [E1 E2]. rewrite (H _ E1) in E2. discriminate.
Qed.

Lemma blocks_any_order : forall l x, pairwise_disjoint l ->
  blocks_sorted_pairs l x = block_lookup l x.
Proof.
  intros l x P. unfold blocks_sorted_pairs.
  pose proof (sort_sorted l P) as S. destruct (strong_sorted_blocks_ex _ S) as [lo SB].
  rewrite (blocks_value_sorted _ lo x SB).
  unfold block_lookup at 2. destruct (find (in_block x) l) eqn:E.
  - apply find_some in E. destruct E as [E1 E2].
    apply lookup_sorted_unique; [exact S|now apply (proj2 (sort_in l b))|exact E2].
  - apply lookup_all_false. intros b Hb. apply (proj1 (sort_in l b)) in Hb. now apply (find_none _ _ E).
Qed.

(* at most one listed block contains x *)
Lemma disjoint_unique : forall l x b, pairwise_disjoint l -> In b l -> in_block x b = true ->
  block_lookup l x = snd b.
Proof.
  intros l x b P Hin Hb. rewrite <- (blocks_any_order l x P). unfold blocks_sorted_pairs.
  pose proof (sort_sorted l P) as S. destruct (strong_sorted_blocks_ex _ S) as [lo SB].
  rewrite (blocks_value_sorted _ lo x SB).
  apply lookup_sorted_unique; [exact S|now apply (proj2 (sort_in l b))|exact Hb].
Qed.
