(* C14 (average-link part): Gallina model over Q of
     nipy/algorithms/clustering/hierarchical_clustering.py : fusion (l.243-298),
   the graph update of average_link_graph: clusters i and j become cluster k,
   the similarities to third clusters are averaged with the relative
   populations  fi = pop[i]/pop[k], fj = 1 - fi, double edges are summed.

   The graph is the list of its LIVE rows (source, target, weight); rows that
   the code has tombstoned ([-1,-1], -inf) never match i, j or k (all >= 0)
   and are not touched (checked on the implementation by the harness).
   Which of two duplicate rows keeps the sum depends on np.argsort's order
   among equal keys (not stable in the installed NumPy): results are
   compared as multisets of live rows (fusion_agrees).
   Domain of the correspondence: after relabelling every ordered pair occurs
   at most twice (true when the input has at most one row per ordered pair
   and no self loop); with three equal rows the code's pairwise loop adds
   into an already dead row - not modelled (fusion_domain is evaluated per case).
   Executable definitions only. *)
From Coq Require Import List Bool ZArith QArith Arith.
From NV.Generated Require Import ClusteringFrags.
Import ListNotations.

Definition edge := (Z * Z * Q)%type.
Definition mke (a b : Z) (w : Q) : edge := (a, b, w).
Definition e_src (e : edge) : Z := fst (fst e).
Definition e_dst (e : edge) : Z := snd (fst e).
Definition e_w (e : edge) : Q := snd e.

(* l.251-252, translated from source (Generated/ClusteringFrags.v); pop[j] = pop[k] - pop[i] as in average_link_graph *)
Definition fus_fi (pi pk : Z) : Q := src_fusion_fi (inject_Z pi) (inject_Z (pk - pi)) (inject_Z pk).
Definition fus_fj (pi pk : Z) : Q := src_fusion_fj (inject_Z pi) (inject_Z (pk - pi)) (inject_Z pk) (fus_fi pi pk).

(* l.256-258 / 265-267: rows whose column 0 is x: weight * f, column 0 := k *)
Definition scale_src (x k : Z) (f : Q) (e : edge) : edge :=
  if Z.eqb (e_src e) x then (k, e_dst e, e_w e * f) else e.
(* l.259-261 / 268-270: the same for column 1 *)
Definition scale_dst (x k : Z) (f : Q) (e : edge) : edge :=
  if Z.eqb (e_dst e) x then (e_src e, k, e_w e * f) else e.

Definition relabel1 (fi fj : Q) (i j k : Z) (e : edge) : edge :=
  scale_dst j k fj (scale_src j k fj (scale_dst i k fi (scale_src i k fi e))).

(* the four whole-array statements are maps, so their sequence is the map of the composition *)
Definition relabel (pi pk i j k : Z) (es : list edge) : list edge :=
  map (relabel1 (fus_fi pi pk) (fus_fj pi pk) i j k) es.

Definition same_pair (a b : Z) (e : edge) : bool := Z.eqb (e_src e) a && Z.eqb (e_dst e) b.

(* add w to the first row (a,b) of acc; None when there is none *)
Fixpoint add_to (a b : Z) (w : Q) (acc : list edge) : option (list edge) :=
  match acc with
  | [] => None
  | e :: r =>
      if same_pair a b e then Some ((a, b, e_w e + w) :: r)
      else match add_to a b w r with Some r' => Some (e :: r') | None => None end
  end.

(* l.275-298: among the rows that touch k, rows with the same (source, target)
   are summed into one row, the other one dies *)
Definition insert_edge (k : Z) (e : edge) (acc : list edge) : list edge :=
  if Z.eqb (e_src e) k || Z.eqb (e_dst e) k then
    match add_to (e_src e) (e_dst e) (e_w e) acc with Some acc' => acc' | None => e :: acc end
  else e :: acc.

Definition merge_dups (k : Z) (es : list edge) : list edge := fold_right (insert_edge k) [] es.

Definition fusion (pi pk i j k : Z) (es : list edge) : list edge :=
  merge_dups k (relabel pi pk i j k es).

(* observables: total weight and number of live rows of an ordered pair *)
Fixpoint wsum (es : list edge) (a b : Z) : Q :=
  match es with
  | [] => 0
  | e :: r => (if same_pair a b e then e_w e else 0) + wsum r a b
  end.

Fixpoint npair (es : list edge) (a b : Z) : nat :=
  match es with
  | [] => O
  | e :: r => ((if same_pair a b e then 1 else 0) + npair r a b)%nat
  end.

(* the stated linkage: mean similarity between two clusters (lists of items) *)
Fixpoint qsuml (l : list Q) : Q := match l with [] => 0 | x :: r => x + qsuml r end.
Definition total_sim {A} (sim : A -> A -> Q) (I C : list A) : Q :=
  qsuml (map (fun a => qsuml (map (sim a) C)) I).
Definition Qlen {A} (l : list A) : Q := inject_Z (Z.of_nat (length l)).
Definition mean_sim {A} (sim : A -> A -> Q) (I C : list A) : Q :=
  total_sim sim I C / (Qlen I * Qlen C).

(* correspondence checker: the live rows of the implementation after fusion
   are the model's rows as a multiset (weights compared as rationals) *)
Definition edge_eqb (e f : edge) : bool :=
  Z.eqb (e_src e) (e_src f) && Z.eqb (e_dst e) (e_dst f) && Qeq_bool (e_w e) (e_w f).
Definition count_e (e : edge) (l : list edge) : nat := length (filter (edge_eqb e) l).
Definition multiset_eqb (out expected : list edge) : bool :=
  Nat.eqb (length out) (length expected) &&
  forallb (fun e => Nat.eqb (count_e e out) (count_e e expected)) expected.
Definition fusion_domain (pi pk i j k : Z) (es : list edge) : bool :=
  let r := relabel pi pk i j k es in
  forallb (fun e => Nat.leb (npair r (e_src e) (e_dst e)) 2) r.
Definition fusion_agrees (pi pk i j k : Z) (es expected : list edge) : bool :=
  if fusion_domain pi pk i j k es then multiset_eqb (fusion pi pk i j k es) expected else false.
