(* C14 (average-link part): proofs about ModelAL.fusion. *)
From Coq Require Import List Bool ZArith QArith Arith Lia Lqa.
From NV.Generated Require Import ClusteringFrags.
From NV.C14 Require Import ModelAL.
Import ListNotations.

Local Ltac cb := cbn [wsum npair add_to] in *; unfold same_pair in *; cbn [e_src e_dst e_w fst snd] in *.

(* ---------- add_to / insert_edge / merge_dups ---------- *)
Lemma add_to_wsum : forall a b w acc acc' x y, add_to a b w acc = Some acc' ->
  wsum acc' x y == wsum acc x y + (if Z.eqb a x && Z.eqb b y then w else 0).
Proof.
  intros a b w acc. induction acc as [|[[s t] v] r IH]; intros acc' x y H; cb.
  - discriminate H.
  - destruct (Z.eqb s a && Z.eqb t b) eqn:Hs.
    + injection H as <-. cb.
      apply andb_true_iff in Hs as [H1 H2]. apply Z.eqb_eq in H1, H2. subst s t.
      destruct (Z.eqb a x && Z.eqb b y); ring.
    + destruct (add_to a b w r) as [r'|] eqn:Hr; [|discriminate H].
      injection H as <-. cb. rewrite (IH r' x y eq_refl). ring.
Qed.

Lemma add_to_npair : forall a b w acc acc' x y, add_to a b w acc = Some acc' ->
  npair acc' x y = npair acc x y.
Proof.
  intros a b w acc. induction acc as [|[[s t] v] r IH]; intros acc' x y H; cb.
  - discriminate H.
  - destruct (Z.eqb s a && Z.eqb t b) eqn:Hs.
    + injection H as <-. cb.
      apply andb_true_iff in Hs as [H1 H2]. apply Z.eqb_eq in H1, H2. subst s t. reflexivity.
    + destruct (add_to a b w r) as [r'|] eqn:Hr; [|discriminate H].
      injection H as <-. cb. now rewrite (IH r' x y eq_refl).
Qed.

Lemma add_to_none : forall a b w acc, add_to a b w acc = None -> npair acc a b = O.
Proof.
  intros a b w acc. induction acc as [|[[s t] v] r IH]; intros H; cb.
  - reflexivity.
  - destruct (Z.eqb s a && Z.eqb t b) eqn:Hs; [discriminate H|].
    destruct (add_to a b w r) as [r'|] eqn:Hr; [discriminate H|]. now rewrite IH.
Qed.

Lemma same_pair_sym_key : forall e x y,
  (Z.eqb (e_src e) x && Z.eqb (e_dst e) y) = same_pair x y e.
Proof. reflexivity. Qed.

Lemma insert_wsum : forall k e acc x y,
  wsum (insert_edge k e acc) x y == (if same_pair x y e then e_w e else 0) + wsum acc x y.
Proof.
  intros k e acc x y. unfold insert_edge.
  destruct (Z.eqb (e_src e) k || Z.eqb (e_dst e) k); [|reflexivity].
  destruct (add_to (e_src e) (e_dst e) (e_w e) acc) as [acc'|] eqn:Ha; [|reflexivity].
  rewrite (add_to_wsum _ _ _ _ _ x y Ha). rewrite same_pair_sym_key. ring.
Qed.

Lemma merge_dups_wsum : forall k es x y, wsum (merge_dups k es) x y == wsum es x y.
Proof.
  intros k es x y. induction es as [|e r IH].
  - reflexivity.
  - change (merge_dups k (e :: r)) with (insert_edge k e (merge_dups k r)).
    rewrite insert_wsum. cbn [wsum]. now rewrite IH.
Qed.

Lemma insert_npair_le1 : forall k e acc x y, (x = k \/ y = k) ->
  (npair acc x y <= 1)%nat -> (npair (insert_edge k e acc) x y <= 1)%nat.
Proof.
  intros k [[s t] v] acc x y Hk Hle. unfold insert_edge. cb.
  destruct (Z.eqb s k || Z.eqb t k) eqn:Hin.
  - destruct (add_to s t v acc) as [acc'|] eqn:Ha.
    + now rewrite (add_to_npair _ _ _ _ _ x y Ha).
    + cb. destruct (Z.eqb s x && Z.eqb t y) eqn:Hs; [|exact Hle].
      apply andb_true_iff in Hs as [H1 H2]. apply Z.eqb_eq in H1, H2. subst s t.
      rewrite (add_to_none _ _ _ _ Ha). lia.
  - cb. apply orb_false_iff in Hin as [H1 H2]. apply Z.eqb_neq in H1, H2.
    destruct (Z.eqb_spec s x) as [E1|E1]; destruct (Z.eqb_spec t y) as [E2|E2]; cbn [andb]; try exact Hle.
    exfalso. subst s t. destruct Hk; congruence.
Qed.

Lemma merge_dups_npair_le1 : forall k es x y, (x = k \/ y = k) ->
  (npair (merge_dups k es) x y <= 1)%nat.
Proof.
  intros k es x y Hk. induction es as [|e r IH].
  - cbn. lia.
  - change (merge_dups k (e :: r)) with (insert_edge k e (merge_dups k r)).
    now apply insert_npair_le1.
Qed.

(* a pair that is present stays present *)
Lemma insert_npair_ge : forall k e acc x y,
  (npair acc x y + (if same_pair x y e then 1 else 0) >= 1)%nat -> (npair (insert_edge k e acc) x y >= 1)%nat.
Proof.
  intros k [[s t] v] acc x y H. unfold insert_edge. cb.
  destruct (Z.eqb s k || Z.eqb t k).
  - destruct (add_to s t v acc) as [acc'|] eqn:Ha.
    + rewrite (add_to_npair _ _ _ _ _ x y Ha).
      destruct (Z.eqb s x && Z.eqb t y) eqn:Hs; [|lia].
      apply andb_true_iff in Hs as [H1 H2]. apply Z.eqb_eq in H1, H2. subst s t.
      clear H. revert acc' Ha. induction acc as [|[[s t] w] r IH]; intros acc' Ha; cb; [discriminate Ha|].
      destruct (Z.eqb s x && Z.eqb t y); [lia|].
      destruct (add_to x y v r) as [r'|] eqn:Hr; [|discriminate Ha]. specialize (IH r' eq_refl). lia.
    + cb. lia.
  - cb. lia.
Qed.

Lemma merge_dups_npair_ge : forall k es x y, (npair es x y >= 1)%nat -> (npair (merge_dups k es) x y >= 1)%nat.
Proof.
  intros k es x y. induction es as [|e r IH]; intros H.
  - exact H.
  - change (merge_dups k (e :: r)) with (insert_edge k e (merge_dups k r)).
    apply insert_npair_ge. cbn [npair] in H.
    destruct (same_pair x y e); [lia|]. specialize (IH ltac:(lia)). lia.
Qed.

(* ---------- relabel ---------- *)
Section Relabel.
  Variables (fi fj : Q) (i j k c : Z).
  Hypothesis Hij : i <> j.
  Hypothesis Hik : i <> k.
  Hypothesis Hjk : j <> k.
  Hypothesis Hci : c <> i.
  Hypothesis Hcj : c <> j.
  Hypothesis Hck : c <> k.

  Local Ltac split_eqb :=
    repeat (cbn [e_src e_dst e_w fst snd andb orb] in *;
            match goal with
            | |- context [Z.eqb ?a ?b] => is_var a; is_var b; destruct (Z.eqb_spec a b)
            end);
    cbn [e_src e_dst e_w fst snd andb orb] in *.

  Lemma relabel1_left : forall e, e_src e <> k -> e_dst e <> k ->
    (if same_pair k c (relabel1 fi fj i j k e) then e_w (relabel1 fi fj i j k e) else 0)
    == fi * (if same_pair i c e then e_w e else 0) + fj * (if same_pair j c e then e_w e else 0).
  Proof.
    intros [[s t] v] Hs Ht. cbn [e_src e_dst fst snd] in Hs, Ht.
    unfold relabel1, scale_src, scale_dst, same_pair. cbn [e_src e_dst e_w fst snd].
    split_eqb; try congruence; try (exfalso; lia); ring.
  Qed.

  Lemma relabel1_right : forall e, e_src e <> k -> e_dst e <> k ->
    (if same_pair c k (relabel1 fi fj i j k e) then e_w (relabel1 fi fj i j k e) else 0)
    == fi * (if same_pair c i e then e_w e else 0) + fj * (if same_pair c j e then e_w e else 0).
  Proof.
    intros [[s t] v] Hs Ht. cbn [e_src e_dst fst snd] in Hs, Ht.
    unfold relabel1, scale_src, scale_dst, same_pair. cbn [e_src e_dst e_w fst snd].
    split_eqb; try congruence; try (exfalso; lia); ring.
  Qed.

  Lemma relabel_wsum_left : forall es, (forall e, In e es -> e_src e <> k /\ e_dst e <> k) ->
    wsum (map (relabel1 fi fj i j k) es) k c == fi * wsum es i c + fj * wsum es j c.
  Proof.
    induction es as [|e r IH]; intros H.
    - cbn [map wsum]. ring.
    - cbn [map wsum]. rewrite IH by (intros e' He'; apply H; now right).
      destruct (H e (or_introl eq_refl)) as [Hs Ht].
      rewrite (relabel1_left e Hs Ht). ring.
  Qed.

  Lemma relabel_wsum_right : forall es, (forall e, In e es -> e_src e <> k /\ e_dst e <> k) ->
    wsum (map (relabel1 fi fj i j k) es) c k == fi * wsum es c i + fj * wsum es c j.
  Proof.
    induction es as [|e r IH]; intros H.
    - cbn [map wsum]. ring.
    - cbn [map wsum]. rewrite IH by (intros e' He'; apply H; now right).
      destruct (H e (or_introl eq_refl)) as [Hs Ht].
      rewrite (relabel1_right e Hs Ht). ring.
  Qed.

  (* presence: (k,c) is a row afterwards iff (i,c) or (j,c) was one *)
  Lemma relabel1_npair_left : forall e, e_src e <> k -> e_dst e <> k ->
    same_pair k c (relabel1 fi fj i j k e) = same_pair i c e || same_pair j c e.
  Proof.
    intros [[s t] v] Hs Ht. cbn [e_src e_dst fst snd] in Hs, Ht.
    unfold relabel1, scale_src, scale_dst, same_pair. cbn [e_src e_dst e_w fst snd].
    split_eqb; try congruence; try (exfalso; lia); reflexivity.
  Qed.

  Lemma relabel_npair_left : forall es, (forall e, In e es -> e_src e <> k /\ e_dst e <> k) ->
    npair (map (relabel1 fi fj i j k) es) k c = (npair es i c + npair es j c)%nat.
  Proof.
    induction es as [|e r IH]; intros H.
    - reflexivity.
    - cbn [map npair]. rewrite IH by (intros e' He'; apply H; now right).
      destruct (H e (or_introl eq_refl)) as [Hs Ht].
      rewrite (relabel1_npair_left e Hs Ht).
      destruct (same_pair i c e) eqn:A; destruct (same_pair j c e) eqn:B; cbn [orb]; try lia.
      exfalso. unfold same_pair in A, B. apply andb_true_iff in A as [A _], B as [B _].
      apply Z.eqb_eq in A, B. congruence.
  Qed.
End Relabel.

(* ---------- fusion ---------- *)
Definition fresh (k : Z) (es : list edge) : Prop := forall e, In e es -> e_src e <> k /\ e_dst e <> k.

Lemma fusion_weight_spec : forall pi pk i j k c es,
  fresh k es -> i <> j -> i <> k -> j <> k -> c <> i -> c <> j -> c <> k ->
  wsum (fusion pi pk i j k es) k c == fus_fi pi pk * wsum es i c + fus_fj pi pk * wsum es j c /\
  wsum (fusion pi pk i j k es) c k == fus_fi pi pk * wsum es c i + fus_fj pi pk * wsum es c j /\
  (npair (fusion pi pk i j k es) k c <= 1)%nat /\ (npair (fusion pi pk i j k es) c k <= 1)%nat /\
  ((npair es i c + npair es j c >= 1)%nat -> npair (fusion pi pk i j k es) k c = 1%nat).
Proof.
  intros pi pk i j k c es Hf Hij Hik Hjk Hci Hcj Hck. unfold fusion, relabel.
  split; [|split; [|split; [|split]]].
  - rewrite merge_dups_wsum. now apply relabel_wsum_left.
  - rewrite merge_dups_wsum. now apply relabel_wsum_right.
  - apply merge_dups_npair_le1. now left.
  - apply merge_dups_npair_le1. now right.
  - intros Hp.
    assert (H1 : (npair (merge_dups k (map (relabel1 (fus_fi pi pk) (fus_fj pi pk) i j k) es)) k c <= 1)%nat)
      by (apply merge_dups_npair_le1; now left).
    assert (H2 : (npair (merge_dups k (map (relabel1 (fus_fi pi pk) (fus_fj pi pk) i j k) es)) k c >= 1)%nat).
    { apply merge_dups_npair_ge. rewrite relabel_npair_left by assumption. exact Hp. }
    lia.
Qed.

(* ---------- the linkage: weighted average of mean similarities = mean similarity of the union ---------- *)
Lemma qsuml_app : forall a b, qsuml (a ++ b) == qsuml a + qsuml b.
Proof. induction a as [|x a IH]; intros b; cbn [app qsuml]; [ring|]. rewrite IH. ring. Qed.

Lemma total_sim_app : forall A (sim : A -> A -> Q) I J C,
  total_sim sim (I ++ J) C == total_sim sim I C + total_sim sim J C.
Proof. intros. unfold total_sim. rewrite map_app. apply qsuml_app. Qed.

Lemma Qlen_pos : forall A (l : list A), l <> [] -> 0 < Qlen l.
Proof.
  intros A l H. unfold Qlen. destruct l as [|x l]; [congruence|].
  change 0 with (inject_Z 0). rewrite <- Zlt_Qlt. cbn [length]. lia.
Qed.

Lemma Qlen_app : forall A (a b : list A), Qlen (a ++ b) == Qlen a + Qlen b.
Proof. intros. unfold Qlen. rewrite app_length, Nat2Z.inj_add, inject_Z_plus. reflexivity. Qed.

Lemma average_link_lance_williams : forall A (sim : A -> A -> Q) (I J C : list A),
  I <> [] -> J <> [] -> C <> [] ->
  fus_fi (Z.of_nat (length I)) (Z.of_nat (length I + length J)) * mean_sim sim I C
  + fus_fj (Z.of_nat (length I)) (Z.of_nat (length I + length J)) * mean_sim sim J C
  == mean_sim sim (I ++ J) C.
Proof.
  intros A sim I J C HI HJ HC. unfold fus_fj, fus_fi, src_fusion_fj, src_fusion_fi, mean_sim.
  rewrite total_sim_app, Qlen_app.
  rewrite Nat2Z.inj_add.
  assert (E0 : inject_Z (Z.of_nat (length I) + Z.of_nat (length J)) == Qlen I + Qlen J) by (unfold Qlen; rewrite inject_Z_plus; reflexivity).
  rewrite E0. clear E0. fold (Qlen I).
  pose proof (Qlen_pos _ I HI) as PI. pose proof (Qlen_pos _ J HJ) as PJ. pose proof (Qlen_pos _ C HC) as PC.
  set (x := Qlen I) in *. set (y := Qlen J) in *. set (z := Qlen C) in *.
  set (a := total_sim sim I C). set (b := total_sim sim J C).
  field. repeat split; intro E; lra.
Qed.

(* the weight between two distinct values lies between them when both populations are positive *)
Lemma fusion_weight_between : forall pi pj wi wj, (0 < pi)%Z -> (0 < pj)%Z -> wi <= wj ->
  wi <= fus_fi pi (pi + pj) * wi + fus_fj pi (pi + pj) * wj <= wj /\
  wi <= fus_fi pi (pi + pj) * wj + fus_fj pi (pi + pj) * wi <= wj.
Proof.
  intros pi pj wi wj Hi Hj Hw. unfold fus_fj, fus_fi, src_fusion_fj, src_fusion_fi. rewrite inject_Z_plus.
  assert (PI : 0 < inject_Z pi) by (change 0 with (inject_Z 0); now rewrite <- Zlt_Qlt).
  assert (PJ : 0 < inject_Z pj) by (change 0 with (inject_Z 0); now rewrite <- Zlt_Qlt).
  set (x := inject_Z pi) in *. set (y := inject_Z pj) in *.
  assert (S : 0 < x + y) by lra.
  assert (E1 : x / (x + y) * wi + (1 - x / (x + y)) * wj == (x * wi + y * wj) / (x + y)) by (field; lra).
  assert (E2 : x / (x + y) * wj + (1 - x / (x + y)) * wi == (x * wj + y * wi) / (x + y)) by (field; lra).
  rewrite E1, E2.
  assert (D : forall n, wi * (x + y) <= n -> n <= wj * (x + y) -> wi <= n / (x + y) <= wj).
  { intros n A B. split.
    - apply Qle_shift_div_l; assumption.
    - apply Qle_shift_div_r; assumption. }
  split; apply D; nra.
Qed.

(* one step of the average-link invariant: if the rows (i,c), (j,c) carry the mean similarities of the
   clusters I, J to C (a missing row counts 0), the row (k,c) after fusion carries that of I ++ J *)
Lemma fusion_keeps_mean_similarity : forall A (sim : A -> A -> Q) (I J C : list A) i j k c es,
  I <> [] -> J <> [] -> C <> [] ->
  fresh k es -> i <> j -> i <> k -> j <> k -> c <> i -> c <> j -> c <> k ->
  wsum es i c == mean_sim sim I C -> wsum es j c == mean_sim sim J C ->
  wsum (fusion (Z.of_nat (length I)) (Z.of_nat (length I + length J)) i j k es) k c == mean_sim sim (I ++ J) C.
Proof.
  intros A sim I J C i j k c es HI HJ HC Hf Hij Hik Hjk Hci Hcj Hck Ei Ej.
  destruct (fusion_weight_spec (Z.of_nat (length I)) (Z.of_nat (length I + length J)) i j k c es Hf Hij Hik Hjk Hci Hcj Hck)
    as [E _].
  rewrite E, Ei, Ej. now apply average_link_lance_williams.
Qed.
