(* C14 (k-means part): Gallina model over Q of
     nipy/algorithms/clustering/utils.py : _EStep, _MStep, voronoi, _kmeans, kmeans
   as the code is written.

   Conventions.  A data matrix is a list of rows (`vec = list Q`), `d` is
   x.shape[1].  Coordinates are read with `nth j x 0`, so no shape hypothesis is
   needed in the theorems.  Labels are `nat` (the implementation's initial -1 of
   _EStep is overwritten by the first centre as soon as k >= 1, which `kmeans`
   enforces).  `mindist = inf` and `bJ = inf` are `None`.
   Executable definitions only; proofs are in ProofsK.v. *)
From Coq Require Import List Bool ZArith QArith.
Import ListNotations.

Definition vec := list Q.

Definition qsum (l : list Q) : Q := fold_right Qplus 0 l.
Definition Qltb (a b : Q) : bool := negb (Qle_bool b a).
Definition Qn (n : nat) : Q := inject_Z (Z.of_nat n).

(* np.sum((x - c) ** 2) over the d coordinates of one row *)
Fixpoint sqdist (d : nat) (x c : vec) : Q :=
  match d with
  | O => 0
  | S d' => sqdist d' x c + (nth d' x 0 - nth d' c 0) * (nth d' x 0 - nth d' c 0)
  end.

(* column j of a list of rows, and np.mean(rows, 0) *)
Definition col (j : nat) (xs : list vec) : list Q := map (fun x => nth j x 0) xs.
Definition vmean (d : nat) (xs : list vec) : vec :=
  map (fun j => qsum (col j xs) / Qn (length xs)) (seq 0 d).

(* ---- _EStep ---------------------------------------------------------- *)
(* Tie rule of the scan `z[dist < mindist] = q`: strict = true is the code as
   written (`<`: the FIRST closest centre wins); strict = false is `<=` (the
   LAST closest wins).  The harness measures the rule on the running code with
   one probe and passes it in; every theorem is proved for both rules, so a
   change of tie rule alone is not an alarm. *)
Definition closer (strict : bool) (dist m : Q) : bool :=
  if strict then Qltb dist m else Qle_bool dist m.

(* One item: `for q in range(k): dist = ...; z[dist < mindist] = q;
   mindist = minimum(dist, mindist)`.  Strict `<`: the first closest centre wins. *)
Fixpoint scan (st : bool) (d : nat) (x : vec) (cs : list vec) (q best : nat) (md : option Q) : nat * option Q :=
  match cs with
  | [] => (best, md)
  | c :: cs' =>
      let dist := sqdist d x c in
      match md with
      | None => scan st d x cs' (S q) q (Some dist)
      | Some m => if closer st dist m then scan st d x cs' (S q) q (Some dist)
                  else scan st d x cs' (S q) best (Some m)
      end
  end.

Definition assign (st : bool) (d : nat) (cs : list vec) (x : vec) : nat * option Q := scan st d x cs 0 0 None.
Definition odist (o : option Q) : Q := match o with Some m => m | None => 0 end.

Definition estep_z (st : bool) (d : nat) (X cs : list vec) : list nat := map (fun x => fst (assign st d cs x)) X.
Definition estep_J (st : bool) (d : nat) (X cs : list vec) : Q := qsum (map (fun x => odist (snd (assign st d cs x))) X).

(* voronoi(x, centers) = _EStep(x, centers)[0] *)
Definition voronoi (st : bool) (d : nat) (X cs : list vec) : list nat := estep_z st d X cs.

(* ---- _MStep ---------------------------------------------------------- *)
(* x[z == q] *)
Definition members (X : list vec) (z : list nat) (q : nat) : list vec :=
  map fst (filter (fun p => Nat.eqb (snd p) q) (combine X z)).

Definition center_of (d : nat) (X : list vec) (z : list nat) (q : nat) : vec :=
  match members X z q with
  | [] => vmean d X                 (* `pass`: keeps the global mean *)
  | m :: ms => vmean d (m :: ms)
  end.

Definition mstep (d : nat) (X : list vec) (z : list nat) (k : nat) : list vec :=
  map (center_of d X z) (seq 0 k).

(* ---- criterion -------------------------------------------------------- *)
(* within-cluster sum of squares of labels z w.r.t. centres cs *)
Definition wcss (d : nat) (X : list vec) (z : list nat) (cs : list vec) : Q :=
  qsum (map (fun p => sqdist d (fst p) (nth (snd p) cs [])) (combine X z)).

(* ---- _kmeans ---------------------------------------------------------- *)
(* np.mean(np.var(X, 0)) *)
Definition colvar (j : nat) (X : list vec) : Q :=
  let m := qsum (col j X) / Qn (length X) in
  qsum (map (fun v => (v - m) * (v - m)) (col j X)) / Qn (length X).
Definition vdata (d : nat) (X : list vec) : Q :=
  qsum (map (fun j => colvar j X) (seq 0 d)) / Qn d.

(* np.sum((centers_old - centers) ** 2) *)
Definition moved (d k : nat) (c c' : list vec) : Q :=
  qsum (map (fun q => sqdist d (nth q c []) (nth q c' [])) (seq 0 k)).

Definition upd_best (bJ : option Q) (J : Q) : option Q :=
  match bJ with
  | None => Some J
  | Some b => if Qltb J b then Some J else Some b
  end.

(* The inner `for i in range(maxiter)` of _kmeans with ninit = 1.  At loop
   entry centers_old == centers always holds (both assignments are copies of
   `centers`), so one variable `c` carries both.  `z` is the label vector most
   recently assigned.  The `else` of the OUTER for always runs (the outer loop
   has no break), so what is returned is the LAST (centers, z) together with
   bJ, the smallest J seen in an iteration that did not break. *)
Fixpoint kloop (st : bool) (d k : nat) (X : list vec) (thr : Q) (fuel : nat)
         (c : list vec) (z : list nat) (bJ : option Q) : list vec * list nat * option Q :=
  match fuel with
  | O => (c, z, bJ)
  | S f =>
      let z' := estep_z st d X c in
      let J := estep_J st d X c in
      let c' := mstep d X z' k in
      if Qltb (moved d k c c') thr then (c', z', bJ)
      else kloop st d k X thr f c' z' (upd_best bJ J)
  end.

Definition km_centers {A} (r : list vec * list nat * A) := fst (fst r).
Definition km_labels {A} (r : list vec * list nat * A) := snd (fst r).
Definition km_J {A} (r : list vec * list nat * A) := snd r.

(* the loop of _kmeans(X, k, Labels, maxiter, delta) with a given initial labelling:
   last centres, last labels and the (now dead) bJ bookkeeping.
   maxiter = 0 is excluded by `kmeans` (the implementation would raise
   NameError); here it returns the initial labelling with its means. *)
Definition kmeans_core (st : bool) (d k : nat) (X : list vec) (labels : list nat) (maxiter : nat) (delta : Q)
  : list vec * list nat * option Q :=
  kloop st d k X (delta * vdata d X) maxiter (mstep d X labels k) labels None.

(* _kmeans as it is since /repo 6270706: the `else` of the outer `for` (always taken,
   the outer loop has no break - also when the inner loop broke on convergence) returns
   the last centres and labels and  bJ = np.sum((X - centers_output[z_output]) ** 2). *)
Definition kmeans (st : bool) (d k : nat) (X : list vec) (labels : list nat) (maxiter : nat) (delta : Q)
  : list vec * list nat * Q :=
  let r := kmeans_core st d k X labels maxiter delta in
  (km_centers r, km_labels r, wcss d X (km_labels r) (km_centers r)).

(* kmeans(X, nbclusters, Labels, maxiter, delta) with Labels given and of the
   right size: the argument normalisation of the public wrapper, as written
   (note `Labels.max() < nbclusters + 1`: the label value k itself is accepted;
   when the labelling is rejected maxiter/delta are passed on unchanged). *)
Definition default_delta : Q := 7378697629483821 # 73786976294838206464.  (* the double 0.0001 *)
Definition api_k (k : Z) (n : nat) : Z :=
  let k1 := if (k <? 1)%Z then 1%Z else k in
  if (Z.of_nat n <? k1)%Z then Z.of_nat n else k1.
Definition api_labels_ok (k2 : Z) (labels : list nat) : bool :=
  forallb (fun l => (Z.of_nat l <? k2 + 1)%Z) labels.
Definition api_maxiter (ok : bool) (maxiter : Z) : Z :=
  if ok then (if (0 <? maxiter)%Z then maxiter else 300%Z) else maxiter.
Definition kmeans_api (st : bool) (d : nat) (k : Z) (X : list vec) (labels : list nat) (maxiter : Z) (delta : Q)
  : list vec * list nat * Q :=
  let k2 := api_k k (length X) in
  let ok := api_labels_ok k2 labels in
  let de := if ok then (if Qltb delta 0 then default_delta else delta) else delta in
  kmeans st d (Z.to_nat k2) X labels (Z.to_nat (api_maxiter ok maxiter)) de.


(* ---- comparison helpers for the harness ------------------------------- *)
Fixpoint qvec_eqb (a b : vec) : bool :=
  match a, b with
  | [], [] => true
  | x :: a', y :: b' => Qeq_bool x y && qvec_eqb a' b'
  | _, _ => false
  end.
Fixpoint qmat_eqb (a b : list vec) : bool :=
  match a, b with
  | [], [] => true
  | x :: a', y :: b' => qvec_eqb x y && qmat_eqb a' b'
  | _, _ => false
  end.
Fixpoint nats_eqb (a b : list nat) : bool :=
  match a, b with
  | [], [] => true
  | x :: a', y :: b' => Nat.eqb x y && nats_eqb a' b'
  | _, _ => false
  end.
Definition oq_eqb (a b : option Q) : bool :=
  match a, b with
  | None, None => true
  | Some x, Some y => Qeq_bool x y
  | _, _ => false
  end.

Definition kmeans_agrees (st : bool) (d k : nat) (X : list vec) (labels : list nat) (maxiter : nat) (delta : Q)
           (cs : list vec) (z : list nat) (J : Q) : bool :=
  let r := kmeans st d k X labels maxiter delta in
  qmat_eqb (km_centers r) cs && nats_eqb (km_labels r) z && Qeq_bool (km_J r) J.

Definition kmeans_api_agrees (st : bool) (d : nat) (k : Z) (X : list vec) (labels : list nat) (maxiter : Z) (delta : Q)
           (cs : list vec) (z : list nat) (J : Q) : bool :=
  let r := kmeans_api st d k X labels maxiter delta in
  qmat_eqb (km_centers r) cs && nats_eqb (km_labels r) z && Qeq_bool (km_J r) J.

Definition estep_agrees (st : bool) (d : nat) (X cs : list vec) (z : list nat) (J : Q) : bool :=
  nats_eqb (estep_z st d X cs) z && Qeq_bool (estep_J st d X cs) J.

Definition mstep_agrees (d : nat) (X : list vec) (z : list nat) (k : nat) (cs : list vec) : bool :=
  qmat_eqb (mstep d X z k) cs.
