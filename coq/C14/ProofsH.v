(* C14 (hierarchical part): Ward's cost algebra, a checker for proper Ward
   dendrograms with its soundness proof. *)
From Coq Require Import List Bool ZArith QArith Lia Lqa Arith.
From NV.Generated Require Import ClusteringFrags.
From NV.C14 Require Import Model ProofsK ModelH.
Import ListNotations.

(* ------------------------------------------------ Ward cost = merged inertia *)
Lemma ss_expand_map {A} (g : A -> Q) (xs : list A) (c : Q) :
  qsum (map (fun x => (g x - c) * (g x - c)) xs)
  == qsum (map (fun x => g x * g x) xs) - 2 * c * qsum (map g xs) + Qn (length xs) * (c * c).
Proof. pose proof (ss_expand (map g xs) c) as E. rewrite map_length, !map_map in E. exact E. Qed.

Lemma inertia_vec_is_wss d xs : xs <> [] -> forall d', (d' <= d)%nat ->
  inertia_vec d' (Qn (length xs)) (colsum d xs) (colsq d xs)
  == qsum (map (fun x => sqdist d' x (vmean d xs)) xs).
Proof. intros Hne. induction d' as [|d' IH]; intros Hd; cbn [inertia_vec sqdist]; unfold src_inertia_term.
  - now rewrite qsum_map_zero.
  - rewrite qsum_map_plus, IH by lia.
    assert (Hp : 0 < Qn (length xs)) by (apply Qn_pos; destruct xs; [congruence|simpl; lia]).
    unfold colsum, colsq. rewrite !nth_map_seq by lia. rewrite vmean_nth by lia.
    rewrite (ss_expand_map (fun x : vec => nth d' x 0) xs).
    unfold col. rewrite map_map.
    apply Qplus_comp; [reflexivity|]. unfold vec in *. field. lra. Qed.

Lemma wss_fast_eq d xs : wss_fast d xs == wss d xs.
Proof. destruct xs as [|x xs]; [reflexivity|]. unfold wss_fast. apply inertia_vec_is_wss; [discriminate|lia]. Qed.

Lemma qsum_app l1 l2 : qsum (l1 ++ l2) == qsum l1 + qsum l2.
Proof. unfold qsum. induction l1 as [|a l IH]; cbn [app fold_right]; [ring|]. rewrite IH. ring. Qed.

Lemma wss_monotone d A B : A <> [] -> wss d A <= wss d (A ++ B).
Proof. intros Hne. unfold wss at 2. rewrite map_app, qsum_app.
  pose proof (mean_minimises_le d A (vmean d (A ++ B)) Hne) as H1.
  assert (H2 : 0 <= qsum (map (fun x => sqdist d x (vmean d (A ++ B))) B))
    by (apply qsum_map_nonneg; intros; apply sqdist_nonneg).
  unfold wss. lra. Qed.

(* ------------------------------------------------ dendrogram certificate *)
Inductive Under (parents : list nat) : nat -> nat -> Prop :=
| under_refl v : Under parents v v
| under_step x v : nth x parents x <> x -> Under parents (nth x parents x) v -> Under parents x v.

Lemma reaches_sound parents : forall fuel x v, reaches fuel parents x v = true -> Under parents x v.
Proof. induction fuel as [|f IH]; intros x v H; cbn [reaches] in H; apply orb_true_iff in H; destruct H as [H|H].
  - apply Nat.eqb_eq in H. subst. constructor.
  - discriminate.
  - apply Nat.eqb_eq in H. subst. constructor.
  - apply andb_true_iff in H. destruct H as [H1 H2]. apply negb_true_iff, Nat.eqb_neq in H1.
    apply under_step; [exact H1|now apply IH]. Qed.

Lemma reaches_complete parents V :
  (forall v, (v <= nth v parents v)%nat) ->
  (forall v, nth v parents v <> v -> (nth v parents v < V)%nat) ->
  forall x v, Under parents x v -> forall fuel, (V - x <= fuel)%nat -> reaches fuel parents x v = true.
Proof. intros Hmono Hb x v H. induction H as [v|x v Hne Hu IH]; intros fuel Hf.
  - destruct fuel; cbn [reaches]; now rewrite Nat.eqb_refl.
  - pose proof (Hmono x) as H1. pose proof (Hb x Hne) as H2.
    destruct fuel as [|f]; [lia|]. cbn [reaches]. apply orb_true_iff. right.
    apply andb_true_iff. split; [now apply negb_true_iff, Nat.eqb_neq|]. apply IH. lia. Qed.

Definition LeafUnder (n : nat) (parents : list nat) (x v : nat) : Prop := (x < n)%nat /\ Under parents x v.

Definition ProperDendrogram (d n : nat) (G : list (nat * nat)) (feat : list vec) (parents : list nat) (height : list Q) : Prop :=
  let V := length parents in
  (* a forest on the nodes 0..V-1, parents after children, the items are leaves,
     heights do not decrease from child to parent *)
  (forall v, (v < V)%nat ->
      (v <= nth v parents v < V)%nat /\ (nth v parents v <> v -> (n <= nth v parents v)%nat) /\
      nth v height 0 <= nth (nth v parents v) height 0) /\
  (* every non-item node is one binary merge of two clusters joined by an edge of G,
     its height is the within-cluster sum of squares of the merged cluster, and
     leafset computes exactly the items below a node *)
  (forall k, (n <= k < V)%nat -> exists a b,
      (a < k)%nat /\ (b < k)%nat /\ a <> b /\ nth a parents a = k /\ nth b parents b = k /\
      (forall v, (v < V)%nat -> v <> k -> nth v parents v = k -> v = a \/ v = b) /\
      (exists x y, LeafUnder n parents x a /\ LeafUnder n parents y b /\ edge_between G x y = true) /\
      nth k height 0 == wss d (feats feat (leafset n parents k))) /\
  (forall v x, In x (leafset n parents v) <-> LeafUnder n parents x v) /\
  (* no edge of G leaves a tree: with the previous clause, the trees are the connected components *)
  (forall x y, In (x, y) G -> (x < n)%nat -> (y < n)%nat ->
      exists r, nth r parents r = r /\ Under parents x r /\ Under parents y r).

Definition Alive (parents : list nat) (k v : nat) : Prop :=
  (v < k)%nat /\ (nth v parents v = v \/ (k <= nth v parents v)%nat).

(* every merge is the cheapest among all pairs of clusters alive at that time that
   are joined by an edge of G, the cost being the merged within-cluster SS *)
Definition CheapestMerges (d n : nat) (G : list (nat * nat)) (feat : list vec) (parents : list nat) (height : list Q) : Prop :=
  forall k, (n <= k < length parents)%nat -> forall u v, u <> v ->
    Alive parents k u -> Alive parents k v ->
    (exists x y, LeafUnder n parents x u /\ LeafUnder n parents y v /\ edge_between G x y = true) ->
    nth k height 0 <= wss d (feats feat (leafset n parents u ++ leafset n parents v)).

Lemma leafset_sound n parents v x : In x (leafset n parents v) -> LeafUnder n parents x v.
Proof. unfold leafset, LeafUnder. intros H. apply filter_In in H. destruct H as [H1 H2]. apply in_seq in H1.
  split; [lia|]. now apply reaches_sound in H2. Qed.

Section Sound.
  Variables (d n : nat) (G : list (nat * nat)) (feat : list vec) (parents : list nat) (height : list Q).
  Hypothesis Hv : forall v, In v (seq 0 (length parents)) -> vertex_ok n parents height v = true.

  Lemma vertex_facts v : (v < length parents)%nat ->
    (v <= nth v parents v < length parents)%nat /\ (nth v parents v <> v -> (n <= nth v parents v)%nat) /\
    nth v height 0 <= nth (nth v parents v) height 0.
  Proof. intros Hlt. specialize (Hv v ltac:(apply in_seq; lia)). unfold vertex_ok in Hv.
    apply andb_true_iff in Hv. destruct Hv as [H123 H4]. apply andb_true_iff in H123. destruct H123 as [H12 H3].
    apply andb_true_iff in H12. destruct H12 as [H1 H2].
    apply Nat.leb_le in H1. apply Nat.ltb_lt in H2. apply Qle_bool_iff in H4. repeat split; try lia; try exact H4.
    intros Hne. apply orb_true_iff in H3. destruct H3 as [H3|H3]; [apply Nat.eqb_eq in H3; congruence|now apply Nat.leb_le in H3]. Qed.

  Lemma mono_all v : (v <= nth v parents v)%nat.
  Proof. destruct (Nat.lt_ge_cases v (length parents)) as [H|H].
    - apply vertex_facts in H. lia.
    - rewrite nth_overflow by lia. lia. Qed.

  Lemma bound_all v : nth v parents v <> v -> (nth v parents v < length parents)%nat.
  Proof. intros Hne. destruct (Nat.lt_ge_cases v (length parents)) as [H|H].
    - apply vertex_facts in H. lia.
    - rewrite nth_overflow in Hne by lia. congruence. Qed.

  Lemma leafset_complete v x : LeafUnder n parents x v -> In x (leafset n parents v).
  Proof. intros [Hx Hu]. unfold leafset. apply filter_In. split; [apply in_seq; lia|].
    apply (reaches_complete parents (length parents) mono_all bound_all x v Hu). lia. Qed.

  Lemma adjacent_complete u v :
    (exists x y, LeafUnder n parents x u /\ LeafUnder n parents y v /\ edge_between G x y = true) ->
    adjacent G (leafset n parents u) (leafset n parents v) = true.
  Proof. intros (x & y & Hx & Hy & He). unfold adjacent. apply existsb_exists. exists x. split; [now apply leafset_complete|].
    apply existsb_exists. exists y. split; [now apply leafset_complete|exact He]. Qed.

  Lemma alive_complete k v : Alive parents k v -> alive parents k v = true.
  Proof. intros [H1 H2]. unfold alive. apply andb_true_iff. split; [now apply Nat.ltb_lt|].
    apply orb_true_iff. destruct H2 as [H2|H2]; [left; now apply Nat.eqb_eq|right; now apply Nat.leb_le]. Qed.

  Lemma leafsets_nth u : (u < length parents)%nat -> nth u (leafsets n parents) [] = leafset n parents u.
  Proof. intros H. unfold leafsets. now rewrite nth_map_seq. Qed.

  Lemma cheapest_sound :
    (forall k, In k (seq n (length parents - n)) -> cheapest_ok d G feat parents height (leafsets n parents) k = true) ->
    CheapestMerges d n G feat parents height.
  Proof. intros Hc k Hk u v Hne Hu Hv' Hadj. specialize (Hc k ltac:(apply in_seq; lia)).
    unfold cheapest_ok in Hc. rewrite forallb_forall in Hc.
    specialize (Hc u ltac:(apply in_seq; destruct Hu; lia)). rewrite (alive_complete k u Hu) in Hc.
    rewrite forallb_forall in Hc.
    specialize (Hc v ltac:(apply in_seq; destruct Hv'; lia)).
    rewrite (alive_complete k v Hv') in Hc.
    assert (E : negb (Nat.eqb u v) = true) by (now apply negb_true_iff, Nat.eqb_neq). rewrite E in Hc. cbn [andb] in Hc.
    rewrite !leafsets_nth in Hc by (destruct Hu, Hv'; lia).
    rewrite (adjacent_complete u v Hadj) in Hc. apply Qle_bool_iff in Hc. now rewrite wss_fast_eq in Hc. Qed.
End Sound.

Lemma dendro_check_sound d n G feat parents height :
  dendro_check d n G feat parents height = true -> ProperDendrogram d n G feat parents height.
Proof. unfold dendro_check, ProperDendrogram. intros H.
  apply andb_true_iff in H. destruct H as [H He]. apply andb_true_iff in H. destruct H as [H Hk].
  apply andb_true_iff in H. destruct H as [HnV Hv]. apply Nat.leb_le in HnV.
  rewrite forallb_forall in Hv, Hk, He. split; [|split; [|split]].
  - intros v Hlt. now apply (vertex_facts n parents height Hv).
  - intros k Hk'. specialize (Hk k ltac:(apply in_seq; lia)). unfold node_ok in Hk.
    destruct (filter _ (seq 0 (length parents))) as [|a [|b [|c r]]] eqn:E; try discriminate.
    apply andb_true_iff in Hk. destruct Hk as [Hk H4]. apply andb_true_iff in Hk. destruct Hk as [Hk H3].
    apply andb_true_iff in Hk. destruct Hk as [H1 H2].
    apply Nat.ltb_lt in H1. apply Nat.ltb_lt in H2. apply Qeq_bool_iff in H4.
    rewrite !(leafsets_nth n parents) in H3 by lia. rewrite (leafsets_nth n parents) in H4 by lia.
    rewrite wss_fast_eq in H4.
    assert (Hin : forall v, In v [a; b] <-> In v (seq 0 (length parents)) /\
                  negb (Nat.eqb v k) && Nat.eqb (nth v parents v) k = true) by (intros v; rewrite <- E; apply filter_In).
    assert (Ha : In a [a; b]) by (simpl; auto). assert (Hb : In b [a; b]) by (simpl; auto).
    apply Hin in Ha. apply Hin in Hb. destruct Ha as [_ Ha]. destruct Hb as [_ Hb].
    apply andb_true_iff in Ha. apply andb_true_iff in Hb. destruct Ha as [_ Ha]. destruct Hb as [_ Hb].
    apply Nat.eqb_eq in Ha. apply Nat.eqb_eq in Hb.
    assert (Hnd : NoDup [a; b]) by (rewrite <- E; apply NoDup_filter, seq_NoDup).
    exists a, b. split; [exact H1|]. split; [exact H2|]. split; [|split; [exact Ha|split; [exact Hb|split; [|split]]]].
    + intros Eab. subst b. inversion Hnd as [|? ? Hn _]; subst. apply Hn. simpl; auto.
    + intros v Hlt Hne Hp. assert (In v [a; b]) as Hv'.
      { apply Hin. split; [apply in_seq; lia|]. apply andb_true_iff. split; [now apply negb_true_iff, Nat.eqb_neq|now apply Nat.eqb_eq]. }
      simpl in Hv'. destruct Hv' as [->|[->|[]]]; auto.
    + unfold adjacent in H3. apply existsb_exists in H3. destruct H3 as (x & Hx & H3).
      apply existsb_exists in H3. destruct H3 as (y & Hy & H3).
      apply leafset_sound in Hx. apply leafset_sound in Hy. exists x, y. tauto.
    + exact H4.
  - intros v x. split; [apply leafset_sound|now apply (leafset_complete n parents height Hv)].
  - intros x y Hin Hx Hy. specialize (He (x, y) Hin). unfold edge_ok in He. cbn [fst snd] in He.
    assert (E1 : Nat.ltb x n = true) by (now apply Nat.ltb_lt). assert (E2 : Nat.ltb y n = true) by (now apply Nat.ltb_lt).
    rewrite E1, E2 in He. cbn [andb] in He. apply existsb_exists in He. destruct He as (r & _ & He).
    destruct (Nat.eqb (nth r parents r) r) eqn:H1; [|discriminate].
    destruct (reaches (length parents) parents x r) eqn:H2; [|discriminate].
    apply Nat.eqb_eq in H1. apply reaches_sound in H2. apply reaches_sound in He. exists r. tauto. Qed.

Lemma ward_check_sound d n G feat parents height :
  ward_check d n G feat parents height = true ->
  ProperDendrogram d n G feat parents height /\ CheapestMerges d n G feat parents height.
Proof. unfold ward_check. intros H. apply andb_true_iff in H. destruct H as [H1 H2]. split; [now apply dendro_check_sound|].
  unfold dendro_check in H1. apply andb_true_iff in H1. destruct H1 as [H1 _]. apply andb_true_iff in H1. destruct H1 as [H1 _].
  apply andb_true_iff in H1. destruct H1 as [_ Hv]. rewrite forallb_forall in Hv, H2.
  now apply (cheapest_sound d n G feat parents height Hv). Qed.

(* ------------------------------------------------ translation invariance *)
(* x + t on the first d coordinates *)
Definition vshift (d : nat) (t x : vec) : vec := map (fun j => nth j x 0 + nth j t 0) (seq 0 d).

Lemma vshift_nth d t x j : (j < d)%nat -> nth j (vshift d t x) 0 = nth j x 0 + nth j t 0.
Proof. intros H. unfold vshift. now rewrite nth_map_seq. Qed.

Lemma qsum_map_shift {A} (g : A -> Q) (c : Q) (xs : list A) :
  qsum (map (fun x => g x + c) xs) == qsum (map g xs) + Qn (length xs) * c.
Proof. induction xs as [|x xs IH]; cbn [map qsum fold_right length].
  - unfold Qn; simpl. ring.
  - fold (qsum (map (fun x => g x + c) xs)). fold (qsum (map g xs)). rewrite IH, Qn_S. ring. Qed.

Lemma vmean_shift d t xs j : xs <> [] -> (j < d)%nat ->
  nth j (vmean d (map (vshift d t) xs)) 0 == nth j (vmean d xs) 0 + nth j t 0.
Proof. intros Hne Hj. rewrite !vmean_nth by exact Hj. rewrite map_length. unfold col. rewrite map_map.
  assert (Hp : 0 < Qn (length xs)) by (apply Qn_pos; destruct xs; [congruence|simpl; lia]).
  rewrite (qsum_map_ext (fun x => nth j (vshift d t x) 0) (fun x => nth j x 0 + nth j t 0))
    by (intros x _; now rewrite vshift_nth).
  rewrite qsum_map_shift. unfold vec in *. field. lra. Qed.

Lemma sqdist_shift d t xs x : xs <> [] -> forall d', (d' <= d)%nat ->
  sqdist d' (vshift d t x) (vmean d (map (vshift d t) xs)) == sqdist d' x (vmean d xs).
Proof. intros Hne. induction d' as [|d' IH]; intros Hd; cbn [sqdist]; [reflexivity|].
  rewrite IH by lia. rewrite vshift_nth by lia. rewrite (vmean_shift d t xs d' Hne) by lia. ring. Qed.

(* the within-cluster sum of squares does not change when every row is translated by t *)
Lemma wss_shift d t xs : wss d (map (vshift d t) xs) == wss d xs.
Proof. destruct xs as [|x0 xs]; [reflexivity|]. unfold wss. rewrite map_map.
  apply qsum_map_ext. intros x _. apply sqdist_shift; [discriminate|lia]. Qed.
