(* C14 (hierarchical part): Gallina model over Q of
     nipy/algorithms/clustering/hierarchical_clustering.py :
       _inertia, _auxiliary_graph, _remap, ward (state machine, as written),
       WeightedForest.partition / split / check_compatible_height / list_of_subtrees,
       ward_segment's choice between the two cuts,
   and an independent checker for "proper Ward dendrogram" (dendro_check).

   State of `ward`: the edge array with tombstones (None = the row [-1,-1]),
   the weights (None = inf), the incidence lists linc/rinc (lists of edge
   indices, Python list semantics incl. `remove` raising ValueError = None
   here), the sufficient statistics (count, sum, sum of squares) per node,
   parent and height.  `np.argsort`'s order among equal keys is an oracle stream
   recorded on the running code (see sorted_pairs_with), `argmin` returns the
   first minimum.  Executable definitions only. *)
From Coq Require Import List Bool ZArith QArith Arith.
From NV.Generated Require Import ClusteringFrags.
From NV.C14 Require Import Model.
Import ListNotations.

Definition bindo {A B} (o : option A) (f : A -> option B) : option B :=
  match o with Some a => f a | None => None end.
Notation "'do' x <- o ;; f" := (bindo o (fun x => f)) (at level 200, x pattern, o at level 100, f at level 200).

Fixpoint upd {A} (l : list A) (i : nat) (v : A) : list A :=
  match l, i with
  | [], _ => []
  | _ :: r, O => v :: r
  | a :: r, S i' => a :: upd r i' v
  end.

(* list.remove(x): first occurrence; ValueError (None) when absent *)
Fixpoint py_remove (x : nat) (l : list nat) : option (list nat) :=
  match l with
  | [] => None
  | a :: r => if Nat.eqb a x then Some r else do r' <- py_remove x r ;; Some (a :: r')
  end.

Definition edge := option (nat * nat).

Record wstate := mk_wstate {
  w_edges : list edge;
  w_weights : list (option Q);
  w_linc : list (list nat);
  w_rinc : list (list nat);
  w_cnt : list nat;
  w_sum : list vec;
  w_sq : list vec;
  w_parent : list nat;
  w_height : list Q
}.

(* ---- _inertia(i, j, Features) = np.sum(q - s**2 / n) of the union ------ *)
Fixpoint inertia_vec (d : nat) (n : Q) (s q : vec) : Q :=
  match d with
  | O => 0
  | S d' => inertia_vec d' n s q + src_inertia_term n (nth d' s 0) (nth d' q 0)   (* translated from _inertia *)
  end.
Fixpoint vadd (d : nat) (a b : vec) : vec :=
  match d with O => [] | S d' => vadd d' a b ++ [nth d' a 0 + nth d' b 0] end.

Definition inertia (d : nat) (cnt : list nat) (sm sq : list vec) (a b : nat) : Q :=
  Qred (inertia_vec d (Qn (nth a cnt O + nth b cnt O))
                    (vadd d (nth a sm []) (nth b sm [])) (vadd d (nth a sq []) (nth b sq []))).

(* ---- graph preparation -------------------------------------------------- *)
Definition has_edge (G : list (nat * nat)) (i j : nat) : bool :=
  existsb (fun e => Nat.eqb (fst e) i && Nat.eqb (snd e) j) G.

(* _auxiliary_graph: symmeterize, keep i < j, row-major order *)
Definition aux_edges (n : nat) (G : list (nat * nat)) : list (nat * nat) :=
  flat_map (fun i => flat_map (fun j =>
     if Nat.ltb i j && (has_edge G i j || has_edge G j i) then [(i, j)] else []) (seq 0 n)) (seq 0 n).

(* G.cc(): number of connected components, by min-label propagation *)
Definition cc_round (G : list (nat * nat)) (lab : list nat) : list nat :=
  fold_left (fun lab e => let a := nth (fst e) lab O in let b := nth (snd e) lab O in
                          let m := Nat.min a b in upd (upd lab (fst e) m) (snd e) m) G lab.
Definition cc_labels (n : nat) (G : list (nat * nat)) : list nat :=
  Nat.iter n (cc_round G) (seq 0 n).
Definition count_roots (lab : list nat) : nat :=
  length (filter (fun p => Nat.eqb (fst p) (snd p)) (combine (seq 0 (length lab)) lab)).
Definition nbcc (n : nat) (G : list (nat * nat)) : nat := count_roots (cc_labels n G).

(* left_incidence / right_incidence *)
Definition incidence (V : nat) (sel : nat * nat -> nat) (E : list (nat * nat)) : list (list nat) :=
  map (fun v => map fst (filter (fun p => Nat.eqb (sel (snd p)) v) (combine (seq 0 (length E)) E))) (seq 0 V).

Definition init_state (d n : nat) (G : list (nat * nat)) (feat : list vec) : wstate :=
  let E := aux_edges n G in
  let c := nbcc n G in
  let cnt := repeat 1%nat (2 * n) in
  let sm := map (fun x => map (fun j => nth j x 0) (seq 0 d)) feat ++ repeat (repeat 0 d) n in
  let sq := map (fun x => map (fun j => nth j x 0 * nth j x 0) (seq 0 d)) feat ++ repeat (repeat 0 d) n in
  mk_wstate (map Some E)
            (map (fun e => Some (inertia d cnt sm sq (fst e) (snd e))) E)
            (incidence (2 * n - 1) fst E) (incidence (2 * n - 1) snd E)
            cnt sm sq (seq 0 (2 * n - c)) (repeat 0 (2 * n - c)).

(* ---- argmin over weights (inf = None); first minimum; all inf -> 0 ------ *)
Fixpoint argmin_from (l : list (option Q)) (idx best : nat) (bv : option Q) : nat :=
  match l with
  | [] => best
  | w :: r =>
      match w, bv with
      | Some x, Some b => if Qltb x b then argmin_from r (S idx) idx (Some x) else argmin_from r (S idx) best bv
      | Some x, None => argmin_from r (S idx) idx (Some x)
      | None, _ => argmin_from r (S idx) best bv
      end
  end.
Definition argmin (l : list (option Q)) : nat := argmin_from l 0 0 None.

(* ---- _remap ------------------------------------------------------------- *)
(* `for l in idx: K.weights[l] = _inertia(k, other endpoint); K.edges[idx, side] = k` *)
Definition reweight (d : nat) (left : bool) (k : nat) (idx : list nat) (s : wstate) : option wstate :=
  fold_left (fun os l =>
      do s <- os ;;
      match nth l (w_edges s) None with
      | None => None                      (* a tombstone inside an incidence list: Features[-1] would be read *)
      | Some (a, b) =>
          let other := if left then b else a in
          let w := inertia d (w_cnt s) (w_sum s) (w_sq s) k other in
          Some (mk_wstate (upd (w_edges s) l (Some (if left then (k, b) else (a, k))))
                          (upd (w_weights s) l (Some w))
                          (w_linc s) (w_rinc s) (w_cnt s) (w_sum s) (w_sq s) (w_parent s) (w_height s))
      end) idx (Some s).

(* `for L in lst: if tomb(L): lst.remove(L)` - Python's remove-while-iterating *)
Fixpoint py_prune (fuel : nat) (tomb : nat -> bool) (l : list nat) (pos : nat) : list nat :=
  match fuel with
  | O => l
  | S f =>
      match nth_error l pos with
      | None => l
      | Some L => if tomb L then match py_remove L l with Some l' => py_prune f tomb l' (S pos) | None => l end
                  else py_prune f tomb l (S pos)
      end
  end.

(* stable argsort (insertion sort on (key, position)) *)
Fixpoint ins_sorted (p : nat * nat) (l : list (nat * nat)) : list (nat * nat) :=
  match l with
  | [] => [p]
  | a :: r => if Nat.ltb (fst p) (fst a) then p :: a :: r else a :: ins_sorted p r
  end.
Definition sort_pairs (keys : list nat) : list (nat * nat) :=
  fold_left (fun acc p => ins_sorted p acc) (combine keys (seq 0 (length keys))) [].
(* note: fold_left inserts later (equal) keys after earlier ones because ins_sorted passes over equal keys *)

(* positions a+1 (in sorted order) whose key equals that of position a *)
Fixpoint dup_positions (l : list (nat * nat)) : list nat :=
  match l with
  | a :: ((b :: _) as r) => if Nat.eqb (fst a) (fst b) then snd b :: dup_positions r else dup_positions r
  | _ => []
  end.

Definition set_inc (left : bool) (s : wstate) (v : nat) (l : list nat) : wstate :=
  if left then mk_wstate (w_edges s) (w_weights s) (upd (w_linc s) v l) (w_rinc s) (w_cnt s) (w_sum s) (w_sq s) (w_parent s) (w_height s)
  else mk_wstate (w_edges s) (w_weights s) (w_linc s) (upd (w_rinc s) v l) (w_cnt s) (w_sum s) (w_sq s) (w_parent s) (w_height s).
Definition get_inc (left : bool) (s : wstate) (v : nat) : list nat :=
  nth v (if left then w_linc s else w_rinc s) [].

Definition kill_edge (s : wstate) (e : nat) : wstate :=
  mk_wstate (upd (w_edges s) e None) (upd (w_weights s) e None) (w_linc s) (w_rinc s)
            (w_cnt s) (w_sum s) (w_sq s) (w_parent s) (w_height s).

(* np.argsort's order among EQUAL keys is unspecified (the SIMD sorts of current NumPy are not
   stable, even on 4 elements), and it decides which of two duplicate edges survives.  The
   permutations the running code obtained are recorded by the harness and passed in as an
   oracle stream; each is validated (a permutation that sorts the keys) before use.  With an
   empty stream the stable order is used (Coq-side examples). *)
Definition valid_argsort (keys perm : list nat) : bool :=
  Nat.eqb (length perm) (length keys)
  && forallb (fun i => existsb (Nat.eqb i) perm) (seq 0 (length keys))
  && (fix sorted (l : list nat) : bool :=
        match l with
        | a :: ((b :: _) as r) => Nat.leb (nth a keys O) (nth b keys O) && sorted r
        | _ => true
        end) perm.

Definition sorted_pairs_with (keys : list nat) (orc : list (list nat)) : option (list (nat * nat) * list (list nat)) :=
  match orc with
  | [] => Some (sort_pairs keys, [])
  | perm :: rest => if valid_argsort keys perm then Some (map (fun pos => (nth pos keys O, pos)) perm, rest) else None
  end.

(* "remove double edges", one side.  left = true: duplicates among linc[k] by right endpoint *)
Definition dedupe (left : bool) (k : nat) (so : wstate * list (list nat)) : option (wstate * list (list nat)) :=
  let (s, orc) := so in
  let idxk := get_inc left s k in
  match idxk with
  | [] => Some (s, orc)                   (* `if np.size(idxk) > 0:` - no argsort call *)
  | _ =>
  let corr := map (fun e => match nth e (w_edges s) None with
                            | Some (a, b) => S (if left then b else a) | None => O end) idxk in
  do sp <- sorted_pairs_with corr orc ;;
  let dups := dup_positions (fst sp) in
  do s' <- fold_left (fun os pos =>
      do s <- os ;;
      let i2 := nth pos idxk O in
      match nth i2 (w_edges s) None with
      | None => None                      (* rinc[-1] would be touched *)
      | Some (a, b) =>
          let other := if left then b else a in
          do lo <- py_remove i2 (get_inc (negb left) s other) ;;
          let s1 := set_inc (negb left) s other lo in
          let s2 := kill_edge s1 i2 in
          do lk <- py_remove i2 (get_inc left s2 k) ;;
          Some (set_inc left s2 k lk)
      end) dups (Some s) ;;
  Some (s', snd sp)
  end.

Definition is_tomb (s : wstate) (e : nat) : bool :=
  match nth e (w_edges s) None with None => true | Some _ => false end.

Definition remap (d i j k : nat) (s : wstate) (orc : list (list nat)) : option (wstate * list (list nat)) :=
  do s <- reweight d true k (get_inc true s i) s ;;
  do s <- reweight d false k (get_inc false s i) s ;;
  do s <- reweight d true k (get_inc true s j) s ;;
  do s <- reweight d false k (get_inc false s j) s ;;
  let lk := get_inc true s j ++ get_inc true s i in
  let lk := py_prune (length lk) (is_tomb s) lk 0 in
  let s := set_inc true (set_inc true (set_inc true s k lk) i []) j [] in
  let rk := get_inc false s j ++ get_inc false s i in
  let rk := py_prune (length rk) (is_tomb s) rk 0 in
  let s := set_inc false (set_inc false (set_inc false s k rk) i []) j [] in
  do so <- dedupe true k (s, orc) ;;
  dedupe false k so.

(* ---- one iteration of the loop of `ward` --------------------------------- *)
Definition ward_step (d n q : nat) (so : wstate * list (list nat)) : option (wstate * list (list nat)) :=
  let (s, orc) := so in
  let m := argmin (w_weights s) in
  let k := (q + n)%nat in
  match nth m (w_edges s) None, nth m (w_weights s) None with
  | Some (i, j), cost =>
      let cost := match cost with Some c => c | None => 0 end in
      let s := mk_wstate (w_edges s) (w_weights s) (w_linc s) (w_rinc s) (w_cnt s) (w_sum s) (w_sq s)
                         (w_parent s) (upd (w_height s) k cost) in
      let s := kill_edge s m in
      do li <- py_remove m (get_inc true s i) ;;
      let s := set_inc true s i li in
      do rj <- py_remove m (get_inc false s j) ;;
      let s := set_inc false s j rj in
      let ml := get_inc true s j in
      let back := filter (fun e => match nth e (w_edges s) None with Some (_, b) => Nat.eqb b i | None => false end) ml in
      do s <- match back with
              | [] => Some s
              | m2 :: _ =>
                  (* m = ml[int(np.flatnonzero(K.edges[ml, 1] == i)[0])]: the first match (6608ba6) *)
                  let s := kill_edge s m2 in
                  do lj <- py_remove m2 (get_inc true s j) ;;
                  let s := set_inc true s j lj in
                  do ri <- py_remove m2 (get_inc false s i) ;;
                  Some (set_inc false s i ri)
              end ;;
      let d_ := d in
      let s := mk_wstate (w_edges s) (w_weights s) (w_linc s) (w_rinc s)
                 (upd (w_cnt s) k (nth i (w_cnt s) O + nth j (w_cnt s) O)%nat)
                 (upd (w_sum s) k (vadd d_ (nth i (w_sum s) []) (nth j (w_sum s) [])))
                 (upd (w_sq s) k (vadd d_ (nth i (w_sq s) []) (nth j (w_sq s) [])))
                 (upd (upd (w_parent s) i k) j k) (w_height s) in
      remap d i j k s orc
  | None, _ => None                       (* argmin over an all-inf array picks a tombstone *)
  end.

Fixpoint ward_loop (d n : nat) (steps q : nat) (s : wstate * list (list nat)) : option (wstate * list (list nat)) :=
  match steps with
  | O => Some s
  | S r => do s' <- ward_step d n q s ;; ward_loop d n r (S q) s'
  end.

(* ward(G, feature): parents and heights of the WeightedForest *)
(* orc: the argsort results observed on the running code, in call order ([] = stable order) *)
Definition ward (d n : nat) (G : list (nat * nat)) (feat : list vec) (orc : list (list nat)) : option (list nat * list Q) :=
  do so <- ward_loop d n (n - nbcc n G) 0 (init_state d n G feat, orc) ;;
  let s := fst so in
  Some (w_parent s, w_height s).

(* ---- WeightedForest ------------------------------------------------------ *)
Definition check_compatible_height (parents : list nat) (height : list Q) : bool :=
  forallb (fun i => negb (Qltb (nth (nth i parents O) height 0) (nth i height 0))) (seq 0 (length parents)).

(* subforest(valid): a vertex whose parent is dropped becomes its own parent *)
Definition sub_parent (parents : list nat) (valid : nat -> bool) (v : nat) : nat :=
  let p := nth v parents v in if valid p then p else v.
Fixpoint root_of (fuel : nat) (par : nat -> nat) (v : nat) : nat :=
  match fuel with
  | O => v
  | S f => let p := par v in if Nat.eqb p v then v else root_of f par p
  end.

(* labels (one per leaf of the sub-forest, in vertex order): the root of its tree.
   The implementation's component numbers are renamed by first occurrence on both sides. *)
Definition cut_labels (parents : list nat) (valid : nat -> bool) : list nat :=
  let V := length parents in
  let kept := filter valid (seq 0 V) in
  let par := sub_parent parents valid in
  let isleaf v := negb (existsb (fun w => negb (Nat.eqb w v) && Nat.eqb (par w) v) kept) in
  map (root_of V par) (filter isleaf kept).

Fixpoint find_pos (a : nat) (s : list nat) (i : nat) : option nat :=
  match s with
  | [] => None
  | b :: s' => if Nat.eqb a b then Some i else find_pos a s' (S i)
  end.
Fixpoint rename_from (l : list nat) (seen : list nat) : list nat :=
  match l with
  | [] => []
  | a :: r =>
      match find_pos a seen O with
      | Some i => i :: rename_from r seen
      | None => length seen :: rename_from r (seen ++ [a])
      end
  end.
Definition canon (l : list nat) : list nat := rename_from l [].

(* Forest.isleaf: not the parent of another vertex *)
Definition forest_isleaf (parents : list nat) (v : nat) : bool :=
  negb (existsb (fun w => negb (Nat.eqb w v) && Nat.eqb (nth w parents w) v) (seq 0 (length parents))).

(* partition(threshold): valid = (self.height < threshold) | self.isleaf()  (since /repo 813b3d1 the leaves are
   always kept); None = "cannot create graphs with no vertex" *)
Definition partition (parents : list nat) (height : list Q) (th : Q) : option (list nat) :=
  let valid v := (if src_partition_strict then Qltb (nth v height 0) th else Qle_bool (nth v height 0) th)
                 || (src_partition_keeps_leaves && forest_isleaf parents v) in
  if existsb valid (seq 0 (length parents)) then Some (canon (cut_labels parents valid)) else None.

Fixpoint insq (x : Q) (l : list Q) : list Q :=
  match l with [] => [x] | a :: r => if Qle_bool x a then x :: a :: r else a :: insq x r end.
Definition sortq (l : list Q) : list Q := fold_right insq [] l.

(* Python indexing of an array of length V: negative indices count from the end *)
Definition py_index (V : nat) (idx : Z) : option nat :=
  if (idx <? 0)%Z then (if (- idx <=? Z.of_nat V)%Z then Some (Z.to_nat (Z.of_nat V + idx)) else None)
  else if (idx <? Z.of_nat V)%Z then Some (Z.to_nat idx) else None.

Definition split (parents : list nat) (height : list Q) (k : nat) : option (list nat) :=
  let V := length parents in
  let k := Nat.min k V in
  let c := count_roots parents in
  if Nat.leb k c then Some (canon (cut_labels parents (fun _ => true)))
  else match py_index V (src_split_index (Z.of_nat c) (Z.of_nat k)) with    (* th = sh[nbcc - k], translated *)
       | Some i => partition parents height (nth i (sortq height) 0)
       | None => None                                                         (* IndexError *)
       end.

(* list_of_subtrees: leaves below each internal node *)
Definition list_of_subtrees (n : nat) (parents : list nat) : list (list nat) :=
  let V := length parents in
  let init := map (fun i => if Nat.ltb i n then [i] else []) (seq 0 V) in
  let lst := fold_left (fun lst i => let j := nth i parents O in
                                     if Nat.eqb j i then lst          (* `if j != i:` (98e9feb) *)
                                     else upd lst j (nth i lst [] ++ nth j lst []))
                       (seq 0 (V - 1)) init in
  skipn n lst.

(* ward_segment(G, feature, stop, qmax): u *)
Definition maxl (l : list nat) : nat := fold_right Nat.max O l.
Definition ward_segment_u (n : nat) (parents : list nat) (height : list Q) (stop : option Q) (qmax : Z) : option (list nat) :=
  (* stop = None encodes stop == -1 (-> inf); a negative stop other than -1 skips the partition *)
  let qmax := if (qmax =? -1)%Z then (Z.of_nat n - 1)%Z else qmax in
  let qmax := Z.min qmax (Z.of_nat n - 1)%Z in
  do u1 <- match stop with
           | None => Some (canon (cut_labels parents (fun _ => true)))
           | Some th => if Qle_bool 0 th then partition parents height th else Some (repeat O n)
           end ;;
  do u2 <- (if (0 <? qmax)%Z then split parents height (Z.to_nat qmax) else Some (repeat O n)) ;;
  Some (if Nat.ltb (maxl u1) (maxl u2) then u2 else u1).

(* ---- comparison helpers --------------------------------------------------- *)
Definition ward_agrees (d n : nat) (G : list (nat * nat)) (feat : list vec) (orc : list (list nat)) (parents : list nat) (height : list Q) : bool :=
  match ward_loop d n (n - nbcc n G) 0 (init_state d n G feat, orc) with
  | Some (s, rest) => nats_eqb (w_parent s) parents && qvec_eqb (w_height s) height
                      && match rest with [] => true | _ => false end     (* every observed argsort call was consumed *)
  | None => false
  end.
Definition ward_raises (d n : nat) (G : list (nat * nat)) (feat : list vec) (orc : list (list nat)) : bool :=
  match ward d n G feat orc with Some _ => false | None => true end.
Definition onats_eqb (a b : option (list nat)) : bool :=
  match a, b with Some x, Some y => nats_eqb x y | None, None => true | _, _ => false end.

(* ---- certificate checkers (sound w.r.t. ProperDendrogram / CheapestMerges, ProofsH.v) ---- *)
(* within-cluster sum of squares of a set of rows, by definition *)
Definition wss (d : nat) (xs : list vec) : Q := qsum (map (fun x => sqdist d x (vmean d xs)) xs).

Fixpoint reaches (fuel : nat) (parents : list nat) (x v : nat) : bool :=
  Nat.eqb x v ||
  match fuel with
  | O => false
  | S f => let p := nth x parents x in negb (Nat.eqb p x) && reaches f parents p v
  end.

Definition leafset (n : nat) (parents : list nat) (v : nat) : list nat :=
  filter (fun x => reaches (length parents) parents x v) (seq 0 n).

Definition edge_between (G : list (nat * nat)) (x y : nat) : bool := has_edge G x y || has_edge G y x.
Definition adjacent (G : list (nat * nat)) (A B : list nat) : bool :=
  existsb (fun x => existsb (fun y => edge_between G x y) B) A.

Definition feats (feat : list vec) (l : list nat) : list vec := map (fun x => nth x feat []) l.

(* clusters alive when node k is created: not yet merged into a node < k *)
Definition alive (parents : list nat) (k v : nat) : bool :=
  Nat.ltb v k && (Nat.eqb (nth v parents v) v || Nat.leb k (nth v parents v)).

(* the same number from the sufficient statistics (equal to wss by ProofsH.wss_fast_eq);
   this is what the checkers evaluate *)
Definition colsum (d : nat) (xs : list vec) : vec := map (fun j => qsum (col j xs)) (seq 0 d).
Definition colsq (d : nat) (xs : list vec) : vec := map (fun j => qsum (map (fun v => v * v) (col j xs))) (seq 0 d).
Definition wss_fast (d : nat) (xs : list vec) : Q :=
  match xs with [] => 0 | _ => inertia_vec d (Qn (length xs)) (colsum d xs) (colsq d xs) end.

(* LS = the table of leaf sets, computed once (vm_compute is call-by-value: the `if`s keep the
   expensive tests lazy) *)
Definition cheapest_ok (d : nat) (G : list (nat * nat)) (feat : list vec) (parents : list nat) (height : list Q)
           (LS : list (list nat)) (k : nat) : bool :=
  forallb (fun u =>
     if alive parents k u then
       forallb (fun v =>
          if negb (Nat.eqb u v) && alive parents k v then
            if adjacent G (nth u LS []) (nth v LS []) then
              Qle_bool (nth k height 0) (wss_fast d (feats feat (nth u LS [] ++ nth v LS [])))
            else true
          else true) (seq 0 k)
     else true) (seq 0 k).

Definition node_ok (d : nat) (G : list (nat * nat)) (feat : list vec) (parents : list nat) (height : list Q)
           (LS : list (list nat)) (k : nat) : bool :=
  match filter (fun v => negb (Nat.eqb v k) && Nat.eqb (nth v parents v) k) (seq 0 (length parents)) with
  | [a; b] => Nat.ltb a k && Nat.ltb b k && adjacent G (nth a LS []) (nth b LS [])
              && Qeq_bool (nth k height 0) (wss_fast d (feats feat (nth k LS [])))
  | _ => false
  end.

Definition vertex_ok (n : nat) (parents : list nat) (height : list Q) (v : nat) : bool :=
  let p := nth v parents v in
  Nat.leb v p && Nat.ltb p (length parents) && (Nat.eqb p v || Nat.leb n p)
  && Qle_bool (nth v height 0) (nth p height 0).

(* every edge of G between items stays inside one tree *)
Definition edge_ok (n : nat) (parents : list nat) (e : nat * nat) : bool :=
  if Nat.ltb (fst e) n && Nat.ltb (snd e) n then
    existsb (fun r => if Nat.eqb (nth r parents r) r then
                        if reaches (length parents) parents (fst e) r then reaches (length parents) parents (snd e) r else false
                      else false) (seq 0 (length parents))
  else true.

Definition leafsets (n : nat) (parents : list nat) : list (list nat) :=
  map (leafset n parents) (seq 0 (length parents)).

(* structural clauses only (any linkage whose height is the merged within-cluster SS) *)
Definition dendro_check (d n : nat) (G : list (nat * nat)) (feat : list vec) (parents : list nat) (height : list Q) : bool :=
  let V := length parents in
  let LS := leafsets n parents in
  Nat.leb n V && forallb (vertex_ok n parents height) (seq 0 V)
  && forallb (node_ok d G feat parents height LS) (seq n (V - n))
  && forallb (edge_ok n parents) G.

(* ... plus: each merge is the cheapest admissible one under Ward's cost *)
Definition ward_check (d n : nat) (G : list (nat * nat)) (feat : list vec) (parents : list nat) (height : list Q) : bool :=
  dendro_check d n G feat parents height
  && forallb (cheapest_ok d G feat parents height (leafsets n parents)) (seq n (length parents - n)).
