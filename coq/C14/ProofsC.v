(* C14: specification of WeightedForest.partition on proper dendrograms. *)
From Coq Require Import List Bool ZArith QArith Lia Lqa Arith.
From NV.Generated Require Import ClusteringFrags.
From NV.C14 Require Import Model ProofsK ModelH.
From NV.C14 Require Import ProofsH.
Import ListNotations.

(* ---------------------------------------------------------------- canon *)
Lemma find_pos_some a : forall s i p, find_pos a s i = Some p -> exists q, p = (i + q)%nat /\ nth_error s q = Some a.
Proof. induction s as [|b s IH]; intros i p H; cbn [find_pos] in H; [discriminate|].
  destruct (Nat.eqb a b) eqn:E.
  - apply Nat.eqb_eq in E. subst b. injection H as <-. exists 0%nat. split; [lia|reflexivity].
  - apply IH in H. destruct H as (q & -> & Hq). exists (S q). split; [lia|exact Hq]. Qed.

Lemma find_pos_none a : forall s i, find_pos a s i = None -> ~ In a s.
Proof. induction s as [|b s IH]; intros i H; cbn [find_pos] in H; [intros []|].
  destruct (Nat.eqb a b) eqn:E; [discriminate|]. apply Nat.eqb_neq in E. intros [Hb|Hs]; [congruence|]. now apply (IH _ H). Qed.

Lemma NoDup_snoc (a : nat) s : NoDup s -> ~ In a s -> NoDup (s ++ [a]).
Proof. intros H1 H2. apply NoDup_rev in H1. rewrite <- (rev_involutive (s ++ [a])). apply NoDup_rev.
  rewrite rev_app_distr. cbn [rev app]. constructor; [now rewrite <- in_rev|exact H1]. Qed.

Lemma rename_spec : forall l seen, NoDup seen ->
  exists ext, NoDup (seen ++ ext) /\
    Forall2 (fun a o => nth_error (seen ++ ext) o = Some a) l (rename_from l seen).
Proof. induction l as [|a r IH]; intros seen Hnd.
  - exists []. rewrite app_nil_r. split; [exact Hnd|constructor].
  - cbn [rename_from]. destruct (find_pos a seen 0) as [p|] eqn:E.
    + apply find_pos_some in E. destruct E as (q & -> & Hq). destruct (IH seen Hnd) as (ext & H1 & H2).
      exists ext. split; [exact H1|]. constructor; [|exact H2].
      cbn [Nat.add]. rewrite nth_error_app1; [exact Hq|]. apply nth_error_Some. congruence.
    + apply find_pos_none in E. destruct (IH (seen ++ [a]) (NoDup_snoc a seen Hnd E)) as (ext & H1 & H2).
      exists (a :: ext). replace (seen ++ a :: ext) with ((seen ++ [a]) ++ ext) by (now rewrite <- app_assoc).
      split; [exact H1|]. constructor; [|exact H2].
      rewrite <- app_assoc. cbn [app]. rewrite nth_error_app2 by lia. now rewrite Nat.sub_diag. Qed.

Lemma Forall2_nth_nat (R : nat -> nat -> Prop) : forall l o, Forall2 R l o ->
  length l = length o /\ forall i, (i < length l)%nat -> R (nth i l 0%nat) (nth i o 0%nat).
Proof. induction 1 as [|a b l o Hab H IH]; [split; [reflexivity|intros i Hi; simpl in Hi; lia]|].
  destruct IH as [IH1 IH2]. split; [simpl; lia|]. intros [|i] Hi; [exact Hab|]. cbn [nth]. apply IH2. simpl in Hi. lia. Qed.

(* renaming by first occurrence keeps exactly the equalities between labels *)
Lemma canon_spec l : length (canon l) = length l /\
  forall i j, (i < length l)%nat -> (j < length l)%nat ->
    (nth i (canon l) 0%nat = nth j (canon l) 0%nat <-> nth i l 0%nat = nth j l 0%nat).
Proof. unfold canon. destruct (rename_spec l [] (NoDup_nil _)) as (ext & Hnd & HF). cbn [app] in *.
  apply Forall2_nth_nat in HF. destruct HF as [HL HF]. split; [now rewrite HL|].
  intros i j Hi Hj. pose proof (HF i Hi) as Ei. pose proof (HF j Hj) as Ej. split; intros E.
  - rewrite E in Ei. rewrite Ei in Ej. now injection Ej.
  - rewrite <- E in Ej. apply (proj1 (NoDup_nth_error ext) Hnd).
    + apply nth_error_Some. congruence.
    + congruence. Qed.

(* ---------------------------------------------------------------- filters *)
Lemma filter_all {A} (f : A -> bool) l : (forall x, In x l -> f x = true) -> filter f l = l.
Proof. induction l as [|a l IH]; intros H; cbn [filter]; [reflexivity|]. rewrite (H a) by (simpl; auto).
  f_equal. apply IH. intros; apply H; simpl; auto. Qed.
Lemma filter_none {A} (f : A -> bool) l : (forall x, In x l -> f x = false) -> filter f l = [].
Proof. induction l as [|a l IH]; intros H; cbn [filter]; [reflexivity|]. rewrite (H a) by (simpl; auto).
  apply IH. intros; apply H; simpl; auto. Qed.
Lemma filter_filter {A} (f g : A -> bool) l : filter f (filter g l) = filter (fun x => g x && f x) l.
Proof. induction l as [|a l IH]; cbn [filter]; [reflexivity|]. destruct (g a); cbn [filter andb]; [destruct (f a)|]; now rewrite IH. Qed.
Lemma filter_seq_prefix (f : nat -> bool) n V : (n <= V)%nat ->
  (forall v, (v < n)%nat -> f v = true) -> (forall v, (n <= v < V)%nat -> f v = false) -> filter f (seq 0 V) = seq 0 n.
Proof. intros Hn H1 H2. replace V with (n + (V - n))%nat by lia. rewrite seq_app, filter_app. cbn [Nat.add].
  rewrite filter_all by (intros x Hx; apply in_seq in Hx; apply H1; lia).
  rewrite filter_none by (intros x Hx; apply in_seq in Hx; apply H2; lia). apply app_nil_r. Qed.

(* ---------------------------------------------------------------- the cut *)
Lemma Qltb_intro a b : a < b -> Qltb a b = true.
Proof. intros H. unfold Qltb. apply negb_true_iff. destruct (Qle_bool b a) eqn:E; [|reflexivity].
  apply Qle_bool_iff in E. exfalso. apply (Qlt_not_le _ _ H E). Qed.

Section Cut.
  Variables (d n : nat) (G : list (nat * nat)) (feat : list vec) (parents : list nat) (height : list Q).
  Variable valid : nat -> bool.                   (* the nodes kept by subforest() *)
  Hypothesis PD : ProperDendrogram d n G feat parents height.
  Hypothesis Hn : (n <= length parents)%nat.
  Hypothesis Hitems : forall x, (x < n)%nat -> valid x = true.
  Hypothesis Hdown : forall v, valid (nth v parents v) = true -> valid v = true.   (* kept set is closed downwards *)

  Let V := length parents.
  Let par := sub_parent parents valid.

  Lemma PD1 v : (v < V)%nat ->
    (v <= nth v parents v < V)%nat /\ (nth v parents v <> v -> (n <= nth v parents v)%nat) /\
    nth v height 0 <= nth (nth v parents v) height 0.
  Proof. destruct PD as [H _]. apply H. Qed.

  Lemma parents_overflow v : (V <= v)%nat -> nth v parents v = v.
  Proof. intros H. apply nth_overflow. exact H. Qed.

  Lemma par_cases v : par v = v \/ (par v = nth v parents v /\ par v <> v /\ valid (par v) = true /\ (v < par v < V)%nat).
  Proof. unfold par, sub_parent. destruct (valid (nth v parents v)) eqn:E; [|now left].
    destruct (Nat.eq_dec (nth v parents v) v) as [Eq|Ne]; [left; exact Eq|right].
    destruct (Nat.lt_ge_cases v V) as [Hlt|Hge]; [|rewrite parents_overflow in Ne by exact Hge; congruence].
    pose proof (PD1 v Hlt) as (H1 & _ & _). repeat split; try assumption; lia. Qed.

  Inductive VChain : nat -> nat -> Prop :=
  | vc_refl v : VChain v v
  | vc_step x v : par x <> x -> VChain (par x) v -> VChain x v.

  Lemma VChain_trans x a r : VChain x a -> VChain a r -> VChain x r.
  Proof. induction 1 as [v|x v Hne Hc IH]; intros H; [exact H|]. apply vc_step; [exact Hne|now apply IH]. Qed.

  Lemma root_chain : forall fuel x, VChain x (root_of fuel par x).
  Proof. induction fuel as [|f IH]; intros x; cbn [root_of]; [constructor|].
    destruct (Nat.eqb (par x) x) eqn:E; [constructor|]. apply Nat.eqb_neq in E. apply vc_step; [exact E|apply IH]. Qed.

  Lemma root_fix : forall fuel x, (V - x <= fuel)%nat -> par (root_of fuel par x) = root_of fuel par x.
  Proof. induction fuel as [|f IH]; intros x Hf; cbn [root_of].
    - destruct (par_cases x) as [E|(_ & _ & _ & H)]; [exact E|lia].
    - destruct (Nat.eqb (par x) x) eqn:E; [now apply Nat.eqb_eq|]. apply IH.
      destruct (par_cases x) as [E'|(_ & _ & _ & H)]; [apply Nat.eqb_neq in E; congruence|lia]. Qed.

  Lemma top_unique x r1 r2 : VChain x r1 -> par r1 = r1 -> VChain x r2 -> par r2 = r2 -> r1 = r2.
  Proof. induction 1 as [v|x v Hne Hc IH]; intros H1 H2 H3.
    - inversion H2 as [|? ? Hne' _]; subst; [reflexivity|congruence].
    - inversion H2 as [|? ? Hne' Hc']; subst; [congruence|]. now apply IH. Qed.

  Lemma same_root_iff x y :
    root_of V par x = root_of V par y <-> exists a, VChain x a /\ VChain y a.
  Proof. split.
    - intros E. exists (root_of V par x). split; [apply root_chain|rewrite E; apply root_chain].
    - intros (a & Hx & Hy). set (r := root_of V par a).
      assert (Hr : par r = r) by (apply root_fix; lia).
      assert (Ha : VChain a r) by apply root_chain.
      rewrite (top_unique x (root_of V par x) r (root_chain V x) (root_fix V x ltac:(lia)) (VChain_trans _ _ _ Hx Ha) Hr).
      rewrite (top_unique y (root_of V par y) r (root_chain V y) (root_fix V y ltac:(lia)) (VChain_trans _ _ _ Hy Ha) Hr).
      reflexivity. Qed.

  (* chains of the sub-forest = kept ancestors *)
  Lemma VChain_under x a : VChain x a -> Under parents x a /\ (x = a \/ valid a = true).
  Proof. induction 1 as [v|x v Hne Hc [IH1 IH2]]; [split; [constructor|now left]|].
    destruct (par_cases x) as [E|(E1 & _ & E3 & _)]; [congruence|]. split.
    - apply under_step; rewrite <- E1; assumption.
    - right. destruct IH2 as [<-|IH2]; assumption. Qed.

  Lemma under_valid x a : Under parents x a -> valid a = true -> valid x = true.
  Proof. induction 1 as [v|x v Hne Hu IH]; intros Hv; [exact Hv|]. apply Hdown. now apply IH. Qed.

  Lemma under_VChain x a : Under parents x a -> valid a = true -> VChain x a.
  Proof. induction 1 as [v|x v Hne Hu IH]; intros Hv; [constructor|].
    assert (Hp : valid (nth x parents x) = true) by (now apply (under_valid _ v)).
    assert (E : par x = nth x parents x) by (unfold par, sub_parent; now rewrite Hp).
    apply vc_step; rewrite E; [exact Hne|now apply IH]. Qed.

  Lemma items_same_cluster_iff x y : (x < n)%nat -> (y < n)%nat ->
    (root_of V par x = root_of V par y <->
     exists a, Under parents x a /\ Under parents y a /\ valid a = true).
  Proof. intros Hx Hy. rewrite same_root_iff. split.
    - intros (a & H1 & H2). apply VChain_under in H1. apply VChain_under in H2.
      exists a. split; [tauto|]. split; [tauto|].
      destruct H1 as [_ [<-|H1]]; [now apply Hitems|exact H1].
    - intros (a & H1 & H2 & H3). exists a. split; now apply under_VChain. Qed.

  (* the leaves of the sub-forest are exactly the items *)
  Lemma cut_leaves_are_items :
    let kept := filter valid (seq 0 V) in
    filter (fun v => negb (existsb (fun w => negb (Nat.eqb w v) && Nat.eqb (par w) v) kept)) kept = seq 0 n.
  Proof. intros kept. unfold kept at 2. rewrite filter_filter. apply filter_seq_prefix; [exact Hn| |].
    - intros v Hv. rewrite (Hitems v Hv). cbn [andb]. apply negb_true_iff.
      destruct (existsb _ kept) eqn:E; [|reflexivity]. exfalso.
      apply existsb_exists in E. destruct E as (w & _ & E). apply andb_true_iff in E. destruct E as [E1 E2].
      apply negb_true_iff, Nat.eqb_neq in E1. apply Nat.eqb_eq in E2.
      destruct (par_cases w) as [E|(E3 & _ & _ & E4)]; [congruence|].
      assert (Hw : (w < V)%nat) by lia. pose proof (PD1 w Hw) as (_ & H & _).
      rewrite <- E3, E2 in H. specialize (H ltac:(lia)). lia.
    - intros v Hv. destruct (valid v) eqn:Ev; [|reflexivity]. cbn [andb]. apply negb_false_iff.
      destruct PD as (_ & PD2 & _). destruct (PD2 v Hv) as (a & b & Ha & _ & _ & Hpa & _).
      apply existsb_exists. exists a. split.
      + unfold kept. apply filter_In. split; [apply in_seq; lia|]. apply Hdown. now rewrite Hpa.
      + apply andb_true_iff. split; [apply negb_true_iff, Nat.eqb_neq; lia|].
        apply Nat.eqb_eq. unfold par, sub_parent. rewrite Hpa, Ev. reflexivity. Qed.

  Lemma cut_labels_eq : cut_labels parents valid = map (root_of V par) (seq 0 n).
  Proof. unfold cut_labels. fold V. fold par. now rewrite cut_leaves_are_items. Qed.

  (* one label per item; two items share a label iff they have a common kept ancestor *)
  Lemma cut_spec :
    length (canon (cut_labels parents valid)) = n /\
    forall x y, (x < n)%nat -> (y < n)%nat ->
      (nth x (canon (cut_labels parents valid)) 0%nat = nth y (canon (cut_labels parents valid)) 0%nat <->
       exists a, Under parents x a /\ Under parents y a /\ valid a = true).
  Proof. rewrite cut_labels_eq.
    destruct (canon_spec (map (root_of V par) (seq 0 n))) as [HL HE].
    rewrite map_length, seq_length in HL, HE. split; [exact HL|].
    intros x y Hx Hy. rewrite (HE x y Hx Hy).
    rewrite !(nth_indep _ 0%nat (root_of V par 0)) by (now rewrite map_length, seq_length).
    rewrite !map_nth, !seq_nth by assumption. cbn [Nat.add]. now apply items_same_cluster_iff. Qed.
End Cut.

Lemma Under_snoc parents x c : Under parents x c -> nth c parents c <> c -> Under parents x (nth c parents c).
Proof. induction 1 as [v|x v Hne Hu IH]; intros H.
  - apply under_step; [exact H|constructor].
  - apply under_step; [exact Hne|now apply IH]. Qed.

Lemma Under_last parents x v : Under parents x v -> x <> v ->
  exists c, Under parents x c /\ c <> v /\ nth c parents c = v.
Proof. induction 1 as [v|x v Hne Hu IH]; intros H; [congruence|].
  destruct (Nat.eq_dec (nth x parents x) v) as [E|E].
  - exists x. split; [constructor|]. split; [exact H|exact E].
  - destruct (IH E) as (c & H1 & H2 & H3). exists c. split; [now apply under_step|]. split; assumption. Qed.

Lemma height_valid_down d n G feat parents height th :
  ProperDendrogram d n G feat parents height ->
  forall v, Qltb (nth (nth v parents v) height 0) th = true -> Qltb (nth v height 0) th = true.
Proof. intros PD v H. destruct (Nat.lt_ge_cases v (length parents)) as [Hlt|Hge].
  - destruct PD as (P1 & _). destruct (P1 v Hlt) as (_ & _ & Hh). apply Qltb_intro. apply Qltb_true in H. lra.
  - now rewrite (nth_overflow parents v Hge) in H. Qed.

(* partition(th) on a proper dendrogram, th above the leaves' height: one label per
   item; two items share a label iff they have a common ancestor of height < th *)
Lemma isleaf_item d n G feat parents height x :
  ProperDendrogram d n G feat parents height -> (x < n)%nat -> forest_isleaf parents x = true.
Proof. intros (P1 & _) Hx. unfold forest_isleaf. apply negb_true_iff. destruct (existsb _ _) eqn:E; [|reflexivity]. exfalso.
  apply existsb_exists in E. destruct E as (w & Hw & E). apply in_seq in Hw. apply andb_true_iff in E. destruct E as [E1 E2].
  apply negb_true_iff, Nat.eqb_neq in E1. apply Nat.eqb_eq in E2. destruct (P1 w ltac:(lia)) as (_ & H & _).
  rewrite E2 in H. specialize (H ltac:(lia)). lia. Qed.

Lemma isleaf_parent_false parents v : (v < length parents)%nat -> nth v parents v <> v ->
  forest_isleaf parents (nth v parents v) = false.
Proof. intros Hv Hne. unfold forest_isleaf. apply negb_false_iff. apply existsb_exists. exists v. split; [apply in_seq; lia|].
  apply andb_true_iff. split; [apply negb_true_iff, Nat.eqb_neq; congruence|apply Nat.eqb_refl]. Qed.

Lemma isleaf_ancestor parents x a : Under parents x a -> forest_isleaf parents a = true -> a = x.
Proof. intros Hu Hl. destruct (Nat.eq_dec x a) as [E|E]; [now symmetry|]. exfalso.
  destruct (Under_last parents x a Hu E) as (c & _ & Hc1 & Hc2).
  assert (Hc : (c < length parents)%nat).
  { destruct (Nat.lt_ge_cases c (length parents)) as [H|H]; [exact H|]. rewrite nth_overflow in Hc2 by lia. congruence. }
  pose proof (isleaf_parent_false parents c Hc ltac:(congruence)) as Hf. rewrite Hc2 in Hf. congruence. Qed.

(* partition(th) on a proper dendrogram, ANY threshold (the leaves are always kept, /repo 813b3d1): defined, one label
   per item; two items share a label iff they are the same item or have a common ancestor of height < th *)
Lemma partition_spec d n G feat parents height th :
  ProperDendrogram d n G feat parents height -> (n <= length parents)%nat -> (0 < n)%nat ->
  exists u, partition parents height th = Some u /\ length u = n /\
    forall x y, (x < n)%nat -> (y < n)%nat ->
      (nth x u 0%nat = nth y u 0%nat <->
       x = y \/ exists a, Under parents x a /\ Under parents y a /\ nth a height 0 < th).
Proof. intros PD Hn Hpos. unfold partition. unfold src_partition_strict, src_partition_keeps_leaves. cbv iota. cbn [andb].
  set (valid := fun v => Qltb (nth v height 0) th || forest_isleaf parents v).
  assert (Hiv : forall x, (x < n)%nat -> valid x = true).
  { intros x Hx. unfold valid. rewrite (isleaf_item d n G feat parents height x PD Hx). apply orb_true_r. }
  assert (Hdown : forall v, valid (nth v parents v) = true -> valid v = true).
  { intros v Hv. destruct (Nat.lt_ge_cases v (length parents)) as [Hlt|Hge]; [|now rewrite (nth_overflow parents v Hge) in Hv].
    destruct (Nat.eq_dec (nth v parents v) v) as [E|E]; [now rewrite E in Hv|].
    unfold valid in Hv. rewrite (isleaf_parent_false parents v Hlt E), orb_false_r in Hv.
    unfold valid. rewrite (height_valid_down d n G feat parents height th PD v Hv). reflexivity. }
  assert (E : existsb valid (seq 0 (length parents)) = true).
  { apply existsb_exists. exists 0%nat. split; [apply in_seq; lia|apply Hiv; lia]. }
  rewrite E. eexists. split; [reflexivity|].
  destruct (cut_spec d n G feat parents height valid PD Hn Hiv Hdown) as [HL HS].
  split; [exact HL|]. intros x y Hx Hy. rewrite (HS x y Hx Hy). split.
  - intros (a & H1 & H2 & H3). unfold valid in H3. apply orb_true_iff in H3. destruct H3 as [H3|H3].
    + right. exists a. repeat split; try assumption. now apply Qltb_true.
    + left. rewrite <- (isleaf_ancestor parents x a H1 H3). now apply (isleaf_ancestor parents y a H2 H3).
  - intros [->|(a & H1 & H2 & H3)].
    + exists y. split; [constructor|]. split; [constructor|now apply Hiv].
    + exists a. repeat split; try assumption. unfold valid. rewrite (Qltb_intro _ _ H3). reflexivity. Qed.

(* split(k): k not above the number of trees -> the trees themselves;
   otherwise the partition at the (k - c)-th largest height *)
Lemma split_spec d n G feat parents height k :
  ProperDendrogram d n G feat parents height -> (n <= length parents)%nat -> (0 < n)%nat ->
  let V := length parents in let c := count_roots parents in let k' := Nat.min k V in
  ((k' <= c)%nat ->
     exists u, split parents height k = Some u /\ length u = n /\
       forall x y, (x < n)%nat -> (y < n)%nat ->
         (nth x u 0%nat = nth y u 0%nat <-> exists a, Under parents x a /\ Under parents y a)) /\
  ((c < k')%nat -> split parents height k = partition parents height (nth (V + c - k') (sortq height) 0)).
Proof. intros PD Hn Hpos V c k'. split; intros Hk; unfold split; fold V; fold c; fold k'.
  - assert (E : Nat.leb k' c = true) by (now apply Nat.leb_le). rewrite E. eexists. split; [reflexivity|].
    destruct (cut_spec d n G feat parents height (fun _ => true) PD Hn (fun _ _ => eq_refl) (fun _ _ => eq_refl)) as [HL HS].
    split; [exact HL|]. intros x y Hx Hy. rewrite (HS x y Hx Hy). split; intros (a & H); exists a; tauto.
  - assert (E : Nat.leb k' c = false) by (apply Nat.leb_gt; lia). rewrite E.
    assert (Hk' : (k' <= V)%nat) by (unfold k'; lia).
    assert (Ei : py_index V (src_split_index (Z.of_nat c) (Z.of_nat k')) = Some (V + c - k')%nat).
    { unfold py_index, src_split_index.
      assert (E1 : (Z.of_nat c - Z.of_nat k' <? 0)%Z = true) by (apply Z.ltb_lt; lia). rewrite E1.
      assert (E2 : (- (Z.of_nat c - Z.of_nat k') <=? Z.of_nat V)%Z = true) by (apply Z.leb_le; lia). rewrite E2.
      f_equal. lia. }
    now rewrite Ei. Qed.


(* ------------------------------------------------ clusters are connected *)
(* a path of edges of G all of whose vertices satisfy P *)
Inductive PathIn (G : list (nat * nat)) (P : nat -> Prop) : nat -> nat -> Prop :=
| path_refl x : P x -> PathIn G P x x
| path_step x y z : P x -> edge_between G x y = true -> PathIn G P y z -> PathIn G P x z.

Lemma PathIn_trans G P x y z : PathIn G P x y -> PathIn G P y z -> PathIn G P x z.
Proof. induction 1 as [x Hx|x y' z' Hx He Hp IH]; intros H; [exact H|]. eapply path_step; eauto. Qed.

Lemma PathIn_weaken G (P Q : nat -> Prop) x y : (forall z, P z -> Q z) -> PathIn G P x y -> PathIn G Q x y.
Proof. intros HPQ. induction 1 as [x Hx|x y' z' Hx He Hp IH]; [constructor; auto|]. eapply path_step; eauto. Qed.

Lemma edge_between_sym G x y : edge_between G x y = edge_between G y x.
Proof. unfold edge_between. apply orb_comm. Qed.

Lemma PathIn_sym G P x y : PathIn G P x y -> PathIn G P y x.
Proof. induction 1 as [x Hx|x y' z' Hx He Hp IH]; [now constructor|].
  apply PathIn_trans with y'; [exact IH|]. eapply path_step; [| |apply path_refl; exact Hx].
  - inversion Hp; assumption.
  - now rewrite edge_between_sym. Qed.

Section Connected.
  Variables (d n : nat) (G : list (nat * nat)) (feat : list vec) (parents : list nat) (height : list Q).
  Hypothesis PD : ProperDendrogram d n G feat parents height.

  (* the items below any node induce a connected sub-graph of G *)
  Lemma node_connected : forall v, (v < length parents)%nat -> forall x y,
    LeafUnder n parents x v -> LeafUnder n parents y v ->
    PathIn G (fun z => LeafUnder n parents z v) x y.
  Proof. destruct PD as (P1 & P2 & _ & _).
    induction v as [v IHv] using lt_wf_ind. intros Hv x y [Hx Hux] [Hy Huy].
    destruct (Nat.lt_ge_cases v n) as [Hvn|Hvn].
    - (* v is an item: nothing lies strictly below it *)
      assert (Hleaf : forall z, Under parents z v -> z = v).
      { intros z Hz. destruct (Nat.eq_dec z v) as [E|E]; [exact E|].
        destruct (Under_last parents z v Hz E) as (c & _ & Hc1 & Hc2).
        destruct (Nat.lt_ge_cases c (length parents)) as [Hc|Hc]; [|rewrite nth_overflow in Hc2 by lia; congruence].
        destruct (P1 c Hc) as (_ & Hc3 & _). rewrite Hc2 in Hc3. specialize (Hc3 ltac:(congruence)). lia. }
      rewrite (Hleaf x Hux), (Hleaf y Huy). constructor. split; [lia|constructor].
    - destruct (P2 v ltac:(lia)) as (a & b & Ha & Hb & Hab & Hpa & Hpb & Huniq & (x0 & y0 & Hx0 & Hy0 & He) & _).
      assert (Hchild : forall z, (z < n)%nat -> Under parents z v -> LeafUnder n parents z a \/ LeafUnder n parents z b).
      { intros z Hz Huz. destruct (Under_last parents z v Huz ltac:(lia)) as (c & Hc1 & Hc2 & Hc3).
        destruct (Nat.lt_ge_cases c (length parents)) as [Hc|Hc]; [|rewrite nth_overflow in Hc3 by lia; congruence].
        destruct (Huniq c Hc Hc2 Hc3) as [->| ->]; [left|right]; split; assumption. }
      assert (Hup_a : forall z, LeafUnder n parents z a -> LeafUnder n parents z v).
      { intros z [Hz Hu]. split; [exact Hz|]. rewrite <- Hpa. apply Under_snoc; [exact Hu|lia]. }
      assert (Hup_b : forall z, LeafUnder n parents z b -> LeafUnder n parents z v).
      { intros z [Hz Hu]. split; [exact Hz|]. rewrite <- Hpb. apply Under_snoc; [exact Hu|lia]. }
      assert (Ca : forall p q, LeafUnder n parents p a -> LeafUnder n parents q a -> PathIn G (fun z => LeafUnder n parents z v) p q).
      { intros p q Hp Hq. apply PathIn_weaken with (P := fun z => LeafUnder n parents z a); [exact Hup_a|].
        apply IHv; [exact Ha|lia|exact Hp|exact Hq]. }
      assert (Cb : forall p q, LeafUnder n parents p b -> LeafUnder n parents q b -> PathIn G (fun z => LeafUnder n parents z v) p q).
      { intros p q Hp Hq. apply PathIn_weaken with (P := fun z => LeafUnder n parents z b); [exact Hup_b|].
        apply IHv; [exact Hb|lia|exact Hp|exact Hq]. }
      assert (Cab : forall p q, LeafUnder n parents p a -> LeafUnder n parents q b -> PathIn G (fun z => LeafUnder n parents z v) p q).
      { intros p q Hp Hq. apply PathIn_trans with x0; [now apply Ca|].
        apply path_step with y0; [now apply Hup_a|exact He|now apply Cb]. }
      destruct (Hchild x Hx Hux) as [Hxa|Hxb], (Hchild y Hy Huy) as [Hya|Hyb].
      + now apply Ca.
      + now apply Cab.
      + apply PathIn_sym. now apply Cab.
      + now apply Cb. Qed.
End Connected.

(* each cluster of partition(th) induces a connected sub-graph of the constraint graph *)
Lemma cut_clusters_connected d n G feat parents height th :
  ProperDendrogram d n G feat parents height -> (n <= length parents)%nat -> (0 < n)%nat ->
  exists u, partition parents height th = Some u /\
    forall x y, (x < n)%nat -> (y < n)%nat -> nth x u 0%nat = nth y u 0%nat ->
      PathIn G (fun z => (z < n)%nat /\ nth z u 0%nat = nth x u 0%nat) x y.
Proof. intros PD Hn Hpos.
  destruct (partition_spec d n G feat parents height th PD Hn Hpos) as (u & Hu & _ & Hspec).
  exists u. split; [exact Hu|]. intros x y Hx Hy E.
  apply (Hspec x y Hx Hy) in E. destruct E as [->|(a & Hxa & Hya & Hth)]; [constructor; split; [exact Hy|reflexivity]|].
  assert (Ha : (a < length parents)%nat).
  { destruct PD as (P1 & _).
    assert (forall p q, Under parents p q -> (p < length parents)%nat -> (q < length parents)%nat) as Hb.
    { induction 1 as [v|p q Hne' Hu'' IH]; intros Hp; [exact Hp|]. apply IH. destruct (P1 p Hp) as (Hr & _). lia. }
    apply (Hb x a Hxa). lia. }
  apply PathIn_weaken with (P := fun z => LeafUnder n parents z a).
  - intros z [Hz Hza]. split; [exact Hz|]. apply (Hspec z x Hz Hx). right. exists a. tauto.
  - apply (node_connected d n G feat parents height PD a Ha); split; assumption. Qed.
