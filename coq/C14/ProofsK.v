(* C14 (k-means part): lemmas about the model of utils.py. *)
From Coq Require Import List Bool ZArith QArith Lia Lqa Arith.
From NV.C14 Require Import Model.
Import ListNotations.

(* ---------------------------------------------------------------- sums *)
Lemma qsum_map_plus {A} (f g : A -> Q) l :
  qsum (map (fun a => f a + g a) l) == qsum (map f l) + qsum (map g l).
Proof. induction l as [|a l IH]; cbn [map qsum fold_right]; [ring|]. fold (qsum (map (fun a => f a + g a) l)).
  fold (qsum (map f l)). fold (qsum (map g l)). rewrite IH. ring. Qed.

Lemma qsum_map_ext {A} (f g : A -> Q) l :
  (forall a, In a l -> f a == g a) -> qsum (map f l) == qsum (map g l).
Proof. induction l as [|a l IH]; intros H; cbn [map qsum fold_right]; [reflexivity|].
  fold (qsum (map f l)). fold (qsum (map g l)). rewrite IH, (H a) by (intros; try apply H; simpl; auto). reflexivity. Qed.

Lemma qsum_map_le {A} (f g : A -> Q) l :
  (forall a, In a l -> f a <= g a) -> qsum (map f l) <= qsum (map g l).
Proof. induction l as [|a l IH]; intros H; cbn [map qsum fold_right]; [apply Qle_refl|].
  fold (qsum (map f l)). fold (qsum (map g l)). apply Qplus_le_compat; [apply H; simpl; auto|apply IH; intros; apply H; simpl; auto]. Qed.

Lemma qsum_map_zero {A} (l : list A) : qsum (map (fun _ => 0) l) == 0.
Proof. induction l as [|a l IH]; cbn [map qsum fold_right]; [reflexivity|]. fold (qsum (map (fun _ : A => 0) l)). rewrite IH. ring. Qed.

Lemma qsum_map_nonneg {A} (f : A -> Q) l : (forall a, In a l -> 0 <= f a) -> 0 <= qsum (map f l).
Proof. intros H. rewrite <- (qsum_map_zero l). apply qsum_map_le. exact H. Qed.

Lemma sq_nonneg (a : Q) : 0 <= a * a.
Proof. unfold Qle, Qmult; simpl. rewrite Z.mul_1_r. apply Z.square_nonneg. Qed.

Lemma Qn_S n : Qn (S n) == Qn n + 1.
Proof. unfold Qn. rewrite Nat2Z.inj_succ. unfold Z.succ. rewrite inject_Z_plus. reflexivity. Qed.

Lemma Qn_pos n : (0 < n)%nat -> 0 < Qn n.
Proof. intros H. unfold Qn, Qlt; simpl. lia. Qed.

Lemma Qn_nonneg n : 0 <= Qn n.
Proof. unfold Qn, Qle; simpl. lia. Qed.

Lemma nth_map_seq {A} (f : nat -> A) n j dflt : (j < n)%nat -> nth j (map f (seq 0 n)) dflt = f j.
Proof. intros H. rewrite nth_indep with (d' := f 0%nat) by (now rewrite map_length, seq_length).
  rewrite map_nth, seq_nth by exact H. reflexivity. Qed.

Lemma sqdist_nonneg d x c : 0 <= sqdist d x c.
Proof. induction d as [|d IH]; cbn [sqdist]; [apply Qle_refl|].
  pose proof (sq_nonneg (nth d x 0 - nth d c 0)). lra. Qed.

(* ------------------------------------------- sum-of-squares decomposition *)
Lemma ss_expand (l : list Q) (c : Q) :
  qsum (map (fun v => (v - c) * (v - c)) l)
  == qsum (map (fun v => v * v) l) - 2 * c * qsum l + Qn (length l) * (c * c).
Proof. induction l as [|a l IH]; cbn [map qsum fold_right length].
  - unfold Qn; simpl. ring.
  - fold (qsum (map (fun v => (v - c) * (v - c)) l)). fold (qsum (map (fun v => v * v) l)). fold (qsum l).
    rewrite IH, Qn_S. ring. Qed.

Lemma ss1 (l : list Q) (c m : Q) :
  Qn (length l) * m == qsum l ->
  qsum (map (fun v => (v - c) * (v - c)) l)
  == qsum (map (fun v => (v - m) * (v - m)) l) + Qn (length l) * ((m - c) * (m - c)).
Proof. intros H. rewrite !ss_expand. rewrite <- H. ring. Qed.

Lemma ss1_map {A} (g : A -> Q) (xs : list A) (c m : Q) :
  Qn (length xs) * m == qsum (map g xs) ->
  qsum (map (fun x => (g x - c) * (g x - c)) xs)
  == qsum (map (fun x => (g x - m) * (g x - m)) xs) + Qn (length xs) * ((m - c) * (m - c)).
Proof. intros H. pose proof (ss1 (map g xs) c m) as E. rewrite map_length, !map_map in E. now apply E. Qed.

(* Huygens / Koenig: for ANY vector m whose coordinates are the column means *)
Lemma ss_decomp d : forall (xs : list vec) (c m : vec),
  (forall j, (j < d)%nat -> Qn (length xs) * nth j m 0 == qsum (col j xs)) ->
  qsum (map (fun x => sqdist d x c) xs)
  == qsum (map (fun x => sqdist d x m) xs) + Qn (length xs) * sqdist d m c.
Proof. induction d as [|d IH]; intros xs c m H; cbn [sqdist].
  - rewrite !qsum_map_zero. ring.
  - rewrite !qsum_map_plus. rewrite (IH xs c m) by (intros j Hj; apply H; lia).
    pose proof (ss1_map (fun x : vec => nth d x 0) xs (nth d c 0) (nth d m 0)) as E.
    rewrite E by (apply H; lia). ring. Qed.

Lemma vmean_nth d xs j : (j < d)%nat -> nth j (vmean d xs) 0 = qsum (col j xs) / Qn (length xs).
Proof. intros H. unfold vmean. now rewrite nth_map_seq. Qed.

Lemma vmean_is_mean d xs : xs <> [] ->
  forall j, (j < d)%nat -> Qn (length xs) * nth j (vmean d xs) 0 == qsum (col j xs).
Proof. intros Hne j Hj. rewrite vmean_nth by exact Hj.
  assert (0 < Qn (length xs)) as Hp by (apply Qn_pos; destruct xs; [congruence|simpl; lia]).
  field. lra. Qed.

(* the mean minimises the sum of squared distances of a non-empty set *)
Lemma mean_minimises d xs c : xs <> [] ->
  qsum (map (fun x => sqdist d x c) xs)
  == qsum (map (fun x => sqdist d x (vmean d xs)) xs) + Qn (length xs) * sqdist d (vmean d xs) c.
Proof. intros H. apply ss_decomp. now apply vmean_is_mean. Qed.

Lemma mean_minimises_le d xs c : xs <> [] ->
  qsum (map (fun x => sqdist d x (vmean d xs)) xs) <= qsum (map (fun x => sqdist d x c) xs).
Proof. intros H. rewrite (mean_minimises d xs c H).
  pose proof (Qmult_le_0_compat _ _ (Qn_nonneg (length xs)) (sqdist_nonneg d (vmean d xs) c)). lra. Qed.

(* ------------------------------------------------ regrouping by cluster *)
Lemma indicator_sum (g : nat -> Q) zi : forall k a, (a <= zi < a + k)%nat ->
  qsum (map (fun q => if Nat.eqb zi q then g q else 0) (seq a k)) == g zi.
Proof. induction k as [|k IH]; intros a H; [lia|]. cbn [seq map qsum fold_right].
  fold (qsum (map (fun q => if Nat.eqb zi q then g q else 0) (seq (S a) k))).
  destruct (Nat.eqb zi a) eqn:E.
  - apply Nat.eqb_eq in E. subst a.
    rewrite (qsum_map_ext _ (fun _ => 0)); [rewrite qsum_map_zero; ring|].
    intros q Hq. apply in_seq in Hq. destruct (Nat.eqb zi q) eqn:E2; [apply Nat.eqb_eq in E2; lia|reflexivity].
  - apply Nat.eqb_neq in E. rewrite IH by lia. ring. Qed.

Lemma regroup {A} (f : A -> nat -> Q) k : forall (l : list (A * nat)),
  (forall p, In p l -> (snd p < k)%nat) ->
  qsum (map (fun p => f (fst p) (snd p)) l)
  == qsum (map (fun q => qsum (map (fun x => f x q) (map fst (filter (fun p => Nat.eqb (snd p) q) l)))) (seq 0 k)).
Proof. induction l as [|[x zi] l IH]; intros H.
  - cbn [map filter qsum fold_right]. rewrite qsum_map_zero. reflexivity.
  - cbn [map qsum fold_right fst snd]. fold (qsum (map (fun p => f (fst p) (snd p)) l)).
    rewrite IH by (intros p Hp; apply H; simpl; auto).
    assert (E : qsum (map (fun q => qsum (map (fun x0 => f x0 q)
                 (map fst (filter (fun p => Nat.eqb (snd p) q) ((x, zi) :: l))))) (seq 0 k))
             == qsum (map (fun q => (if Nat.eqb zi q then f x q else 0)
                 + qsum (map (fun x0 => f x0 q) (map fst (filter (fun p => Nat.eqb (snd p) q) l)))) (seq 0 k))).
    { apply qsum_map_ext. intros q _. cbn [filter snd]. destruct (Nat.eqb zi q); unfold qsum; cbn [map fst fold_right]; ring. }
    rewrite E, qsum_map_plus, indicator_sum; [reflexivity|].
    specialize (H (x, zi) (or_introl eq_refl)). simpl in H. lia. Qed.

Lemma wcss_regroup d X z cs k : Forall (fun q => (q < k)%nat) z ->
  wcss d X z cs == qsum (map (fun q => qsum (map (fun x => sqdist d x (nth q cs [])) (members X z q))) (seq 0 k)).
Proof. intros H. unfold wcss, members.
  apply (regroup (fun x q => sqdist d x (nth q cs [])) k (combine X z)).
  intros [x zi] Hp. apply in_combine_r in Hp. rewrite Forall_forall in H. now apply H. Qed.

(* ------------------------------------------------------------- _MStep *)
Lemma mstep_length d X z k : length (mstep d X z k) = k.
Proof. unfold mstep. now rewrite map_length, seq_length. Qed.

Lemma mstep_nth d X z k q : (q < k)%nat -> nth q (mstep d X z k) [] = center_of d X z q.
Proof. intros H. unfold mstep. now rewrite nth_map_seq. Qed.

Lemma mstep_minimises d X z k cs : Forall (fun q => (q < k)%nat) z ->
  wcss d X z (mstep d X z k) <= wcss d X z cs.
Proof. intros H. rewrite (wcss_regroup d X z _ k H), (wcss_regroup d X z cs k H).
  apply qsum_map_le. intros q Hq. apply in_seq in Hq. rewrite mstep_nth by lia.
  unfold center_of. destruct (members X z q) as [|m ms] eqn:E.
  - apply Qle_refl.
  - apply mean_minimises_le. discriminate. Qed.

(* ------------------------------------------------------------- _EStep *)
Lemma Qltb_true a b : Qltb a b = true -> a < b.
Proof. unfold Qltb. intros H. apply negb_true_iff in H. apply Qnot_le_lt. intros C.
  apply Qle_bool_iff in C. congruence. Qed.
Lemma Qltb_false a b : Qltb a b = false -> b <= a.
Proof. unfold Qltb. intros H. apply negb_false_iff in H. now apply Qle_bool_iff. Qed.

Lemma closer_true st a b : closer st a b = true -> a <= b /\ (st = true -> a < b).
Proof. destruct st; cbn [closer]; intros H.
  - apply Qltb_true in H. split; [lra|auto].
  - apply Qle_bool_iff in H. split; [exact H|discriminate]. Qed.
Lemma closer_false st a b : closer st a b = false -> b <= a.
Proof. destruct st; cbn [closer]; intros H.
  - now apply Qltb_false.
  - apply Qlt_le_weak. apply Qnot_le_lt. intros C. apply Qle_bool_iff in C. congruence. Qed.

Section Tie.
Variable st : bool.

Definition scan_inv (d : nat) (x : vec) (all : list vec) (best : nat) (md : option Q) : Prop :=
  match md with
  | None => all = []
  | Some m => (best < length all)%nat /\ m == sqdist d x (nth best all []) /\
              (forall j, (j < length all)%nat -> m <= sqdist d x (nth j all [])) /\
              (st = true -> forall j, (j < best)%nat -> m < sqdist d x (nth j all []))
  end.

Lemma scan_spec d x : forall cs pre best md,
  scan_inv d x pre best md ->
  scan_inv d x (pre ++ cs) (fst (scan st d x cs (length pre) best md)) (snd (scan st d x cs (length pre) best md)).
Proof. induction cs as [|c cs IH]; intros pre best md H.
  - cbn [scan fst snd]. now rewrite app_nil_r.
  - cbn [scan].
    assert (Hl : S (length pre) = length (pre ++ [c])) by (rewrite app_length; simpl; lia).
    assert (Ha : pre ++ c :: cs = (pre ++ [c]) ++ cs) by (now rewrite <- app_assoc).
    assert (Hc : nth (length pre) (pre ++ [c]) [] = c) by (rewrite app_nth2 by lia; now rewrite Nat.sub_diag).
    destruct md as [m|].
    + destruct H as (Hb & Hm & Hall & Hfirst).
      destruct (closer st (sqdist d x c) m) eqn:E; rewrite Hl, Ha; apply IH; unfold scan_inv.
      * apply closer_true in E. destruct E as [E Es]. rewrite app_length; simpl. repeat split.
        -- lia.
        -- now rewrite Hc.
        -- intros j Hj. destruct (Nat.eq_dec j (length pre)) as [->|Hne].
           ++ rewrite Hc. apply Qle_refl.
           ++ rewrite app_nth1 by lia. specialize (Hall j ltac:(lia)). lra.
        -- intros Hst j Hj. rewrite app_nth1 by lia. specialize (Hall j ltac:(lia)). specialize (Es Hst). lra.
      * apply closer_false in E. rewrite app_length; simpl. repeat split.
        -- lia.
        -- now rewrite app_nth1 by lia.
        -- intros j Hj. destruct (Nat.eq_dec j (length pre)) as [->|Hne].
           ++ now rewrite Hc.
           ++ rewrite app_nth1 by lia. apply Hall. lia.
        -- intros Hst j Hj. rewrite app_nth1 by lia. now apply Hfirst.
    + simpl in H. subst pre. rewrite Hl, Ha. apply IH. unfold scan_inv. simpl. repeat split.
      all: try lia.
      intros j Hj. assert (j = 0)%nat as -> by lia. apply Qle_refl. Qed.

(* per item: the label is in range, its distance is the minimum over all
   centres, and it is the FIRST index attaining the minimum *)
Lemma assign_spec d cs x : cs <> [] ->
  exists m, snd (assign st d cs x) = Some m /\
    (fst (assign st d cs x) < length cs)%nat /\
    m == sqdist d x (nth (fst (assign st d cs x)) cs []) /\
    (forall j, (j < length cs)%nat -> m <= sqdist d x (nth j cs [])) /\
    (st = true -> forall j, (j < fst (assign st d cs x))%nat -> m < sqdist d x (nth j cs [])).
Proof. intros Hne. pose proof (scan_spec d x cs [] 0%nat None eq_refl) as H.
  cbn [app length] in H. unfold assign. destruct (snd (scan st d x cs 0 0 None)) as [m|].
  - exists m. split; [reflexivity|]. exact H.
  - simpl in H. congruence. Qed.

Lemma estep_z_length d X cs : length (estep_z st d X cs) = length X.
Proof. unfold estep_z. now rewrite map_length. Qed.

Lemma estep_z_range d X cs : cs <> [] -> Forall (fun q => (q < length cs)%nat) (estep_z st d X cs).
Proof. intros Hne. unfold estep_z. apply Forall_forall. intros q Hq. apply in_map_iff in Hq.
  destruct Hq as (x & <- & _). destruct (assign_spec d cs x Hne) as (m & _ & Hr & _). exact Hr. Qed.

Lemma estep_J_is_wcss d cs : cs <> [] -> forall X, estep_J st d X cs == wcss d X (estep_z st d X cs) cs.
Proof. intros Hne. unfold estep_J, wcss, estep_z. induction X as [|x X IH]; [reflexivity|].
  cbn [map combine qsum fold_right fst snd].
  destruct (assign_spec d cs x Hne) as (m & Hs & _ & Hm & _). rewrite Hs. cbn [odist].
  apply Qplus_comp; [exact Hm|exact IH]. Qed.

Lemma estep_minimises d cs : cs <> [] -> forall X z,
  length z = length X -> Forall (fun q => (q < length cs)%nat) z ->
  wcss d X (estep_z st d X cs) cs <= wcss d X z cs.
Proof. intros Hne. unfold wcss, estep_z. induction X as [|x X IH]; intros [|zi z] Hl Hr; try (simpl in Hl; discriminate Hl).
  - apply Qle_refl.
  - cbn [map combine qsum fold_right fst snd]. inversion Hr as [|? ? Hzi Hz]; subst.
    apply Qplus_le_compat.
    + destruct (assign_spec d cs x Hne) as (m & _ & _ & Hm & Hall & _). rewrite <- Hm. now apply Hall.
    + apply IH; [simpl in Hl; lia|exact Hz]. Qed.

(* ------------------------------------------------------- Lloyd iteration *)
Lemma mstep_nonempty d X z k : (0 < k)%nat -> mstep d X z k <> [].
Proof. intros H E. apply (f_equal (@length vec)) in E. rewrite mstep_length in E. simpl in E. lia. Qed.

Lemma lloyd_monotone d k X z : (0 < k)%nat -> length z = length X -> Forall (fun q => (q < k)%nat) z ->
  let z' := estep_z st d X (mstep d X z k) in
  wcss d X z' (mstep d X z' k) <= wcss d X z (mstep d X z k).
Proof. intros Hk Hl Hr z'.
  assert (Hne := mstep_nonempty d X z k Hk).
  assert (Hr' : Forall (fun q => (q < k)%nat) z').
  { pose proof (estep_z_range d X _ Hne) as R. now rewrite mstep_length in R. }
  apply Qle_trans with (wcss d X z' (mstep d X z k)).
  - now apply mstep_minimises.
  - apply estep_minimises; [exact Hne|exact Hl|now rewrite mstep_length]. Qed.

(* ------------------------------------------------------------ _kmeans loop *)
Section Loop.
  Variables (d k : nat) (X : list vec) (thr : Q).
  Hypothesis Hk : (0 < k)%nat.

  Definition valid (z : list nat) : Prop := length z = length X /\ Forall (fun q => (q < k)%nat) z.
  Definition W (r : list vec * list nat * option Q) : Q := wcss d X (km_labels r) (km_centers r).

  Lemma estep_valid z : valid (estep_z st d X (mstep d X z k)).
  Proof. split; [apply estep_z_length|].
    pose proof (estep_z_range d X _ (mstep_nonempty d X z k Hk)) as R. now rewrite mstep_length in R. Qed.

  (* returned centres are the means of the returned labels *)
  Lemma kloop_means : forall fuel c z bJ, c = mstep d X z k ->
    km_centers (kloop st d k X thr fuel c z bJ) = mstep d X (km_labels (kloop st d k X thr fuel c z bJ)) k.
  Proof. induction fuel as [|f IH]; intros c z bJ Hc; cbn [kloop].
    - exact Hc.
    - destruct (Qltb _ thr); [reflexivity|]. now apply IH. Qed.

  Lemma kloop_valid : forall fuel c z bJ, c = mstep d X z k -> valid z ->
    valid (km_labels (kloop st d k X thr fuel c z bJ)).
  Proof. induction fuel as [|f IH]; intros c z bJ Hc Hv; cbn [kloop].
    - exact Hv.
    - subst c. destruct (Qltb _ thr); [apply estep_valid|]. apply IH; [reflexivity|apply estep_valid]. Qed.

  (* after at least one iteration the labels are valid whatever the initial ones were *)
  Lemma kloop_valid_S : forall fuel z bJ,
    valid (km_labels (kloop st d k X thr (S fuel) (mstep d X z k) z bJ)).
  Proof. intros fuel z bJ. cbn [kloop]. destruct (Qltb _ thr); [apply estep_valid|].
    apply kloop_valid; [reflexivity|apply estep_valid]. Qed.

  (* one more iteration allowed: the returned solution is not worse *)
  Lemma kloop_more_fuel : forall m z bJ bJ', valid z ->
    W (kloop st d k X thr (S m) (mstep d X z k) z bJ) <= W (kloop st d k X thr m (mstep d X z k) z bJ').
  Proof. induction m as [|m IH]; intros z bJ bJ' Hv.
    - cbn [kloop]. destruct (Qltb _ thr); unfold W; cbn [km_labels km_centers fst snd];
        apply lloyd_monotone; try exact Hk; apply Hv.
    - change (kloop st d k X thr (S (S m)) (mstep d X z k) z bJ)
        with (let z' := estep_z st d X (mstep d X z k) in
              let c' := mstep d X z' k in
              if Qltb (moved d k (mstep d X z k) c') thr then (c', z', bJ)
              else kloop st d k X thr (S m) c' z' (upd_best bJ (estep_J st d X (mstep d X z k)))).
      change (kloop st d k X thr (S m) (mstep d X z k) z bJ')
        with (let z' := estep_z st d X (mstep d X z k) in
              let c' := mstep d X z' k in
              if Qltb (moved d k (mstep d X z k) c') thr then (c', z', bJ')
              else kloop st d k X thr m c' z' (upd_best bJ' (estep_J st d X (mstep d X z k)))).
      cbv zeta. destruct (Qltb _ thr).
      + apply Qle_refl.
      + apply IH. apply estep_valid. Qed.

  (* the same from ANY initial labelling once one iteration has been done *)
  Lemma kloop_more_fuel_any : forall m z bJ bJ',
    W (kloop st d k X thr (S (S m)) (mstep d X z k) z bJ) <= W (kloop st d k X thr (S m) (mstep d X z k) z bJ').
  Proof. intros m z bJ bJ'.
    change (kloop st d k X thr (S (S m)) (mstep d X z k) z bJ)
      with (let z' := estep_z st d X (mstep d X z k) in
            let c' := mstep d X z' k in
            if Qltb (moved d k (mstep d X z k) c') thr then (c', z', bJ)
            else kloop st d k X thr (S m) c' z' (upd_best bJ (estep_J st d X (mstep d X z k)))).
    change (kloop st d k X thr (S m) (mstep d X z k) z bJ')
      with (let z' := estep_z st d X (mstep d X z k) in
            let c' := mstep d X z' k in
            if Qltb (moved d k (mstep d X z k) c') thr then (c', z', bJ')
            else kloop st d k X thr m c' z' (upd_best bJ' (estep_J st d X (mstep d X z k)))).
    cbv zeta. destruct (Qltb _ thr).
    - apply Qle_refl.
    - apply kloop_more_fuel. apply estep_valid. Qed.

  (* the returned J (bJ) bounds the inertia of the returned solution from above *)
  Definition bounds (bJ : option Q) (v : Q) : Prop := match bJ with None => True | Some b => v <= b end.

  Lemma upd_best_bounds bJ J v v' : bounds bJ v -> v' <= v -> v' <= J -> bounds (upd_best bJ J) v'.
  Proof. destruct bJ as [b|]; cbn [bounds upd_best]; intros Hb H1 H2.
    - destruct (Qltb J b); cbn [bounds]; lra.
    - exact H2. Qed.

  Lemma kloop_J_bounds : forall fuel z bJ, valid z ->
    bounds bJ (wcss d X z (mstep d X z k)) ->
    bounds (km_J (kloop st d k X thr fuel (mstep d X z k) z bJ)) (W (kloop st d k X thr fuel (mstep d X z k) z bJ)).
  Proof. induction fuel as [|f IH]; intros z bJ Hv Hb.
    - exact Hb.
    - cbn [kloop]. set (c := mstep d X z k) in *. set (z' := estep_z st d X c). set (c' := mstep d X z' k).
      assert (Hne : c <> []) by (apply mstep_nonempty; exact Hk).
      assert (Hv' : valid z') by apply estep_valid.
      assert (H1 : wcss d X z' c' <= wcss d X z' c) by (apply mstep_minimises; apply Hv').
      assert (H2 : wcss d X z' c <= wcss d X z c).
      { apply estep_minimises; [exact Hne|apply Hv|]. unfold c. rewrite mstep_length. apply Hv. }
      destruct (Qltb _ thr).
      + unfold W; cbn [km_J km_labels km_centers fst snd]. destruct bJ as [b|]; cbn [bounds] in *; [lra|exact I].
      + apply IH; [exact Hv'|]. fold c'. apply upd_best_bounds with (v := wcss d X z c).
        * exact Hb.
        * lra.
        * rewrite (estep_J_is_wcss d c Hne X). fold z'. exact H1. Qed.
End Loop.

(* ------------------------------------------------------- kmeans level *)
Definition Wk {A} (d : nat) (X : list vec) (r : list vec * list nat * A) : Q :=
  wcss d X (km_labels r) (km_centers r).

Lemma kmeans_means_core d k X labels maxiter delta :
  km_centers (kmeans_core st d k X labels maxiter delta)
  = mstep d X (km_labels (kmeans_core st d k X labels maxiter delta)) k.
Proof. unfold kmeans_core. now apply kloop_means. Qed.

Lemma kmeans_labels_valid_core d k X labels maxiter delta : (0 < k)%nat -> (1 <= maxiter)%nat ->
  valid k X (km_labels (kmeans_core st d k X labels maxiter delta)).
Proof. intros Hk Hm. destruct maxiter as [|m]; [lia|]. unfold kmeans_core. now apply kloop_valid_S. Qed.

Lemma kmeans_step_mono_core d k X labels delta m : (0 < k)%nat -> (1 <= m)%nat ->
  Wk d X (kmeans_core st d k X labels (S m) delta) <= Wk d X (kmeans_core st d k X labels m delta).
Proof. intros Hk Hm. destruct m as [|m]; [lia|]. unfold kmeans_core, Wk.
  apply (kloop_more_fuel_any d k X _ Hk m labels None None). Qed.

Lemma kmeans_mono_core d k X labels delta : (0 < k)%nat -> forall m m', (1 <= m)%nat -> (m <= m')%nat ->
  Wk d X (kmeans_core st d k X labels m' delta) <= Wk d X (kmeans_core st d k X labels m delta).
Proof. intros Hk m m' H1 H2. induction H2 as [|m' H2 IH]; [apply Qle_refl|].
  apply Qle_trans with (Wk d X (kmeans_core st d k X labels m' delta)); [|exact IH].
  apply kmeans_step_mono_core; [exact Hk|lia]. Qed.

Lemma kmeans_vs_initial_core d k X labels delta m : (0 < k)%nat -> valid k X labels ->
  Wk d X (kmeans_core st d k X labels m delta) <= wcss d X labels (mstep d X labels k).
Proof. intros Hk Hv. induction m as [|m IH].
  - unfold kmeans_core, Wk. cbn [kloop km_labels km_centers fst snd]. apply Qle_refl.
  - apply Qle_trans with (Wk d X (kmeans_core st d k X labels m delta)); [|exact IH].
    unfold kmeans_core, Wk. apply (kloop_more_fuel d k X _ Hk m labels None None Hv). Qed.

Lemma kmeans_J_bounds_core d k X labels maxiter delta j : (0 < k)%nat -> valid k X labels ->
  km_J (kmeans_core st d k X labels maxiter delta) = Some j ->
  Wk d X (kmeans_core st d k X labels maxiter delta) <= j.
Proof. intros Hk Hv E. pose proof (kloop_J_bounds d k X (delta * vdata d X) Hk maxiter labels None Hv I) as H.
  unfold kmeans_core in E. rewrite E in H. exact H. Qed.

(* the same for _kmeans as returned (centres and labels are those of the loop) *)
Lemma kmeans_means d k X labels maxiter delta :
  km_centers (kmeans st d k X labels maxiter delta)
  = mstep d X (km_labels (kmeans st d k X labels maxiter delta)) k.
Proof. exact (kmeans_means_core d k X labels maxiter delta). Qed.

Lemma kmeans_labels_valid d k X labels maxiter delta : (0 < k)%nat -> (1 <= maxiter)%nat ->
  valid k X (km_labels (kmeans st d k X labels maxiter delta)).
Proof. exact (kmeans_labels_valid_core d k X labels maxiter delta). Qed.

Lemma kmeans_mono d k X labels delta : (0 < k)%nat -> forall m m', (1 <= m)%nat -> (m <= m')%nat ->
  Wk d X (kmeans st d k X labels m' delta) <= Wk d X (kmeans st d k X labels m delta).
Proof. exact (kmeans_mono_core d k X labels delta). Qed.

Lemma kmeans_vs_initial d k X labels delta m : (0 < k)%nat -> valid k X labels ->
  Wk d X (kmeans st d k X labels m delta) <= wcss d X labels (mstep d X labels k).
Proof. exact (kmeans_vs_initial_core d k X labels delta m). Qed.

(* the returned J is the inertia of the returned labels w.r.t. the returned centres *)
Lemma kmeans_J_is_inertia d k X labels maxiter delta :
  km_J (kmeans st d k X labels maxiter delta) = Wk d X (kmeans st d k X labels maxiter delta).
Proof. reflexivity. Qed.

Lemma api_k_range k n : (0 < n)%nat -> (1 <= api_k k n <= Z.of_nat n)%Z.
Proof. intros H. unfold api_k. destruct (k <? 1)%Z eqn:E1; [apply Z.ltb_lt in E1|apply Z.ltb_ge in E1];
  match goal with |- context [(Z.of_nat n <? ?a)%Z] => destruct (Z.of_nat n <? a)%Z eqn:E2 end;
  try apply Z.ltb_lt in E2; try apply Z.ltb_ge in E2; lia. Qed.

Lemma kmeans_api_means d k X labels maxiter delta : X <> [] ->
  (api_labels_ok (api_k k (length X)) labels = true \/ (1 <= maxiter)%Z) ->
  let k2 := Z.to_nat (api_k k (length X)) in
  let r := kmeans_api st d k X labels maxiter delta in
  (1 <= k2 <= length X)%nat /\ km_centers r = mstep d X (km_labels r) k2 /\ valid k2 X (km_labels r).
Proof. intros Hne Hm k2 r.
  assert (Hn : (0 < length X)%nat) by (destruct X; [congruence|simpl; lia]).
  pose proof (api_k_range k (length X) Hn) as Hk.
  assert (Hk2 : (1 <= k2 <= length X)%nat) by (unfold k2; lia).
  split; [exact Hk2|]. unfold r, kmeans_api. fold k2. split; [apply kmeans_means|].
  apply kmeans_labels_valid; [lia|]. unfold api_maxiter.
  destruct (api_labels_ok (api_k k (length X)) labels).
  - destruct (0 <? maxiter)%Z eqn:E; [apply Z.ltb_lt in E|]; lia.
  - destruct Hm as [Hm|Hm]; [discriminate|lia]. Qed.

Lemma voronoi_spec d X cs : cs <> [] -> forall i, (i < length X)%nat ->
  let x := nth i X [] in let z := nth i (voronoi st d X cs) 0%nat in
  (z < length cs)%nat /\
  (forall j, (j < length cs)%nat -> sqdist d x (nth z cs []) <= sqdist d x (nth j cs [])) /\
  (st = true -> forall j, (j < z)%nat -> sqdist d x (nth z cs []) < sqdist d x (nth j cs [])).
Proof. intros Hne i Hi x z. unfold voronoi, estep_z in z.
  assert (Ez : z = fst (assign st d cs x)).
  { unfold z, x. rewrite nth_indep with (d' := fst (assign st d cs [])) by (now rewrite map_length).
    now rewrite (map_nth (fun x => fst (assign st d cs x))). }
  destruct (assign_spec d cs x Hne) as (m & _ & Hr & Hm & Hall & Hfirst). rewrite Ez. repeat split.
  - exact Hr.
  - intros j Hj. rewrite <- Hm. now apply Hall.
  - intros Hst j Hj. rewrite <- Hm. now apply Hfirst. Qed.
End Tie.
