(* C14 - property theorems only (k-means part: utils.py; hierarchical part:
   hierarchical_clustering.py).  Each theorem is closed by a lemma of
   ProofsK.v / ProofsH.v; `Print Assumptions` follows each. *)
From Coq Require Import List Bool ZArith QArith Lia.
From NV.C14 Require Import Model ProofsK.
Import ListNotations.

(* ====================================================================== *)
(*  K-MEANS  (Model.v)                                                     *)
(* ====================================================================== *)

(* (K1) Huygens decomposition, all dimensions d, all non-empty sets of rows
   (ragged or not), all c:  sum |x-c|^2 = sum |x-mean|^2 + n |mean-c|^2. *)
Theorem ss_decomposition : forall d (xs : list vec) (c : vec), xs <> [] ->
  qsum (map (fun x => sqdist d x c) xs)
  == qsum (map (fun x => sqdist d x (vmean d xs)) xs) + Qn (length xs) * sqdist d (vmean d xs) c.
Proof. exact mean_minimises. Qed.
Print Assumptions ss_decomposition.

(* (K2) _MStep: centre q is the mean of the members of q, the global mean
   when q has no member. *)
Theorem mstep_centres_are_member_means : forall d X z k q, (q < k)%nat ->
  length (mstep d X z k) = k /\
  nth q (mstep d X z k) [] =
    match members X z q with [] => vmean d X | ms => vmean d ms end /\
  forall xs j, (j < d)%nat -> nth j (vmean d xs) 0 = qsum (col j xs) / Qn (length xs).
Proof. intros d X z k q H. split; [apply mstep_length|]. split.
  - rewrite mstep_nth by exact H. unfold center_of. now destruct (members X z q).
  - intros xs j Hj. now apply vmean_nth. Qed.
Print Assumptions mstep_centres_are_member_means.

(* (K3) for fixed labels the centres of _MStep minimise the within-cluster
   sum of squares over ALL choices of centres. *)
Theorem mstep_minimises : forall d X z k cs, Forall (fun q => (q < k)%nat) z ->
  wcss d X z (mstep d X z k) <= wcss d X z cs.
Proof. exact ProofsK.mstep_minimises. Qed.
Print Assumptions mstep_minimises.

(* (K4) voronoi / _EStep: every item gets a label in range, of a closest
   centre, and the FIRST closest one (strict `<` scan). *)
Theorem voronoi_assigns_closest : forall st d X cs, cs <> [] -> forall i, (i < length X)%nat ->
  let x := nth i X [] in let z := nth i (voronoi st d X cs) 0%nat in
  (z < length cs)%nat /\
  (forall j, (j < length cs)%nat -> sqdist d x (nth z cs []) <= sqdist d x (nth j cs [])) /\
  (st = true -> forall j, (j < z)%nat -> sqdist d x (nth z cs []) < sqdist d x (nth j cs [])).
Proof. exact voronoi_spec. Qed.
Print Assumptions voronoi_assigns_closest.

(* (K5) for fixed centres the labels of _EStep minimise the criterion over all
   labellings, and the J it returns is that criterion. *)
Theorem estep_minimises : forall st d cs, cs <> [] -> forall X z,
  length z = length X -> Forall (fun q => (q < length cs)%nat) z ->
  estep_J st d X cs == wcss d X (estep_z st d X cs) cs /\
  wcss d X (estep_z st d X cs) cs <= wcss d X z cs.
Proof. intros st d cs Hne X z Hl Hr. split; [now apply estep_J_is_wcss|now apply ProofsK.estep_minimises]. Qed.
Print Assumptions estep_minimises.

(* (K6) one Lloyd iteration never increases the within-cluster sum of squares *)
Theorem lloyd_monotone : forall st d k X z, (0 < k)%nat -> length z = length X -> Forall (fun q => (q < k)%nat) z ->
  let z' := estep_z st d X (mstep d X z k) in
  wcss d X z' (mstep d X z' k) <= wcss d X z (mstep d X z k).
Proof. exact ProofsK.lloyd_monotone. Qed.
Print Assumptions lloyd_monotone.

(* (K7) what _kmeans RETURNS (for/else: the last centres and labels), for any
   initial labelling (in range or not), any delta, any maxiter >= 1: the
   centres are exactly _MStep of the returned labels (member means, global
   mean for an empty cluster, by K2), one label per item, labels in range. *)
Theorem kmeans_returns_means : forall st d k X labels maxiter delta, (0 < k)%nat -> (1 <= maxiter)%nat ->
  let r := kmeans st d k X labels maxiter delta in
  km_centers r = mstep d X (km_labels r) k /\
  length (km_labels r) = length X /\
  Forall (fun q => (q < k)%nat) (km_labels r).
Proof. intros st d k X labels maxiter delta Hk Hm r. split; [apply kmeans_means|].
  exact (kmeans_labels_valid st d k X labels maxiter delta Hk Hm). Qed.
Print Assumptions kmeans_returns_means.

(* (K8) the delicate clause, on the model's actual return values: from a fixed
   initial labelling, a larger maxiter never increases the within-cluster sum
   of squares of the RETURNED (centres, labels). *)
Theorem kmeans_more_iters_not_worse : forall st d k X labels delta m m',
  (0 < k)%nat -> (1 <= m)%nat -> (m <= m')%nat ->
  Wk d X (kmeans st d k X labels m' delta) <= Wk d X (kmeans st d k X labels m delta).
Proof. intros st d k X labels delta m m' Hk H1 H2. now apply kmeans_mono. Qed.
Print Assumptions kmeans_more_iters_not_worse.

(* ... and is never worse than the initial labelling with its own means *)
Theorem kmeans_not_worse_than_initial : forall st d k X labels delta m,
  (0 < k)%nat -> length labels = length X -> Forall (fun q => (q < k)%nat) labels ->
  Wk d X (kmeans st d k X labels m delta) <= wcss d X labels (mstep d X labels k).
Proof. intros st d k X labels delta m Hk Hl Hr. apply kmeans_vs_initial; [exact Hk|now split]. Qed.
Print Assumptions kmeans_not_worse_than_initial.

(* (K9) the returned J (best J of a non-final iteration; None = inf) is an
   upper bound of the inertia of the returned solution ... *)
Theorem kmeans_J_bounds_returned_inertia : forall st d k X labels maxiter delta j,
  (0 < k)%nat -> length labels = length X -> Forall (fun q => (q < k)%nat) labels ->
  km_J (kmeans st d k X labels maxiter delta) = Some j ->
  Wk d X (kmeans st d k X labels maxiter delta) <= j.
Proof. intros st d k X labels maxiter delta j Hk Hl Hr. apply kmeans_J_bounds; [exact Hk|now split]. Qed.
Print Assumptions kmeans_J_bounds_returned_inertia.

(* ... but it is NOT "the final value of the inertia criterion" the docstring
   promises: started from the optimal labelling of {0,1,5,6} the loop breaks in
   its first iteration before bJ is ever assigned, and inf is returned
   (finding kmeans/returned-J/converged-in-first-iteration); when it does not
   break at once the value is that of an earlier iteration. *)
Definition km_w1 : list vec := [[0]; [1]; [5]; [6]].
Theorem kmeans_J_is_final_inertia_refuted : forall st,
  exists d k X labels maxiter delta,
    (0 < k)%nat /\ length labels = length X /\ Forall (fun q => (q < k)%nat) labels /\ (1 <= maxiter)%nat /\
    km_J (kmeans st d k X labels maxiter delta) = None /\
    Wk d X (kmeans st d k X labels maxiter delta) == 1.
Proof. intros st. exists 1%nat, 2%nat, km_w1, [0;0;1;1]%nat, 5%nat, (1#10000).
  split; [lia|]. split; [reflexivity|]. split; [repeat constructor|]. split; [lia|].
  split; destruct st; vm_compute; reflexivity. Qed.
Print Assumptions kmeans_J_is_final_inertia_refuted.

Theorem kmeans_J_stale_refuted : forall st,
  exists d k X labels maxiter delta j,
    (0 < k)%nat /\ length labels = length X /\ Forall (fun q => (q < k)%nat) labels /\ (1 <= maxiter)%nat /\
    km_J (kmeans st d k X labels maxiter delta) = Some j /\
    ~ j == Wk d X (kmeans st d k X labels maxiter delta).
Proof. intros st. exists 1%nat, 2%nat, km_w1, [0;0;0;1]%nat, 5%nat, (1#10000), (486 # 81).
  split; [lia|]. split; [reflexivity|]. split; [repeat constructor|]. split; [lia|].
  split; [destruct st; vm_compute; reflexivity|]. destruct st; vm_compute; discriminate. Qed.
Print Assumptions kmeans_J_stale_refuted.

(* non-vacuity: concrete runs *)
Example kmeans_run_1 :
  kmeans_agrees true 1 2 km_w1 [0;0;0;1]%nat 1 (1#10000) [[1#2]; [11#2]] [0;0;1;1]%nat (Some 6) = true.
Proof. vm_compute. reflexivity. Qed.
Example kmeans_run_empty_cluster :
  qmat_eqb (km_centers (kmeans true 1 3 km_w1 [0;0;0;0]%nat 1 0)) [[3]; [3]; [3]] = true /\
  km_labels (kmeans true 1 3 km_w1 [0;0;0;0]%nat 1 0) = [0;0;0;0]%nat.
Proof. vm_compute. split; reflexivity. Qed.
