(* C14 - property theorems only (k-means part: utils.py; hierarchical part:
   hierarchical_clustering.py).  Each theorem is closed by a lemma of
   ProofsK.v / ProofsH.v; `Print Assumptions` follows each. *)
From Coq Require Import List Bool ZArith QArith Lia.
From NV.C14 Require Import Model ProofsK ModelH ProofsH ProofsC ModelAL ProofsAL.
Import ListNotations.

(* ====================================================================== *)
(*  K-MEANS  (Model.v)                                                     *)
(* ====================================================================== *)

(* (K1) Huygens decomposition, all dimensions d, all non-empty sets of rows
   (ragged or not), all c:  sum |x-c|^2 = sum |x-mean|^2 + n |mean-c|^2. *)
Theorem ss_decomposition : forall d (xs : list vec) (c : vec), xs <> [] ->
  qsum (map (fun x => sqdist d x c) xs)
  == qsum (map (fun x => sqdist d x (vmean d xs)) xs) + Qn (length xs) * sqdist d (vmean d xs) c.
Proof. exact mean_minimises. Qed.
Print Assumptions ss_decomposition.

(* (K2) _MStep: centre q is the mean of the members of q, the global mean
   when q has no member. *)
Theorem mstep_centres_are_member_means : forall d X z k q, (q < k)%nat ->
  length (mstep d X z k) = k /\
  nth q (mstep d X z k) [] =
    match members X z q with [] => vmean d X | ms => vmean d ms end /\
  forall xs j, (j < d)%nat -> nth j (vmean d xs) 0 = qsum (col j xs) / Qn (length xs).
Proof. intros d X z k q H. split; [apply mstep_length|]. split.
  - rewrite mstep_nth by exact H. unfold center_of. now destruct (members X z q).
  - intros xs j Hj. now apply vmean_nth. Qed.
Print Assumptions mstep_centres_are_member_means.

(* (K3) for fixed labels the centres of _MStep minimise the within-cluster
   sum of squares over ALL choices of centres. *)
Theorem mstep_minimises : forall d X z k cs, Forall (fun q => (q < k)%nat) z ->
  wcss d X z (mstep d X z k) <= wcss d X z cs.
Proof. exact ProofsK.mstep_minimises. Qed.
Print Assumptions mstep_minimises.

(* (K4) voronoi / _EStep: every item gets a label in range, of a closest
   centre, and the FIRST closest one (strict `<` scan). *)
Theorem voronoi_assigns_closest : forall st d X cs, cs <> [] -> forall i, (i < length X)%nat ->
  let x := nth i X [] in let z := nth i (voronoi st d X cs) 0%nat in
  (z < length cs)%nat /\
  (forall j, (j < length cs)%nat -> sqdist d x (nth z cs []) <= sqdist d x (nth j cs [])) /\
  (st = true -> forall j, (j < z)%nat -> sqdist d x (nth z cs []) < sqdist d x (nth j cs [])).
Proof. exact voronoi_spec. Qed.
Print Assumptions voronoi_assigns_closest.

(* (K5) for fixed centres the labels of _EStep minimise the criterion over all
   labellings, and the J it returns is that criterion. *)
Theorem estep_minimises : forall st d cs, cs <> [] -> forall X z,
  length z = length X -> Forall (fun q => (q < length cs)%nat) z ->
  estep_J st d X cs == wcss d X (estep_z st d X cs) cs /\
  wcss d X (estep_z st d X cs) cs <= wcss d X z cs.
Proof. intros st d cs Hne X z Hl Hr. split; [now apply estep_J_is_wcss|now apply ProofsK.estep_minimises]. Qed.
Print Assumptions estep_minimises.

(* (K6) one Lloyd iteration never increases the within-cluster sum of squares *)
Theorem lloyd_monotone : forall st d k X z, (0 < k)%nat -> length z = length X -> Forall (fun q => (q < k)%nat) z ->
  let z' := estep_z st d X (mstep d X z k) in
  wcss d X z' (mstep d X z' k) <= wcss d X z (mstep d X z k).
Proof. exact ProofsK.lloyd_monotone. Qed.
Print Assumptions lloyd_monotone.

(* (K7) what _kmeans RETURNS (for/else: the last centres and labels), for any
   initial labelling (in range or not), any delta, any maxiter >= 1: the
   centres are exactly _MStep of the returned labels (member means, global
   mean for an empty cluster, by K2), one label per item, labels in range. *)
Theorem kmeans_returns_means : forall st d k X labels maxiter delta, (0 < k)%nat -> (1 <= maxiter)%nat ->
  let r := kmeans st d k X labels maxiter delta in
  km_centers r = mstep d X (km_labels r) k /\
  length (km_labels r) = length X /\
  Forall (fun q => (q < k)%nat) (km_labels r).
Proof. intros st d k X labels maxiter delta Hk Hm r. split; [apply kmeans_means|].
  exact (kmeans_labels_valid st d k X labels maxiter delta Hk Hm). Qed.
Print Assumptions kmeans_returns_means.

(* (K7') the same for the public wrapper kmeans(X, nbclusters, Labels, maxiter,
   delta) with its argument normalisation (nbclusters clamped to 1..n, maxiter
   <= 0 -> 300 and delta < 0 -> 1e-4 when the labelling is accepted). *)
Theorem kmeans_api_returns_means : forall st d k X labels maxiter delta, X <> [] ->
  (api_labels_ok (api_k k (length X)) labels = true \/ (1 <= maxiter)%Z) ->
  let k2 := Z.to_nat (api_k k (length X)) in
  let r := kmeans_api st d k X labels maxiter delta in
  (1 <= k2 <= length X)%nat /\ km_centers r = mstep d X (km_labels r) k2 /\
  length (km_labels r) = length X /\ Forall (fun q => (q < k2)%nat) (km_labels r).
Proof. intros st d k X labels maxiter delta Hne Hm k2 r.
  destruct (kmeans_api_means st d k X labels maxiter delta Hne Hm) as (H1 & H2 & H3). unfold valid in H3.
  destruct H3 as [H3 H4]. split; [exact H1|]. split; [exact H2|]. split; assumption. Qed.
Print Assumptions kmeans_api_returns_means.

(* (K8) the delicate clause, on the model's actual return values: from a fixed
   initial labelling, a larger maxiter never increases the within-cluster sum
   of squares of the RETURNED (centres, labels). *)
Theorem kmeans_more_iters_not_worse : forall st d k X labels delta m m',
  (0 < k)%nat -> (1 <= m)%nat -> (m <= m')%nat ->
  Wk d X (kmeans st d k X labels m' delta) <= Wk d X (kmeans st d k X labels m delta).
Proof. intros st d k X labels delta m m' Hk H1 H2. now apply kmeans_mono. Qed.
Print Assumptions kmeans_more_iters_not_worse.

(* ... and is never worse than the initial labelling with its own means *)
Theorem kmeans_not_worse_than_initial : forall st d k X labels delta m,
  (0 < k)%nat -> length labels = length X -> Forall (fun q => (q < k)%nat) labels ->
  Wk d X (kmeans st d k X labels m delta) <= wcss d X labels (mstep d X labels k).
Proof. intros st d k X labels delta m Hk Hl Hr. apply kmeans_vs_initial; [exact Hk|now split]. Qed.
Print Assumptions kmeans_not_worse_than_initial.

(* (K9) the returned J, since /repo 6270706 (replaces the former
   kmeans_J_is_final_inertia_refuted / kmeans_J_stale_refuted): in EVERY run -
   the `else` of the outer `for` is always taken, also when the inner loop broke
   on convergence in its first iteration - J is the inertia of the returned
   labels w.r.t. the returned centres, "the final value of the inertia
   criterion"; with K7 (labels in range, one per item) this is
   np.sum((X - centers_output[z_output]) ** 2). *)
Theorem kmeans_J_is_final_inertia : forall st d k X labels maxiter delta,
  km_J (kmeans st d k X labels maxiter delta)
  = wcss d X (km_labels (kmeans st d k X labels maxiter delta)) (km_centers (kmeans st d k X labels maxiter delta)).
Proof. intros. apply kmeans_J_is_inertia. Qed.
Print Assumptions kmeans_J_is_final_inertia.

(* ... hence the returned J itself never increases with maxiter and never
   exceeds the inertia of the initial labelling *)
Theorem kmeans_J_more_iters_not_worse : forall st d k X labels delta m m',
  (0 < k)%nat -> (1 <= m)%nat -> (m <= m')%nat ->
  km_J (kmeans st d k X labels m' delta) <= km_J (kmeans st d k X labels m delta).
Proof. intros st d k X labels delta m m' Hk H1 H2. rewrite !kmeans_J_is_inertia. now apply kmeans_mono. Qed.
Print Assumptions kmeans_J_more_iters_not_worse.

(* the former witnesses of the defect (J = inf, J = 6 for a solution of inertia 1) *)
Definition km_w1 : list vec := [[0]; [1]; [5]; [6]].
Example kmeans_J_former_witnesses :
  km_J (kmeans true 1 2 km_w1 [0;0;1;1]%nat 5 (1#10000)) == 1 /\
  km_J (kmeans true 1 2 km_w1 [0;0;0;1]%nat 5 (1#10000)) == 1.
Proof. split; vm_compute; reflexivity. Qed.

(* non-vacuity: concrete runs *)
Example kmeans_run_1 :
  kmeans_agrees true 1 2 km_w1 [0;0;0;1]%nat 1 (1#10000) [[1#2]; [11#2]] [0;0;1;1]%nat 1 = true.
Proof. vm_compute. reflexivity. Qed.
Example kmeans_run_empty_cluster :
  qmat_eqb (km_centers (kmeans true 1 3 km_w1 [0;0;0;0]%nat 1 0)) [[3]; [3]; [3]] = true /\
  km_labels (kmeans true 1 3 km_w1 [0;0;0;0]%nat 1 0) = [0;0;0;0]%nat.
Proof. vm_compute. split; reflexivity. Qed.

(* ====================================================================== *)
(*  HIERARCHICAL  (ModelH.v)                                               *)
(* ====================================================================== *)

(* (H1) the cost `_inertia` computes from the sufficient statistics
   (count, column sums, column sums of squares) of a non-empty cluster is its
   within-cluster sum of squares  sum |x - mean|^2  (all dimensions, all data). *)
Theorem ward_cost_is_merged_inertia : forall d (xs : list vec), xs <> [] ->
  inertia_vec d (Qn (length xs)) (colsum d xs) (colsq d xs) == wss d xs.
Proof. intros d xs H. apply inertia_vec_is_wss; [exact H|lia]. Qed.
Print Assumptions ward_cost_is_merged_inertia.

(* (H2) the within-cluster sum of squares grows with the cluster: the reason
   why heights cannot decrease from a child to its parent. *)
Theorem ward_cost_monotone : forall d (A B : list vec), A <> [] -> wss d A <= wss d (A ++ B).
Proof. exact wss_monotone. Qed.
Print Assumptions ward_cost_monotone.

(* (H2') translation invariance: translating every row by t leaves the merged
   within-cluster SS (= the Ward cost, by H1) unchanged.  This is why the
   centring `feature = feature - feature.mean(0)` of /repo 0ed383f changes no
   exact value - the Gallina model (over Q) needs no centring step - while it
   removes the cancellation of q - s^2/n in floating point. *)
Theorem ward_cost_translation_invariant : forall d (t : vec) (xs : list vec),
  wss d (map (vshift d t) xs) == wss d xs /\
  forall x j, (j < d)%nat -> nth j (vshift d t x) 0 = nth j x 0 + nth j t 0.
Proof. intros d t xs. split; [apply wss_shift|intros x j H; now apply vshift_nth]. Qed.
Print Assumptions ward_cost_translation_invariant.

(* (H3) soundness of the certificate checkers that the harness evaluates (inside
   Coq) on every (parents, height) the implementation returns.
   dendro_check certifies ProperDendrogram: a forest with parents after
   children, the items are leaves, heights non-decreasing child -> parent, every
   non-item node is exactly one binary merge of two clusters joined by an edge
   of the constraint graph, its height is the within-cluster SS of the merged
   cluster, and no edge of the graph leaves a tree (so the trees are the
   connected components).  ward_check adds CheapestMerges: every merge is the
   cheapest among all pairs of clusters alive at that time joined by an edge.
   PARTIAL w.r.t. the property statement: there is no proof that the model of
   `ward` passes the checker for ALL inputs (the invariant of the edge/incidence
   state machine is not proved); the clause is certified per case. *)
Theorem dendrogram_certificate_sound_partial : forall d n G feat parents height,
  (dendro_check d n G feat parents height = true -> ProperDendrogram d n G feat parents height) /\
  (ward_check d n G feat parents height = true ->
     ProperDendrogram d n G feat parents height /\ CheapestMerges d n G feat parents height).
Proof. intros. split; [apply dendro_check_sound|apply ward_check_sound]. Qed.
Print Assumptions dendrogram_certificate_sound_partial.

(* (H3a) in a proper dendrogram the items below ANY node induce a connected
   sub-graph of the constraint graph. *)
Theorem subtree_items_connected : forall d n G feat parents height,
  ProperDendrogram d n G feat parents height ->
  forall v, (v < length parents)%nat -> forall x y,
    LeafUnder n parents x v -> LeafUnder n parents y v ->
    PathIn G (fun z => LeafUnder n parents z v) x y.
Proof. exact node_connected. Qed.
Print Assumptions subtree_items_connected.

(* (H3b) partition(th) on a proper dendrogram, ANY threshold (since /repo 813b3d1
   the leaves are always kept): defined, one label per item, and two items
   share a label iff they are the same item or have a common ancestor of
   height < th. *)
Theorem partition_at_height_spec : forall d n G feat parents height th,
  ProperDendrogram d n G feat parents height -> (n <= length parents)%nat -> (0 < n)%nat ->
  exists u, partition parents height th = Some u /\ length u = n /\
    forall x y, (x < n)%nat -> (y < n)%nat ->
      (nth x u 0%nat = nth y u 0%nat <->
       x = y \/ exists a, Under parents x a /\ Under parents y a /\ nth a height 0 < th).
Proof. exact partition_spec. Qed.
Print Assumptions partition_at_height_spec.

(* (H3c) ... and every cluster of the cut is connected in the constraint graph. *)
Theorem cut_clusters_connected : forall d n G feat parents height th,
  ProperDendrogram d n G feat parents height -> (n <= length parents)%nat -> (0 < n)%nat ->
  exists u, partition parents height th = Some u /\
    forall x y, (x < n)%nat -> (y < n)%nat -> nth x u 0%nat = nth y u 0%nat ->
      PathIn G (fun z => (z < n)%nat /\ nth z u 0%nat = nth x u 0%nat) x y.
Proof. exact ProofsC.cut_clusters_connected. Qed.
Print Assumptions cut_clusters_connected.

(* (H3d) split(k): for k not above the number of trees the clusters are the
   trees; otherwise it IS partition at the (k - c)-th largest height (to which
   H3b/H3c apply when that height is above the leaves').  The COUNT of clusters
   is the refuted clause H4/H5. *)
Theorem split_spec_partial : forall d n G feat parents height k,
  ProperDendrogram d n G feat parents height -> (n <= length parents)%nat -> (0 < n)%nat ->
  let V := length parents in let c := count_roots parents in let k' := Nat.min k V in
  ((k' <= c)%nat ->
     exists u, split parents height k = Some u /\ length u = n /\
       forall x y, (x < n)%nat -> (y < n)%nat ->
         (nth x u 0%nat = nth y u 0%nat <-> exists a, Under parents x a /\ Under parents y a)) /\
  ((c < k')%nat -> split parents height k = partition parents height (nth (V + c - k') (sortq height) 0)).
Proof. exact split_spec. Qed.
Print Assumptions split_spec_partial.

(* (H4) REFUTED clause "cutting into k groups yields that many clusters":
   with tied merge costs split(k) returns more than k clusters
   (finding split/cluster-count/tied-heights). *)
Definition path4 : list (nat * nat) := [(0,1);(1,0);(1,2);(2,1);(2,3);(3,2)]%nat.
Theorem split_gives_k_clusters_refuted :
  exists d n G feat k p h u, ward d n G feat [] = Some (p, h) /\ (1 <= k <= n)%nat /\
    ward_check d n G feat p h = true /\ split p h k = Some u /\ S (maxl u) <> k.
Proof. exists 1%nat, 4%nat, path4, [[0];[1];[2];[3]], 3%nat,
         [4;4;5;5;6;6;6]%nat, [0;0;0;0;1#2;1#2;5], [0;1;2;3]%nat.
  split; [vm_compute; reflexivity|]. split; [lia|]. split; [vm_compute; reflexivity|].
  split; [vm_compute; reflexivity|]. cbn. lia. Qed.
Print Assumptions split_gives_k_clusters_refuted.

(* (H5) since /repo 813b3d1 (replaces split_defined_refuted): on a proper
   dendrogram split(k) is defined for EVERY k and gives one label per item -
   the former witness (a zero-cost merge of identical items) included. *)
Theorem split_defined : forall d n G feat parents height k,
  ProperDendrogram d n G feat parents height -> (n <= length parents)%nat -> (0 < n)%nat ->
  exists u, split parents height k = Some u /\ length u = n.
Proof. intros d n G feat parents height k PD Hn Hpos.
  destruct (split_spec d n G feat parents height k PD Hn Hpos) as [H1 H2].
  destruct (Nat.le_gt_cases (Nat.min k (length parents)) (count_roots parents)) as [Hle|Hgt].
  - destruct (H1 Hle) as (u & Hu & Hl & _). exists u. now split.
  - rewrite (H2 Hgt).
    destruct (partition_spec d n G feat parents height
                (nth (length parents + count_roots parents - Nat.min k (length parents)) (sortq height) 0) PD Hn Hpos)
      as (u & Hu & Hl & _). exists u. now split. Qed.
Print Assumptions split_defined.

Example split_former_zero_cost_witness :
  ward 1 4 path4 [[0];[0];[5];[9]] [] = Some ([4;4;5;5;6;6;6]%nat, [0;0;0;0;0;8;57]) /\
  split [4;4;5;5;6;6;6]%nat [0;0;0;0;0;8;57] 4 = Some [0;1;2;3]%nat.
Proof. split; vm_compute; reflexivity. Qed.

(* (H6) since /repo 6608ba6 (`...flatnonzero(...)[0]`) the former witness of
   ward_total_refuted - a merged pair that is also joined by the reverse edge -
   is handled and yields a proper, cheapest-first dendrogram.  Totality of
   `ward` for ALL symmetric graphs is NOT proved (it needs the invariant of the
   edge/incidence state machine: incidence lists = live edges by endpoint, one
   live edge left per component merge); the harness checks per case that
   neither the implementation nor the model raises. *)
Definition tri : list (nat * nat) := [(0,1);(0,2);(1,2);(1,0);(2,0);(2,1)]%nat.
Example ward_reverse_edge_handled :
  ward 2 3 tri [[6;6];[0;0];[6;0]] [] = Some ([3;4;3;4;4]%nat, [0;0;0;18;48]) /\
  ward_check 2 3 tri [[6;6];[0;0];[6;0]] [3;4;3;4;4]%nat [0;0;0;18;48] = true.
Proof. split; vm_compute; reflexivity. Qed.

(* list_of_subtrees since /repo 98e9feb: no leaf is listed twice in a forest with several trees *)
Example list_of_subtrees_former_witness :
  list_of_subtrees 4 [5;4;4;5;4;5]%nat = [[2;1]; [3;0]]%nat.
Proof. vm_compute. reflexivity. Qed.

(* non-vacuity of the hypotheses of H3a-H3d: a concrete proper Ward dendrogram
   (the implementation's output for the path 0-1-2-3 with features 0,1,5,6) *)
Example proper_dendrogram_exists :
  ProperDendrogram 1 4 path4 [[0];[1];[5];[6]] [4;4;5;5;6;6;6]%nat [0;0;0;0;1#2;1#2;26] /\
  CheapestMerges 1 4 path4 [[0];[1];[5];[6]] [4;4;5;5;6;6;6]%nat [0;0;0;0;1#2;1#2;26] /\
  ward 1 4 path4 [[0];[1];[5];[6]] [] = Some ([4;4;5;5;6;6;6]%nat, [0;0;0;0;1#2;1#2;26]) /\
  partition [4;4;5;5;6;6;6]%nat [0;0;0;0;1#2;1#2;26] 1 = Some [0;0;1;1]%nat.
Proof. split; [|split; [|split]].
  - apply ward_check_sound. vm_compute. reflexivity.
  - apply ward_check_sound. vm_compute. reflexivity.
  - vm_compute. reflexivity.
  - vm_compute. reflexivity. Qed.

(* non-vacuity of K8: a second iteration can strictly improve the returned solution *)
Example kmeans_iterations_strictly_improve :
  Wk 1 [[0];[1];[2];[3];[6]] (kmeans true 1 2 [[0];[1];[2];[3];[6]] [0;1;0;0;0]%nat 2 0)
  < Wk 1 [[0];[1];[2];[3];[6]] (kmeans true 1 2 [[0];[1];[2];[3];[6]] [0;1;0;0;0]%nat 1 0).
Proof. vm_compute. reflexivity. Qed.

(* ====================================================================== *)
(*  AVERAGE LINK  (ModelAL.v: fusion, hierarchical_clustering.py l.243-298) *)
(* ====================================================================== *)
(* (A1) fusion(K, pop, i, j, k), for every list of live rows in which k is fresh, i, j, k distinct and every
   third node c: afterwards the total weight of the rows (k,c) is fi * w(i,c) + fj * w(j,c) with
   fi = pop[i]/pop[k], fj = 1 - fi (a missing row counts 0), the same for (c,k); there is at most one row
   (k,c) and at most one row (c,k) (double edges are summed), and exactly one when (i,c) or (j,c) existed. *)
Theorem fusion_weight_is_population_weighted_average : forall pi pk i j k c es,
  fresh k es -> i <> j -> i <> k -> j <> k -> c <> i -> c <> j -> c <> k ->
  wsum (fusion pi pk i j k es) k c == fus_fi pi pk * wsum es i c + fus_fj pi pk * wsum es j c /\
  wsum (fusion pi pk i j k es) c k == fus_fi pi pk * wsum es c i + fus_fj pi pk * wsum es c j /\
  (npair (fusion pi pk i j k es) k c <= 1)%nat /\ (npair (fusion pi pk i j k es) c k <= 1)%nat /\
  ((npair es i c + npair es j c >= 1)%nat -> npair (fusion pi pk i j k es) k c = 1%nat).
Proof. exact fusion_weight_spec. Qed.
Print Assumptions fusion_weight_is_population_weighted_average.

(* (A2) the stated linkage: the population-weighted average of the mean similarities of I and of J to C is
   the mean similarity of I ++ J to C, for every similarity function and all non-empty clusters. *)
Theorem average_link_update_is_mean_similarity : forall A (sim : A -> A -> Q) (I J C : list A),
  I <> [] -> J <> [] -> C <> [] ->
  fus_fi (Z.of_nat (length I)) (Z.of_nat (length I + length J)) * mean_sim sim I C
  + fus_fj (Z.of_nat (length I)) (Z.of_nat (length I + length J)) * mean_sim sim J C
  == mean_sim sim (I ++ J) C.
Proof. exact average_link_lance_williams. Qed.
Print Assumptions average_link_update_is_mean_similarity.

(* (A3) A1 + A2: one step of the invariant "the weight of a row is the mean similarity between the two
   clusters it joins (pairs without an edge count 0)" of average_link_graph. *)
Theorem fusion_keeps_mean_similarity : forall A (sim : A -> A -> Q) (I J C : list A) i j k c es,
  I <> [] -> J <> [] -> C <> [] ->
  fresh k es -> i <> j -> i <> k -> j <> k -> c <> i -> c <> j -> c <> k ->
  wsum es i c == mean_sim sim I C -> wsum es j c == mean_sim sim J C ->
  wsum (fusion (Z.of_nat (length I)) (Z.of_nat (length I + length J)) i j k es) k c == mean_sim sim (I ++ J) C.
Proof. exact ProofsAL.fusion_keeps_mean_similarity. Qed.
Print Assumptions fusion_keeps_mean_similarity.

(* (A4) the averaged weight lies between the two weights (positive populations): a merge never creates a
   similarity above the heaviest one it replaces - why the negated heights do not decrease child -> parent
   when both clusters have a row to c. *)
Theorem fusion_weight_between : forall pi pj wi wj, (0 < pi)%Z -> (0 < pj)%Z -> wi <= wj ->
  wi <= fus_fi pi (pi + pj) * wi + fus_fj pi (pi + pj) * wj <= wj /\
  wi <= fus_fi pi (pi + pj) * wj + fus_fj pi (pi + pj) * wi <= wj.
Proof. exact ProofsAL.fusion_weight_between. Qed.
Print Assumptions fusion_weight_between.

(* non-vacuity: items 0,1 (populations 1 and 3) merged into 4 on a graph with third nodes 2, 3 and the edges
   0-1 both ways; the hypotheses of A1 hold and the result is the one the implementation returns *)
Definition al_es : list edge :=
  [mke 0 2 3; mke 2 0 3; mke 1 2 1; mke 2 1 1; mke 0 3 5; mke 3 0 5; mke 0 1 8; mke 1 0 8].
Example fusion_run_1 :
  fresh 4 al_es /\
  fusion_agrees 1 4 0 1 4 al_es [mke 4 2 (3#2); mke 2 4 (3#2); mke 4 3 (5#4); mke 3 4 (5#4); mke 4 4 3] = true /\
  wsum (fusion 1 4 0 1 4 al_es) 4 2 == (1#4) * 3 + (3#4) * 1 /\
  npair (fusion 1 4 0 1 4 al_es) 4 2 = 1%nat.
Proof.
  split; [|split; [|split]]; try (vm_compute; reflexivity).
  intros e He. unfold al_es in He. cbn [In] in He.
  repeat (destruct He as [He|He]; [subst e; cbn; split; discriminate|]). contradiction.
Qed.
