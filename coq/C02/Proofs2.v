(* C02 - slicing: validity of the per-axis specs, the index map of a slice, the
   action of the slice matrix of _slice, and getitem_tracks. *)
From Coq Require Import String.
From Coq Require Import List Arith Lia Bool ZArith Permutation.
From NV.Lib Require Import RingMat SlotAlg NdIndex Harness.
From NV.C01 Require Import Model Exec Proofs.
From NV.C02 Require Import Model Proofs.
Import ListNotations.

Notation zdot := (dot 0%Z Z.add Z.mul).

(* what a per-axis spec guarantees for an axis of extent n *)
Definition spec_valid (a : axspec) (n : nat) : Prop :=
  match a with
  | AxDrop j => (0 <= j < Z.of_nat n)%Z
  | AxKeep s st l =>
    1 <= l /\ (forall k, k < l -> (0 <= s + Z.of_nat k * st < Z.of_nat n)%Z) /\ (1 < l -> st <> 0%Z)
  end.

Lemma axis_spec_valid n s a : axis_spec n s = IOk a -> spec_valid a n.
Proof.
  destruct s as [i|sl| |]; simpl; try discriminate.
  - destruct (norm_index i n) as [j|] eqn:E; [|discriminate]. intros H. injection H as <-.
    simpl. now apply norm_index_bounds in E.
  - destruct (slice_indices sl (Z.of_nat n)) as [[[start stop] step]|] eqn:E; [|discriminate].
    assert (Hb : forall k, k < Z.to_nat (slice_len start stop step) ->
                           (0 <= start + Z.of_nat k * step < Z.of_nat n)%Z).
    { intros k Hk. apply (slice_elem_bounds sl (Z.of_nat n) start stop step (Z.of_nat k)); [lia|exact E|lia]. }
    destruct (slice_indices_bounds _ _ _ _ _ (Zle_0_nat n) E) as [Hs _].
    destruct (Z.to_nat (slice_len start stop step)) as [|[|l]] eqn:El; [intros H; discriminate| |];
      intros H; injection H as <-; simpl.
    + split; [lia|]. split; [|lia]. intros k Hk. assert (k = 0) by lia. subst k.
      specialize (Hb 0 ltac:(lia)). lia.
    + split; [lia|]. split; [exact Hb|]. intros _. exact Hs.
Qed.

Lemma axis_specs_valid shape : forall sl specs,
  axis_specs shape sl = IOk specs -> Forall2 spec_valid specs shape.
Proof.
  induction shape as [|n shape IH]; intros [|s sl] specs H; cbn [axis_specs] in H.
  - injection H as <-. constructor.
  - discriminate.
  - unfold ibind in H.
    destruct (axis_spec n (SSlice full_slice)) as [a|e] eqn:Ea; [|discriminate].
    destruct (axis_specs shape []) as [r|e] eqn:Er; [|discriminate].
    injection H as <-. constructor; [now apply axis_spec_valid in Ea|now apply IH in Er].
  - unfold ibind in H.
    destruct (axis_spec n s) as [a|e] eqn:Ea; [|discriminate].
    destruct (axis_specs shape sl) as [r|e] eqn:Er; [|discriminate].
    injection H as <-. constructor; [now apply axis_spec_valid in Ea|now apply IH in Er].
Qed.

Lemma norm_slicers_valid shape sl specs :
  norm_slicers shape sl = IOk specs -> Forall2 spec_valid specs shape.
Proof.
  unfold norm_slicers. destruct (existsb is_none sl).
  - unfold ibind. destruct (np_then_slice shape _); discriminate.
  - unfold np_then_slice. destruct (Nat.ltb 1 (count_ell sl)); [discriminate|].
    destruct (Nat.ltb (length shape) (count_non_ell sl)); [discriminate|]. apply axis_specs_valid.
Qed.

(* ------------------------------------------------------------------ the index map *)
Fixpoint slice_phi_z (specs : list axspec) (x : list Z) : list Z :=
  match specs with
  | [] => []
  | AxDrop s :: r => s :: slice_phi_z r x
  | AxKeep s st _ :: r =>
    match x with
    | k :: x' => (s + k * st)%Z :: slice_phi_z r x'
    | [] => s :: slice_phi_z r []
    end
  end.

Lemma slice_phi_facts specs shape :
  Forall2 spec_valid specs shape ->
  forall i, in_bounds (kept_lens specs) i ->
    in_bounds shape (slice_phi specs i) /\
    map Z.of_nat (slice_phi specs i) = slice_phi_z specs (map Z.of_nat i).
Proof.
  intros H. induction H as [|a n specs shape Ha H IH]; intros i Hi.
  - simpl. split; [constructor|reflexivity].
  - destruct a as [j|s st l].
    + simpl in Hi, Ha. destruct (IH i Hi) as [IH1 IH2]. simpl. split.
      * constructor; [lia|exact IH1].
      * rewrite IH2. f_equal. lia.
    + cbn [kept_lens flat_map app] in Hi. inversion Hi as [|k l' i' ? Hk Hi']; subst.
      destruct Ha as [Hl [Hb Hst]]. specialize (Hb k Hk).
      destruct (IH i' Hi') as [IH1 IH2]. simpl. split.
      * constructor; [lia|exact IH1].
      * rewrite IH2. f_equal. lia.
Qed.

Lemma slice_phi_inj specs shape :
  Forall2 spec_valid specs shape ->
  forall i j, in_bounds (kept_lens specs) i -> in_bounds (kept_lens specs) j ->
    slice_phi specs i = slice_phi specs j -> i = j.
Proof.
  intros H. induction H as [|a n specs shape Ha H IH]; intros i j Hi Hj E.
  - simpl in Hi, Hj. inversion Hi; inversion Hj; reflexivity.
  - destruct a as [s|s st l].
    + simpl in *. injection E as E. now apply IH.
    + cbn [kept_lens flat_map app] in Hi, Hj.
      inversion Hi as [|k l' i' ? Hk Hi']; subst. inversion Hj as [|k2 l2 j' ? Hk2 Hj']; subst.
      simpl in E. injection E as E1 E2. destruct Ha as [Hl [Hb Hst]].
      assert (B1 := Hb k Hk). assert (B2 := Hb k2 Hk2).
      f_equal; [|now apply IH].
      destruct (Nat.eq_dec k k2) as [->|Hne]; [reflexivity|].
      assert (Hs : st <> 0%Z) by (apply Hst; lia).
      assert (E3 : (s + Z.of_nat k * st = s + Z.of_nat k2 * st)%Z) by lia.
      assert ((Z.of_nat k - Z.of_nat k2) * st = 0)%Z by lia. nia.
Qed.

(* ------------------------------------------------------------------ the slice matrix *)
Lemma zdot_zeros_l n x : zdot (repeat 0%Z n) x = 0%Z.
Proof. apply (dot_vzero_l Z 0%Z 1%Z Z.add Z.mul Z.sub Z.opp Zring_th). Qed.

Lemma zdot_app x1 x2 y1 y2 :
  length x1 = length y1 -> zdot (x1 ++ x2) (y1 ++ y2) = (zdot x1 y1 + zdot x2 y2)%Z.
Proof. apply (dot_app Z 0%Z 1%Z Z.add Z.mul Z.sub Z.opp Zring_th). Qed.

Lemma slice_rows_act : forall specs pre x,
  length x = length (kept_lens specs) ->
  map (fun row => zdot row (pre ++ x ++ [1%Z])) (slice_rows specs (length pre) (length x))
  = slice_phi_z specs x.
Proof.
  induction specs as [|a specs IH]; intros pre x Hx; [reflexivity|].
  destruct a as [s|s st l].
  - cbn [slice_rows map slice_phi_z]. change (kept_lens (AxDrop s :: specs)) with (kept_lens specs) in Hx.
    f_equal; [|now apply IH].
    rewrite (app_assoc pre x [1%Z]).
    rewrite zdot_app by (rewrite repeat_length, app_length; reflexivity).
    rewrite zdot_zeros_l. simpl. lia.
  - change (kept_lens (AxKeep s st l :: specs)) with (l :: kept_lens specs) in Hx.
    destruct x as [|k x']; [discriminate|]. cbn [length] in Hx.
    cbn [slice_rows map slice_phi_z length]. f_equal.
    + rewrite zdot_app by (now rewrite repeat_length).
      rewrite zdot_zeros_l.
      change ((k :: x') ++ [1%Z]) with ([k] ++ (x' ++ [1%Z])).
      rewrite zdot_app by reflexivity.
      replace (S (length x') - 1) with (length x') by lia.
      rewrite zdot_app by (now rewrite repeat_length).
      rewrite zdot_zeros_l. simpl. lia.
    + replace (S (length x') - 1) with (length x') by lia.
      specialize (IH (pre ++ [k]) x' ltac:(lia)).
      rewrite app_length in IH. cbn [length] in IH. rewrite Nat.add_1_r in IH.
      rewrite <- IH. apply map_ext. intros row. now rewrite <- app_assoc.
Qed.

Lemma slice_mat_act specs x :
  length x = length (kept_lens specs) -> zhapply (slice_mat specs) x = slice_phi_z specs x.
Proof.
  intros Hx. unfold happly, slice_mat, mv, hom. rewrite map_app. cbn [map].
  rewrite removelast_last. rewrite <- Hx.
  exact (slice_rows_act specs [] x Hx).
Qed.

(* ------------------------------------------------------------------ the sliced coordinate map *)
Lemma getitem_cmap_ok cm specs c :
  zWF cm -> getitem_cmap cm specs = Ok c ->
  zWF c /\ cnames (arng c) = cnames (arng cm) /\
  (length (kept_lens specs) = cs_ndim (adom c) ->
   forall x, length x = length (kept_lens specs) ->
     zapply c x = Ok (zhapply (amat cm) (slice_phi_z specs x))).
Proof.
  intros Hwf H. unfold getitem_cmap, bind in H.
  destruct (mk_cs (all_new_names specs (cnames (adom cm))) _ _) as [d0|e]; [|discriminate].
  destruct (mk_cs (kept_new_names specs (cnames (adom cm))) _ _) as [d|e]; [|discriminate].
  destruct (zmk_aff d (adom cm) (cdt (adom cm)) (slice_mat specs)) as [S|e] eqn:HS; [|discriminate].
  destruct (mk_aff_ok Z 0%Z 1%Z Z.eqb Zeqb_spec _ _ _ _ _ HS) as [ES [_ [_ [_ [_ [_ HWS]]]]]].
  assert (Hall : Forall zWF [cm; S]) by (apply Forall_cons; [exact Hwf|apply Forall_cons; [exact HWS|apply Forall_nil]]).
  split; [exact (compose_WF _ _ Hall H)|].
  destruct (compose2_systems Z 0%Z 1%Z Z.add Z.mul Z.eqb Zeqb_spec _ _ _ H) as [S1 [_ [S3 _]]].
  split; [exact S1|].
  intros Hk x Hx.
  assert (Hd : cs_ndim (adom S) = cs_ndim (adom c)) by (unfold cs_ndim; now rewrite S3).
  unfold zapply.
  rewrite (compose2_apply Z 0%Z 1%Z Z.add Z.mul Z.sub Z.opp Z.eqb Zring_th Zeqb_spec cm S c x Hwf HWS H)
    by (rewrite Hd; congruence).
  rewrite ES. now rewrite slice_mat_act.
Qed.

Theorem getitem_specs_tracks o specs r :
  wf_image o -> Forall2 spec_valid specs (ishape o) -> getitem_specs o specs = IOk r ->
  wf_image r /\ tracks r o (slice_phi specs) (fun s => s) /\ ishape r = kept_lens specs.
Proof.
  intros Hwo Hv H. assert (Hwo' := Hwo). destruct Hwo' as [Hwf [Hs Hd]].
  unfold getitem_specs, ibind in H.
  destruct (lift (getitem_cmap (icmap o) specs)) as [cm|e] eqn:Hcm; [|discriminate].
  apply lift_ok in Hcm.
  destruct (mk_image_ok _ _ _ _ H) as [Es [Ed [Ec Hl]]].
  destruct (getitem_cmap_ok _ _ _ Hwf Hcm) as [Hwc [Hrn Happ]].
  specialize (Happ Hl).
  assert (Hwr : wf_image r).
  { unfold wf_image. rewrite Es, Ed, Ec. split; [exact Hwc|]. split; [exact Hl|apply gather_length]. }
  split; [exact Hwr|]. split; [|exact Es].
  constructor.
  - intros i Hi. rewrite Es in Hi. exact (proj1 (slice_phi_facts _ _ Hv i Hi)).
  - intros i j Hi Hj E. rewrite Es in Hi, Hj. exact (slice_phi_inj _ _ Hv i j Hi Hj E).
  - intros i Hi. unfold value. rewrite Ed, Es. rewrite Es in Hi. now rewrite nth_gather.
  - intros i Hi. rewrite Es in Hi.
    destruct (slice_phi_facts _ _ Hv i Hi) as [Hb Hz].
    exists (zhapply (amat (icmap o)) (map Z.of_nat (slice_phi specs i))).
    exists (zhapply (amat (icmap o)) (map Z.of_nat (slice_phi specs i))).
    split; [now apply world_ok|]. split.
    + unfold world. rewrite Ec. rewrite Happ by (rewrite map_length; exact (in_bounds_length _ _ Hi)).
      now rewrite Hz.
    + rewrite rename_pairs_id. unfold out_names. rewrite Ec, Hrn. apply Permutation_refl.
Qed.

(* Image.__getitem__ for any tuple of integers, slices (any step), one Ellipsis,
   shorter tuples: the result tracks the original along the per-axis maps
   start + step * i (dropped axes fixed at their index) *)
Theorem getitem_tracks_lemma o sl r :
  wf_image o -> getitem o sl = IOk r ->
  exists specs, norm_slicers (ishape o) sl = IOk specs /\ Forall2 spec_valid specs (ishape o) /\
    wf_image r /\ tracks r o (slice_phi specs) (fun s => s) /\ ishape r = kept_lens specs.
Proof.
  intros Hwo H. unfold getitem, ibind in H.
  destruct (norm_slicers (ishape o) sl) as [specs|e] eqn:Hn; [|discriminate].
  exists specs. split; [reflexivity|].
  assert (Hv := norm_slicers_valid _ _ _ Hn). split; [exact Hv|].
  now apply getitem_specs_tracks.
Qed.

(* ------------------------------------------------------------------ Ellipsis *)
Lemma split_ell_spec sl b a :
  split_ell sl = Some (b, a) -> sl = b ++ SEllipsis :: a /\ count_ell b = 0.
Proof.
  revert b; induction sl as [|x sl IH]; intros b H; simpl in H; [discriminate|].
  destruct x as [i|s| |];
    try (destruct (split_ell sl) as [[b' a']|] eqn:E; [|discriminate];
         injection H as <- <-; destruct (IH b' eq_refl) as [-> Hc]; split; [reflexivity|exact Hc]).
  injection H as <- <-. split; reflexivity.
Qed.

Lemma split_ell_none sl : count_ell sl = 0 -> split_ell sl = None.
Proof.
  induction sl as [|x sl IH]; intros H; [reflexivity|].
  destruct x as [i|s| |]; simpl in *; try (rewrite IH by exact H; reflexivity). discriminate.
Qed.

Lemma split_ell_app b a : count_ell b = 0 -> split_ell (b ++ SEllipsis :: a) = Some (b, a).
Proof.
  induction b as [|x b IH]; intros H; [reflexivity|].
  destruct x as [i|s| |]; simpl in *; try (rewrite IH by exact H; reflexivity). discriminate.
Qed.

(* an Ellipsis stands for exactly ndim - (number of other entries) full slices *)
Theorem ellipsis_expansion_lemma ndim b a :
  count_ell b = 0 -> count_ell a = 0 ->
  expand_ellipsis ndim (b ++ SEllipsis :: a) = b ++ repeat (SSlice full_slice) (ndim - length b - length a) ++ a /\
  (length b + length a <= ndim -> length (expand_ellipsis ndim (b ++ SEllipsis :: a)) = ndim) /\
  expand_ellipsis ndim (b ++ a) = b ++ a.
Proof.
  intros Hb Ha. unfold expand_ellipsis. rewrite split_ell_app by exact Hb. split; [reflexivity|]. split.
  - intros Hle. rewrite !app_length, repeat_length. lia.
  - rewrite split_ell_none; [reflexivity|]. unfold count_ell in *. rewrite filter_app, app_length. lia.
Qed.
