(* C02 - ImageList.from_image: every element tracks the image; with dropout the
   element's named world point is the original's minus the dropped coordinate. *)
From Coq Require Import String.
From Coq Require Import List Arith Lia Bool ZArith Permutation.
From NV.Lib Require Import RingMat SlotAlg NdIndex Harness.
From NV.C01 Require Import Model Exec Proofs.
From NV.C02 Require Import Model Proofs Proofs2 Proofs3.
Import ListNotations.

(* like `tracks`, but the result may have FEWER reference coordinates: the named
   world point of the result plus some remaining pairs is the original's *)
Record tracks_sub (r o : image) (phi : list nat -> list nat) (rho : string -> string) : Prop := {
  ts_bounds : forall i, in_bounds (ishape r) i -> in_bounds (ishape o) (phi i);
  ts_inj : forall i j, in_bounds (ishape r) i -> in_bounds (ishape r) j -> phi i = phi j -> i = j;
  ts_val : forall i, in_bounds (ishape r) i -> value r i = value o (phi i);
  ts_world : forall i, in_bounds (ishape r) i ->
    exists yo yr rest, world o (phi i) = Ok yo /\ world r i = Ok yr /\
      Permutation (rename_pairs rho (named (out_names o) yo)) (named (out_names r) yr ++ rest)
}.

Lemma tracks_is_sub r o phi rho : tracks r o phi rho -> tracks_sub r o phi rho.
Proof.
  intros [B I V W]. constructor; auto.
  intros i Hi. destruct (W i Hi) as [yo [yr [H1 [H2 P]]]].
  exists yo, yr, []. rewrite app_nil_r. auto.
Qed.

(* ------------------------------------------------------------------ drop_nth *)
Lemma drop_nth_map {A B} (f : A -> B) k l : drop_nth k (map f l) = map f (drop_nth k l).
Proof.
  revert k; induction l as [|x l IH]; intros [|k]; simpl; try reflexivity. now rewrite IH.
Qed.

Lemma drop_nth_app_lt {A} k (l m : list A) : k < length l -> drop_nth k (l ++ m) = drop_nth k l ++ m.
Proof.
  revert k; induction l as [|x l IH]; intros [|k] H; simpl in *; try lia; try reflexivity.
  rewrite IH by lia. reflexivity.
Qed.

Lemma drop_nth_length {A} k (l : list A) : k < length l -> length (drop_nth k l) = length l - 1.
Proof.
  revert k; induction l as [|x l IH]; intros [|k] H; simpl in *; try lia.
  rewrite IH by lia. lia.
Qed.

Lemma combine_drop_nth_perm {A B} k (a : list A) (b : list B) da db :
  k < length a -> length a = length b ->
  Permutation (combine a b) (combine (drop_nth k a) (drop_nth k b) ++ [(nth k a da, nth k b db)]).
Proof.
  revert k b; induction a as [|x a IH]; intros [|k] [|y b] H L; simpl in *; try lia.
  - apply Permutation_cons_append.
  - apply perm_skip. apply IH; lia.
Qed.

(* ------------------------------------------------------------------ dropping an output row *)
Lemma drop_row_ok cm o b :
  zWF cm -> o < cs_ndim (arng cm) -> zdrop_io_dim cm None (Some o) true = Ok b ->
  zWF b /\ cnames (adom b) = cnames (adom cm) /\ cnames (arng b) = drop_nth o (cnames (arng cm)) /\
  forall x, length x = cs_ndim (adom cm) -> zapply b x = Ok (drop_nth o (zhapply (amat cm) x)).
Proof.
  intros Hwf Ho H. unfold zdrop_io_dim, drop_io_dim in H. cbn [negb] in H. unfold bind in H.
  destruct (mk_cs (cnames (adom cm)) EmptyString 1) as [d|e] eqn:Hd; [|discriminate].
  destruct (mk_cs (drop_nth o (cnames (arng cm))) EmptyString 1) as [r|e] eqn:Hr; [|discriminate].
  destruct (mk_cs_ok _ _ _ _ Hd) as [Hd1 _]. destruct (mk_cs_ok _ _ _ _ Hr) as [Hr1 _].
  destruct (mk_aff_ok Z 0%Z 1%Z Z.eqb Zeqb_spec _ _ _ _ _ H) as [Em [En1 [En2 [_ [_ [_ Hwb]]]]]].
  split; [exact Hwb|]. split; [congruence|]. split; [congruence|].
  intros x Hx.
  assert (Lb : length x = cs_ndim (adom b)) by (unfold cs_ndim in *; rewrite En1, Hd1; exact Hx).
  unfold zapply. rewrite (apply_ok Z 0%Z 1%Z Z.add Z.mul b x Lb). f_equal. rewrite Em.
  destruct Hwf as [[top [Et [Lt Rt]]] _].
  rewrite Et. unfold happly, mv.
  assert (Hlt : o < length top) by (rewrite Lt; exact Ho).
  rewrite (drop_nth_app_lt o top _ Hlt).
  rewrite !map_app. cbn [map]. rewrite !removelast_last. now rewrite drop_nth_map.
Qed.

(* the same data under the coordmap without output row o *)
Lemma drop_row_tracks_sub it cm' r o :
  wf_image it -> o < cs_ndim (arng (icmap it)) ->
  zdrop_io_dim (icmap it) None (Some o) true = Ok cm' ->
  mk_image (ishape it) (idata it) cm' = IOk r ->
  wf_image r /\ tracks_sub r it (fun i => i) (fun s => s).
Proof.
  intros Hw Ho Hd Hm. assert (Hw' := Hw). destruct Hw' as [Hwf [Hs Hdl]].
  destruct (mk_image_ok _ _ _ _ Hm) as [Es [Ed [Ec Hl]]].
  destruct (drop_row_ok _ _ _ Hwf Ho Hd) as [Hwb [Hn1 [Hn2 Happ]]].
  assert (Hwr : wf_image r).
  { unfold wf_image. rewrite Es, Ed, Ec. split; [exact Hwb|]. split; [exact Hl|exact Hdl]. }
  split; [exact Hwr|]. constructor.
  - intros i Hi. now rewrite Es in Hi.
  - auto.
  - intros i Hi. unfold value. now rewrite Es, Ed.
  - intros i Hi. rewrite Es in Hi.
    assert (Lx : length (map Z.of_nat i) = cs_ndim (adom (icmap it))).
    { rewrite map_length, (in_bounds_length _ _ Hi). exact Hs. }
    set (y := zhapply (amat (icmap it)) (map Z.of_nat i)).
    assert (Ly : length y = cs_ndim (arng (icmap it))).
    { destruct Hwf as [Hm' _]. eapply happly_length; exact Hm'. }
    exists y, (drop_nth o y), [(nth o (cnames (arng (icmap it))) EmptyString, nth o y 0%Z)].
    split; [now apply world_ok|]. split; [unfold world; rewrite Ec; now apply Happ|].
    rewrite rename_pairs_id. unfold named, out_names. rewrite Ec, Hn2.
    apply combine_drop_nth_perm; [exact Ho|]. unfold cs_ndim in Ly. now rewrite Ly.
Qed.

Lemma sub_after_tracks r m o phi rho :
  tracks_sub r m (fun i => i) (fun s => s) -> tracks m o phi rho -> tracks_sub r o phi rho.
Proof.
  intros [B1 I1 V1 W1] [B2 I2 V2 W2]. constructor.
  - intros i Hi. apply B2, B1, Hi.
  - intros i j Hi Hj E. apply I2; [apply B1; exact Hi|apply B1; exact Hj|exact E].
  - intros i Hi. rewrite V1 by exact Hi. apply V2. now apply B1.
  - intros i Hi. destruct (W1 i Hi) as [ym [yr [rest [Hm [Hr P1]]]]].
    destruct (W2 i (B1 i Hi)) as [yo [ym' [Ho [Hm' P2]]]].
    rewrite Hm in Hm'. injection Hm' as <-.
    exists yo, yr, rest. split; [exact Ho|]. split; [exact Hr|].
    rewrite rename_pairs_id in P1. eapply Permutation_trans; [exact P2|exact P1].
Qed.

(* every element of ImageList.from_image: the k-th element is a well-formed image
   whose values sit, injectively, at indices of the original carrying the same value
   and the same named world coordinates (all of them without dropout; all but the
   dropped one with dropout).  Hypothesis fst dpair = None: io_axis_indices finds no
   input axis of the slice for the dropped output - otherwise drop_io_dim would also
   remove a data axis and nipy's Image constructor refuses the element. *)
Theorem image_list_item_tracks_lemma img in_ax out_ax dropout k dpair tinyz r :
  wf_image img -> fst dpair = None ->
  image_list_item img in_ax out_ax dropout k dpair tinyz = IOk r ->
  wf_image r /\ exists phi, tracks_sub r img phi (fun s => s).
Proof.
  intros Hw Hp H. unfold image_list_item in H.
  destruct in_ax as [a|]; [|discriminate]. unfold ibind in H.
  destruct (iter_axis_item img (AInt (Z.of_nat a)) [] k) as [it|e] eqn:Hit; [|discriminate].
  destruct (iter_axis_item_good _ _ _ _ _ Hw Hit) as [Hwi [phi T]].
  destruct (if dropout then out_ax else None) as [o0|].
  - destruct (lift (drop_out_dim (icmap it) dpair tinyz)) as [cm'|e] eqn:Hd; [|discriminate].
    apply lift_ok in Hd. unfold drop_out_dim in Hd. destruct dpair as [pi po]. cbn [fst snd] in *. subst pi.
    destruct po as [o|].
    + destruct (Nat.ltb o (cs_ndim (arng (icmap it)))) eqn:Ho; [|discriminate]. apply Nat.ltb_lt in Ho.
      destruct (drop_row_tracks_sub _ _ _ _ Hwi Ho Hd H) as [Hwr S].
      split; [exact Hwr|]. exists phi. exact (sub_after_tracks _ _ _ _ _ S T).
    + (* nothing dropped: identity matrices, same names *)
      unfold zdrop_io_dim, drop_io_dim in Hd. cbn [negb] in Hd. unfold bind in Hd.
      destruct (mk_cs (cnames (adom (icmap it))) EmptyString 1) as [d|e] eqn:Hcd; [|discriminate].
      destruct (mk_cs (cnames (arng (icmap it))) EmptyString 1) as [rr|e] eqn:Hcr; [|discriminate].
      destruct (mk_cs_ok _ _ _ _ Hcd) as [Hd1 _]. destruct (mk_cs_ok _ _ _ _ Hcr) as [Hr1 _].
      destruct (mk_aff_ok Z 0%Z 1%Z Z.eqb Zeqb_spec _ _ _ _ _ Hd) as [Em [En1 [En2 [_ [_ [_ Hwb]]]]]].
      destruct (mk_image_ok _ _ _ _ H) as [Es [Ed [Ec Hl]]].
      assert (Hwi' := Hwi). destruct Hwi' as [Hwf [Hs Hdl]].
      assert (Hwr : wf_image r).
      { unfold wf_image. rewrite Es, Ed, Ec. split; [exact Hwb|]. split; [exact Hl|exact Hdl]. }
      split; [exact Hwr|]. exists phi.
      apply (sub_after_tracks r it img phi (fun s => s)); [|exact T].
      constructor.
      * intros i Hi. now rewrite Es in Hi.
      * auto.
      * intros i Hi. unfold value. now rewrite Es, Ed.
      * intros i Hi. rewrite Es in Hi.
        assert (Lx : length (map Z.of_nat i) = cs_ndim (adom (icmap it))).
        { rewrite map_length, (in_bounds_length _ _ Hi). exact Hs. }
        exists (zhapply (amat (icmap it)) (map Z.of_nat i)), (zhapply (amat (icmap it)) (map Z.of_nat i)), [].
        split; [now apply world_ok|]. split.
        -- unfold world, zapply. rewrite Ec.
           rewrite (apply_ok Z 0%Z 1%Z Z.add Z.mul cm' _) by (unfold cs_ndim in *; rewrite En1, Hd1; exact Lx).
           now rewrite Em.
        -- rewrite rename_pairs_id, app_nil_r. unfold out_names. rewrite Ec, En2, Hr1. apply Permutation_refl.
  - injection H as <-. split; [exact Hwi|]. exists phi. now apply tracks_is_sub.
Qed.
