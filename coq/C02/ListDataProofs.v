(* C02 - proofs about ImageList.get_list_data (model in ListData.v) *)
From Coq Require Import List Arith Lia Bool ZArith ZifyBool.
From NV.Lib Require Import NdIndex Harness.
From NV.C02 Require Import Model ListData.
Import ListNotations.

(* ------------------------------------------------------------------ insert_at / remove_at *)
Lemma insert_at_firstn_skipn {A} a (x : A) l : a <= length l -> insert_at a x l = firstn a l ++ x :: skipn a l.
Proof.
  revert l; induction a as [|a IH]; intros [|y l] H; simpl in *; try reflexivity; try lia.
  f_equal. apply IH. lia.
Qed.

Lemma insert_at_length {A} a (x : A) l : length (insert_at a x l) = S (length l).
Proof. revert l; induction a as [|a IH]; intros [|y l]; simpl; try reflexivity. now rewrite IH. Qed.

Lemma nth_insert_at {A} a (x d : A) l : a <= length l -> nth a (insert_at a x l) d = x.
Proof.
  revert l; induction a as [|a IH]; intros [|y l] H; simpl in *; try reflexivity; try lia.
  apply IH. lia.
Qed.

Lemma remove_insert_at {A} a (x : A) l : a <= length l -> remove_at a (insert_at a x l) = l.
Proof.
  revert l; induction a as [|a IH]; intros [|y l] H; simpl in *; try reflexivity; try lia.
  f_equal. apply IH. lia.
Qed.

Lemma insert_remove_at {A} a (d : A) l : a < length l -> insert_at a (nth a l d) (remove_at a l) = l.
Proof.
  revert l; induction a as [|a IH]; intros [|y l] H; simpl in *; try reflexivity; try lia.
  f_equal. apply IH. lia.
Qed.

Lemma insert_at_inj {A} a (x x' : A) l l' :
  a <= length l -> a <= length l' -> insert_at a x l = insert_at a x' l' -> x = x' /\ l = l'.
Proof.
  intros H H' E. split.
  - rewrite <- (nth_insert_at a x x l H). rewrite E. now apply nth_insert_at.
  - rewrite <- (remove_insert_at a x l H). rewrite E. now apply remove_insert_at.
Qed.

Lemma in_bounds_insert_at a n k s i :
  a <= length s -> k < n -> in_bounds s i -> in_bounds (insert_at a n s) (insert_at a k i).
Proof.
  unfold in_bounds. intros Ha Hk H. revert a Ha.
  induction H as [|x y i s Hxy H IH]; intros [|a] Ha; simpl in *; try lia.
  - constructor; [assumption|constructor].
  - constructor; [assumption|]. constructor; assumption.
  - constructor; [assumption|]. apply IH. lia.
Qed.

Lemma in_bounds_insert_at_inv a n s j :
  a <= length s -> in_bounds (insert_at a n s) j ->
  a < length j /\ nth a j 0 < n /\ in_bounds s (remove_at a j).
Proof.
  unfold in_bounds. revert s j; induction a as [|a IH]; intros s j Ha H.
  - simpl in H. inversion H as [|x y i' s' Hxy H']; subst. simpl. repeat split; [lia|assumption|assumption].
  - destruct s as [|y s]; simpl in Ha; [lia|]. simpl in H.
    inversion H as [|x y' i' s' Hxy H']; subst.
    destruct (IH s i' ltac:(lia) H') as (L & N & B). simpl. repeat split; [lia|assumption|].
    constructor; assumption.
Qed.

(* ------------------------------------------------------------------ concat of equally long blocks *)
Lemma concat_uniform_length (ds : list (list Z)) P :
  (forall d, In d ds -> length d = P) -> length (concat ds) = length ds * P.
Proof.
  induction ds as [|d ds IH]; intros H; simpl; [reflexivity|].
  rewrite app_length, IH by (intros; apply H; now right). rewrite (H d) by now left. reflexivity.
Qed.

Lemma nth_concat_uniform (ds : list (list Z)) P k r :
  (forall d, In d ds -> length d = P) -> k < length ds -> r < P ->
  nth (k * P + r) (concat ds) 0%Z = nth r (nth k ds []) 0%Z.
Proof.
  revert k; induction ds as [|d ds IH]; intros k H Hk Hr; simpl in Hk; [lia|].
  assert (Hd : length d = P) by (apply H; now left).
  destruct k as [|k]; simpl concat.
  - simpl. apply app_nth1. lia.
  - rewrite app_nth2 by (simpl; lia).
    replace (S k * P + r - length d) with (k * P + r) by (simpl; lia).
    simpl nth. apply IH; [intros; apply H; now right|lia|assumption].
Qed.

(* ------------------------------------------------------------------ get_list_data *)
Definition lwf (imgs : list limg) : Prop := forall im, In im imgs -> length (snd im) = prod (fst im).

Lemma natlist_eqb_eq a b : natlist_eqb a b = true <-> a = b.
Proof. apply list_eqb_spec. intros x y. apply Nat.eqb_eq. Qed.

Lemma norm_list_axis_le axis n a : norm_list_axis axis n = Some a -> a < n.
Proof.
  unfold norm_list_axis. destruct (_ || _)%bool eqn:E; [discriminate|].
  apply orb_false_iff in E. destruct E as [E1 E2]. intros [= <-].
  destruct (axis <? 0)%Z eqn:E3; lia.
Qed.

(* unfolding of a successful call *)
Lemma get_list_data_ok imgs axis rs rd :
  get_list_data imgs axis = IOk (rs, rd) ->
  exists a s0, norm_list_axis axis (S (length s0)) = Some a /\ a <= length s0 /\ imgs <> [] /\
    (forall im, In im imgs -> fst im = s0) /\
    rs = insert_at a (length imgs) s0 /\
    rd = gather 0%Z rs (roll_phi a) (length imgs :: s0) (concat (map snd imgs)).
Proof.
  unfold get_list_data. destruct imgs as [|[s0 d0] rest]; [discriminate|].
  destruct (norm_list_axis axis (S (length s0))) as [a|] eqn:En; [|discriminate].
  destruct (forallb _ _) eqn:Ef; [|discriminate].
  intros [= <- <-]. exists a, s0. split; [exact En|].
  apply norm_list_axis_le in En. split; [lia|]. split; [discriminate|]. split; [|split; reflexivity].
  intros im Him. rewrite forallb_forall in Ef. now apply natlist_eqb_eq, Ef.
Qed.

(* (A) every value at the list position of the image it belongs to: the result has shape
   img_shape[0:a] + (ilen,) + img_shape[a:], and its entry at (idx[0:a], k, idx[a:]) is the value of image k
   OF THE LIST (in list order) at idx *)
Lemma get_list_data_entry_lemma :
  forall imgs axis rs rd, lwf imgs -> get_list_data imgs axis = IOk (rs, rd) ->
  exists a s0, norm_list_axis axis (S (length s0)) = Some a /\
    (forall im, In im imgs -> fst im = s0) /\
    rs = firstn a s0 ++ length imgs :: skipn a s0 /\ length rd = prod rs /\
    forall k idx, k < length imgs -> in_bounds s0 idx ->
      in_bounds rs (firstn a idx ++ k :: skipn a idx) /\
      nth (ravel rs (firstn a idx ++ k :: skipn a idx)) rd 0%Z = nth (ravel s0 idx) (snd (nth k imgs ([], []))) 0%Z.
Proof.
  intros imgs axis rs rd W H. destruct (get_list_data_ok _ _ _ _ H) as (a & s0 & En & Ha & _ & Hs & -> & ->).
  exists a, s0. split; [exact En|]. split; [exact Hs|].
  split; [now apply insert_at_firstn_skipn|]. split; [apply gather_length|].
  intros k idx Hk Hb. pose proof (in_bounds_length _ _ Hb) as Hl.
  rewrite <- (insert_at_firstn_skipn a k idx) by lia.
  assert (B : in_bounds (insert_at a (length imgs) s0) (insert_at a k idx)) by now apply in_bounds_insert_at.
  split; [exact B|]. rewrite nth_gather by exact B.
  unfold roll_phi. rewrite nth_insert_at, remove_insert_at by lia.
  cbn [ravel].
  rewrite (nth_concat_uniform (map snd imgs) (prod s0)).
  - f_equal. change (@nil Z) with (snd (@nil nat, @nil Z)). apply map_nth.
  - intros d Hd. apply in_map_iff in Hd. destruct Hd as (im & <- & Him). rewrite (W im Him). now rewrite (Hs im Him).
  - now rewrite map_length.
  - now apply ravel_lt.
Qed.

(* (B) no value invented or duplicated: the flat positions of the result are in bijection with the pairs
   (list position k, index idx into image k): every position is the image of such a pair and holds that
   image's value, and two different pairs never land on the same position *)
Lemma get_list_data_bijection_lemma :
  forall imgs axis rs rd, lwf imgs -> get_list_data imgs axis = IOk (rs, rd) ->
  exists a s0, norm_list_axis axis (S (length s0)) = Some a /\
    (forall j, j < length rd -> exists k idx, k < length imgs /\ in_bounds s0 idx /\
        j = ravel rs (firstn a idx ++ k :: skipn a idx) /\
        nth j rd 0%Z = nth (ravel s0 idx) (snd (nth k imgs ([], []))) 0%Z) /\
    (forall k idx k' idx', in_bounds s0 idx -> in_bounds s0 idx' -> k < length imgs -> k' < length imgs ->
        ravel rs (firstn a idx ++ k :: skipn a idx) = ravel rs (firstn a idx' ++ k' :: skipn a idx') ->
        k = k' /\ idx = idx').
Proof.
  intros imgs axis rs rd W H.
  destruct (get_list_data_entry_lemma _ _ _ _ W H) as (a & s0 & En & Hs & Hrs & Hlen & Hent).
  destruct (get_list_data_ok _ _ _ _ H) as (a' & s0' & En' & Ha' & Hne & Hs' & Hrs' & _).
  assert (s0' = s0).
  { destruct imgs as [|im rest]; [congruence|]. rewrite <- (Hs im), <- (Hs' im) by now left. reflexivity. }
  subst s0'. assert (a' = a) by congruence. subst a'.
  exists a, s0. split; [exact En|]. split.
  - intros j Hj. rewrite Hlen in Hj.
    pose proof (unravel_in_bounds rs j Hj) as Bj. rewrite Hrs' in Bj at 1.
    destruct (in_bounds_insert_at_inv _ _ _ _ Ha' Bj) as (L & N & B).
    exists (nth a (unravel rs j) 0), (remove_at a (unravel rs j)).
    split; [exact N|]. split; [exact B|].
    pose proof (in_bounds_length _ _ B) as Hl.
    rewrite <- insert_at_firstn_skipn by lia. rewrite insert_remove_at by exact L.
    split; [now rewrite ravel_unravel|].
    destruct (Hent _ _ N B) as [_ E]. rewrite <- E.
    rewrite <- insert_at_firstn_skipn by lia. rewrite insert_remove_at by exact L. now rewrite ravel_unravel.
  - intros k idx k' idx' B B' Hk Hk' E.
    destruct (Hent _ _ Hk B) as [I _]. destruct (Hent _ _ Hk' B') as [I' _].
    pose proof (in_bounds_length _ _ B) as Hl. pose proof (in_bounds_length _ _ B') as Hl'.
    assert (E2 : firstn a idx ++ k :: skipn a idx = firstn a idx' ++ k' :: skipn a idx').
    { rewrite <- (unravel_ravel rs _ I), <- (unravel_ravel rs _ I'). now rewrite E. }
    rewrite <- !insert_at_firstn_skipn in E2 by lia.
    apply insert_at_inj in E2; [exact E2|lia|lia].
Qed.

(* (C) the refusals of the code: empty list, axis out of [-out_dim, out_dim) *)
Lemma get_list_data_refusals_lemma :
  forall imgs axis, lwf imgs ->
  (imgs = [] -> get_list_data imgs axis = IErr IIndex) /\
  (forall s0 d0 rest, imgs = (s0, d0) :: rest ->
     ((axis >= Z.of_nat (S (length s0)))%Z \/ (axis < - Z.of_nat (S (length s0)))%Z) ->
     get_list_data imgs axis = IErr IValue) /\
  (forall s0 d0 rest, imgs = (s0, d0) :: rest -> (forall im, In im imgs -> fst im = s0) ->
     (- Z.of_nat (S (length s0)) <= axis < Z.of_nat (S (length s0)))%Z ->
     exists r, get_list_data imgs axis = IOk r).
Proof.
  intros imgs axis _. split; [intros ->; reflexivity|]. split.
  - intros s0 d0 rest -> Hax. unfold get_list_data, norm_list_axis.
    destruct (_ || _)%bool eqn:E; [reflexivity|]. apply orb_false_iff in E. destruct E as [E1 E2]. lia.
  - intros s0 d0 rest -> Hs Hax. unfold get_list_data, norm_list_axis.
    destruct (_ || _)%bool eqn:E; [apply orb_true_iff in E; destruct E as [E|E]; lia|].
    match goal with |- context [forallb ?f ?l] => assert (F : forallb f l = true) end.
    { apply forallb_forall. intros im Him. apply natlist_eqb_eq. now apply Hs. }
    rewrite F. eexists; reflexivity.
Qed.
