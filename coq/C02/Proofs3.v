(* C02 - composite operations, single steps and whole programs. *)
From Coq Require Import String.
From Coq Require Import List Arith Lia Bool ZArith Permutation.
From NV.Lib Require Import RingMat SlotAlg NdIndex Harness.
From NV.C01 Require Import Model Exec Proofs.
From NV.C02 Require Import Model Proofs Proofs2.
Import ListNotations.

(* r is a well-formed image that tracks o (for some injective index map) *)
Definition good (r o : image) (rho : string -> string) : Prop :=
  wf_image r /\ exists phi, tracks r o phi rho.

Lemma good_trans r m o rho1 rho2 :
  good r m rho1 -> good m o rho2 -> good r o (fun s => rho1 (rho2 s)).
Proof.
  intros [Hw [phi1 T1]] [_ [phi2 T2]]. split; [exact Hw|].
  exists (fun i => phi2 (phi1 i)). exact (tracks_trans_lemma _ _ _ _ _ _ _ T1 T2).
Qed.

Lemma good_refl o : wf_image o -> good o o (fun s => s).
Proof. intros H. split; [exact H|]. eexists. now apply tracks_refl. Qed.

Lemma reordered_axes_ints_good o order r :
  wf_image o -> reordered_axes_ints o order = IOk r -> good r o (fun s => s).
Proof.
  intros Hw H. destruct (reordered_axes_ints_tracks _ _ _ Hw H) as [Hr [T _]]. split; [exact Hr|eexists; exact T].
Qed.

Lemma reordered_reference_ints_good o order r :
  wf_image o -> reordered_reference_ints o order = IOk r -> good r o (fun s => s).
Proof.
  intros Hw H. destruct (reordered_reference_ints_tracks _ _ _ Hw H) as [Hr [T _]]. split; [exact Hr|eexists; exact T].
Qed.

Lemma getitem_good o sl r : wf_image o -> getitem o sl = IOk r -> good r o (fun s => s).
Proof.
  intros Hw H. destruct (getitem_tracks_lemma _ _ _ Hw H) as [specs [_ [_ [Hr [T _]]]]].
  split; [exact Hr|eexists; exact T].
Qed.

Lemma reordered_axes_good o ord r : wf_image o -> reordered_axes o ord = IOk r -> good r o (fun s => s).
Proof.
  intros Hw H. unfold reordered_axes, ibind in H.
  destruct (lift (resolve_order (in_names o) (length (ishape o)) ord)) as [order|e]; [|discriminate].
  now apply reordered_axes_ints_good in H.
Qed.

Lemma reordered_reference_good o ord r : wf_image o -> reordered_reference o ord = IOk r -> good r o (fun s => s).
Proof.
  intros Hw H. unfold reordered_reference, ibind in H.
  destruct (lift (resolve_order (out_names o) (length (ishape o)) ord)) as [order|e]; [|discriminate].
  now apply reordered_reference_ints_good in H.
Qed.

(* rollimg: the order it computes is handed to reordered_axes unchanged *)
Theorem rollimg_tracks_lemma o axis start ornts r :
  wf_image o -> rollimg o axis start ornts = IOk r ->
  exists a s order,
    input_axis_index (icmap o) axis ornts = IOk a /\ input_axis_index (icmap o) start ornts = IOk s /\
    rollimg_order (length (ishape o)) a s = IOk order /\
    wf_image r /\ tracks r o (permute 0 (argsort order)) (fun x => x) /\
    ishape r = permute 0 order (ishape o) /\ Permutation order (seq 0 (length (ishape o))).
Proof.
  intros Hw H. unfold rollimg, ibind in H.
  destruct (input_axis_index (icmap o) axis ornts) as [a|e] eqn:Ea; [|discriminate].
  destruct (input_axis_index (icmap o) start ornts) as [s|e] eqn:Es; [|discriminate].
  destruct (rollimg_order (length (ishape o)) a s) as [order|e] eqn:Eo; [|discriminate].
  exists a, s, order. split; [reflexivity|]. split; [reflexivity|]. split; [exact Eo|].
  exact (reordered_axes_ints_tracks _ _ _ Hw H).
Qed.

Lemma rollimg_good o axis start ornts r :
  wf_image o -> rollimg o axis start ornts = IOk r -> good r o (fun s => s).
Proof.
  intros Hw H. destruct (rollimg_tracks_lemma _ _ _ _ _ Hw H) as [a [s [order [_ [_ [_ [Hr [T _]]]]]]]].
  split; [exact Hr|eexists; exact T].
Qed.

Lemma both_good o order r :
  wf_image o ->
  ibind (reordered_axes_ints o order) (fun m => reordered_reference_ints m order) = IOk r ->
  good r o (fun s => s).
Proof.
  intros Hw H. unfold ibind in H.
  destruct (reordered_axes_ints o order) as [m|e] eqn:Em; [|discriminate].
  assert (G1 := reordered_axes_ints_good _ _ _ Hw Em).
  assert (G2 := reordered_reference_ints_good _ _ _ (proj1 G1) H).
  exact (good_trans _ _ _ _ _ G2 G1).
Qed.

Ltac crack H :=
  repeat (match type of H with
          | context [match ?x with _ => _ end] => destruct x eqn:?; try discriminate
          end).

Lemma rollaxis_good o axis inverse r :
  wf_image o -> rollaxis o axis inverse = IOk r -> good r o (fun s => s).
Proof.
  intros Hw H. unfold rollaxis in H. cbv zeta in H.
  destruct inverse.
  - destruct axis as [z|nm]; [|discriminate]. now apply both_good in H.
  - unfold ibind at 1 in H.
    match type of H with context [match ?x with IOk _ => _ | IErr _ => _ end] => destruct x as [z|e]; [|discriminate] end.
    match type of H with context [if ?c then _ else _] => destruct c; [|discriminate] end.
    now apply both_good in H.
Qed.

Lemma iter_axis_item_good o axis ornts k r :
  wf_image o -> iter_axis_item o axis ornts k = IOk r -> good r o (fun s => s).
Proof.
  intros Hw H. unfold iter_axis_item, ibind in H.
  destruct (rollimg o axis (AInt 0) ornts) as [m|e] eqn:Em; [|discriminate].
  assert (G1 := rollimg_good _ _ _ _ _ Hw Em).
  assert (G2 := getitem_good _ _ _ (proj1 G1) H).
  exact (good_trans _ _ _ _ _ G2 G1).
Qed.

Lemma synchronized_order_good o ta tr ax rf r :
  wf_image o -> synchronized_order o ta tr ax rf = IOk r -> good r o (fun s => s).
Proof.
  intros Hw H. unfold synchronized_order, ibind in H.
  destruct ax.
  - destruct (reordered_axes o (ONames ta)) as [m|e] eqn:Em; [|discriminate].
    assert (G1 := reordered_axes_good _ _ _ Hw Em).
    destruct rf.
    + assert (G2 := reordered_reference_good _ _ _ (proj1 G1) H). exact (good_trans _ _ _ _ _ G2 G1).
    + injection H as <-. exact G1.
  - destruct rf.
    + now apply reordered_reference_good in H.
    + injection H as <-. now apply good_refl.
Qed.

Lemma as_xyz_image_good o af order ornts af2 r :
  wf_image o -> as_xyz_image o af order ornts af2 = IOk r -> good r o (fun s => s).
Proof.
  intros Hw H. unfold as_xyz_image in H.
  destruct af; [injection H as <-; now apply good_refl|].
  destruct order as [order|]; [|discriminate]. unfold ibind in H.
  destruct (reordered_reference_ints o order) as [reo|e] eqn:Er; [|discriminate].
  assert (G1 := reordered_reference_ints_good _ _ _ Hw Er).
  match type of H with context [if ?c then _ else _] => destruct c; [discriminate|] end.
  match type of H with context [match ?x with IOk _ => _ | IErr _ => _ end] => destruct x as [m|e] eqn:Em; [|discriminate] end.
  destruct af2; [|discriminate]. injection H as <-.
  assert (G2 := reordered_axes_ints_good _ _ _ (proj1 G1) Em).
  exact (good_trans _ _ _ _ _ G2 G1).
Qed.

(* every operation of the program language *)
Theorem step_tracks_lemma o op r : wf_image o -> step o op = IOk r -> good r o (step_rho op).
Proof.
  intros Hw H. destruct op; cbn [step step_rho] in *.
  - now apply getitem_good in H.
  - now apply reordered_axes_good in H.
  - now apply reordered_reference_good in H.
  - destruct (renamed_axes_tracks _ _ _ Hw H) as [Hr [T _]]. split; [exact Hr|eexists; exact T].
  - destruct (renamed_reference_tracks _ _ _ Hw H) as [Hr [T _]]. split; [exact Hr|eexists; exact T].
  - now apply rollimg_good in H.
  - now apply rollaxis_good in H.
  - now apply iter_axis_item_good in H.
  - now apply synchronized_order_good in H.
  - now apply as_xyz_image_good in H.
Qed.

(* ... hence every finite sequence of operations *)
Theorem program_tracks_lemma ops : forall o r,
  wf_image o -> run o ops = IOk r -> good r o (run_rho ops).
Proof.
  induction ops as [|op ops IH]; intros o r Hw H; cbn [run run_rho] in *.
  - injection H as <-. now apply good_refl.
  - unfold ibind in H. destruct (step o op) as [m|e] eqn:Em; [|discriminate].
    assert (G1 := step_tracks_lemma _ _ _ Hw Em).
    assert (G2 := IH m r (proj1 G1) H).
    exact (good_trans _ _ _ _ _ G2 G1).
Qed.

(* ------------------------------------------------------------------ consequences of tracking *)
(* no value is invented ... *)
Lemma tracks_value_in r o phi rho i :
  wf_image o -> tracks r o phi rho -> in_bounds (ishape r) i -> In (value r i) (idata o).
Proof.
  intros [_ [_ Hd]] T Hi. rewrite (tr_val _ _ _ _ T i Hi). unfold value. apply nth_In.
  rewrite Hd. apply ravel_lt. exact (tr_bounds _ _ _ _ T i Hi).
Qed.

(* ... and none is duplicated: distinct data stay distinct *)
Lemma tracks_nodup r o phi rho :
  wf_image r -> wf_image o -> tracks r o phi rho -> NoDup (idata o) -> NoDup (idata r).
Proof.
  intros [_ [_ Hdr]] [_ [_ Hdo]] T ND.
  apply (proj2 (NoDup_nth (idata r) 0%Z)). intros a b Ha Hb E.
  rewrite Hdr in Ha, Hb.
  assert (Ia := unravel_in_bounds _ _ Ha). assert (Ib := unravel_in_bounds _ _ Hb).
  assert (Va := tr_val _ _ _ _ T _ Ia). assert (Vb := tr_val _ _ _ _ T _ Ib).
  unfold value in Va, Vb. rewrite ravel_unravel in Va, Vb by assumption.
  rewrite Va, Vb in E.
  assert (Ba := tr_bounds _ _ _ _ T _ Ia). assert (Bb := tr_bounds _ _ _ _ T _ Ib).
  assert (La := ravel_lt _ _ Ba). assert (Lb := ravel_lt _ _ Bb). rewrite <- Hdo in La, Lb.
  assert (Er := proj1 (NoDup_nth (idata o) 0%Z) ND _ _ La Lb E).
  assert (Ep : phi (unravel (ishape r) a) = phi (unravel (ishape r) b)).
  { rewrite <- (unravel_ravel _ _ Ba), <- (unravel_ravel _ _ Bb). now rewrite Er. }
  assert (Eu := tr_inj _ _ _ _ T _ _ Ia Ib Ep).
  rewrite <- (ravel_unravel _ _ Ha), <- (ravel_unravel _ _ Hb). now rewrite Eu.
Qed.
