(* C02 - property theorems only: image manipulations keep every value at its
   (named) world position.  All statements are for ALL images / arguments /
   programs of the model (NV.C02.Model); no size bounds. *)
From Coq Require Import String.
From Coq Require Import List Arith Lia Bool ZArith Permutation.
From NV.Lib Require Import RingMat SlotAlg NdIndex Harness.
From NV.C01 Require Import Model Exec Proofs.
From NV.C02 Require Import Model Proofs Proofs2 Proofs3 Proofs4 ListData ListDataProofs.
Import ListNotations.

(* (1) Python slice semantics: list(range(n))[start:stop:step] is the arithmetic
   progression from the clipped start, contains exactly its elements that have
   not reached the clipped stop, and only valid indices. *)
Theorem slice_indices_spec :
  forall s n l, slice_select s n = Some l ->
  exists start stop step,
    slice_indices s (Z.of_nat n) = Some (start, stop, step) /\ step <> 0%Z /\
    (forall k, k < length l -> nth k l 0%Z = (start + Z.of_nat k * step)%Z) /\
    (forall x, In x l <-> exists m, (0 <= m)%Z /\ x = (start + m * step)%Z /\
                                   (if (0 <? step)%Z then (x < stop)%Z else (stop < x)%Z)) /\
    (forall x, In x l -> (0 <= x < Z.of_nat n)%Z).
Proof. exact slice_select_spec. Qed.
Print Assumptions slice_indices_spec.

(* (2) Image.__getitem__ with any tuple of integers / slices (any step, negative
   indices) / one Ellipsis / too few entries: the result is a well-formed image
   whose index i holds the value of the original at slice_phi specs i (per axis
   start + step * i, dropped axes fixed), injectively, at the same named world point. *)
Theorem getitem_tracks :
  forall o sl r, wf_image o -> getitem o sl = IOk r ->
  exists specs, norm_slicers (ishape o) sl = IOk specs /\ Forall2 spec_valid specs (ishape o) /\
    wf_image r /\ tracks r o (slice_phi specs) (fun s => s) /\ ishape r = kept_lens specs.
Proof. exact getitem_tracks_lemma. Qed.
Print Assumptions getitem_tracks.

(* the slice matrix A built in _slice acts on a result index exactly as the index map *)
Theorem slice_matrix_is_index_map :
  forall specs x, length x = length (kept_lens specs) ->
  happly 0%Z 1%Z Z.add Z.mul (slice_mat specs) x = slice_phi_z specs x.
Proof. exact slice_mat_act. Qed.
Print Assumptions slice_matrix_is_index_map.

(* an Ellipsis expands to ndim - (other entries) full slices, to nothing more when
   the tuple is already complete, and tuples without Ellipsis are left alone *)
Theorem ellipsis_expansion :
  forall ndim b a, count_ell b = 0 -> count_ell a = 0 ->
  expand_ellipsis ndim (b ++ SEllipsis :: a) = b ++ repeat (SSlice full_slice) (ndim - length b - length a) ++ a /\
  (length b + length a <= ndim -> length (expand_ellipsis ndim (b ++ SEllipsis :: a)) = ndim) /\
  expand_ellipsis ndim (b ++ a) = b ++ a.
Proof. exact ellipsis_expansion_lemma. Qed.
Print Assumptions ellipsis_expansion.

(* (3) reordered_axes: data transposed and domain reordered with the SAME order;
   result index i <-> original index permute (argsort order) i. *)
Theorem reordered_axes_tracks :
  forall o order r, wf_image o -> reordered_axes_ints o order = IOk r ->
  wf_image r /\ tracks r o (permute 0 (argsort order)) (fun s => s) /\
  ishape r = permute 0 order (ishape o) /\ Permutation order (seq 0 (length (ishape o))).
Proof. exact reordered_axes_ints_tracks. Qed.
Print Assumptions reordered_axes_tracks.

Theorem reordered_reference_tracks :
  forall o order r, wf_image o -> reordered_reference_ints o order = IOk r ->
  wf_image r /\ tracks r o (fun i => i) (fun s => s) /\ ishape r = ishape o /\ idata r = idata o.
Proof. exact reordered_reference_ints_tracks. Qed.
Print Assumptions reordered_reference_tracks.

Theorem renamed_tracks :
  forall o nn r, wf_image o ->
  (renamed_axes o nn = IOk r -> wf_image r /\ tracks r o (fun i => i) (fun s => s)) /\
  (renamed_reference o nn = IOk r ->
     wf_image r /\ tracks r o (fun i => i) (rename_fun nn) /\ out_names r = map (rename_fun nn) (out_names o)).
Proof.
  intros o nn r Hw. split; intros H.
  - destruct (renamed_axes_tracks _ _ _ Hw H) as [A [B _]]. now split.
  - destruct (renamed_reference_tracks _ _ _ Hw H) as [A [B [_ [_ C]]]]. split; [exact A|]. split; [exact B|exact C].
Qed.
Print Assumptions renamed_tracks.

(* (4) rollimg: whatever order it derives from (axis, start) is applied to data and map alike *)
Theorem rollimg_tracks :
  forall o axis start ornts r, wf_image o -> rollimg o axis start ornts = IOk r ->
  exists a s order,
    input_axis_index (icmap o) axis ornts = IOk a /\ input_axis_index (icmap o) start ornts = IOk s /\
    rollimg_order (length (ishape o)) a s = IOk order /\
    wf_image r /\ tracks r o (permute 0 (argsort order)) (fun x => x) /\
    ishape r = permute 0 order (ishape o) /\ Permutation order (seq 0 (length (ishape o))).
Proof. exact rollimg_tracks_lemma. Qed.
Print Assumptions rollimg_tracks.

(* negative integer axes count from the number of INPUT axes, whatever the number of outputs
   (the repaired defect fa55516: the result used to be len(out_names) + axis) *)
Theorem input_axis_index_negative_in_range :
  forall (cm : zaff) (z : Z) ornts,
  (- Z.of_nat (cs_ndim (adom cm)) <= z < 0)%Z ->
  exists k, input_axis_index cm (AInt z) ornts = IOk (Z.of_nat k) /\ k < cs_ndim (adom cm) /\
            Z.of_nat k = (Z.of_nat (cs_ndim (adom cm)) + z)%Z.
Proof.
  intros cm z ornts Hz. exists (Z.to_nat (Z.of_nat (cs_ndim (adom cm)) + z)).
  unfold input_axis_index, cs_ndim in *. replace (z <? 0)%Z with true by lia.
  rewrite Z2Nat.id by lia. split; [reflexivity|]. split; lia.
Qed.
Print Assumptions input_axis_index_negative_in_range.

(* (5) tracking composes *)
Theorem tracks_trans :
  forall r m o phi1 phi2 rho1 rho2,
  tracks r m phi1 rho1 -> tracks m o phi2 rho2 ->
  tracks r o (fun i => phi2 (phi1 i)) (fun s => rho1 (rho2 s)).
Proof. exact tracks_trans_lemma. Qed.
Print Assumptions tracks_trans.

(* (6) every operation (slicing, reorder/rename of axes and reference, rollimg,
   deprecated rollaxis, an item of iter_axis, synchronized_order, as_xyz_image) ... *)
Theorem step_tracks :
  forall o op r, wf_image o -> step o op = IOk r ->
  wf_image r /\ exists phi, tracks r o phi (step_rho op).
Proof. exact step_tracks_lemma. Qed.
Print Assumptions step_tracks.

(* ... and every finite sequence of them: the result tracks the ORIGINAL image; reference
   names are rewritten only by the renamed_reference steps of the program (run_rho) *)
Theorem program_tracks :
  forall ops o r, wf_image o -> run o ops = IOk r ->
  wf_image r /\ exists phi, tracks r o phi (run_rho ops).
Proof. exact program_tracks_lemma. Qed.
Print Assumptions program_tracks.

(* (7) the result's array shape always matches the input dimension of its coordinate map *)
Theorem shape_matches_domain :
  forall ops o r, wf_image o -> run o ops = IOk r ->
  length (ishape r) = cs_ndim (adom (icmap r)) /\ length (idata r) = prod (ishape r).
Proof.
  intros ops o r Hw H. destruct (program_tracks_lemma ops o r Hw H) as [[_ [A B]] _]. now split.
Qed.
Print Assumptions shape_matches_domain.

(* (8) no value is invented and none is duplicated *)
Theorem no_value_invented_or_duplicated :
  forall ops o r, wf_image o -> run o ops = IOk r ->
  (forall i, in_bounds (ishape r) i -> In (value r i) (idata o)) /\
  (NoDup (idata o) -> NoDup (idata r)).
Proof.
  intros ops o r Hw H. destruct (program_tracks_lemma ops o r Hw H) as [Hr [phi T]]. split.
  - intros i Hi. exact (tracks_value_in _ _ _ _ _ Hw T Hi).
  - exact (tracks_nodup _ _ _ _ Hr Hw T).
Qed.
Print Assumptions no_value_invented_or_duplicated.

(* (9) ImageList.from_image: EVERY element k (not only the first) is a well-formed image
   whose values sit, injectively, at indices of the original with the same value and the same
   named world coordinates - all of them without dropout, all but the dropped coordinate with
   dropout (tracks_sub: named point of the element ++ rest is a permutation of the original's).
   The element's coordmap is derived from THAT element's slice (model: drop_out_dim (icmap it)).
   fst dpair = None: no input axis of the slice is matched to the dropped output (otherwise
   drop_io_dim removes a data axis too and the Image constructor refuses the element). *)
Theorem image_list_item_tracks :
  forall img in_ax out_ax dropout k dpair tinyz r,
  wf_image img -> fst dpair = None ->
  image_list_item img in_ax out_ax dropout k dpair tinyz = IOk r ->
  wf_image r /\ exists phi, tracks_sub r img phi (fun s => s).
Proof. exact image_list_item_tracks_lemma. Qed.
Print Assumptions image_list_item_tracks.

(* ------------------------------------------------------------------ non-vacuity *)
Open Scope string_scope.
Definition demo_cmap : zaff :=
  Build_aff {| cnames := ["i"; "j"; "k"]; cname := "voxels"; cdt := 1 |}
            {| cnames := ["x"; "y"; "z"; "t"]; cname := "world"; cdt := 1 |}
            [[0; -2; 0; 5]; [3; 0; 1; 0]; [0; 0; 0; 7]; [0; 0; 4; -1]; [0; 0; 0; 1]]%Z.
Definition demo : image :=
  {| ishape := [2; 3; 4]; idata := map Z.of_nat (seq 100 24); icmap := demo_cmap |}.

Example demo_wf : wf_image demo.
Proof.
  split; [|split; reflexivity].
  assert (E : zmk_aff (adom demo_cmap) (arng demo_cmap) 1 (amat demo_cmap) = Ok demo_cmap) by (vm_compute; reflexivity).
  exact (proj2 (proj2 (proj2 (proj2 (proj2 (proj2 (mk_aff_ok Z 0%Z 1%Z Z.eqb Zeqb_spec _ _ _ _ _ E))))))).
Qed.

Definition demo_prog : list op :=
  [ OGetitem [SSlice {| sl_start := None; sl_stop := None; sl_step := Some (-1)%Z |}; SEllipsis;
              SSlice {| sl_start := Some 1%Z; sl_stop := None; sl_step := Some 2%Z |}];
    ORollimg (AName "k-slice") (AInt 0) [];
    ORenameRef [("t", "time")];
    OReorderRef (OInts [3; 0; 1; 2]);
    OGetitem [SInt (-1)%Z] ].

Example demo_runs :
  exists r, run demo demo_prog = IOk r /\ ishape r = [2; 3] /\ idata r = [115; 119; 123; 103; 107; 111]%Z /\
            in_names r = ["i"; "j"] /\ out_names r = ["time"; "x"; "y"; "z"] /\
            world r [1; 2] = Ok [11; 1; 3; 7]%Z /\ world demo [0; 2; 3] = Ok [1; 3; 7; 11]%Z /\
            value r [1; 2] = value demo [0; 2; 3].
Proof. eexists. split; [vm_compute; reflexivity|]. vm_compute. repeat split; reflexivity. Qed.

(* refusals are part of the model: a second Ellipsis, an index out of bounds, an empty slice *)
Example demo_refusals :
  getitem demo [SEllipsis; SEllipsis] = IErr IIndex /\ getitem demo [SInt 2%Z] = IErr IIndex /\
  getitem demo [SSlice {| sl_start := Some 1%Z; sl_stop := Some 1%Z; sl_step := None |}] = IErr IValue /\
  getitem demo [SNone] = IErr IValue.
Proof. vm_compute. repeat split; reflexivity. Qed.

(* a 2-in/3-out map: axis -1 is input axis 1 *)
Example demo_negative_axis_nonsquare :
  input_axis_index (Build_aff {| cnames := ["i"; "j"]; cname := ""; cdt := 1 |}
                              {| cnames := ["x"; "y"; "z"]; cname := ""; cdt := 1 |}
                              [[1; 0; 0]; [0; 1; 0]; [0; 0; 0]; [0; 0; 1]]%Z) (AInt (-1)%Z) [] = IOk 1%Z.
Proof. reflexivity. Qed.

(* list over k of the sheared demo image, dropping t: element 2 keeps x, y, z of ITS slice *)
Example demo_image_list_element :
  exists r, image_list_item demo (Some 2) (Some 3) true 2 (None, Some 3) 0%Z = IOk r /\
            ishape r = [2; 3] /\ out_names r = ["x"; "y"; "z"] /\
            world r [1; 2] = Ok [1; 5; 7]%Z /\ world demo [1; 2; 2] = Ok [1; 5; 7; 7]%Z /\
            value r [1; 2] = value demo [1; 2; 2].
Proof. eexists. split; [vm_compute; reflexivity|]. vm_compute. repeat split; reflexivity. Qed.

(* ------------------------------------------------------------------ ImageList.get_list_data (round 6) *)
(* An ImageList = the (shape, data) of its images IN LIST ORDER (after any re-ordering / replacement of entries).
   (A) every value at the list position of the image it belongs to: the result has shape
   img_shape[0:a] + (len(list),) + img_shape[a:] (a = the normalised axis) and its entry at
   (idx[0:a], k, idx[a:]) is the value at idx of the k-th image OF THE LIST, for every list and every axis. *)
Theorem get_list_data_entry :
  forall imgs axis rs rd, lwf imgs -> get_list_data imgs axis = IOk (rs, rd) ->
  exists a s0, norm_list_axis axis (S (length s0)) = Some a /\
    (forall im, In im imgs -> fst im = s0) /\
    rs = (firstn a s0 ++ length imgs :: skipn a s0)%list /\ length rd = prod rs /\
    forall k idx, k < length imgs -> in_bounds s0 idx ->
      in_bounds rs (firstn a idx ++ k :: skipn a idx)%list /\
      nth (ravel rs (firstn a idx ++ k :: skipn a idx)%list) rd 0%Z = nth (ravel s0 idx) (snd (nth k imgs ([], []))) 0%Z.
Proof. exact get_list_data_entry_lemma. Qed.
Print Assumptions get_list_data_entry.

(* (B) no value invented or duplicated by get_list_data: the flat positions of the result are in bijection with the
   pairs (list position k, index into image k) - every position holds the value of exactly one such pair *)
Theorem get_list_data_no_value_invented_or_duplicated :
  forall imgs axis rs rd, lwf imgs -> get_list_data imgs axis = IOk (rs, rd) ->
  exists a s0, norm_list_axis axis (S (length s0)) = Some a /\
    (forall j, j < length rd -> exists k idx, k < length imgs /\ in_bounds s0 idx /\
        j = ravel rs (firstn a idx ++ k :: skipn a idx)%list /\
        nth j rd 0%Z = nth (ravel s0 idx) (snd (nth k imgs ([], []))) 0%Z) /\
    (forall k idx k' idx', in_bounds s0 idx -> in_bounds s0 idx' -> k < length imgs -> k' < length imgs ->
        ravel rs (firstn a idx ++ k :: skipn a idx)%list = ravel rs (firstn a idx' ++ k' :: skipn a idx')%list ->
        k = k' /\ idx = idx').
Proof. exact get_list_data_bijection_lemma. Qed.
Print Assumptions get_list_data_no_value_invented_or_duplicated.

(* (C) exactly the refusals of the code: an empty list (self.list[0]), an axis outside [-out_dim, out_dim);
   every other call on images of one shape succeeds *)
Theorem get_list_data_refusals :
  forall imgs axis, lwf imgs ->
  (imgs = [] -> get_list_data imgs axis = IErr IIndex) /\
  (forall s0 d0 rest, imgs = (s0, d0) :: rest ->
     ((axis >= Z.of_nat (S (length s0)))%Z \/ (axis < - Z.of_nat (S (length s0)))%Z) ->
     get_list_data imgs axis = IErr IValue) /\
  (forall s0 d0 rest, imgs = (s0, d0) :: rest -> (forall im, In im imgs -> fst im = s0) ->
     (- Z.of_nat (S (length s0)) <= axis < Z.of_nat (S (length s0)))%Z ->
     exists r, get_list_data imgs axis = IOk r).
Proof. exact get_list_data_refusals_lemma. Qed.
Print Assumptions get_list_data_refusals.

(* non-vacuity: a REVERSED list of the three slices over the first axis of a 3x2 image, list dimension put last
   (axis = -1): entry (j, k) is the value of list image k (= original slice 2-k) at j *)
Example demo_get_list_data :
  get_list_data [([2], [50; 60]%Z); ([2], [30; 40]%Z); ([2], [10; 20]%Z)] (-1)%Z = IOk ([2; 3], [50; 30; 10; 60; 40; 20]%Z) /\
  get_list_data [([2], [50; 60]%Z); ([2], [30; 40]%Z); ([2], [10; 20]%Z)] 0%Z = IOk ([3; 2], [50; 60; 30; 40; 10; 20]%Z) /\
  get_list_data [([2], [50; 60]%Z); ([2], [30; 40]%Z)] 2%Z = IErr IValue /\
  get_list_data [([2], [50; 60]%Z); ([2], [30; 40]%Z)] (-3)%Z = IErr IValue /\
  get_list_data [] 0%Z = IErr IIndex.
Proof. vm_compute. repeat split; reflexivity. Qed.
