(* C02 - ImageList.get_list_data (nipy/core/image/image_list.py:121-172).  Executable definitions only.

   An ImageList is modelled by the list of (shape, flat row-major data) of its images, in LIST ORDER
   (self.list after any __getitem__ / __setitem__ re-ordering; the coordmaps play no role in get_list_data).

     img_shape = self.list[0].shape ; ilen = len(self.list) ; out_dim = len(img_shape) + 1
     axis >= out_dim or axis < -out_dim          -> ValueError
     v = np.empty((ilen,) + img_shape) ; v[i] = self.list[i].get_fdata()   (one by one, in list order)
     if axis < 0: axis += out_dim
     res = np.rollaxis(v, 0, axis + 1)           (list dimension moved to position axis)
     target_shape = img_shape[0:axis] + (ilen,) + img_shape[axis:]

   NumPy is an oracle: `v[i] = data` for equal shapes = concatenation of the flat data, np.rollaxis(v, 0, a+1) =
   gather along idx |-> idx[a] :: (idx without position a) (contracts sampled by the correspondence).
   Broadcasting of `v[i] = data` for images of different shapes is not modelled (refused here; the harness
   only builds such lists with shapes NumPy refuses as well). *)
From Coq Require Import List Arith Lia Bool ZArith.
From NV.Lib Require Import NdIndex Harness.
From NV.C02 Require Import Model.
Import ListNotations.

Fixpoint insert_at {A} (a : nat) (x : A) (l : list A) : list A :=
  match a, l with
  | O, _ => x :: l
  | S a', y :: l' => y :: insert_at a' x l'
  | S _, [] => [x]
  end.

Fixpoint remove_at {A} (a : nat) (l : list A) : list A :=
  match a, l with
  | O, _ :: l' => l'
  | S a', y :: l' => y :: remove_at a' l'
  | _, [] => []
  end.

(* the range test and the `axis += out_dim` of get_list_data *)
Definition norm_list_axis (axis : Z) (out_dim : nat) : option nat :=
  if ((axis >=? Z.of_nat out_dim) || (axis <? - Z.of_nat out_dim))%Z then None
  else Some (Z.to_nat (if (axis <? 0)%Z then (axis + Z.of_nat out_dim)%Z else axis)).

Definition limg := (list nat * list Z)%type.

(* index map of np.rollaxis(v, 0, a + 1): result index idx reads v[idx[a], idx without position a] *)
Definition roll_phi (a : nat) (idx : list nat) : list nat := nth a idx 0 :: remove_at a idx.

Definition get_list_data (imgs : list limg) (axis : Z) : ires limg :=
  match imgs with
  | [] => IErr IIndex                                   (* self.list[0] *)
  | (s0, _) :: _ =>
    match norm_list_axis axis (S (length s0)) with
    | None => IErr IValue
    | Some a =>
      if forallb (fun im => natlist_eqb (fst im) s0) imgs
      then let ilen := length imgs in
           let rshape := insert_at a ilen s0 in
           IOk (rshape, gather 0%Z rshape (roll_phi a) (ilen :: s0) (concat (map snd imgs)))
      else IErr IValue
    end
  end.

Definition limg_eqb (a b : limg) : bool := natlist_eqb (fst a) (fst b) && zlist_eqb (snd a) (snd b).

Definition list_data_agrees (imgs : list limg) (axis : Z) (expected : ires limg) : bool :=
  match get_list_data imgs axis, expected with
  | IOk x, IOk y => limg_eqb x y
  | IErr IIndex, IErr IIndex => true
  | IErr IValue, IErr IValue => true
  | _, _ => false
  end.
