(* C02 - the tracking relation, its composition, and the single-step lemmas for
   axis/reference reordering and renaming (on top of the C01 lemmas at Z). *)
From Coq Require Import String.
From Coq Require Import List Arith Lia Bool ZArith Permutation.
From NV.Lib Require Import RingMat SlotAlg NdIndex Harness.
From NV.C01 Require Import Model Exec Proofs.
From NV.C02 Require Import Model.
Import ListNotations.

Notation zWF := (WF Z 0%Z 1%Z).
Notation zhapply := (happly 0%Z 1%Z Z.add Z.mul).

Lemma Zeqb_spec : forall x y : Z, Z.eqb x y = true <-> x = y.
Proof. exact Z.eqb_eq. Qed.

(* ------------------------------------------------------------------ invariant *)
(* shape_matches_domain: the coordmap is well formed, the number of data axes is
   its input dimension, and the data array has prod(shape) entries *)
Definition wf_image (img : image) : Prop :=
  zWF (icmap img) /\ length (ishape img) = cs_ndim (adom (icmap img)) /\
  length (idata img) = prod (ishape img).

(* named world point: (name of the reference coordinate, value) pairs *)
Definition named (names : list string) (y : list Z) : list (string * Z) := combine names y.
Definition rename_pairs (rho : string -> string) (l : list (string * Z)) : list (string * Z) :=
  map (fun p => (rho (fst p), snd p)) l.

(* r tracks o along phi: every index of r is mapped injectively to an index of
   o carrying the same value at the same named world point (names rewritten by
   rho, the identity unless the reference was renamed) *)
Record tracks (r o : image) (phi : list nat -> list nat) (rho : string -> string) : Prop := {
  tr_bounds : forall i, in_bounds (ishape r) i -> in_bounds (ishape o) (phi i);
  tr_inj : forall i j, in_bounds (ishape r) i -> in_bounds (ishape r) j -> phi i = phi j -> i = j;
  tr_val : forall i, in_bounds (ishape r) i -> value r i = value o (phi i);
  tr_world : forall i, in_bounds (ishape r) i ->
    exists yo yr, world o (phi i) = Ok yo /\ world r i = Ok yr /\
      Permutation (rename_pairs rho (named (out_names o) yo)) (named (out_names r) yr)
}.

Lemma rename_pairs_id l : rename_pairs (fun s => s) l = l.
Proof.
  unfold rename_pairs. induction l as [|[a b] l IH]; simpl; [reflexivity|]. now rewrite IH.
Qed.

Lemma rename_pairs_comp f g l : rename_pairs f (rename_pairs g l) = rename_pairs (fun s => f (g s)) l.
Proof. unfold rename_pairs. rewrite map_map. reflexivity. Qed.

(* composition of injective index maps; renamings compose in the order of the operations *)
Theorem tracks_trans_lemma r m o phi1 phi2 rho1 rho2 :
  tracks r m phi1 rho1 -> tracks m o phi2 rho2 ->
  tracks r o (fun i => phi2 (phi1 i)) (fun s => rho1 (rho2 s)).
Proof.
  intros [B1 I1 V1 W1] [B2 I2 V2 W2]. constructor.
  - intros i Hi. apply B2, B1, Hi.
  - intros i j Hi Hj E. apply I1; [exact Hi|exact Hj|]. apply I2; [apply B1; exact Hi|apply B1; exact Hj|exact E].
  - intros i Hi. rewrite V1 by exact Hi. apply V2. now apply B1.
  - intros i Hi. destruct (W1 i Hi) as [ym [yr [Hm [Hr P1]]]].
    destruct (W2 (phi1 i) (B1 i Hi)) as [yo [ym' [Ho [Hm' P2]]]].
    rewrite Hm in Hm'. injection Hm' as <-.
    exists yo, yr. split; [exact Ho|]. split; [exact Hr|].
    eapply Permutation_trans; [|exact P1].
    rewrite <- rename_pairs_comp. unfold rename_pairs at 1 3. now apply Permutation_map.
Qed.

(* ------------------------------------------------------------------ small facts *)
Lemma lift_ok {A} (x : res A) a : lift x = IOk a -> x = Ok a.
Proof. destruct x as [b|[| |]]; simpl; intros H; inversion H; reflexivity. Qed.

Lemma mk_image_ok s d cm r :
  mk_image s d cm = IOk r ->
  ishape r = s /\ idata r = d /\ icmap r = cm /\ length s = cs_ndim (adom cm).
Proof.
  unfold mk_image. destruct (Nat.eqb (length s) (cs_ndim (adom cm))) eqn:E; [|discriminate].
  intros H. injection H as <-. apply Nat.eqb_eq in E. auto.
Qed.

Lemma world_ok o i :
  wf_image o -> in_bounds (ishape o) i ->
  world o i = Ok (zhapply (amat (icmap o)) (map Z.of_nat i)).
Proof.
  intros [Hwf [Hs Hd]] Hi. unfold world, zapply. apply (apply_ok Z 0%Z 1%Z Z.add Z.mul).
  rewrite map_length, (in_bounds_length _ _ Hi). exact Hs.
Qed.

Lemma tracks_refl o : wf_image o -> tracks o o (fun i => i) (fun s => s).
Proof.
  intros Hwo. constructor; auto.
  intros i Hi. eexists; eexists. split; [now apply world_ok|]. split; [now apply world_ok|].
  rewrite rename_pairs_id. apply Permutation_refl.
Qed.

Lemma combine_nth_seq {A B} (a : list A) (b : list B) n da db :
  length a = n -> length b = n ->
  combine a b = map (fun k => (nth k a da, nth k b db)) (seq 0 n).
Proof.
  intros Ha Hb. apply nth_ext with (d := (da, db)) (d' := (da, db)).
  - rewrite combine_length, map_length, seq_length. lia.
  - intros k Hk. rewrite combine_length in Hk.
    rewrite combine_nth by lia.
    rewrite (nth_map_in _ _ _ _ 0) by (rewrite seq_length; lia).
    rewrite seq_nth by lia. reflexivity.
Qed.

Lemma combine_map_map {A B C} (f : C -> A) (g : C -> B) l :
  combine (map f l) (map g l) = map (fun o => (f o, g o)) l.
Proof. induction l as [|x l IH]; simpl; [reflexivity|]. now rewrite IH. Qed.

Lemma combine_map_l {A B C} (f : A -> C) (a : list A) (b : list B) :
  combine (map f a) b = map (fun p => (f (fst p), snd p)) (combine a b).
Proof.
  revert b; induction a as [|x a IH]; intros [|y b]; simpl; try reflexivity. now rewrite IH.
Qed.

Lemma map_nth_seq_len {A} (l : list A) d n : length l = n -> map (fun i => nth i l d) (seq 0 n) = l.
Proof. intros <-. apply map_nth_seq_id. Qed.

(* ------------------------------------------------------------------ WF of C01 results *)
Lemma compose_WF affs c : Forall zWF affs -> zcompose affs = Ok c -> zWF c.
Proof.
  intros H E. exact (proj1 (compose_apply_gen Z 0%Z 1%Z Z.add Z.mul Z.sub Z.opp Z.eqb Zring_th Zeqb_spec affs c H E)).
Qed.

Ltac two_wf H1 H2 := apply Forall_cons; [exact H1|apply Forall_cons; [exact H2|apply Forall_nil]].

Lemma reordered_domain_WF a order b : zWF a -> zreordered_domain a order = Ok b -> zWF b.
Proof.
  intros Hwf H. unfold zreordered_domain, reordered_domain in H.
  destruct (is_perm (cs_ndim (adom a)) order); [|discriminate]. cbn [negb] in H.
  destruct (natl_eqb order (seq 0 (cs_ndim (adom a)))); [injection H as <-; exact Hwf|].
  unfold bind in H.
  destruct (mk_cs _ _ _) as [nd|e]; [|discriminate].
  destruct (mk_aff Z 0%Z 1%Z Z.eqb nd (adom a) _ _) as [A|e] eqn:HA; [|discriminate].
  destruct (mk_aff_ok Z 0%Z 1%Z Z.eqb Zeqb_spec _ _ _ _ _ HA) as [_ [_ [_ [_ [_ [_ HWA]]]]]].
  eapply compose_WF; [|exact H]. two_wf Hwf HWA.
Qed.

Lemma reordered_range_WF a order b : zWF a -> zreordered_range a order = Ok b -> zWF b.
Proof.
  intros Hwf H. unfold zreordered_range, reordered_range in H.
  destruct (is_perm (cs_ndim (arng a)) order); [|discriminate]. cbn [negb] in H.
  destruct (natl_eqb order (seq 0 (cs_ndim (arng a)))); [injection H as <-; exact Hwf|].
  unfold bind in H.
  destruct (mk_cs _ _ _) as [nr|e]; [|discriminate].
  destruct (mk_aff Z 0%Z 1%Z Z.eqb (arng a) nr _ _) as [A|e] eqn:HA; [|discriminate].
  destruct (mk_aff_ok Z 0%Z 1%Z Z.eqb Zeqb_spec _ _ _ _ _ HA) as [_ [_ [_ [_ [_ [_ HWA]]]]]].
  eapply compose_WF; [|exact H]. two_wf HWA Hwf.
Qed.

Lemma renamed_domain_WF a nn b : zWF a -> zrenamed_domain a nn = Ok b -> zWF b.
Proof.
  intros Hwf H. unfold zrenamed_domain, renamed_domain in H.
  destruct (forallb _ nn); [|discriminate]. cbn [negb] in H. unfold bind in H.
  destruct (mk_cs _ _ _) as [nd|e]; [|discriminate].
  destruct (mk_aff Z 0%Z 1%Z Z.eqb nd (adom a) _ _) as [A|e] eqn:HA; [|discriminate].
  destruct (mk_aff_ok Z 0%Z 1%Z Z.eqb Zeqb_spec _ _ _ _ _ HA) as [_ [_ [_ [_ [_ [_ HWA]]]]]].
  eapply compose_WF; [|exact H]. two_wf Hwf HWA.
Qed.

Lemma renamed_range_WF a nn b : zWF a -> zrenamed_range a nn = Ok b -> zWF b.
Proof.
  intros Hwf H. unfold zrenamed_range, renamed_range in H.
  destruct (forallb _ nn); [|discriminate]. cbn [negb] in H. unfold bind in H.
  destruct (mk_cs _ _ _) as [nr|e]; [|discriminate].
  destruct (mk_aff Z 0%Z 1%Z Z.eqb (arng a) nr _ _) as [A|e] eqn:HA; [|discriminate].
  destruct (mk_aff_ok Z 0%Z 1%Z Z.eqb Zeqb_spec _ _ _ _ _ HA) as [_ [_ [_ [_ [_ [_ HWA]]]]]].
  eapply compose_WF; [|exact H]. two_wf HWA Hwf.
Qed.

(* ------------------------------------------------------------------ reordered_axes *)
Theorem reordered_axes_ints_tracks o order r :
  wf_image o -> reordered_axes_ints o order = IOk r ->
  wf_image r /\ tracks r o (permute 0 (argsort order)) (fun s => s) /\
  ishape r = permute 0 order (ishape o) /\ Permutation order (seq 0 (length (ishape o))).
Proof.
  intros Hwo H. assert (Hwo' := Hwo). destruct Hwo' as [Hwf [Hs Hd]].
  unfold reordered_axes_ints, ibind in H.
  destruct (lift (zreordered_domain (icmap o) order)) as [cm|e] eqn:Hcm; [|discriminate].
  apply lift_ok in Hcm.
  destruct (mk_image_ok _ _ _ _ H) as [Es [Ed [Ec Hl]]].
  set (n := cs_ndim (adom (icmap o))) in *.
  assert (P : Permutation order (seq 0 n)).
  { exact (proj2 (proj2 (proj2 (reorder_domain_named Z 0%Z 1%Z Z.add Z.mul Z.sub Z.opp Z.eqb Zring_th Zeqb_spec
                                  _ _ _ (fun _ => 0%Z) Hwf Hcm)))). }
  destruct (perm_seq_facts _ _ P) as [Lo [ND [Hlt Hin]]].
  assert (Hwr : wf_image r).
  { unfold wf_image. rewrite Es, Ed, Ec. split; [eapply reordered_domain_WF; eauto|].
    split; [exact Hl|]. apply gather_length. }
  split; [exact Hwr|]. split; [|split; [exact Es|now rewrite Hs]].
  assert (Hlen : forall i, in_bounds (ishape r) i -> length i = n).
  { intros i Hi. rewrite (in_bounds_length _ _ Hi), Es, permute_length. exact Lo. }
  constructor.
  - intros i Hi. rewrite Es in Hi. now apply (in_bounds_permute_argsort order n).
  - intros i j Hi Hj E.
    rewrite <- (permute_argsort_inv 0 order n i P (Hlen i Hi)).
    rewrite <- (permute_argsort_inv 0 order n j P (Hlen j Hj)). now rewrite E.
  - intros i Hi. unfold value. rewrite Ed, Es. rewrite Es in Hi. now rewrite nth_gather.
  - intros i Hi.
    set (phi := permute 0 (argsort order)).
    assert (Hb : in_bounds (ishape o) (phi i)) by (rewrite Es in Hi; now apply (in_bounds_permute_argsort order n)).
    assert (Lp : length (phi i) = n) by (rewrite (in_bounds_length _ _ Hb); exact Hs).
    exists (zhapply (amat (icmap o)) (map Z.of_nat (phi i))).
    destruct (reorder_domain_named Z 0%Z 1%Z Z.add Z.mul Z.sub Z.opp Z.eqb Zring_th Zeqb_spec
                _ _ _ (fun m => Z.of_nat (nth m (phi i) 0)) Hwf Hcm) as [Happ [_ [Hrn _]]].
    fold n in Happ.
    assert (E1 : map (fun m => Z.of_nat (nth m (phi i) 0)) order = map Z.of_nat i).
    { rewrite <- (map_map (fun m => nth m (phi i) 0) Z.of_nat). f_equal.
      change (map (fun m => nth m (phi i) 0) order) with (permute 0 order (phi i)).
      apply (permute_argsort_inv 0 order n i P (Hlen i Hi)). }
    assert (E2 : map (fun m => Z.of_nat (nth m (phi i) 0)) (seq 0 n) = map Z.of_nat (phi i)).
    { rewrite <- (map_map (fun m => nth m (phi i) 0) Z.of_nat). f_equal. now apply map_nth_seq_len. }
    rewrite E1, E2 in Happ.
    exists (zhapply (amat (icmap o)) (map Z.of_nat (phi i))).
    split; [now apply world_ok|]. split.
    + unfold world. rewrite Ec. unfold zapply. rewrite Happ. apply (world_ok o (phi i) Hwo Hb).
    + rewrite rename_pairs_id. unfold out_names. rewrite Ec, Hrn. apply Permutation_refl.
Qed.

(* ------------------------------------------------------------------ reordered_reference *)
Theorem reordered_reference_ints_tracks o order r :
  wf_image o -> reordered_reference_ints o order = IOk r ->
  wf_image r /\ tracks r o (fun i => i) (fun s => s) /\ ishape r = ishape o /\ idata r = idata o.
Proof.
  intros Hwo H. assert (Hwo' := Hwo). destruct Hwo' as [Hwf [Hs Hd]].
  unfold reordered_reference_ints, ibind in H.
  destruct (lift (zreordered_range (icmap o) order)) as [cm|e] eqn:Hcm; [|discriminate].
  apply lift_ok in Hcm.
  destruct (mk_image_ok _ _ _ _ H) as [Es [Ed [Ec Hl]]].
  assert (Hwr : wf_image r).
  { unfold wf_image. rewrite Es, Ed, Ec. split; [eapply reordered_range_WF; eauto|]. split; [exact Hl|exact Hd]. }
  split; [exact Hwr|]. split; [|split; [exact Es|exact Ed]].
  constructor.
  - intros i Hi. now rewrite Es in Hi.
  - auto.
  - intros i Hi. unfold value. now rewrite Es, Ed.
  - intros i Hi. rewrite Es in Hi.
    assert (Lx : length (map Z.of_nat i) = cs_ndim (adom (icmap o))).
    { rewrite map_length, (in_bounds_length _ _ Hi). exact Hs. }
    destruct (reorder_range_named Z 0%Z 1%Z Z.add Z.mul Z.sub Z.opp Z.eqb Zring_th Zeqb_spec
                _ _ _ _ Hwf Hcm Lx) as [Happ [Hrn [_ P]]].
    set (y := zhapply (amat (icmap o)) (map Z.of_nat i)) in *.
    set (nout := cs_ndim (arng (icmap o))) in *.
    assert (Ly : length y = nout).
    { destruct Hwf as [Hm _]. eapply happly_length; exact Hm. }
    exists y, (map (fun k => nth k y 0%Z) order).
    split; [now apply world_ok|]. split; [unfold world; rewrite Ec; exact Happ|].
    rewrite rename_pairs_id. unfold named, out_names. rewrite Ec, Hrn.
    rewrite combine_map_map.
    rewrite (combine_nth_seq (cnames (arng (icmap o))) y nout EmptyString 0%Z) by (auto; reflexivity).
    apply Permutation_map. now apply Permutation_sym.
Qed.

(* ------------------------------------------------------------------ renaming *)
Theorem renamed_axes_tracks o nn r :
  wf_image o -> renamed_axes o nn = IOk r ->
  wf_image r /\ tracks r o (fun i => i) (fun s => s) /\ ishape r = ishape o /\ idata r = idata o.
Proof.
  intros Hwo H. assert (Hwo' := Hwo). destruct Hwo' as [Hwf [Hs Hd]].
  unfold renamed_axes, ibind in H.
  destruct (lift (zrenamed_domain (icmap o) nn)) as [cm|e] eqn:Hcm; [|discriminate].
  apply lift_ok in Hcm.
  destruct (mk_image_ok _ _ _ _ H) as [Es [Ed [Ec Hl]]].
  assert (Hwr : wf_image r).
  { unfold wf_image. rewrite Es, Ed, Ec. split; [eapply renamed_domain_WF; eauto|]. split; [exact Hl|exact Hd]. }
  split; [exact Hwr|]. split; [|split; [exact Es|exact Ed]].
  constructor.
  - intros i Hi. now rewrite Es in Hi.
  - auto.
  - intros i Hi. unfold value. now rewrite Es, Ed.
  - intros i Hi. rewrite Es in Hi.
    assert (Lx : length (map Z.of_nat i) = cs_ndim (adom (icmap o))).
    { rewrite map_length, (in_bounds_length _ _ Hi). exact Hs. }
    destruct (rename_domain_relabels Z 0%Z 1%Z Z.add Z.mul Z.sub Z.opp Z.eqb Zring_th Zeqb_spec
                _ _ _ _ Hwf Hcm Lx) as [Happ [_ Hrn]].
    exists (zhapply (amat (icmap o)) (map Z.of_nat i)), (zhapply (amat (icmap o)) (map Z.of_nat i)).
    split; [now apply world_ok|]. split.
    + unfold world. rewrite Ec. unfold zapply. rewrite Happ. now apply world_ok.
    + rewrite rename_pairs_id. unfold out_names. rewrite Ec, Hrn. apply Permutation_refl.
Qed.

Theorem renamed_reference_tracks o nn r :
  wf_image o -> renamed_reference o nn = IOk r ->
  wf_image r /\ tracks r o (fun i => i) (rename_fun nn) /\ ishape r = ishape o /\ idata r = idata o /\
  out_names r = map (rename_fun nn) (out_names o).
Proof.
  intros Hwo H. assert (Hwo' := Hwo). destruct Hwo' as [Hwf [Hs Hd]].
  unfold renamed_reference, ibind in H.
  destruct (lift (zrenamed_range (icmap o) nn)) as [cm|e] eqn:Hcm; [|discriminate].
  apply lift_ok in Hcm.
  destruct (mk_image_ok _ _ _ _ H) as [Es [Ed [Ec Hl]]].
  assert (Hwr : wf_image r).
  { unfold wf_image. rewrite Es, Ed, Ec. split; [eapply renamed_range_WF; eauto|]. split; [exact Hl|exact Hd]. }
  assert (Hnames : out_names r = map (rename_fun nn) (out_names o)).
  { destruct (rename_range_relabels Z 0%Z 1%Z Z.add Z.mul Z.sub Z.opp Z.eqb Zring_th Zeqb_spec
                (icmap o) nn cm (repeat 0%Z (cs_ndim (adom (icmap o)))) Hwf Hcm (repeat_length _ _)) as [_ [Hrn _]].
    unfold out_names. rewrite Ec, Hrn. reflexivity. }
  split; [exact Hwr|]. split; [|split; [exact Es|split; [exact Ed|exact Hnames]]].
  constructor.
  - intros i Hi. now rewrite Es in Hi.
  - auto.
  - intros i Hi. unfold value. now rewrite Es, Ed.
  - intros i Hi. rewrite Es in Hi.
    assert (Lx : length (map Z.of_nat i) = cs_ndim (adom (icmap o))).
    { rewrite map_length, (in_bounds_length _ _ Hi). exact Hs. }
    destruct (rename_range_relabels Z 0%Z 1%Z Z.add Z.mul Z.sub Z.opp Z.eqb Zring_th Zeqb_spec
                _ _ _ _ Hwf Hcm Lx) as [Happ [Hrn _]].
    exists (zhapply (amat (icmap o)) (map Z.of_nat i)), (zhapply (amat (icmap o)) (map Z.of_nat i)).
    split; [now apply world_ok|]. split.
    + unfold world. rewrite Ec. unfold zapply. rewrite Happ. now apply world_ok.
    + unfold named. rewrite Hnames. unfold rename_pairs. rewrite <- combine_map_l. apply Permutation_refl.
Qed.
