(* C02 - Image manipulations of nipy/core/image/image.py, array_coords.py and
   image_spaces.py on a model Image = (shape, flat row-major data, C01 affine
   coordinate map over Z).  Executable definitions only.

   NumPy is an oracle: basic indexing and np.transpose are modelled by
   `gather` along explicit index maps (contract sampled by the correspondence).
   nibabel.io_orientation / spaces.xyz_affine / spaces.xyz_order are oracles
   whose outputs are arguments of the model operations. *)
From Coq Require Import String.
From Coq Require Import List Arith Lia Bool ZArith Permutation.
From NV.Lib Require Import RingMat SlotAlg NdIndex Harness.
From NV.C01 Require Import Model Exec.
Import ListNotations.

(* ------------------------------------------------------------------ errors *)
Inductive ierr := IIndex | IValue | IAxis | ICoordSys | ISpace.
Inductive ires (A : Type) := IOk (a : A) | IErr (e : ierr).
Arguments IOk {A} a.
Arguments IErr {A} e.
Definition ibind {A B} (r : ires A) (f : A -> ires B) : ires B :=
  match r with IOk a => f a | IErr e => IErr e end.
Definition lift {A} (r : res A) : ires A :=
  match r with
  | Ok a => IOk a
  | Err EValue => IErr IValue
  | Err EAxis => IErr IAxis
  | Err ECoordSys => IErr ICoordSys
  end.

(* ------------------------------------------------------------------ images *)
Record image := { ishape : list nat; idata : list Z; icmap : zaff }.

(* Image.__init__ : number of data axes must equal the coordmap's input dimension *)
Definition mk_image (shape : list nat) (data : list Z) (cm : zaff) : ires image :=
  if Nat.eqb (length shape) (cs_ndim (adom cm))
  then IOk {| ishape := shape; idata := data; icmap := cm |}
  else IErr IValue.

Definition in_names (img : image) := cnames (adom (icmap img)).
Definition out_names (img : image) := cnames (arng (icmap img)).

(* ------------------------------------------------------------------ __getitem__ *)
Inductive slicer := SInt (i : Z) | SSlice (s : pyslice) | SEllipsis | SNone.
(* per axis, after np.arange(n)[slicer]: dropped (integer) or kept (start, step, length) *)
Inductive axspec := AxDrop (start : Z) | AxKeep (start step : Z) (len : nat).

Definition is_ell (s : slicer) : bool := match s with SEllipsis => true | _ => false end.
Definition is_none (s : slicer) : bool := match s with SNone => true | _ => false end.
Definition count_ell (sl : list slicer) : nat := length (filter is_ell sl).
Definition count_non_ell (sl : list slicer) : nat := length (filter (fun s => negb (is_ell s)) sl).

(* slicers[:ellipsis_start], slicers[ellipsis_start+1:] *)
Fixpoint split_ell (sl : list slicer) : option (list slicer * list slicer) :=
  match sl with
  | [] => None
  | SEllipsis :: r => Some ([], r)
  | x :: r => match split_ell r with Some (b, a) => Some (x :: b, a) | None => None end
  end.

(* ArrayCoordMap.__getitem__: n_ellipses = len(shape) - ellipsis_start - len(inds_after_ellipsis) *)
Definition expand_ellipsis (ndim : nat) (sl : list slicer) : list slicer :=
  match split_ell sl with
  | None => sl
  | Some (b, a) => b ++ repeat (SSlice full_slice) (ndim - length b - length a) ++ a
  end.

(* one iteration of the loop in _slice *)
Definition axis_spec (n : nat) (s : slicer) : ires axspec :=
  match s with
  | SInt i => match norm_index i n with Some j => IOk (AxDrop j) | None => IErr IIndex end
  | SSlice sl =>
    match slice_indices sl (Z.of_nat n) with
    | None => IErr IValue                                   (* slice step cannot be zero *)
    | Some (start, stop, step) =>
      match Z.to_nat (slice_len start stop step) with
      | O => IErr IValue                                    (* empty slice for dimension *)
      | S O => IOk (AxKeep start 0 1)                       (* length 1: step = 0., kept *)
      | len => IOk (AxKeep start step len)
      end
    end
  | _ => IErr IValue
  end.

(* the loop over enumerate(slices), slices padded with slice(None) when too short *)
Fixpoint axis_specs (shape : list nat) (sl : list slicer) : ires (list axspec) :=
  match shape, sl with
  | [], [] => IOk []
  | [], _ :: _ => IErr IIndex
  | n :: shape', [] =>
    ibind (axis_spec n (SSlice full_slice)) (fun a => ibind (axis_specs shape' []) (fun r => IOk (a :: r)))
  | n :: shape', s :: sl' =>
    ibind (axis_spec n s) (fun a => ibind (axis_specs shape' sl') (fun r => IOk (a :: r)))
  end.

(* data[slice_object] comes first (NumPy: IndexError for a second Ellipsis, too
   many indices, integer out of bounds), then ArrayCoordMap's own checks *)
Definition np_then_slice (shape : list nat) (sl : list slicer) : ires (list axspec) :=
  if Nat.ltb 1 (count_ell sl) then IErr IIndex
  else if Nat.ltb (length shape) (count_non_ell sl) then IErr IIndex
  else axis_specs shape (expand_ellipsis (length shape) sl).

Definition norm_slicers (shape : list nat) (sl : list slicer) : ires (list axspec) :=
  if existsb is_none sl
  then ibind (np_then_slice shape (filter (fun s => negb (is_none s)) sl)) (fun _ => IErr IValue)
  else np_then_slice shape sl.

Definition kept_lens (specs : list axspec) : list nat :=
  flat_map (fun a => match a with AxKeep _ _ l => [l] | AxDrop _ => [] end) specs.

(* result index -> original index *)
Fixpoint slice_phi (specs : list axspec) (i : list nat) : list nat :=
  match specs with
  | [] => []
  | AxDrop s :: r => Z.to_nat s :: slice_phi r i
  | AxKeep s st _ :: r =>
    match i with
    | k :: i' => Z.to_nat (s + Z.of_nat k * st)%Z :: slice_phi r i'
    | [] => Z.to_nat s :: slice_phi r []
    end
  end.

(* rows of A in _slice: column j of A is column keep_in_output[j] of the product map *)
Fixpoint slice_rows (specs : list axspec) (before after : nat) : list (list Z) :=
  match specs with
  | [] => []
  | AxDrop s :: r => (repeat 0%Z (before + after) ++ [s]) :: slice_rows r before after
  | AxKeep s st _ :: r =>
    (repeat 0%Z before ++ [st] ++ repeat 0%Z (after - 1) ++ [s]) :: slice_rows r (S before) (after - 1)
  end.
Definition slice_mat (specs : list axspec) : list (list Z) :=
  let k := length (kept_lens specs) in slice_rows specs 0 k ++ [bottom_row 0%Z 1%Z k].

Definition new_name (a : axspec) (nm : string) : string :=
  match a with
  | AxKeep _ st _ => if (1 <? st)%Z then (nm ++ "-slice")%string else nm
  | AxDrop _ => nm
  end.
Fixpoint all_new_names (specs : list axspec) (names : list string) : list string :=
  match specs, names with
  | a :: r, nm :: ns => new_name a nm :: all_new_names r ns
  | _, _ => []
  end.
Fixpoint kept_new_names (specs : list axspec) (names : list string) : list string :=
  match specs, names with
  | AxDrop _ :: r, _ :: ns => kept_new_names r ns
  | a :: r, nm :: ns => new_name a nm :: kept_new_names r ns
  | _, _ => []
  end.

(* _slice: product of the 1-d maps (its domain names must be distinct), column
   selection into A, AffineTransform(function_domain, coordmap.function_domain, A), compose *)
Definition getitem_cmap (cm : zaff) (specs : list axspec) : res zaff :=
  let dom := adom cm in
  bind (mk_cs (all_new_names specs (cnames dom)) "product" (cdt dom)) (fun _ =>
  bind (mk_cs (kept_new_names specs (cnames dom)) "input-slice" (cdt dom)) (fun d =>
  bind (zmk_aff d dom (cdt dom) (slice_mat specs)) (fun S =>
  zcompose [cm; S]))).

Definition getitem_specs (img : image) (specs : list axspec) : ires image :=
  ibind (lift (getitem_cmap (icmap img) specs)) (fun cm =>
  let s' := kept_lens specs in
  mk_image s' (gather 0%Z s' (slice_phi specs) (ishape img) (idata img)) cm).

(* Image.__getitem__ (a 0-d result is returned by nipy as a bare array: the
   harness compares its value with the model's 0-d image) *)
Definition getitem (img : image) (sl : list slicer) : ires image :=
  ibind (norm_slicers (ishape img) sl) (getitem_specs img).

(* ------------------------------------------------------------------ axis / reference reordering *)
Inductive order_arg := ONone | OInts (l : list nat) | ONames (l : list string).

Definition resolve_order (names : list string) (ndim : nat) (o : order_arg) : res (list nat) :=
  match o with
  | ONone => Ok (rev (seq 0 ndim))              (* list(range(self.ndim))[::-1] *)
  | OInts l => Ok l
  | ONames l => resolve_names names l           (* [cs.index(s) for s in order] *)
  end.

(* reordered_domain(order), then np.transpose(data, order): the same `order` for both *)
Definition reordered_axes_ints (img : image) (order : list nat) : ires image :=
  ibind (lift (zreordered_domain (icmap img) order)) (fun cm =>
  let s' := permute 0 order (ishape img) in
  mk_image s' (gather 0%Z s' (permute 0 (argsort order)) (ishape img) (idata img)) cm).

Definition reordered_axes (img : image) (o : order_arg) : ires image :=
  ibind (lift (resolve_order (in_names img) (length (ishape img)) o)) (reordered_axes_ints img).

Definition reordered_reference_ints (img : image) (order : list nat) : ires image :=
  ibind (lift (zreordered_range (icmap img) order)) (fun cm =>
  mk_image (ishape img) (idata img) cm).

(* note: the default order uses self.ndim (number of data axes) *)
Definition reordered_reference (img : image) (o : order_arg) : ires image :=
  ibind (lift (resolve_order (out_names img) (length (ishape img)) o)) (reordered_reference_ints img).

Definition renamed_axes (img : image) (nn : list (string * string)) : ires image :=
  ibind (lift (zrenamed_domain (icmap img) nn)) (fun cm => mk_image (ishape img) (idata img) cm).
Definition renamed_reference (img : image) (nn : list (string * string)) : ires image :=
  ibind (lift (zrenamed_range (icmap img) nn)) (fun cm => mk_image (ishape img) (idata img) cm).

(* ------------------------------------------------------------------ axis identifiers *)
Inductive axid := AInt (z : Z) | AName (s : string).

(* axmap(..., 'out2in'): ornts.index(o) if o in ornts else None; `ornts` is the
   first column of nibabel.io_orientation(_fix0(affine)) (oracle) *)
Fixpoint out2in (ornts : list (option nat)) (o : nat) : option nat :=
  match ornts with
  | [] => None
  | Some v :: r => if Nat.eqb v o then Some 0 else option_map S (out2in r o)
  | None :: r => option_map S (out2in r o)
  end.

(* input_axis_index: negative integers count from the number of INPUT axes *)
Definition input_axis_index (cm : zaff) (a : axid) (ornts : list (option nat)) : ires Z :=
  let inn := cnames (adom cm) in
  let outn := cnames (arng cm) in
  match a with
  | AInt z => IOk (if (z <? 0)%Z then (Z.of_nat (length inn) + z)%Z else z)
  | AName s =>
    match str_index s inn, str_index s outn with
    | None, None => IErr IAxis
    | Some i, None => IOk (Z.of_nat i)
    | Some i, Some o =>
      if option_eqb Nat.eqb (out2in ornts o) (Some i) then IOk (Z.of_nat i) else IErr IAxis
    | None, Some o =>
      match out2in ornts o with Some i => IOk (Z.of_nat i) | None => IErr IAxis end
    end
  end.

(* list.insert(idx, x) for any integer idx *)
Definition py_insert {A} (l : list A) (idx : Z) (x : A) : list A :=
  let n := Z.of_nat (length l) in
  let j := Z.to_nat (if (idx <? 0)%Z then Z.max (idx + n) 0 else Z.min idx n) in
  firstn j l ++ x :: skipn j l.

(* order = range(ndim); order.remove(axis); if axis < start: start -= 1; order.insert(start, axis) *)
Definition rollimg_order (ndim : nat) (axis start : Z) : ires (list nat) :=
  if ((0 <=? axis) && (axis <? Z.of_nat ndim))%Z then
    let a := Z.to_nat axis in
    let rest := filter (fun k => negb (Nat.eqb k a)) (seq 0 ndim) in
    let start' := if (axis <? start)%Z then (start - 1)%Z else start in
    IOk (py_insert rest start' a)
  else IErr IValue.

Definition rollimg (img : image) (axis start : axid) (ornts : list (option nat)) : ires image :=
  ibind (input_axis_index (icmap img) axis ornts) (fun a =>
  ibind (input_axis_index (icmap img) start ornts) (fun s =>
  ibind (rollimg_order (length (ishape img)) a s) (fun order =>
  reordered_axes_ints img order))).

(* deprecated rollaxis(img, axis, inverse) *)
Definition opt_idx (o : option nat) : Z := match o with Some i => Z.of_nat i | None => (-1)%Z end.
Definition rollaxis (img : image) (axis : axid) (inverse : bool) : ires image :=
  let ndim := length (ishape img) in
  let both order := ibind (reordered_axes_ints img order) (fun r => reordered_reference_ints r order) in
  let axis := match axis with AInt z => AInt (if (z <? 0)%Z then Z.of_nat ndim + z else z)%Z | a => a end in
  if inverse then
    match axis with
    | AName _ => IErr IValue
    | AInt z => both (py_insert (seq 1 (ndim - 1)) z 0)
    end
  else
    let resolved : ires Z :=
      match axis with
      | AInt z => if ((0 <=? z) && (z <? Z.of_nat (cs_ndim (adom (icmap img)))))%Z then IOk z else IErr IValue
      | AName s =>
        let i := opt_idx (str_index s (in_names img)) in
        let o := opt_idx (str_index s (out_names img)) in
        if ((i <? 0) && (o <? 0))%Z then IErr IValue
        else if ((0 <? i) && (0 <? o) && negb (i =? o))%Z then IErr IValue
        else IOk (if (0 <=? i)%Z then i else o)
      end in
    ibind resolved (fun z =>
    if ((0 <=? z) && (z <? Z.of_nat ndim))%Z then
      let a := Z.to_nat z in
      both (a :: filter (fun k => negb (Nat.eqb k a)) (seq 0 ndim))
    else IErr IValue).

(* k-th item of iter_axis(img, axis): rollimg(img, axis)[k] *)
Definition iter_axis_item (img : image) (axis : axid) (ornts : list (option nat)) (k : nat) : ires image :=
  ibind (rollimg img axis (AInt 0) ornts) (fun r => getitem r [SInt (Z.of_nat k)]).

Definition synchronized_order (img : image) (tgt_axes tgt_ref : list string) (axes reference : bool) : ires image :=
  ibind (if axes then reordered_axes img (ONames tgt_axes) else IOk img) (fun r =>
  if reference then reordered_reference r (ONames tgt_ref) else IOk r).

(* np.argsort of the orientation column with nan -> inf (stable for these sizes) *)
Fixpoint positions_of (v : option nat) (l : list (option nat)) (k : nat) : list nat :=
  match l with
  | [] => []
  | x :: r => (if option_eqb Nat.eqb x v then [k] else []) ++ positions_of v r (S k)
  end.
Definition argsort_ornt (ornts : list (option nat)) (nout : nat) : list nat :=
  flat_map (fun v => positions_of (Some v) ornts 0) (seq 0 nout) ++ positions_of None ornts 0.

(* as_xyz_image; oracles: affable = "xyz_affine(img) succeeded", order = xyz_order(range)
   (None: AxesError), ornts = io_orientation of the reordered map, affable2 = final xyz_affine *)
Definition as_xyz_image (img : image) (affable : bool) (order : option (list nat))
           (ornts : list (option nat)) (affable2 : bool) : ires image :=
  if affable then IOk img else
  match order with
  | None => IErr ISpace
  | Some order =>
    ibind (reordered_reference_ints img order) (fun reo =>
    if negb (forallb (fun v => existsb (fun x => option_eqb Nat.eqb x (Some v)) ornts) [0; 1; 2]) then IErr ISpace
    else
      ibind (reordered_axes_ints reo (argsort_ornt ornts (cs_ndim (arng (icmap reo))))) (fun r =>
      if affable2 then IOk r else IErr ISpace))
  end.

(* ------------------------------------------------------------------ programs *)
Inductive op :=
| OGetitem (sl : list slicer)
| OReorderAxes (o : order_arg)
| OReorderRef (o : order_arg)
| ORenameAxes (nn : list (string * string))
| ORenameRef (nn : list (string * string))
| ORollimg (axis start : axid) (ornts : list (option nat))
| ORollaxis (axis : axid) (inverse : bool)
| OIterAxis (axis : axid) (ornts : list (option nat)) (k : nat)
| OSync (tgt_axes tgt_ref : list string) (axes reference : bool)
| OAsXyz (affable : bool) (order : option (list nat)) (ornts : list (option nat)) (affable2 : bool).

Definition step (img : image) (o : op) : ires image :=
  match o with
  | OGetitem sl => getitem img sl
  | OReorderAxes o => reordered_axes img o
  | OReorderRef o => reordered_reference img o
  | ORenameAxes nn => renamed_axes img nn
  | ORenameRef nn => renamed_reference img nn
  | ORollimg a s ornts => rollimg img a s ornts
  | ORollaxis a inv => rollaxis img a inv
  | OIterAxis a ornts k => iter_axis_item img a ornts k
  | OSync ta tr ax rf => synchronized_order img ta tr ax rf
  | OAsXyz af order ornts af2 => as_xyz_image img af order ornts af2
  end.

Fixpoint run (img : image) (ops : list op) : ires image :=
  match ops with
  | [] => IOk img
  | o :: rest => ibind (step img o) (fun r => run r rest)
  end.

(* how the names of the reference coordinates are rewritten by an operation *)
Definition rename_fun (nn : list (string * string)) (s : string) : string :=
  match assoc s nn with Some v => v | None => s end.
Definition step_rho (o : op) : string -> string :=
  match o with ORenameRef nn => rename_fun nn | _ => fun s => s end.
Fixpoint run_rho (ops : list op) : string -> string :=
  match ops with
  | [] => fun s => s
  | o :: rest => fun s => run_rho rest (step_rho o s)
  end.

(* ------------------------------------------------------------------ observation *)
Definition world (img : image) (i : list nat) : res (list Z) := zapply (icmap img) (map Z.of_nat i).
Definition value (img : image) (i : list nat) : Z := nth (ravel (ishape img) i) (idata img) 0%Z.

(* ------------------------------------------------------------------ harness comparison *)
Definition image_eqb (a b : image) : bool :=
  natlist_eqb (ishape a) (ishape b) && zlist_eqb (idata a) (idata b) && aff_eqb (icmap a) (icmap b).
Definition ierr_eqb (a b : ierr) : bool :=
  match a, b with
  | IIndex, IIndex | IValue, IValue | IAxis, IAxis | ICoordSys, ICoordSys | ISpace, ISpace => true
  | _, _ => false
  end.
Definition ires_eqb (a b : ires image) : bool :=
  match a, b with
  | IOk x, IOk y => image_eqb x y
  | IErr e, IErr f => ierr_eqb e f
  | _, _ => false
  end.
(* results of every prefix of the program, stopping after the first error *)
Fixpoint run_trace (img : image) (ops : list op) : list (ires image) :=
  match ops with
  | [] => []
  | o :: rest =>
    let r := step img o in
    r :: match r with IOk x => run_trace x rest | IErr _ => [] end
  end.
Definition trace_agrees (img : image) (ops : list op) (expected : list (ires image)) : bool :=
  list_eqb ires_eqb (run_trace img ops) expected.
Definition step_agrees (img : image) (o : op) (expected : ires image) : bool :=
  ires_eqb (step img o) expected.
Definition slice_select_agrees (s : pyslice) (n : nat) (expected : option (list Z)) : bool :=
  option_eqb zlist_eqb (slice_select s n) expected.
Definition input_axis_agrees (cm : zaff) (a : axid) (ornts : list (option nat)) (expected : option Z) : bool :=
  match input_axis_index cm a ornts, expected with
  | IOk z, Some e => Z.eqb z e
  | IErr IAxis, None => true
  | _, _ => false
  end.
(* a 0-d result (nipy returns the bare value) *)
Definition scalar_agrees (img : image) (o : op) (v : Z) : bool :=
  match step img o with
  | IOk r => natlist_eqb (ishape r) [] && zlist_eqb (idata r) [v]
  | IErr _ => false
  end.

(* ------------------------------------------------------------------ ImageList.from_image *)
(* drop_io_dim(slice.coordmap, out_ax_name); dpair = io_axis_indices(slice.coordmap, out_ax_name)
   (oracle, recorded from the running call); list.pop raises for an index out of range *)
(* orth_axes(in_ax, out_ax, affine, allow_zero=True, tol=TINY) as the code has it: an entry counts as zero
   when abs(entry) <= TINY - an ABSOLUTE tolerance on a dimensional quantity.  tinyz = floor(TINY * 2^k) for
   the power-of-two scale k at which the harness hands affines to the model (0 for integer affines, where the
   test is the exact one). *)
Definition small_entry (tinyz x : Z) : bool := (Z.abs x <=? tinyz)%Z.
Definition orth_axes_tol (i o : nat) (M : list (list Z)) (tinyz : Z) : bool :=
  let L := map (fun row => removelast row) (removelast M) in
  let rowo := nth o L [] in
  forallb (fun jc => Nat.eqb (fst jc) i || small_entry tinyz (snd jc)) (combine (seq 0 (length rowo)) rowo) &&
  forallb (fun kr => Nat.eqb (fst kr) o || small_entry tinyz (nth i (snd kr) 0%Z)) (combine (seq 0 (length L)) L).

Definition drop_out_dim (cm : zaff) (dpair : option nat * option nat) (tinyz : Z) : res zaff :=
  match fst dpair, snd dpair with
  | None, Some o => if Nat.ltb o (cs_ndim (arng cm)) then zdrop_io_dim cm None (Some o) true else Err EValue
  | None, None => zdrop_io_dim cm None None true
  | Some i, None => zdrop_io_dim cm (Some i) None true
  | Some i, Some o =>
    if negb (Nat.ltb o (cs_ndim (arng cm))) then Err EValue
    else if negb (orth_axes_tol i o (amat cm) tinyz) then Err EAxis
    else bind (zdrop_io_dim cm None (Some o) true) (fun c1 => zdrop_io_dim c1 (Some i) None true)
  end.

(* element k of ImageList.from_image(image, axis, dropout); (in_ax, out_ax) =
   io_axis_indices(image.coordmap, axis) (oracle).  The element is the k-th item of
   iter_axis(image, in_ax); with dropout its coordmap is drop_io_dim of THAT item's coordmap *)
Definition image_list_item (img : image) (in_ax out_ax : option nat) (dropout : bool) (k : nat)
           (dpair : option nat * option nat) (tinyz : Z) : ires image :=
  match in_ax with
  | None => IErr IAxis
  | Some a =>
    ibind (iter_axis_item img (AInt (Z.of_nat a)) [] k) (fun it =>
    match (if dropout then out_ax else None) with
    | None => IOk it
    | Some _ => ibind (lift (drop_out_dim (icmap it) dpair tinyz)) (fun cm => mk_image (ishape it) (idata it) cm)
    end)
  end.

Definition list_item_agrees (img : image) (in_ax out_ax : option nat) (dropout : bool) (k : nat)
           (dpair : option nat * option nat) (tinyz : Z) (expected : ires image) : bool :=
  ires_eqb (image_list_item img in_ax out_ax dropout k dpair tinyz) expected.

(* item k of iter_axis(img, axis, asarray=True): the data (only) of the k-th image item *)
Definition array_item_agrees (img : image) (axis : axid) (ornts : list (option nat)) (k : nat)
           (shape : list nat) (data : list Z) : bool :=
  match iter_axis_item img axis ornts k with
  | IOk r => natlist_eqb (ishape r) shape && zlist_eqb (idata r) data
  | IErr _ => false
  end.
