(* C12 - diffusion: one sparse product per iteration. *)
From Coq Require Import ZArith List Bool Arith Lia QArith.
From NV.C12 Require Import Model Proofs1.
Import ListNotations.
Close Scope Q_scope.

(* the documented row sum: sum over the edges (i, j, w) of w * f[j] *)
Fixpoint wsum (W : list wedge) (f : list Q) (i : nat) : Q :=
  match W with
  | [] => 0%Q
  | e :: r => if fst (fst e) =? i then (snd e * qat f (snd (fst e)) + wsum r f i)%Q else wsum r f i
  end.

Lemma row_dot_acc W f i : forall a,
  (fold_left (fun acc e => if fst (fst e) =? i then Qred (acc + snd e * qat f (snd (fst e)))%Q else acc) W a
   == a + wsum W f i)%Q.
Proof.
  induction W as [|e W IH]; intros a; simpl.
  - ring.
  - destruct (fst (fst e) =? i).
    + rewrite IH. rewrite (Qred_correct (a + snd e * qat f (snd (fst e)))). ring.
    + apply IH.
Qed.

Lemma row_dot_is_wsum W f i : (row_dot W f i == wsum W f i)%Q.
Proof. unfold row_dot. rewrite row_dot_acc. ring. Qed.

Lemma diffuse1_length W f : length (diffuse1 W f) = length f.
Proof. unfold diffuse1. rewrite map_length, seq_length. reflexivity. Qed.

Lemma diffuse1_at W f i : i < length f -> (qat (diffuse1 W f) i == wsum W f i)%Q.
Proof.
  intros Hi. unfold qat at 1, diffuse1. rewrite nth_map_seq0 by exact Hi. apply row_dot_is_wsum.
Qed.

Lemma iter_n_add {A} (g : A -> A) : forall n m x, iter_n (n + m) g x = iter_n m g (iter_n n g x).
Proof. induction n as [|n IH]; intros m x; simpl; [reflexivity|apply IH]. Qed.

Lemma diffusion_add W n m f : diffusion W (n + m) f = diffusion W m (diffusion W n f).
Proof. unfold diffusion. apply iter_n_add. Qed.

Lemma diffusion_length W : forall n f, length (diffusion W n f) = length f.
Proof.
  unfold diffusion. induction n as [|n IH]; intros f; simpl; [reflexivity|]. rewrite IH. apply diffuse1_length.
Qed.
