(* C12 - property theorems only (forest.py Forest; field.py morphology), for the
   code as it is after the repairs 762e2f3, efb9b7c, e3b71e9, f081ab2, 9c91412.
   Every theorem holds for ALL parent arrays / graphs / fields, no size bound.
   `*_before_fix` theorems record what the earlier definitions did (kept in
   Model.v as depth_oldrule / erosion_excl) - they are about the OLD code only. *)
From Coq Require Import ZArith List Bool Arith Lia.
From NV.C12 Require Import Model Proofs1 Proofs2 Proofs3 Proofs4 ModelLM Proofs5.
Import ListNotations.

(* ================================================================== *)
(** * Forest *)

(* (F1) Forest.check with its fuel q > V accepts exactly the in-range arrays in
   which every vertex reaches a self-parent root (V <> 1: for V = 1 it returns 1 at once). *)
Theorem check_iff_acyclic :
  forall p, in_range p -> length p <> 1 ->
  (check p = Some true <-> forall v, v < length p -> reaches_root p v).
Proof. exact Proofs1.check_iff_acyclic. Qed.
Print Assumptions check_iff_acyclic.

(* (F2) the constructor accepts exactly the acyclic in-range arrays of the right size, for every V >= 1 *)
Theorem ctor_accepts_exactly_forests :
  forall V p, 1 <= V ->
  (ctor V p = Accept <-> length p = V /\ in_range p /\ forall v, v < V -> reaches_root p v).
Proof. exact ctor_accept_iff. Qed.
Print Assumptions ctor_accepts_exactly_forests.

Theorem ctor_in_range : forall V p, ctor V p = Accept -> in_range p.
Proof.
  intros V p H. destruct V as [|V]; [discriminate H|].
  apply (ctor_accept_iff (S V) p) in H; [tauto|lia].
Qed.
Print Assumptions ctor_in_range.

Theorem ctor_single_vertex : forall p, ctor 1 p = Accept <-> p = [0].
Proof. exact ctor_single. Qed.
Print Assumptions ctor_single_vertex.

(* no IndexError is left: an accepted or refused array never walks out of the array *)
Theorem ctor_never_index_error : forall V p, ctor V p <> RefuseIndex.
Proof.
  intros V p H. unfold ctor in H.
  destruct (V <? 1) eqn:E0; [discriminate|]. apply Nat.ltb_ge in E0.
  destruct (length p =? V) eqn:EL; cbn [negb] in H; [|discriminate]. apply Nat.eqb_eq in EL.
  destruct (V - 1 <? list_max p) eqn:EM; [discriminate|]. apply Nat.ltb_ge in EM.
  assert (HR : in_range p).
  { unfold in_range. apply Forall_forall. intros x Hx. apply list_max_le in EM.
    rewrite Forall_forall in EM. specialize (EM x Hx). lia. }
  destruct (check p) as [[|]|] eqn:EC; try discriminate.
  unfold check in EC. destruct (length p =? 1); [discriminate|].
  (* check_from = None is impossible for in-range arrays: every walk stays inside *)
  assert (W : forall fuel v w, w < length p -> walk p v w fuel <> None).
  { induction fuel as [|f IH]; intros v w Hw; simpl; [discriminate|].
    rewrite (nth_error_par_lt p w Hw). destruct (par p w =? w); [discriminate|].
    destruct (par p w =? v); [discriminate|]. apply IH. apply par_lt; assumption. }
  assert (C : forall vs, (forall v, In v vs -> v < length p) -> check_from p vs <> None).
  { induction vs as [|a r IH]; intros Hvs; cbn [check_from]; [discriminate|].
    destruct (walk p a a (S (length p))) as [[|]|] eqn:EW.
    - apply IH. intros v Hv. apply Hvs. right. exact Hv.
    - discriminate.
    - exfalso. apply (W (S (length p)) a a); [apply Hvs; left; reflexivity|exact EW]. }
  apply (C (seq 0 (length p))); [intros v Hv; apply in_seq in Hv; lia|exact EC].
Qed.
Print Assumptions ctor_never_index_error.

(* (F3) children and parents are inverse queries; the child lists are duplicate-free *)
Theorem children_parent_inverse :
  forall p v c, In c (children p v) <-> c < length p /\ par p c = v /\ c <> v.
Proof. exact children_spec. Qed.
Print Assumptions children_parent_inverse.

Theorem children_nodup : forall p v, NoDup (children p v).
Proof. exact children_sorted_nodup. Qed.
Print Assumptions children_nodup.

(* get_descendants(v, exclude_self=True) removes exactly v, nothing else - for EVERY vertex, leaves included *)
Theorem descendants_exclude_self :
  forall p v d, In d (descendants_excl p v) <-> In d (descendants p v) /\ d <> v.
Proof.
  intros p v d. unfold descendants_excl. rewrite filter_In, negb_true_iff, Nat.eqb_neq. tauto.
Qed.
Print Assumptions descendants_exclude_self.

Theorem descendants_exclude_self_never_contains_self : forall p v, ~ In v (descendants_excl p v).
Proof. intros p v H. apply descendants_exclude_self in H. destruct H as [_ H]. congruence. Qed.
Print Assumptions descendants_exclude_self_never_contains_self.

(* (F4) leaf iff no child; root iff self-parent; a root is its own only ancestor *)
Theorem leaf_iff_no_child : forall p v, isleaf p v = true <-> children p v = [].
Proof. exact isleaf_spec. Qed.
Print Assumptions leaf_iff_no_child.

Theorem root_iff_selfparent : forall p v, isroot p v = true <-> par p v = v.
Proof. exact isroot_spec. Qed.
Print Assumptions root_iff_selfparent.

Theorem root_has_no_proper_ancestor : forall p v k, is_root p v -> up p k v = v.
Proof. exact root_up. Qed.
Print Assumptions root_has_no_proper_ancestor.

(* (F5) depth_from_leaves: leaves get depth 0 ... *)
Theorem depth_leaves_zero :
  forall p v, in_range p -> v < length p -> isleaf p v = true -> zat (depth_from_leaves p) v = 0%Z.
Proof. exact Proofs1.depth_leaves_zero. Qed.
Print Assumptions depth_leaves_zero.

(* ... and on EVERY accepted forest the depth strictly increases from each non-root
   vertex to its parent: the at most V sweeps of the loop are enough (either a sweep
   changed nothing, or V sweeps were run and every ascent of length < V is accounted for). *)
Theorem depth_strict :
  forall p, ctor (length p) p = Accept ->
  forall i, i < length p -> par p i <> i ->
  (zat (depth_from_leaves p) i < zat (depth_from_leaves p) (par p i))%Z.
Proof.
  intros p HA i Hi N. destruct (length p) as [|n] eqn:EL; [lia|].
  apply (ctor_accept_iff (S n) p) in HA; [|lia]. destruct HA as [_ [HR HC]].
  rewrite <- EL in HC, Hi. apply Proofs1.depth_strict; assumption.
Qed.
Print Assumptions depth_strict.

Theorem depth_strict_at_fixed_point :
  forall p d, in_range p -> length d = length p -> sweep p d = d ->
  forall i, i < length p -> par p i <> i -> (zat d i < zat d (par p i))%Z.
Proof. exact sweep_fixed_strict. Qed.
Print Assumptions depth_strict_at_fixed_point.

(* what 762e2f3 changed: with the old stopping rule (maximum unchanged) the forest
   4->3->2->0, 1->2 gave root 0 and its child 2 the same depth *)
Theorem depth_strict_before_fix :
  depth_oldrule [0;2;0;2;3] = [2;0;2;1;0]%Z /\ depth_from_leaves [0;2;0;2;3] = [3;0;2;1;0]%Z.
Proof. vm_compute. split; reflexivity. Qed.
Print Assumptions depth_strict_before_fix.

(* (F6) reorder_from_leaves_to_roots, for ANY sorting permutation `order` that argsort may
   return: the new parent array is the old one relabelled (ancestry is preserved) ... *)
Theorem reorder_preserves_ancestry :
  forall p order x, NoDup order -> length order = length p -> In x order ->
  par (reorder_parents p order) (index_of x order) = index_of (par p x) order.
Proof. exact reorder_iso. Qed.
Print Assumptions reorder_preserves_ancestry.

(* ... `order` is a permutation of the vertices ... *)
Theorem reorder_is_permutation :
  forall p order, argsort_ok (depth_from_leaves p) order = true ->
  NoDup order /\ length order = length p /\ forall x, x < length p -> In x order.
Proof.
  intros p order H. destruct (argsort_ok_perm _ _ H) as [ND [HL HI]].
  rewrite depth_length in HL, HI. tauto.
Qed.
Print Assumptions reorder_is_permutation.

(* ... and on every accepted forest each non-root vertex is placed before its parent. *)
Theorem reorder_is_topological :
  forall p order, ctor (length p) p = Accept ->
  argsort_ok (depth_from_leaves p) order = true ->
  forall x, x < length p -> par p x <> x ->
  index_of x order < index_of (par p x) order.
Proof.
  intros p order HA HO x Hx N. destruct (length p) as [|n] eqn:EL; [lia|].
  apply (ctor_accept_iff (S n) p) in HA; [|lia]. destruct HA as [_ [HR HC]].
  rewrite <- EL in HC, Hx. apply reorder_topological_full; assumption.
Qed.
Print Assumptions reorder_is_topological.

(* (F7) subforest: a retained vertex i (new index renumb i = number of retained
   vertices before i) keeps its parent when the parent is retained and becomes a
   root otherwise - ancestry among retained vertices exactly as the code defines it *)
Theorem subforest_preserves_ancestry :
  forall p valid i, length valid = length p -> i < length p -> nth i valid false = true ->
  par (subforest_parents p valid) (renumb valid i)
  = renumb valid (if nth (par p i) valid false then par p i else i).
Proof. exact subforest_parent_rule. Qed.
Print Assumptions subforest_preserves_ancestry.

(* ================================================================== *)
(** * Field morphology *)

Definition symmetric (E : list edge) : Prop := forall i j, adjb E i j = adjb E j i.

(* (M1) the compiled loop of _graph.pyx and the generic sparse-row path agree on every graph and field *)
Theorem dilation_fast_eq_generic :
  forall E f, edges_in_range E (length f) -> dilation_fast E f = dilation_generic E f.
Proof. exact Proofs2.dilation_fast_eq_generic. Qed.
Print Assumptions dilation_fast_eq_generic.

(* (M2) dilation is the maximum over N(i) + {i}: an upper bound that is attained *)
Theorem dilation_is_nbhd_max :
  forall E f i, i < length f ->
  (forall j, j < length f -> j = i \/ adjb E i j = true -> (zat f j <= zat (dilation_generic E f) i)%Z) /\
  (exists j, j < length f /\ (j = i \/ adjb E i j = true) /\ zat (dilation_generic E f) i = zat f j).
Proof. exact Proofs2.dilation_is_nbhd_max. Qed.
Print Assumptions dilation_is_nbhd_max.

(* (M3) erosion is the minimum over N(i) + {i}: a lower bound that is attained (never raises) *)
Theorem erosion_is_nbhd_min :
  forall E f i, i < length f ->
  (forall j, j < length f -> j = i \/ adjb E i j = true -> (zat (erosion E f) i <= zat f j)%Z) /\
  (exists j, j < length f /\ (j = i \/ adjb E i j = true) /\ zat (erosion E f) i = zat f j).
Proof. exact Proofs2.erosion_is_nbhd_min. Qed.
Print Assumptions erosion_is_nbhd_min.

(* (M4) lattice laws of opening(nbiter) and closing(nbiter) AS WRITTEN (erosion^n / compiled
   dilation^n), for every symmetric graph, every field and every number of iterations *)
Theorem opening_le :
  forall E n f, symmetric E -> edges_in_range E (length f) ->
  forall i, i < length f -> (zat (opening E n f) i <= zat f i)%Z.
Proof.
  intros E n f S HE i Hi. rewrite opening_eq_gen by exact HE.
  exact (gopen_le E S (length f) n f eq_refl i Hi).
Qed.
Print Assumptions opening_le.

Theorem closing_ge :
  forall E n f, symmetric E -> edges_in_range E (length f) ->
  forall i, i < length f -> (zat f i <= zat (closing E n f) i)%Z.
Proof.
  intros E n f S HE i Hi. rewrite closing_eq_gen by exact HE.
  exact (gclose_ge E S (length f) n f eq_refl i Hi).
Qed.
Print Assumptions closing_ge.

Theorem opening_idempotent :
  forall E n f, symmetric E -> edges_in_range E (length f) ->
  opening E n (opening E n f) = opening E n f.
Proof.
  intros E n f S HE. rewrite (opening_eq_gen E n f HE).
  rewrite opening_eq_gen by (rewrite (gopen_len E (length f)) by reflexivity; exact HE).
  exact (gopen_idem E S (length f) n f eq_refl).
Qed.
Print Assumptions opening_idempotent.

Theorem closing_idempotent :
  forall E n f, symmetric E -> edges_in_range E (length f) ->
  closing E n (closing E n f) = closing E n f.
Proof.
  intros E n f S HE. rewrite (closing_eq_gen E n f HE).
  rewrite closing_eq_gen by (rewrite (gclose_len E (length f)) by reflexivity; exact HE).
  exact (gclose_idem E S (length f) n f eq_refl).
Qed.
Print Assumptions closing_idempotent.

(* what 9c91412 changed: the earlier erosion left the vertex out (and raised on an empty
   row); on the path 0-1-2 it turned [0,5,1] into [5,0,5], so that opening gave [5,5,5] *)
Theorem erosion_before_fix :
  erosion_excl [(0,1);(1,0);(1,2);(2,1)] [0;5;1]%Z = Some [5;0;5]%Z /\
  erosion_excl [(0,1);(1,0)] [0;5;1]%Z = None /\
  opening [(0,1);(1,0);(1,2);(2,1)] 1 [0;5;1]%Z = [0;1;1]%Z.
Proof. vm_compute. repeat split; reflexivity. Qed.
Print Assumptions erosion_before_fix.

Theorem erosion_excl_raises_on_isolated :
  forall E f i, i < length f -> row E (length f) i = [] -> erosion_excl E f = None.
Proof. exact erosion_excl_isolated. Qed.
Print Assumptions erosion_excl_raises_on_isolated.

(* ================================================================== *)
(** * custom_watershed (one feature column; th = None is -inf) *)

(* (W1) the call raises exactly when no vertex reaches the threshold; otherwise a vertex is
   labelled (label >= 0) iff its value reaches the threshold, and there is one idx per basin *)
Theorem watershed_labels_total :
  forall E f th idx lab, custom_watershed E f th = Some (idx, lab) ->
  length lab = length f /\ length idx = length (ws_roots E f th) /\
  forall i, i < length f -> ((0 <= zat lab i)%Z <-> aboveb th (zat f i) = true).
Proof.
  intros E f th idx lab H. unfold custom_watershed in H.
  destruct (above_list f th); [discriminate|]. inversion H; subst; clear H.
  rewrite !map_length, !seq_length. split; [reflexivity|]. split; [reflexivity|].
  intros i Hi. unfold zat at 1. rewrite nth_map_seq0 by exact Hi. unfold ws_label.
  destruct (aboveb th (zat f i)); split; intros; try lia; try reflexivity; discriminate.
Qed.
Print Assumptions watershed_labels_total.

Theorem watershed_raises_iff_none_above :
  forall E f th, custom_watershed E f th = None <-> forall i, i < length f -> aboveb th (zat f i) = false.
Proof.
  intros E f th. unfold custom_watershed. destruct (above_list f th) as [|a l] eqn:EA.
  - split; [intros _|reflexivity]. intros i Hi. destruct (aboveb th (zat f i)) eqn:Ea; [|reflexivity].
    exfalso. assert (In i (above_list f th)) by (apply above_list_spec; split; assumption). rewrite EA in H. exact H.
  - split; [discriminate|]. intros H. exfalso.
    assert (Ha : In a (above_list f th)) by (rewrite EA; left; reflexivity).
    apply above_list_spec in Ha. destruct Ha as [La Aa]. unfold above in Aa. rewrite (H a La) in Aa. discriminate.
Qed.
Print Assumptions watershed_raises_iff_none_above.

(* (W2) every thresholded vertex i ascends (highest neighbour, repeatedly) to a vertex r = ws_root i
   that is its own highest neighbour in the thresholded graph, carries the same label, and
   whose value is >= the value of i: each basin contains a maximum *)
Theorem watershed_basin_has_maximum :
  forall E f th i, i < length f -> aboveb th (zat f i) = true ->
  let r := ws_root E f th i in
  r < length f /\ aboveb th (zat f r) = true /\ hn_at E f th r = r /\
  ws_label E f th r = ws_label E f th i /\ (zat f i <= zat f r)%Z.
Proof.
  intros E f th i Hi Ha r. destruct (ws_root_props E f th i Hi Ha) as [L [A [F [Le [_ RR]]]]]. fold r in L, A, F, Le, RR.
  split; [exact L|]. split; [exact A|]. split; [exact F|]. split; [|exact Le].
  unfold ws_label. unfold above in A. rewrite A, Ha. f_equal. apply same_label_iff; assumption.
Qed.
Print Assumptions watershed_basin_has_maximum.

(* (W3) ... exactly one: a thresholded vertex that is its own highest neighbour and has the label of i IS ws_root i *)
Theorem watershed_basin_maximum_unique :
  forall E f th i r, i < length f -> aboveb th (zat f i) = true ->
  r < length f -> aboveb th (zat f r) = true -> hn_at E f th r = r ->
  ws_label E f th r = ws_label E f th i -> r = ws_root E f th i.
Proof.
  intros E f th i r Hi Ha Hr Har Hfix Hl. unfold ws_label in Hl. rewrite Ha, Har in Hl.
  apply Nat2Z.inj in Hl. apply same_label_iff in Hl; try assumption.
  rewrite (fixed_is_own_root E f th r Hr Har Hfix) in Hl. exact Hl.
Qed.
Print Assumptions watershed_basin_maximum_unique.

(* (W4) the index reported for the basin of i is that maximum *)
Theorem watershed_idx_is_the_maximum :
  forall E f th idx lab, custom_watershed E f th = Some (idx, lab) ->
  forall i, i < length f -> aboveb th (zat f i) = true ->
  nth (Z.to_nat (zat lab i)) idx 0 = ws_root E f th i.
Proof.
  intros E f th idx lab H i Hi Ha. unfold custom_watershed in H.
  destruct (above_list f th); [discriminate|]. inversion H; subst; clear H.
  assert (EL : zat (map (ws_label E f th) (seq 0 (length f))) i = Z.of_nat (ws_label_nat E f th i)).
  { unfold zat. rewrite nth_map_seq0 by exact Hi. unfold ws_label. rewrite Ha. reflexivity. }
  rewrite EL, Nat2Z.id. rewrite nth_map_seq0 by (apply label_lt; assumption). apply ws_idx_is_root; assumption.
Qed.
Print Assumptions watershed_idx_is_the_maximum.

(* the table-driven evaluation used by the correspondence is the same function *)
Theorem watershed_fast_evaluation_is_the_model :
  forall E f th, custom_watershed_fast E f th = custom_watershed E f th.
Proof. exact custom_watershed_fast_eq. Qed.
Print Assumptions watershed_fast_evaluation_is_the_model.

(* two thresholded vertices share a label iff they ascend to the same maximum *)
Theorem watershed_label_iff_same_maximum :
  forall E f th i j, i < length f -> aboveb th (zat f i) = true -> j < length f -> aboveb th (zat f j) = true ->
  (ws_label E f th i = ws_label E f th j <-> ws_root E f th i = ws_root E f th j).
Proof.
  intros E f th i j Hi Hai Hj Haj. unfold ws_label. rewrite Hai, Haj.
  rewrite <- (same_label_iff E f th i j Hi Hai Hj Haj). split; [apply Nat2Z.inj|intros ->; reflexivity].
Qed.
Print Assumptions watershed_label_iff_same_maximum.

(* ================================================================== *)
(** * threshold_bifurcations (one feature column) *)

(* (B1) for ANY visiting order that np.argsort(-field) may return (a permutation of the thresholded
   vertices by non-increasing value), every vertex that reaches the threshold gets a label >= 0 and
   no other vertex does *)
Theorem bifurcation_labels_total :
  forall E f th order idx par lab, bif_order_ok f th order = true ->
  threshold_bifurcations E f th order = Some (idx, par, lab) ->
  length lab = length f /\
  forall i, i < length f -> ((0 <= zat lab i)%Z <-> aboveb th (zat f i) = true).
Proof. exact bif_labels_total. Qed.
Print Assumptions bifurcation_labels_total.

Example bifurcation_witness :
  threshold_bifurcations [(0,1);(1,0);(1,2);(2,1)] [2;0;1]%Z None [0;2;1] = Some ([0;2;1], [2;2;2], [0;2;1]%Z) /\
  threshold_bifurcations [(0,1);(1,0);(1,2);(2,1)] [0;1;2]%Z None [2;1;0] = Some ([2], [0], [0;0;0]%Z).
Proof. vm_compute. split; reflexivity. Qed.

(* ================================================================== *)
(** * diffusion (one feature column, exact rationals) *)

(* (D1) one iteration replaces f[i] by the sum over the edges (i, j, w) of w * f[j]
   (repeated edges add up, as in the coo matrix) *)
Theorem diffusion_step_is_weighted_adjacency :
  forall W f i, i < length f -> QArith_base.Qeq (qat (diffuse1 W f) i) (wsum W f i).
Proof. exact diffuse1_at. Qed.
Print Assumptions diffusion_step_is_weighted_adjacency.

(* (D2) nbiter iterations apply that product once per iteration: diffusion(n + m) = diffusion(m) after diffusion(n),
   in particular diffusion(n) on one object followed by diffusion(m) on the same object *)
Theorem diffusion_is_iterated_product :
  forall W n m f, diffusion W (n + m) f = diffusion W m (diffusion W n f) /\ length (diffusion W n f) = length f /\
                  diffusion W 0 f = f /\ diffusion W 1 f = diffuse1 W f.
Proof.
  intros W n m f. split; [apply diffusion_add|]. split; [apply diffusion_length|]. split; reflexivity.
Qed.
Print Assumptions diffusion_is_iterated_product.

Example watershed_witness :
  custom_watershed [(0,1);(1,0);(1,2);(2,1);(2,3);(3,2)] [3;1;2;5]%Z (Some 2%Z) = Some ([0;3], [0;-1;1;1]%Z) /\
  custom_watershed [(0,1);(1,0)] [0;0;0]%Z None = Some ([0;2], [0;0;1]%Z) /\
  custom_watershed [] [1]%Z (Some 2%Z) = None.
Proof. vm_compute. repeat split; reflexivity. Qed.

(* non-vacuity *)
Example morphology_witness :
  closing [(0,2);(2,0);(1,2);(2,1)] 1 [0;1;0]%Z = [0;1;0]%Z /\
  highest_neighbor [(0,1);(1,0);(1,2);(2,1)] [0;5;1]%Z = [1;1;1] /\
  symmetric [(0,1);(1,0);(1,2);(2,1)].
Proof.
  split; [vm_compute; reflexivity|]. split; [vm_compute; reflexivity|].
  intros a b. apply eq_true_iff_eq. rewrite !adjb_spec. simpl.
  split; intros H; repeat (destruct H as [H|H]; [inversion H; subst; tauto|]); contradiction.
Qed.

Example forest_witness :
  ctor 5 [0;2;0;2;3] = Accept /\ ctor 3 [1;2;0] = RefuseValue /\ ctor 2 [0;2] = RefuseValue /\
  ctor 1 [1] = RefuseValue /\
  all_children [0;2;0;2;3] = [[2]; []; [1;3]; [4]; []] /\
  subforest [0;2;0;2;3] [true;true;false;true;true] = Some [0;1;2;2].
Proof. vm_compute. repeat split; reflexivity. Qed.

(* ------------------------------------------------------------------ *)
(* Round 6: Field.local_maxima / get_local_maxima (ModelLM.v, Proofs5.v) *)

(* (L1) local_maxima raises (model: None) exactly when no vertex reaches the threshold;
   otherwise it returns one depth per vertex *)
Theorem local_maxima_raises_iff_none_above :
  forall E f th,
  (local_maxima E f th = None <-> forall i, i < length f -> aboveb th (zat f i) = false) /\
  (forall d, local_maxima E f th = Some d -> length d = length f).
Proof. exact Proofs5.local_maxima_raises_iff_none_above. Qed.
Print Assumptions local_maxima_raises_iff_none_above.

(* (L2) agreement with the direct definition, for every graph (directed / repeated edges
   allowed), field and threshold: depth[i] = 0 iff i is under the threshold or has a neighbour
   that reaches the threshold and is strictly higher; i.e. depth > 0 exactly on the local
   maxima of the thresholded graph.  The loop as written (dilate, mark the vertices that grew
   with min(k, .), overwrite the never-grown ones with max(k, 1) at the fixed point, at most
   sf.V passes) is followed pass by pass; no bound on the number of passes is needed. *)
Theorem local_maxima_zero_iff_higher_neighbour :
  forall E f th d, local_maxima E f th = Some d ->
  forall i, i < length f ->
  (nat_at d i = 0 <->
   aboveb th (zat f i) = false \/
   exists j, adjb E i j = true /\ aboveb th (zat f i) = true /\ aboveb th (zat f j) = true /\
             (zat f i < zat f j)%Z).
Proof. exact Proofs5.local_maxima_zero_iff. Qed.
Print Assumptions local_maxima_zero_iff_higher_neighbour.

(* (L3) get_local_maxima lists exactly the vertices of positive depth with their depths *)
Theorem get_local_maxima_consistent :
  forall E f th idx dep, get_local_maxima E f th = Some (idx, dep) ->
  exists d, local_maxima E f th = Some d /\
    (forall i, In i idx <-> i < length f /\ nat_at d i <> 0) /\ dep = map (nat_at d) idx.
Proof. exact Proofs5.get_local_maxima_spec. Qed.
Print Assumptions get_local_maxima_consistent.

(* non-vacuity: a plateau next to a peak (depths 3,0,1,2), a threshold, and the raising case *)
Example local_maxima_witness :
  local_maxima [(0,1);(1,0);(1,2);(2,1);(2,3);(3,2)] [3;1;2;2]%Z None = Some [3;0;1;2] /\
  get_local_maxima [(0,1);(1,0);(1,2);(2,1);(2,3);(3,2)] [3;1;2;2]%Z (Some 2%Z) = Some ([0;2;3], [1;1;1]) /\
  local_maxima [(0,1);(1,0);(1,2);(2,1)] [0;5;1]%Z (Some 10%Z) = None.
Proof. vm_compute. repeat split; reflexivity. Qed.
