(* C12 - proofs about the Forest part of the model. *)
From Coq Require Import ZArith List Bool Arith Lia.
From NV.C12 Require Import Model.
Import ListNotations.

(* ------------------------------------------------------------------ *)
(** * generic list facts *)

Lemma nth_map_seq0 {A} (f : nat -> A) n i d : i < n -> nth i (map f (seq 0 n)) d = f i.
Proof.
  intros Hi. rewrite nth_indep with (d' := f 0) by (rewrite map_length, seq_length; exact Hi).
  rewrite map_nth, seq_nth by exact Hi. reflexivity.
Qed.

Lemma NoDup_map_seq {A} (f : nat -> A) n :
  (forall a b, a < b -> b < n -> f a <> f b) -> NoDup (map f (seq 0 n)).
Proof.
  intros Hinj. apply (proj2 (NoDup_nth (map f (seq 0 n)) (f 0))).
  intros i j Hi Hj E. rewrite map_length, seq_length in Hi, Hj.
  rewrite !nth_map_seq0 in E by assumption.
  destruct (Nat.lt_trichotomy i j) as [L|[L|L]]; [|exact L|].
  - exfalso. exact (Hinj i j L Hj E).
  - exfalso. exact (Hinj j i L Hi (eq_sym E)).
Qed.

(* ------------------------------------------------------------------ *)
(** * ancestry *)

Fixpoint up (p : list nat) (k v : nat) : nat :=
  match k with 0 => v | S k' => up p k' (par p v) end.

Definition in_range (p : list nat) : Prop := Forall (fun x => x < length p) p.
Definition is_root (p : list nat) (v : nat) : Prop := par p v = v.
Definition reaches_root (p : list nat) (v : nat) : Prop := exists k, is_root p (up p k v).
(* a is an ancestor-or-self of d *)
Definition ancestor (p : list nat) (a d : nat) : Prop := exists k, up p k d = a.

Lemma up_add p a b v : up p (a + b) v = up p b (up p a v).
Proof. revert v. induction a as [|a IH]; intros v; simpl; [reflexivity|apply IH]. Qed.

Lemma up_S_out p k v : up p (S k) v = par p (up p k v).
Proof. replace (S k) with (k + 1) by lia. rewrite up_add. reflexivity. Qed.

Lemma par_lt p v : in_range p -> v < length p -> par p v < length p.
Proof.
  intros HR Hv. unfold par. unfold in_range in HR. rewrite Forall_forall in HR.
  apply HR. apply nth_In. exact Hv.
Qed.

Lemma up_lt p k v : in_range p -> v < length p -> up p k v < length p.
Proof.
  intros HR. revert v. induction k as [|k IH]; intros v Hv; simpl; [exact Hv|].
  apply IH. apply par_lt; assumption.
Qed.

Lemma nth_error_par p w w' : nth_error p w = Some w' -> par p w = w' /\ w < length p.
Proof.
  intros H. split.
  - unfold par. apply nth_error_nth. exact H.
  - apply nth_error_Some. rewrite H. discriminate.
Qed.

Lemma nth_error_par_lt p w : w < length p -> nth_error p w = Some (par p w).
Proof. intros H. unfold par. apply nth_error_nth'. exact H. Qed.

(* ------------------------------------------------------------------ *)
(** * the bounded walk of Forest.check *)

Lemma walk_true_reaches p v w fuel :
  walk p v w fuel = Some true -> reaches_root p w.
Proof.
  revert w. induction fuel as [|f IH]; intros w H; simpl in H; [discriminate|].
  destruct (nth_error p w) as [w'|] eqn:E; [|discriminate].
  apply nth_error_par in E. destruct E as [E _].
  destruct (w' =? w) eqn:E1.
  - apply Nat.eqb_eq in E1. exists 0. simpl. unfold is_root. congruence.
  - destruct (w' =? v) eqn:E2; [discriminate|].
    destruct (IH w' H) as [k Hk]. exists (S k). simpl. rewrite E. exact Hk.
Qed.

(* completeness: a root reached after k steps without passing through v again *)
Lemma walk_complete p v : in_range p ->
  forall k w fuel, w < length p -> k < fuel ->
  is_root p (up p k w) ->
  (forall j, j < k -> ~ is_root p (up p j w)) ->
  (forall j, j < k -> up p (S j) w <> v) ->
  walk p v w fuel = Some true.
Proof.
  intros HR. induction k as [|k IH]; intros w fuel Hw Hf Hroot Hnot Hv.
  - destruct fuel as [|f]; [lia|]. simpl. rewrite (nth_error_par_lt p w Hw).
    simpl in Hroot. unfold is_root in Hroot. rewrite Hroot, Nat.eqb_refl. reflexivity.
  - destruct fuel as [|f]; [lia|]. simpl. rewrite (nth_error_par_lt p w Hw).
    assert (N0 : par p w <> w) by (exact (Hnot 0 (Nat.lt_0_succ k))).
    assert (V0 : par p w <> v) by (exact (Hv 0 (Nat.lt_0_succ k))).
    apply Nat.eqb_neq in N0. apply Nat.eqb_neq in V0. rewrite N0, V0.
    apply IH.
    + apply par_lt; assumption.
    + lia.
    + exact Hroot.
    + intros j Hj. exact (Hnot (S j) (proj1 (Nat.succ_lt_mono j k) Hj)).
    + intros j Hj. exact (Hv (S j) (proj1 (Nat.succ_lt_mono j k) Hj)).
Qed.

Lemma least_root p k : forall w, is_root p (up p k w) ->
  exists k', k' <= k /\ is_root p (up p k' w) /\ forall j, j < k' -> ~ is_root p (up p j w).
Proof.
  induction k as [|k IH]; intros w H.
  - exists 0. split; [lia|]. split; [exact H|]. intros j Hj. lia.
  - destruct (Nat.eq_dec (par p w) w) as [E|N].
    + exists 0. split; [lia|]. split; [exact E|]. intros j Hj. lia.
    + simpl in H. destruct (IH (par p w) H) as [k' [L [R M]]].
      exists (S k'). split; [lia|]. split; [exact R|].
      intros j Hj. destruct j as [|j]; [exact N|]. simpl. apply M. lia.
Qed.

(* the k+1 vertices on a shortest path to a root are pairwise distinct *)
Lemma path_distinct p v k :
  is_root p (up p k v) -> (forall j, j < k -> ~ is_root p (up p j v)) ->
  forall a b, a < b -> b < S k -> up p a v <> up p b v.
Proof.
  intros Hroot Hnot a b Hab Hb E.
  apply (Hnot (a + (k - b))); [lia|].
  rewrite up_add, E, <- up_add. replace (b + (k - b)) with k by lia. exact Hroot.
Qed.

Lemma path_short p v k : in_range p -> v < length p ->
  is_root p (up p k v) -> (forall j, j < k -> ~ is_root p (up p j v)) -> S k <= length p.
Proof.
  intros HR Hv Hroot Hnot.
  pose (L := map (fun j => up p j v) (seq 0 (S k))).
  assert (ND : NoDup L) by (apply NoDup_map_seq; apply path_distinct; assumption).
  assert (IN : incl L (seq 0 (length p))).
  { intros x Hx. unfold L in Hx. apply in_map_iff in Hx. destruct Hx as [j [<- _]].
    apply in_seq. split; [lia|]. simpl. apply up_lt; assumption. }
  pose proof (NoDup_incl_length ND IN) as Hlen.
  unfold L in Hlen. rewrite map_length, !seq_length in Hlen. exact Hlen.
Qed.

Lemma walk_reaches_true p v : in_range p -> v < length p ->
  reaches_root p v -> walk p v v (S (length p)) = Some true.
Proof.
  intros HR Hv [k0 Hk0]. destruct (least_root p k0 v Hk0) as [k [_ [Hroot Hnot]]].
  pose proof (path_short p v k HR Hv Hroot Hnot) as Hshort.
  apply (walk_complete p v HR k v); try assumption; [lia|].
  intros j Hj E. apply (path_distinct p v k Hroot Hnot 0 (S j)); [lia|lia|]. simpl. simpl in E. symmetry. exact E.
Qed.

Lemma check_from_true p vs :
  check_from p vs = Some true <-> forall v, In v vs -> walk p v v (S (length p)) = Some true.
Proof.
  induction vs as [|a r IH]; cbn [check_from In].
  - split; [intros _ v []|reflexivity].
  - destruct (walk p a a (S (length p))) as [[|]|] eqn:E.
    + rewrite IH. split.
      * intros H v [<-|Hv]; [exact E|apply H; exact Hv].
      * intros H v Hv. apply H. right. exact Hv.
    + split; [discriminate|]. intros H. rewrite (H a (or_introl eq_refl)) in E. discriminate.
    + split; [discriminate|]. intros H. rewrite (H a (or_introl eq_refl)) in E. discriminate.
Qed.

(* check = 1 exactly on the arrays in which every vertex reaches a self-parent root (V <> 1) *)
Lemma check_iff_acyclic p : in_range p -> length p <> 1 ->
  (check p = Some true <-> forall v, v < length p -> reaches_root p v).
Proof.
  intros HR H1. unfold check. apply Nat.eqb_neq in H1. rewrite H1. rewrite check_from_true. split.
  - intros H v Hv. apply (walk_true_reaches p v v (S (length p))). apply H. apply in_seq. lia.
  - intros H v Hv. apply in_seq in Hv. apply walk_reaches_true; [exact HR|lia|apply H; lia].
Qed.

(* an out-of-range entry can never be accepted when V >= 2: the walk from its index leaves the array *)
Lemma walk_out_of_range p i : i < length p -> length p <= par p i ->
  walk p i i (S (length p)) <> Some true.
Proof.
  intros Hi Hp. cbn [walk]. rewrite (nth_error_par_lt p i Hi).
  destruct (par p i =? i) eqn:E1; [apply Nat.eqb_eq in E1; lia|].
  destruct (length p) as [|n] eqn:EL; [lia|].
  cbn [walk]. destruct (nth_error p (par p i)) as [x|] eqn:E2.
  - apply nth_error_par in E2. lia.
  - discriminate.
Qed.

Lemma list_max_le_iff (l : list nat) n : list_max l <= n <-> Forall (fun x => x <= n) l.
Proof. apply list_max_le. Qed.

Lemma ctor_accept_iff V p : 1 <= V ->
  (ctor V p = Accept <->
   length p = V /\ in_range p /\ forall v, v < V -> reaches_root p v).
Proof.
  intros HV. unfold ctor.
  destruct (V <? 1) eqn:E0; [apply Nat.ltb_lt in E0; lia|].
  destruct (length p =? V) eqn:EL; cbn [negb].
  2:{ apply Nat.eqb_neq in EL. split; [discriminate|]. intros [H _]. contradiction. }
  apply Nat.eqb_eq in EL.
  destruct (V - 1 <? list_max p) eqn:EM.
  - apply Nat.ltb_lt in EM. split; [discriminate|]. intros [_ [HR _]].
    exfalso. assert (list_max p <= V - 1); [|lia].
    apply list_max_le. unfold in_range in HR. rewrite Forall_forall in HR |- *.
    intros x Hx. specialize (HR x Hx). lia.
  - apply Nat.ltb_ge in EM.
    assert (HR : in_range p).
    { unfold in_range. apply Forall_forall. intros x Hx. apply list_max_le in EM.
      rewrite Forall_forall in EM. specialize (EM x Hx). lia. }
    destruct (Nat.eq_dec (length p) 1) as [E1|N1].
    + assert (EC : check p = Some true) by (unfold check; rewrite E1; reflexivity).
      rewrite EC. split; [intros _|reflexivity]. split; [exact EL|]. split; [exact HR|].
      intros v Hv. exists 0. simpl. unfold is_root.
      assert (par p v < length p) by (apply par_lt; [exact HR|lia]). lia.
    + destruct (check p) as [[|]|] eqn:EC.
      * split; [intros _|reflexivity]. split; [exact EL|]. split; [exact HR|].
        rewrite <- EL. apply check_iff_acyclic; assumption.
      * split; [discriminate|]. intros [_ [_ HA]]. rewrite <- EL in HA.
        apply (check_iff_acyclic p HR N1) in HA. congruence.
      * split; [discriminate|]. intros [_ [_ HA]]. rewrite <- EL in HA.
        apply (check_iff_acyclic p HR N1) in HA. congruence.
Qed.

Lemma ctor_single p : ctor 1 p = Accept <-> p = [0].
Proof.
  unfold ctor. cbn [Nat.ltb Nat.leb].
  destruct p as [|a [|b r]]; cbn.
  - split; discriminate.
  - destruct a as [|a]; cbn.
    + split; reflexivity.
    + split; discriminate.
  - split; discriminate.
Qed.

(* ------------------------------------------------------------------ *)
(** * children / leaves / roots *)

Lemma children_spec p v c :
  In c (children p v) <-> c < length p /\ par p c = v /\ c <> v.
Proof.
  unfold children. rewrite filter_In, in_seq, andb_true_iff, negb_true_iff, Nat.eqb_eq, Nat.eqb_neq. lia.
Qed.

Lemma children_sorted_nodup p v : NoDup (children p v).
Proof. unfold children. apply NoDup_filter. apply seq_NoDup. Qed.

Lemma isleaf_spec p v : isleaf p v = true <-> children p v = [].
Proof.
  unfold isleaf. rewrite negb_true_iff. split.
  - intros H. destruct (children p v) as [|c r] eqn:E; [reflexivity|exfalso].
    assert (Hc : In c (children p v)) by (rewrite E; left; reflexivity).
    apply children_spec in Hc. destruct Hc as [L [P N]].
    assert (X : existsb (fun i => negb (par p i =? i) && (par p i =? v)) (seq 0 (length p)) = true).
    { apply existsb_exists. exists c. split; [apply in_seq; lia|].
      rewrite andb_true_iff, negb_true_iff, Nat.eqb_neq, Nat.eqb_eq. split; congruence. }
    congruence.
  - intros H. apply not_true_is_false. intros X. apply existsb_exists in X.
    destruct X as [c [Hin Hc]]. apply in_seq in Hin.
    rewrite andb_true_iff, negb_true_iff, Nat.eqb_neq, Nat.eqb_eq in Hc. destruct Hc as [N P].
    assert (Hc : In c (children p v)) by (apply children_spec; split; [lia|split; congruence]).
    rewrite H in Hc. exact Hc.
Qed.

Lemma isroot_spec p v : isroot p v = true <-> par p v = v.
Proof. unfold isroot. apply Nat.eqb_eq. Qed.

(* a root has no proper ancestor: every upward walk from it stays there *)
Lemma root_up p v k : is_root p v -> up p k v = v.
Proof. intros H. induction k as [|k IH]; simpl; [reflexivity|]. rewrite H. exact IH. Qed.

(* ------------------------------------------------------------------ *)
(** * reorder_from_leaves_to_roots *)

Lemma index_of_nth_nd order : NoDup order -> forall i, i < length order -> index_of (nth i order 0) order = i.
Proof.
  induction order as [|a r IH]; intros ND i Hi; simpl in Hi; [lia|].
  inversion ND as [|a' r' Hnotin NDr]; subst.
  destruct i as [|i]; simpl.
  - rewrite Nat.eqb_refl. reflexivity.
  - destruct (a =? nth i r 0) eqn:E.
    + apply Nat.eqb_eq in E. exfalso. apply Hnotin. rewrite E. apply nth_In. lia.
    + f_equal. apply IH; [exact NDr|lia].
Qed.

Lemma index_of_in order x : In x order -> index_of x order < length order /\ nth (index_of x order) order 0 = x.
Proof.
  induction order as [|a r IH]; intros H; simpl in H; [contradiction|].
  simpl. destruct (a =? x) eqn:E.
  - apply Nat.eqb_eq in E. split; [lia|exact E].
  - destruct H as [H|H]; [apply Nat.eqb_neq in E; contradiction|].
    destruct (IH H) as [L N]. split; [lia|exact N].
Qed.

(* the renumbering is an isomorphism of the parent relation *)
Lemma reorder_iso p order x :
  NoDup order -> length order = length p -> In x order ->
  par (reorder_parents p order) (index_of x order) = index_of (par p x) order.
Proof.
  intros ND HL Hx. destruct (index_of_in order x Hx) as [L N].
  unfold par at 1. unfold reorder_parents. rewrite nth_map_seq0 by lia. rewrite N. reflexivity.
Qed.

Lemma sorted_by_mono d order : sorted_by d order = true ->
  forall i j, i <= j -> j < length order -> (zat d (nth i order 0%nat) <= zat d (nth j order 0%nat))%Z.
Proof.
  induction order as [|a r IH]; intros HS i j Hij Hj; simpl in Hj; [lia|].
  destruct r as [|b r'].
  - assert (i = 0) by (simpl in Hj; lia). assert (j = 0) by (simpl in Hj; lia). subst. lia.
  - cbn [sorted_by] in HS. apply andb_true_iff in HS. destruct HS as [Hab HS].
    apply Z.leb_le in Hab.
    destruct j as [|j].
    + assert (i = 0) by lia. subst. lia.
    + destruct i as [|i].
      * cbn [nth]. apply Z.le_trans with (zat d b); [exact Hab|].
        apply (IH HS 0 j); [lia|simpl in Hj |- *; lia].
      * cbn [nth]. apply (IH HS i j); [lia|simpl in Hj |- *; lia].
Qed.

(* children come before their parents whenever the depth used for sorting
   strictly increases from child to parent *)
Lemma reorder_topological p d order x :
  NoDup order -> sorted_by d order = true -> In x order -> In (par p x) order ->
  (zat d x < zat d (par p x))%Z ->
  index_of x order < index_of (par p x) order.
Proof.
  intros ND HS Hx Hpx Hlt.
  destruct (index_of_in order x Hx) as [Lx Nx].
  destruct (index_of_in order (par p x) Hpx) as [Lp Np].
  destruct (Nat.lt_ge_cases (index_of x order) (index_of (par p x) order)) as [L|G]; [exact L|].
  exfalso. pose proof (sorted_by_mono d order HS _ _ G Lx) as M. rewrite Nx, Np in M. lia.
Qed.

(* ------------------------------------------------------------------ *)
(** * depth_from_leaves *)

Lemma set_nth_length {A} i (x : A) l : length (set_nth i x l) = length l.
Proof. revert i. induction l as [|a r IH]; intros [|i]; simpl; auto. Qed.

Lemma zat_set_nth i x l j : i < length l ->
  zat (set_nth i x l) j = if j =? i then x else zat l j.
Proof.
  unfold zat. revert i j. induction l as [|a r IH]; intros i j Hi; simpl in Hi; [lia|].
  destruct i as [|i]; destruct j as [|j]; simpl; try reflexivity.
  apply IH. lia.
Qed.

Definition zle_list (a b : list Z) : Prop := length a = length b /\ forall j, (zat a j <= zat b j)%Z.

Lemma sweep_step_ge p d i : par p i < length d -> zle_list d (sweep_step p d i).
Proof.
  intros Hp. unfold sweep_step. destruct (par p i =? i); [split; [reflexivity|intros; lia]|].
  split; [symmetry; apply set_nth_length|]. intros j. rewrite zat_set_nth by exact Hp.
  destruct (j =? par p i) eqn:E; [apply Nat.eqb_eq in E; subst; lia|lia].
Qed.

Lemma sweep_step_length p d i : length (sweep_step p d i) = length d.
Proof. unfold sweep_step. destruct (par p i =? i); [reflexivity|apply set_nth_length]. Qed.

Lemma zle_list_trans a b c : zle_list a b -> zle_list b c -> zle_list a c.
Proof. intros [L1 H1] [L2 H2]. split; [congruence|]. intros j. specialize (H1 j). specialize (H2 j). lia. Qed.

Lemma fold_sweep_ge p : in_range p -> forall l d, length d = length p ->
  (forall i, In i l -> i < length p) ->
  zle_list d (fold_left (sweep_step p) l d).
Proof.
  intros HR. induction l as [|i l IH]; intros d HL Hl; simpl.
  - split; [reflexivity|intros; lia].
  - apply zle_list_trans with (sweep_step p d i).
    + apply sweep_step_ge. rewrite HL. apply par_lt; [exact HR|]. apply Hl. left. reflexivity.
    + apply IH; [rewrite sweep_step_length; exact HL|]. intros j Hj. apply Hl. right. exact Hj.
Qed.

(* after step i the parent of i is deeper than i (with the values at that moment) *)
Lemma sweep_step_post p d i : par p i <> i -> par p i < length d ->
  (zat (sweep_step p d i) i + 1 <= zat (sweep_step p d i) (par p i))%Z.
Proof.
  intros N Hp. unfold sweep_step. apply Nat.eqb_neq in N. rewrite N.
  rewrite !zat_set_nth by exact Hp. rewrite Nat.eqb_refl.
  apply Nat.eqb_neq in N. destruct (i =? par p i) eqn:E; [apply Nat.eqb_eq in E; congruence|]. lia.
Qed.

(* a sweep that changes nothing certifies the strict increase child -> parent *)
Lemma sweep_fixed_strict_aux p : in_range p ->
  forall l d, length d = length p -> (forall i, In i l -> i < length p) ->
  fold_left (sweep_step p) l d = d ->
  forall i, In i l -> par p i <> i -> (zat d i + 1 <= zat d (par p i))%Z.
Proof.
  intros HR. induction l as [|a l IH]; intros d HL Hl Hfix i Hi N; simpl in Hi; [contradiction|].
  simpl in Hfix.
  assert (Ha : a < length p) by (apply Hl; left; reflexivity).
  assert (Hpa : par p a < length d) by (rewrite HL; apply par_lt; assumption).
  assert (Hl' : forall j, In j l -> j < length p) by (intros j Hj; apply Hl; right; exact Hj).
  pose proof (sweep_step_ge p d a Hpa) as G1.
  pose proof (fold_sweep_ge p HR l (sweep_step p d a) (eq_trans (sweep_step_length p d a) HL) Hl') as G2.
  rewrite Hfix in G2.
  (* d <= step d <= d, hence step d = d pointwise *)
  assert (EQ : forall j, zat (sweep_step p d a) j = zat d j).
  { intros j. destruct G1 as [_ G1]. destruct G2 as [_ G2]. specialize (G1 j). specialize (G2 j). lia. }
  assert (EQL : sweep_step p d a = d).
  { apply nth_ext with (d := 0%Z) (d' := 0%Z); [apply sweep_step_length|]. intros j _. apply EQ. }
  destruct Hi as [<-|Hi].
  - pose proof (sweep_step_post p d a N Hpa) as P. rewrite !EQ in P. exact P.
  - rewrite EQL in Hfix. apply (IH d HL Hl' Hfix i Hi N).
Qed.

Lemma sweep_fixed_strict p d : in_range p -> length d = length p -> sweep p d = d ->
  forall i, i < length p -> par p i <> i -> (zat d i < zat d (par p i))%Z.
Proof.
  intros HR HL Hfix i Hi N.
  assert (H : (zat d i + 1 <= zat d (par p i))%Z); [|lia].
  apply (sweep_fixed_strict_aux p HR (seq 0 (length p)) d HL); try assumption.
  - intros j Hj. apply in_seq in Hj. lia.
  - apply in_seq. lia.
Qed.

(* leaves are never written: every sweep keeps the value of a vertex without children *)
Lemma sweep_step_leaf p d i v : isleaf p v = true -> i < length p -> par p i < length d ->
  zat (sweep_step p d i) v = zat d v.
Proof.
  intros HLf Hi Hp. unfold sweep_step. destruct (par p i =? i) eqn:E; [reflexivity|].
  rewrite zat_set_nth by exact Hp. destruct (v =? par p i) eqn:E2; [|reflexivity].
  exfalso. apply Nat.eqb_eq in E2. apply Nat.eqb_neq in E.
  apply isleaf_spec in HLf.
  assert (Hc : In i (children p v)) by (apply children_spec; split; [exact Hi|split; congruence]).
  rewrite HLf in Hc. exact Hc.
Qed.

Lemma fold_sweep_leaf p v : in_range p -> isleaf p v = true ->
  forall l d, length d = length p -> (forall i, In i l -> i < length p) ->
  zat (fold_left (sweep_step p) l d) v = zat d v.
Proof.
  intros HR HLf. induction l as [|a l IH]; intros d HL Hl; simpl; [reflexivity|].
  assert (Ha : a < length p) by (apply Hl; left; reflexivity).
  rewrite IH.
  - apply sweep_step_leaf; [exact HLf|exact Ha|rewrite HL; apply par_lt; assumption].
  - rewrite sweep_step_length. exact HL.
  - intros j Hj. apply Hl. right. exact Hj.
Qed.

Lemma sweep_length p d : length (sweep p d) = length d.
Proof.
  unfold sweep. generalize (seq 0 (length p)). intros l. revert d.
  induction l as [|a l IH]; intros d; simpl; [reflexivity|]. rewrite IH. apply sweep_step_length.
Qed.

Lemma sweep_leaf p d v : in_range p -> isleaf p v = true -> length d = length p ->
  zat (sweep p d) v = zat d v.
Proof.
  intros HR HLf HL. unfold sweep. apply fold_sweep_leaf; try assumption.
  intros j Hj. apply in_seq in Hj. lia.
Qed.

Lemma depth_loop_leaf p v : in_range p -> isleaf p v = true ->
  forall fuel d, length d = length p -> zat (depth_loop p d fuel) v = zat d v.
Proof.
  intros HR HLf. induction fuel as [|f IH]; intros d HL; simpl; [reflexivity|].
  destruct (zl_eqb d (sweep p d)).
  - apply sweep_leaf; assumption.
  - rewrite IH by (rewrite sweep_length; exact HL). apply sweep_leaf; assumption.
Qed.

Lemma depth_init_length p : length (depth_init p) = length p.
Proof. unfold depth_init. rewrite map_length, seq_length. reflexivity. Qed.

Lemma depth_loop_length p : forall fuel d, length (depth_loop p d fuel) = length d.
Proof.
  induction fuel as [|f IH]; intros d; simpl; [reflexivity|].
  destruct (zl_eqb d (sweep p d)); [apply sweep_length|]. rewrite IH. apply sweep_length.
Qed.

Lemma depth_length p : length (depth_from_leaves p) = length p.
Proof. unfold depth_from_leaves. rewrite depth_loop_length. apply depth_init_length. Qed.

Lemma depth_leaves_zero p v : in_range p -> v < length p -> isleaf p v = true ->
  zat (depth_from_leaves p) v = 0%Z.
Proof.
  intros HR Hv HLf. unfold depth_from_leaves.
  rewrite depth_loop_leaf by (try assumption; apply depth_init_length).
  unfold depth_init, zat. rewrite nth_map_seq0 by exact Hv. rewrite HLf. reflexivity.
Qed.

(* ---- V sweeps are enough: the loop result strictly increases child -> parent ---- *)

Lemma zl_eqb_eq a : forall b, zl_eqb a b = true -> a = b.
Proof.
  induction a as [|x a IH]; intros [|y b] H; simpl in H; try discriminate; [reflexivity|].
  apply andb_true_iff in H. destruct H as [H1 H2]. apply Z.eqb_eq in H1. subst. f_equal. apply IH. exact H2.
Qed.

Lemma iter_n_S_out {A} (f : A -> A) : forall k x, iter_n (S k) f x = f (iter_n k f x).
Proof. induction k as [|k IH]; intros x; [reflexivity|]. change (iter_n (S (S k)) f x) with (iter_n (S k) f (f x)). rewrite IH. reflexivity. Qed.

(* the loop returns either a fixed point of the sweep or the result of exactly `fuel` sweeps *)
Lemma depth_loop_result p : forall fuel d,
  sweep p (depth_loop p d fuel) = depth_loop p d fuel \/ depth_loop p d fuel = iter_n fuel (sweep p) d.
Proof.
  induction fuel as [|f IH]; intros d; simpl.
  - right. reflexivity.
  - destruct (zl_eqb d (sweep p d)) eqn:E.
    + left. apply zl_eqb_eq in E. rewrite <- E. symmetry. exact E.
    + destruct (IH (sweep p d)) as [H|H]; [left; exact H|right; exact H].
Qed.

Definition acyclic (p : list nat) : Prop := forall v, v < length p -> reaches_root p v.

(* an n-step ascent c -> ... -> v through non-root vertices *)
Definition chain (p : list nat) (v n : nat) : Prop :=
  exists c, c < length p /\ up p n c = v /\ forall j, j < n -> ~ is_root p (up p j c).

Lemma chain_bound p v n : in_range p -> acyclic p -> chain p v n -> S n <= length p.
Proof.
  intros HR HA [c [Hc [_ Hn]]]. destruct (HA c Hc) as [k0 Hk0].
  destruct (least_root p k0 c Hk0) as [k [_ [Hroot Hnot]]].
  pose proof (path_short p c k HR Hc Hroot Hnot) as PS. assert (n <= k); [|lia].
  destruct (Nat.le_gt_cases n k) as [L|G]; [exact L|]. exfalso. exact (Hn k G Hroot).
Qed.

(* upper invariant: a non-negative depth value is witnessed by an ascent of that length *)
Definition Uinv (p : list nat) (d : list Z) : Prop :=
  forall v, v < length p -> (0 <= zat d v)%Z -> chain p v (Z.to_nat (zat d v)).

Lemma Uinv_step p d i : in_range p -> length d = length p -> i < length p ->
  Uinv p d -> Uinv p (sweep_step p d i).
Proof.
  intros HR HL Hi HU. unfold sweep_step. destruct (par p i =? i) eqn:E; [exact HU|].
  apply Nat.eqb_neq in E.
  assert (Hp : par p i < length d) by (rewrite HL; apply par_lt; assumption).
  intros v Hv. rewrite zat_set_nth by exact Hp. destruct (v =? par p i) eqn:Ev.
  - apply Nat.eqb_eq in Ev. subst v. intros Hpos.
    destruct (Z.max_spec (zat d i + 1) (zat d (par p i))) as [[_ M]|[_ M]]; rewrite M in Hpos |- *.
    + apply HU; assumption.
    + destruct (Z.eq_dec (zat d i) (-1)) as [Em|Nm].
      * replace (Z.to_nat (zat d i + 1)) with 0 by lia.
        exists (par p i). split; [exact Hv|]. split; [reflexivity|]. intros j Hj. lia.
      * assert (Hi0 : (0 <= zat d i)%Z) by lia. destruct (HU i Hi Hi0) as [c [Hc [Hup Hn]]].
        replace (Z.to_nat (zat d i + 1)) with (S (Z.to_nat (zat d i))) by lia.
        exists c. split; [exact Hc|]. split; [rewrite up_S_out, Hup; reflexivity|].
        intros j Hj. destruct (Nat.eq_dec j (Z.to_nat (zat d i))) as [->|Nj].
        -- rewrite Hup. unfold is_root. exact E.
        -- apply Hn. lia.
  - apply HU. exact Hv.
Qed.

Lemma Uinv_fold p : in_range p -> forall l d, length d = length p ->
  (forall i, In i l -> i < length p) -> Uinv p d -> Uinv p (fold_left (sweep_step p) l d).
Proof.
  intros HR. induction l as [|a l IH]; intros d HL Hl HU; simpl; [exact HU|].
  apply IH.
  - rewrite sweep_step_length. exact HL.
  - intros j Hj. apply Hl. right. exact Hj.
  - apply Uinv_step; try assumption. apply Hl. left. reflexivity.
Qed.

Lemma seq_lt n i : In i (seq 0 n) -> i < n.
Proof. intros H. apply in_seq in H. lia. Qed.

Lemma sweep_ge p d : in_range p -> length d = length p -> zle_list d (sweep p d).
Proof. intros HR HL. unfold sweep. apply fold_sweep_ge; try assumption. intros i. apply seq_lt. Qed.

Lemma fold_lower p : in_range p -> forall l d i, length d = length p ->
  (forall x, In x l -> x < length p) -> In i l -> par p i <> i ->
  (zat d i + 1 <= zat (fold_left (sweep_step p) l d) (par p i))%Z.
Proof.
  intros HR. induction l as [|a l IH]; intros d i HL Hl Hin N; [contradiction|]. simpl.
  assert (Ha : a < length p) by (apply Hl; left; reflexivity).
  assert (Hpa : par p a < length d) by (rewrite HL; apply par_lt; assumption).
  assert (Hl' : forall j, In j l -> j < length p) by (intros j Hj; apply Hl; right; exact Hj).
  assert (HL' : length (sweep_step p d a) = length p) by (rewrite sweep_step_length; exact HL).
  destruct (fold_sweep_ge p HR l (sweep_step p d a) HL' Hl') as [_ G2].
  destruct (sweep_step_ge p d a Hpa) as [_ G1].
  destruct Hin as [<-|Hin].
  - pose proof (sweep_step_post p d a N Hpa) as P. specialize (G1 a). specialize (G2 (par p a)). lia.
  - pose proof (IH (sweep_step p d a) i HL' Hl' Hin N) as Q. specialize (G1 i). lia.
Qed.

Lemma sweep_lower p d i : in_range p -> length d = length p -> i < length p -> par p i <> i ->
  (zat d i + 1 <= zat (sweep p d) (par p i))%Z.
Proof.
  intros HR HL Hi N. unfold sweep. apply fold_lower; try assumption.
  - intros x. apply seq_lt.
  - apply in_seq. lia.
Qed.

Definition Minv (d : list Z) : Prop := forall v, (-1 <= zat d v)%Z.
Definition Leaf0 (p : list nat) (d : list Z) : Prop :=
  forall v, v < length p -> isleaf p v = true -> zat d v = 0%Z.
(* lower invariant after k sweeps: an n-step ascent (n < k) ends at depth >= n *)
Definition Linv (p : list nat) (d : list Z) (k : nat) : Prop :=
  forall c n, c < length p -> n < k -> (forall j, j < n -> ~ is_root p (up p j c)) ->
  (Z.of_nat n <= zat d (up p n c))%Z.

Lemma Linv_sweep p d k : in_range p -> length d = length p -> Minv d -> Leaf0 p d ->
  Linv p d k -> Linv p (sweep p d) (S k).
Proof.
  intros HR HL HM HLf HLk c n Hc Hn Hnr. destruct n as [|n].
  - cbn [up]. destruct (isleaf p c) eqn:EL.
    + rewrite sweep_leaf by assumption. rewrite (HLf c Hc EL). lia.
    + unfold isleaf in EL. apply negb_false_iff in EL. apply existsb_exists in EL.
      destruct EL as [i [Hi Hb]]. apply seq_lt in Hi.
      rewrite andb_true_iff, negb_true_iff, Nat.eqb_neq, Nat.eqb_eq in Hb. destruct Hb as [Ni Pi].
      pose proof (sweep_lower p d i HR HL Hi Ni) as Q. rewrite Pi in Q. specialize (HM i). lia.
  - assert (Hn' : n < k) by lia.
    assert (Hnr' : forall j, j < n -> ~ is_root p (up p j c)) by (intros j Hj; apply Hnr; lia).
    pose proof (HLk c n Hc Hn' Hnr') as Q1.
    assert (Hi : up p n c < length p) by (apply up_lt; assumption).
    assert (Ni : par p (up p n c) <> up p n c) by (apply (Hnr n); lia).
    pose proof (sweep_lower p d (up p n c) HR HL Hi Ni) as Q2. rewrite up_S_out. lia.
Qed.

Lemma iter_inv p : in_range p -> forall k,
  length (iter_n k (sweep p) (depth_init p)) = length p /\
  Minv (iter_n k (sweep p) (depth_init p)) /\
  Leaf0 p (iter_n k (sweep p) (depth_init p)) /\
  Uinv p (iter_n k (sweep p) (depth_init p)) /\
  Linv p (iter_n k (sweep p) (depth_init p)) k.
Proof.
  intros HR. induction k as [|k IH].
  - cbn [iter_n]. split; [apply depth_init_length|]. split; [|split; [|split]].
    + intros v. destruct (Nat.lt_ge_cases v (length p)) as [L|G].
      * unfold zat, depth_init. rewrite nth_map_seq0 by exact L. destruct (isleaf p v); lia.
      * unfold zat. rewrite nth_overflow by (rewrite depth_init_length; exact G). lia.
    + intros v Hv HLf. unfold zat, depth_init. rewrite nth_map_seq0 by exact Hv. rewrite HLf. reflexivity.
    + intros v Hv. unfold zat, depth_init. rewrite nth_map_seq0 by exact Hv.
      destruct (isleaf p v); intros Hpos; [|lia].
      exists v. split; [exact Hv|]. split; [reflexivity|]. intros j Hj. simpl in Hj. lia.
    + intros c n _ Hn. lia.
  - rewrite iter_n_S_out. destruct IH as [HL [HM [HLf [HU HLk]]]].
    set (d := iter_n k (sweep p) (depth_init p)) in *.
    split; [rewrite sweep_length; exact HL|]. split; [|split; [|split]].
    + intros v. destruct (sweep_ge p d HR HL) as [_ G]. specialize (G v). specialize (HM v). lia.
    + intros v Hv EL. rewrite sweep_leaf by assumption. apply HLf; assumption.
    + unfold sweep. apply Uinv_fold; try assumption. intros i. apply seq_lt.
    + apply Linv_sweep; assumption.
Qed.

Lemma depth_strict p : in_range p -> acyclic p ->
  forall i, i < length p -> par p i <> i ->
  (zat (depth_from_leaves p) i < zat (depth_from_leaves p) (par p i))%Z.
Proof.
  intros HR HA i Hi N. unfold depth_from_leaves.
  destruct (depth_loop_result p (length p) (depth_init p)) as [Hfix|Hit].
  - apply sweep_fixed_strict; try assumption.
    rewrite depth_loop_length. apply depth_init_length.
  - rewrite Hit. destruct (iter_inv p HR (length p)) as [HL [HM [HLf [HU HLk]]]].
    set (d := iter_n (length p) (sweep p) (depth_init p)) in *.
    assert (H0 : (0 <= zat d i)%Z).
    { pose proof (HLk i 0 Hi) as Q. cbn [up] in Q. apply Q; [lia|]. intros j Hj. lia. }
    destruct (HU i Hi H0) as [c [Hc [Hup Hn]]].
    assert (NR : forall j, j < S (Z.to_nat (zat d i)) -> ~ is_root p (up p j c)).
    { intros j Hj. destruct (Nat.eq_dec j (Z.to_nat (zat d i))) as [->|Nj].
      - rewrite Hup. unfold is_root. exact N.
      - apply Hn. lia. }
    assert (CH : chain p (par p i) (S (Z.to_nat (zat d i)))).
    { exists c. split; [exact Hc|]. split; [rewrite up_S_out, Hup; reflexivity|exact NR]. }
    pose proof (chain_bound p _ _ HR HA CH) as B.
    pose proof (HLk c (S (Z.to_nat (zat d i))) Hc B NR) as Q.
    rewrite up_S_out, Hup in Q. lia.
Qed.

(* ---- argsort_ok and the full topological-order statement ---- *)

Lemma memb_in x l : memb x l = true -> In x l.
Proof.
  unfold memb. intros H. apply existsb_exists in H. destruct H as [y [Hy E]].
  apply Nat.eqb_eq in E. subst. exact Hy.
Qed.

Lemma perm_range_props n l : is_perm_of_range n l = true ->
  NoDup l /\ forall x, x < n -> In x l.
Proof.
  unfold is_perm_of_range. intros H. apply andb_true_iff in H. destruct H as [HL HF].
  apply Nat.eqb_eq in HL. rewrite forallb_forall in HF.
  assert (HI : forall x, x < n -> In x l) by (intros x Hx; apply memb_in, HF, in_seq; lia).
  split; [|exact HI].
  apply (NoDup_incl_NoDup (seq_NoDup n 0)).
  - rewrite seq_length. lia.
  - intros x Hx. apply HI. apply seq_lt. exact Hx.
Qed.

Lemma reorder_topological_full p order x : in_range p -> acyclic p ->
  argsort_ok (depth_from_leaves p) order = true ->
  x < length p -> par p x <> x ->
  index_of x order < index_of (par p x) order.
Proof.
  intros HR HA HO Hx N. unfold argsort_ok in HO. apply andb_true_iff in HO. destruct HO as [HP HS].
  rewrite depth_length in HP. destruct (perm_range_props _ _ HP) as [ND HI].
  apply (reorder_topological p (depth_from_leaves p)); try assumption.
  - apply HI. exact Hx.
  - apply HI. apply par_lt; assumption.
  - apply depth_strict; assumption.
Qed.

Lemma argsort_ok_perm d order : argsort_ok d order = true ->
  NoDup order /\ length order = length d /\ forall x, x < length d -> In x order.
Proof.
  unfold argsort_ok. intros H. apply andb_true_iff in H. destruct H as [HP _].
  destruct (perm_range_props _ _ HP) as [ND HI]. split; [exact ND|]. split; [|exact HI].
  unfold is_perm_of_range in HP. apply andb_true_iff in HP. destruct HP as [HL _]. apply Nat.eqb_eq in HL. exact HL.
Qed.

(* ------------------------------------------------------------------ *)
(** * subforest *)

Lemma keep_nth {A} (valid : list bool) : forall (l : list A) d i,
  length valid = length l -> i < length l -> nth i valid false = true ->
  nth (renumb valid i) (keep valid l) d = nth i l d.
Proof.
  unfold keep, renumb, count_true.
  induction valid as [|b vs IH]; intros l d i HL Hi Hv.
  - simpl in HL. lia.
  - destruct l as [|a r]; [simpl in Hi; lia|]. simpl in HL, Hi.
    destruct i as [|i].
    + simpl in Hv. subst b. reflexivity.
    + simpl in Hv. destruct b; simpl.
      * apply IH; [lia|lia|exact Hv].
      * apply IH; [lia|lia|exact Hv].
Qed.

Lemma subforest_parent_rule p valid i :
  length valid = length p -> i < length p -> nth i valid false = true ->
  par (subforest_parents p valid) (renumb valid i)
  = renumb valid (if nth (par p i) valid false then par p i else i).
Proof.
  intros HL Hi Hv. unfold par at 1. unfold subforest_parents.
  transitivity (nth (renumb valid i) (map (renumb valid) (keep valid (orphaned p valid))) (renumb valid 0)); [reflexivity|].
  rewrite map_nth. f_equal.
  rewrite keep_nth; [|unfold orphaned; rewrite map_length, seq_length; exact HL
                      |unfold orphaned; rewrite map_length, seq_length; exact Hi|exact Hv].
  unfold orphaned. rewrite nth_map_seq0 by exact Hi. reflexivity.
Qed.
