(* C12 - proofs about the morphology part of the model. *)
From Coq Require Import ZArith List Bool Arith Lia.
From NV.C12 Require Import Model Proofs1.
Import ListNotations.

(* ------------------------------------------------------------------ *)
(** * maxima and minima of non-empty lists *)

Lemma fold_max_spec r : forall a,
  (a <= fold_left Z.max r a)%Z /\ (forall x, In x r -> (x <= fold_left Z.max r a)%Z) /\
  In (fold_left Z.max r a) (a :: r).
Proof.
  induction r as [|b r IH]; intros a; simpl.
  - split; [lia|]. split; [intros x []|left; reflexivity].
  - destruct (IH (Z.max a b)) as [H1 [H2 H3]]. split; [lia|]. split.
    + intros x [<-|Hx]; [lia|apply H2; exact Hx].
    + destruct H3 as [H3|H3]; [|right; right; exact H3].
      destruct (Z.max_spec a b) as [[_ M]|[_ M]]; [right; left|left]; rewrite <- H3; symmetry; exact M.
Qed.

Lemma fold_min_spec r : forall a,
  (fold_left Z.min r a <= a)%Z /\ (forall x, In x r -> (fold_left Z.min r a <= x)%Z) /\
  In (fold_left Z.min r a) (a :: r).
Proof.
  induction r as [|b r IH]; intros a; simpl.
  - split; [lia|]. split; [intros x []|left; reflexivity].
  - destruct (IH (Z.min a b)) as [H1 [H2 H3]]. split; [lia|]. split.
    + intros x [<-|Hx]; [lia|apply H2; exact Hx].
    + destruct H3 as [H3|H3]; [|right; right; exact H3].
      destruct (Z.min_spec a b) as [[_ M]|[_ M]]; [left|right; left]; rewrite <- H3; symmetry; exact M.
Qed.

Lemma zmaxl_spec l : l <> [] -> (forall x, In x l -> (x <= zmaxl l)%Z) /\ In (zmaxl l) l.
Proof.
  destruct l as [|a r]; [congruence|]. intros _. unfold zmaxl.
  destruct (fold_max_spec r a) as [H1 [H2 H3]]. split; [|exact H3].
  intros x [<-|Hx]; [exact H1|apply H2; exact Hx].
Qed.

Lemma zminl_spec l : l <> [] ->
  exists m, zminl l = Some m /\ (forall x, In x l -> (m <= x)%Z) /\ In m l.
Proof.
  destruct l as [|a r]; [congruence|]. intros _. unfold zminl.
  destruct (fold_min_spec r a) as [H1 [H2 H3]]. eexists. split; [reflexivity|]. split; [|exact H3].
  intros x [<-|Hx]; [exact H1|apply H2; exact Hx].
Qed.

Lemma zmaxl_ext l1 l2 : l1 <> [] -> (forall x, In x l1 <-> In x l2) -> zmaxl l1 = zmaxl l2.
Proof.
  intros N1 H. assert (N2 : l2 <> []).
  { destruct l1 as [|a r]; [congruence|]. intros ->. apply (H a). left. reflexivity. }
  destruct (zmaxl_spec l1 N1) as [A1 B1]. destruct (zmaxl_spec l2 N2) as [A2 B2].
  apply Z.le_antisymm; [apply A2, H, B1|apply A1, H, B2].
Qed.

(* ------------------------------------------------------------------ *)
(** * neighbourhoods *)

Lemma adjb_spec E i j : adjb E i j = true <-> In (i, j) E.
Proof.
  unfold adjb. rewrite existsb_exists. split.
  - intros [[a b] [Hin H]]. simpl in H. apply andb_true_iff in H. destruct H as [H1 H2].
    apply Nat.eqb_eq in H1. apply Nat.eqb_eq in H2. subst. exact Hin.
  - intros H. exists (i, j). split; [exact H|]. simpl. rewrite !Nat.eqb_refl. reflexivity.
Qed.

Lemma nbr_list_spec E i j : In j (nbr_list E i) <-> adjb E i j = true.
Proof.
  unfold nbr_list. rewrite in_map_iff, adjb_spec. split.
  - intros [[a b] [<- H]]. apply filter_In in H. destruct H as [H1 H2]. simpl in H2.
    apply Nat.eqb_eq in H2. subst. exact H1.
  - intros H. exists (i, j). split; [reflexivity|]. apply filter_In. split; [exact H|]. simpl. apply Nat.eqb_refl.
Qed.

Lemma row_self_spec E V i j : In j (row_self E V i) <-> j < V /\ (j = i \/ adjb E i j = true).
Proof.
  unfold row_self. rewrite filter_In, in_seq, orb_true_iff, Nat.eqb_eq.
  split; [intros [H1 H2]; split; [lia|exact H2]|intros [H1 H2]; split; [lia|exact H2]].
Qed.

Lemma row_spec E V i j : In j (row E V i) <-> j < V /\ adjb E i j = true.
Proof.
  unfold row. rewrite filter_In, in_seq.
  split; [intros [H1 H2]; split; [lia|exact H2]|intros [H1 H2]; split; [lia|exact H2]].
Qed.

Lemma row_self_nonempty E V i : i < V -> row_self E V i <> [].
Proof.
  intros Hi H. assert (X : In i (row_self E V i)) by (apply row_self_spec; split; [exact Hi|left; reflexivity]).
  rewrite H in X. exact X.
Qed.

Definition edges_in_range (E : list edge) (V : nat) : Prop := forall i j, In (i, j) E -> j < V.

(* ------------------------------------------------------------------ *)
(** * dilation: compiled loop = generic path = neighbourhood maximum *)

Lemma strict_update_is_max f l : forall m,
  fold_left (fun m j => if (zat f j >? m)%Z then zat f j else m) l m = fold_left Z.max (map (zat f) l) m.
Proof.
  induction l as [|j l IH]; intros m; simpl; [reflexivity|].
  rewrite IH. f_equal. destruct (Z.gtb_spec (zat f j) m); lia.
Qed.

Lemma dil_fast_at_zmaxl E f i : dil_fast_at E f i = zmaxl (zat f i :: map (zat f) (nbr_list E i)).
Proof. unfold dil_fast_at. rewrite strict_update_is_max. reflexivity. Qed.

Lemma dilation_fast_eq_generic E f : edges_in_range E (length f) ->
  dilation_fast E f = dilation_generic E f.
Proof.
  intros HE. unfold dilation_fast, dilation_generic. apply map_ext_in. intros i Hi. apply in_seq in Hi.
  rewrite dil_fast_at_zmaxl. apply zmaxl_ext; [discriminate|]. intros x. split.
  - intros [<-|Hx].
    + apply in_map. apply row_self_spec. split; [lia|left; reflexivity].
    + apply in_map_iff in Hx. destruct Hx as [j [<- Hj]]. apply in_map. apply row_self_spec.
      apply nbr_list_spec in Hj. split; [|right; exact Hj]. apply (HE i j). apply adjb_spec. exact Hj.
  - intros Hx. apply in_map_iff in Hx. destruct Hx as [j [<- Hj]]. apply row_self_spec in Hj.
    destruct Hj as [_ [->|Hj]]; [left; reflexivity|right]. apply in_map. apply nbr_list_spec. exact Hj.
Qed.

Lemma dilation_generic_length E f : length (dilation_generic E f) = length f.
Proof. unfold dilation_generic. rewrite map_length, seq_length. reflexivity. Qed.

Lemma dilation_generic_at E f i : i < length f ->
  zat (dilation_generic E f) i = zmaxl (map (zat f) (row_self E (length f) i)).
Proof. intros Hi. unfold zat at 1, dilation_generic. rewrite nth_map_seq0 by exact Hi. reflexivity. Qed.

Lemma dilation_is_nbhd_max E f i : i < length f ->
  (forall j, j < length f -> j = i \/ adjb E i j = true -> (zat f j <= zat (dilation_generic E f) i)%Z) /\
  (exists j, j < length f /\ (j = i \/ adjb E i j = true) /\ zat (dilation_generic E f) i = zat f j).
Proof.
  intros Hi. rewrite dilation_generic_at by exact Hi.
  destruct (zmaxl_spec (map (zat f) (row_self E (length f) i))) as [A B].
  { intros H. apply map_eq_nil in H. revert H. apply row_self_nonempty. exact Hi. }
  split.
  - intros j Hj Hadj. apply A. apply in_map. apply row_self_spec. split; assumption.
  - apply in_map_iff in B. destruct B as [j [Ej Hj]]. apply row_self_spec in Hj. destruct Hj as [Hj Hadj].
    exists j. split; [exact Hj|]. split; [exact Hadj|]. symmetry. exact Ej.
Qed.

(* ------------------------------------------------------------------ *)
(** * the erosion before commit 9c91412 (vertex excluded): what the repair changed *)

Lemma sequence_some {A} (l : list (option A)) g : sequence l = Some g ->
  length g = length l /\ forall i d, i < length l -> nth i l None = Some (nth i g d).
Proof.
  revert g. induction l as [|a l IH]; intros g H; simpl in H.
  - inversion H. split; [reflexivity|]. intros i d Hi. simpl in Hi. lia.
  - destruct a as [a|]; [|discriminate]. destruct (sequence l) as [g'|] eqn:E; [|discriminate].
    inversion H; subst. destruct (IH g' eq_refl) as [L N]. split; [simpl; congruence|].
    intros i d Hi. destruct i as [|i]; simpl; [reflexivity|]. apply N. simpl in Hi. lia.
Qed.

Lemma sequence_none {A} (l : list (option A)) : In None l -> sequence l = None.
Proof.
  induction l as [|a l IH]; intros H; simpl in H; [contradiction|]. simpl.
  destruct a as [a|]; [|reflexivity]. destruct H as [H|H]; [discriminate|]. rewrite (IH H). reflexivity.
Qed.

Lemma erosion_excl_isolated E f i : i < length f -> row E (length f) i = [] -> erosion_excl E f = None.
Proof.
  intros Hi Hrow. unfold erosion_excl. apply sequence_none. apply in_map_iff. exists i. split.
  - rewrite Hrow. reflexivity.
  - apply in_seq. lia.
Qed.

Lemma erosion_excl_is_open_nbhd_min E f g i : erosion_excl E f = Some g -> i < length f ->
  length g = length f /\
  (forall j, j < length f -> adjb E i j = true -> (zat g i <= zat f j)%Z) /\
  (exists j, j < length f /\ adjb E i j = true /\ zat g i = zat f j).
Proof.
  intros H Hi. unfold erosion_excl in H. apply sequence_some in H. destruct H as [L N].
  rewrite map_length, seq_length in L, N. split; [exact L|].
  specialize (N i 0%Z Hi). rewrite nth_map_seq0 in N by exact Hi. fold (zat g i) in N.
  destruct (row E (length f) i) as [|a r] eqn:ER; [simpl in N; discriminate|].
  destruct (zminl_spec (map (zat f) (a :: r))) as [m [Em [A B]]]; [discriminate|].
  rewrite Em in N. inversion N as [Hm]. rewrite <- Hm. split.
  - intros j Hj Hadj. apply A. apply in_map. rewrite <- ER. apply row_spec. split; assumption.
  - apply in_map_iff in B. destruct B as [j [Ej Hj]]. rewrite <- ER in Hj. apply row_spec in Hj.
    destruct Hj as [Hj Hadj]. exists j. split; [exact Hj|]. split; [exact Hadj|]. symmetry. exact Ej.
Qed.

(* ------------------------------------------------------------------ *)
(** * lattice laws for erosion / dilation as written (adjunction argument) *)

Section Lattice.
  Variable E : list edge.
  Hypothesis sym : forall i j, adjb E i j = adjb E j i.
  Variable V : nat.

  Notation D := (dilation_generic E).
  Notation Er := (erosion E).
  Definition le_on (a b : list Z) : Prop := forall i, i < V -> (zat a i <= zat b i)%Z.

  Lemma Er_length a : length (Er a) = length a.
  Proof. unfold erosion. rewrite map_length, seq_length. reflexivity. Qed.

  Lemma nbhd_sym i j : i < V -> In j (row_self E V i) -> In i (row_self E V j).
  Proof.
    intros Hi H. apply row_self_spec in H. destruct H as [Hj [->|H]].
    - apply row_self_spec. split; [exact Hi|left; reflexivity].
    - apply row_self_spec. split; [exact Hi|right]. rewrite sym. exact H.
  Qed.

  Lemma D_spec a i : length a = V -> i < V ->
    (forall j, In j (row_self E V i) -> (zat a j <= zat (D a) i)%Z) /\
    (exists j, In j (row_self E V i) /\ zat (D a) i = zat a j).
  Proof.
    intros HL Hi. rewrite dilation_generic_at by lia. rewrite HL.
    destruct (zmaxl_spec (map (zat a) (row_self E V i))) as [A B].
    { intros H. apply map_eq_nil in H. revert H. apply row_self_nonempty. exact Hi. }
    split.
    - intros j Hj. apply A. apply in_map. exact Hj.
    - apply in_map_iff in B. destruct B as [j [Ej Hj]]. exists j. split; [exact Hj|]. symmetry. exact Ej.
  Qed.

  Lemma Er_spec a i : length a = V -> i < V ->
    (forall j, In j (row_self E V i) -> (zat (Er a) i <= zat a j)%Z) /\
    (exists j, In j (row_self E V i) /\ zat (Er a) i = zat a j).
  Proof.
    intros HL Hi. unfold zat at 1 3, erosion. rewrite HL. rewrite !nth_map_seq0 by exact Hi.
    destruct (zminl_spec (map (zat a) (row_self E V i))) as [m [Em [A B]]].
    { intros H. apply map_eq_nil in H. revert H. apply row_self_nonempty. exact Hi. }
    rewrite Em. split.
    - intros j Hj. apply A. apply in_map. exact Hj.
    - apply in_map_iff in B. destruct B as [j [Ej Hj]]. exists j. split; [exact Hj|]. symmetry. exact Ej.
  Qed.

  Lemma nb_lt i j : In j (row_self E V i) -> j < V.
  Proof. intros H. apply row_self_spec in H. tauto. Qed.

  Lemma D_mono a b : length a = V -> length b = V -> le_on a b -> le_on (D a) (D b).
  Proof.
    intros La Lb H i Hi. destruct (D_spec a i La Hi) as [_ [j [Hj ->]]].
    destruct (D_spec b i Lb Hi) as [G _]. specialize (G j Hj). specialize (H j (nb_lt i j Hj)). lia.
  Qed.

  Lemma Er_mono a b : length a = V -> length b = V -> le_on a b -> le_on (Er a) (Er b).
  Proof.
    intros La Lb H i Hi. destruct (Er_spec b i Lb Hi) as [_ [j [Hj ->]]].
    destruct (Er_spec a i La Hi) as [G _]. specialize (G j Hj). specialize (H j (nb_lt i j Hj)). lia.
  Qed.

  Lemma open_le a : length a = V -> le_on (D (Er a)) a.
  Proof.
    intros La i Hi. destruct (D_spec (Er a) i (eq_trans (Er_length a) La) Hi) as [_ [j [Hj ->]]].
    destruct (Er_spec a j La (nb_lt i j Hj)) as [G _]. apply G. apply nbhd_sym; assumption.
  Qed.

  Lemma close_ge a : length a = V -> le_on a (Er (D a)).
  Proof.
    intros La i Hi. destruct (Er_spec (D a) i (eq_trans (dilation_generic_length E a) La) Hi) as [_ [j [Hj ->]]].
    destruct (D_spec a j La (nb_lt i j Hj)) as [G _]. apply G. apply nbhd_sym; assumption.
  Qed.

  Lemma le_on_antisym a b : length a = V -> length b = V -> le_on a b -> le_on b a -> a = b.
  Proof.
    intros La Lb H1 H2. apply nth_ext with (d := 0%Z) (d' := 0%Z); [congruence|].
    intros i Hi. rewrite La in Hi. specialize (H1 i Hi). specialize (H2 i Hi). unfold zat in H1, H2. lia.
  Qed.

  Lemma DL a : length a = V -> length (D a) = V.
  Proof. intros H. rewrite dilation_generic_length. exact H. Qed.
  Lemma EL a : length a = V -> length (Er a) = V.
  Proof. intros H. rewrite Er_length. exact H. Qed.

  Lemma le_on_trans a b c : le_on a b -> le_on b c -> le_on a c.
  Proof. intros H1 H2 i Hi. specialize (H1 i Hi). specialize (H2 i Hi). lia. Qed.

  Lemma iter_len (g : list Z -> list Z) : (forall a, length a = V -> length (g a) = V) ->
    forall n a, length a = V -> length (iter_n n g a) = V.
  Proof. intros Hg. induction n as [|n IH]; intros a La; simpl; [exact La|]. apply IH, Hg, La. Qed.

  Lemma iter_mono (g : list Z -> list Z) : (forall a, length a = V -> length (g a) = V) ->
    (forall a b, length a = V -> length b = V -> le_on a b -> le_on (g a) (g b)) ->
    forall n a b, length a = V -> length b = V -> le_on a b -> le_on (iter_n n g a) (iter_n n g b).
  Proof.
    intros Hg Hm. induction n as [|n IH]; intros a b La Lb H; simpl; [exact H|].
    apply IH; [apply Hg, La|apply Hg, Lb|apply Hm; assumption].
  Qed.

  Definition gopen (n : nat) (a : list Z) := iter_n n D (iter_n n Er a).
  Definition gclose (n : nat) (a : list Z) := iter_n n Er (iter_n n D a).

  Lemma DnL n a : length a = V -> length (iter_n n D a) = V.
  Proof. apply iter_len. exact DL. Qed.
  Lemma EnL n a : length a = V -> length (iter_n n Er a) = V.
  Proof. apply iter_len. exact EL. Qed.

  Lemma gopen_le n : forall a, length a = V -> le_on (gopen n a) a.
  Proof.
    unfold gopen. induction n as [|n IH]; intros a La; [intros i Hi; simpl; lia|].
    rewrite (iter_n_S_out Er n a). change (iter_n (S n) D (Er (iter_n n Er a))) with (iter_n n D (D (Er (iter_n n Er a)))).
    apply le_on_trans with (iter_n n D (iter_n n Er a)); [|apply IH, La].
    apply (iter_mono D DL D_mono); [apply DL, EL, EnL, La|apply EnL, La|]. apply open_le. apply EnL, La.
  Qed.

  Lemma gclose_ge n : forall a, length a = V -> le_on a (gclose n a).
  Proof.
    unfold gclose. induction n as [|n IH]; intros a La; [intros i Hi; simpl; lia|].
    rewrite (iter_n_S_out D n a). change (iter_n (S n) Er (D (iter_n n D a))) with (iter_n n Er (Er (D (iter_n n D a)))).
    apply le_on_trans with (iter_n n Er (iter_n n D a)); [apply IH, La|].
    apply (iter_mono Er EL Er_mono); [apply DnL, La|apply EL, DL, DnL, La|]. apply close_ge. apply DnL, La.
  Qed.

  Lemma gopen_len n a : length a = V -> length (gopen n a) = V.
  Proof. intros La. unfold gopen. apply DnL, EnL, La. Qed.
  Lemma gclose_len n a : length a = V -> length (gclose n a) = V.
  Proof. intros La. unfold gclose. apply EnL, DnL, La. Qed.

  Lemma gopen_idem n a : length a = V -> gopen n (gopen n a) = gopen n a.
  Proof.
    intros La. apply le_on_antisym.
    - apply gopen_len, gopen_len, La.
    - apply gopen_len, La.
    - apply gopen_le. apply gopen_len, La.
    - unfold gopen at 1 3. apply (iter_mono D DL D_mono); [apply EnL, La|apply EnL, gopen_len, La|].
      apply (gclose_ge n (iter_n n Er a)). apply EnL, La.
  Qed.

  Lemma gclose_idem n a : length a = V -> gclose n (gclose n a) = gclose n a.
  Proof.
    intros La. apply le_on_antisym.
    - apply gclose_len, gclose_len, La.
    - apply gclose_len, La.
    - unfold gclose at 1 3. apply (iter_mono Er EL Er_mono); [apply DnL, gclose_len, La|apply DnL, La|].
      apply (gopen_le n (iter_n n D a)). apply DnL, La.
    - apply gclose_ge. apply gclose_len, La.
  Qed.
End Lattice.

(* ------------------------------------------------------------------ *)
(** * opening / closing as written (dilation through the compiled path) *)

Lemma dilation_fast_length E f : length (dilation_fast E f) = length f.
Proof. unfold dilation_fast. rewrite map_length, seq_length. reflexivity. Qed.

Lemma iter_fast_eq_generic E n : forall f, edges_in_range E (length f) ->
  iter_n n (dilation_fast E) f = iter_n n (dilation_generic E) f.
Proof.
  induction n as [|n IH]; intros f HE; simpl; [reflexivity|].
  rewrite dilation_fast_eq_generic by exact HE. apply IH. rewrite dilation_generic_length. exact HE.
Qed.

Lemma opening_eq_gen E n f : edges_in_range E (length f) -> opening E n f = gopen E n f.
Proof.
  intros HE. unfold opening, gopen. apply iter_fast_eq_generic.
  rewrite (EnL E (length f)) by reflexivity. exact HE.
Qed.

Lemma closing_eq_gen E n f : edges_in_range E (length f) -> closing E n f = gclose E n f.
Proof. intros HE. unfold closing, gclose. rewrite iter_fast_eq_generic by exact HE. reflexivity. Qed.

Lemma erosion_is_nbhd_min E f i : i < length f ->
  (forall j, j < length f -> j = i \/ adjb E i j = true -> (zat (erosion E f) i <= zat f j)%Z) /\
  (exists j, j < length f /\ (j = i \/ adjb E i j = true) /\ zat (erosion E f) i = zat f j).
Proof.
  intros Hi. destruct (Er_spec E (length f) f i eq_refl Hi) as [A [j [Hj Ej]]]. split.
  - intros j' Hj' Hadj. apply A. apply row_self_spec. split; assumption.
  - apply row_self_spec in Hj. destruct Hj as [Hj Hadj]. exists j. split; [exact Hj|]. split; [exact Hadj|exact Ej].
Qed.
